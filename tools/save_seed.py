#!/usr/bin/env python3
import sys, json, os, shutil
name, src, confirmed = sys.argv[1], sys.argv[2], sys.argv[3]
dst = f"/verif/seeded/{name}"
os.makedirs(dst, exist_ok=True)
shutil.copy(f"{src}/patch.diff", dst)
for f in os.listdir(src):
    if f.startswith("demo"):
        shutil.copy(f"{src}/{f}", dst)
m = json.load(open(f"{src}/meta.json"))
m["confirmed"] = [confirmed]
m.setdefault("detected_by", "pending")
json.dump(m, open(f"{dst}/meta.json", "w"), indent=1)
print("saved", dst)
