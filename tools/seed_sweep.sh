#!/bin/bash
# seed_sweep.sh [seed-name ...]: for each seeded change, apply its patch to a scratch worktree of
# /repo's HEAD, run the property's check against it (VERIF_REPO), expect exit 1 + VIOLATION.
# Results: /verif/seeded/RESULTS.txt (appended).
cd /verif
WT=/tmp/sweep-wt
names="$@"
[ -z "$names" ] && names=$(ls seeded | grep "^C[0-9][0-9]-")
for name in $names; do
  id=${name%%-*}
  git -C /repo worktree remove --force $WT 2>/dev/null
  git -C /repo worktree add -q $WT HEAD || exit 2
  patch=/verif/seeded/$name/patch.diff
  [ -f /verif/seeded/$name/patch.rebased.diff ] && patch=/verif/seeded/$name/patch.rebased.diff
  if grep -q '"obsolete"' /verif/seeded/$name/meta.json; then echo "$name: OBSOLETE (see meta.json)" | tee -a seeded/RESULTS.txt; continue; fi
  if ! git -C $WT apply $patch 2>/tmp/apply.err; then
    echo "$name: PATCH-DOES-NOT-APPLY $(head -1 /tmp/apply.err)" | tee -a seeded/RESULTS.txt
    continue
  fi
  t0=$(date +%s)
  out=$(VERIF_REPO=$WT VERIF_NO_WITNESS=1 timeout ${SWEEP_TIMEOUT:-3600} ./bin/gosmt check --no-evidence $SWEEP_ARGS $id 2>&1)
  rc=$?
  t1=$(date +%s)
  vio=$(echo "$out" | grep -c "^VIOLATION")
  first=$(echo "$out" | grep "violated:" | head -2 | cut -c1-260 | tr '\n' ' ')
  echo "$name: exit=$rc violations=$vio wall=$((t1-t0))s $first" | tee -a seeded/RESULTS.txt
done
git -C /repo worktree remove --force $WT 2>/dev/null
