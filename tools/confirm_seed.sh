#!/bin/bash
# confirm_seed.sh <worktree> <patch> <demo-src> <demo-dst-relative> <test-run-regex> <pkg> [tags]
# Confirms: with patch -> package tests pass and demo FAILS; without patch -> demo PASSES.
set -u
WT=$1; PATCH=$2; DEMO=$3; DST=$4; RUN=$5; PKG=$6; TAGS=${7:-}
export GOFLAGS=-mod=mod GOPROXY=off GOSUMDB=off GOTOOLCHAIN=local
cd "$WT" || exit 2
git checkout -q -- . ; git clean -fdq -e patch.diff -e meta.json -e 'demo*' 
rm -f "$DST"
git apply "$PATCH" || { echo "patch does not apply"; exit 2; }
T=""; [ -n "$TAGS" ] && T="-tags=$TAGS"
echo "== existing tests with patch ($PKG $T)"
go test $T -count=1 "./$PKG/..." 2>&1 | tail -5
cp "$DEMO" "$DST"
echo "== demo with patch (must FAIL)"
go test $T -count=1 -run "$RUN" "./$(dirname $DST)/" 2>&1 | tail -4
git apply -R "$PATCH"
echo "== demo without patch (must PASS)"
go test $T -count=1 -run "$RUN" "./$(dirname $DST)/" 2>&1 | tail -3
rm -f "$DST"
git apply "$PATCH"   # leave the worktree patched for running the checks
