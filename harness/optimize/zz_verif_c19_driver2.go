package optimize

import (
	"errors"
	"math"
	"sync"

	"gonum.org/v1/gonum/mat"
)

// C19, second part of the driver harnesses: the real Minimize driver
// (optimize/minimize.go) executed under the engine's goroutine scheduler with
// GuessAndCheck, with the LOCAL methods through the real local driver
// (optimize/local.go localOptimizer.run) and with small harness Methods for the
// documented panics. Objective, gradient and Hessian values are symbolic (a
// fresh value per callback index, constrained to be a function of the point);
// evaluation/iteration limits are tiny so that every run is bounded.
//
// Obligations (the clauses of C19 that concern the driver):
//   - Minimize returns (a deadlock is a violation by itself), verifSchedDrain()==0,
//     no data race (automatic);
//   - Stats.{Func,Grad,Hess}Evaluations equal the number of callbacks made;
//   - limits are respected: all local methods run ONE task and send one operation
//     at a time, every operation adds at most one to each counter and the driver
//     checks the limits after every evaluation, so for them a positive limit L
//     means count <= L exactly (no slack); for GuessAndCheck with nTasks workers
//     count <= L + nTasks - 1 (the evaluations already handed to other workers);
//   - the status names the condition that stopped the run (each status implies
//     its condition; for the sequential local methods also the converse for the
//     evaluation limits: a reached limit is reported);
//   - Result.F is the objective value at Result.X, X is a point the objective was
//     evaluated at (or the initial point with the supplied InitValues), and for
//     local methods F <= F(initial point); these three are stated for runs that
//     performed at least one MajorIteration (see notes/C19_driver.md for the
//     placeholder result of runs stopped before the first MajorIteration);
//   - Stats.MajorIterations <= limit, and consistent with what a Recorder saw.

// ---------------------------------------------------------------------------
// GuessAndCheck

type verifC19dRander struct {
	n   int
	max int
}

// Rand returns the scripted point (k) at the k-th call. It is only called from
// the method goroutine (a concurrent call would be reported as a race).
func (r *verifC19dRander) Rand(x []float64) []float64 {
	verifAssert(r.n < r.max, "GuessAndCheck draws a bounded number of points")
	k := r.n
	if k >= r.max {
		k = r.max - 1
	}
	r.n++
	x[0] = float64(k)
	return x
}

// VerifC19_DriverGuessAndCheck: Minimize + GuessAndCheck, scripted points
// 0,1,2,..., symbolic objective values, Concurrent 0..2, function evaluation
// and/or major iteration limit (at least one: the method never stops itself).
func VerifC19_DriverGuessAndCheck() {
	conc := verifChoose("concurrent", 0, verifParam("c19conc", 2))
	limit := verifChoose("funclimit", 0, verifParam("c19gclimit", 3))
	iterLimit := verifChoose("iterlimit", 0, 1) * 2
	if limit == 0 && iterLimit == 0 {
		return
	}
	const maxPts = 16
	obj := &verifC19objective{vals: verifFloats("v", maxPts), seen: make([]bool, maxPts)}
	rnd := &verifC19dRander{max: maxPts}
	p := Problem{Func: obj.f}
	settings := &Settings{Concurrent: conc, FuncEvaluations: limit, MajorIterations: iterLimit, Converger: NeverTerminate{}}
	nTasks := conc
	if nTasks == 0 {
		nTasks = 1
	}

	verifSched(verifParam("c19sched", 1))
	verifSchedPreempt(verifParam("c19dpreempt", 0) == 1)
	res, err := Minimize(p, []float64{0}, settings, &GuessAndCheck{Rander: rnd})
	verifAssert(verifSchedDrain() == 0, "Minimize leaves no goroutine behind")
	verifAssert(err == nil, "no error")
	if err != nil || res == nil {
		return
	}
	verifAssert(res.Stats.FuncEvaluations == obj.calls, "Stats.FuncEvaluations equals the number of calls of Func")
	verifAssert(res.Stats.GradEvaluations == 0 && res.Stats.HessEvaluations == 0, "no gradient or Hessian evaluation is counted")
	if limit > 0 {
		verifAssert(obj.calls <= limit+nTasks-1, "function evaluation limit respected up to the evaluations in flight")
	}
	if iterLimit > 0 {
		// Evaluations already in flight when the limit is reached still produce
		// their MajorIteration during shutdown.
		verifAssert(res.Stats.MajorIterations <= iterLimit+nTasks-1, "iteration limit respected up to the evaluations in flight")
	}
	verifAssert(res.Stats.MajorIterations <= obj.calls, "every major iteration follows an evaluation")
	st := res.Status
	verifAssert(st == FunctionEvaluationLimit || st == IterationLimit, "status is one of the two possible stopping conditions")
	switch st {
	case FunctionEvaluationLimit:
		verifAssert(limit > 0 && res.Stats.FuncEvaluations >= limit, "FunctionEvaluationLimit: the configured limit was reached")
	case IterationLimit:
		verifAssert(iterLimit > 0 && res.Stats.MajorIterations >= iterLimit, "IterationLimit: the configured limit was reached")
	}
	if res.Stats.MajorIterations > 0 {
		i := int(res.X[0])
		verifAssert(i >= 0 && i < maxPts && float64(i) == res.X[0], "X is one of the drawn points")
		if i >= 0 && i < maxPts {
			verifAssert(obj.seen[i], "X is a point the objective was evaluated at")
			verifAssertEqF(res.F, obj.vals[i], "F is the objective value at X")
		}
	}
	verifReach("end")
}

// ---------------------------------------------------------------------------
// Local methods: objective with one symbolic value per callback index.

const verifC19dCap = 8

type verifC19dObj struct {
	mu                     sync.Mutex
	fv, gv, hv             []float64 // value returned by the i-th call
	fx, gx, hx             []float64 // point of the i-th call (dimension 1)
	fcalls, gcalls, hcalls int
	special                int // 0 none; 1: +Inf, 2: NaN, 3: -Inf returned by Func call specialAt
	specialAt              int
	// gset/hset non-nil: the i-th gradient (Hessian) value is CASE-SPLIT over the
	// set (at the time of the call) instead of being symbolic. Used for the
	// methods whose direction and step computations divide by gradient
	// differences (BFGS, LBFGS, CG, Newton): points and directions are then
	// concrete, the objective values stay symbolic.
	gset, hset []float64
}

func verifC19dNewObj(tag string) *verifC19dObj {
	return &verifC19dObj{
		fv: verifFloats(tag+"f", verifC19dCap), gv: verifFloats(tag+"g", verifC19dCap), hv: verifFloats(tag+"h", verifC19dCap),
		fx: make([]float64, verifC19dCap), gx: make([]float64, verifC19dCap), hx: make([]float64, verifC19dCap),
	}
}

// The callbacks prune (assumption, recorded in the spec) runs that need more than
// verifC19dCap callbacks of one kind; with the limits used no run gets there.
func (o *verifC19dObj) f(x []float64) float64 {
	o.mu.Lock()
	i := o.fcalls
	verifAssume(i < verifC19dCap)
	o.fcalls++
	o.fx[i] = x[0]
	v := o.fv[i]
	// The objective is a function: equal points give equal values.
	for j := 0; j < i; j++ {
		verifAssume(verifImplies(o.fx[j] == x[0], o.fv[j] == v))
	}
	if o.special != 0 && i == o.specialAt {
		switch o.special {
		case 1:
			v = math.Inf(1)
		case 2:
			v = math.NaN()
		default:
			v = math.Inf(-1)
		}
		o.fv[i] = v
	}
	o.mu.Unlock()
	return v
}

func (o *verifC19dObj) grad(g, x []float64) {
	o.mu.Lock()
	i := o.gcalls
	verifAssume(i < verifC19dCap)
	o.gcalls++
	o.gx[i] = x[0]
	if o.gset != nil {
		o.gv[i] = o.gset[verifChoose("gval"+string(rune('0'+i)), 0, len(o.gset)-1)]
	}
	v := o.gv[i]
	for j := 0; j < i; j++ {
		verifAssume(verifImplies(o.gx[j] == x[0], o.gv[j] == v))
	}
	o.mu.Unlock()
	g[0] = v
}

func (o *verifC19dObj) hess(h *mat.SymDense, x []float64) {
	o.mu.Lock()
	i := o.hcalls
	verifAssume(i < verifC19dCap)
	o.hcalls++
	o.hx[i] = x[0]
	if o.hset != nil {
		o.hv[i] = o.hset[verifChoose("hval"+string(rune('0'+i)), 0, len(o.hset)-1)]
	}
	v := o.hv[i]
	for j := 0; j < i; j++ {
		verifAssume(verifImplies(o.hx[j] == x[0], o.hv[j] == v))
	}
	o.mu.Unlock()
	h.SetSym(0, 0, v)
}

var verifC19dRecErr = errors.New("verif: recorder failure")

// verifC19dRec is a Recorder that fails at a scripted call and checks that the
// statistics handed to it agree with the callbacks made so far.
type verifC19dRec struct {
	obj        *verifC19dObj
	failAt     int // index of the Record call that returns an error; -1: never
	calls      int
	inits      int
	posts      int
	majors     int
	failed     bool
	failedOp   Operation
	afterFail  int
	lastMajorF float64
}

func (r *verifC19dRec) Init() error { return nil }

func (r *verifC19dRec) Record(loc *Location, op Operation, stats *Stats) error {
	k := r.calls
	r.calls++
	if r.failed {
		r.afterFail++
	}
	switch op {
	case InitIteration:
		r.inits++
		verifAssert(k == 0, "InitIteration is the first record")
	case PostIteration:
		r.posts++
	case MajorIteration:
		r.majors++
		verifAssert(stats.MajorIterations == r.majors, "Recorder: Stats.MajorIterations counts the major iterations recorded")
		r.lastMajorF = loc.F
	}
	r.obj.mu.Lock()
	verifAssert(stats.FuncEvaluations == r.obj.fcalls, "Recorder: Stats.FuncEvaluations equals the callbacks made so far")
	verifAssert(stats.GradEvaluations == r.obj.gcalls, "Recorder: Stats.GradEvaluations equals the callbacks made so far")
	verifAssert(stats.HessEvaluations == r.obj.hcalls, "Recorder: Stats.HessEvaluations equals the callbacks made so far")
	r.obj.mu.Unlock()
	if k == r.failAt {
		r.failed = true
		r.failedOp = op
		return verifC19dRecErr
	}
	return nil
}

// verifC19dCfg describes one local run for the common checker.
type verifC19dCfg struct {
	x0           float64
	haveInitF    bool
	initF        float64
	haveInitG    bool
	initG        float64
	fLimit       int
	gLimit       int
	hLimit       int
	itLimit      int
	gradThresh   float64 // Settings.GradientThreshold
	methodThresh float64 // effective threshold of the method (NaN: none)
	usesGrad     bool
	fconv        bool // a FunctionConverge converger is installed
	rec          *verifC19dRec
	methodErrs   []error // errors the method may legitimately fail with
}

func verifC19dAbs(x float64) float64 {
	return verifIteF(x < 0, -x, x)
}

// verifC19dCheck states the coherence obligations of a run of a local method
// (one task, one operation at a time).
func verifC19dCheck(res *Result, err error, obj *verifC19dObj, c *verifC19dCfg) {
	verifAssert(verifSchedDrain() == 0, "Minimize leaves no goroutine behind")
	rec := c.rec
	if rec != nil && rec.failAt == 0 {
		verifAssert(res == nil && err == verifC19dRecErr, "an error of the InitIteration record is returned")
		verifAssert(obj.fcalls == 0 && obj.gcalls == 0 && obj.hcalls == 0, "nothing is evaluated after the InitIteration record failed")
		return
	}
	verifAssert(res != nil, "a result is returned")
	if res == nil {
		return
	}
	s := res.Stats
	verifAssert(s.FuncEvaluations == obj.fcalls, "Stats.FuncEvaluations equals the number of calls of Func")
	verifAssert(s.GradEvaluations == obj.gcalls, "Stats.GradEvaluations equals the number of calls of Grad")
	verifAssert(s.HessEvaluations == obj.hcalls, "Stats.HessEvaluations equals the number of calls of Hess")
	if c.fLimit > 0 {
		verifAssert(obj.fcalls <= c.fLimit, "function evaluation limit respected (sequential method: no slack)")
	}
	if c.gLimit > 0 {
		verifAssert(obj.gcalls <= c.gLimit, "gradient evaluation limit respected (sequential method: no slack)")
	}
	if c.hLimit > 0 {
		verifAssert(obj.hcalls <= c.hLimit, "Hessian evaluation limit respected (sequential method: no slack)")
	}
	if c.itLimit > 0 {
		verifAssert(s.MajorIterations <= c.itLimit, "major iteration limit respected")
	}
	verifAssert(s.MajorIterations >= 0, "MajorIterations non-negative")

	st := res.Status
	verifAssert(st != NotTerminated, "the run reports a stopping condition")
	recFailed := rec != nil && rec.failed
	if recFailed && rec.failedOp == PostIteration {
		// The final record of a run that stopped without error failed: its error
		// is returned together with the status of the stopping condition.
		verifAssert(err == verifC19dRecErr && st != Failure, "an error of the PostIteration record is returned with the stopping status")
		recFailed = false
	} else {
		verifAssert((err != nil) == (st == Failure), "an error is returned exactly with status Failure")
	}
	switch st {
	case FunctionEvaluationLimit:
		verifAssert(c.fLimit > 0 && obj.fcalls >= c.fLimit, "FunctionEvaluationLimit: the configured limit was reached")
	case GradientEvaluationLimit:
		verifAssert(c.gLimit > 0 && obj.gcalls >= c.gLimit, "GradientEvaluationLimit: the configured limit was reached")
	case HessianEvaluationLimit:
		verifAssert(c.hLimit > 0 && obj.hcalls >= c.hLimit, "HessianEvaluationLimit: the configured limit was reached")
	case IterationLimit:
		verifAssert(c.itLimit > 0 && s.MajorIterations >= c.itLimit, "IterationLimit: the configured limit was reached")
	case GradientThreshold:
		verifAssert(c.usesGrad && res.Gradient != nil && len(res.Gradient) == 1, "GradientThreshold: a gradient is reported")
		if res.Gradient != nil && len(res.Gradient) == 1 {
			n := verifC19dAbs(res.Gradient[0])
			small := false
			if c.gradThresh > 0 {
				small = verifOr(small, n < c.gradThresh)
			}
			if !math.IsNaN(c.methodThresh) {
				small = verifOr(small, n < c.methodThresh)
			}
			verifAssert(small, "GradientThreshold: the reported gradient is below a configured threshold")
		}
	case FunctionConvergence:
		verifAssert(c.fconv, "FunctionConvergence only with a FunctionConverge converger")
	case FunctionNegativeInfinity:
		verifAssert(math.IsInf(res.F, -1), "FunctionNegativeInfinity: F is -Inf")
	case Failure:
		if recFailed {
			verifAssert(err == verifC19dRecErr, "Failure: the Recorder's error is returned")
		} else {
			ok := false
			for _, e := range c.methodErrs {
				if err == e {
					ok = true
				}
			}
			if _, isF := err.(ErrFunc); isF {
				ok = obj.special == 1 || obj.special == 2
			}
			verifAssert(ok, "Failure: the error is one the method documents")
		}
	default:
		verifAssert(false, "unexpected status")
	}
	switch st {
	case IterationLimit, FunctionConvergence, FunctionNegativeInfinity, GradientThreshold:
		verifAssert(s.MajorIterations >= 1, "a status decided at a major iteration comes with a counted major iteration")
	}
	if recFailed {
		verifAssert(st == Failure && err == verifC19dRecErr, "a failing Recorder stops the run with Failure and its error")
		verifAssert(rec.afterFail == 0, "the Recorder is not called again after it failed")
	}
	if rec != nil {
		verifAssert(rec.inits == 1, "exactly one InitIteration record")
		if st != Failure {
			verifAssert(rec.posts == 1, "exactly one PostIteration record after a run that stopped without error")
		} else {
			verifAssert(rec.posts == 0, "no PostIteration record after an error")
		}
		// The terminating major iteration is not recorded.
		verifAssert(rec.majors == s.MajorIterations || rec.majors+1 == s.MajorIterations, "Stats.MajorIterations agrees with the major iterations the Recorder saw")
		switch st {
		case IterationLimit, FunctionConvergence, FunctionNegativeInfinity:
			// stopped by a major iteration, which is counted but not recorded
			verifAssert(rec.majors+1 == s.MajorIterations, "the major iteration that stopped the run is counted")
		case FunctionEvaluationLimit, GradientEvaluationLimit, HessianEvaluationLimit, Failure:
			verifAssert(rec.majors == s.MajorIterations, "every major iteration before an evaluation limit or a failure was recorded")
		}
	}

	// Converse for the sequential methods: a reached evaluation limit is reported.
	if c.fLimit > 0 && obj.fcalls >= c.fLimit {
		verifAssert(st == FunctionEvaluationLimit, "a reached function evaluation limit is the reported status")
	} else if c.gLimit > 0 && obj.gcalls >= c.gLimit {
		verifAssert(st == GradientEvaluationLimit, "a reached gradient evaluation limit is the reported status")
	} else if c.hLimit > 0 && obj.hcalls >= c.hLimit {
		verifAssert(st == HessianEvaluationLimit, "a reached Hessian evaluation limit is the reported status")
	} else if c.itLimit > 0 && s.MajorIterations >= c.itLimit {
		verifAssert(st == IterationLimit || st == GradientThreshold || st == FunctionConvergence || st == FunctionNegativeInfinity,
			"a reached iteration limit is reported unless the same iteration converged")
	}

	// Location coherence.
	if s.MajorIterations > 0 {
		verifAssert(len(res.X) == 1, "X has the problem dimension")
		found := false
		if c.haveInitF {
			found = verifAnd(res.X[0] == c.x0, res.F == c.initF)
		}
		for i := 0; i < obj.fcalls; i++ {
			found = verifOr(found, verifAnd(res.X[0] == obj.fx[i], res.F == obj.fv[i]))
		}
		verifAssert(found, "X is an evaluated point (or the initial point) and F the objective value there")
		f0 := c.initF
		if !c.haveInitF {
			f0 = obj.fv[0]
			verifAssert(obj.fx[0] == c.x0, "the first evaluation is at the initial point")
		}
		if !math.IsNaN(f0) {
			verifAssert(res.F <= f0, "a local method reports a point no worse than the initial point")
		}
		if res.Gradient != nil && c.usesGrad {
			gfound := false
			if c.haveInitG {
				gfound = verifAnd(res.X[0] == c.x0, res.Gradient[0] == c.initG)
			}
			for i := 0; i < obj.gcalls; i++ {
				gfound = verifOr(gfound, verifAnd(res.X[0] == obj.gx[i], res.Gradient[0] == obj.gv[i]))
			}
			verifAssert(gfound, "a reported gradient is the gradient evaluated at X")
		}
	}
}


// verifC19dLS is a scripted Linesearcher obeying the Linesearcher contract: it
// asks for evaluations at halved steps, or for the gradient at the same step,
// concludes (MajorIteration) only at a step whose value does not exceed the
// value at the start of the search (so that "no worse than the initial point"
// is the Linesearcher's promise, as for the real ones), or fails.
type verifC19dLS struct {
	script []int // per Iterate call: 0 Func at a new step, 1 Func|Grad at a new step, 2 conclude, 3 fail, 4 Grad at the same step
	initOp Operation
	k      int
	step   float64
	initF  float64
	haveF  bool
}

func (l *verifC19dLS) Init(f, g float64, step float64) Operation {
	l.step = step
	l.initF = f
	l.haveF = l.initOp&FuncEvaluation != 0
	return l.initOp
}

func (l *verifC19dLS) Iterate(f, g float64) (Operation, float64, error) {
	a := 2
	if l.k < len(l.script) {
		a = l.script[l.k]
	}
	l.k++
	if a == 2 && (!l.haveF || f > l.initF) {
		a = 0
	}
	switch a {
	case 2:
		return MajorIteration, l.step, nil
	case 3:
		return NoOperation, l.step, ErrLinesearcherFailure
	case 4:
		return GradEvaluation, l.step, nil
	case 1:
		l.step *= 0.5
		l.haveF = true
		return FuncEvaluation | GradEvaluation, l.step, nil
	}
	l.step *= 0.5
	l.haveF = true
	return FuncEvaluation, l.step, nil
}

// verifC19dOpt are the ranges a local-method harness explores (all case splits).
type verifC19dOpt struct {
	fLo, fHi int // FuncEvaluations limit (>= 1: the only bound on a line search)
	gHi      int // GradEvaluations limit 0..gHi
	hHi      int // HessEvaluations limit 0..hHi
	itHi     int // MajorIterations limit 0..itHi
	concHi   int // Settings.Concurrent 0..concHi
	initHi   int // InitValues: 0 none, 1 F, 2 F+Gradient, 3 F+Gradient+Hessian
	thresh   int // 0: Settings.GradientThreshold = 0; 1: also an arbitrary positive threshold
	mthresh  int // method GradStopThreshold kinds 0..mthresh: 0 default (1e-12), 1 NaN (off), 2 arbitrary positive
	recLo    int // Recorder: -2 none, -1 never failing, k >= 0 failing at Record call k
	recHi    int
	special  int // 0..special: Func call 0 returns 0 a symbolic value, 1 +Inf, 2 NaN, 3 -Inf
	fconv    int // 0: NeverTerminate; 1: also FunctionConverge{Iterations: 1, Absolute: arbitrary >= 0}
	gset     []float64 // non-nil: gradient values case-split over this set, x0 = 0, InitValues gradient from the set
	hset     []float64 // non-nil: Hessian values case-split over this set
}

const (
	verifC19dGD = iota
	verifC19dGDScript
	verifC19dBFGS
	verifC19dLBFGS
	verifC19dNewton
	verifC19dNelderMead
	verifC19dCG
)

func verifC19dLinesearcher(kind int) Linesearcher {
	if kind == 1 {
		return &Bisection{}
	}
	return &Backtracking{}
}

func verifC19dStepSizer(kind int) StepSizer {
	switch kind {
	case 1:
		return &QuadraticStepSize{}
	case 2:
		return &FirstOrderStepSize{}
	}
	return ConstantStepSize{Size: 1}
}

// verifC19dMethod builds the method and fills in what the checker needs to know about it.
func verifC19dMethod(kind int, c *verifC19dCfg, mt float64) Method {
	c.usesGrad = true
	c.methodErrs = []error{ErrLinesearcherFailure, ErrNoProgress, ErrNonDescentDirection}
	switch kind {
	case verifC19dGD:
		return &GradientDescent{GradStopThreshold: mt,
			Linesearcher: verifC19dLinesearcher(verifChoose("linesearcher", 0, verifParam("c19dls", 0))),
			StepSizer:    verifC19dStepSizer(verifChoose("stepsizer", 0, verifParam("c19dstep", 0)))}
	case verifC19dGDScript:
		n := verifParam("c19dscript", 2)
		ls := &verifC19dLS{initOp: FuncEvaluation}
		if verifChoose("lsinit", 0, 1) == 1 {
			ls.initOp = FuncEvaluation | GradEvaluation
		}
		for i := 0; i < n; i++ {
			ls.script = append(ls.script, verifChoose("ls"+string(rune('0'+i)), 0, 4))
		}
		return &GradientDescent{GradStopThreshold: mt, Linesearcher: ls, StepSizer: ConstantStepSize{Size: 1}}
	case verifC19dBFGS:
		return &BFGS{GradStopThreshold: mt, Linesearcher: verifC19dLinesearcher(verifChoose("linesearcher", 0, verifParam("c19dls", 1)))}
	case verifC19dLBFGS:
		return &LBFGS{GradStopThreshold: mt, Store: verifChoose("store", 1, verifParam("c19dstore", 2)),
			Linesearcher: verifC19dLinesearcher(verifChoose("linesearcher", 0, verifParam("c19dls", 1)))}
	case verifC19dNewton:
		return &Newton{GradStopThreshold: mt, Linesearcher: verifC19dLinesearcher(verifChoose("linesearcher", 0, verifParam("c19dls", 1)))}
	case verifC19dNelderMead:
		c.usesGrad = false
		c.methodThresh = math.NaN()
		c.methodErrs = nil
		return &NelderMead{}
	}
	var v CGVariant
	switch verifChoose("variant", 0, verifParam("c19dvariant", 1)) {
	case 0:
		v = &FletcherReeves{}
	case 1:
		v = &PolakRibierePolyak{}
	case 2:
		v = &HestenesStiefel{}
	case 3:
		v = &DaiYuan{}
	default:
		v = &HagerZhang{}
	}
	return &CG{GradStopThreshold: mt, Variant: v, InitialStep: ConstantStepSize{Size: 1},
		Linesearcher: verifC19dLinesearcher(verifChoose("linesearcher", 0, verifParam("c19dls", 0)))}
}

// verifC19dLocal runs one local method through Minimize under the scheduler
// for every combination of the options and states the obligations.
func verifC19dLocal(kind int, o verifC19dOpt) {
	c := &verifC19dCfg{x0: verifFloat("x0"), methodThresh: 1e-12}
	c.fLimit = verifChoose("funclimit", o.fLo, o.fHi)
	c.gLimit = verifChoose("gradlimit", 0, o.gHi)
	c.hLimit = verifChoose("hesslimit", 0, o.hHi)
	c.itLimit = verifChoose("iterlimit", 0, o.itHi)
	conc := verifChoose("concurrent", 0, o.concHi)
	init := verifChoose("initvalues", 0, o.initHi)
	obj := verifC19dNewObj("o")
	obj.gset, obj.hset = o.gset, o.hset
	if o.gset != nil {
		c.x0 = 0
	}
	if init == 0 {
		obj.special = verifChoose("special", 0, o.special)
	}
	if verifChoose("gradthresh", 0, o.thresh) == 1 {
		c.gradThresh = verifFloat("gthr")
		verifAssume(c.gradThresh > 0)
	}
	mt := 0.0
	switch verifChoose("methodthresh", 0, o.mthresh) {
	case 1:
		mt = math.NaN()
		c.methodThresh = math.NaN()
	case 2:
		mt = verifFloat("mthr")
		verifAssume(mt > 0)
		c.methodThresh = mt
	}
	method := verifC19dMethod(kind, c, mt)
	if r := verifChoose("recorder", o.recLo, o.recHi); r >= -1 {
		c.rec = &verifC19dRec{obj: obj, failAt: r}
	}

	s := &Settings{
		Concurrent:        conc,
		FuncEvaluations:   c.fLimit,
		GradEvaluations:   c.gLimit,
		HessEvaluations:   c.hLimit,
		MajorIterations:   c.itLimit,
		GradientThreshold: c.gradThresh,
		Converger:         NeverTerminate{},
	}
	if verifChoose("converger", 0, o.fconv) == 1 {
		abs := verifFloat("fcabs")
		verifAssume(abs >= 0)
		s.Converger = &FunctionConverge{Absolute: abs, Iterations: 1}
		c.fconv = true
	}
	if c.rec != nil {
		s.Recorder = c.rec
	}
	if init >= 1 {
		c.haveInitF, c.initF = true, verifFloat("initF")
		s.InitValues = &Location{F: c.initF}
		if init >= 2 {
			c.haveInitG, c.initG = true, verifFloat("initG")
			if o.gset != nil {
				c.initG = o.gset[verifChoose("initGval", 0, len(o.gset)-1)]
			}
			s.InitValues.Gradient = []float64{c.initG}
		}
		if init >= 3 {
			h := verifFloat("initH")
			if o.hset != nil {
				h = o.hset[verifChoose("initHval", 0, len(o.hset)-1)]
			}
			s.InitValues.Hessian = mat.NewSymDense(1, []float64{h})
		}
	}
	p := Problem{Func: obj.f}
	if c.usesGrad {
		p.Grad = obj.grad
	}
	if kind == verifC19dNewton {
		p.Hess = obj.hess
	}

	verifSched(verifParam("c19sched", 1))
	verifSchedPreempt(verifParam("c19dpreempt", 0) == 1)
	res, err := Minimize(p, []float64{c.x0}, s, method)
	verifC19dCheck(res, err, obj, c)
	if res != nil {
		if d := verifParam("c19ddbg", -1); d >= 0 {
			// Coverage probe (off by default): reports whether status d is reachable.
			verifAssert(int(res.Status) != d, "PROBE: status reached")
		}
		if c.fconv && res.Status == FunctionConvergence {
			verifAssert(res.Stats.MajorIterations >= 2, "FunctionConvergence needs a second major iteration")
		}
	}
	verifReach("end")
}

// VerifC19_DriverGradientDescentLimits: GradientDescent + Backtracking through
// localOptimizer.run and the real driver; every combination of function
// (1..3), gradient (0..2) and iteration (0..2) limits, Concurrent 0..2.
func VerifC19_DriverGradientDescentLimits() {
	l := verifParam("c19dlim", 2)
	verifC19dLocal(verifC19dGD, verifC19dOpt{fLo: 1, fHi: l + 1, gHi: l, itHi: l, concHi: 2, recLo: -2, recHi: -2})
}

// VerifC19_DriverGradientDescentSettings: InitValues none / F / F+Gradient,
// Settings.GradientThreshold 0 or arbitrary, method threshold default / off /
// arbitrary, an objective whose first value is +Inf, NaN or -Inf, FunctionConverge.
func VerifC19_DriverGradientDescentSettings() {
	f := verifParam("c19dflim", 2)
	verifC19dLocal(verifC19dGD, verifC19dOpt{fLo: f, fHi: f, itHi: 0, initHi: 2, thresh: 1, mthresh: 2, recLo: -2, recHi: -2, special: 3, fconv: 1})
}

// VerifC19_DriverGradientDescentRecorder: a Recorder that checks the statistics
// at every record and fails at record 0..4 (or never), InitValues none / F+Gradient.
func VerifC19_DriverGradientDescentRecorder() {
	f := verifParam("c19dflim", 2)
	verifC19dLocal(verifC19dGD, verifC19dOpt{fLo: f, fHi: f, itHi: 1, initHi: 2, recLo: -1, recHi: verifParam("c19drec", 4)})
}

// VerifC19_DriverLinesearchScript: GradientDescent with a scripted Linesearcher
// (every script of length 2 (thorough 3) over {Func at a new step, Func|Grad at a
// new step, conclude, fail, Grad at the same step}): LinesearchMethod's
// sequencing under the driver, ErrLinesearcherFailure as the reported error.
func VerifC19_DriverLinesearchScript() {
	verifC19dLocal(verifC19dGDScript, verifC19dOpt{fLo: 3, fHi: 3, gHi: 1, itHi: 1, recLo: -2, recHi: -2})
}

// Gradient values of the harnesses with case-split gradients.
var verifC19dGset = []float64{-2, 1, -0.5}

// VerifC19_DriverBFGS: BFGS with Backtracking or Bisection.
func VerifC19_DriverBFGS() {
	l := verifParam("c19dlim", 2)
	l2 := verifParam("c19dlim2", 1)
	verifC19dLocal(verifC19dBFGS, verifC19dOpt{fLo: l, fHi: l + 1, gHi: l2, itHi: l2, initHi: 2, recLo: -2, recHi: -2, gset: verifC19dGset})
}

// VerifC19_DriverLBFGS: LBFGS (Store 1..2) with Backtracking or Bisection.
func VerifC19_DriverLBFGS() {
	l := verifParam("c19dlim", 2)
	l2 := verifParam("c19dlim2", 1)
	verifC19dLocal(verifC19dLBFGS, verifC19dOpt{fLo: l, fHi: l + 1, gHi: l2, itHi: l2, initHi: 2, recLo: -2, recHi: -2, gset: verifC19dGset})
}

// VerifC19_DriverNewton: Newton (Hessian callbacks) with Backtracking or Bisection.
func VerifC19_DriverNewton() {
	l := verifParam("c19dlim", 2)
	l2 := verifParam("c19dlim2", 1)
	verifC19dLocal(verifC19dNewton, verifC19dOpt{fLo: l, fHi: l + l2 - 1, gHi: 1, hHi: l2, itHi: l2, initHi: 3, recLo: -2, recHi: -2, gset: []float64{-2, 1}, hset: []float64{2, -1}})
}

// VerifC19_DriverNelderMead: NelderMead (no gradient), limits 1..4 evaluations.
func VerifC19_DriverNelderMead() {
	l := verifParam("c19dnmlim", 4)
	verifC19dLocal(verifC19dNelderMead, verifC19dOpt{fLo: 1, fHi: l, itHi: 2, concHi: 1, initHi: 1, recLo: -2, recHi: 1, special: 3})
}

// VerifC19_DriverCG: CG (FletcherReeves / PolakRibierePolyak; thorough all five variants).
func VerifC19_DriverCG() {
	l := verifParam("c19dlim", 2)
	l2 := verifParam("c19dlim2", 1)
	verifC19dLocal(verifC19dCG, verifC19dOpt{fLo: l + 1, fHi: l + 1, gHi: l2, itHi: l2, initHi: 2, recLo: -2, recHi: -2, gset: verifC19dGset})
}

// ---------------------------------------------------------------------------
// Documented panics of Minimize / minimize.

// verifC19dBad is a Method that misbehaves in one scripted way.
type verifC19dBad struct {
	kind int
}

var verifC19dBadErr = errors.New("verif: method cannot be used")

func (m *verifC19dBad) Uses(has Available) (Available, error) {
	if m.kind == 0 {
		return Available{}, verifC19dBadErr
	}
	return Available{}, nil
}

func (m *verifC19dBad) Init(dim, tasks int) int {
	if m.kind == 1 {
		return tasks + 1
	}
	return 1
}

func (m *verifC19dBad) Run(operation chan<- Task, result <-chan Task, tasks []Task) {
	t := tasks[0]
	switch m.kind {
	case 2:
		t.Op = InitIteration
	case 3:
		t.Op = PostIteration
	case 4:
		t.Op = FuncEvaluation | MajorIteration // not an evaluation operation
	default:
		t.Op = MethodDone
	}
	operation <- t
	for range result {
	}
	close(operation)
}

// verifC19dBadStatuser additionally implements Statuser, returning NotTerminated.
type verifC19dBadStatuser struct {
	verifC19dBad
}

func (m *verifC19dBadStatuser) Status() (Status, error) { return NotTerminated, nil }

// VerifC19_DriverPanics: the panics Minimize documents, raised in the calling
// goroutine: a method inconsistent with the problem (Uses returns an error; a
// harness method and the real GradientDescent / Newton without Grad / Hess),
// too many tasks returned by Method.Init, MethodDone sent by a method that is
// not a Statuser or whose Status is NotTerminated, an undefined objective, an
// empty initial point, and inconsistent InitValues. In every case Minimize
// panics with an explicit message (no runtime fault) and leaves no goroutine
// behind.
func VerifC19_DriverPanics() {
	kind := verifChoose("kind", 0, 12)
	conc := verifChoose("concurrent", 0, 2)
	f := func(x []float64) float64 { return 0 }
	g := func(grad, x []float64) { grad[0] = 1 }
	p := Problem{Func: f}
	x0 := []float64{1}
	s := &Settings{Concurrent: conc}
	var m Method
	want := ""
	switch kind {
	case 0:
		m = &verifC19dBad{kind: 0}
	case 1:
		m, want = &verifC19dBad{kind: 1}, "optimize: too many tasks returned by Method"
	case 2:
		m, want = &verifC19dBad{kind: 5}, "optimize: method returned MethodDone but is not a Statuser"
	case 3:
		m, want = &verifC19dBadStatuser{verifC19dBad{kind: 5}}, "optimize: method returned MethodDone but a NotTerminated status"
	case 4:
		m = &GradientDescent{}
	case 5:
		m, p.Grad = &Newton{}, g
	case 6:
		m, p.Func, want = &NelderMead{}, nil, badProblem
	case 7:
		m, x0, want = &NelderMead{}, []float64{}, "optimize: impossible problem dimension"
	case 8:
		m, want = &NelderMead{}, "optimize: location specified in InitValues (only use InitX)"
		s.InitValues = &Location{X: []float64{1}}
	case 9:
		m, p.Grad, want = &GradientDescent{}, g, "optimize: initial gradient does not match problem dimension"
		s.InitValues = &Location{Gradient: []float64{1, 2}}
	case 10:
		m, p.Grad, want = &GradientDescent{}, g, "optimize: initial Hessian does not match problem dimension"
		s.InitValues = &Location{Hessian: mat.NewSymDense(2, nil)}
	case 11:
		m, x0, want = &NelderMead{}, nil, "optimize: impossible problem dimension"
	case 12:
		// not a panic: a method that behaves (MethodDone with a terminal status
		// would need a Statuser); control case with the real NelderMead and a
		// function evaluation limit.
		m = &NelderMead{}
		s.FuncEvaluations = 1
	}
	verifSched(verifParam("c19sched", 1))
	panicked, fault, msg := verifCatch(func() {
		Minimize(p, x0, s, m)
	})
	verifAssert(verifSchedDrain() == 0, "no goroutine left behind")
	if kind == 12 {
		verifAssert(!panicked, "control: a well-formed call does not panic")
		verifReach("end")
		return
	}
	verifAssert(panicked && !fault, "Minimize panics with an explicit message")
	if want != "" {
		verifAssert(msg == want, "the documented panic message")
	}
	verifReach("end")
}

// VerifC19_DriverPanicsDistributor: a Method sending InitIteration,
// PostIteration or a non-evaluation operation makes minimize panic in its
// distributor goroutine. Natively such a panic cannot be recovered by the
// caller (the process dies), so the native replay of this harness is a no-op:
// the statement is checked by the engine only.
func VerifC19_DriverPanicsDistributor() {
	if !verifInEngine() {
		return
	}
	kind := verifChoose("kind", 2, 4)
	p := Problem{Func: func(x []float64) float64 { return 0 }}
	verifSched(verifParam("c19sched", 1))
	panicked, fault, _ := verifCatch(func() {
		Minimize(p, []float64{1}, &Settings{}, &verifC19dBad{kind: kind})
	})
	verifAssert(panicked && !fault, "minimize panics with an explicit message")
	verifReach("end")
}

// ---------------------------------------------------------------------------
// Open violations (NOT in the check spec; see notes/C19_driver.md).

// VerifC19_DriverLocalEarlyStop states the location clause of C19 without the
// "at least one MajorIteration" proviso: when a limit stops a local method during
// the evaluation of the initial point, the reported X is still a point the
// objective was evaluated at and F its value.
func VerifC19_DriverLocalEarlyStop() {
	x0 := verifFloat("x0")
	obj := verifC19dNewObj("o")
	p := Problem{Func: obj.f, Grad: obj.grad}
	var m Method = &NelderMead{}
	if verifChoose("method", 0, 1) == 1 {
		m = &GradientDescent{Linesearcher: &Backtracking{}, StepSizer: ConstantStepSize{Size: 1}}
	}
	verifSched(verifParam("c19sched", 1))
	res, err := Minimize(p, []float64{x0}, &Settings{FuncEvaluations: 1, Converger: NeverTerminate{}}, m)
	verifAssert(verifSchedDrain() == 0, "Minimize leaves no goroutine behind")
	verifAssert(err == nil && res != nil, "no error")
	if res == nil {
		return
	}
	verifAssert(obj.fcalls == 1 && res.Stats.FuncEvaluations == 1 && res.Status == FunctionEvaluationLimit, "one evaluation, FunctionEvaluationLimit")
	verifAssert(obj.fx[0] == x0, "the objective was evaluated at the initial point")
	verifAssert(res.X[0] == obj.fx[0], "X is a point the objective was evaluated at")
	verifAssert(res.F == obj.fv[0], "F is the objective value at X")
	verifReach("end")
}

// VerifC19_DriverLocalStationaryStart: the documented GradStopThreshold ("the
// threshold for stopping if the gradient norm gets too small", default 1e-12)
// applied to the initial point: a start whose gradient is exactly zero stops
// the run with GradientThreshold.
func VerifC19_DriverLocalStationaryStart() {
	x0 := verifFloat("x0")
	obj := verifC19dNewObj("o")
	obj.gset = []float64{0}
	p := Problem{Func: obj.f, Grad: obj.grad}
	var m Method
	switch verifChoose("method", 0, 2) {
	case 0:
		m = &GradientDescent{}
	case 1:
		m = &BFGS{}
	default:
		m = &LBFGS{}
	}
	verifSched(verifParam("c19sched", 1))
	res, err := Minimize(p, []float64{x0}, &Settings{FuncEvaluations: 3, Converger: NeverTerminate{}}, m)
	verifAssert(verifSchedDrain() == 0, "Minimize leaves no goroutine behind")
	verifAssert(res != nil, "a result is returned")
	if res == nil {
		return
	}
	verifAssert(res.Status == GradientThreshold && err == nil, "a stationary initial point stops the run with GradientThreshold")
	verifReach("end")
}
