package optimize

import (
	"errors"
	"time"
)

// C19 (decidable core): one step of each state machine of the optimizer from an
// arbitrary state. The Minimize driver itself (goroutines, channels, select)
// and whole-run convergence are outside.

func verifC19int(name string) int { return int(verifInt64(name)) }

func verifC19stats() *Stats {
	return &Stats{
		MajorIterations: verifC19int("st.major"),
		FuncEvaluations: verifC19int("st.func"),
		GradEvaluations: verifC19int("st.grad"),
		HessEvaluations: verifC19int("st.hess"),
		Runtime:         time.Duration(verifInt64("st.runtime")),
	}
}

func verifC19settings() *Settings {
	return &Settings{
		MajorIterations: verifC19int("se.major"),
		FuncEvaluations: verifC19int("se.func"),
		GradEvaluations: verifC19int("se.grad"),
		HessEvaluations: verifC19int("se.hess"),
		Runtime:         time.Duration(verifInt64("se.runtime")),
	}
}

// VerifC19_EvaluationLimits: with no Problem.Status, checkEvaluationLimits
// returns a status other than NotTerminated iff some configured (positive)
// limit is reached (count >= limit), all three counters treated alike, with the
// precedence Func, Grad, Hess; stats and settings are not modified.
func VerifC19_EvaluationLimits() {
	st, se := verifC19stats(), verifC19settings()
	st0, se0 := *st, *se
	status, err := checkEvaluationLimits(&Problem{}, st, se)
	fHit := verifAnd(se0.FuncEvaluations > 0, st0.FuncEvaluations >= se0.FuncEvaluations)
	gHit := verifAnd(se0.GradEvaluations > 0, st0.GradEvaluations >= se0.GradEvaluations)
	hHit := verifAnd(se0.HessEvaluations > 0, st0.HessEvaluations >= se0.HessEvaluations)
	verifAssert(err == nil, "no error without Problem.Status")
	verifAssert(verifIff(status != NotTerminated, verifOr(fHit, verifOr(gHit, hHit))), "terminates iff a configured positive evaluation limit is reached")
	verifAssert(verifIff(status == FunctionEvaluationLimit, fHit), "FunctionEvaluationLimit iff the Func limit is reached")
	verifAssert(verifIff(status == GradientEvaluationLimit, verifAnd(!fHit, gHit)), "GradientEvaluationLimit iff Grad limit reached and Func limit not")
	verifAssert(verifIff(status == HessianEvaluationLimit, verifAnd(verifAnd(!fHit, !gHit), hHit)), "HessianEvaluationLimit iff only the Hess limit is reached")
	verifAssert(*st == st0, "stats unchanged")
	verifAssert(verifAnd(se.FuncEvaluations == se0.FuncEvaluations, verifAnd(se.GradEvaluations == se0.GradEvaluations, se.HessEvaluations == se0.HessEvaluations)), "settings unchanged")
	verifReach("end")
}

// VerifC19_EvaluationLimitsStatuser: a Problem.Status reporting an error or a
// terminal status takes precedence over every limit; NotTerminated/nil falls
// through to the limits.
func VerifC19_EvaluationLimitsStatuser() {
	st, se := verifC19stats(), verifC19settings()
	ps := Status(verifInt("pstatus", 0, 12))
	var perr error
	if verifChoose("perr", 0, 1) == 1 {
		perr = errors.New("user")
	}
	calls := 0
	p := &Problem{Status: func() (Status, error) { calls++; return ps, perr }}
	status, err := checkEvaluationLimits(p, st, se)
	verifAssert(calls == 1, "Problem.Status consulted exactly once")
	if perr != nil || ps != NotTerminated {
		verifAssert(verifAnd(status == ps, err == perr), "Problem.Status result returned as is")
	} else {
		want, _ := checkEvaluationLimits(&Problem{}, st, se)
		verifAssert(verifAnd(status == want, err == nil), "falls through to the evaluation limits")
	}
	verifReach("end")
}

// VerifC19_IterationLimits: IterationLimit before RuntimeLimit, each iff its
// configured positive limit is reached.
func VerifC19_IterationLimits() {
	st, se := verifC19stats(), verifC19settings()
	st0 := *st
	status := checkIterationLimits(&Location{}, st, se)
	iHit := verifAnd(se.MajorIterations > 0, st0.MajorIterations >= se.MajorIterations)
	rHit := verifAnd(se.Runtime > 0, st0.Runtime >= se.Runtime)
	verifAssert(verifIff(status != NotTerminated, verifOr(iHit, rHit)), "terminates iff a configured positive iteration/runtime limit is reached")
	verifAssert(verifIff(status == IterationLimit, iHit), "IterationLimit iff the iteration limit is reached")
	verifAssert(verifIff(status == RuntimeLimit, verifAnd(!iHit, rHit)), "RuntimeLimit iff only the runtime limit is reached")
	verifAssert(*st == st0, "stats unchanged")
	verifReach("end")
}

// VerifC19_UpdateEvaluationStats: every counter grows by exactly the
// evaluations named in the operation bit mask (arbitrary 64-bit mask).
func VerifC19_UpdateEvaluationStats() {
	st := verifC19stats()
	st0 := *st
	op := Operation(verifUint64("op"))
	updateEvaluationStats(st, op)
	verifAssert(st.FuncEvaluations == st0.FuncEvaluations+verifIteInt(op&FuncEvaluation != 0, 1, 0), "FuncEvaluations += [op has FuncEvaluation]")
	verifAssert(st.GradEvaluations == st0.GradEvaluations+verifIteInt(op&GradEvaluation != 0, 1, 0), "GradEvaluations += [op has GradEvaluation]")
	verifAssert(st.HessEvaluations == st0.HessEvaluations+verifIteInt(op&HessEvaluation != 0, 1, 0), "HessEvaluations += [op has HessEvaluation]")
	verifAssert(verifAnd(st.MajorIterations == st0.MajorIterations, st.Runtime == st0.Runtime), "other counters untouched")
	verifAssert(verifIff(op.isEvaluation(), verifAnd(op&evalMask != 0, op&^evalMask == 0)), "isEvaluation: only evaluation bits, at least one")
	verifReach("end")
}

// VerifC19_FunctionConvergeStep: one call of Converged from an arbitrary state
// follows the documented rule.
func VerifC19_FunctionConvergeStep() {
	fc := &FunctionConverge{
		Absolute: verifFloat("abs"), Relative: verifFloat("rel"), Iterations: verifC19int("iters"),
		first: verifBool("first"), best: verifFloat("best"), iter: verifInt("iter", 0, 1<<40),
	}
	old := *fc
	f := verifFloat("f")
	status := fc.Converged(&Location{F: f})
	absf, absb := f, old.best
	if absf < 0 {
		absf = -absf
	}
	if absb < 0 {
		absb = -absb
	}
	maxabs := absf
	if absb > maxabs {
		maxabs = absb
	}
	switch {
	case old.first:
		verifAssert(status == NotTerminated, "first call never terminates")
		verifAssert(verifAnd(verifSame(fc.best, f), verifAnd(!fc.first, fc.iter == old.iter)), "first call records f as best")
	case old.Iterations == 0:
		verifAssert(status == NotTerminated, "Iterations == 0 has no effect")
		verifAssert(verifAnd(verifSame(fc.best, old.best), fc.iter == old.iter), "state unchanged when Iterations == 0")
	case f < old.best && old.best-f > old.Relative*maxabs+old.Absolute:
		verifAssert(status == NotTerminated, "significant decrease does not terminate")
		verifAssert(verifAnd(verifSame(fc.best, f), fc.iter == 0), "significant decrease resets the counter and updates best")
	default:
		verifAssert(verifAnd(verifSame(fc.best, old.best), fc.iter == old.iter+1), "insignificant step counts")
		verifAssert(verifIff(status == FunctionConvergence, old.iter+1 >= old.Iterations), "FunctionConvergence iff Iterations insignificant steps in a row")
		verifAssert(verifOr(status == FunctionConvergence, status == NotTerminated), "no other status")
	}
	verifAssert(verifAnd(fc.Iterations == old.Iterations, verifAnd(verifSame(fc.Absolute, old.Absolute), verifSame(fc.Relative, old.Relative))), "parameters untouched")
	verifReach("end")
}

// VerifC19_FunctionConvergeRun: from Init, FunctionConvergence is reported at
// step t iff the last Iterations steps were all without significant decrease
// (the first value only initialises the reference).
func VerifC19_FunctionConvergeRun() {
	iters := verifChoose("iters", 1, 3)
	steps := verifParam("fcsteps", 4)
	fc := &FunctionConverge{Absolute: verifFloat("abs"), Relative: verifFloat("rel"), Iterations: iters}
	verifAssume(verifAnd(fc.Absolute >= 0, fc.Relative >= 0))
	fc.Init(3)
	fs := verifFloats("f", steps+1)
	verifAssert(fc.Converged(&Location{F: fs[0]}) == NotTerminated, "first value never terminates")
	best := fs[0]
	run := 0
	for t := 1; t <= steps; t++ {
		f := fs[t]
		status := fc.Converged(&Location{F: f})
		a, b := f, best
		if a < 0 {
			a = -a
		}
		if b < 0 {
			b = -b
		}
		if b > a {
			a = b
		}
		if f < best && best-f > fc.Relative*a+fc.Absolute {
			best = f
			run = 0
		} else {
			run++
		}
		verifAssert((status == FunctionConvergence) == (run >= iters), "FunctionConvergence exactly after Iterations consecutive insignificant steps")
		if status != NotTerminated {
			break
		}
	}
	verifReach("end")
}

// VerifC19_Backtracking: drive Init and up to btiters Iterate calls with
// arbitrary function values: whenever MajorIteration is returned, the Armijo
// condition holds for the returned step with the value supplied for that step;
// steps stay positive and shrink by the contraction factor; errors come with
// NoOperation.
func VerifC19_Backtracking() {
	f0, g0, step0 := verifFloat("f0"), verifFloat("g0"), verifFloat("step0")
	dec, con := verifFloat("decrease"), verifFloat("contraction")
	switch verifChoose("defaults", 0, 2) {
	case 1:
		dec = 0
	case 2:
		con = 0
	}
	verifAssume(verifAnd(step0 > 0, g0 < 0))
	verifAssume(verifAnd(verifAnd(0 <= dec, dec < 1), verifAnd(0 <= con, con < 1)))
	iters := verifParam("btiters", 3)
	fs := verifFloats("f", iters)
	b := &Backtracking{DecreaseFactor: dec, ContractionFactor: con}
	op := b.Init(f0, g0, step0)
	verifAssert(op == FuncEvaluation, "Init asks for a function evaluation")
	if dec == 0 {
		dec = 1e-4
	}
	if con == 0 {
		con = 0.5
	}
	cur := step0 // the step at which the next value is evaluated
	for k := 0; k < iters; k++ {
		op, step, err := b.Iterate(fs[k], verifFloat("ignoredg"))
		verifAssert(step > 0, "step stays positive")
		switch op {
		case MajorIteration:
			verifAssert(err == nil, "no error with MajorIteration")
			verifAssertEqF(step, cur, "accepted step is the step that was evaluated")
			verifAssert(fs[k] <= f0+dec*step*g0, "Armijo condition holds at the accepted step")
			verifReach("major")
			return
		case FuncEvaluation:
			verifAssert(err == nil, "no error with FuncEvaluation")
			verifAssert(!(fs[k] <= f0+dec*cur*g0), "continues only when Armijo fails")
			verifAssertEqF(step, cur*con, "next step is the contraction of the last one")
			cur = step
		default:
			verifAssert(op == NoOperation && err != nil, "failure is NoOperation with an error")
			verifAssert(step < 1e-20, "failure only below the minimum step size")
			return
		}
	}
	verifReach("end")
}

// VerifC19_BacktrackingInitValidation: documented panics of Init.
func VerifC19_BacktrackingInitValidation() {
	f0, g0, step0 := verifFloat("f0"), verifFloat("g0"), verifFloat("step0")
	dec, con := verifFloat("decrease"), verifFloat("contraction")
	b := &Backtracking{DecreaseFactor: dec, ContractionFactor: con}
	panicked, fault, _ := verifCatch(func() { b.Init(f0, g0, step0) })
	verifAssert(!fault, "no runtime fault")
	bad := verifOr(verifOr(step0 <= 0, g0 >= 0), verifOr(verifOr(dec < 0, dec >= 1), verifOr(con < 0, con >= 1)))
	verifAssert(verifIff(panicked, bad), "Init panics iff step <= 0, g >= 0 or a factor is outside [0,1) (0 = default)")
	verifReach("end")
}

// VerifC19_Bisection: drive Init and up to bsiters Iterate calls with arbitrary
// (f, g): whenever MajorIteration is returned, the strong Wolfe conditions with
// decrease factor 0 hold at the returned step for the values supplied at that
// step: f(step) <= f(0) and |g(step)| < curvature*|g(0)|; steps stay positive;
// a gradient is only requested at a step whose value was supplied.
func VerifC19_Bisection() {
	f0, g0, step0 := verifFloat("f0"), verifFloat("g0"), verifFloat("step0")
	cur := verifFloat("curvature")
	if verifChoose("default", 0, 1) == 1 {
		cur = 0
	}
	verifAssume(verifAnd(step0 > 0, g0 < 0))
	verifAssume(verifAnd(0 <= cur, cur < 1))
	iters := verifParam("bsiters", 5)
	fs := verifFloats("f", iters)
	gs := verifFloats("g", iters)
	b := &Bisection{CurvatureFactor: cur}
	op := b.Init(f0, g0, step0)
	verifAssert(op == FuncEvaluation, "Init asks for a function evaluation")
	if cur == 0 {
		cur = 0.9
	}
	at := step0     // step at which the pending evaluation takes place
	var fAt float64 // value supplied at 'at'
	haveF := false
	lastOp := op
	for k := 0; k < iters; k++ {
		op, step, err := b.Iterate(fs[k], gs[k])
		if lastOp == FuncEvaluation {
			fAt, haveF = fs[k], true
		}
		verifAssert(step > 0, "step stays positive")
		switch op {
		case MajorIteration:
			verifAssert(err == nil, "no error with MajorIteration")
			verifAssert(lastOp == GradEvaluation && haveF, "accepted only after value and gradient at the step")
			verifAssertEqF(step, at, "accepted step is the step that was evaluated")
			verifAssert(fAt <= f0, "decrease condition (factor 0) at the accepted step")
			ag := gs[k]
			if ag < 0 {
				ag = -ag
			}
			verifAssert(ag < cur*(-g0), "strong curvature condition at the accepted step")
			verifReach("major")
			return
		case GradEvaluation:
			verifAssert(err == nil, "no error with GradEvaluation")
			verifAssert(lastOp == FuncEvaluation, "gradient requested right after a value")
			verifAssertEqF(step, at, "gradient requested at the step just evaluated")
			verifAssert(fAt <= f0, "gradient only requested where the value does not exceed f(0)")
		case FuncEvaluation:
			verifAssert(err == nil, "no error with FuncEvaluation")
			verifAssert(step != at, "a new evaluation is at a new step")
			at, haveF = step, false
		default:
			verifAssert(op == NoOperation && err != nil, "failure is NoOperation with an error")
			return
		}
		lastOp = op
	}
	verifReach("end")
}
