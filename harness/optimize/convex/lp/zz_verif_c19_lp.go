package lp

import "gonum.org/v1/gonum/mat"

// C19 (decidable core): Convert preserves the optimum of the general form.
// For a general-form LP  min c'x  s.t. Gx <= h, Ax = b  with nVar <= 2,
// nIneq <= lpineq, nEq <= 1 and fully symbolic data:
//  (1) every general-feasible x maps to the explicit standard-form point
//      (x+, x-, slack) = (max(x,0), max(-x,0), h-Gx), which is feasible
//      (aNew*xs = bNew, xs >= 0) with the same cost;
//  (2) every standard-feasible xs maps back to x = xs[:n] - xs[n:2n], which is
//      general-feasible with the same cost.
// Hence both problems have the same optimal value (or are both infeasible /
// unbounded). Model R: polynomial (bilinear) identities and sign constraints.

func verifC19dense(tag string, r, c int) *mat.Dense {
	if r == 0 || c == 0 {
		return nil
	}
	return mat.NewDense(r, c, verifFloats(tag, r*c))
}

func verifC19dot(a, b []float64) float64 {
	var s float64
	for i := range a {
		s += a[i] * b[i]
	}
	return s
}

func VerifC19_ConvertPreservesOptimum() {
	n := verifChoose("nvar", 1, verifParam("lpvars", 2))
	nIneq := verifChoose("nineq", 0, verifParam("lpineq", 1))
	nEq := verifChoose("neq", 0, verifParam("lpeq", 1))
	if nIneq+nEq == 0 {
		// no constraint at all: the standard form would need a 0 x 2n matrix,
		// which mat.Dense cannot represent (Convert panics inside mat.NewDense,
		// see VerifC19_ConvertShapes)
		return
	}
	c := verifFloats("c", n)
	h := verifFloats("h", nIneq)
	b := verifFloats("b", nEq)
	g := verifC19dense("G", nIneq, n)
	a := verifC19dense("A", nEq, n)
	c0 := append([]float64(nil), c...)
	var gm, am mat.Matrix // keep nil interfaces nil
	if g != nil {
		gm = g
	}
	if a != nil {
		am = a
	}
	cNew, aNew, bNew := Convert(c, gm, h, am, b)
	nNew := 2*n + nIneq
	verifAssert(len(cNew) == nNew && len(bNew) == nIneq+nEq, "standard form sizes")
	r, cc := aNew.Dims()
	verifAssert(r == nIneq+nEq && cc == nNew, "standard form matrix size")
	for i := range c {
		verifAssert(verifSame(c[i], c0[i]), "c unchanged")
	}

	if verifChoose("direction", 0, 1) == 0 {
		// (1) general feasible -> standard feasible, same cost
		x := verifFloats("x", n)
		for i := 0; i < nIneq; i++ {
			verifAssume(verifC19dot(g.RawRowView(i), x) <= h[i])
		}
		for i := 0; i < nEq; i++ {
			verifAssume(verifC19dot(a.RawRowView(i), x) == b[i])
		}
		xs := make([]float64, nNew)
		for j := 0; j < n; j++ {
			xs[j] = verifIteF(x[j] > 0, x[j], 0)
			xs[n+j] = verifIteF(x[j] > 0, 0, -x[j])
		}
		for i := 0; i < nIneq; i++ {
			xs[2*n+i] = h[i] - verifC19dot(g.RawRowView(i), x)
		}
		for j := range xs {
			verifAssert(xs[j] >= 0, "mapped point is non-negative")
		}
		for i := 0; i < nIneq+nEq; i++ {
			verifAssertEqF(verifC19dot(aNew.RawRowView(i), xs), bNew[i], "mapped point satisfies aNew*x = bNew")
		}
		verifAssertEqF(verifC19dot(cNew, xs), verifC19dot(c0, x), "cost preserved (general -> standard)")
		verifReach("forward")
		return
	}
	// (2) standard feasible -> general feasible, same cost
	xs := verifFloats("xs", nNew)
	for j := range xs {
		verifAssume(xs[j] >= 0)
	}
	for i := 0; i < nIneq+nEq; i++ {
		verifAssume(verifC19dot(aNew.RawRowView(i), xs) == bNew[i])
	}
	x := make([]float64, n)
	for j := range x {
		x[j] = xs[j] - xs[n+j]
	}
	for i := 0; i < nIneq; i++ {
		verifAssert(verifC19dot(g.RawRowView(i), x) <= h[i], "mapped-back point satisfies Gx <= h")
	}
	for i := 0; i < nEq; i++ {
		verifAssertEqF(verifC19dot(a.RawRowView(i), x), b[i], "mapped-back point satisfies Ax = b")
	}
	verifAssertEqF(verifC19dot(c0, x), verifC19dot(cNew, xs), "cost preserved (standard -> general)")
	verifReach("backward")
}

// VerifC19_ConvertShapes: Convert panics exactly on inconsistent shapes.
func VerifC19_ConvertShapes() {
	n := verifChoose("nvar", 1, 2)
	nh := verifChoose("nh", 0, 2)
	nb := verifChoose("nb", 0, 2)
	gr := verifChoose("gr", 0, 2) // 0: nil G
	gc := verifChoose("gc", 1, 2)
	ar := verifChoose("ar", 0, 2) // 0: nil A
	ac := verifChoose("ac", 1, 2)
	var gm, am mat.Matrix
	if gr > 0 {
		gm = mat.NewDense(gr, gc, verifFloats("G", gr*gc))
	}
	if ar > 0 {
		am = mat.NewDense(ar, ac, verifFloats("A", ar*ac))
	}
	panicked, fault, _ := verifCatch(func() { Convert(verifFloats("c", n), gm, verifFloats("h", nh), am, verifFloats("b", nb)) })
	verifAssert(!fault, "no runtime fault")
	badG := gr != nh || (gr > 0 && gc != n)
	badA := ar != nb || (ar > 0 && ac != n)
	// with no constraint at all the 0-row standard form is not representable
	// as a mat.Dense: Convert panics (mat.ErrZeroLength)
	empty := nh == 0 && nb == 0
	verifAssert(panicked == (badG || badA || empty), "Convert panics iff G or A do not match h, b and c (or there is no constraint at all)")
	verifReach("end")
}
