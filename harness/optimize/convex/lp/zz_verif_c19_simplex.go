package lp

import "gonum.org/v1/gonum/mat"

// C19, lp.Simplex on tiny standard-form LPs  min c'x  s.t. Ax = b, x >= 0.
//
// The constraint matrix A is CASE-SPLIT over small integers (so that the
// factorizations and condition estimates inside mat are concrete), the right
// hand side b and the cost c are SYMBOLIC reals. Simplex works with absolute
// tolerances (1e-10 .. 1e-14 for feasibility, rounding of reduced costs and
// directions, the Phase I optimum) that are meaningless for arbitrary reals:
// the harness assumes data of moderate scale that stays away from those bands
// (every quantity the algorithm compares with a tolerance is either exactly 0
// or at least 1e-3 in magnitude, and at most 1e3). Under these assumptions the
// documented behaviour is exact:
//   - the program is infeasible          <=> ErrInfeasible,
//   - feasible and unbounded below        <=> ErrUnbounded,
//   - otherwise no error, the returned x satisfies Ax = b, x >= 0, optF = c'x
//     and optF is the minimum of c'y over all basic feasible solutions y
//     (enumerated in the harness, each a tiny linear solve written by hand),
//   - A with a zero row or a zero column (documented as not allowed): an error.
//   - rank deficient A without zero rows/columns: ErrSingular (m = 2).
// Feasibility and unboundedness are decided by the harness from the definition:
// feasible iff some basis is feasible; unbounded iff feasible and some extreme
// ray d >= 0, Ad = 0 of the recession cone has c'd < 0 (for m = 1 the rays are
// e_j for a zero column and |a_k| e_j + |a_j| e_k for a_j > 0 > a_k).

func verifC19sGap(v float64) bool {
	return verifOr(v == 0, verifAnd(verifOr(v >= 1e-3, v <= -1e-3), verifAnd(v <= 1e3, v >= -1e3)))
}

func verifC19sTol() float64 {
	if verifChoose("tol", 0, 1) == 1 {
		return 1e-10
	}
	return 0
}

// VerifC19_SimplexOneRow: m = 1 constraint, n = 1..3 variables (n = 1: the exactly
// constrained branch, a plain linear solve).
func VerifC19_SimplexOneRow() {
	n := verifChoose("n", 1, verifParam("c19lpn", 3))
	lo, hi := verifParam("c19lplo", -1), verifParam("c19lphi", 2)
	a := make([]float64, n)
	for j := range a {
		a[j] = float64(verifChoose("a"+string(rune('0'+j)), lo, hi))
	}
	tol := verifC19sTol()
	b := verifFloat("b")
	c := verifFloats("c", n)
	verifAssume(verifC19sGap(b))
	for j := range c {
		verifAssume(verifC19sGap(c[j]))
	}
	// Reduced costs and ray costs are, up to the concrete factor 1/a_k,
	// c_j*a_k - c_k*a_j: keep them out of the tolerance bands too.
	for j := 0; j < n; j++ {
		for k := j + 1; k < n; k++ {
			if a[j] != 0 && a[k] != 0 {
				verifAssume(verifC19sGap(c[j]*a[k] - c[k]*a[j]))
			}
		}
	}
	c0 := append([]float64(nil), c...)
	A := mat.NewDense(1, n, append([]float64(nil), a...))

	var optF float64
	var x []float64
	var err error
	panicked, _, _ := verifCatch(func() {
		optF, x, err = Simplex(c, A, []float64{b}, tol, nil)
	})
	verifAssert(!panicked, "Simplex does not panic on consistent shapes")
	if panicked {
		return
	}
	for j := range c {
		verifAssert(verifSame(c[j], c0[j]), "c unchanged")
	}

	zeroRow, zeroCol := true, false
	for j := range a {
		if a[j] != 0 {
			zeroRow = false
		} else {
			zeroCol = true
		}
	}
	if zeroRow || zeroCol {
		verifAssert(err != nil, "a zero row or column of A is reported as an error")
		verifReach("end")
		return
	}
	// Basic solutions: x_j = b/a_j.
	feasible := false
	for j := range a {
		feasible = verifOr(feasible, b*a[j] >= 0)
	}
	unbounded := false
	for j := range a {
		for k := range a {
			if a[j] > 0 && a[k] < 0 {
				unbounded = verifOr(unbounded, c[j]*(-a[k])+c[k]*a[j] < 0)
			}
		}
	}
	if !feasible {
		verifAssert(err == ErrInfeasible, "an infeasible program is classified ErrInfeasible")
		verifReach("infeasible")
		return
	}
	if unbounded {
		verifAssert(err == ErrUnbounded, "an unbounded program is classified ErrUnbounded")
		verifReach("unbounded")
		return
	}
	verifAssert(err == nil, "a feasible bounded program is solved without error")
	if err != nil {
		return
	}
	verifAssert(len(x) == n, "x has n entries")
	if len(x) != n {
		return
	}
	var ax, cx float64
	for j := range x {
		verifAssert(x[j] >= 0, "x >= 0")
		ax += a[j] * x[j]
		cx += c[j] * x[j]
	}
	verifAssertEqF(ax, b, "Ax = b")
	verifAssertEqF(optF, cx, "optF = c'x")
	for j := range a {
		verifAssert(verifImplies(b*a[j] >= 0, optF <= c[j]*(b/a[j])), "optF does not exceed the cost of any basic feasible solution")
	}
	verifReach("solved")
}

func verifC19sDet(a, b [2]float64) float64 {
	return a[0]*b[1] - a[1]*b[0]
}

// VerifC19_SimplexTwoRows: m = 2 constraints, n = 3..4 variables. A and b are
// case-split over small integer boxes (Phase I and every basic solution are then
// concrete: with a symbolic b one fixed A did not finish in 5 minutes), the
// cost c is symbolic. The gap assumption is stated on c and on the numerators
// of the Phase II reduced costs c_j det[a_i,a_k] - c_i det[a_j,a_k] - c_k det[a_i,a_j].
func VerifC19_SimplexTwoRows() {
	verifC19sTwoRows(verifParam("c19lpn2", 3), verifParam("c19lplo2", 0), verifParam("c19lphi2", 1), verifParam("c19lpskip0", 0) == 1,
		verifParam("c19lpblo", -1), verifParam("c19lpbhi", 2))
}

// VerifC19_SimplexTwoRowsSigned: the same statement over a second family of
// matrices (default: all entries in {-1, 1}; thorough: n = 3..4 with entries in
// {0, 1} and b in {0, 1}^2), separately parameterised so that both families
// can be part of one check tier.
func VerifC19_SimplexTwoRowsSigned() {
	verifC19sTwoRows(verifParam("c19lpn2s", 3), verifParam("c19lplo2s", -1), verifParam("c19lphi2s", 1), verifParam("c19lpskip0s", 1) == 1,
		verifParam("c19lpblos", 0), verifParam("c19lpbhis", 2))
}

func verifC19sTwoRows(nmax, lo, hi int, skip0 bool, blo, bhi int) {
	n := verifChoose("n", 3, nmax)
	col := make([][2]float64, n)
	data := make([]float64, 2*n)
	code := verifParam("c19lpcode", -1) // >= 0: one fixed matrix (digits base hi-lo+1), for reproduction
	for j := 0; j < n; j++ {
		for i := 0; i < 2; i++ {
			var v float64
			if code >= 0 {
				v = float64(lo + code%(hi-lo+1))
				code /= hi - lo + 1
			} else {
				v = float64(verifChoose("a"+string(rune('0'+i))+string(rune('0'+j)), lo, hi))
				if v == 0 && skip0 {
					return
				}
			}
			col[j][i] = v
			data[i*n+j] = v
		}
	}
	tol := verifC19sTol()
	b := [2]float64{float64(verifChoose("b0", blo, bhi)), float64(verifChoose("b1", blo, bhi))}
	c := verifFloats("c", n)
	for j := range c {
		verifAssume(verifC19sGap(c[j]))
	}
	for i := 0; i < n; i++ {
		for k := i + 1; k < n; k++ {
			for j := 0; j < n; j++ {
				if j != i && j != k {
					verifAssume(verifC19sGap(c[j]*verifC19sDet(col[i], col[k]) - c[i]*verifC19sDet(col[j], col[k]) - c[k]*verifC19sDet(col[i], col[j])))
				}
			}
		}
	}
	A := mat.NewDense(2, n, data)

	var optF float64
	var x []float64
	var err error
	panicked, _, _ := verifCatch(func() {
		optF, x, err = Simplex(c, A, []float64{b[0], b[1]}, tol, nil)
	})
	verifAssert(!panicked, "Simplex does not panic on consistent shapes")
	if panicked {
		return
	}

	zero := false
	for i := 0; i < 2; i++ {
		z := true
		for j := 0; j < n; j++ {
			if col[j][i] != 0 {
				z = false
			}
		}
		zero = zero || z
	}
	for j := 0; j < n; j++ {
		if col[j][0] == 0 && col[j][1] == 0 {
			zero = true
		}
	}
	if zero {
		verifAssert(err != nil, "a zero row or column of A is reported as an error")
		verifReach("end")
		return
	}
	fullRank := false
	for i := 0; i < n; i++ {
		for k := i + 1; k < n; k++ {
			if verifC19sDet(col[i], col[k]) != 0 {
				fullRank = true
			}
		}
	}
	if !fullRank {
		verifAssert(err == ErrSingular, "a rank deficient A is classified ErrSingular")
		verifReach("singular")
		return
	}
	// Basic feasible solutions (Cramer's rule).
	feasible := false
	for i := 0; i < n; i++ {
		for k := i + 1; k < n; k++ {
			d := verifC19sDet(col[i], col[k])
			if d == 0 {
				continue
			}
			xi := verifC19sDet(b, col[k]) / d
			xk := verifC19sDet(col[i], b) / d
			feasible = verifOr(feasible, verifAnd(xi >= 0, xk >= 0))
		}
	}
	// Rays of the recession cone: null vectors of column triples with one sign.
	unbounded := false
	for i := 0; i < n; i++ {
		for j := i + 1; j < n; j++ {
			for k := j + 1; k < n; k++ {
				di, dj, dk := verifC19sDet(col[j], col[k]), -verifC19sDet(col[i], col[k]), verifC19sDet(col[i], col[j])
				if di <= 0 && dj <= 0 && dk <= 0 {
					di, dj, dk = -di, -dj, -dk
				}
				if di >= 0 && dj >= 0 && dk >= 0 && di+dj+dk > 0 {
					unbounded = verifOr(unbounded, c[i]*di+c[j]*dj+c[k]*dk < 0)
				}
			}
		}
	}
	if !feasible {
		verifAssert(err == ErrInfeasible, "an infeasible program is classified ErrInfeasible")
		verifReach("infeasible")
		return
	}
	if unbounded {
		verifAssert(err == ErrUnbounded, "an unbounded program is classified ErrUnbounded")
		verifReach("unbounded")
		return
	}
	verifAssert(err == nil, "a feasible bounded program is solved without error")
	if err != nil {
		return
	}
	verifAssert(len(x) == n, "x has n entries")
	if len(x) != n {
		return
	}
	var ax0, ax1, cx float64
	for j := range x {
		verifAssert(x[j] >= 0, "x >= 0")
		ax0 += col[j][0] * x[j]
		ax1 += col[j][1] * x[j]
		cx += c[j] * x[j]
	}
	verifAssertEqF(ax0, b[0], "Ax = b (row 0)")
	verifAssertEqF(ax1, b[1], "Ax = b (row 1)")
	verifAssertEqF(optF, cx, "optF = c'x")
	for i := 0; i < n; i++ {
		for k := i + 1; k < n; k++ {
			d := verifC19sDet(col[i], col[k])
			if d == 0 {
				continue
			}
			xi := verifC19sDet(b, col[k]) / d
			xk := verifC19sDet(col[i], b) / d
			verifAssert(verifImplies(verifAnd(xi >= 0, xk >= 0), optF <= c[i]*xi+c[k]*xk), "optF does not exceed the cost of any basic feasible solution")
		}
	}
	verifReach("solved")
}
