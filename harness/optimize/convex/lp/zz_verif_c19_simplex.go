package lp

import "gonum.org/v1/gonum/mat"

// C19, lp.Simplex on tiny standard-form LPs  min c'x  s.t. Ax = b, x >= 0.
//
// The constraint matrix A is CASE-SPLIT over small integers (so that the
// factorizations and condition estimates inside mat are concrete), the right
// hand side b and the cost c are SYMBOLIC reals. Simplex works with absolute
// tolerances (1e-10 .. 1e-14 for feasibility, rounding of reduced costs and
// directions, the Phase I optimum) that are meaningless for arbitrary reals:
// the harness assumes data of moderate scale that stays away from those bands
// (every quantity the algorithm compares with a tolerance is either exactly 0
// or at least 1e-3 in magnitude, and at most 1e3). Under these assumptions the
// documented behaviour is exact:
//   - the program is infeasible          <=> ErrInfeasible,
//   - feasible and unbounded below        <=> ErrUnbounded,
//   - otherwise no error, the returned x satisfies Ax = b, x >= 0, optF = c'x
//     and optF is the minimum of c'y over all basic feasible solutions y
//     (enumerated in the harness, each a tiny linear solve written by hand),
//   - A with a zero row or a zero column (documented as not allowed): an error.
//   - rank deficient A without zero rows/columns: ErrSingular (m = 2).
// Feasibility and unboundedness are decided by the harness from the definition:
// feasible iff some basis is feasible; unbounded iff feasible and some extreme
// ray d >= 0, Ad = 0 of the recession cone has c'd < 0 (for m = 1 the rays are
// e_j for a zero column and |a_k| e_j + |a_j| e_k for a_j > 0 > a_k).

func verifC19sGap(v float64) bool {
	return verifOr(v == 0, verifAnd(verifOr(v >= 1e-3, v <= -1e-3), verifAnd(v <= 1e3, v >= -1e3)))
}

func verifC19sTol() float64 {
	if verifChoose("tol", 0, 1) == 1 {
		return 1e-10
	}
	return 0
}

// VerifC19_SimplexOneRow: m = 1 constraint, n = 2..3 variables.
func VerifC19_SimplexOneRow() {
	n := verifChoose("n", 2, verifParam("c19lpn", 3))
	lo, hi := verifParam("c19lplo", -1), verifParam("c19lphi", 2)
	a := make([]float64, n)
	for j := range a {
		a[j] = float64(verifChoose("a"+string(rune('0'+j)), lo, hi))
	}
	tol := verifC19sTol()
	b := verifFloat("b")
	c := verifFloats("c", n)
	verifAssume(verifC19sGap(b))
	for j := range c {
		verifAssume(verifC19sGap(c[j]))
	}
	// Reduced costs and ray costs are, up to the concrete factor 1/a_k,
	// c_j*a_k - c_k*a_j: keep them out of the tolerance bands too.
	for j := 0; j < n; j++ {
		for k := j + 1; k < n; k++ {
			if a[j] != 0 && a[k] != 0 {
				verifAssume(verifC19sGap(c[j]*a[k] - c[k]*a[j]))
			}
		}
	}
	c0 := append([]float64(nil), c...)
	A := mat.NewDense(1, n, append([]float64(nil), a...))

	var optF float64
	var x []float64
	var err error
	panicked, _, _ := verifCatch(func() {
		optF, x, err = Simplex(c, A, []float64{b}, tol, nil)
	})
	verifAssert(!panicked, "Simplex does not panic on consistent shapes")
	if panicked {
		return
	}
	for j := range c {
		verifAssert(verifSame(c[j], c0[j]), "c unchanged")
	}

	zeroRow, zeroCol := true, false
	for j := range a {
		if a[j] != 0 {
			zeroRow = false
		} else {
			zeroCol = true
		}
	}
	if zeroRow || zeroCol {
		verifAssert(err != nil, "a zero row or column of A is reported as an error")
		verifReach("end")
		return
	}
	// Basic solutions: x_j = b/a_j.
	feasible := false
	for j := range a {
		feasible = verifOr(feasible, b*a[j] >= 0)
	}
	unbounded := false
	for j := range a {
		for k := range a {
			if a[j] > 0 && a[k] < 0 {
				unbounded = verifOr(unbounded, c[j]*(-a[k])+c[k]*a[j] < 0)
			}
		}
	}
	if !feasible {
		verifAssert(err == ErrInfeasible, "an infeasible program is classified ErrInfeasible")
		verifReach("infeasible")
		return
	}
	if unbounded {
		verifAssert(err == ErrUnbounded, "an unbounded program is classified ErrUnbounded")
		verifReach("unbounded")
		return
	}
	verifAssert(err == nil, "a feasible bounded program is solved without error")
	if err != nil {
		return
	}
	verifAssert(len(x) == n, "x has n entries")
	if len(x) != n {
		return
	}
	var ax, cx float64
	for j := range x {
		verifAssert(x[j] >= 0, "x >= 0")
		ax += a[j] * x[j]
		cx += c[j] * x[j]
	}
	verifAssertEqF(ax, b, "Ax = b")
	verifAssertEqF(optF, cx, "optF = c'x")
	for j := range a {
		verifAssert(verifImplies(b*a[j] >= 0, optF <= c[j]*(b/a[j])), "optF does not exceed the cost of any basic feasible solution")
	}
	verifReach("solved")
}
