package optimize

import (
	"sync"

	"gonum.org/v1/gonum/mat"
)

// C19 / C09: the Minimize driver itself (distributor, workers, stats combiner,
// shutdown protocol) executed under the engine's goroutine scheduler with a
// real Method. The objective values are symbolic; the first k scheduling and
// select choices of every path are explored exhaustively. Obligations: Minimize
// terminates (no deadlock), leaves no goroutine behind, is free of data races,
// the evaluation counter equals the number of callbacks made, limits are
// respected up to the evaluations already in flight, the status names the
// condition that stopped the run and the reported F is the objective at the
// reported X.

type verifC19objective struct {
	mu    sync.Mutex
	calls int
	vals  []float64
	seen  []bool
}

func (o *verifC19objective) f(x []float64) float64 {
	i := int(x[0])
	o.mu.Lock()
	o.calls++
	o.seen[i] = true
	o.mu.Unlock()
	return o.vals[i]
}

// VerifC19_DriverListSearch: Minimize + ListSearch on a list of 1..3 points
// with symbolic objective values, Concurrent in 0..2, optional function
// evaluation and major iteration limits.
func VerifC19_DriverListSearch() {
	rows := verifChoose("rows", 1, verifParam("c19rows", 3))
	conc := verifChoose("concurrent", 0, verifParam("c19conc", 2))
	limit := verifChoose("funclimit", 0, rows)
	iterLimit := verifChoose("iterlimit", 0, 1) * 2
	obj := &verifC19objective{vals: verifFloats("v", rows), seen: make([]bool, rows)}
	locs := mat.NewDense(rows, 1, nil)
	for i := 0; i < rows; i++ {
		locs.Set(i, 0, float64(i))
	}
	p := Problem{Func: obj.f}
	settings := &Settings{Concurrent: conc, FuncEvaluations: limit, MajorIterations: iterLimit, Converger: NeverTerminate{}}
	nTasks := conc
	if nTasks == 0 {
		nTasks = 1
	}
	if nTasks > rows {
		nTasks = rows
	}

	verifSched(verifParam("c19sched", 1))
	verifSchedPreempt(verifParam("c19preempt", 1) == 1)
	res, err := Minimize(p, []float64{0}, settings, &ListSearch{Locs: locs})
	verifAssert(verifSchedDrain() == 0, "Minimize leaves no goroutine behind")
	verifAssert(err == nil, "no error")
	if err != nil {
		return
	}
	verifAssert(res.Stats.FuncEvaluations == obj.calls, "Stats.FuncEvaluations equals the number of calls of Func")
	verifAssert(obj.calls <= rows, "a list of n points needs at most n evaluations")
	if limit > 0 {
		verifAssert(obj.calls <= limit+nTasks-1, "function evaluation limit respected up to the evaluations in flight")
	}
	st := res.Status
	verifAssert(st == MethodConverge || st == FunctionEvaluationLimit || st == IterationLimit, "status is one of the three possible stopping conditions")
	switch st {
	case MethodConverge:
		verifAssert(obj.calls == rows, "MethodConverge: every listed point was evaluated")
	case FunctionEvaluationLimit:
		verifAssert(limit > 0 && res.Stats.FuncEvaluations >= limit, "FunctionEvaluationLimit: the configured limit was reached")
	case IterationLimit:
		verifAssert(iterLimit > 0 && res.Stats.MajorIterations >= iterLimit, "IterationLimit: the configured limit was reached")
	}
	if limit == 0 && iterLimit == 0 {
		verifAssert(st == MethodConverge, "without limits the list is exhausted")
	}
	if res.Stats.MajorIterations > 0 {
		i := int(res.X[0])
		verifAssert(i >= 0 && i < rows && float64(i) == res.X[0], "X is one of the listed points")
		if i >= 0 && i < rows {
			verifAssert(obj.seen[i], "X is a point the objective was evaluated at")
			verifAssertEqF(res.F, obj.vals[i], "F is the objective value at X")
		}
	}
	if st == MethodConverge {
		for i := 0; i < rows; i++ {
			verifAssert(res.F <= obj.vals[i], "MethodConverge: F is the minimum over the list")
		}
	}
	verifReach("end")
}
