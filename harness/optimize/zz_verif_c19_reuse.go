package optimize

// C19: a Method value may be reused for a second Minimize run (Method.Init is
// called again); the second run must be what a FRESH Method produces on the
// same problem: same status, X, F, gradient and evaluation counts. The first
// run is stopped by small evaluation limits at every possible point of a line
// search, so that state left behind in the method (line-search flags, stored
// directions, step sizes) is exposed.

func verifC19reuseMethod(kind int) Method {
	switch kind {
	case 0:
		return &GradientDescent{Linesearcher: &Backtracking{}, StepSizer: ConstantStepSize{Size: 1}}
	case 1:
		return &GradientDescent{Linesearcher: &Bisection{}, StepSizer: ConstantStepSize{Size: 1}}
	}
	return &BFGS{Linesearcher: &Backtracking{}}
}

func VerifC19_DriverMethodReuse() {
	kind := verifChoose("method", 0, verifParam("c19reusekinds", 1))
	f1 := verifChoose("funclimit1", 1, verifParam("c19reusef", 3))
	g1 := verifChoose("gradlimit1", 0, verifParam("c19reuseg", 2))
	f2 := verifChoose("funclimit2", 1, verifParam("c19reusef2", 4))
	reused := verifC19reuseMethod(kind)

	verifSched(0) // the default schedule: the property here is about method state, not interleavings
	o1 := verifC19dNewObj("a")
	x1 := verifFloat("x1")
	s1 := &Settings{FuncEvaluations: f1, GradEvaluations: g1, Converger: NeverTerminate{}}
	_, _ = Minimize(Problem{Func: o1.f, Grad: o1.grad}, []float64{x1}, s1, reused)

	o2 := verifC19dNewObj("b")
	x2 := verifFloat("x2")
	s2 := func() *Settings { return &Settings{FuncEvaluations: f2, GradEvaluations: 3, Converger: NeverTerminate{}} }
	resA, errA := Minimize(Problem{Func: o2.f, Grad: o2.grad}, []float64{x2}, s2(), reused)
	fa, ga := o2.fcalls, o2.gcalls
	// the same objective (same answer to the i-th call, equal points give equal
	// values) for a fresh method
	o2.fcalls, o2.gcalls = 0, 0
	resB, errB := Minimize(Problem{Func: o2.f, Grad: o2.grad}, []float64{x2}, s2(), verifC19reuseMethod(kind))
	verifAssert(verifSchedDrain() == 0, "no goroutine left behind")
	verifAssert((errA == nil) == (errB == nil), "reused method: same error outcome as a fresh method")
	if resA != nil && resB != nil {
		verifAssert(resA.Status == resB.Status, "reused method: same status as a fresh method")
		verifAssert(fa == o2.fcalls && ga == o2.gcalls, "reused method: same number of evaluations as a fresh method")
		verifAssert(resA.Stats.MajorIterations == resB.Stats.MajorIterations, "reused method: same number of major iterations as a fresh method")
		verifAssertEqF(resA.X[0], resB.X[0], "reused method: same X as a fresh method")
		if resA.Stats.MajorIterations > 0 && resB.Stats.MajorIterations > 0 {
			verifAssertEqF(resA.F, resB.F, "reused method: same F as a fresh method")
		}
	}
	verifReach("end")
}
