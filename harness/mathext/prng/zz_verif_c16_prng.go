package prng

// verifC16decodeLen picks the input length: every length 0..size+1 when
// c16alllen != 0, otherwise the interesting ones.
func verifC16decodeLen(size int) int {
	if verifParam("c16alllen", 0) != 0 || size <= 64 {
		return verifChoose("len", 0, size+1)
	}
	return []int{0, 1, size / 2, size - 1, size, size + 1}[verifChoose("lenidx", 0, 5)]
}

// VerifC16_SplitMix64: state round trip, agreement of the following outputs,
// and totality of the decoder.
func VerifC16_SplitMix64() {
	var a SplitMix64
	a.state = verifUint64("s")
	buf, err := a.MarshalBinary()
	verifAssert(err == nil, "MarshalBinary succeeds")
	verifAssert(len(buf) == 8, "SplitMix64 state is 8 bytes")
	var b SplitMix64
	b.state = verifUint64("junk")
	err = b.UnmarshalBinary(buf)
	verifAssert(err == nil, "UnmarshalBinary(MarshalBinary(s)) succeeds")
	verifAssert(b.state == a.state, "state round trips")
	for k := 0; k < 3; k++ {
		verifAssert(a.Uint64() == b.Uint64(), "outputs after the round trip agree")
	}

	L := verifC16decodeLen(8)
	data := verifBytes("d", L)
	var c SplitMix64
	var out uint64
	panicked, fault, _ := verifCatch(func() {
		err = c.UnmarshalBinary(data)
		out = c.Uint64()
	})
	verifAssert(!fault, "UnmarshalBinary of arbitrary bytes: no runtime fault")
	verifAssert(!panicked, "UnmarshalBinary of arbitrary bytes: no panic")
	verifAssert((err == nil) == (L >= 8), "decoder accepts exactly inputs that hold a whole state")
	_ = out
	verifReach("end")
}

type verifC16xo interface {
	Uint64() uint64
	MarshalBinary() ([]byte, error)
	UnmarshalBinary([]byte) error
}

func verifC16xoshiro(mk func(st *[4]uint64) (verifC16xo, *[4]uint64)) {
	var st [4]uint64
	for i := range st {
		st[i] = verifUint64("s" + string(rune('0'+i)))
	}
	a, ast := mk(&st)
	buf, err := a.MarshalBinary()
	verifAssert(err == nil, "MarshalBinary succeeds")
	verifAssert(len(buf) == 32, "xoshiro256 state is 32 bytes")
	junk := [4]uint64{verifUint64("j0"), verifUint64("j1"), verifUint64("j2"), verifUint64("j3")}
	b, bst := mk(&junk)
	err = b.UnmarshalBinary(buf)
	verifAssert(err == nil, "UnmarshalBinary(MarshalBinary(s)) succeeds")
	same := true
	for i := range st {
		same = verifAnd(same, ast[i] == bst[i])
		same = verifAnd(same, ast[i] == st[i])
	}
	verifAssert(same, "state round trips (and MarshalBinary does not change it)")
	for k := 0; k < 3; k++ {
		verifAssert(a.Uint64() == b.Uint64(), "outputs after the round trip agree")
	}

	L := verifC16decodeLen(32)
	data := verifBytes("d", L)
	var zero [4]uint64
	c, _ := mk(&zero)
	panicked, fault, _ := verifCatch(func() {
		err = c.UnmarshalBinary(data)
		_ = c.Uint64()
	})
	verifAssert(!fault, "UnmarshalBinary of arbitrary bytes: no runtime fault")
	verifAssert(!panicked, "UnmarshalBinary of arbitrary bytes: no panic")
	verifAssert((err == nil) == (L >= 32), "decoder accepts exactly inputs that hold a whole state")
	verifReach("end")
}

func VerifC16_Xoshiro256plus() {
	verifC16xoshiro(func(st *[4]uint64) (verifC16xo, *[4]uint64) {
		s := &Xoshiro256plus{state: *st}
		return s, &s.state
	})
}

func VerifC16_Xoshiro256plusplus() {
	verifC16xoshiro(func(st *[4]uint64) (verifC16xo, *[4]uint64) {
		s := &Xoshiro256plusplus{state: *st}
		return s, &s.state
	})
}

func VerifC16_Xoshiro256starstar() {
	verifC16xoshiro(func(st *[4]uint64) (verifC16xo, *[4]uint64) {
		s := &Xoshiro256starstar{state: *st}
		return s, &s.state
	})
}

// VerifC16_MT19937RoundTrip: arbitrary 624 word state and arbitrary index.
func VerifC16_MT19937RoundTrip() {
	var a MT19937
	w := verifUint64s("mt", mt19937N)
	for i := range a.mt {
		a.mt[i] = uint32(w[i])
	}
	a.mti = verifUint32("mti")
	buf, err := a.MarshalBinary()
	verifAssert(err == nil, "MarshalBinary succeeds")
	verifAssert(len(buf) == (mt19937N+1)*4, "MT19937 state is 2500 bytes")
	b := MT19937{mti: verifUint32("junk")}
	err = b.UnmarshalBinary(buf)
	verifAssert(err == nil, "UnmarshalBinary(MarshalBinary(s)) succeeds")
	same := b.mti == a.mti
	for i := range a.mt {
		same = verifAnd(same, verifAnd(a.mt[i] == b.mt[i], a.mt[i] == uint32(w[i])))
	}
	verifAssert(same, "state round trips (and MarshalBinary does not change it)")
	var oa, ob uint64
	panicked, fault, _ := verifCatch(func() {
		oa = a.Uint64()
		ob = b.Uint64()
	})
	verifAssert(verifAnd(!panicked, !fault), "Uint64 on an arbitrary state: no fault")
	verifAssert(oa == ob, "outputs after the round trip agree")
	verifReach("end")
}

// VerifC16_MT19937DecodeTotal: arbitrary bytes of length 0..size+1.
func VerifC16_MT19937DecodeTotal() {
	size := (mt19937N + 1) * 4
	L := verifC16decodeLen(size)
	data := verifBytes("d", L)
	var c MT19937
	var err error
	panicked, fault, _ := verifCatch(func() {
		err = c.UnmarshalBinary(data)
		_ = c.Uint64()
	})
	verifAssert(!fault, "UnmarshalBinary of arbitrary bytes then Uint64: no runtime fault")
	verifAssert(!panicked, "UnmarshalBinary of arbitrary bytes then Uint64: no panic")
	verifAssert((err == nil) == (L >= size), "decoder accepts exactly inputs that hold a whole state")
	verifReach("end")
}

func VerifC16_MT19937_64RoundTrip() {
	var a MT19937_64
	w := verifUint64s("mt", mt19937_64NN)
	for i := range a.mt {
		a.mt[i] = w[i]
	}
	a.mti = verifUint64("mti")
	buf, err := a.MarshalBinary()
	verifAssert(err == nil, "MarshalBinary succeeds")
	verifAssert(len(buf) == (mt19937_64NN+1)*8, "MT19937_64 state is 2504 bytes")
	b := MT19937_64{mti: verifUint64("junk")}
	err = b.UnmarshalBinary(buf)
	verifAssert(err == nil, "UnmarshalBinary(MarshalBinary(s)) succeeds")
	same := b.mti == a.mti
	for i := range a.mt {
		same = verifAnd(same, verifAnd(a.mt[i] == b.mt[i], a.mt[i] == w[i]))
	}
	verifAssert(same, "state round trips (and MarshalBinary does not change it)")
	var oa, ob uint64
	panicked, fault, _ := verifCatch(func() {
		oa = a.Uint64()
		ob = b.Uint64()
	})
	verifAssert(verifAnd(!panicked, !fault), "Uint64 on an arbitrary state: no fault")
	verifAssert(oa == ob, "outputs after the round trip agree")
	verifReach("end")
}

func VerifC16_MT19937_64DecodeTotal() {
	size := (mt19937_64NN + 1) * 8
	L := verifC16decodeLen(size)
	data := verifBytes("d", L)
	var c MT19937_64
	var err error
	panicked, fault, _ := verifCatch(func() {
		err = c.UnmarshalBinary(data)
		_ = c.Uint64()
	})
	verifAssert(!fault, "UnmarshalBinary of arbitrary bytes then Uint64: no runtime fault")
	verifAssert(!panicked, "UnmarshalBinary of arbitrary bytes then Uint64: no panic")
	verifAssert((err == nil) == (L >= size), "decoder accepts exactly inputs that hold a whole state")
	verifReach("end")
}
