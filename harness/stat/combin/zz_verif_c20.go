package combin

// VerifC20_SubForIdxFor: SubFor/IdxFor are mutually inverse index maps and
// SubFor rejects exactly the indices outside [0, prod(dims)).
func VerifC20_SubForIdxFor() {
	nd := verifChoose("ndims", 1, verifParam("maxdims", 3))
	maxd := verifParam("maxdim", 5)
	dims := make([]int, nd)
	prod := 1
	for i := range dims {
		dims[i] = verifChoose("dim", 1, maxd)
		prod *= dims[i]
	}
	idx := verifInt("idx", -2, prod+2)
	var sub []int
	panicked, fault, _ := verifCatch(func() { sub = SubFor(nil, idx, dims) })
	valid := verifAnd(idx >= 0, idx < prod)
	verifAssert(!fault, "SubFor: no runtime fault for positive dims")
	verifAssert(verifIff(panicked, !valid), "SubFor panics iff idx is outside [0, prod(dims))")
	if !panicked {
		for i := range dims {
			verifAssert(verifAnd(sub[i] >= 0, sub[i] < dims[i]), "SubFor returns a valid subscript")
		}
		back := -1
		p2, f2, _ := verifCatch(func() { back = IdxFor(sub, dims) })
		verifAssert(verifAnd(!p2, !f2), "IdxFor accepts every subscript SubFor returns")
		verifAssert(back == idx, "IdxFor(SubFor(i)) == i")
		verifReach("roundtrip")
	}
}

// VerifC20_IdxForSubFor: SubFor(IdxFor(s)) == s for every valid subscript.
func VerifC20_IdxForSubFor() {
	nd := verifChoose("ndims", 1, verifParam("maxdims", 3))
	maxd := verifParam("maxdim", 5)
	dims := make([]int, nd)
	sub := make([]int, nd)
	prod := 1
	for i := range dims {
		dims[i] = verifChoose("dim", 1, maxd)
		prod *= dims[i]
		sub[i] = verifInt("sub"+string(rune(48+i)), 0, dims[i]-1)
	}
	idx := IdxFor(sub, dims)
	verifAssert(verifAnd(idx >= 0, idx < prod), "IdxFor lands in [0, prod)")
	got := SubFor(nil, idx, dims)
	for i := range dims {
		verifAssert(got[i] == sub[i], "SubFor(IdxFor(s)) == s")
	}
	verifReach("end")
}

