package combin

// C20, combinatorial enumerations: binomials, combination / permutation /
// Cartesian lists, generators and the index <-> object maps.
//
// Oracles are definition-level: Pascal's triangle for C(n,k), the falling
// factorial recurrence for P(n,k), and the lexicographic RANK of a combination
// (number of valid combinations that precede it) written as a plain sum.

// verifC20Pascal returns Pascal's triangle up to row n (t[i][j] = C(i,j), 0 for j>i).
func verifC20Pascal(n int) [][]int {
	t := make([][]int, n+1)
	for i := range t {
		t[i] = make([]int, n+2)
		t[i][0] = 1
		for j := 1; j <= i; j++ {
			t[i][j] = t[i-1][j-1] + t[i-1][j]
		}
	}
	return t
}

// verifC20Falling returns n*(n-1)*...*(n-k+1) by the recurrence P(n,0)=1, P(n,j)=P(n,j-1)*(n-j+1).
func verifC20Falling(n, k int) int {
	p := 1
	for j := 1; j <= k; j++ {
		p *= n - j + 1
	}
	return p
}

// verifC20ValidComb: s is strictly increasing with all entries in [0,n) (branch-free).
func verifC20ValidComb(s []int, n int) bool {
	ok := true
	for i, v := range s {
		ok = verifAnd(ok, verifAnd(v >= 0, v < n))
		if i > 0 {
			ok = verifAnd(ok, s[i-1] < v)
		}
	}
	return ok
}

// verifC20Rank: number of k-combinations of [0,n) that precede s in
// lexicographic order, for a valid s: for every position i and every value v
// strictly between s[i-1] and s[i], the combinations that agree with s before
// i and hold v at i number C(n-1-v, k-1-i).
func verifC20Rank(s []int, n int, tab [][]int) int {
	k := len(s)
	r := 0
	for i := 0; i < k; i++ {
		for v := 0; v < n; v++ {
			after := true
			if i > 0 {
				after = s[i-1] < v
			}
			r += verifIteInt(verifAnd(after, v < s[i]), tab[n-1-v][k-1-i], 0)
		}
	}
	return r
}

func verifC20SymComb(n, k int) []int {
	s := make([]int, k)
	for i := range s {
		s[i] = verifInt("c"+string(rune('0'+i)), 0, n-1)
	}
	return s
}

// ---- Binomial, NumPermutations -------------------------------------------------

// VerifC20_Binomial: exact value (Pascal's triangle), symmetry and the Pascal
// recurrence for every 0 <= k <= n <= binn. One path, every (n,k) concrete.
func VerifC20_Binomial() {
	N := verifParam("binn", 20)
	tab := verifC20Pascal(N)
	for n := 0; n <= N; n++ {
		for k := 0; k <= n; k++ {
			b := Binomial(n, k)
			verifAssert(b == tab[n][k], "Binomial(n,k) is the entry of Pascal's triangle")
			verifAssert(b == Binomial(n, n-k), "Binomial(n,k) == Binomial(n,n-k)")
			if n >= 1 && k >= 1 && k <= n-1 {
				verifAssert(b == Binomial(n-1, k-1)+Binomial(n-1, k), "Pascal recurrence")
			}
		}
	}
	verifReach("end")
}

// VerifC20_BinomialSym: the same with SYMBOLIC n and k (k's loop count is a
// fork, the products are bit-vector terms in n): value from the table.
func VerifC20_BinomialSym() {
	N := verifParam("binsymn", 10)
	tab := verifC20Pascal(N)
	n := verifInt("n", 0, N)
	k := verifInt("k", 0, N)
	verifAssume(k <= n)
	b := Binomial(n, k)
	want := 0
	for i := 0; i <= N; i++ {
		for j := 0; j <= i; j++ {
			want = verifIteInt(verifAnd(n == i, k == j), tab[i][j], want)
		}
	}
	verifAssert(b == want, "Binomial(n,k) with symbolic arguments is the entry of Pascal's triangle")
	verifReach("end")
}

// VerifC20_CountPanics: the documented argument checks of Binomial,
// NumPermutations and the constructors/lists built on them, for SYMBOLIC
// invalid arguments over the whole int range.
func VerifC20_CountPanics() {
	n := int(verifInt64("n"))
	k := int(verifInt64("k"))
	verifAssume(verifOr(verifOr(n < 0, k < 0), n < k))
	which := verifChoose("fn", 0, 7)
	var msg string
	var p, f bool
	switch which {
	case 0:
		p, f, msg = verifCatch(func() { Binomial(n, k) })
		verifAssert(verifImplies(verifOr(n < 0, k < 0), msg == errNegInput), "Binomial: negative input message")
		verifAssert(verifImplies(verifAnd(verifAnd(n >= 0, k >= 0), n < k), msg == badSetSize), "Binomial: n < k message")
	case 1:
		p, f, msg = verifCatch(func() { NumPermutations(n, k) })
	case 2:
		p, f, msg = verifCatch(func() { NewCombinationGenerator(n, k) })
	case 3:
		p, f, msg = verifCatch(func() { Combinations(n, k) })
	case 4:
		p, f, msg = verifCatch(func() { NewPermutationGenerator(n, k) })
	case 5:
		p, f, msg = verifCatch(func() { Permutations(n, k) })
	case 6:
		p, f, msg = verifCatch(func() { IndexToCombination(nil, 0, n, k) })
	case 7:
		p, f, msg = verifCatch(func() { IndexToPermutation(nil, 0, n, k) })
	}
	_ = msg
	verifAssert(p, "n<0, k<0 or n<k panics")
	verifAssert(!f, "the panic is the documented explicit one, not a runtime fault")
	verifReach("end")
}

// VerifC20_NumPermutations: P(n,k) = n!/(n-k)! by the falling-factorial
// recurrence, = C(n,k)*k!, for every 0 <= k <= n <= permcountn.
func VerifC20_NumPermutations() {
	N := verifParam("permcountn", 15)
	tab := verifC20Pascal(N)
	for n := 0; n <= N; n++ {
		for k := 0; k <= n; k++ {
			p := NumPermutations(n, k)
			verifAssert(p == verifC20Falling(n, k), "NumPermutations(n,k) == n(n-1)...(n-k+1)")
			verifAssert(p == tab[n][k]*verifC20Falling(k, k), "NumPermutations(n,k) == C(n,k) k!")
		}
	}
	verifReach("end")
}

// ---- combinations -----------------------------------------------------------------

// VerifC20_Combinations: the list holds Binomial(n,k) rows of length k, every
// row a valid combination, rows strictly increasing lexicographically (hence
// every k-subset exactly once, in lexicographic order); row i is what
// IndexToCombination(i) and the i-th generator step return and
// CombinationIndex(row i) == i; the generator stops after the last row and
// Combination then panics.
func VerifC20_Combinations() {
	N := verifParam("combn", 6)
	n := verifChoose("n", 0, N)
	k := verifChoose("k", 0, n)
	tab := verifC20Pascal(N)
	list := Combinations(n, k)
	verifAssert(len(list) == tab[n][k], "Combinations returns Binomial(n,k) rows")
	g := NewCombinationGenerator(n, k)
	for i, row := range list {
		verifAssert(len(row) == k, "each row has length k")
		verifAssert(verifC20ValidComb(row, n), "each row is a strictly increasing subset of [0,n)")
		verifAssert(verifC20Rank(row, n, tab) == i, "row i is the combination of lexicographic rank i")
		verifAssert(CombinationIndex(row, n, k) == i, "CombinationIndex(row i) == i")
		rnd := IndexToCombination(nil, i, n, k)
		verifAssert(g.Next(), "the generator has as many steps as there are rows")
		cur := g.Combination(nil)
		dst := make([]int, k)
		g.Combination(dst)
		for j := range row {
			verifAssert(rnd[j] == row[j], "IndexToCombination(i) is row i")
			verifAssert(cur[j] == row[j], "the i-th generated combination is row i")
			verifAssert(dst[j] == row[j], "Combination(dst) stores the current combination in dst")
		}
	}
	verifAssert(!g.Next(), "the generator stops after Binomial(n,k) combinations")
	p, f, _ := verifCatch(func() { g.Combination(nil) })
	verifAssert(verifAnd(p, !f), "Combination panics once all combinations have been generated")
	g2 := NewCombinationGenerator(n, k)
	p, f, _ = verifCatch(func() { g2.Combination(nil) })
	verifAssert(verifAnd(p, !f), "Combination panics before the first Next")
	verifReach("end")
}

// VerifC20_CombinationNext: ONE step of the generator from an arbitrary valid
// state (symbolic combination s, remaining consistent with it): Next returns
// true exactly when s is not the last combination and then the state is the
// combination of rank(s)+1, i.e. the lexicographic successor.
func VerifC20_CombinationNext() {
	N := verifParam("nextn", 9)
	n := verifChoose("n", 1, N)
	k := verifChoose("k", 1, n)
	tab := verifC20Pascal(N)
	s := verifC20SymComb(n, k)
	verifAssume(verifC20ValidComb(s, n))
	rank := verifC20Rank(s, n, tab)
	total := tab[n][k]
	prev := make([]int, k)
	copy(prev, s)
	g := &CombinationGenerator{n: n, k: k, previous: prev, remaining: total - 1 - rank}
	more := g.Next()
	verifAssert(verifIff(more, rank < total-1), "Next is true exactly when a combination follows")
	if more {
		t := g.Combination(nil)
		verifAssert(verifC20ValidComb(t, n), "the next state is a valid combination")
		verifAssert(verifC20Rank(t, n, tab) == rank+1, "the next state is the lexicographic successor")
		verifReach("step")
	} else {
		p, f, _ := verifCatch(func() { g.Combination(nil) })
		verifAssert(verifAnd(p, !f), "Combination panics after Next returned false")
		verifReach("last")
	}
}

// VerifC20_IndexToCombination: symbolic idx. Panics exactly outside
// [0, Binomial(n,k)-1]; otherwise a valid combination of rank idx whose
// CombinationIndex is idx.
func VerifC20_IndexToCombination() {
	N := verifParam("idxn", 7)
	n := verifChoose("n", 0, N)
	k := verifChoose("k", 0, n)
	tab := verifC20Pascal(N)
	total := tab[n][k]
	idx := verifInt("idx", -2, total+1)
	var c []int
	p, f, _ := verifCatch(func() { c = IndexToCombination(nil, idx, n, k) })
	verifAssert(!f, "IndexToCombination: no runtime fault")
	verifAssert(verifIff(p, verifOr(idx < 0, idx >= total)), "IndexToCombination panics iff idx is outside [0, Binomial(n,k)-1]")
	if !p {
		verifAssert(len(c) == k, "result has length k")
		verifAssert(verifC20ValidComb(c, n), "result is a strictly increasing subset of [0,n)")
		verifAssert(verifC20Rank(c, n, tab) == idx, "result is the combination of lexicographic rank idx")
		back := CombinationIndex(c, n, k)
		verifAssert(back == idx, "CombinationIndex(IndexToCombination(idx)) == idx")
		verifReach("roundtrip")
	}
}

// VerifC20_CombinationIndex: symbolic valid combination. The index is its
// lexicographic rank, lies in [0, Binomial(n,k)) and IndexToCombination maps it back.
func VerifC20_CombinationIndex() {
	N := verifParam("idxn", 7)
	n := verifChoose("n", 0, N)
	k := verifChoose("k", 0, n)
	tab := verifC20Pascal(N)
	s := verifC20SymComb(n, k)
	verifAssume(verifC20ValidComb(s, n))
	in := make([]int, k)
	copy(in, s)
	idx := CombinationIndex(in, n, k)
	verifAssert(verifAnd(idx >= 0, idx < tab[n][k]), "CombinationIndex lies in [0, Binomial(n,k))")
	verifAssert(idx == verifC20Rank(s, n, tab), "CombinationIndex is the lexicographic rank")
	back := IndexToCombination(nil, idx, n, k)
	for j := range s {
		verifAssert(in[j] == s[j], "CombinationIndex does not modify its argument")
		verifAssert(back[j] == s[j], "IndexToCombination(CombinationIndex(s)) == s")
	}
	verifReach("end")
}

// VerifC20_CombinationIndexPanics: "CombinationIndex panics if comb is not a
// sorted combination of the first [0,n) integers": symbolic comb with entries
// in [-2, n+1].
func VerifC20_CombinationIndexPanics() {
	N := verifParam("panicn", 4)
	n := verifChoose("n", 0, N)
	k := verifChoose("k", 0, n)
	s := make([]int, k)
	for i := range s {
		s[i] = verifInt("c"+string(rune('0'+i)), -2, n+1)
	}
	valid := verifC20ValidComb(s, n)
	p, f, _ := verifCatch(func() { CombinationIndex(s, n, k) })
	verifAssert(!f, "CombinationIndex: no runtime fault")
	verifAssert(verifIff(p, !valid), "CombinationIndex panics iff comb is not a sorted combination of [0,n)")
	verifReach("end")
}

// ---- permutations -----------------------------------------------------------------

// verifC20ValidPerm: k distinct entries of [0,n) (branch-free).
func verifC20ValidPerm(s []int, n int) bool {
	ok := true
	for i, v := range s {
		ok = verifAnd(ok, verifAnd(v >= 0, v < n))
		for j := 0; j < i; j++ {
			ok = verifAnd(ok, s[j] != v)
		}
	}
	return ok
}

// VerifC20_Permutations: the list holds NumPermutations(n,k) rows, each k
// distinct entries of [0,n), no row twice (hence every k-permutation exactly
// once); row i is IndexToPermutation(i) and the i-th generator step,
// PermutationIndex(row i) == i; the generator stops after the last row and
// Permutation then panics.
func VerifC20_Permutations() {
	N := verifParam("permn", 5)
	n := verifChoose("n", 0, N)
	k := verifChoose("k", 0, n)
	total := verifC20Falling(n, k)
	list := Permutations(n, k)
	verifAssert(len(list) == total, "Permutations returns n!/(n-k)! rows")
	codes := 1
	for j := 0; j < k; j++ {
		codes *= n
	}
	seen := make([]bool, codes)
	g := NewPermutationGenerator(n, k)
	for i, row := range list {
		verifAssert(len(row) == k, "each row has length k")
		verifAssert(verifC20ValidPerm(row, n), "each row has k distinct entries of [0,n)")
		code := 0
		for _, v := range row {
			code = code*n + v
		}
		if code >= 0 && code < codes {
			verifAssert(!seen[code], "no permutation is listed twice")
			seen[code] = true
		}
		verifAssert(PermutationIndex(row, n, k) == i, "PermutationIndex(row i) == i")
		rnd := IndexToPermutation(nil, i, n, k)
		verifAssert(g.Next(), "the generator has as many steps as there are rows")
		cur := g.Permutation(nil)
		dst := make([]int, k)
		g.Permutation(dst)
		for j := range row {
			verifAssert(rnd[j] == row[j], "IndexToPermutation(i) is row i")
			verifAssert(cur[j] == row[j], "the i-th generated permutation is row i")
			verifAssert(dst[j] == row[j], "Permutation(dst) stores the current permutation in dst")
		}
	}
	verifAssert(!g.Next(), "the generator stops after NumPermutations(n,k) permutations")
	p, f, _ := verifCatch(func() { g.Permutation(nil) })
	verifAssert(verifAnd(p, !f), "Permutation panics once all permutations have been generated")
	g2 := NewPermutationGenerator(n, k)
	p, f, _ = verifCatch(func() { g2.Permutation(nil) })
	verifAssert(verifAnd(p, !f), "Permutation panics before the first Next")
	verifReach("end")
}

// VerifC20_IndexToPermutation: symbolic idx. Panics exactly outside
// [0, NumPermutations(n,k)-1]; otherwise k distinct entries of [0,n) whose
// PermutationIndex is idx (so the map is injective on the whole range).
func VerifC20_IndexToPermutation() {
	N := verifParam("pidxn", 5)
	n := verifChoose("n", 0, N)
	k := verifChoose("k", 0, n)
	total := verifC20Falling(n, k)
	idx := verifInt("idx", -2, total+1)
	var c []int
	p, f, _ := verifCatch(func() { c = IndexToPermutation(nil, idx, n, k) })
	verifAssert(!f, "IndexToPermutation: no runtime fault")
	verifAssert(verifIff(p, verifOr(idx < 0, idx >= total)), "IndexToPermutation panics iff idx is outside [0, NumPermutations(n,k)-1]")
	if !p {
		verifAssert(len(c) == k, "result has length k")
		verifAssert(verifC20ValidPerm(c, n), "result has k distinct entries of [0,n)")
		back := PermutationIndex(c, n, k)
		verifAssert(back == idx, "PermutationIndex(IndexToPermutation(idx)) == idx")
		verifReach("roundtrip")
	}
}

// VerifC20_PermutationIndex: symbolic valid permutation: index in range and
// IndexToPermutation maps it back.
func VerifC20_PermutationIndex() {
	N := verifParam("pidxn", 5)
	n := verifChoose("n", 0, N)
	k := verifChoose("k", 0, n)
	total := verifC20Falling(n, k)
	s := make([]int, k)
	for i := range s {
		s[i] = verifInt("c"+string(rune('0'+i)), 0, n-1)
	}
	verifAssume(verifC20ValidPerm(s, n))
	in := make([]int, k)
	copy(in, s)
	idx := PermutationIndex(in, n, k)
	verifAssert(verifAnd(idx >= 0, idx < total), "PermutationIndex lies in [0, NumPermutations(n,k))")
	back := IndexToPermutation(nil, idx, n, k)
	for j := range s {
		verifAssert(in[j] == s[j], "PermutationIndex does not modify its argument")
		verifAssert(back[j] == s[j], "IndexToPermutation(PermutationIndex(s)) == s")
	}
	verifReach("end")
}

// VerifC20_PermutationIndexPanics: "PermutationIndex panics if perm is not a
// permutation of k of the first [0,n) integers": symbolic entries in [-2, n+1].
func VerifC20_PermutationIndexPanics() {
	N := verifParam("panicn", 4)
	n := verifChoose("n", 0, N)
	k := verifChoose("k", 0, n)
	s := make([]int, k)
	for i := range s {
		s[i] = verifInt("c"+string(rune('0'+i)), -2, n+1)
	}
	valid := verifC20ValidPerm(s, n)
	p, f, _ := verifCatch(func() { PermutationIndex(s, n, k) })
	verifAssert(!f, "PermutationIndex: no runtime fault")
	verifAssert(verifIff(p, !valid), "PermutationIndex panics iff perm is not k distinct entries of [0,n)")
	verifReach("end")
}

// ---- Cartesian products --------------------------------------------------------------

func verifC20Lens() (lens []int, prod int) {
	nd := verifChoose("ndims", 1, verifParam("cartdims", 3))
	maxd := verifParam("cartdim", 4)
	lens = make([]int, nd)
	prod = 1
	for i := range lens {
		lens[i] = verifChoose("len", 1, maxd)
		prod *= lens[i]
	}
	return lens, prod
}

// VerifC20_Cartesian: Card is the product; the list has Card rows in the
// documented (row-major: last entry fastest) order, which makes every tuple
// of the product appear exactly once; the generator yields the same rows and
// stops after Card steps; IdxFor(row i) == i.
func VerifC20_Cartesian() {
	lens, prod := verifC20Lens()
	verifAssert(Card(lens) == prod, "Card is the product of the lengths")
	keep := make([]int, len(lens))
	copy(keep, lens)
	out := Cartesian(lens)
	verifAssert(len(out) == prod, "Cartesian returns Card(lens) rows")
	g := NewCartesianGenerator(lens)
	for i, row := range out {
		verifAssert(len(row) == len(lens), "each row has one entry per length")
		stride := prod
		for j := range lens {
			stride /= lens[j]
			verifAssert(row[j] == (i/stride)%lens[j], "row i is the i-th tuple in row-major order")
		}
		verifAssert(IdxFor(row, lens) == i, "IdxFor(row i) == i")
		verifAssert(g.Next(), "the generator has Card(lens) steps")
		cur := g.Product(nil)
		dst := make([]int, len(lens))
		g.Product(dst)
		for j := range row {
			verifAssert(cur[j] == row[j], "the i-th generated product is row i")
			verifAssert(dst[j] == row[j], "Product(dst) stores the current product in dst")
		}
	}
	verifAssert(!g.Next(), "the generator stops after Card(lens) products")
	verifAssert(!g.Next(), "and stays stopped")
	for j := range lens {
		verifAssert(lens[j] == keep[j], "the lengths are not modified")
	}
	verifReach("end")
}

// VerifC20_CartesianNext: one generator step from an arbitrary position
// (symbolic idx in [-1, rows]): Next is true exactly when a product follows
// and then Product is the tuple of index idx+1.
func VerifC20_CartesianNext() {
	lens, prod := verifC20Lens()
	at := verifInt("at", -1, prod)
	g := &CartesianGenerator{lens: lens, rows: prod, idx: at}
	more := g.Next()
	verifAssert(verifIff(more, at+1 < prod), "Next is true exactly when a product follows")
	if more {
		row := g.Product(nil)
		stride := prod
		for j := range lens {
			stride /= lens[j]
			verifAssert(row[j] == ((at+1)/stride)%lens[j], "the product after position idx is tuple idx+1")
		}
		verifReach("step")
	} else {
		verifAssert(!g.Next(), "a finished generator stays finished")
		verifReach("last")
	}
}

// VerifC20_CartesianPanics: documented argument checks. Cartesian "panics if
// any of the provided lengths are less than 1"; Card and NewCartesianGenerator:
// "All length values must be positive, otherwise this will panic".
func VerifC20_CartesianPanics() {
	nd := verifChoose("ndims", 1, 2)
	lens := make([]int, nd)
	bad := false
	for i := range lens {
		lens[i] = verifInt("len"+string(rune('0'+i)), -2, 3)
		bad = verifOr(bad, lens[i] < 1)
	}
	verifAssume(bad)
	which := verifChoose("fn", 0, 2)
	var p, f bool
	switch which {
	case 0:
		p, f, _ = verifCatch(func() { Cartesian(lens) })
	case 1:
		p, f, _ = verifCatch(func() { Card(lens) })
	case 2:
		p, f, _ = verifCatch(func() { NewCartesianGenerator(lens) })
	}
	verifAssert(!f, "no runtime fault")
	verifAssert(p, "a length below 1 panics")
	verifReach("end")
}
