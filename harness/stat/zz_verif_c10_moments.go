package stat

// C10, model R (exact real arithmetic): every moment-type statistic equals its
// defining formula. Divisions of the oracle are multiplied out so that each
// obligation is a polynomial identity.

// verifC10data returns n symbolic samples and either nil weights (wm=0) or n
// symbolic strictly positive weights (wm=1).
func verifC10data(name string, n, wm int) (x, w []float64) {
	x = verifFloats(name, n)
	if wm == 1 {
		w = verifFloats(name+"w", n)
		for i := range w {
			verifAssume(w[i] > 0)
		}
	}
	if wm == 2 {
		// symbolic weights constrained to one: the unweighted statistic, but
		// with every constant (n/(n-1), 1/n, ...) kept in exact arithmetic
		// instead of being rounded natively.
		w = verifFloats(name+"w", n)
		for i := range w {
			verifAssume(w[i] == 1)
		}
	}
	return x, w
}

// verifC10n case-splits the sample size: lo..param for nil weights, lo..wparam
// (parameter name prefixed with "w", default 2) for symbolic weights, where
// the obligations are rational identities that z3 decides only for small n.
func verifC10n(wm, lo int, param string, def int) int {
	hi := verifParam(param, def)
	if wm == 1 {
		hi = verifParam("w"+param, 2)
	}
	verifAssume(lo <= hi) // an empty range skips the configuration
	return verifChoose("n", lo, hi)
}

func verifC10w(w []float64, i int) float64 {
	if w == nil {
		return 1
	}
	return w[i]
}

func verifC10sumw(w []float64, n int) float64 {
	var s float64
	for i := 0; i < n; i++ {
		s += verifC10w(w, i)
	}
	return s
}

func verifC10copy(s []float64) []float64 {
	if s == nil {
		return nil
	}
	return append([]float64{}, s...)
}

func verifC10unchanged(a, a0 []float64, msg string) {
	verifAssert(len(a) == len(a0), msg)
	for i := range a0 {
		verifAssert(verifSame(a[i], a0[i]), msg)
	}
}

// VerifC10_MeanVariance: Mean, Variance, PopVariance, MeanVariance,
// PopMeanVariance, StdDev, PopStdDev, MeanStdDev, PopMeanStdDev.
func VerifC10_MeanVariance() {
	wm := verifChoose("weights", 0, 1)
	n := verifC10n(wm, 1, "maxn", 3)
	x, w := verifC10data("x", n, wm)
	x0, w0 := verifC10copy(x), verifC10copy(w)
	sw := verifC10sumw(w, n)
	var swx float64
	for i := 0; i < n; i++ {
		swx += verifC10w(w, i) * x[i]
	}
	mean := Mean(x, w)
	verifAssertEqF(mean*sw, swx, "Mean * sum(w) = sum(w*x)")
	var ss float64 // sum w (x-mean)^2 with the mean just verified
	for i := 0; i < n; i++ {
		d := x[i] - mean
		ss += verifC10w(w, i) * d * d
	}
	pm, pv := PopMeanVariance(x, w)
	verifAssertEqF(pm, mean, "PopMeanVariance mean")
	verifAssertEqF(pv*sw, ss, "PopVariance * sum(w) = sum(w*(x-mean)^2)")
	verifAssertEqF(PopVariance(x, w), pv, "PopVariance = PopMeanVariance")
	psd := PopStdDev(x, w)
	verifAssert(psd >= 0, "PopStdDev non-negative")
	verifAssertEqF(psd*psd, pv, "PopStdDev^2 = PopVariance")
	pm2, psd2 := PopMeanStdDev(x, w)
	verifAssertEqF(pm2, mean, "PopMeanStdDev mean")
	verifAssertEqF(psd2, psd, "PopMeanStdDev std")
	// the unbiased estimators divide by sum(w)-1: n>=2 resp. sum(w) != 1
	if n >= 2 {
		verifAssume(sw != 1)
		m, v := MeanVariance(x, w)
		verifAssertEqF(m, mean, "MeanVariance mean")
		verifAssertEqF(v*(sw-1), ss, "Variance * (sum(w)-1) = sum(w*(x-mean)^2)")
		verifAssertEqF(Variance(x, w), v, "Variance = MeanVariance")
		if wm == 0 {
			sd := StdDev(x, w)
			verifAssert(sd >= 0, "StdDev non-negative")
			verifAssertEqF(sd*sd, v, "StdDev^2 = Variance")
			m3, sd3 := MeanStdDev(x, w)
			verifAssertEqF(m3, mean, "MeanStdDev mean")
			verifAssertEqF(sd3, sd, "MeanStdDev std")
		} else {
			verifAssume(sw > 1)
			sd := StdDev(x, w)
			verifAssert(sd >= 0, "StdDev non-negative")
			verifAssertEqF(sd*sd, v, "StdDev^2 = Variance")
		}
	}
	verifC10unchanged(x, x0, "x untouched")
	verifC10unchanged(w, w0, "weights untouched")
	verifReach("end")
}

// VerifC10_Covariance: Covariance equals sum w (x-mx)(y-my) / (sum(w)-1), is
// symmetric, and Covariance(x,x) = Variance(x).
func VerifC10_Covariance() {
	wm := verifChoose("weights", 0, 1)
	n := verifC10n(wm, 2, "maxn", 3)
	x, w := verifC10data("x", n, wm)
	y := verifFloats("y", n)
	sw := verifC10sumw(w, n)
	verifAssume(sw != 1)
	mx, my := Mean(x, w), Mean(y, w)
	var s float64
	for i := 0; i < n; i++ {
		s += verifC10w(w, i) * (x[i] - mx) * (y[i] - my)
	}
	c := Covariance(x, y, w)
	verifAssertEqF(c*(sw-1), s, "Covariance * (sum(w)-1) = sum w (x-mx)(y-my)")
	verifAssertEqF(Covariance(y, x, w), c, "Covariance symmetric")
	verifAssertEqF(Covariance(x, x, w), Variance(x, w), "Covariance(x,x) = Variance(x)")
	verifReach("end")
}

// VerifC10_Correlation: Correlation * sqrt(sxx*syy) = sxy (so Correlation =
// Cov/(sd_x sd_y)), lies in [-1,1] and is symmetric.
func VerifC10_Correlation() {
	wm := verifChoose("weights", 0, 1)
	n := verifC10n(wm, 2, "corrn", 3)
	x, w := verifC10data("x", n, wm)
	y := verifFloats("y", n)
	mx, my := Mean(x, w), Mean(y, w)
	var sxx, syy, sxy float64
	for i := 0; i < n; i++ {
		wi := verifC10w(w, i)
		sxx += wi * (x[i] - mx) * (x[i] - mx)
		syy += wi * (y[i] - my) * (y[i] - my)
		sxy += wi * (x[i] - mx) * (y[i] - my)
	}
	verifAssume(sxx > 0)
	verifAssume(syy > 0)
	r := Correlation(x, y, w)
	verifAssertEqF(r*r*sxx*syy, sxy*sxy, "Correlation^2 * sxx*syy = sxy^2")
	verifAssert(verifOr(verifAnd(r >= 0, sxy >= 0), verifAnd(r <= 0, sxy <= 0)), "Correlation has the sign of sxy")
	verifAssertEqF(Correlation(y, x, w), r, "Correlation symmetric")
	// [-1,1] by two lemmas (each asserted before it is assumed).
	verifAssume(r*r*sxx*syy == sxy*sxy)
	verifAssert(sxy*sxy <= sxx*syy, "Cauchy-Schwarz for the centred sums")
	verifAssume(sxy*sxy <= sxx*syy)
	verifAssert(verifAnd(r >= -1, r <= 1), "Correlation in [-1,1]")
	verifReach("end")
}

// VerifC10_Moments: Moment(k), MomentAbout(k, mu), BivariateMoment(r,s) for
// integer orders; Moment(1)=0, Moment(2)=PopVariance.
func VerifC10_Moments() {
	wm := verifChoose("weights", 0, 1)
	n := verifC10n(wm, 1, "maxn", 3)
	k := verifChoose("k", 0, verifParam("maxmoment", 4))
	x, w := verifC10data("x", n, wm)
	sw := verifC10sumw(w, n)
	mean := Mean(x, w)
	mu := verifFloat("mu")
	pw := func(b float64, e int) float64 {
		r := 1.0
		for i := 0; i < e; i++ {
			r *= b
		}
		return r
	}
	var sc, sa float64
	for i := 0; i < n; i++ {
		sc += verifC10w(w, i) * pw(x[i]-mean, k)
		sa += verifC10w(w, i) * pw(x[i]-mu, k)
	}
	verifAssertEqF(Moment(float64(k), x, w)*sw, sc, "Moment(k) * sum(w) = sum w (x-mean)^k")
	verifAssertEqF(MomentAbout(float64(k), x, mu, w)*sw, sa, "MomentAbout(k,mu) * sum(w) = sum w (x-mu)^k")
	if k == 1 {
		verifAssertEqF(Moment(1, x, w), 0, "first central moment is zero")
	}
	if k == 2 {
		verifAssertEqF(Moment(2, x, w), PopVariance(x, w), "second central moment is the population variance")
		y := verifFloats("y", n)
		my := Mean(y, w)
		var sb float64
		for i := 0; i < n; i++ {
			sb += verifC10w(w, i) * (x[i] - mean) * (x[i] - mean) * (y[i] - my)
		}
		verifAssertEqF(BivariateMoment(2, 1, x, y, w)*sw, sb, "BivariateMoment(2,1)")
	}
	verifReach("end")
}

// VerifC10_SkewKurtosis: Skew and ExKurtosis equal their defining formulas
// stated with sigma^2 = Variance: Skew * sd^3 = c(n) * sum w (x-mean)^3 and
// (ExKurtosis + offset) * var^2 = mul * sum w (x-mean)^4.
func VerifC10_SkewKurtosis() {
	wm := verifChoose("weights", 1, 2) // 1: symbolic positive weights, 2: weights all one (exact constants)
	kurt := verifChoose("kurt", 0, 1) == 1
	lo := 3
	if kurt {
		lo = 4
	}
	hi := verifParam("skewn", 4)
	if wm == 1 {
		hi = verifParam("wskewn", 2)
	}
	verifAssume(lo <= hi)
	n := verifChoose("n", lo, hi)
	x, w := verifC10data("x", n, wm)
	sw := verifC10sumw(w, n)
	if wm == 1 {
		verifAssume(sw > 4)
	}
	mean, v := MeanVariance(x, w)
	verifAssume(v > 0)
	var s3, s4 float64
	for i := 0; i < n; i++ {
		d := x[i] - mean
		s3 += verifC10w(w, i) * d * d * d
		s4 += verifC10w(w, i) * d * d * d * d
	}
	sd := StdDev(x, w) // sd >= 0, sd^2 = Variance (VerifC10_MeanVariance)
	if !kurt {
		sk := Skew(x, w)
		// Skew = (sum w z^3) * n/((n-1)(n-2)), z = (x-mean)/sd
		verifAssertEqF(sk*sd*sd*sd*(sw-1)*(sw-2), sw*s3, "Skew * sd^3 * (n-1)(n-2) = n * sum w (x-mean)^3")
	} else {
		ku := ExKurtosis(x, w)
		// ExKurtosis = s4/sd^4 * (n+1)n/((n-1)(n-2)(n-3)) - 3(n-1)^2/((n-2)(n-3))
		d := (sw - 1) * (sw - 2) * (sw - 3)
		verifAssertEqF(ku*sd*sd*sd*sd*d, s4*(sw+1)*sw-3*(sw-1)*(sw-1)*(sw-1)*sd*sd*sd*sd, "ExKurtosis defining formula")
	}
	verifReach("end")
}

// VerifC10_LinearRegression: the returned (alpha, beta) satisfy the weighted
// normal equations; RSquared, RSquaredFrom, RNoughtSquared equal their
// definitions.
func VerifC10_LinearRegression() {
	wm := verifChoose("weights", 0, 1)
	n := verifC10n(wm, 2, "maxn", 3)
	origin := verifChoose("origin", 0, 1) == 1
	x, w := verifC10data("x", n, wm)
	y := verifFloats("y", n)
	sw := verifC10sumw(w, n)
	verifAssume(sw != 1)
	a, b := LinearRegression(x, y, w, origin)
	var r0, r1 float64
	for i := 0; i < n; i++ {
		res := y[i] - a - b*x[i]
		r0 += verifC10w(w, i) * res
		r1 += verifC10w(w, i) * res * x[i]
	}
	if origin {
		verifAssertEqF(a, 0, "regression through the origin has alpha = 0")
	} else {
		verifAssertEqF(r0, 0, "normal equation: sum w (y - alpha - beta x) = 0")
	}
	verifAssertEqF(r1, 0, "normal equation: sum w x (y - alpha - beta x) = 0")
	// goodness of fit for arbitrary alpha, beta
	al, be := verifFloat("al"), verifFloat("be")
	my := Mean(y, w)
	var res, tot, ssr, syy float64
	est := make([]float64, n)
	for i := 0; i < n; i++ {
		wi := verifC10w(w, i)
		est[i] = al + be*x[i]
		res += wi * (y[i] - est[i]) * (y[i] - est[i])
		tot += wi * (y[i] - my) * (y[i] - my)
		ssr += wi * be * x[i] * be * x[i]
		syy += wi * y[i] * y[i]
	}
	verifAssume(tot > 0)
	r2 := RSquared(x, y, w, al, be)
	verifAssertEqF((1-r2)*tot, res, "(1 - RSquared) * SStot = SSres")
	verifAssertEqF(RSquaredFrom(est, y, w), r2, "RSquaredFrom(estimates) = RSquared")
	verifAssume(syy > 0)
	verifAssertEqF(RNoughtSquared(x, y, w, be)*syy, ssr, "RNoughtSquared * sum w y^2 = sum w (beta x)^2")
	verifReach("end")
}

// VerifC10_Scores: StdScore, StdErr, ChiSquare.
func VerifC10_Scores() {
	x, m, s := verifFloat("x"), verifFloat("m"), verifFloat("s")
	verifAssume(s > 0)
	verifAssertEqF(StdScore(x, m, s)*s, x-m, "StdScore * std = x - mean")
	nn := verifFloat("nn")
	verifAssume(nn > 0)
	e := StdErr(s, nn)
	verifAssert(e > 0, "StdErr positive")
	verifAssertEqF(e*e*nn, s*s, "StdErr^2 * n = std^2")
	n := verifChoose("n", 0, verifParam("maxn", 3))
	obs := verifFloats("obs", n)
	exp := verifFloats("exp", n)
	for i := range exp {
		verifAssume(exp[i] > 0)
	}
	// multiply out the denominators: chi * prod(exp) = sum (o-e)^2 * prod_{j != i} exp_j
	chi := ChiSquare(obs, exp)
	prod := 1.0
	for i := 0; i < n; i++ {
		prod *= exp[i]
	}
	var rhs float64
	for i := 0; i < n; i++ {
		t := (obs[i] - exp[i]) * (obs[i] - exp[i])
		for j := 0; j < n; j++ {
			if j != i {
				t *= exp[j]
			}
		}
		rhs += t
	}
	verifAssertEqF(chi*prod, rhs, "ChiSquare = sum (obs-exp)^2/exp")
	// a bin with obs = exp = 0 contributes nothing
	if n > 0 {
		o2 := append([]float64{0}, obs...)
		e2 := append([]float64{0}, exp...)
		verifAssertEqF(ChiSquare(o2, e2), chi, "empty bin (0,0) contributes nothing")
	}
	verifReach("end")
}
