package stat

import (
	"math"

	"gonum.org/v1/gonum/blas/blas64"
	"gonum.org/v1/gonum/mat"
)

// C10, distribution distances (model R). math.Log is an uninterpreted
// function and math.Sqrt(a) a value r >= 0 with r*r = a, so only identities
// that hold term by term are stated: they fix which terms the code sums, the
// zero-probability conventions and the documented panics, not the
// transcendental values.

// verifC10dist returns n symbolic probabilities (>= 0 or > 0).
func verifC10dist(name string, n int, strict bool) []float64 {
	p := verifFloats(name, n)
	for i := range p {
		if strict {
			verifAssume(p[i] > 0)
		} else {
			verifAssume(p[i] >= 0)
		}
	}
	return p
}

// VerifC10_Divergences: Entropy, CrossEntropy, KullbackLeibler and
// JensenShannon equal their defining sums written with the same log terms;
// zero-probability terms contribute nothing (0*log 0 = 0); KL(p,p) = 0,
// JS(p,p) = 0, JS symmetric, CrossEntropy = Entropy + KL,
// JS = (KL(p,m) + KL(q,m))/2 with m = (p+q)/2.
func VerifC10_Divergences() {
	n := verifChoose("n", 0, verifParam("dn", 3))
	p, q := verifC10dist("p", n, false), verifC10dist("q", n, false)
	p0, q0 := verifC10copy(p), verifC10copy(q)
	var e, ce, kl float64
	for i := 0; i < n; i++ {
		e -= verifIteF(p[i] != 0, p[i]*math.Log(p[i]), 0)
		ce -= verifIteF(p[i] != 0, p[i]*math.Log(q[i]), 0)
		kl += verifIteF(p[i] != 0, p[i]*(math.Log(p[i])-math.Log(q[i])), 0)
	}
	verifAssertEqF(Entropy(p), e, "Entropy = -sum p log p over p != 0")
	verifAssertEqF(CrossEntropy(p, q), ce, "CrossEntropy = -sum p log q over p != 0")
	verifAssertEqF(KullbackLeibler(p, q), kl, "KullbackLeibler = sum p (log p - log q) over p != 0")
	verifAssertEqF(KullbackLeibler(p, p), 0, "KL(p,p) = 0")
	verifAssertEqF(CrossEntropy(p, q), Entropy(p)+KullbackLeibler(p, q), "CrossEntropy = Entropy + KL")
	verifAssertEqF(CrossEntropy(p, p), Entropy(p), "CrossEntropy(p,p) = Entropy(p)")
	js := JensenShannon(p, q)
	verifAssertEqF(JensenShannon(q, p), js, "JensenShannon symmetric")
	verifAssertEqF(JensenShannon(p, p), 0, "JS(p,p) = 0")
	m := make([]float64, n)
	for i := range m {
		m[i] = 0.5 * (p[i] + q[i])
	}
	verifAssertEqF(js, 0.5*(KullbackLeibler(p, m)+KullbackLeibler(q, m)), "JS = (KL(p,m) + KL(q,m)) / 2")
	if n > 0 {
		// a zero-probability cell can be dropped
		verifAssume(p[0] == 0)
		verifAssertEqF(Entropy(p), Entropy(p[1:]), "Entropy ignores zero cells")
		verifAssertEqF(KullbackLeibler(p, q), KullbackLeibler(p[1:], q[1:]), "KL ignores cells with p = 0")
		verifAssertEqF(CrossEntropy(p, q), CrossEntropy(p[1:], q[1:]), "CrossEntropy ignores cells with p = 0")
	}
	verifC10unchanged(p, p0, "p untouched")
	verifC10unchanged(q, q0, "q untouched")
	verifReach("end")
}

// VerifC10_Hellinger: Hellinger^2 = 1 - BC and Bhattacharyya = -log(BC) with
// BC = sum sqrt(p_i q_i); both symmetric; Hellinger(p,p) = 0 when p sums to 1;
// Hellinger >= 0.
func VerifC10_Hellinger() {
	n := verifChoose("n", 1, verifParam("hln", 3))
	p, q := verifC10dist("p", n, false), verifC10dist("q", n, false)
	var bc float64
	for i := 0; i < n; i++ {
		bc += math.Sqrt(p[i] * q[i])
	}
	verifAssume(bc <= 1) // Cauchy-Schwarz for distributions summing to one
	h := Hellinger(p, q)
	verifAssert(h >= 0, "Hellinger >= 0")
	verifAssertEqF(h*h, 1-bc, "Hellinger^2 = 1 - sum sqrt(p q)")
	verifAssertEqF(Hellinger(q, p), h, "Hellinger symmetric")
	verifAssertEqF(Bhattacharyya(p, q), -math.Log(bc), "Bhattacharyya = -log sum sqrt(p q)")
	verifAssertEqF(Bhattacharyya(q, p), Bhattacharyya(p, q), "Bhattacharyya symmetric")
	var sp float64
	for i := 0; i < n; i++ {
		sp += p[i]
	}
	if verifChoose("self", 0, 1) == 1 {
		verifAssume(sp == 1)
		verifAssertEqF(Hellinger(p, p), 0, "Hellinger(p,p) = 0 for a distribution")
	}
	verifReach("end")
}

// VerifC10_DivergencePanics: p and q of different lengths panic in every
// two-argument distance.
func VerifC10_DivergencePanics() {
	fn := verifChoose("fn", 0, 4)
	n := verifChoose("n", 0, 2)
	d := verifChoose("longer", 0, 1)
	p, q := verifC10dist("p", n+d, true), verifC10dist("q", n+1-d, true)
	panicked, fault, _ := verifCatch(func() {
		switch fn {
		case 0:
			Bhattacharyya(p, q)
		case 1:
			Hellinger(p, q)
		case 2:
			KullbackLeibler(p, q)
		case 3:
			JensenShannon(p, q)
		case 4:
			CrossEntropy(p, q)
		}
	})
	verifAssert(!fault, "no runtime fault")
	verifAssert(panicked, "length mismatch panics")
	verifReach("end")
}

// VerifC10_Mahalanobis: with the Cholesky factorization of a symbolic SPD
// matrix S (1x1: s > 0; 2x2: S = U^T U, U upper triangular with positive
// diagonal, all of moderate size) the result D satisfies
// D >= 0 and D^2 * det(S) = (x-y)^T adj(S) (x-y).
func VerifC10_Mahalanobis() {
	n := verifChoose("n", 1, verifParam("mahn", 1))
	if n > 1 {
		// The reciprocal condition estimate (Dpocon/Dlacn2/Dlatrs) of a
		// symbolic matrix is out of reach; S is assumed well-conditioned, so
		// the estimate is replaced by 1 (only consulted for the
		// ill-conditioning warning that makes Mahalanobis return NaN).
		verifStubFunc("gonum.org/v1/gonum/lapack/lapack64.Pocon", func(a blas64.Symmetric, anorm float64, work []float64, iwork []int) float64 {
			return 1
		})
	}
	xs, ys := verifFloats("x", n), verifFloats("y", n)
	xs0, ys0 := verifC10copy(xs), verifC10copy(ys)
	x, y := mat.NewVecDense(n, xs), mat.NewVecDense(n, ys)
	var chol mat.Cholesky
	if n == 1 {
		s := verifFloat("s")
		verifAssume(verifAnd(s >= 1e-3, s <= 1e3)) // well inside the float64 range: no rescaling branch of the condition estimate
		ok := chol.Factorize(mat.NewSymDense(1, []float64{s}))
		verifAssert(ok, "a positive 1x1 matrix is positive definite")
		d := Mahalanobis(x, y, &chol)
		verifAssert(d >= 0, "distance non-negative")
		verifAssertEqF(d*d*s, (xs[0]-ys[0])*(xs[0]-ys[0]), "D^2 * s = (x-y)^2")
	} else {
		// Every SPD matrix is U^T U for exactly one upper triangular U with a
		// positive diagonal: S is parametrised by that factor, which keeps
		// the obligations rational in the unknowns.
		u11, u12, u22 := verifFloat("u11"), verifFloat("u12"), verifFloat("u22")
		verifAssume(verifAnd(u11 >= 1e-2, u11 <= 1e2))
		verifAssume(verifAnd(u22 >= 1e-2, u22 <= 1e2))
		verifAssume(verifAnd(u12 >= -1e2, u12 <= 1e2))
		a, b, dd := u11*u11, u11*u12, u12*u12+u22*u22
		ok := chol.Factorize(mat.NewSymDense(2, []float64{a, b, b, dd}))
		verifAssert(ok, "positive leading minors: positive definite")
		if !ok {
			return
		}
		// lemma steps (proved, then used): the factor is U
		var um mat.TriDense
		chol.UTo(&um)
		for _, e := range []struct {
			i, j int
			want float64
		}{{0, 0, u11}, {0, 1, u12}, {1, 1, u22}} {
			got := um.At(e.i, e.j)
			verifAssertEqF(got, e.want, "Cholesky factor of U^T U is U")
			verifAssume(got == e.want)
		}
		d := Mahalanobis(x, y, &chol)
		u, v := xs[0]-ys[0], xs[1]-ys[1]
		verifAssert(d >= 0, "distance non-negative")
		// NOT DECIDED by z3 (unknown, 10..30 s budgets): mahn=2 is outside the spec.
		verifAssertEqF(d*d*(a*dd-b*b), dd*u*u-2*b*u*v+a*v*v, "D^2 * det(S) = (x-y)^T adj(S) (x-y)")
	}
	verifC10unchanged(xs, xs0, "x untouched")
	verifC10unchanged(ys, ys0, "y untouched")
	verifReach("end")
}
