package stat

// C10, order statistics on SORTED symbolic data (model R): Quantile, CDF,
// Histogram, KolmogorovSmirnov, ROC.

// verifC10sorted returns n symbolic non-decreasing samples and weights
// according to wm: 0 nil, 1 symbolic >= 0 with positive sum, 2 all one (symbolic).
func verifC10sorted(name string, n, wm int) (x, w []float64) {
	x = verifFloats(name, n)
	for i := 1; i < n; i++ {
		verifAssume(x[i-1] <= x[i])
	}
	switch wm {
	case 1:
		w = verifFloats(name+"w", n)
		var s float64
		for i := range w {
			verifAssume(w[i] >= 0)
			s += w[i]
		}
		verifAssume(s > 0)
	case 2:
		w = verifFloats(name+"w", n)
		for i := range w {
			verifAssume(w[i] == 1)
		}
	}
	return x, w
}

// verifC10cdfTimesSum is sum of the weights of the samples <= q.
func verifC10cdfTimesSum(q float64, x, w []float64) float64 {
	var s float64
	for i := range x {
		s += verifIteF(x[i] <= q, verifC10w(w, i), 0)
	}
	return s
}

// VerifC10_Quantile: for sorted x, weights nil or >= 0 with positive sum, and
// p in [0,1]: never panics ("impossible" is unreachable), lies in
// [x[0], x[n-1]], is non-decreasing in p; Empirical: is a sample value, the
// smallest one whose cumulative weight reaches p*sum(w), and
// CDF(Quantile(p)) >= p.
func VerifC10_Quantile() {
	n := verifChoose("n", 1, verifParam("qn", 3))
	wm := verifChoose("weights", 0, 2)
	kind := []CumulantKind{Empirical, LinInterp}[verifChoose("kind", 0, 1)]
	x, w := verifC10sorted("x", n, wm)
	x0, w0 := verifC10copy(x), verifC10copy(w)
	p1, p2 := verifFloat("p1"), verifFloat("p2")
	verifAssume(verifAnd(0 <= p1, p1 <= p2))
	verifAssume(p2 <= 1)
	var q1, q2 float64
	panicked, _, msg := verifCatch(func() {
		q1 = Quantile(p1, kind, x, w)
		q2 = Quantile(p2, kind, x, w)
	})
	verifAssert(!panicked, "Quantile does not panic for p in [0,1] on sorted data: "+msg)
	if panicked {
		return
	}
	verifC10unchanged(x, x0, "x untouched")
	verifC10unchanged(w, w0, "weights untouched")
	verifAssert(verifAnd(x[0] <= q1, q1 <= x[n-1]), "Quantile within the data range")
	verifAssert(q1 <= q2, "Quantile non-decreasing in p")
	if kind == Empirical {
		sw := verifC10sumw(w, n)
		isSample := false
		for i := 0; i < n; i++ {
			isSample = verifOr(isSample, q1 == x[i])
		}
		verifAssert(isSample, "Empirical quantile is a sample value")
		c := verifC10cdfTimesSum(q1, x, w)
		verifAssert(c >= p1*sw, "cumulative weight at Quantile(p) reaches p*sum(w)")
		// minimality: every sample value strictly below q has cumulative weight < p*sum(w)
		for i := 0; i < n; i++ {
			verifAssert(verifImplies(x[i] < q1, verifC10cdfTimesSum(x[i], x, w) < p1*sw), "Empirical quantile is the smallest such sample")
		}
		if wm != 0 {
			// with nil weights CDF divides two concrete counts, which the
			// engine rounds natively (k/n is not the exact rational); the
			// unit-weight configuration (wm=2) states the same fact exactly.
			cdf := CDF(q1, Empirical, x, w)
			verifAssert(cdf >= p1, "CDF(Quantile(p)) >= p")
		}
	}
	verifReach("end")
}

// VerifC10_QuantilePanics: p outside [0,1], empty x, unsorted x and
// mismatched weights panic.
func VerifC10_QuantilePanics() {
	n := verifChoose("n", 0, 2)
	kind := []CumulantKind{Empirical, LinInterp}[verifChoose("kind", 0, 1)]
	x := verifFloats("x", n)
	p := verifFloat("p")
	bad := verifChoose("bad", 0, 2)
	var w []float64
	switch bad {
	case 0: // p out of range
		verifAssume(verifOr(p < 0, p > 1))
	case 1: // unsorted or empty
		verifAssume(verifAnd(0 <= p, p <= 1))
		if n == 2 {
			verifAssume(x[1] < x[0])
		} else if n == 1 {
			return
		}
	case 2:
		verifAssume(verifAnd(0 <= p, p <= 1))
		w = make([]float64, n+1)
	}
	panicked, fault, _ := verifCatch(func() { Quantile(p, kind, x, w) })
	verifAssert(!fault, "no runtime fault")
	verifAssert(panicked, "documented panic")
	verifReach("end")
}

// VerifC10_CDF: CDF(q) * sum(w) = total weight of samples <= q; in [0,1];
// non-decreasing in q; panics on empty / unsorted input.
func VerifC10_CDF() {
	n := verifChoose("n", 0, verifParam("qn", 3))
	wm := verifChoose("weights", 0, 2)
	x, w := verifC10sorted("x", n, wm)
	q1, q2 := verifFloat("q1"), verifFloat("q2")
	verifAssume(q1 <= q2)
	var c1, c2 float64
	panicked, fault, _ := verifCatch(func() {
		c1 = CDF(q1, Empirical, x, w)
		c2 = CDF(q2, Empirical, x, w)
	})
	verifAssert(!fault, "no runtime fault")
	verifAssert(panicked == (n == 0), "panics iff x is empty")
	if panicked {
		return
	}
	sw := verifC10sumw(w, n)
	verifAssertEqF(c1*sw, verifC10cdfTimesSum(q1, x, w), "CDF(q) * sum(w) = weight of the samples <= q")
	verifAssert(verifAnd(0 <= c1, c1 <= 1), "CDF in [0,1]")
	verifAssert(c1 <= c2, "CDF non-decreasing in q")
	verifReach("end")
}

// VerifC10_Histogram: for sorted dividers and sorted x inside
// [dividers[0], dividers[k]) count[j] is the weight of the samples with
// dividers[j] <= x < dividers[j+1]; the total weight is conserved; a supplied
// count slice is overwritten; inputs untouched.
func VerifC10_Histogram() {
	k := verifChoose("bins", 1, verifParam("bins", 3))
	n := verifChoose("n", 0, verifParam("hn", 3))
	wm := verifChoose("weights", 0, 1)
	x, w := verifC10sorted("x", n, wm)
	div := verifFloats("div", k+1)
	for i := 1; i <= k; i++ {
		verifAssume(div[i-1] <= div[i])
	}
	if n > 0 {
		verifAssume(div[0] <= x[0])
		verifAssume(x[n-1] < div[k])
	}
	var count []float64
	if verifChoose("givecount", 0, 1) == 1 {
		count = verifFloats("count", k)
	}
	x0, w0, d0 := verifC10copy(x), verifC10copy(w), verifC10copy(div)
	got := Histogram(count, div, x, w)
	verifAssert(len(got) == k, "one count per bin")
	if count != nil {
		for j := 0; j < k; j++ {
			verifAssert(verifSame(count[j], got[j]), "result stored in the supplied count")
		}
	}
	var total float64
	for j := 0; j < k; j++ {
		var want float64
		for i := 0; i < n; i++ {
			want += verifIteF(verifAnd(div[j] <= x[i], x[i] < div[j+1]), verifC10w(w, i), 0)
		}
		verifAssertEqF(got[j], want, "count[j] = weight of samples in [dividers[j], dividers[j+1])")
		total += got[j]
	}
	verifAssertEqF(total, verifIteF(n > 0, verifC10sumw(w, n), 0), "total weight conserved")
	verifC10unchanged(x, x0, "x untouched")
	verifC10unchanged(w, w0, "weights untouched")
	verifC10unchanged(div, d0, "dividers untouched")
	verifReach("end")
}

// VerifC10_HistogramPanics: the documented input conditions are enforced.
func VerifC10_HistogramPanics() {
	bad := verifChoose("bad", 0, 5)
	x := verifFloats("x", 2)
	div := verifFloats("div", 3)
	verifAssume(x[0] <= x[1])
	verifAssume(verifAnd(div[0] <= div[1], div[1] <= div[2]))
	verifAssume(verifAnd(div[0] <= x[0], x[1] < div[2]))
	var count, w []float64
	switch bad {
	case 0:
		w = make([]float64, 3) // weights length mismatch
	case 1:
		div = div[:1] // fewer than two dividers
		count = make([]float64, 0)
	case 2:
		count = make([]float64, 3) // bin count mismatch
	case 3:
		div = []float64{div[1], div[0], div[2]}
		verifAssume(div[1] < div[0]) // unsorted dividers
	case 4:
		x = []float64{x[1], x[0]}
		verifAssume(x[1] < x[0]) // unsorted x
	case 5:
		x = []float64{x[0], div[2]} // x not below the last divider
	}
	panicked, fault, _ := verifCatch(func() { Histogram(count, div, x, w) })
	verifAssert(!fault, "no runtime fault")
	verifAssert(panicked, "documented panic")
	verifReach("end")
}

// VerifC10_KolmogorovSmirnov: the statistic equals the largest distance
// between the two empirical CDFs over all jump points, is symmetric, is 0 for
// identical samples, and is 1/0 for empty inputs as documented.
func VerifC10_KolmogorovSmirnov() {
	maxn := verifParam("ksn", 2)
	n := verifChoose("n", 0, maxn)
	m := verifChoose("m", 0, maxn)
	wm := verifChoose("weights", 1, 2) // 1: symbolic >0 weights, 2: unit weights kept symbolic (exact 1/n)
	x, xw := verifC10sorted("x", n, wm)
	y, yw := verifC10sorted("y", m, wm)
	for i := range xw {
		verifAssume(xw[i] > 0)
	}
	for i := range yw {
		verifAssume(yw[i] > 0)
	}
	d := KolmogorovSmirnov(x, xw, y, yw)
	if n == 0 || m == 0 {
		if n == 0 && m == 0 {
			verifAssertEqF(d, 0, "both empty: 0")
		} else {
			verifAssertEqF(d, 1, "one empty: 1")
		}
		return
	}
	verifAssertEqF(KolmogorovSmirnov(y, yw, x, xw), d, "symmetric")
	sx, sy := verifC10sumw(xw, n), verifC10sumw(yw, m)
	// distances at every jump point, multiplied by sx*sy to stay polynomial
	attained := false
	pts := append(append([]float64{}, x...), y...)
	for _, t := range pts {
		diff := verifC10cdfTimesSum(t, x, xw)*sy - verifC10cdfTimesSum(t, y, yw)*sx
		a := verifAbsF(diff)
		verifAssert(d*sx*sy >= a, "KS is an upper bound of |Fx(t)-Fy(t)| at every jump point")
		attained = verifOr(attained, d*sx*sy == a)
	}
	verifAssert(attained, "KS is attained at a jump point")
	verifAssert(verifAnd(0 <= d, d <= 1), "KS in [0,1]")
	verifReach("end")
}

// VerifC10_ROC: with all cutoffs computed (cutoffs nil) thresh is strictly
// decreasing from +Inf, tpr and fpr are non-decreasing, start at 0 and end at
// 1, and tpr[i]/fpr[i] are the weighted fractions of positives/negatives with
// y >= thresh[i].
func VerifC10_ROC() {
	n := verifChoose("n", 1, verifParam("rocn", 3))
	wm := verifChoose("weights", 0, 1)
	y, w := verifC10sorted("y", n, wm)
	for i := range w {
		verifAssume(w[i] > 0)
	}
	classes := make([]bool, n)
	npos, nneg := 0, 0
	for i := range classes {
		classes[i] = verifChoose("class", 0, 1) == 1
		if classes[i] {
			npos++
		} else {
			nneg++
		}
	}
	if npos == 0 || nneg == 0 {
		return // rates are 0/0
	}
	tpr, fpr, thresh := ROC(nil, y, classes, w)
	k := len(thresh)
	verifAssert(len(tpr) == k && len(fpr) == k, "equal lengths")
	verifAssert(k >= 2 && k <= n+1, "one threshold per distinct y plus +Inf")
	var pos, neg float64
	for i := 0; i < n; i++ {
		if classes[i] {
			pos += verifC10w(w, i)
		} else {
			neg += verifC10w(w, i)
		}
	}
	for j := 0; j < k; j++ {
		if j > 0 {
			verifAssert(thresh[j] < thresh[j-1], "thresholds strictly decreasing")
			verifAssert(tpr[j] >= tpr[j-1], "tpr non-decreasing")
			verifAssert(fpr[j] >= fpr[j-1], "fpr non-decreasing")
		}
		var tp, fp float64
		for i := 0; i < n; i++ {
			wi := verifIteF(y[i] >= thresh[j], verifC10w(w, i), 0)
			if classes[i] {
				tp += wi
			} else {
				fp += wi
			}
		}
		if j == 0 {
			verifAssertEqF(tpr[0], 0, "tpr starts at 0 (threshold +Inf)")
			verifAssertEqF(fpr[0], 0, "fpr starts at 0 (threshold +Inf)")
			continue
		}
		verifAssertEqF(tpr[j]*pos, tp, "tpr[j] = weight of positives with y >= thresh[j] / weight of positives")
		verifAssertEqF(fpr[j]*neg, fp, "fpr[j] = weight of negatives with y >= thresh[j] / weight of negatives")
	}
	verifAssertEqF(tpr[k-1], 1, "tpr ends at 1")
	verifAssertEqF(fpr[k-1], 1, "fpr ends at 1")
	verifReach("end")
}
