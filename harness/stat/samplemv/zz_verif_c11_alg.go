package samplemv

// C11, algebraic sub-claims: Latin hypercube and Halton sampling of a box.
// The generators use the global source (Src == nil): in the engine rand.Perm
// is an ARBITRARY permutation and every rand.Float64 an arbitrary value of
// [0,1) (natively: real draws). Model R.

import (
	"gonum.org/v1/gonum/mat"
	"gonum.org/v1/gonum/spatial/r1"
	"gonum.org/v1/gonum/stat/distmv"
)

func verifC11aName(p string, i int) string { return p + string(rune('0'+i)) }

func verifC11aBox(d int) []r1.Interval {
	b := make([]r1.Interval, d)
	for i := range b {
		b[i].Min, b[i].Max = verifFloat(verifC11aName("min", i)), verifFloat(verifC11aName("max", i))
		verifAssume(b[i].Min < b[i].Max)
	}
	return b
}

// verifC11aStrata asserts that column j of batch has exactly one entry in each
// of the n equal-probability strata [Min + k w/n, Min + (k+1) w/n) of the
// interval bnd (w = Max - Min).
func verifC11aStrata(batch *mat.Dense, j int, bnd r1.Interval, msg string) {
	n, _ := batch.Dims()
	w := bnd.Max - bnd.Min
	for k := 0; k < n; k++ {
		lo := bnd.Min + float64(k)*w/float64(n)
		hi := bnd.Min + float64(k+1)*w/float64(n)
		cnt := 0
		for i := 0; i < n; i++ {
			v := batch.At(i, j)
			cnt += verifIteInt(verifAnd(lo <= v, v < hi), 1, 0)
		}
		verifAssert(cnt == 1, msg)
	}
}

// VerifC11_MvLatinHypercube: for every dimension, every one of the n strata of
// the marginal CDF contains exactly one of the n samples; whatever the
// permutations and the in-stratum positions are. n = 1, 2, 4 (.. 2^lhe: powers
// of two, so that the concrete j/n of the code is exact; for n = 3 the rounded
// double 1/3 moves a sample drawn exactly at a stratum edge across it by 1e-17
// in the exact-real model), d = 1, 2, with n*d <= lhcells.
func VerifC11_MvLatinHypercube() {
	n := 1 << verifChoose("nexp", 0, 2)
	d := verifChoose("d", 1, 2)
	if n*d > verifParam("lhcells", 4) {
		return // (n, d) outside the bound of this tier: not a case
	}
	bnd := verifC11aBox(d)
	batch := mat.NewDense(n, d, nil)
	LatinHypercube{Q: distmv.NewUniform(bnd, nil)}.Sample(batch)
	for j := 0; j < d; j++ {
		verifC11aStrata(batch, j, bnd[j], "exactly one sample per stratum and dimension")
	}
	verifReach("end")
}

// VerifC11_MvHalton: the Owen-scrambled Halton points of the unit box:
// dimension 0 (base 2, 53 binary digits each scrambled by its own arbitrary
// permutation of {0,1}): every coordinate lies in [0,1) and the first 2^m
// points (m = 1..halm) fall into 2^m different strata [k/2^m, (k+1)/2^m):
// their m leading digits are distinct and the lower digits add less than
// 2^-m. (Base 3 is outside: 1/3 is a rounded double and z3 does not finish.)
func VerifC11_MvHalton() {
	d := 1
	n := 1 << verifChoose("m", 1, verifParam("halm", 2))
	batch := mat.NewDense(n, d, nil)
	Halton{Kind: Owen, Q: distmv.NewUnitUniform(d, nil)}.Sample(batch)
	for i := 0; i < n; i++ {
		for j := 0; j < d; j++ {
			v := batch.At(i, j)
			verifAssert(verifAnd(0 <= v, v < 1), "Halton point inside the unit box")
		}
	}
	verifC11aStrata(batch, 0, r1.Interval{Min: 0, Max: 1}, "the first 2^m points occupy the 2^m strata")
	verifReach("end")
}

// VerifC11_MvHaltonPanics: an unknown kind panics.
func VerifC11_MvHaltonPanics() {
	batch := mat.NewDense(2, 1, nil)
	panicked, fault, _ := verifCatch(func() { Halton{Kind: 0, Q: distmv.NewUnitUniform(1, nil)}.Sample(batch) })
	verifAssert(verifAnd(panicked, !fault), "unknown HaltonKind panics")
	verifReach("end")
}
