package samplemv

import (
	"math"
	"math/rand/v2"

	"gonum.org/v1/gonum/mat"
)

// C11 (samplers): one Metropolis-Hastings step applies the Hastings ratio
//   accept  iff  exp( pi(y) + q(x|y) - q(y|x) - pi(x) ) > u
// with q(a|b) = proposal.ConditionalLogProb(a, b), x the current and y the
// proposed location. The log-probabilities are case-split small integers (so
// that exp is evaluated natively and counterexamples replay exactly), the
// random word behind u is symbolic; a harness target/proposal records the
// argument order of every ConditionalLogProb call.

type verifC11mhSrc struct{ v uint64 }

func (s *verifC11mhSrc) Uint64() uint64 { return s.v }

type verifC11mhTarget struct{ at0, at1 float64 }

func (t verifC11mhTarget) LogProb(x []float64) float64 {
	if x[0] == 0 {
		return t.at0
	}
	return t.at1
}

type verifC11mhProposal struct{ q10, q01 float64 } // q10 = log q(1|0), q01 = log q(0|1)

func (p verifC11mhProposal) ConditionalLogProb(x, y []float64) float64 {
	if x[0] == 1 && y[0] == 0 {
		return p.q10
	}
	if x[0] == 0 && y[0] == 1 {
		return p.q01
	}
	return 0
}

func (p verifC11mhProposal) ConditionalRand(x, y []float64) []float64 {
	if x == nil {
		x = make([]float64, len(y))
	}
	x[0] = 1 - y[0] // flip between the two locations 0 and 1
	return x
}

func VerifC11_MetropolisHastingsStep() {
	val := func(name string) float64 { return float64(verifChoose(name, -1, 1)) }
	tg := verifC11mhTarget{at0: val("pi0"), at1: val("pi1")}
	pr := verifC11mhProposal{q10: val("q10"), q01: val("q01")}
	word := verifUint64("word")
	u := rand.New(&verifC11mhSrc{word}).Float64()
	batch := mat.NewDense(1, 1, nil)
	mh := MetropolisHastingser{Initial: []float64{0}, Target: tg, Proposal: pr, Src: &verifC11mhSrc{word}}
	mh.Sample(batch)
	// current x = 0, proposed y = 1
	ratio := math.Exp(tg.at1 + pr.q01 - pr.q10 - tg.at0)
	accepted := batch.At(0, 0) == 1
	verifAssert(verifIff(accepted, ratio > u), "Metropolis-Hastings accepts iff exp(pi(y) + q(x|y) - q(y|x) - pi(x)) > u")
	verifAssert(verifOr(batch.At(0, 0) == 0, batch.At(0, 0) == 1), "the sample is the current or the proposed location")
	verifReach("end")
}
