package distmv

// C11, algebraic sub-claims: distmv.Uniform (a box with symbolic bounds).
// Model R; log is uninterpreted.

import (
	"math"

	"gonum.org/v1/gonum/spatial/r1"
)

type verifC11aSrc struct{ v uint64 }

func (s *verifC11aSrc) Uint64() uint64 { return s.v }

func verifC11aUnit(v uint64) float64 { return float64(v<<11>>11) / (1 << 53) }

func verifC11aName(p string, i int) string { return p + string(rune('0'+i)) }

func verifC11aBox(d int) []r1.Interval {
	b := make([]r1.Interval, d)
	for i := range b {
		b[i].Min, b[i].Max = verifFloat(verifC11aName("min", i)), verifFloat(verifC11aName("max", i))
		verifAssume(b[i].Min < b[i].Max)
	}
	return b
}

// VerifC11_MvUniformLaw: CDF, LogProb, Prob, Entropy, Mean and Quantile of
// the box describe one law, coordinate by coordinate.
func VerifC11_MvUniformLaw() {
	d := verifChoose("dim", 1, verifParam("mvdim", 3))
	bnd := verifC11aBox(d)
	u := NewUniform(bnd, nil)
	verifAssert(u.Dim() == d, "Dim")
	got := u.Bounds(nil)
	for i := range bnd {
		verifAssert(verifAnd(got[i].Min == bnd[i].Min, got[i].Max == bnd[i].Max), "Bounds returns the bounds")
	}
	bnd0 := append([]r1.Interval(nil), bnd...)
	bnd[0].Min = bnd[0].Min - 1 // the constructor copied its argument
	x := verifFloats("x", d)
	x2 := verifFloats("y", d)
	c := u.CDF(nil, x)
	c2 := u.CDF(nil, x2)
	m := u.Mean(nil)
	inside := true
	var logVol float64
	for i := range x {
		lo, hi := bnd0[i].Min, bnd0[i].Max
		verifAssert(verifAnd(0 <= c[i], c[i] <= 1), "marginal CDF within [0,1]")
		verifAssert(verifImplies(x[i] <= x2[i], c[i] <= c2[i]), "marginal CDF non-decreasing")
		verifAssert(verifImplies(x[i] <= lo, c[i] == 0), "marginal CDF = 0 up to Min")
		verifAssert(verifImplies(x[i] >= hi, c[i] == 1), "marginal CDF = 1 from Max on")
		verifAssert(verifImplies(verifAnd(lo <= x[i], x[i] <= hi), c[i]*(hi-lo) == x[i]-lo), "marginal CDF linear inside")
		verifAssertEqF(m[i]*2, lo+hi, "Mean = midpoint")
		inside = verifAnd(inside, verifAnd(lo <= x[i], x[i] <= hi))
		logVol += math.Log(hi - lo)
	}
	lp := u.LogProb(x)
	pr := u.Prob(x)
	verifAssertEqF(u.Entropy(), logVol, "Entropy = log volume")
	if math.IsInf(lp, -1) {
		verifAssert(!inside, "LogProb = -Inf only outside the box")
		verifAssertEqF(pr, 0, "Prob = 0 outside the box")
	} else {
		verifAssert(inside, "finite LogProb only inside the box")
		verifAssertEqF(lp, -logVol, "LogProb = -log volume inside the box")
		verifAssertEqF(lp, -u.Entropy(), "constant density: LogProb = -Entropy")
		verifAssertEqF(pr, math.Exp(lp), "Prob = exp(LogProb)")
	}
	verifReach("end")
}

// VerifC11_MvUniformQuantile: Quantile is the coordinate-wise inverse of the
// CDF, panics as documented, writes into dst.
func VerifC11_MvUniformQuantile() {
	d := verifChoose("dim", 1, verifParam("mvdim", 3))
	bnd := verifC11aBox(d)
	u := NewUniform(bnd, nil)
	p := verifFloats("p", d)
	x := verifFloats("x", d)
	bad := false
	for i := range p {
		bad = verifOr(bad, verifOr(p[i] < 0, p[i] > 1))
		verifAssume(verifAnd(bnd[i].Min <= x[i], x[i] <= bnd[i].Max))
	}
	dst := make([]float64, d)
	var q []float64
	panicked, fault, _ := verifCatch(func() { q = u.Quantile(dst, p) })
	verifAssert(!fault, "no runtime fault")
	verifAssert(panicked == bad, "Quantile panics iff some p outside [0,1]")
	if panicked {
		verifReach("panic")
		return
	}
	verifAssert(&q[0] == &dst[0], "Quantile stores into dst")
	c := u.CDF(nil, q)
	for i := range p {
		verifAssert(verifAnd(bnd[i].Min <= q[i], q[i] <= bnd[i].Max), "Quantile inside the box")
		verifAssertEqF(c[i], p[i], "CDF(Quantile(p)) = p")
	}
	back := u.Quantile(nil, u.CDF(nil, x))
	for i := range x {
		verifAssertEqF(back[i], x[i], "Quantile(CDF(x)) = x inside the box")
	}
	verifReach("end")
}

// VerifC11_MvUniformRand: draws lie in the box: with the source stubbed to an
// arbitrary word every coordinate is Min + r (Max-Min) in [Min, Max); with the
// global source (rand.Float64: any value in [0,1)) likewise.
func VerifC11_MvUniformRand() {
	d := verifChoose("dim", 1, verifParam("mvdim", 3))
	bnd := verifC11aBox(d)
	if verifChoose("source", 0, 1) == 0 {
		v := verifUint64("word")
		u := NewUniform(bnd, &verifC11aSrc{v})
		r := verifC11aUnit(v)
		x := u.Rand(nil)
		q := u.Quantile(nil, func() []float64 {
			p := make([]float64, d)
			for i := range p {
				p[i] = r
			}
			return p
		}())
		for i := range x {
			verifAssert(verifAnd(bnd[i].Min <= x[i], x[i] < bnd[i].Max), "Rand within [Min, Max)")
			verifAssertEqF(x[i], q[i], "Rand = Quantile(r) (inversion)")
		}
	} else {
		u := NewUniform(bnd, nil)
		dst := make([]float64, d)
		x := u.Rand(dst)
		verifAssert(&x[0] == &dst[0], "Rand stores into dst")
		for i := range x {
			verifAssert(verifAnd(bnd[i].Min <= x[i], x[i] < bnd[i].Max), "Rand within [Min, Max)")
		}
		verifAssert(!math.IsInf(u.LogProb(x), -1), "a draw has positive density")
	}
	verifReach("end")
}

// VerifC11_MvUniformPanics: constructor and length panics.
func VerifC11_MvUniformPanics() {
	d := verifChoose("dim", 0, 2)
	bnd := make([]r1.Interval, d)
	bad := d == 0
	for i := range bnd {
		bnd[i].Min, bnd[i].Max = verifFloat(verifC11aName("min", i)), verifFloat(verifC11aName("max", i))
		bad = verifOr(bad, bnd[i].Max < bnd[i].Min)
	}
	var u *Uniform
	panicked, fault, _ := verifCatch(func() { u = NewUniform(bnd, nil) })
	verifAssert(!fault, "no runtime fault")
	verifAssert(panicked == bad, "NewUniform panics iff dim = 0 or some Max < Min")
	if panicked {
		pu, _, _ := verifCatch(func() { NewUnitUniform(-d, nil) })
		verifAssert(pu, "NewUnitUniform panics for dim <= 0")
		verifReach("panic")
		return
	}
	l := verifChoose("len", 0, 3)
	if l != d {
		v := make([]float64, l)
		p1, f1, _ := verifCatch(func() { u.CDF(nil, v) })
		p2, f2, _ := verifCatch(func() { u.LogProb(v) })
		p3, f3, _ := verifCatch(func() { u.Quantile(nil, v) })
		p4, f4, _ := verifCatch(func() { u.Bounds(make([]r1.Interval, l+3)) })
		verifAssert(verifAnd(verifAnd(p1, p2), verifAnd(p3, p4)), "length mismatch panics")
		verifAssert(!verifOr(verifOr(f1, f2), verifOr(f3, f4)), "not by a runtime fault")
		if l > 0 {
			p5, f5, _ := verifCatch(func() { u.Mean(v) })
			p6, f6, _ := verifCatch(func() { u.Rand(v) })
			verifAssert(verifAnd(verifAnd(p5, p6), !verifOr(f5, f6)), "dst of the wrong length panics")
		}
	}
	un := NewUnitUniform(d, nil)
	ub := un.Bounds(nil)
	for i := range ub {
		verifAssert(verifAnd(ub[i].Min == 0, ub[i].Max == 1), "NewUnitUniform is the unit box")
	}
	verifReach("end")
}
