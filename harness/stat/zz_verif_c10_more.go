package stat

import "math"

// C10, second wave (model R): Mode, Kendall, SortWeighted/SortWeightedLabeled,
// ROC with explicit cutoffs, TOC, remaining documented panics, the
// sample/population consistency of the variance estimators.

// verifC10weights returns weights according to wm: 0 nil, 1 symbolic > 0,
// 2 all one (symbolic, exact).
func verifC10weights(name string, n, wm int) []float64 {
	if wm == 0 {
		return nil
	}
	w := verifFloats(name, n)
	for i := range w {
		if wm == 1 {
			verifAssume(w[i] > 0)
		} else {
			verifAssume(w[i] == 1)
		}
	}
	return w
}

// VerifC10_Mode: val is one of the samples, count is the total weight of the
// samples equal to val (strict float64 equality), and no value has a larger
// total weight ("if several values are the mode, any of them may be
// returned"). Empty input gives (0, 0).
func VerifC10_Mode() {
	n := verifChoose("n", 0, verifParam("moden", 3))
	wm := verifChoose("weights", 0, 1)
	// Mode keys a map by the sample values and the engine needs concrete map
	// keys: the samples are case-split over {0..n-1}, which realises every
	// equality pattern among n samples; the weights stay symbolic.
	x := make([]float64, n)
	for i := range x {
		x[i] = float64(verifChoose("x"+string(rune('0'+i)), 0, n-1))
	}
	w := verifC10weights("w", n, wm)
	x0, w0 := verifC10copy(x), verifC10copy(w)
	val, count := Mode(x, w)
	if n == 0 {
		verifAssertEqF(val, 0, "empty: val 0")
		verifAssertEqF(count, 0, "empty: count 0")
		verifReach("empty")
		return
	}
	isSample := false
	var tot float64
	for i := 0; i < n; i++ {
		isSample = verifOr(isSample, x[i] == val)
		tot += verifIteF(x[i] == val, verifC10w(w, i), 0)
	}
	verifAssert(isSample, "the mode is a sample value")
	verifAssertEqF(count, tot, "count = total weight of the samples equal to the mode")
	for j := 0; j < n; j++ {
		var tj float64
		for i := 0; i < n; i++ {
			tj += verifIteF(x[i] == x[j], verifC10w(w, i), 0)
		}
		verifAssert(tj <= count, "no value has a larger total weight")
	}
	verifC10unchanged(x, x0, "x untouched")
	verifC10unchanged(w, w0, "weights untouched")
	verifReach("end")
}

// VerifC10_ModePanics: len(x) != len(weights) panics.
func VerifC10_ModePanics() {
	n := verifChoose("n", 0, 2)
	x := verifFloats("x", n)
	w := verifFloats("w", n+1)
	panicked, fault, _ := verifCatch(func() { Mode(x, w) })
	verifAssert(!fault, "no runtime fault")
	verifAssert(panicked, "length mismatch panics")
	verifReach("end")
}

// verifC10sign is the sign of a as -1, 0, 1 without control flow.
func verifC10sign(a float64) float64 {
	return verifIteF(a > 0, 1, verifIteF(a < 0, -1, 0))
}

// verifC10kendall runs Kendall on n samples and compares with the tau-a
// definition: sum over pairs i<j of w_i w_j sgn(x_j-x_i) sgn(y_j-y_i) divided
// by the sum of w_i w_j over all pairs. ties says whether tied pairs are
// allowed (they contribute 0 to the numerator of tau-a).
func verifC10kendall(ties bool) {
	n := verifChoose("n", 2, verifParam("kn", 3))
	wm := verifChoose("weights", 0, 2)
	x, y := verifFloats("x", n), verifFloats("y", n)
	w := verifC10weights("w", n, wm)
	if !ties {
		for i := 0; i < n; i++ {
			for j := i + 1; j < n; j++ {
				verifAssume(x[i] != x[j])
				verifAssume(y[i] != y[j])
			}
		}
	}
	x0, y0, w0 := verifC10copy(x), verifC10copy(y), verifC10copy(w)
	tau := Kendall(x, y, w)
	var num, den float64
	for i := 0; i < n; i++ {
		for j := i + 1; j < n; j++ {
			ww := verifC10w(w, i) * verifC10w(w, j)
			num += ww * verifC10sign(x[j]-x[i]) * verifC10sign(y[j]-y[i])
			den += ww
		}
	}
	verifAssertEqF(tau*den, num, "Kendall * sum of pair weights = concordant - discordant pair weight")
	verifAssert(verifAnd(-1 <= tau, tau <= 1), "Kendall in [-1,1]")
	verifAssertEqF(Kendall(y, x, w), tau, "Kendall symmetric in x and y")
	// invariance under the reversal of the sample order (a joint permutation)
	rx, ry := make([]float64, n), make([]float64, n)
	var rw []float64
	if w != nil {
		rw = make([]float64, n)
	}
	for i := 0; i < n; i++ {
		rx[i], ry[i] = x[n-1-i], y[n-1-i]
		if w != nil {
			rw[i] = w[n-1-i]
		}
	}
	verifAssertEqF(Kendall(rx, ry, rw), tau, "Kendall invariant under a joint permutation of the samples")
	verifC10unchanged(x, x0, "x untouched")
	verifC10unchanged(y, y0, "y untouched")
	verifC10unchanged(w, w0, "weights untouched")
	verifReach("end")
}

// VerifC10_Kendall: tau-a on samples without ties, nil / symbolic positive /
// unit weights.
func VerifC10_Kendall() { verifC10kendall(false) }

// VerifC10_KendallTies: the same with ties allowed (a tied pair is neither
// concordant nor discordant in tau-a).
func VerifC10_KendallTies() { verifC10kendall(true) }

// VerifC10_KendallPanics: len(x) != len(y) panics.
func VerifC10_KendallPanics() {
	n := verifChoose("n", 0, 2)
	x, y := verifFloats("x", n), verifFloats("y", n+1)
	panicked, fault, _ := verifCatch(func() { Kendall(x, y, nil) })
	verifAssert(!fault, "no runtime fault")
	verifAssert(panicked, "length mismatch panics")
	verifReach("end")
}

// VerifC10_SortWeighted: SortWeighted and SortWeightedLabeled sort x
// non-decreasingly and move (x, label, weight) together: the multiset of
// triples is preserved. labels/weights nil or present in every combination.
func VerifC10_SortWeighted() {
	n := verifChoose("n", 0, verifParam("sortn", 3))
	wm := verifChoose("weights", 0, 1)
	lm := verifChoose("labels", 0, 2) // 0: SortWeighted, 1: Labeled with nil labels, 2: Labeled with labels
	x := verifFloats("x", n)
	var w []float64
	if wm == 1 {
		w = verifFloats("w", n) // any weights
	}
	var l []bool
	if lm == 2 {
		l = make([]bool, n)
		for i := range l {
			l[i] = verifBool("l" + string(rune('0'+i)))
		}
	}
	x0, w0 := verifC10copy(x), verifC10copy(w)
	var l0 []bool
	if l != nil {
		l0 = append([]bool{}, l...)
	}
	if lm == 0 {
		SortWeighted(x, w)
	} else {
		SortWeightedLabeled(x, l, w)
	}
	verifAssert(len(x) == n, "length kept")
	for i := 1; i < n; i++ {
		verifAssert(x[i-1] <= x[i], "x sorted")
	}
	// multiset of triples preserved: each input triple occurs equally often
	// before and after.
	same := func(xa, wa []float64, la []bool, i int, xb, wb []float64, lb []bool, j int) bool {
		e := xa[i] == xb[j]
		if wa != nil {
			e = verifAnd(e, wa[i] == wb[j])
		}
		if la != nil {
			e = verifAnd(e, la[i] == lb[j])
		}
		return e
	}
	for i := 0; i < n; i++ {
		before, after := 0, 0
		for j := 0; j < n; j++ {
			before += verifIteInt(same(x0, w0, l0, i, x0, w0, l0, j), 1, 0)
			after += verifIteInt(same(x0, w0, l0, i, x, w, l, j), 1, 0)
		}
		verifAssert(before == after, "(x, label, weight) triples are permuted together")
	}
	verifReach("end")
}

// VerifC10_SortWeightedPanics: non-nil weights / labels of another length panic.
func VerifC10_SortWeightedPanics() {
	n := verifChoose("n", 0, 2)
	bad := verifChoose("bad", 0, 3)
	x := verifFloats("x", n)
	var panicked, fault bool
	switch bad {
	case 0:
		panicked, fault, _ = verifCatch(func() { SortWeighted(x, make([]float64, n+1)) })
	case 1:
		panicked, fault, _ = verifCatch(func() { SortWeightedLabeled(x, make([]bool, n+1), nil) })
	case 2:
		panicked, fault, _ = verifCatch(func() { SortWeightedLabeled(x, make([]bool, n), make([]float64, n+1)) })
	case 3:
		panicked, fault, _ = verifCatch(func() { SortWeightedLabeled(x, make([]bool, n+1), make([]float64, n)) })
	}
	verifAssert(!fault, "no runtime fault")
	verifAssert(panicked, "length mismatch panics")
	verifReach("end")
}

// VerifC10_ROCCutoffs: with explicit sorted cutoffs thresh is the reversed
// cutoffs, tpr/fpr have the same length, the supplied cutoffs are not
// modified, and tpr[j] / fpr[j] are the weighted fractions of positives /
// negatives with y >= thresh[j] ("tpr[i] and fpr[i] are the true and false
// positive rates for y >= thresh[i]"). An empty non-nil cutoffs slice with
// spare capacity behaves like nil.
func VerifC10_ROCCutoffs() {
	n := verifChoose("n", 1, verifParam("rocn", 3))
	m := verifChoose("m", 0, verifParam("rocm", 3))
	wm := verifChoose("weights", 0, 1)
	y, _ := verifC10sorted("y", n, 0)
	w := verifC10weights("w", n, wm)
	classes := make([]bool, n)
	npos, nneg := 0, 0
	for i := range classes {
		classes[i] = verifChoose("class", 0, 1) == 1
		if classes[i] {
			npos++
		} else {
			nneg++
		}
	}
	if npos == 0 || nneg == 0 {
		return // rates are 0/0
	}
	var cut []float64
	if m == 0 {
		// empty, non-nil, arbitrary capacity contents
		cut = verifFloats("cut", n+1)[:0]
	} else {
		cut = verifFloats("cut", m)
		for i := 1; i < m; i++ {
			verifAssume(cut[i-1] <= cut[i])
		}
	}
	cut0 := verifC10copy(cut)
	y0, w0 := verifC10copy(y), verifC10copy(w)
	tpr, fpr, thresh := ROC(cut, y, classes, w)
	k := len(thresh)
	verifAssert(len(tpr) == k && len(fpr) == k, "equal lengths")
	if m > 0 {
		verifAssert(k == m, "one rate per cutoff")
		verifC10unchanged(cut, cut0, "supplied cutoffs not modified")
		for j := 0; j < k && j < m; j++ {
			verifAssert(verifSame(thresh[j], cut0[m-1-j]), "thresh is the reversed cutoffs")
		}
	} else {
		verifAssert(k >= 2 && k <= n+1, "one threshold per distinct y plus +Inf")
	}
	var pos, neg float64
	for i := 0; i < n; i++ {
		if classes[i] {
			pos += verifC10w(w, i)
		} else {
			neg += verifC10w(w, i)
		}
	}
	for j := 0; j < k; j++ {
		var tp, fp float64
		for i := 0; i < n; i++ {
			wi := verifIteF(y[i] >= thresh[j], verifC10w(w, i), 0)
			if classes[i] {
				tp += wi
			} else {
				fp += wi
			}
		}
		verifAssertEqF(tpr[j]*pos, tp, "tpr[j] = weight of positives with y >= thresh[j] / weight of positives")
		verifAssertEqF(fpr[j]*neg, fp, "fpr[j] = weight of negatives with y >= thresh[j] / weight of negatives")
		if j > 0 {
			verifAssert(tpr[j] >= tpr[j-1], "tpr non-decreasing")
			verifAssert(fpr[j] >= fpr[j-1], "fpr non-decreasing")
		}
	}
	verifC10unchanged(y, y0, "y untouched")
	verifC10unchanged(w, w0, "weights untouched")
	verifReach("end")
}

// VerifC10_ROCPanics: length mismatches and unsorted y / cutoffs panic; empty
// y returns nil slices.
func VerifC10_ROCPanics() {
	bad := verifChoose("bad", 0, 4)
	y := verifFloats("y", 2)
	cut := verifFloats("cut", 2)
	classes := []bool{true, false}
	var w []float64
	switch bad {
	case 0:
		verifAssume(y[0] <= y[1])
		verifAssume(cut[0] <= cut[1])
		classes = []bool{true, false, true}
	case 1:
		verifAssume(y[0] <= y[1])
		verifAssume(cut[0] <= cut[1])
		w = make([]float64, 3)
	case 2:
		verifAssume(y[0] > y[1])
		verifAssume(cut[0] <= cut[1])
	case 3:
		verifAssume(y[0] <= y[1])
		verifAssume(cut[0] > cut[1])
	case 4:
		tpr, fpr, thresh := ROC(nil, nil, nil, nil)
		verifAssert(tpr == nil && fpr == nil && thresh == nil, "empty y: nil results")
		verifReach("empty")
		return
	}
	panicked, fault, _ := verifCatch(func() { ROC(cut, y, classes, w) })
	verifAssert(!fault, "no runtime fault")
	verifAssert(panicked, "documented panic")
	verifReach("end")
}

// VerifC10_TOC: lengths n+1; ntp_i = sum_{j >= n-i} [classes_j] w_j; first
// elements zero, last elements the weighted number of positives; min <= ntp
// <= max; min_i = max(0, P - weight of the n-i lowest ranks) and max_i =
// min(P, weight of the i highest ranks) (the TOC parallelogram). Every
// labelling, weights nil / symbolic >= 0.
func VerifC10_TOC() {
	n := verifChoose("n", 0, verifParam("tocn", 3))
	wm := verifChoose("weights", 0, 1)
	var w []float64
	if wm == 1 {
		w = verifFloats("w", n)
		for i := range w {
			verifAssume(w[i] >= 0)
		}
	}
	classes := make([]bool, n)
	for i := range classes {
		classes[i] = verifChoose("class", 0, 1) == 1
	}
	w0 := verifC10copy(w)
	min, ntp, max := TOC(classes, w)
	if n == 0 {
		verifAssert(min == nil && ntp == nil && max == nil, "empty: nil results")
		verifReach("empty")
		return
	}
	verifAssert(len(min) == n+1 && len(ntp) == n+1 && len(max) == n+1, "lengths are len(classes)+1")
	var P, W float64
	for j := 0; j < n; j++ {
		W += verifC10w(w, j)
		if classes[j] {
			P += verifC10w(w, j)
		}
	}
	for i := 0; i <= n; i++ {
		var want, cum float64
		for j := n - i; j < n; j++ {
			cum += verifC10w(w, j)
			if classes[j] {
				want += verifC10w(w, j)
			}
		}
		verifAssertEqF(ntp[i], want, "ntp_i = sum_{j >= n-i} [classes_j] weights_j")
		verifAssert(verifAnd(min[i] <= ntp[i], ntp[i] <= max[i]), "min <= ntp <= max")
		verifAssertEqF(min[i], verifIteF(P-(W-cum) > 0, P-(W-cum), 0), "min_i = max(0, P - weight below rank i)")
		verifAssertEqF(max[i], verifIteF(P < cum, P, cum), "max_i = min(P, weight of the i highest ranks)")
	}
	verifAssertEqF(min[0], 0, "min starts at zero")
	verifAssertEqF(ntp[0], 0, "ntp starts at zero")
	verifAssertEqF(max[0], 0, "max starts at zero")
	verifAssertEqF(min[n], P, "min ends at the weighted number of positives")
	verifAssertEqF(ntp[n], P, "ntp ends at the weighted number of positives")
	verifAssertEqF(max[n], P, "max ends at the weighted number of positives")
	verifC10unchanged(w, w0, "weights untouched")
	verifReach("end")
}

// VerifC10_TOCPanics: weights of another length panic.
func VerifC10_TOCPanics() {
	n := verifChoose("n", 0, 2)
	panicked, fault, _ := verifCatch(func() { TOC(make([]bool, n), make([]float64, n+1)) })
	verifAssert(!fault, "no runtime fault")
	verifAssert(panicked, "length mismatch panics")
	verifReach("end")
}

// VerifC10_HistogramEdges: nil count allocates len(dividers)-1 zeroed bins
// then counts; a supplied count with arbitrary contents is overwritten even
// when x is empty; x below the lowest divider, x at or above the highest
// divider, fewer than two dividers (count nil or not) panic with the
// package's message, not with a runtime fault.
func VerifC10_HistogramEdges() { verifC10histEdges(false) }

// VerifC10_HistogramNoDividers: the remaining configuration, count nil and an
// empty dividers slice (OPEN VIOLATION: runtime "makeslice: len out of range"
// instead of the package's "fewer than two dividers").
func VerifC10_HistogramNoDividers() { verifC10histEdges(true) }

func verifC10histEdges(nodiv bool) {
	c := 6
	if !nodiv {
		c = verifChoose("case", 0, 6)
	}
	x := verifFloats("x", 2)
	div := verifFloats("div", 3)
	verifAssume(x[0] <= x[1])
	verifAssume(verifAnd(div[0] <= div[1], div[1] <= div[2]))
	wm := verifChoose("weights", 0, 1)
	w := verifC10weights("w", 2, wm)
	var count []float64
	if verifChoose("givecount", 0, 1) == 1 {
		count = verifFloats("count", 2)
	}
	if (c == 6 && count == nil) != nodiv {
		return
	}
	wantPanic := true
	switch c {
	case 0: // in range: result fresh / overwritten
		verifAssume(verifAnd(div[0] <= x[0], x[1] < div[2]))
		wantPanic = false
	case 1: // empty x: all bins zero, no range conditions
		x = x[:0]
		if w != nil {
			w = w[:0]
		}
		wantPanic = false
	case 2: // x below the lowest divider
		verifAssume(verifAnd(x[0] < div[0], x[1] < div[2]))
	case 3: // x equal to the highest divider
		verifAssume(div[0] <= x[0])
		x = []float64{x[0], div[2]}
		verifAssume(x[0] <= x[1])
	case 4: // x above the highest divider
		verifAssume(verifAnd(div[0] <= x[0], x[1] > div[2]))
	case 5: // one divider
		div = div[:1]
		if count != nil {
			count = count[:0]
		}
	case 6: // no divider
		div = div[:0]
		if count != nil {
			count = count[:0]
		}
	}
	var got []float64
	panicked, fault, msg := verifCatch(func() { got = Histogram(count, div, x, w) })
	verifAssert(!fault, "no runtime fault: "+msg)
	verifAssert(panicked == wantPanic, "panics exactly on the documented input violations")
	if panicked || wantPanic {
		verifReach("panic")
		return
	}
	verifAssert(len(got) == 2, "one count per bin")
	if count != nil {
		verifAssert(verifSame(got[0], count[0]) && verifSame(got[1], count[1]), "result stored in the supplied count")
	}
	var total float64
	for j := 0; j < 2; j++ {
		var want float64
		for i := range x {
			want += verifIteF(verifAnd(div[j] <= x[i], x[i] < div[j+1]), verifC10w(w, i), 0)
		}
		verifAssertEqF(got[j], want, "count[j] = weight of samples in [dividers[j], dividers[j+1])")
		total += got[j]
	}
	verifAssertEqF(total, verifC10sumw(w, len(x)), "total weight conserved")
	verifReach("end")
}

// VerifC10_CDFPanics: zero-length x, weights of another length and unsorted
// x panic.
func VerifC10_CDFPanics() {
	bad := verifChoose("bad", 0, 2)
	x := verifFloats("x", 2)
	q := verifFloat("q")
	var w []float64
	switch bad {
	case 0:
		x = x[:0]
		if verifChoose("w", 0, 1) == 1 {
			w = []float64{}
		}
	case 1:
		verifAssume(x[0] <= x[1])
		w = verifFloats("w", 3)
	case 2:
		verifAssume(x[0] > x[1])
		if verifChoose("w", 0, 1) == 1 {
			w = verifFloats("w", 2)
		}
	}
	panicked, fault, _ := verifCatch(func() { CDF(q, Empirical, x, w) })
	verifAssert(!fault, "no runtime fault")
	verifAssert(panicked, "documented panic")
	verifReach("end")
}

// VerifC10_MeanVarConsistency: the four mean/variance entry points agree:
// same mean everywhere, Variance * (sum(w)-1) = PopVariance * sum(w),
// StdDev^2 = Variance, PopStdDev^2 = PopVariance, Mean*Variance pairs equal
// the single-value functions.
func VerifC10_MeanVarConsistency() {
	wm := verifChoose("weights", 0, 2)
	n := verifChoose("n", 2, verifParam("mvn", 3))
	if wm == 1 {
		verifAssume(n <= verifParam("wmvn", 2))
	}
	x := verifFloats("x", n)
	w := verifC10weights("w", n, wm)
	sw := verifC10sumw(w, n)
	verifAssume(sw > 1) // "when weights sum to 1 or less, a biased variance estimator should be used"
	m1, v1 := MeanVariance(x, w)
	m2, v2 := PopMeanVariance(x, w)
	m3, s3 := MeanStdDev(x, w)
	m4, s4 := PopMeanStdDev(x, w)
	m := Mean(x, w)
	verifAssertEqF(m1, m, "MeanVariance mean = Mean")
	verifAssertEqF(m2, m, "PopMeanVariance mean = Mean")
	verifAssertEqF(m3, m, "MeanStdDev mean = Mean")
	verifAssertEqF(m4, m, "PopMeanStdDev mean = Mean")
	verifAssertEqF(v1, Variance(x, w), "MeanVariance variance = Variance")
	verifAssertEqF(v2, PopVariance(x, w), "PopMeanVariance variance = PopVariance")
	verifAssertEqF(v1*(sw-1), v2*sw, "Variance*(sum(w)-1) = PopVariance*sum(w)")
	verifAssert(verifAnd(s3 >= 0, s4 >= 0), "standard deviations non-negative")
	verifAssertEqF(s3*s3, v1, "MeanStdDev^2 = Variance")
	verifAssertEqF(s4*s4, v2, "PopMeanStdDev^2 = PopVariance")
	verifAssert(v2 >= 0, "PopVariance non-negative")
	verifReach("end")
}

var _ = math.Inf

// VerifC10_KendallTiesOnes: with ties ALLOWED (the value of Kendall on tied
// data is the recorded finding of VerifC10_KendallTies, so nothing is said
// about it here), the statements of C10 that do hold on tied data: unit
// weights give exactly the nil-weights result, constant positive weights give
// the unit-weights result, and the result is symmetric in x and y. (The
// nil-weights value is folded natively by the engine, i.e. rounded, so it is
// compared with concrete unit weights; the constant-weights value is an exact
// real and is compared with SYMBOLIC unit weights.)
func VerifC10_KendallTiesOnes() {
	n := verifChoose("n", 2, verifParam("kn", 3))
	x, y := verifFloats("x", n), verifFloats("y", n)
	c := verifFloat("c")
	verifAssume(c > 0)
	u := verifFloats("u", n)
	one, cs := make([]float64, n), make([]float64, n)
	for i := range one {
		one[i], cs[i] = 1, c
		verifAssume(u[i] == 1)
	}
	tau := Kendall(x, y, nil)
	verifAssertEqF(Kendall(x, y, one), tau, "Kendall: unit weights = nil weights, ties included")
	verifAssertEqF(Kendall(x, y, cs), Kendall(x, y, u), "Kendall: constant weights = unit weights, ties included")
	verifAssertEqF(Kendall(y, x, nil), tau, "Kendall symmetric in x and y, ties included")
	verifAssertEqF(Kendall(y, x, u), Kendall(x, y, u), "weighted Kendall symmetric in x and y, ties included")
	verifReach("end")
}
