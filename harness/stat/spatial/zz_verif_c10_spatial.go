package spatial

import (
	"gonum.org/v1/gonum/mat"
)

// C10, stat/spatial (model R): Global Moran's I equals its defining ratio for
// a symbolic locality matrix, is the same for a dense and for a
// RowNonZeroDoer (band) locality matrix, the z-score is (I - E(I))/sqrt(Var(I));
// the documented panics of GlobalMoransI and GetisOrdGStar.
//
// GetisOrdGStar's value is not stated: it multiplies by the natively rounded
// constant sqrt((n-1)/n), so no exact identity holds in the real model.

// verifC10locality: kind 0 symbolic non-negative dense matrix; kind 1 the
// concrete rook contiguity of a 1 x n strip held in a BandDense (a
// RowNonZeroDoer); kind 2 the same contiguity held in a Dense.
func verifC10locality(n, kind int) (mat.Matrix, []float64) {
	if kind == 0 {
		w := verifFloats("w", n*n)
		for i := range w {
			verifAssume(w[i] >= 0)
		}
		return mat.NewDense(n, n, append([]float64{}, w...)), w
	}
	w := make([]float64, n*n)
	b := mat.NewBandDense(n, n, 1, 1, nil)
	for i := 0; i+1 < n; i++ {
		w[i*n+i+1], w[(i+1)*n+i] = 1, 1
		b.SetBand(i, i+1, 1)
		b.SetBand(i+1, i, 1)
	}
	if kind == 1 {
		return b, w
	}
	return mat.NewDense(n, n, append([]float64{}, w...)), w
}

// VerifC10_MoransI: I * (sum_ij w_ij) * sum_i z_i^2 = n * sum_ij w_ij z_i z_j
// with z = x - mean(x); z-score * sqrt(v) = I - E(I), E(I) = -1/(n-1), when
// the variance is positive.
func VerifC10_MoransI() {
	n := verifChoose("n", 2, verifParam("morcn", 3))
	kind := verifChoose("locality", 0, 2)
	if kind == 0 && n > verifParam("morn", 2) {
		return // symbolic locality: z3 decides n = 2 only
	}
	x := verifFloats("x", n)
	x0 := append([]float64{}, x...)
	loc, w := verifC10locality(n, kind)
	var sx float64
	for _, v := range x {
		sx += v
	}
	mean := sx / float64(n)
	var num, den, sw float64
	for i := 0; i < n; i++ {
		zi := x[i] - mean
		den += zi * zi
		for j := 0; j < n; j++ {
			zj := x[j] - mean
			num += w[i*n+j] * zi * zj
			sw += w[i*n+j]
		}
	}
	verifAssume(den != 0) // not all data equal
	verifAssume(sw != 0)  // some neighbours
	I, v, z := GlobalMoransI(x, nil, loc)
	verifAssertEqF(I*sw*den, float64(n)*num, "I * sum(w) * sum z^2 = n * sum w_ij z_i z_j")
	if n >= 4 {
		e := -1 / float64(n-1)
		verifAssume(v > 0)
		verifAssertEqF(z*z*v, (I-e)*(I-e), "z^2 * Var(I) = (I - E(I))^2")
		verifAssert(verifIff(z >= 0, I >= e), "z has the sign of I - E(I)")
	}
	for i := range x {
		verifAssert(verifSame(x[i], x0[i]), "data untouched")
	}
	verifReach("end")
}

// VerifC10_SpatialPanics: weights != nil and a locality matrix that is not
// len(data) x len(data) panic in both functions; GetisOrdGStar with i outside
// the data panics.
func VerifC10_SpatialPanics() {
	fn := verifChoose("fn", 0, 1)
	bad := verifChoose("bad", 0, 3)
	n := 2
	x := verifFloats("x", n)
	var w []float64
	r, c, idx := n, n, verifChoose("i", 0, n-1)
	switch bad {
	case 0:
		w = verifFloats("wt", n)
	case 1:
		r = n + 1
	case 2:
		c = n + 1
	case 3:
		if fn == 0 {
			return
		}
		idx = []int{-1, n}[verifChoose("out", 0, 1)]
	}
	loc := mat.NewDense(r, c, verifFloats("l", r*c))
	panicked, _, _ := verifCatch(func() {
		if fn == 0 {
			GlobalMoransI(x, w, loc)
		} else {
			GetisOrdGStar(idx, x, w, loc)
		}
	})
	verifAssert(panicked, "documented panic")
	verifReach("end")
}
