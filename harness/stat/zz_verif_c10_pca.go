package stat

import "gonum.org/v1/gonum/mat"

// C10, PCA receiver state: a PC value may be reused; the variances reported
// after PrincipalComponents(a, w) depend on a and w only, not on what the
// receiver was used for before, and unit weights are equivalent to nil
// weights. The data matrix is concrete (the SVD underneath is Dgesvd, whose
// symbolic execution is the subject of C03); what varies is the history of
// the receiver (fresh / a weighted analysis / an unweighted analysis, of the
// same or of another shape) and the representation of the weights.
func VerifC10_PCReuse() {
	a := mat.NewDense(4, 2, []float64{1, 2, 3, 5, 4, 4, 8, 1})
	other := mat.NewDense(3, 2, []float64{2, 1, 0, 3, 5, 5})
	var fresh PC
	verifAssert(fresh.PrincipalComponents(a, nil), "analysis succeeds")
	want := fresh.VarsTo(nil)

	var pc PC
	switch verifChoose("hist", 0, 4) {
	case 1:
		pc.PrincipalComponents(a, []float64{1, 2, 3, 4})
	case 2:
		pc.PrincipalComponents(a, nil)
	case 3:
		pc.PrincipalComponents(other, []float64{2, 1, 2})
	case 4:
		pc.PrincipalComponents(a, []float64{1, 2, 3, 4})
		pc.PrincipalComponents(other, nil)
	}
	var w []float64
	if verifChoose("ones", 0, 1) == 1 {
		w = []float64{1, 1, 1, 1}
	}
	verifAssert(pc.PrincipalComponents(a, w), "analysis succeeds on a reused receiver")
	got := pc.VarsTo(nil)
	verifAssert(len(got) == len(want), "number of variances")
	for i := range want {
		verifAssert(got[i] >= 0, "variances are non-negative")
		verifAssertEqF(got[i], want[i], "VarsTo depends on the data and weights only, not on the receiver's history; unit weights = nil weights")
	}
	var v1, v2 mat.Dense
	fresh.VectorsTo(&v1)
	pc.VectorsTo(&v2)
	for i := 0; i < 2; i++ {
		for j := 0; j < 2; j++ {
			verifAssertEqF(v2.At(i, j), v1.At(i, j), "VectorsTo depends on the data and weights only")
		}
	}
	verifReach("end")
}
