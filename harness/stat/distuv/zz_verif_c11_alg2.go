package distuv

// C11, algebraic sub-claims (continued): closed-form moments, modes, medians
// and the piecewise trivial parts of CDF/Survival/Prob of the transcendental
// laws, stated as polynomial relations in the symbolic parameters. Where
// exp/log/Gamma/lgamma/pow (uninterpreted) occur, the harness writes the
// textbook formula with the same primitive and the solver has to identify the
// arguments.

import "math"

func verifC11aIsPosInf(v float64) bool { return math.IsInf(v, 1) }

// VerifC11_ExponentialMoments
func VerifC11_ExponentialMoments() {
	e := Exponential{Rate: verifFloat("rate")}
	verifAssume(e.Rate > 0)
	r := e.Rate
	verifAssertEqF(e.Mean()*r, 1, "Mean = 1/Rate")
	verifAssertEqF(e.Variance()*r*r, 1, "Variance = 1/Rate^2")
	verifAssertEqF(e.StdDev()*e.StdDev(), e.Variance(), "StdDev^2 = Variance")
	verifAssert(e.StdDev() > 0, "StdDev > 0")
	verifAssertEqF(e.Median()*r, math.Ln2, "Median = ln 2 / Rate")
	verifAssertEqF(e.Mode(), 0, "Mode = 0")
	verifAssertEqF(e.Skewness(), 2, "Skewness = 2")
	verifAssertEqF(e.ExKurtosis(), 6, "ExKurtosis = 6")
	verifAssert(e.NumParameters() == 1, "one parameter")
	verifAssert(e.NumSuffStat() == 1, "one sufficient statistic")
	verifAssertEqF(e.Entropy(), 1-math.Log(r), "Entropy = 1 - log Rate")
	verifReach("end")
}

// VerifC11_ExponentialLaw: the density/CDF/quantile of one law. exp, log and
// expm1 are uninterpreted; the three instances of their defining relations the
// statement needs are supplied as assumptions and noted.
func VerifC11_ExponentialLaw() {
	e := Exponential{Rate: verifFloat("rate")}
	verifAssume(e.Rate > 0)
	r := e.Rate
	x := verifFloat("x")
	p := verifFloat("p")
	verifAssume(verifAnd(0 <= p, p < 1))
	if x < 0 {
		verifAssertEqF(e.CDF(x), 0, "CDF = 0 left of the support")
		verifAssertEqF(e.Survival(x), 1, "Survival = 1 left of the support")
		verifAssertEqF(e.Prob(x), 0, "Prob = 0 left of the support")
		verifAssert(math.IsInf(e.LogProb(x), -1), "LogProb = -Inf left of the support")
		verifReach("left")
		return
	}
	verifNote("instance axioms: expm1(y) = exp(y) - 1 at y = -Rate x and y = log(1-p); exp(log(1-p)) = 1-p; log(1-p) <= 0")
	y := -r * x
	L := math.Log(1 - p)
	verifC11aAxiom(math.Expm1(y) == math.Exp(y)-1)
	verifC11aAxiom(math.Exp(L) == 1-p)
	verifC11aAxiom(math.Expm1(L) == math.Exp(L)-1)
	verifC11aAxiom(L <= 0) // sign of the logarithm of a value <= 1: makes Quantile(p) >= 0
	verifAssertEqF(e.Survival(x), 1-e.CDF(x), "Survival = 1 - CDF")
	verifAssertEqF(e.LogProb(x), math.Log(r)-r*x, "LogProb = log Rate - Rate x")
	verifAssertEqF(e.Prob(x), math.Exp(e.LogProb(x)), "Prob = exp(LogProb)")
	verifAssertEqF(e.Prob(x), math.Exp(math.Log(r)-r*x), "Prob = exp(log Rate - Rate x)")
	q := e.Quantile(p)
	verifAssertEqF(q*r, -L, "Quantile(p) = -log(1-p)/Rate")
	verifAssertEqF(e.CDF(q), p, "CDF(Quantile(p)) = p")
	verifReach("end")
}

// VerifC11_QuantilePanics: every Quantile that documents/implements the
// "percentile out of bounds" panic panics exactly for p outside [0,1]
// (laws whose Quantile does not call a special function first).
func VerifC11_QuantilePanics() {
	p := verifFloat("p")
	a, b := verifFloat("a"), verifFloat("b")
	verifAssume(verifAnd(a > 0, b > 0))
	bad := verifOr(p < 0, p > 1)
	var f func()
	switch verifChoose("law", 0, 5) {
	case 0:
		f = func() { Exponential{Rate: a}.Quantile(p) }
	case 1:
		f = func() { Laplace{Mu: a, Scale: b}.Quantile(p) }
	case 2:
		f = func() { Pareto{Xm: a, Alpha: b}.Quantile(p) }
	case 3:
		f = func() { Weibull{K: a, Lambda: b}.Quantile(p) }
	case 4:
		f = func() { GumbelRight{Mu: a, Beta: b}.Quantile(p) }
	case 5:
		f = func() { LogNormal{Mu: a, Sigma: b}.Quantile(p) }
	}
	if !bad {
		verifReach("in range")
		return // in range: the value is transcendental; only the panic condition is claimed
	}
	panicked, fault, msg := verifCatch(f)
	verifAssert(verifAnd(panicked, !fault), "Quantile panics for p outside [0,1]")
	verifAssert(msg == badPercentile, "with the percentile message")
	verifReach("end")
}

// VerifC11_QuantileNoPanicInRange: for p in [0,1] the algebraic-prefix
// Quantiles do not panic.
func VerifC11_QuantileNoPanicInRange() {
	p := verifFloat("p")
	verifAssume(verifAnd(0 <= p, p <= 1))
	a, b := verifFloat("a"), verifFloat("b")
	verifAssume(verifAnd(a > 0, b > 0))
	var f func()
	switch verifChoose("law", 0, 4) {
	case 0:
		f = func() { Exponential{Rate: a}.Quantile(p) }
	case 1:
		f = func() { Laplace{Mu: a, Scale: b}.Quantile(p) }
	case 2:
		f = func() { Pareto{Xm: a, Alpha: b}.Quantile(p) }
	case 3:
		f = func() { Weibull{K: a, Lambda: b}.Quantile(p) }
	case 4:
		f = func() { GumbelRight{Mu: a, Beta: b}.Quantile(p) }
	}
	panicked, _, _ := verifCatch(f)
	verifAssert(!panicked, "Quantile does not panic for p in [0,1]")
	verifReach("end")
}

// VerifC11_LaplaceLaw: moments, Survival = 1 - CDF on both arms, log-density,
// Rand = Quantile(r) (inversion) with the source stubbed.
func VerifC11_LaplaceLaw() {
	l := Laplace{Mu: verifFloat("mu"), Scale: verifFloat("scale")}
	verifAssume(l.Scale > 0)
	s := l.Scale
	t := verifFloat("t")
	verifAssume(t > 0)
	verifAssertEqF(l.Mean(), l.Mu, "Mean = Mu")
	verifAssertEqF(l.Median(), l.Mu, "Median = Mu")
	verifAssertEqF(l.Mode(), l.Mu, "Mode = Mu")
	verifAssertEqF(l.Variance(), 2*s*s, "Variance = 2 Scale^2")
	verifC11near(l.StdDev()*l.StdDev(), l.Variance(), l.Variance(), "StdDev^2 = Variance (sqrt 2 is a rounded literal)")
	verifAssertEqF(l.Skewness(), 0, "Skewness = 0")
	verifAssertEqF(l.ExKurtosis(), 3, "ExKurtosis = 3")
	verifAssert(l.NumParameters() == 2, "two parameters")
	verifAssertEqF(l.Entropy(), 1+math.Log(2*s), "Entropy = 1 + log(2 Scale)")
	x := verifFloat("x")
	verifAssertEqF(l.Survival(x), 1-l.CDF(x), "Survival = 1 - CDF")
	verifAssertEqF(l.LogProb(x), -math.Ln2-math.Log(s)-verifAbsF(x-l.Mu)/s, "LogProb = -log 2 - log Scale - |x-Mu|/Scale")
	verifAssertEqF(l.Prob(x), math.Exp(l.LogProb(x)), "Prob = exp(LogProb)")
	// symmetry about Mu: CDF(Mu - t) = Survival(Mu + t)
	verifAssertEqF(l.CDF(l.Mu-t), l.Survival(l.Mu+t), "symmetric about Mu")
	v := verifUint64("word")
	l.Src = &verifC11src{v}
	verifAssertEqF(l.Rand(), l.Quantile(verifC11unit(v)), "Rand = Quantile(r) (inversion)")
	verifReach("end")
}

// VerifC11_GammaMoments
func VerifC11_GammaMoments() {
	verifC11aSqrt()
	g := Gamma{Alpha: verifFloat("alpha"), Beta: verifFloat("beta")}
	verifAssume(verifAnd(g.Alpha > 0, g.Beta > 0))
	a, b := g.Alpha, g.Beta
	verifAssertEqF(g.Mean()*b, a, "Mean = Alpha/Beta")
	verifAssertEqF(g.Variance()*b*b, a, "Variance = Alpha/Beta^2")
	verifAssert(g.StdDev() >= 0, "StdDev >= 0")
	verifAssertEqF(g.StdDev()*g.StdDev(), g.Variance(), "StdDev^2 = Variance")
	verifAssertEqF(g.ExKurtosis()*a, 6, "ExKurtosis = 6/Alpha")
	if a >= 1 {
		verifAssertEqF(g.Mode()*b, a-1, "Mode = (Alpha-1)/Beta for Alpha >= 1")
	} else {
		verifAssertEqF(g.Mode(), 0, "Mode = 0 for Alpha < 1")
	}
	verifAssert(g.NumParameters() == 2, "two parameters")
	x := verifFloat("x")
	if x < 0 {
		verifAssertEqF(g.CDF(x), 0, "CDF = 0 left of the support")
		verifAssertEqF(g.Survival(x), 1, "Survival = 1 left of the support")
		verifAssertEqF(g.Prob(x), 0, "Prob = 0 left of the support")
	} else if x > 0 {
		lg, _ := math.Lgamma(a)
		verifAssertEqF(g.LogProb(x), a*math.Log(b)-lg+(a-1)*math.Log(x)-b*x, "LogProb = Alpha log Beta - lgamma(Alpha) + (Alpha-1) log x - Beta x")
		verifAssertEqF(g.Prob(x), math.Exp(g.LogProb(x)), "Prob = exp(LogProb)")
	}
	verifReach("end")
}

// VerifC11_BetaMoments
func VerifC11_BetaMoments() {
	verifC11aSqrt()
	bt := Beta{Alpha: verifFloat("alpha"), Beta: verifFloat("beta")}
	verifAssume(verifAnd(bt.Alpha > 0, bt.Beta > 0))
	a, b := bt.Alpha, bt.Beta
	s := a + b
	if verifChoose("part", 0, 1) == 1 {
		verifC11aBetaSupport(bt)
		return
	}
	verifAssertEqF(bt.Mean()*s, a, "Mean = Alpha/(Alpha+Beta)")
	verifAssertEqF(bt.Variance()*s*s*(s+1), a*b, "Variance = Alpha Beta/((Alpha+Beta)^2 (Alpha+Beta+1))")
	verifC11aStdDev(bt.StdDev, bt.Variance(), "Beta")
	// Var = E(1-E)/(s+1) with E the mean
	verifAssertEqF(bt.Variance()*(s+1), bt.Mean()*(1-bt.Mean()), "Variance = Mean (1-Mean)/(Alpha+Beta+1)")
	verifAssertEqF(bt.ExKurtosis()*a*b*(s+2)*(s+3), 6*((a-b)*(a-b)*(s+1)-a*b*(s+2)), "ExKurtosis closed form")
	m := bt.Mode()
	switch {
	case a > 1 && b > 1:
		verifAssertEqF(m*(s-2), a-1, "Mode = (Alpha-1)/(Alpha+Beta-2) for Alpha, Beta > 1")
	case a <= 1 && b > 1:
		verifAssertEqF(m, 0, "Mode = 0 if only Alpha <= 1")
	case a > 1 && b <= 1:
		verifAssertEqF(m, 1, "Mode = 1 if only Beta <= 1")
	default:
		verifAssert(math.IsNaN(m), "Mode = NaN if both parameters <= 1")
	}
	verifAssert(bt.NumParameters() == 2, "two parameters")
	verifReach("end")
}

func verifC11aBetaSupport(bt Beta) {
	a, b := bt.Alpha, bt.Beta
	x := verifFloat("x")
	switch {
	case x < 0:
		verifAssertEqF(bt.CDF(x), 0, "CDF = 0 left of the support")
		verifAssertEqF(bt.Survival(x), 1, "Survival = 1 left of the support")
		verifAssertEqF(bt.Prob(x), 0, "Prob = 0 left of the support")
	case x > 1:
		verifAssertEqF(bt.CDF(x), 1, "CDF = 1 right of the support")
		verifAssertEqF(bt.Survival(x), 0, "Survival = 0 right of the support")
		verifAssertEqF(bt.Prob(x), 0, "Prob = 0 right of the support")
	case x > 0 && x < 1:
		lab, _ := math.Lgamma(a + b)
		la, _ := math.Lgamma(a)
		lb, _ := math.Lgamma(b)
		verifAssertEqF(bt.LogProb(x), lab-la-lb+(a-1)*math.Log(x)+(b-1)*math.Log(1-x), "LogProb = -log B(Alpha,Beta) + (Alpha-1) log x + (Beta-1) log(1-x)")
		verifAssertEqF(bt.Prob(x), math.Exp(bt.LogProb(x)), "Prob = exp(LogProb)")
	}
	verifReach("end")
}

// VerifC11_BetaPanics: LogProb (inside the support) and Entropy panic for
// non-positive parameters.
func VerifC11_BetaPanics() {
	bt := Beta{Alpha: verifFloat("alpha"), Beta: verifFloat("beta")}
	x := verifFloat("x")
	verifAssume(verifAnd(0 < x, x < 1))
	bad := verifOr(bt.Alpha <= 0, bt.Beta <= 0)
	panicked, fault, _ := verifCatch(func() { bt.LogProb(x) })
	verifAssert(!fault, "no runtime fault")
	verifAssert(panicked == bad, "LogProb panics iff a parameter is <= 0")
	if bad {
		pe, _, _ := verifCatch(func() { bt.Entropy() })
		verifAssert(pe, "Entropy panics if a parameter is <= 0")
	}
	verifReach("end")
}

// VerifC11_ParetoMoments
func VerifC11_ParetoMoments() {
	verifC11aSqrt()
	p := Pareto{Xm: verifFloat("xm"), Alpha: verifFloat("alpha")}
	verifAssume(verifAnd(p.Xm > 0, p.Alpha > 0))
	xm, a := p.Xm, p.Alpha
	verifNote("instance axiom: pow(1/2, 1/Alpha) > 0")
	verifC11aAxiom(math.Pow(0.5, 1/a) > 0)
	if a > 1 {
		verifAssertEqF(p.Mean()*(a-1), a*xm, "Mean = Alpha Xm/(Alpha-1) for Alpha > 1")
	} else {
		verifAssert(verifC11aIsPosInf(p.Mean()), "Mean = +Inf for Alpha <= 1")
	}
	if a > 2 {
		verifAssertEqF(p.Variance()*(a-1)*(a-1)*(a-2), xm*xm*a, "Variance = Xm^2 Alpha/((Alpha-1)^2 (Alpha-2)) for Alpha > 2")
		verifC11aStdDev(p.StdDev, p.Variance(), "Pareto")
		// Var = E[X^2] - Mean^2 with E[X^2] = Alpha Xm^2/(Alpha-2)
		verifAssertEqF((p.Variance()+p.Mean()*p.Mean())*(a-2), a*xm*xm, "Variance + Mean^2 = E[X^2]")
	} else {
		verifAssert(verifC11aIsPosInf(p.Variance()), "Variance = +Inf for Alpha <= 2")
	}
	if a > 4 {
		verifAssertEqF(p.ExKurtosis()*a*(a-3)*(a-4), 6*(a*a*a+a*a-6*a-2), "ExKurtosis closed form for Alpha > 4")
	} else {
		verifAssert(math.IsNaN(p.ExKurtosis()), "ExKurtosis = NaN for Alpha <= 4")
	}
	verifAssertEqF(p.Mode(), xm, "Mode = Xm")
	verifAssertEqF(p.Median(), p.Quantile(0.5), "Median = Quantile(1/2)")
	verifAssert(p.NumParameters() == 2, "two parameters")
	verifAssertEqF(p.Entropy(), math.Log(xm)-math.Log(a)+1+1/a, "Entropy = log(Xm/Alpha) + 1 + 1/Alpha")
	x := verifFloat("x")
	if x < xm {
		verifAssertEqF(p.CDF(x), 0, "CDF = 0 left of the support")
		verifAssertEqF(p.Survival(x), 1, "Survival = 1 left of the support")
		verifAssertEqF(p.Prob(x), 0, "Prob = 0 left of the support")
	} else {
		verifAssertEqF(p.LogProb(x), math.Log(a)+a*math.Log(xm)-(a+1)*math.Log(x), "LogProb = log Alpha + Alpha log Xm - (Alpha+1) log x")
		verifAssertEqF(p.Prob(x), math.Exp(p.LogProb(x)), "Prob = exp(LogProb)")
		verifAssertEqF(p.Survival(x), math.Pow(xm/x, a), "Survival = (Xm/x)^Alpha")
	}
	verifReach("end")
}

// VerifC11_WeibullLaw: moments through Gamma (uninterpreted), the log-density,
// Survival = 1 - CDF (instance of expm1(y) = exp(y) - 1), Rand = Quantile(r).
func VerifC11_WeibullLaw() {
	verifC11aSqrt()
	w := Weibull{K: verifFloat("k"), Lambda: verifFloat("lambda")}
	verifAssume(verifAnd(w.K > 0, w.Lambda > 0))
	k, lam := w.K, w.Lambda
	p := verifFloat("p")
	verifAssume(verifAnd(0 <= p, p <= 1))
	g1, g2 := math.Gamma(1+1/k), math.Gamma(1+2/k)
	verifAssertEqF(w.Mean(), lam*g1, "Mean = Lambda Gamma(1+1/K)")
	verifAssertEqF(w.Variance(), lam*lam*(g2-g1*g1), "Variance = Lambda^2 (Gamma(1+2/K) - Gamma(1+1/K)^2)")
	if w.Variance() >= 0 {
		verifC11aStdDev(w.StdDev, w.Variance(), "Weibull")
	}
	verifAssertEqF(w.Median(), lam*math.Pow(math.Ln2, 1/k), "Median = Lambda (ln 2)^(1/K)")
	if k > 1 {
		verifAssertEqF(w.Mode(), lam*math.Pow((k-1)/k, 1/k), "Mode = Lambda ((K-1)/K)^(1/K) for K > 1")
	} else {
		verifAssertEqF(w.Mode(), 0, "Mode = 0 for K <= 1")
	}
	verifAssert(w.NumParameters() == 2, "two parameters")
	x := verifFloat("x")
	if x < 0 {
		verifAssertEqF(w.CDF(x), 0, "CDF = 0 left of the support")
		verifAssertEqF(w.Survival(x), 1, "Survival = 1 left of the support")
		verifAssertEqF(w.Prob(x), 0, "Prob = 0 left of the support")
	} else if x > 0 {
		z := math.Pow(x/lam, k)
		verifNote("instance axiom: expm1(y) = exp(y) - 1 at y = -(x/Lambda)^K")
		verifC11aAxiom(math.Expm1(-z) == math.Exp(-z)-1)
		verifAssertEqF(w.Survival(x), 1-w.CDF(x), "Survival = 1 - CDF")
		verifAssertEqF(w.LogSurvival(x), -z, "LogSurvival = -(x/Lambda)^K")
		verifAssertEqF(w.LogProb(x), math.Log(k)-math.Log(lam)+(k-1)*(math.Log(x)-math.Log(lam))-z, "LogProb = log(K/Lambda) + (K-1) log(x/Lambda) - (x/Lambda)^K")
		verifAssertEqF(w.Prob(x), math.Exp(w.LogProb(x)), "Prob = exp(LogProb)")
	}
	verifAssertEqF(w.Quantile(p), lam*math.Pow(-math.Log(1-p), 1/k), "Quantile(p) = Lambda (-log(1-p))^(1/K)")
	v := verifUint64("word")
	w.Src = &verifC11src{v}
	verifAssertEqF(w.Rand(), w.Quantile(verifC11unit(v)), "Rand = Quantile(r) (inversion)")
	verifReach("end")
}

// VerifC11_LogNormalMoments: exp uninterpreted; the textbook formulas.
func VerifC11_LogNormalMoments() {
	verifC11aSqrt()
	l := LogNormal{Mu: verifFloat("mu"), Sigma: verifFloat("sigma")}
	verifAssume(l.Sigma > 0)
	mu, s2 := l.Mu, l.Sigma*l.Sigma
	verifAssertEqF(l.Mean(), math.Exp(mu+s2/2), "Mean = exp(Mu + Sigma^2/2)")
	verifAssertEqF(l.Median(), math.Exp(mu), "Median = exp(Mu)")
	verifAssertEqF(l.Mode(), math.Exp(mu-s2), "Mode = exp(Mu - Sigma^2)")
	verifAssertEqF(l.Variance(), (math.Exp(s2)-1)*math.Exp(2*mu+s2), "Variance = (exp(Sigma^2)-1) exp(2 Mu + Sigma^2)")
	if l.Variance() >= 0 {
		verifC11aStdDev(l.StdDev, l.Variance(), "LogNormal")
	}
	if math.Exp(s2) >= 1 {
		sk := l.Skewness()
		verifAssertEqF(sk*sk, (math.Exp(s2)+2)*(math.Exp(s2)+2)*(math.Exp(s2)-1), "Skewness^2 = (exp(Sigma^2)+2)^2 (exp(Sigma^2)-1)")
	}
	verifAssertEqF(l.ExKurtosis(), math.Exp(4*s2)+2*math.Exp(3*s2)+3*math.Exp(2*s2)-6, "ExKurtosis = e^{4s2} + 2 e^{3s2} + 3 e^{2s2} - 6")
	verifAssert(l.NumParameters() == 2, "two parameters")
	x := verifFloat("x")
	if x < 0 {
		verifAssertEqF(l.Prob(x), 0, "Prob = 0 left of the support")
	} else if x > 0 {
		lx := math.Log(x)
		verifAssertEqF(l.Prob(x), math.Exp(l.LogProb(x)), "Prob = exp(LogProb)")
		// log-density of exp(N(Mu,Sigma)): Normal log-density at log x minus log x
		nl := Normal{Mu: l.Mu, Sigma: l.Sigma}.LogProb(lx) - lx
		verifC11near(l.LogProb(x), nl, 1, "LogProb(x) = Normal(Mu,Sigma).LogProb(log x) - log x (two spellings of log sqrt(2 pi))")
	}
	verifReach("end")
}

// VerifC11_DiscreteMoments: Binomial and Poisson.
func VerifC11_DiscreteMoments() {
	verifC11aSqrt()
	if verifChoose("law", 0, 1) == 0 {
		b := Binomial{N: verifFloat("n"), P: verifFloat("p")}
		verifAssume(verifAnd(b.N > 0, verifAnd(0 < b.P, b.P < 1)))
		n, p := b.N, b.P
		verifAssertEqF(b.Mean(), n*p, "Binomial Mean = N P")
		verifAssertEqF(b.Variance(), n*p*(1-p), "Binomial Variance = N P (1-P)")
		verifC11aStdDev(b.StdDev, b.Variance(), "Binomial")
		verifAssertEqF(b.Skewness()*b.StdDev(), 1-2*p, "Skewness = (1-2P)/StdDev")
		verifAssertEqF(b.ExKurtosis()*n*p*(1-p), 1-6*p*(1-p), "ExKurtosis = (1-6P(1-P))/(N P (1-P))")
		verifAssert(b.NumParameters() == 2, "two parameters")
		x := verifFloat("x")
		if x < 0 {
			verifAssertEqF(b.CDF(x), 0, "CDF = 0 left of the support")
			verifAssertEqF(b.Survival(x), 1, "Survival = 1 left of the support")
			verifAssertEqF(b.Prob(x), 0, "Prob = 0 left of the support")
		} else if x >= n {
			verifAssertEqF(b.CDF(x), 1, "CDF = 1 from N on")
			verifAssertEqF(b.Survival(x), 0, "Survival = 0 from N on")
			if x > n {
				verifAssertEqF(b.Prob(x), 0, "Prob = 0 right of the support")
			}
		}
		verifReach("end")
		return
	}
	ps := Poisson{Lambda: verifFloat("lambda")}
	verifAssume(ps.Lambda > 0)
	lam := ps.Lambda
	verifAssertEqF(ps.Mean(), lam, "Poisson Mean = Lambda")
	verifAssertEqF(ps.Variance(), lam, "Poisson Variance = Lambda")
	verifC11aStdDev(ps.StdDev, lam, "Poisson")
	verifAssert(ps.Skewness() > 0, "Skewness > 0")
	verifAssertEqF(ps.Skewness()*ps.Skewness()*lam, 1, "Skewness = Lambda^(-1/2)")
	verifAssertEqF(ps.ExKurtosis()*lam, 1, "ExKurtosis = 1/Lambda")
	verifAssert(ps.NumParameters() == 1, "one parameter")
	x := verifFloat("x")
	if x < 0 {
		verifAssertEqF(ps.CDF(x), 0, "CDF = 0 left of the support")
		verifAssertEqF(ps.Survival(x), 1, "Survival = 1 left of the support")
		verifAssertEqF(ps.Prob(x), 0, "Prob = 0 left of the support")
	}
	verifReach("end")
}

// VerifC11_ChiFamilyMoments: ChiSquared, Chi, F, StudentsT, InverseGamma.
func VerifC11_ChiFamilyMoments() {
	verifC11aSqrt()
	switch verifChoose("law", 0, 4) {
	case 0:
		c := ChiSquared{K: verifFloat("k")}
		verifAssume(c.K > 0)
		k := c.K
		verifAssertEqF(c.Mean(), k, "ChiSquared Mean = K")
		verifAssertEqF(c.Variance(), 2*k, "ChiSquared Variance = 2K")
		verifC11aStdDev(c.StdDev, 2*k, "ChiSquared")
		verifAssertEqF(c.ExKurtosis()*k, 12, "ExKurtosis = 12/K")
		verifAssertEqF(c.Mode(), verifIteF(k > 2, k-2, 0), "Mode = max(K-2, 0)")
		verifAssert(c.NumParameters() == 1, "one parameter")
		x := verifFloat("x")
		if x < 0 {
			verifAssertEqF(c.Survival(x), 1, "Survival = 1 left of the support")
			verifAssertEqF(c.Prob(x), 0, "Prob = 0 left of the support")
		} else if x > 0 {
			lg, _ := math.Lgamma(k / 2)
			verifAssertEqF(c.LogProb(x), (k/2-1)*math.Log(x)-x/2-(k/2)*math.Ln2-lg, "LogProb = (K/2-1) log x - x/2 - (K/2) log 2 - lgamma(K/2)")
			// a ChiSquared(K) is a Gamma(K/2, 1/2)
			g := Gamma{Alpha: k / 2, Beta: 0.5}
			verifAssertEqF(c.Mean(), g.Mean(), "ChiSquared(K) = Gamma(K/2, 1/2): Mean")
			verifAssertEqF(c.Variance(), g.Variance(), "ChiSquared(K) = Gamma(K/2, 1/2): Variance")
			if k >= 2 {
				verifAssertEqF(c.Mode(), g.Mode(), "ChiSquared(K) = Gamma(K/2, 1/2): Mode")
			}
			verifAssertEqF(c.ExKurtosis(), g.ExKurtosis(), "ChiSquared(K) = Gamma(K/2, 1/2): ExKurtosis")
		}
	case 1:
		c := Chi{K: verifFloat("k")}
		verifAssume(c.K > 0)
		k := c.K
		l1, _ := math.Lgamma((k + 1) / 2)
		l0, _ := math.Lgamma(k / 2)
		m := c.Mean()
		verifAssertEqF(m, math.Sqrt2*math.Exp(l1-l0), "Chi Mean = sqrt 2 Gamma((K+1)/2)/Gamma(K/2)")
		v := c.Variance()
		verifAssert(v >= 0, "Variance >= 0")
		if k-m*m >= 0 {
			verifAssertEqF(v, k-m*m, "Variance = K - Mean^2")
		}
		verifC11aStdDev(c.StdDev, v, "Chi")
		if k >= 1 {
			verifAssert(c.Mode() >= 0, "Mode >= 0")
			verifAssertEqF(c.Mode()*c.Mode(), k-1, "Mode = sqrt(K-1) for K >= 1")
		}
		verifAssert(c.NumParameters() == 1, "one parameter")
		x := verifFloat("x")
		if x < 0 {
			verifAssertEqF(c.Survival(x), 1, "Survival = 1 left of the support")
			verifAssertEqF(c.Prob(x), 0, "Prob = 0 left of the support")
		}
	case 2:
		f := F{D1: verifFloat("d1"), D2: verifFloat("d2")}
		verifAssume(verifAnd(f.D1 > 0, f.D2 > 0))
		d1, d2 := f.D1, f.D2
		if d2 > 2 {
			verifAssertEqF(f.Mean()*(d2-2), d2, "F Mean = D2/(D2-2) for D2 > 2")
		} else {
			verifAssert(math.IsNaN(f.Mean()), "F Mean = NaN for D2 <= 2")
		}
		if d1 > 2 {
			verifAssertEqF(f.Mode()*d1*(d2+2), (d1-2)*d2, "F Mode = (D1-2) D2/(D1 (D2+2)) for D1 > 2")
		} else {
			verifAssert(math.IsNaN(f.Mode()), "F Mode = NaN for D1 <= 2")
		}
		if d2 > 4 {
			verifAssertEqF(f.Variance()*d1*(d2-2)*(d2-2)*(d2-4), 2*d2*d2*(d1+d2-2), "F Variance closed form for D2 > 4")
			verifC11aStdDev(f.StdDev, f.Variance(), "F")
		} else {
			verifAssert(verifAnd(math.IsNaN(f.Variance()), math.IsNaN(f.StdDev())), "F Variance, StdDev = NaN for D2 <= 4")
		}
		if d2 > 6 {
			sk := f.Skewness()
			verifAssert(sk > 0, "F Skewness > 0")
			verifAssertEqF(sk*sk*(d2-6)*(d2-6)*d1*(d1+d2-2), (2*d1+d2-2)*(2*d1+d2-2)*8*(d2-4), "F Skewness^2 closed form for D2 > 6")
		} else {
			verifAssert(math.IsNaN(f.Skewness()), "F Skewness = NaN for D2 <= 6")
		}
		if d2 > 8 {
			verifAssertEqF(f.ExKurtosis()*d1*(d2-6)*(d2-8)*(d1+d2-2), 12*(d1*(5*d2-22)*(d1+d2-2)+(d2-4)*(d2-2)*(d2-2)), "F ExKurtosis closed form for D2 > 8")
		} else {
			verifAssert(math.IsNaN(f.ExKurtosis()), "F ExKurtosis = NaN for D2 <= 8")
		}
		verifAssert(f.NumParameters() == 2, "two parameters")
	case 3:
		s := StudentsT{Mu: verifFloat("mu"), Sigma: verifFloat("sigma"), Nu: verifFloat("nu")}
		verifAssume(verifAnd(s.Sigma > 0, s.Nu > 0))
		verifAssertEqF(s.Mean(), s.Mu, "StudentsT Mean = Mu")
		verifAssertEqF(s.Mode(), s.Mu, "StudentsT Mode = Mu")
		switch {
		case s.Nu > 2:
			verifAssertEqF(s.Variance()*(s.Nu-2), s.Sigma*s.Sigma*s.Nu, "StudentsT Variance = Sigma^2 Nu/(Nu-2) for Nu > 2")
			verifC11aStdDev(s.StdDev, s.Variance(), "StudentsT")
		case s.Nu > 1:
			verifAssert(verifC11aIsPosInf(s.Variance()), "StudentsT Variance = +Inf for 1 < Nu <= 2")
		default:
			verifAssert(math.IsNaN(s.Variance()), "StudentsT Variance = NaN for Nu <= 1")
		}
		verifAssertEqF(s.CDF(s.Mu), 0.5, "CDF(Mu) = 1/2")
		verifAssertEqF(s.Survival(s.Mu), 0.5, "Survival(Mu) = 1/2")
		verifAssertEqF(s.Quantile(0.5), s.Mu, "Quantile(1/2) = Mu")
		verifAssert(s.NumParameters() == 3, "three parameters")
		x := verifFloat("x")
		g1, _ := math.Lgamma((s.Nu + 1) / 2)
		g2, _ := math.Lgamma(s.Nu / 2)
		z := (x - s.Mu) / s.Sigma
		verifC11near(s.LogProb(x), g1-g2-0.5*math.Log(s.Nu)-0.5*math.Log(math.Pi)-math.Log(s.Sigma)-((s.Nu+1)/2)*math.Log(1+z*z/s.Nu), 1, "LogProb: Student density with location Mu and scale Sigma")
		verifAssertEqF(s.LogProb(s.Mu+(x-s.Mu)), s.LogProb(s.Mu-(x-s.Mu)), "density symmetric about Mu")
	case 4:
		g := InverseGamma{Alpha: verifFloat("alpha"), Beta: verifFloat("beta")}
		verifAssume(verifAnd(g.Alpha > 0, g.Beta > 0))
		a, b := g.Alpha, g.Beta
		if a > 1 {
			verifAssertEqF(g.Mean()*(a-1), b, "InverseGamma Mean = Beta/(Alpha-1) for Alpha > 1")
		} else {
			verifAssert(verifC11aIsPosInf(g.Mean()), "InverseGamma Mean = +Inf for Alpha <= 1")
		}
		if a > 2 {
			verifAssertEqF(g.Variance()*(a-1)*(a-1)*(a-2), b*b, "InverseGamma Variance = Beta^2/((Alpha-1)^2 (Alpha-2)) for Alpha > 2")
			verifC11aStdDev(g.StdDev, g.Variance(), "InverseGamma")
		} else {
			verifAssert(verifC11aIsPosInf(g.Variance()), "InverseGamma Variance = +Inf for Alpha <= 2")
		}
		verifAssertEqF(g.Mode()*(a+1), b, "InverseGamma Mode = Beta/(Alpha+1)")
		if a > 4 {
			verifAssertEqF(g.ExKurtosis()*(a-3)*(a-4), 30*a-66, "InverseGamma ExKurtosis = (30 Alpha - 66)/((Alpha-3)(Alpha-4)) for Alpha > 4")
		}
		verifAssert(g.NumParameters() == 2, "two parameters")
		x := verifFloat("x")
		if x < 0 {
			verifAssertEqF(g.CDF(x), 0, "CDF = 0 left of the support")
			verifAssertEqF(g.Survival(x), 1, "Survival = 1 left of the support")
			verifAssertEqF(g.Prob(x), 0, "Prob = 0 left of the support")
		} else if x > 0 {
			lg, _ := math.Lgamma(a)
			verifAssertEqF(g.LogProb(x), a*math.Log(b)-lg-(a+1)*math.Log(x)-b/x, "LogProb = Alpha log Beta - lgamma(Alpha) - (Alpha+1) log x - Beta/x")
		}
	}
	verifReach("end")
}

// VerifC11_AlphaStableMoments: the documented special cases.
func VerifC11_AlphaStableMoments() {
	verifC11aSqrt()
	a := AlphaStable{Alpha: verifFloat("alpha"), Beta: verifFloat("beta"), C: verifFloat("c"), Mu: verifFloat("mu")}
	verifAssume(verifAnd(0 < a.Alpha, a.Alpha <= 2))
	verifAssume(verifAnd(-1 <= a.Beta, a.Beta <= 1))
	verifAssume(a.C > 0)
	if a.Alpha > 1 {
		verifAssertEqF(a.Mean(), a.Mu, "Mean = Mu for Alpha > 1")
	} else {
		verifAssert(math.IsNaN(a.Mean()), "Mean = NaN for Alpha <= 1")
	}
	if a.Alpha == 2 {
		verifAssertEqF(a.Variance(), 2*a.C*a.C, "Variance = 2 C^2 for Alpha = 2 (Normal with Sigma = sqrt 2 C)")
		verifC11aStdDev(a.StdDev, 2*a.C*a.C, "AlphaStable")
		verifAssertEqF(a.Skewness(), 0, "Skewness = 0 for Alpha = 2")
		verifAssertEqF(a.ExKurtosis(), 0, "ExKurtosis = 0 for Alpha = 2")
	} else {
		verifAssert(verifC11aIsPosInf(a.Variance()), "Variance = +Inf for Alpha < 2")
		verifAssert(math.IsNaN(a.Skewness()), "Skewness = NaN for Alpha < 2")
		verifAssert(math.IsNaN(a.ExKurtosis()), "ExKurtosis = NaN for Alpha < 2")
	}
	pm, _, _ := verifCatch(func() { verifAssertEqF(a.Median(), a.Mu, "Median = Mu for Beta = 0") })
	po, _, _ := verifCatch(func() { verifAssertEqF(a.Mode(), a.Mu, "Mode = Mu for Beta = 0") })
	verifAssert(verifAnd(pm == (a.Beta != 0), po == (a.Beta != 0)), "Median and Mode panic iff Beta != 0")
	verifAssert(a.NumParameters() == 4, "four parameters")
	verifReach("end")
}

// verifC11aLocScale is the part of the API shared by the location-scale laws.
type verifC11aLocScale interface {
	CDF(float64) float64
	Survival(float64) float64
	LogProb(float64) float64
	Quantile(float64) float64
	Mean() float64
	Variance() float64
	StdDev() float64
}

// VerifC11_LocationScale: Normal, Laplace, GumbelRight and Logistic are
// location-scale families: with z = (x - location)/scale and the standard
// member (location 0, scale 1) of the same type,
//
//	CDF(x) = CDF0(z), Survival(x) = Survival0(z),
//	LogProb(x) = LogProb0(z) - log(scale),
//	Quantile(p) = location + scale Quantile0(p),
//	Mean = location + scale Mean0, Variance = scale^2 Variance0, StdDev = scale StdDev0.
//
// exp/log/erf are uninterpreted: the statement is decided by identifying the
// arguments, so every method must use the parameters of ITS OWN receiver in
// the way a location-scale law does. (Normal.Quantile is left out: it calls
// the rational approximation mathext.NormalQuantile.) Logistic.LogProb is in
// VerifC11_LogisticLogProb (open violation).
func VerifC11_LocationScale() {
	loc, sc := verifFloat("loc"), verifFloat("scale")
	verifAssume(sc > 0)
	x, p := verifFloat("x"), verifFloat("p")
	verifAssume(verifAnd(0 < p, p < 1))
	z := (x - loc) / sc
	var d, d0 verifC11aLocScale
	law := verifChoose("law", 0, 3)
	switch law {
	case 0:
		d, d0 = Normal{Mu: loc, Sigma: sc}, Normal{Mu: 0, Sigma: 1}
	case 1:
		d, d0 = Laplace{Mu: loc, Scale: sc}, Laplace{Mu: 0, Scale: 1}
	case 2:
		d, d0 = GumbelRight{Mu: loc, Beta: sc}, GumbelRight{Mu: 0, Beta: 1}
	case 3:
		d, d0 = Logistic{Mu: loc, S: sc}, Logistic{Mu: 0, S: 1}
		verifNote("instance axiom: exp(-(x-loc)/scale) > 0 (the Logistic CDF divides by 1 + exp)")
		verifC11aAxiom(math.Exp(-(x-loc)/sc) > 0)
	}
	verifAssertEqF(d.CDF(x), d0.CDF(z), "CDF(x) = CDF0((x-loc)/scale)")
	verifAssertEqF(d.Survival(x), d0.Survival(z), "Survival(x) = Survival0((x-loc)/scale)")
	if law != 3 {
		verifAssertEqF(d.LogProb(x), d0.LogProb(z)-math.Log(sc), "LogProb(x) = LogProb0((x-loc)/scale) - log(scale)")
	}
	if law != 0 {
		verifAssertEqF(d.Quantile(p), loc+sc*d0.Quantile(p), "Quantile(p) = loc + scale Quantile0(p)")
	}
	verifAssertEqF(d.Mean(), loc+sc*d0.Mean(), "Mean = loc + scale Mean0")
	verifC11near(d.Variance(), sc*sc*d0.Variance(), sc*sc*d0.Variance(), "Variance = scale^2 Variance0")
	verifC11near(d.StdDev(), sc*d0.StdDev(), sc*d0.StdDev(), "StdDev = scale StdDev0")
	verifC11near(d.StdDev()*d.StdDev(), d.Variance(), d.Variance(), "StdDev^2 = Variance")
	verifReach("end")
}

// VerifC11_LogisticLogProb: the Logistic log-density is that of a
// location-scale law and agrees with Prob at the centre. OPEN VIOLATION on the
// unchanged tree: Logistic.LogProb ignores Mu and S (logistic.go:38 returns
// x - 2 log(exp(x)+1), the standard logistic log-density), so Prob !=
// exp(LogProb) unless Mu = 0, S = 1. Not part of the check spec.
func VerifC11_LogisticLogProb() {
	l := Logistic{Mu: verifFloat("mu"), S: verifFloat("s")}
	verifAssume(l.S > 0)
	x := verifFloat("x")
	z := (x - l.Mu) / l.S
	verifNote("instance axiom: log(1) = 0")
	verifAssume(verifImplies(l.S == 1, math.Log(l.S) == 0))
	verifAssertEqF(l.LogProb(x), Logistic{Mu: 0, S: 1}.LogProb(z)-math.Log(l.S), "LogProb(x) = LogProb0((x-Mu)/S) - log S")
	verifReach("end")
}

// VerifC11_GumbelLogisticMoments: closed forms with the constants written by
// the harness (Euler-Mascheroni, pi^2/6, pi^2/3, log log 2).
func VerifC11_GumbelLogisticMoments() {
	const euler = 0.57721566490153286060651209008240243104215933593992
	loc, sc := verifFloat("loc"), verifFloat("scale")
	verifAssume(sc > 0)
	if verifChoose("law", 0, 1) == 0 {
		g := GumbelRight{Mu: loc, Beta: sc}
		verifAssertEqF(g.Mean(), loc+sc*euler, "Gumbel Mean = Mu + Beta gamma")
		verifAssertEqF(g.Mode(), loc, "Gumbel Mode = Mu")
		verifC11near(g.Median(), loc-sc*math.Log(math.Ln2), sc, "Gumbel Median = Mu - Beta log(log 2)")
		verifAssertEqF(g.Median(), g.Quantile(0.5), "Median = Quantile(1/2)")
		verifC11near(g.Variance()*6, math.Pi*math.Pi*sc*sc, 10*sc*sc, "Gumbel Variance = pi^2 Beta^2/6")
		verifC11near(g.ExKurtosis()*5, 12, 12, "Gumbel ExKurtosis = 12/5")
		verifC11near(g.Skewness(), 1.1395470994046486, 2, "Gumbel Skewness = 12 sqrt 6 zeta(3)/pi^3")
		verifAssertEqF(g.Entropy(), math.Log(sc)+euler+1, "Gumbel Entropy = log Beta + gamma + 1")
		verifAssert(g.NumParameters() == 2, "two parameters")
		x := verifFloat("x")
		zz := (x - loc) / sc
		verifAssertEqF(g.LogProb(x), -math.Log(sc)-zz-math.Exp(-zz), "Gumbel LogProb = -log Beta - z - exp(-z)")
		verifAssertEqF(g.Prob(x), math.Exp(g.LogProb(x)), "Prob = exp(LogProb)")
		verifAssertEqF(g.CDF(x), math.Exp(-math.Exp(-zz)), "Gumbel CDF = exp(-exp(-z))")
		verifAssertEqF(g.Survival(x), 1-g.CDF(x), "Survival = 1 - CDF")
		verifReach("end")
		return
	}
	l := Logistic{Mu: loc, S: sc}
	verifAssertEqF(l.Mean(), loc, "Logistic Mean = Mu")
	verifAssertEqF(l.Median(), loc, "Logistic Median = Mu")
	verifAssertEqF(l.Mode(), loc, "Logistic Mode = Mu")
	verifC11near(l.Variance()*3, sc*sc*math.Pi*math.Pi, 10*sc*sc, "Logistic Variance = S^2 pi^2/3")
	verifAssertEqF(l.Skewness(), 0, "Logistic Skewness = 0")
	verifC11near(l.ExKurtosis()*5, 6, 6, "Logistic ExKurtosis = 6/5")
	verifAssert(l.NumParameters() == 2, "two parameters")
	x := verifFloat("x")
	E := math.Exp(-(x - loc) / sc)
	verifNote("instance axiom: exp(-(x-Mu)/S) > 0")
	verifC11aAxiom(E > 0)
	verifAssertEqF(l.CDF(x)*(1+E), 1, "Logistic CDF = 1/(1+E), E = exp(-(x-Mu)/S)")
	verifAssertEqF(l.Survival(x), 1-l.CDF(x), "Survival = 1 - CDF")
	verifAssertEqF(l.Prob(x)*sc*(1+E)*(1+E), E, "Logistic Prob = E/(S (1+E)^2)")
	// the density is the derivative of the CDF: F' = F (1-F)/S
	verifAssertEqF(l.Prob(x)*sc, l.CDF(x)*(1-l.CDF(x)), "Prob = CDF (1-CDF)/S")
	verifAssertEqF(l.Quantile(0.5)-loc, sc*math.Log(1), "Quantile(1/2) = Mu + S log 1")
	verifReach("end")
}

// VerifC11_Parameters: parameters(nil) reports the fields under the documented
// names, setParameters(parameters()) is the identity, and both panic on a
// wrong length / a wrong name as implemented for every law that has them.
func VerifC11_Parameters() {
	a, b, c := verifFloat("a"), verifFloat("b"), verifFloat("c")
	law := verifChoose("law", 0, 5)
	var get func(p []Parameter) []Parameter
	var set func(p []Parameter)
	var same func() bool
	var names []string
	switch law {
	case 0:
		src, dst := Normal{Mu: a, Sigma: b}, &Normal{Mu: c, Sigma: c}
		get, set, names = src.parameters, dst.setParameters, []string{"Mu", "Sigma"}
		same = func() bool { return verifAnd(dst.Mu == a, dst.Sigma == b) }
	case 1:
		src, dst := Exponential{Rate: a}, &Exponential{Rate: c}
		get, set, names = src.parameters, dst.setParameters, []string{"Rate"}
		same = func() bool { return dst.Rate == a }
	case 2:
		src, dst := Laplace{Mu: a, Scale: b}, &Laplace{Mu: c, Scale: c}
		get, set, names = src.parameters, dst.setParameters, []string{"Mu", "Scale"}
		same = func() bool { return verifAnd(dst.Mu == a, dst.Scale == b) }
	case 3:
		src, dst := Weibull{K: a, Lambda: b}, &Weibull{K: c, Lambda: c}
		get, set, names = src.parameters, dst.setParameters, []string{"K", "λ"}
		same = func() bool { return verifAnd(dst.K == a, dst.Lambda == b) }
	case 4:
		src, dst := Uniform{Min: a, Max: b}, &Uniform{Min: c, Max: c}
		get, set, names = src.parameters, dst.setParameters, []string{"Min", "Max"}
		same = func() bool { return verifAnd(dst.Min == a, dst.Max == b) }
	case 5:
		verifAssume(verifAnd(a < b, verifAnd(a <= c, c <= b)))
		src, d := NewTriangle(a, b, c, nil), NewTriangle(0, 1, 0.5, nil)
		dst := &d
		get, set, names = src.parameters, dst.setParameters, []string{"A", "B", "C"}
		same = func() bool { return verifAnd(dst.a == a, verifAnd(dst.b == b, dst.c == c)) }
	}
	n := len(names)
	vals := []float64{a, b, c}
	p := get(nil)
	verifAssert(len(p) == n, "parameters(nil) allocates NumParameters entries")
	for i := range p {
		verifAssert(p[i].Name == names[i], "documented parameter name")
		verifAssert(p[i].Value == vals[i], "parameter value is the field")
	}
	buf := make([]Parameter, n)
	q := get(buf)
	verifAssert(&q[0] == &buf[0], "parameters(p) fills the given slice")
	set(p)
	verifAssert(same(), "setParameters(parameters()) restores the law")
	switch verifChoose("bad", 0, 2) {
	case 0:
		pg, fg, _ := verifCatch(func() { get(make([]Parameter, n+1)) })
		ps, fs, _ := verifCatch(func() { set(make([]Parameter, n+1)) })
		verifAssert(verifAnd(verifAnd(pg, ps), verifAnd(!fg, !fs)), "wrong length panics (not a runtime fault)")
	case 1:
		i := verifChoose("which", 0, n-1)
		bad := append([]Parameter(nil), p...)
		bad[i].Name = "x"
		ps, fs, _ := verifCatch(func() { set(bad) })
		verifAssert(verifAnd(ps, !fs), "a wrong parameter name panics")
	}
	verifReach("end")
}
