package distuv

// C11 (decidable core): the algebraic laws - Uniform, Triangle, Bernoulli,
// Categorical. Model R: parameters, arguments and probabilities are exact
// reals; math.Sqrt is the exact root. Everything transcendental is outside.

// verifC11src is a rand.Source (math/rand/v2) returning one fixed word.
type verifC11src struct{ v uint64 }

func (s *verifC11src) Uint64() uint64 { return s.v }

// verifC11unit is the float64 rand.New(src).Float64() derives from word v.
func verifC11unit(v uint64) float64 { return float64(v<<11>>11) / (1 << 53) }

func verifC11near(a, b, scale float64, msg string) {
	// closed forms containing rounded literal constants (1.0/12.0): relative 1e-15
	d := a - b
	tol := 1e-15 * scale
	verifAssert(verifAnd(d <= tol, -tol <= d), msg)
}

func verifC11uniform() Uniform {
	u := Uniform{Min: verifFloat("min"), Max: verifFloat("max")}
	verifAssume(u.Min < u.Max)
	return u
}

// VerifC11_UniformLaw: CDF/Survival/Prob/Quantile describe one law.
func VerifC11_UniformLaw() {
	u := verifC11uniform()
	x1, x2 := verifFloat("x1"), verifFloat("x2")
	p := verifFloat("p")
	verifAssume(x1 <= x2)
	verifAssume(verifAnd(0 <= p, p <= 1))
	c1, c2 := u.CDF(x1), u.CDF(x2)
	verifAssert(c1 <= c2, "CDF non-decreasing")
	verifAssert(verifAnd(0 <= c1, c1 <= 1), "CDF within [0,1]")
	verifAssertEqF(u.CDF(u.Min), 0, "CDF(Min) = 0")
	verifAssertEqF(u.CDF(u.Max), 1, "CDF(Max) = 1")
	verifAssertEqF(u.Survival(x1), 1-c1, "Survival = 1 - CDF")
	pr := u.Prob(x1)
	verifAssert(pr >= 0, "Prob >= 0")
	if x1 >= u.Min && x1 <= u.Max {
		verifAssertEqF(u.Quantile(c1), x1, "Quantile(CDF(x)) = x on the support")
		verifAssertEqF(pr*(x1-u.Min), c1, "the constant density integrates to the CDF")
		verifAssertEqF(pr*(u.Max-u.Min), 1, "the density integrates to 1")
	} else {
		verifAssertEqF(pr, 0, "Prob = 0 outside the support")
	}
	q := u.Quantile(p)
	verifAssert(verifAnd(u.Min <= q, q <= u.Max), "Quantile within the support")
	verifAssertEqF(u.CDF(q), p, "CDF(Quantile(p)) = p")
	verifReach("end")
}

// VerifC11_UniformMoments: closed forms against their definitions.
func VerifC11_UniformMoments() {
	u := verifC11uniform()
	w := u.Max - u.Min
	verifAssertEqF(u.Mean(), (u.Min+u.Max)/2, "Mean = (Min+Max)/2")
	verifAssertEqF(u.Median(), u.Quantile(0.5), "Median = Quantile(1/2)")
	// Var = int (x-mean)^2 / w dx = w^2/12
	verifC11near(u.Variance()*12, w*w, w*w, "Variance = (Max-Min)^2/12")
	sd := u.StdDev()
	verifAssert(sd >= 0, "StdDev >= 0")
	verifAssertEqF(sd*sd, u.Variance(), "StdDev^2 = Variance")
	verifAssertEqF(u.Skewness(), 0, "Skewness = 0")
	verifAssert(u.NumParameters() == 2, "two parameters")
	verifReach("end")
}

// VerifC11_UniformQuantilePanics: Quantile panics exactly outside [0,1].
func VerifC11_UniformQuantilePanics() {
	u := verifC11uniform()
	p := verifFloat("p")
	panicked, fault, _ := verifCatch(func() { u.Quantile(p) })
	verifAssert(!fault, "no runtime fault")
	verifAssert(verifIff(panicked, verifOr(p < 0, p > 1)), "Quantile panics iff p outside [0,1]")
	verifReach("end")
}

// VerifC11_UniformRand: with the source stubbed to an arbitrary word, Rand is
// Quantile(r) for the r in [0,1) derived from it and lies in [Min, Max).
func VerifC11_UniformRand() {
	u := verifC11uniform()
	v := verifUint64("word")
	u.Src = &verifC11src{v}
	r := verifC11unit(v)
	x := u.Rand()
	verifAssert(verifAnd(0 <= r, r < 1), "stub value in [0,1)")
	verifAssertEqF(x, u.Quantile(r), "Rand = Quantile(r) (inversion)")
	verifAssert(verifAnd(u.Min <= x, x < u.Max), "Rand within [Min, Max)")
	verifReach("end")
}

func verifC11triangle() Triangle {
	a, b, c := verifFloat("a"), verifFloat("b"), verifFloat("c")
	verifAssume(verifAnd(a < b, verifAnd(a <= c, c <= b)))
	return NewTriangle(a, b, c, nil)
}

// VerifC11_TriangleLaw
func VerifC11_TriangleLaw() {
	t := verifC11triangle()
	x1, x2 := verifFloat("x1"), verifFloat("x2")
	verifAssume(x1 <= x2)
	c1, c2 := t.CDF(x1), t.CDF(x2)
	verifAssert(c1 <= c2, "CDF non-decreasing")
	verifAssert(verifAnd(0 <= c1, c1 <= 1), "CDF within [0,1]")
	verifAssertEqF(t.CDF(t.a), 0, "CDF(a) = 0")
	verifAssertEqF(t.CDF(t.b), 1, "CDF(b) = 1")
	verifAssertEqF(t.Survival(x1), 1-c1, "Survival = 1 - CDF")
	pr := t.Prob(x1)
	verifAssert(pr >= 0, "Prob >= 0")
	switch {
	case x1 < t.a || x1 > t.b:
		verifAssertEqF(pr, 0, "Prob = 0 outside the support")
	case x1 < t.c:
		verifAssertEqF((x1-t.a)*pr/2, c1, "rising part: density integrates to the CDF")
	case x1 > t.c:
		verifAssertEqF((t.b-x1)*pr/2, 1-c1, "falling part: density integrates to the survival function")
	default:
		verifAssertEqF(pr*(t.b-t.a), 2, "peak density 2/(b-a)")
	}
	verifReach("end")
}

// VerifC11_TriangleQuantile: Quantile and CDF are mutually inverse.
func VerifC11_TriangleQuantile() {
	t := verifC11triangle()
	if verifChoose("direction", 0, 1) == 0 {
		x := verifFloat("x")
		verifAssume(verifAnd(t.a <= x, x <= t.b))
		verifAssertEqF(t.Quantile(t.CDF(x)), x, "Quantile(CDF(x)) = x on the support")
	} else {
		p := verifFloat("p")
		verifAssume(verifAnd(0 <= p, p <= 1))
		q := t.Quantile(p)
		verifAssert(verifAnd(t.a <= q, q <= t.b), "Quantile within the support")
		verifAssertEqF(t.CDF(q), p, "CDF(Quantile(p)) = p")
	}
	verifReach("end")
}

// VerifC11_TriangleMoments
func VerifC11_TriangleMoments() {
	t := verifC11triangle()
	a, b, c := t.a, t.b, t.c
	verifAssertEqF(t.Mean(), (a+b+c)/3, "Mean = (a+b+c)/3")
	verifAssertEqF(t.Mode(), c, "Mode = c")
	verifAssertEqF(t.Variance()*18, a*a+b*b+c*c-a*b-a*c-b*c, "Variance = (a^2+b^2+c^2-ab-ac-bc)/18")
	m := t.Median()
	verifAssert(verifAnd(a <= m, m <= b), "Median within the support")
	verifAssertEqF(t.CDF(m), 0.5, "CDF(Median) = 1/2")
	sd := t.StdDev()
	verifAssertEqF(sd*sd, t.Variance(), "StdDev^2 = Variance")
	verifAssert(t.NumParameters() == 3, "three parameters")
	verifReach("end")
}

// VerifC11_TriangleValidation: NewTriangle and Quantile panic as documented.
func VerifC11_TriangleValidation() {
	a, b, c := verifFloat("a"), verifFloat("b"), verifFloat("c")
	panicked, fault, _ := verifCatch(func() { NewTriangle(a, b, c, nil) })
	verifAssert(!fault, "no runtime fault")
	verifAssert(verifIff(panicked, verifOr(a >= b, verifOr(a > c, c > b))), "NewTriangle panics iff not (a < b, a <= c <= b)")
	if !panicked {
		t := NewTriangle(a, b, c, nil)
		p := verifFloat("p")
		pq, _, _ := verifCatch(func() { t.Quantile(p) })
		verifAssert(verifIff(pq, verifOr(p < 0, p > 1)), "Quantile panics iff p outside [0,1]")
	}
	verifReach("end")
}

// VerifC11_TriangleRand: Rand = Quantile(r), inside [a,b].
func VerifC11_TriangleRand() {
	a, b, c := verifFloat("a"), verifFloat("b"), verifFloat("c")
	verifAssume(verifAnd(a < b, verifAnd(a <= c, c <= b)))
	v := verifUint64("word")
	t := NewTriangle(a, b, c, &verifC11src{v})
	x := t.Rand()
	verifAssertEqF(x, t.Quantile(verifC11unit(v)), "Rand = Quantile(r) (inversion)")
	verifAssert(verifAnd(a <= x, x <= b), "Rand within [a,b]")
	verifReach("end")
}

// VerifC11_Bernoulli
func VerifC11_Bernoulli() {
	b := Bernoulli{P: verifFloat("P")}
	verifAssume(verifAnd(0 <= b.P, b.P <= 1))
	x1, x2 := verifFloat("x1"), verifFloat("x2")
	p := verifFloat("p")
	verifAssume(x1 <= x2)
	verifAssume(verifAnd(0 <= p, p <= 1))
	c1 := b.CDF(x1)
	verifAssert(c1 <= b.CDF(x2), "CDF non-decreasing")
	verifAssert(verifAnd(0 <= c1, c1 <= 1), "CDF within [0,1]")
	verifAssertEqF(b.Survival(x1), 1-c1, "Survival = 1 - CDF")
	verifAssert(b.Prob(x1) >= 0, "Prob >= 0")
	p0, p1 := b.Prob(0), b.Prob(1)
	verifAssertEqF(p0+p1, 1, "the two atoms sum to 1")
	verifAssert(verifImplies(verifAnd(x1 != 0, x1 != 1), b.Prob(x1) == 0), "no mass off {0,1}")
	// CDF is the sum of the atoms <= x
	sum := verifIteF(x1 >= 0, p0, 0) + verifIteF(x1 >= 1, p1, 0)
	verifAssertEqF(c1, sum, "CDF = sum of Prob over the atoms <= x")
	// generalized inverse: Quantile(p) = min{x : CDF(x) >= p}
	q := b.Quantile(p)
	verifAssert(verifOr(q == 0, q == 1), "Quantile in {0,1}")
	verifAssert(b.CDF(q) >= p, "CDF(Quantile(p)) >= p")
	verifAssert(verifImplies(q == 1, b.CDF(0) < p), "Quantile(p) is the least such atom")
	// moments from the atoms
	verifAssertEqF(b.Mean(), 0*p0+1*p1, "Mean = sum k Prob(k)")
	mu := b.Mean()
	verifAssertEqF(b.Variance(), (0-mu)*(0-mu)*p0+(1-mu)*(1-mu)*p1, "Variance = sum (k-mean)^2 Prob(k)")
	m := b.Median()
	verifAssert(verifAnd(b.CDF(m) >= 0.5, 1-b.CDF(m)+b.Prob(m) >= 0.5), "Median: P(X<=m) >= 1/2 and P(X>=m) >= 1/2")
	sd := b.StdDev()
	verifAssertEqF(sd*sd, b.Variance(), "StdDev^2 = Variance")
	verifReach("end")
}

// VerifC11_BernoulliRandAndPanics
func VerifC11_BernoulliRandAndPanics() {
	b := Bernoulli{P: verifFloat("P")}
	verifAssume(verifAnd(0 <= b.P, b.P <= 1))
	v := verifUint64("word")
	b.Src = &verifC11src{v}
	r := verifC11unit(v)
	x := b.Rand()
	verifAssert(verifOr(x == 0, x == 1), "Rand in {0,1}")
	verifAssert(verifIff(x == 1, r < b.P), "Rand = 1 iff r < P (so P(Rand=1) = P)")
	p := verifFloat("p")
	pq, _, _ := verifCatch(func() { b.Quantile(p) })
	verifAssert(verifIff(pq, verifOr(p < 0, p > 1)), "Quantile panics iff p outside [0,1]")
	verifReach("end")
}

// --- Categorical ---

// verifC11heapOK: heap[i] = weights[i] + heap[2i+1] + heap[2i+2].
func verifC11heapOK(c Categorical) bool {
	n := len(c.weights)
	ok := true
	for i := 0; i < n; i++ {
		s := c.weights[i]
		if 2*i+1 < n {
			s += c.heap[2*i+1]
		}
		if 2*i+2 < n {
			s += c.heap[2*i+2]
		}
		ok = verifAnd(ok, c.heap[i] == s)
	}
	return ok
}

// verifC11cat: arbitrary valid state: non-negative weights, heap satisfying
// the invariant, positive total.
func verifC11cat(n int) Categorical {
	c := Categorical{weights: verifFloats("w", n), heap: verifFloats("heap", n)}
	for i := range c.weights {
		verifAssume(c.weights[i] >= 0)
	}
	verifAssume(verifC11heapOK(c))
	verifAssume(c.heap[0] > 0)
	return c
}

// VerifC11_CategoricalNew: NewCategorical establishes the invariant, the root
// is the sum of the weights, input not modified; panics iff a weight is
// negative or the sum is not positive.
func VerifC11_CategoricalNew() {
	n := verifChoose("n", 1, verifParam("catn", 7))
	w := verifFloats("w", n)
	w0 := append([]float64(nil), w...)
	var c Categorical
	panicked, fault, _ := verifCatch(func() { c = NewCategorical(w, nil) })
	verifAssert(!fault, "no runtime fault")
	neg := false
	var sum float64
	for i := range w0 {
		neg = verifOr(neg, w0[i] < 0)
		sum += w0[i]
	}
	verifAssert(verifIff(panicked, verifOr(neg, sum <= 0)), "panics iff a weight is negative or the sum is not positive")
	if !panicked {
		verifAssert(verifC11heapOK(c), "heap invariant established")
		verifAssertEqF(c.heap[0], sum, "root = sum of the weights")
		verifAssert(c.Len() == n, "Len")
		for i := range w {
			verifAssert(verifAnd(verifSame(w[i], w0[i]), verifSame(c.weights[i], w0[i])), "weights copied, input unchanged")
		}
	}
	verifReach("end")
}

// VerifC11_CategoricalReweight: one inductive step - from an arbitrary valid
// state Reweight(idx, w) restores the invariant for EVERY idx, changes only
// weights[idx] and updates the total; panics iff w < 0 or the new total <= 0.
func VerifC11_CategoricalReweight() {
	n := verifChoose("n", 1, verifParam("catn", 7))
	idx := verifChoose("idx", 0, n-1)
	c := verifC11cat(n)
	w0 := append([]float64(nil), c.weights...)
	total0 := c.heap[0]
	nw := verifFloat("neww")
	panicked, fault, _ := verifCatch(func() { c.Reweight(idx, nw) })
	verifAssert(!fault, "no runtime fault")
	newTotal := total0 - w0[idx] + nw
	verifAssert(verifIff(panicked, verifOr(nw < 0, newTotal <= 0)), "panics iff w < 0 or the new total is not positive")
	if !panicked {
		verifAssert(verifC11heapOK(c), "heap invariant restored")
		verifAssertEqF(c.heap[0], newTotal, "total updated")
		for i := range w0 {
			if i == idx {
				verifAssert(verifSame(c.weights[i], nw), "weights[idx] = w")
			} else {
				verifAssert(verifSame(c.weights[i], w0[i]), "other weights unchanged")
			}
		}
	}
	verifReach("end")
}

// VerifC11_CategoricalSums: CDF / Prob / Mean equal their defining sums.
func VerifC11_CategoricalSums() {
	n := verifChoose("n", 1, verifParam("catsumn", 5))
	c := verifC11cat(n)
	total := c.heap[0]
	x1, x2 := verifFloat("x1"), verifFloat("x2")
	verifAssume(x1 <= x2)
	var s1, s2, mean, all float64
	for i := 0; i < n; i++ {
		s1 += verifIteF(float64(i) <= x1, c.weights[i], 0)
		s2 += verifIteF(float64(i) <= x2, c.weights[i], 0)
		mean += float64(i) * c.weights[i]
		all += c.weights[i]
		pk := c.Prob(float64(i))
		verifAssertEqF(pk*total, c.weights[i], "Prob(k) = w_k / total")
		verifAssert(pk >= 0, "Prob >= 0")
		verifAssertEqF(c.Prob(float64(i)+0.5), 0, "no mass between the atoms")
	}
	verifAssertEqF(all, total, "root of a valid heap = sum of the weights")
	verifAssertEqF(c.Prob(-1), 0, "no mass below 0")
	verifAssertEqF(c.Prob(float64(n)), 0, "no mass above n-1")
	c1, c2 := c.CDF(x1), c.CDF(x2)
	verifAssertEqF(c1*total, s1, "CDF(x) = sum_{k<=x} w_k / total")
	verifAssert(c1 <= c2, "CDF non-decreasing")
	verifAssert(verifAnd(0 <= c1, c1 <= 1), "CDF within [0,1]")
	verifAssertEqF(c.CDF(float64(n-1)), 1, "CDF(n-1) = 1")
	verifAssertEqF(c.Mean()*total, mean, "Mean = sum k w_k / total")
	verifReach("end")
}

// VerifC11_CategoricalRand: from an arbitrary valid state and an arbitrary
// random word, the heap descent never faults, never reaches "bad sample",
// returns an index in range whose weight is positive (for r > 0), and the
// index is exactly the one whose cumulative-weight interval (in heap/tree
// pre-order) contains r - checked here through the weaker, order-free facts
// above plus: an index of weight 0 is never returned when r > 0.
func VerifC11_CategoricalRand() {
	n := verifChoose("n", 1, verifParam("catn", 7))
	c := verifC11cat(n)
	v := verifUint64("word")
	c.src = &verifC11src{v}
	r := verifC11unit(v)
	var x float64
	panicked, fault, msg := verifCatch(func() { x = c.Rand() })
	verifAssert(!fault, "descent never indexes out of range")
	verifAssert(!panicked, "never reaches 'categorical: bad sample'")
	_ = msg
	if !panicked {
		k := -1
		for i := 0; i < n; i++ {
			if x == float64(i) {
				k = i
			}
		}
		verifAssert(k >= 0, "Rand returns an index in 0..n-1")
		if k >= 0 {
			verifAssert(verifImplies(r > 0, c.weights[k] > 0), "the returned index has positive weight (r > 0)")
		}
	}
	verifReach("end")
}

// VerifC11_CategoricalReweightThenRand: composition of the two steps - after a
// successful Reweight from an arbitrary valid state, Rand with an arbitrary
// random word still lands on an index in range with positive weight.
func VerifC11_CategoricalReweightThenRand() {
	n := verifChoose("n", 2, verifParam("catrrn", 6))
	idx := verifChoose("idx", 0, n-1)
	c := verifC11cat(n)
	nw := verifFloat("neww")
	v := verifUint64("word")
	c.src = &verifC11src{v}
	r := verifC11unit(v)
	verifAssume(r > 0)
	if p, _, _ := verifCatch(func() { c.Reweight(idx, nw) }); p {
		return
	}
	var x float64
	panicked, fault, _ := verifCatch(func() { x = c.Rand() })
	verifAssert(!fault, "descent never indexes out of range")
	verifAssert(!panicked, "never reaches 'categorical: bad sample'")
	if !panicked {
		k := -1
		for i := 0; i < n; i++ {
			if x == float64(i) {
				k = i
			}
		}
		verifAssert(k >= 0, "Rand returns an index in 0..n-1")
		if k >= 0 {
			verifAssert(c.weights[k] > 0, "the returned index has positive weight")
		}
	}
	verifReach("end")
}
