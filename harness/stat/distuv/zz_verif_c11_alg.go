package distuv

// C11, algebraic sub-claims of the transcendental laws. Model R: parameters,
// data, weights and strengths are exact reals; math.Sqrt is the exact root;
// math.Exp/Log/Lgamma/Gamma/Pow(non-integer) of symbolic values are
// uninterpreted functions, so only statements in which they cancel or appear
// identically on both sides are made.

import "math"

func verifC11aName(p string, i int) string { return p + string(rune('0'+i)) }

// verifC11aAxiom assumes one INSTANCE of a defining relation of an
// uninterpreted function (exp(log y) = y, expm1(y) = exp(y) - 1, exp > 0 ...)
// in the engine. Natively the relation holds up to rounding only, so it is
// not turned into a replay precondition there.
func verifC11aAxiom(c bool) {
	if verifInEngine() {
		verifAssume(c)
	}
}

// verifC11aSqrt replaces math.Sqrt (engine only; natively the stub call is a
// no-op and the real math.Sqrt runs) by its definition with one fresh real per
// call: r >= 0 and r*r = x whenever x >= 0, r unconstrained for x < 0. This is
// the engine's own model of the exact square root, but without an
// uninterpreted function symbol in the query: z3 decides the pure polynomial
// problem at once and gives up on the same problem with uf_sqrt in it.
func verifC11aSqrt() {
	cnt := 0
	verifStubFunc("math.Sqrt", func(x float64) float64 {
		r := verifFloat(verifC11aName("sqrt#", cnt))
		cnt++
		verifAssume(verifImplies(x >= 0, verifAnd(r >= 0, r*r == x)))
		return r
	})
}

// verifC11aNormalPrior: a Normal prior with strengths k0 (mean) and k1 (sd).
func verifC11aNormalPrior() (Normal, float64, float64) {
	n := Normal{Mu: verifFloat("mu0"), Sigma: verifFloat("sigma0")}
	k0, k1 := verifFloat("k0"), verifFloat("k1")
	verifAssume(verifAnd(k0 >= 0, k1 >= 0))
	verifAssume(n.Sigma >= 0)
	return n, k0, k1
}

// VerifC11_NormalConjugateClosedForm: the posterior of ConjugateUpdate is the
// one documented: the prior is k0 pseudo-observations with mean Mu and k1
// pseudo-observations with (uncorrected) standard deviation Sigma; the data are
// n observations with mean m and uncorrected standard deviation s. Hence
//
//	Mu'  = (n m + k0 Mu) / (n + k0)
//	(n + k1) Sigma'^2 = n s^2 + k1 Sigma^2 + n (m - Mu')^2 + k0 (Mu - Mu')^2
//
// (sum of squares of all real and pseudo observations about the new mean) and
// the strengths become k0 + n, k1 + n.
func VerifC11_NormalConjugateClosedForm() {
	verifC11aSqrt()
	nd, k0, k1 := verifC11aNormalPrior()
	mu0, sg0 := nd.Mu, nd.Sigma
	m, s, n := verifFloat("m"), verifFloat("s"), verifFloat("n")
	verifAssume(verifAnd(s >= 0, n >= 0))
	verifAssume(verifAnd(n+k0 > 0, n+k1 > 0))
	str := []float64{k0, k1}
	nd.ConjugateUpdate([]float64{m, s}, n, str)
	verifAssertEqF(nd.Mu*(n+k0), n*m+k0*mu0, "posterior mean is the pooled mean of data and k0 pseudo-observations")
	ss := n*s*s + k1*sg0*sg0 + n*(m-nd.Mu)*(m-nd.Mu) + k0*(mu0-nd.Mu)*(mu0-nd.Mu)
	verifAssert(nd.Sigma >= 0, "posterior Sigma >= 0")
	verifAssertEqF(nd.Sigma*nd.Sigma*(n+k1), ss, "posterior variance is the pooled sum of squares about the posterior mean over n + k1")
	verifAssertEqF(str[0], k0+n, "mean strength grows by n")
	verifAssertEqF(str[1], k1+n, "sd strength grows by n")
	verifReach("end")
}

// VerifC11_NormalConjugateAdditive: the same posterior in raw-moment form. A
// state (Mu, Sigma, k0, k1) stands for the pseudo-sums (k0, k0 Mu) and
// (k1, k1 Sigma^2 + k0 Mu^2); a batch (m, s, n) contributes n, n m and
// n (s^2 + m^2), and ConjugateUpdate must ADD them. Pooling two batches adds
// exactly these three sums, so additivity is batch consistency for arbitrary
// real batch sizes (the direct two-batch harness below case-splits the sizes).
func VerifC11_NormalConjugateAdditive() {
	verifC11aSqrt()
	nd, k0, k1 := verifC11aNormalPrior()
	mu0, sg0 := nd.Mu, nd.Sigma
	m, s, n := verifFloat("m"), verifFloat("s"), verifFloat("n")
	verifAssume(verifAnd(s >= 0, n >= 0))
	verifAssume(verifAnd(n+k0 > 0, n+k1 > 0))
	str := []float64{k0, k1}
	nd.ConjugateUpdate([]float64{m, s}, n, str)
	verifAssertEqF(str[0], k0+n, "count of mean pseudo-observations: + n")
	verifAssertEqF(str[1], k1+n, "count of sd pseudo-observations: + n")
	verifAssertEqF(str[0]*nd.Mu, k0*mu0+n*m, "pseudo-sum: + n m")
	verifAssertEqF(str[1]*nd.Sigma*nd.Sigma+str[0]*nd.Mu*nd.Mu, k1*sg0*sg0+k0*mu0*mu0+n*(s*s+m*m), "raw second moment sum: + n (s^2 + m^2)")
	verifReach("end")
}

// verifC11aRoots records the calls of math.Sqrt made while it is stubbed by
// verifC11aSqrtRec: r[i] is the fresh real returned for radicand x[i]. Nothing
// is assumed about r[i] until define(i) is called, so that the square roots a
// statement does not need stay out of the solver's problem (z3's nonlinear
// core does not terminate on the two-batch identity otherwise).
type verifC11aRoots struct{ r, x []float64 }

func verifC11aSqrtRec() *verifC11aRoots {
	rec := &verifC11aRoots{}
	verifStubFunc("math.Sqrt", func(x float64) float64 {
		r := verifFloat(verifC11aName("sqrt#", len(rec.r)))
		rec.r = append(rec.r, r)
		rec.x = append(rec.x, x)
		return r
	})
	return rec
}

// define makes r[i] the exact root: the radicand must be >= 0 (asserted), then
// r >= 0 and r*r = x.
func (rec *verifC11aRoots) define(i int) {
	verifAssert(rec.x[i] >= 0, "square root of a non-negative value")
	verifAssume(verifAnd(rec.r[i] >= 0, rec.r[i]*rec.r[i] == rec.x[i]))
}

// verifC11aStdDev asserts StdDev >= 0 and StdDev^2 = Variance. In the engine,
// when StdDev() is a single math.Sqrt (the usual sqrt(Variance())), the claim
// is made on the radicand: radicand >= 0 and radicand = Variance.
func verifC11aStdDev(sd func() float64, variance float64, msg string) {
	if !verifInEngine() {
		s := sd()
		verifAssert(s >= 0, msg+": StdDev >= 0")
		verifAssertEqF(s*s, variance, msg+": StdDev^2 = Variance")
		return
	}
	rec := verifC11aSqrtRec()
	s := sd()
	if len(rec.r) == 1 && verifSame(s, rec.r[0]) {
		verifAssert(rec.x[0] >= 0, msg+": StdDev >= 0 (radicand >= 0)")
		verifAssertEqF(rec.x[0], variance, msg+": StdDev^2 = Variance")
	} else {
		for i := range rec.r {
			rec.define(i)
		}
		verifAssert(s >= 0, msg+": StdDev >= 0")
		verifAssertEqF(s*s, variance, msg+": StdDev^2 = Variance")
	}
	verifC11aSqrt()
}

// verifC11aPool pools two batches (mean, uncorrected sd, count) into one.
func verifC11aPool(m1, s1, n1, m2, s2, n2 float64) (m, s, n float64) {
	n = n1 + n2
	m = (n1*m1 + n2*m2) / n
	v := (n1*(s1*s1+(m1-m)*(m1-m)) + n2*(s2*s2+(m2-m)*(m2-m))) / n
	return m, math.Sqrt(v), n
}

// VerifC11_NormalConjugateBatch: two successive updates equal one update with
// the pooled sufficient statistics (same Mu, Sigma and strengths). The batch
// sizes are case-split over 1..nbatch, everything else (prior, both strengths,
// batch means and standard deviations) is symbolic. In the engine the two
// posterior Sigmas are compared through their radicands (both are the
// non-negative root, so equal radicands is the same statement).
func VerifC11_NormalConjugateBatch() {
	nb := verifParam("nbatch", 3)
	n1 := float64(verifChoose("n1", 1, nb))
	n2 := float64(verifChoose("n2", 1, nb))
	rec := verifC11aSqrtRec()
	a, k0, k1 := verifC11aNormalPrior()
	b := a
	m1, s1 := verifFloat("m1"), verifFloat("s1")
	m2, s2 := verifFloat("m2"), verifFloat("s2")
	verifAssume(verifAnd(s1 >= 0, s2 >= 0))
	sa := []float64{k0, k1}
	a.ConjugateUpdate([]float64{m1, s1}, n1, sa)
	if verifInEngine() {
		rec.define(0)
	}
	a.ConjugateUpdate([]float64{m2, s2}, n2, sa)
	m, s, n := verifC11aPool(m1, s1, n1, m2, s2, n2)
	if verifInEngine() {
		rec.define(2)
	}
	sb := []float64{k0, k1}
	b.ConjugateUpdate([]float64{m, s}, n, sb)
	verifAssertEqF(a.Mu, b.Mu, "Mu: two batches = one pooled batch")
	if verifInEngine() {
		verifAssert(len(rec.r) == 4, "four square roots were taken")
		verifAssert(verifAnd(a.Sigma == rec.r[1], b.Sigma == rec.r[3]), "the posterior Sigmas are the square roots taken")
		verifAssert(verifAnd(rec.x[1] >= 0, rec.x[3] >= 0), "posterior variances >= 0")
		verifAssertEqF(rec.x[1], rec.x[3], "Sigma^2: two batches = one pooled batch")
	} else {
		verifAssertEqF(a.Sigma, b.Sigma, "Sigma: two batches = one pooled batch")
	}
	verifAssertEqF(sa[0], sb[0], "mean strength: two batches = one pooled batch")
	verifAssertEqF(sa[1], sb[1], "sd strength: two batches = one pooled batch")
	verifReach("end")
}

// VerifC11_NormalConjugateNoData: an update with zero observations returns the
// prior (strengths > 0) and leaves the strengths alone.
func VerifC11_NormalConjugateNoData() {
	nd, k0, k1 := verifC11aNormalPrior()
	mu0, sg0 := nd.Mu, nd.Sigma
	verifAssume(verifAnd(k0 > 0, k1 > 0))
	str := []float64{k0, k1}
	nd.ConjugateUpdate([]float64{verifFloat("m"), verifFloat("s")}, 0, str)
	verifAssertEqF(nd.Mu, mu0, "no data: Mu unchanged")
	verifAssertEqF(nd.Sigma, sg0, "no data: Sigma unchanged")
	verifAssertEqF(str[0], k0, "no data: mean strength unchanged")
	verifAssertEqF(str[1], k1, "no data: sd strength unchanged")
	verifReach("end")
}

// VerifC11_NormalConjugatePanics: documented length panics, nothing else.
func VerifC11_NormalConjugatePanics() {
	ls := verifChoose("lensuff", 0, 3)
	lp := verifChoose("lenprior", 0, 3)
	nd, _, _ := verifC11aNormalPrior()
	suff := verifFloats("suff", ls)
	str := verifFloats("str", lp)
	for i := range str {
		verifAssume(str[i] > 0)
	}
	n := verifFloat("n")
	verifAssume(n >= 0)
	panicked, fault, _ := verifCatch(func() { nd.ConjugateUpdate(suff, n, str) })
	verifAssert(!fault, "no runtime fault")
	verifAssert(panicked == (ls != 2 || lp != 2), "panics iff a length differs from NumSuffStat")
	verifReach("end")
}

// VerifC11_ExponentialConjugate: prior = k pseudo-observations with inverse
// mean Rate (total "time" k/Rate); data = n observations with inverse mean r
// (total time n/r). Posterior rate = (n + k) / (n/r + k/Rate); strength k + n.
// Batch consistency and the no-data case are asserted as well.
func VerifC11_ExponentialConjugate() {
	rate0, k := verifFloat("rate0"), verifFloat("k")
	verifAssume(verifAnd(rate0 > 0, k >= 0))
	r1, n1 := verifFloat("r1"), verifFloat("n1")
	r2, n2 := verifFloat("r2"), verifFloat("n2")
	verifAssume(verifAnd(r1 > 0, r2 > 0))
	verifAssume(verifAnd(n1 > 0, n2 > 0))
	switch verifChoose("claim", 0, 2) {
	case 0: // closed form
		e := Exponential{Rate: rate0}
		str := []float64{k}
		e.ConjugateUpdate([]float64{r1}, n1, str)
		verifAssertEqF(e.Rate*(n1/r1+k/rate0), n1+k, "posterior rate = total count / total time")
		verifAssert(e.Rate > 0, "posterior rate > 0")
		verifAssertEqF(str[0], k+n1, "strength grows by n")
	case 1: // batches
		a, b := Exponential{Rate: rate0}, Exponential{Rate: rate0}
		sa, sb := []float64{k}, []float64{k}
		a.ConjugateUpdate([]float64{r1}, n1, sa)
		a.ConjugateUpdate([]float64{r2}, n2, sa)
		n := n1 + n2
		mean := (n1/r1 + n2/r2) / n
		b.ConjugateUpdate([]float64{1 / mean}, n, sb)
		verifAssertEqF(a.Rate, b.Rate, "Rate: two batches = one pooled batch")
		verifAssertEqF(sa[0], sb[0], "strength: two batches = one pooled batch")
	case 2: // no data
		verifAssume(k > 0)
		e := Exponential{Rate: rate0}
		str := []float64{k}
		e.ConjugateUpdate([]float64{r1}, 0, str)
		verifAssertEqF(e.Rate, rate0, "no data: Rate unchanged")
		verifAssertEqF(str[0], k, "no data: strength unchanged")
	}
	verifReach("end")
}

// VerifC11_ExponentialConjugatePanics: documented length panics.
func VerifC11_ExponentialConjugatePanics() {
	ls := verifChoose("lensuff", 0, 2)
	lp := verifChoose("lenprior", 0, 2)
	e := Exponential{Rate: verifFloat("rate0")}
	verifAssume(e.Rate > 0)
	suff := verifFloats("suff", ls)
	str := verifFloats("str", lp)
	for i := range suff {
		verifAssume(suff[i] > 0)
	}
	for i := range str {
		verifAssume(str[i] > 0)
	}
	n := verifFloat("n")
	verifAssume(n >= 0)
	panicked, fault, _ := verifCatch(func() { e.ConjugateUpdate(suff, n, str) })
	verifAssert(!fault, "no runtime fault")
	verifAssert(panicked == (ls != 1 || lp != 1), "panics iff a length differs from NumSuffStat")
	verifReach("end")
}

// verifC11aSample returns n symbolic samples and, for weighted == true, n
// symbolic weights >= 0 with a positive sum (nil otherwise), together with the
// weights actually meant (ones for nil) and their sum.
func verifC11aSample(n int, weighted bool) (x, w, weff []float64, sum float64) {
	x = verifFloats("x", n)
	weff = make([]float64, n)
	if weighted {
		w = verifFloats("w", n)
		for i := range w {
			verifAssume(w[i] >= 0)
			weff[i] = w[i]
			sum += w[i]
		}
		verifAssume(sum > 0)
		return x, w, weff, sum
	}
	for i := range weff {
		weff[i] = 1
	}
	return x, nil, weff, float64(n)
}

// VerifC11_NormalFit: Fit returns the maximiser of the weighted likelihood:
// sum w = W, W Mu = sum w x, W Sigma^2 = sum w (x - Mu)^2, Sigma >= 0.
// n = 1..nfit samples, symbolic samples and weights (and nil weights). The
// receiver's old parameters are arbitrary and must not matter. (In the engine
// Sigma^2 is read off the radicand of the square root that produced Sigma.)
func VerifC11_NormalFit() {
	rec := verifC11aSqrtRec()
	n := verifChoose("n", 1, verifParam("nfit", 3))
	x, w, weff, sum := verifC11aSample(n, verifChoose("weighted", 0, 1) == 1)
	nd := Normal{Mu: verifFloat("oldmu"), Sigma: verifFloat("oldsigma")}
	nd.Fit(x, w)
	var sx, sxx float64
	for i := range x {
		sx += weff[i] * x[i]
		sxx += weff[i] * (x[i] - nd.Mu) * (x[i] - nd.Mu)
	}
	verifAssertEqF(nd.Mu*sum, sx, "Mu is the weighted mean")
	if verifInEngine() {
		verifAssert(len(rec.r) == 2, "two square roots: the sample sd and the posterior Sigma")
		rec.define(0)
		verifAssert(nd.Sigma == rec.r[1], "Sigma is the second square root")
		verifAssert(rec.x[1] >= 0, "Sigma^2 >= 0")
		verifAssertEqF(rec.x[1]*sum, sxx, "Sigma^2 is the weighted mean squared deviation from Mu (uncorrected)")
	} else {
		verifAssert(nd.Sigma >= 0, "Sigma >= 0")
		verifAssertEqF(nd.Sigma*nd.Sigma*sum, sxx, "Sigma^2 is the weighted mean squared deviation from Mu (uncorrected)")
	}
	verifReach("end")
}

// VerifC11_NormalFitScore: Fit and Score agree: at the fitted parameters
// (Sigma > 0) the likelihood equations hold with the law's own Score:
// sum w_i Score(x_i) = 0 in both coordinates.
func VerifC11_NormalFitScore() {
	verifC11aSqrt()
	n := verifChoose("n", 2, verifParam("nfitscore", 3))
	x, w, weff, _ := verifC11aSample(n, verifChoose("weighted", 0, 1) == 1)
	nd := Normal{}
	nd.Fit(x, w)
	verifAssume(nd.Sigma > 0)
	var g0, g1 float64
	for i := range x {
		d := nd.Score(nil, x[i])
		g0 += weff[i] * d[0]
		g1 += weff[i] * d[1]
	}
	verifAssertEqF(g0, 0, "likelihood equation d/dMu: sum w Score(x)[0] = 0")
	verifAssertEqF(g1, 0, "likelihood equation d/dSigma: sum w Score(x)[1] = 0")
	verifReach("end")
}

// VerifC11_NormalFitInvariance: unit weights give the same fit as nil weights,
// and the fit does not depend on the order of the (sample, weight) pairs.
func VerifC11_NormalFitInvariance() {
	verifC11aSqrt()
	n := verifChoose("n", 1, verifParam("nfit", 3))
	x, w, _, _ := verifC11aSample(n, true)
	a, b := Normal{}, Normal{}
	if verifChoose("claim", 0, 1) == 0 {
		for i := range w {
			verifAssume(w[i] == 1)
		}
		a.Fit(x, w)
		b.Fit(x, nil)
		verifAssertEqF(a.Mu, b.Mu, "Mu: unit weights = nil weights")
		verifAssertEqF(a.Sigma, b.Sigma, "Sigma: unit weights = nil weights")
	} else {
		i, j := verifChoose("i", 0, n-1), verifChoose("j", 0, n-1)
		verifAssume(i < j)
		a.Fit(x, w)
		x2, w2 := append([]float64(nil), x...), append([]float64(nil), w...)
		x2[i], x2[j] = x2[j], x2[i]
		w2[i], w2[j] = w2[j], w2[i]
		b.Fit(x2, w2)
		verifAssertEqF(a.Mu, b.Mu, "Mu: order of the samples does not matter")
		verifAssertEqF(a.Sigma*a.Sigma, b.Sigma*b.Sigma, "Sigma^2: order of the samples does not matter")
	}
	verifReach("end")
}

// VerifC11_NormalScore: Score and ScoreInput are the derivatives of
// log p = -log(sqrt(2 pi)) - log(Sigma) - (x-Mu)^2 / (2 Sigma^2) written out:
// d/dMu = (x-Mu)/Sigma^2, d/dSigma = -1/Sigma + (x-Mu)^2/Sigma^3,
// d/dx = -(x-Mu)/Sigma^2; documented length panic; in-place storage.
func VerifC11_NormalScore() {
	nd := Normal{Mu: verifFloat("mu"), Sigma: verifFloat("sigma")}
	verifAssume(nd.Sigma > 0)
	x := verifFloat("x")
	s2 := nd.Sigma * nd.Sigma
	d := nd.Score(nil, x)
	verifAssert(len(d) == 2, "two derivatives")
	verifAssertEqF(d[0]*s2, x-nd.Mu, "dLogProb/dMu = (x-Mu)/Sigma^2")
	verifAssertEqF(d[1]*s2*nd.Sigma, (x-nd.Mu)*(x-nd.Mu)-s2, "dLogProb/dSigma = ((x-Mu)^2 - Sigma^2)/Sigma^3")
	verifAssertEqF(nd.ScoreInput(x)*s2, nd.Mu-x, "dLogProb/dx = -(x-Mu)/Sigma^2")
	verifAssertEqF(nd.ScoreInput(x), -d[0], "location family: d/dx = -d/dMu")
	buf := make([]float64, 2)
	got := nd.Score(buf, x)
	verifAssert(verifAnd(buf[0] == d[0], buf[1] == d[1]), "derivative stored in place")
	verifAssert(&got[0] == &buf[0], "the given slice is returned")
	l := verifChoose("badlen", 1, 3)
	if l != 2 {
		panicked, fault, _ := verifCatch(func() { nd.Score(make([]float64, l), x) })
		verifAssert(verifAnd(panicked, !fault), "Score panics when len(deriv) != NumParameters")
	}
	verifReach("end")
}

// VerifC11_SuffStatPanics: Normal.SuffStat and Exponential.SuffStat panic as
// documented (weights given with another length than the samples; suffStat of
// the wrong length) and not otherwise; the returned effective sample count is
// the number of samples (nil weights) or the sum of the weights.
func VerifC11_SuffStatPanics() {
	verifC11aSqrt()
	n := verifChoose("n", 1, 2)
	lw := verifChoose("lenw", 0, 3)
	ls := verifChoose("lensuff", 0, 3)
	x := verifFloats("x", n)
	var w []float64
	var sum float64
	if lw > 0 {
		w = verifFloats("w", lw)
		for i := range w {
			verifAssume(w[i] > 0)
			sum += w[i]
		}
	} else {
		sum = float64(n)
	}
	for i := range x {
		verifAssume(x[i] > 0)
	}
	var cnt float64
	if verifChoose("law", 0, 1) == 0 {
		panicked, fault, _ := verifCatch(func() { cnt = Normal{}.SuffStat(make([]float64, ls), x, w) })
		verifAssert(!fault, "Normal.SuffStat: no runtime fault")
		verifAssert(panicked == ((lw != 0 && lw != n) || ls != 2), "Normal.SuffStat panics iff a length is wrong")
		if !panicked {
			verifAssertEqF(cnt, sum, "Normal.SuffStat returns the effective number of samples")
		}
	} else {
		panicked, fault, _ := verifCatch(func() { cnt = Exponential{}.SuffStat(make([]float64, ls), x, w) })
		verifAssert(!fault, "Exponential.SuffStat: no runtime fault")
		verifAssert(panicked == ((lw != 0 && lw != n) || ls != 1), "Exponential.SuffStat panics iff a length is wrong")
		if !panicked {
			verifAssertEqF(cnt, sum, "Exponential.SuffStat returns the effective number of samples")
		}
	}
	verifReach("end")
}

// VerifC11_ExponentialFit: Rate * sum w x = sum w (the maximiser of
// sum w (log Rate - Rate x)); the likelihood equation holds with the law's own
// Score; unit weights = nil weights; order does not matter. Samples > 0.
func VerifC11_ExponentialFit() {
	n := verifChoose("n", 1, verifParam("nfit", 3))
	x, w, weff, sum := verifC11aSample(n, verifChoose("weighted", 0, 1) == 1)
	var sx float64
	for i := range x {
		verifAssume(x[i] > 0)
		sx += weff[i] * x[i]
	}
	e := Exponential{Rate: verifFloat("oldrate")}
	e.Fit(x, w)
	verifAssert(e.Rate > 0, "fitted Rate > 0")
	verifAssertEqF(e.Rate*sx, sum, "Rate = sum w / sum w x")
	var g float64
	for i := range x {
		g += weff[i] * e.Score(nil, x[i])[0]
	}
	verifAssertEqF(g, 0, "likelihood equation: sum w Score(x) = 0")
	if w != nil {
		// same data in another order
		if n >= 2 {
			x2, w2 := append([]float64(nil), x...), append([]float64(nil), w...)
			x2[0], x2[n-1] = x2[n-1], x2[0]
			w2[0], w2[n-1] = w2[n-1], w2[0]
			e2 := Exponential{}
			e2.Fit(x2, w2)
			verifAssertEqF(e2.Rate, e.Rate, "order of the samples does not matter")
		}
	} else {
		ones := make([]float64, n)
		for i := range ones {
			ones[i] = 1
		}
		e2 := Exponential{}
		e2.Fit(x, ones)
		verifAssertEqF(e2.Rate, e.Rate, "unit weights = nil weights")
	}
	verifReach("end")
}

// VerifC11_ExponentialScore: log p = log Rate - Rate x on x > 0, so
// d/dRate = 1/Rate - x and d/dx = -Rate; Score(0) and ScoreInput(0) are NaN
// as documented; documented length panic.
func VerifC11_ExponentialScore() {
	e := Exponential{Rate: verifFloat("rate")}
	verifAssume(e.Rate > 0)
	x := verifFloat("x")
	verifAssume(x >= 0)
	d := e.Score(nil, x)
	verifAssert(len(d) == 1, "one derivative")
	if x > 0 {
		verifAssertEqF(d[0]*e.Rate, 1-x*e.Rate, "dLogProb/dRate = 1/Rate - x")
		verifAssertEqF(e.ScoreInput(x), -e.Rate, "dLogProb/dx = -Rate")
	} else {
		verifAssert(math.IsNaN(d[0]), "Score(0) = [NaN]")
		verifAssert(math.IsNaN(e.ScoreInput(x)), "ScoreInput(0) = NaN")
	}
	buf := make([]float64, 1)
	e.Score(buf, x)
	verifAssert(verifOr(buf[0] == d[0], x == 0), "derivative stored in place")
	panicked, fault, _ := verifCatch(func() { e.Score(make([]float64, 2), x) })
	verifAssert(verifAnd(panicked, !fault), "Score panics when len(deriv) != NumParameters")
	verifReach("end")
}

// verifC11aLaplaceFitCheck: Mu must maximise sum -w |x - Mu| / Scale, i.e. be a
// weighted median (weight strictly below and strictly above at most half the
// total - the subgradient optimality condition), and be one of the samples;
// Scale is the weighted mean absolute deviation from Mu.
func verifC11aLaplaceFitCheck(l Laplace, x, weff []float64, sum float64) {
	var below, above, dev float64
	isSample := false
	for i := range x {
		below += verifIteF(x[i] < l.Mu, weff[i], 0)
		above += verifIteF(x[i] > l.Mu, weff[i], 0)
		dev += weff[i] * verifAbsF(x[i]-l.Mu)
		isSample = verifOr(isSample, x[i] == l.Mu)
	}
	verifAssert(isSample, "Mu is one of the samples")
	verifAssert(2*below <= sum, "Mu is a weighted median: weight below Mu <= half")
	verifAssert(2*above <= sum, "Mu is a weighted median: weight above Mu <= half")
	verifAssertEqF(l.Scale*sum, dev, "Scale is the weighted mean absolute deviation from Mu")
}

// VerifC11_LaplaceFitSorted: Laplace.Fit on samples given in non-decreasing
// order (any weights), or in any order with nil weights.
func VerifC11_LaplaceFitSorted() {
	n := verifChoose("n", 1, verifParam("nfit", 3))
	weighted := verifChoose("weighted", 0, 1) == 1
	x, w, weff, sum := verifC11aSample(n, weighted)
	if weighted {
		for i := 1; i < n; i++ {
			verifAssume(x[i-1] <= x[i])
		}
	}
	l := Laplace{Mu: verifFloat("oldmu"), Scale: verifFloat("oldscale")}
	l.Fit(x, w)
	verifC11aLaplaceFitCheck(l, x, weff, sum)
	verifReach("end")
}

// VerifC11_LaplaceFit: the same statement for samples in ARBITRARY order with
// weights, plus independence of the order. OPEN VIOLATION on the unchanged
// tree (laplace.go: the unsorted branch shadows sortedWeights, the weights are
// dropped from the median), therefore not part of the check spec.
func VerifC11_LaplaceFit() {
	n := verifChoose("n", 2, verifParam("nfit", 3))
	x, w, weff, sum := verifC11aSample(n, true)
	xin, win := append([]float64(nil), x...), append([]float64(nil), w...)
	l := Laplace{}
	l.Fit(x, w)
	for i := range x {
		verifAssert(verifAnd(x[i] == xin[i], w[i] == win[i]), "Fit does not modify its arguments")
	}
	verifC11aLaplaceFitCheck(l, x, weff, sum)
	x2, w2 := append([]float64(nil), x...), append([]float64(nil), w...)
	x2[0], x2[n-1] = x2[n-1], x2[0]
	w2[0], w2[n-1] = w2[n-1], w2[0]
	l2 := Laplace{}
	l2.Fit(x2, w2)
	// the weighted median may be an interval: compare the attained likelihood
	var d1, d2 float64
	for i := range x {
		d1 += w[i] * verifAbsF(x[i]-l.Mu)
		d2 += w[i] * verifAbsF(x[i]-l2.Mu)
	}
	verifAssertEqF(d1, d2, "the same data in another order attain the same likelihood")
	verifReach("end")
}

// VerifC11_LaplaceFitPanics: documented panics of Laplace.Fit.
func VerifC11_LaplaceFitPanics() {
	n := verifChoose("n", 0, 2)
	lw := verifChoose("lenw", 0, 3)
	x := verifFloats("x", n)
	var w []float64
	if lw > 0 {
		w = verifFloats("w", lw)
		for i := range w {
			verifAssume(w[i] > 0)
		}
	}
	l := Laplace{}
	panicked, fault, _ := verifCatch(func() { l.Fit(x, w) })
	verifAssert(!fault, "no runtime fault")
	verifAssert(panicked == ((lw != 0 && lw != n) || n == 0), "Fit panics iff the weights have another length than the samples or there is no sample")
	verifReach("end")
}

// VerifC11_LaplaceScore: log p = -log 2 - log Scale - |x-Mu|/Scale, so
// d/dMu = sign(x-Mu)/Scale, d/dScale = |x-Mu|/Scale^2 - 1/Scale,
// d/dx = -sign(x-Mu)/Scale; documented NaN at x = Mu.
func VerifC11_LaplaceScore() {
	l := Laplace{Mu: verifFloat("mu"), Scale: verifFloat("scale")}
	verifAssume(l.Scale > 0)
	x := verifFloat("x")
	d := l.Score(nil, x)
	verifAssert(len(d) == 2, "two derivatives")
	verifAssertEqF(d[1]*l.Scale*l.Scale, verifAbsF(x-l.Mu)-l.Scale, "dLogProb/dScale = (|x-Mu| - Scale)/Scale^2")
	si := l.ScoreInput(x)
	switch {
	case x > l.Mu:
		verifAssertEqF(d[0]*l.Scale, 1, "dLogProb/dMu = 1/Scale right of Mu")
		verifAssertEqF(si*l.Scale, -1, "dLogProb/dx = -1/Scale right of Mu")
	case x < l.Mu:
		verifAssertEqF(d[0]*l.Scale, -1, "dLogProb/dMu = -1/Scale left of Mu")
		verifAssertEqF(si*l.Scale, 1, "dLogProb/dx = 1/Scale left of Mu")
	default:
		verifAssert(math.IsNaN(d[0]), "Score(Mu)[0] = NaN")
		verifAssert(math.IsNaN(si), "ScoreInput(Mu) = NaN")
	}
	panicked, fault, _ := verifCatch(func() { l.Score(make([]float64, 3), x) })
	verifAssert(verifAnd(panicked, !fault), "Score panics when len(deriv) != NumParameters")
	verifReach("end")
}

// VerifC11_WeibullScore: with z = (x/Lambda)^K (math.Pow, uninterpreted) and
// L = log x - log Lambda (the code's spelling of log(x/Lambda); log is
// uninterpreted): log p = log K - log Lambda + (K-1) L - z, hence
// d/dK = 1/K + L - L z, d/dLambda = K (z - 1)/Lambda, d/dx = (K - 1 - K z)/x
// (using dz/dK = L z, dz/dLambda = -K z/Lambda, dz/dx = K z/x). NaN for x <= 0.
func VerifC11_WeibullScore() {
	w := Weibull{K: verifFloat("k"), Lambda: verifFloat("lambda")}
	verifAssume(verifAnd(w.K > 0, w.Lambda > 0))
	x := verifFloat("x")
	d := w.Score(nil, x)
	verifAssert(len(d) == 2, "two derivatives")
	if x > 0 {
		z := math.Pow(x/w.Lambda, w.K)
		L := math.Log(x) - math.Log(w.Lambda)
		verifAssertEqF(d[0]*w.K, 1+w.K*L*(1-z), "dLogProb/dK = 1/K + L (1 - z)")
		verifAssertEqF(d[1]*w.Lambda, w.K*(z-1), "dLogProb/dLambda = K (z - 1)/Lambda")
		verifAssertEqF(w.ScoreInput(x)*x, w.K-1-w.K*z, "dLogProb/dx = (K - 1 - K z)/x")
	} else {
		verifAssert(verifAnd(math.IsNaN(d[0]), math.IsNaN(d[1])), "Score = NaN off the open support")
		verifAssert(math.IsNaN(w.ScoreInput(x)), "ScoreInput = NaN off the open support")
	}
	panicked, fault, _ := verifCatch(func() { w.Score(make([]float64, 1), x) })
	verifAssert(verifAnd(panicked, !fault), "Score panics when len(deriv) != NumParameters")
	verifReach("end")
}

// VerifC11_UniformTriangleScore: the scores of the two piecewise rational
// laws. Uniform: log p = -log(Max-Min) inside. Triangle: log p =
// log 2 + log(x-a) - log(b-a) - log(c-a) on (a,c), log 2 + log(b-x) - log(b-a)
// - log(b-c) on (c,b). Only interior points of the pieces are asserted (plus
// the NaN cases the Triangle documentation lists for ScoreInput).
func VerifC11_UniformTriangleScore() {
	x := verifFloat("x")
	if verifChoose("law", 0, 1) == 0 {
		u := verifC11uniform()
		verifAssume(verifAnd(u.Min < x, x < u.Max))
		d := u.Score(nil, x)
		verifAssertEqF(d[0]*(u.Max-u.Min), 1, "dLogProb/dMin = 1/(Max-Min)")
		verifAssertEqF(d[1]*(u.Max-u.Min), -1, "dLogProb/dMax = -1/(Max-Min)")
		verifAssertEqF(u.ScoreInput(x), 0, "dLogProb/dx = 0")
		verifReach("end")
		return
	}
	a, b, c := verifFloat("a"), verifFloat("b"), verifFloat("c")
	verifAssume(verifAnd(a < c, c < b))
	t := NewTriangle(a, b, c, nil)
	si := t.ScoreInput(x)
	if x <= a || x >= b || x == c {
		verifAssert(math.IsNaN(si), "ScoreInput = NaN at the mode and off (a,b)")
		verifReach("end")
		return
	}
	d := t.Score(nil, x)
	verifAssert(len(d) == 3, "three derivatives")
	if x < c {
		verifAssertEqF(d[0]*(x-a)*(b-a)*(c-a), -(b-a)*(c-a)+(x-a)*(c-a)+(x-a)*(b-a), "rising: d/da = -1/(x-a) + 1/(b-a) + 1/(c-a)")
		verifAssertEqF(d[1]*(b-a), -1, "rising: d/db = -1/(b-a)")
		verifAssertEqF(d[2]*(c-a), -1, "rising: d/dc = -1/(c-a)")
		verifAssertEqF(si*(x-a), 1, "rising: d/dx = 1/(x-a)")
	} else {
		verifAssertEqF(d[0]*(b-a), 1, "falling: d/da = 1/(b-a)")
		verifAssertEqF(d[1]*(b-x)*(b-a)*(b-c), (b-a)*(b-c)-(b-x)*(b-c)-(b-x)*(b-a), "falling: d/db = 1/(b-x) - 1/(b-a) - 1/(b-c)")
		verifAssertEqF(d[2]*(b-c), 1, "falling: d/dc = 1/(b-c)")
		verifAssertEqF(si*(b-x), -1, "falling: d/dx = -1/(b-x)")
	}
	verifReach("end")
}
