package stat

import (
	"math"

	"gonum.org/v1/gonum/mat"
)

// C10, relational identities (model R): unit weights = nil weights, integer
// weights = replication (population quantities), joint permutation
// invariance, affine equivariance, CovarianceMatrix vs pairwise Covariance.

func verifC10ones(n int) []float64 {
	w := make([]float64, n)
	for i := range w {
		w[i] = 1
	}
	return w
}

// VerifC10_WeightsOnes: weights of all ones give exactly the nil-weights result.
func VerifC10_WeightsOnes() {
	n := verifChoose("n", 2, verifParam("maxn", 3))
	fn := verifChoose("fn", 0, 12)
	one := verifC10ones(n)
	switch fn {
	case 0:
		x := verifFloats("x", n)
		verifAssertEqF(Mean(x, one), Mean(x, nil), "Mean")
	case 1:
		x := verifFloats("x", n)
		verifAssertEqF(Variance(x, one), Variance(x, nil), "Variance")
		verifAssertEqF(PopVariance(x, one), PopVariance(x, nil), "PopVariance")
	case 2:
		x, y := verifFloats("x", n), verifFloats("y", n)
		verifAssertEqF(Covariance(x, y, one), Covariance(x, y, nil), "Covariance")
	case 3:
		x, y := verifFloats("x", n), verifFloats("y", n)
		verifAssume(Variance(x, nil) > 0)
		verifAssume(Variance(y, nil) > 0)
		verifAssertEqF(Correlation(x, y, one), Correlation(x, y, nil), "Correlation")
	case 4:
		x := verifFloats("x", n)
		mu := verifFloat("mu")
		verifAssertEqF(Moment(3, x, one), Moment(3, x, nil), "Moment(3)")
		verifAssertEqF(MomentAbout(2, x, mu, one), MomentAbout(2, x, mu, nil), "MomentAbout(2)")
	case 5:
		x, y := verifFloats("x", n), verifFloats("y", n)
		verifAssume(Variance(x, nil) > 0)
		a1, b1 := LinearRegression(x, y, one, false)
		a0, b0 := LinearRegression(x, y, nil, false)
		verifAssertEqF(a1, a0, "LinearRegression alpha")
		verifAssertEqF(b1, b0, "LinearRegression beta")
		al, be := verifFloat("al"), verifFloat("be")
		verifAssume(Variance(y, nil) > 0)
		verifAssertEqF(RSquared(x, y, one, al, be), RSquared(x, y, nil, al, be), "RSquared")
	case 6, 7:
		x, _ := verifC10sorted("x", n, 0)
		p := verifFloat("p")
		verifAssume(verifAnd(0 <= p, p <= 1))
		kind := Empirical
		if fn == 7 {
			kind = LinInterp
		}
		verifAssertEqF(Quantile(p, kind, x, one), Quantile(p, kind, x, nil), "Quantile")
	case 8:
		x, _ := verifC10sorted("x", n, 0)
		q := verifFloat("q")
		verifAssertEqF(CDF(q, Empirical, x, one), CDF(q, Empirical, x, nil), "CDF")
	case 9:
		x, _ := verifC10sorted("x", n, 0)
		div := verifFloats("div", 3)
		verifAssume(verifAnd(div[0] <= div[1], div[1] <= div[2]))
		verifAssume(verifAnd(div[0] <= x[0], x[n-1] < div[2]))
		h1 := Histogram(nil, div, x, one)
		h0 := Histogram(nil, div, x, nil)
		verifAssertEqF(h1[0], h0[0], "Histogram bin 0")
		verifAssertEqF(h1[1], h0[1], "Histogram bin 1")
	case 10:
		if n > verifParam("ksn", 2) {
			return
		}
		x, _ := verifC10sorted("x", n, 0)
		y, _ := verifC10sorted("y", n, 0)
		verifAssertEqF(KolmogorovSmirnov(x, one, y, one), KolmogorovSmirnov(x, nil, y, nil), "KolmogorovSmirnov")
	case 11:
		x := verifFloats("x", n)
		verifAssume(PopVariance(x, nil) > 0)
		verifAssertEqF(StdDev(x, one), StdDev(x, nil), "StdDev")
	case 12:
		x := verifFloats("x", n)
		for i := range x {
			verifAssume(x[i] > 0)
		}
		verifAssertEqF(HarmonicMean(x, one), HarmonicMean(x, nil), "HarmonicMean")
	}
	verifReach("end")
}

// VerifC10_IntegerWeights: weight 2 on one sample equals listing that sample
// twice, for population quantities.
func VerifC10_IntegerWeights() {
	n := verifChoose("n", 1, verifParam("repn", 2))
	j := verifChoose("j", 0, n-1)
	fn := verifChoose("fn", 0, 6)
	sortedIn := fn >= 3
	var x []float64
	if sortedIn {
		x, _ = verifC10sorted("x", n, 0)
	} else {
		x = verifFloats("x", n)
	}
	w := verifC10ones(n)
	w[j] = 2
	rep := make([]float64, 0, n+1)
	for i := 0; i < n; i++ {
		rep = append(rep, x[i])
		if i == j {
			rep = append(rep, x[i])
		}
	}
	switch fn {
	case 0:
		verifAssertEqF(Mean(x, w), Mean(rep, nil), "Mean")
	case 1:
		verifAssertEqF(PopVariance(x, w), PopVariance(rep, nil), "PopVariance")
	case 2:
		verifAssertEqF(Moment(3, x, w), Moment(3, rep, nil), "Moment(3)")
	case 3:
		p := verifFloat("p")
		verifAssume(verifAnd(0 <= p, p <= 1))
		verifAssertEqF(Quantile(p, Empirical, x, w), Quantile(p, Empirical, rep, nil), "Empirical Quantile")
	case 4:
		q := verifFloat("q")
		verifAssertEqF(CDF(q, Empirical, x, w), CDF(q, Empirical, rep, nil), "CDF")
	case 5:
		div := verifFloats("div", 3)
		verifAssume(verifAnd(div[0] <= div[1], div[1] <= div[2]))
		verifAssume(verifAnd(div[0] <= x[0], x[n-1] < div[2]))
		h1 := Histogram(nil, div, x, w)
		h0 := Histogram(nil, div, rep, nil)
		verifAssertEqF(h1[0], h0[0], "Histogram bin 0")
		verifAssertEqF(h1[1], h0[1], "Histogram bin 1")
	case 6:
		y, _ := verifC10sorted("y", 2, 0)
		verifAssertEqF(KolmogorovSmirnov(x, w, y, nil), KolmogorovSmirnov(rep, nil, y, nil), "KolmogorovSmirnov")
	}
	verifReach("end")
}

var verifC10perms = [][]int{{0, 1, 2}, {0, 2, 1}, {1, 0, 2}, {1, 2, 0}, {2, 0, 1}, {2, 1, 0}}

// VerifC10_Permutation: results are invariant under a joint permutation of
// data and weights (n = 3, all six permutations; n = 2 is the swap).
func VerifC10_Permutation() {
	n := 3
	pi := verifC10perms[verifChoose("perm", 1, 5)]
	wm := verifChoose("weights", 0, 1)
	fn := verifChoose("fn", 0, 6)
	x, w := verifC10data("x", n, wm)
	y := verifFloats("y", n)
	px, py := make([]float64, n), make([]float64, n)
	var pw []float64
	if w != nil {
		pw = make([]float64, n)
	}
	for i := 0; i < n; i++ {
		px[i], py[i] = x[pi[i]], y[pi[i]]
		if w != nil {
			pw[i] = w[pi[i]]
		}
	}
	if wm == 1 {
		verifAssume(verifC10sumw(w, n) != 1)
	}
	switch fn {
	case 0:
		verifAssertEqF(Mean(px, pw), Mean(x, w), "Mean")
	case 1:
		verifAssertEqF(Variance(px, pw), Variance(x, w), "Variance")
	case 2:
		verifAssertEqF(PopVariance(px, pw), PopVariance(x, w), "PopVariance")
	case 3:
		verifAssertEqF(Covariance(px, py, pw), Covariance(x, y, w), "Covariance")
	case 4:
		verifAssertEqF(Moment(3, px, pw), Moment(3, x, w), "Moment(3)")
	case 5:
		verifAssume(Variance(x, w) != 0)
		a1, b1 := LinearRegression(px, py, pw, false)
		a0, b0 := LinearRegression(x, y, w, false)
		verifAssertEqF(a1, a0, "LinearRegression alpha")
		verifAssertEqF(b1, b0, "LinearRegression beta")
	case 6:
		// SortWeighted undoes any permutation of distinct values
		verifAssume(verifAnd(x[0] < x[1], x[1] < x[2]))
		SortWeighted(px, pw)
		for i := 0; i < n; i++ {
			verifAssert(verifSame(px[i], x[i]), "SortWeighted sorts x")
			if w != nil {
				verifAssert(verifSame(pw[i], w[i]), "SortWeighted carries the weights along")
			}
		}
	}
	verifReach("end")
}

// VerifC10_Affine: location/scale equivariance under x -> a*x + b.
func VerifC10_Affine() {
	n := verifChoose("n", 1, verifParam("maxn", 3))
	wm := verifChoose("weights", 0, 1)
	fn := verifChoose("fn", 0, 6)
	if wm == 1 && n > verifParam("wmaxn", 2) {
		return
	}
	a, b := verifFloat("a"), verifFloat("b")
	sortedIn := fn >= 4
	var x, w []float64
	if sortedIn {
		x, w = verifC10sorted("x", n, wm)
		verifAssume(a > 0)
	} else {
		x, w = verifC10data("x", n, wm)
	}
	ax := make([]float64, n)
	for i := range x {
		ax[i] = a*x[i] + b
	}
	sw := verifC10sumw(w, n)
	switch fn {
	case 0:
		verifAssertEqF(Mean(ax, w), a*Mean(x, w)+b, "Mean(a*x+b) = a*Mean(x)+b")
	case 1:
		verifAssume(sw != 1)
		if n < 2 {
			return
		}
		verifAssertEqF(Variance(ax, w), a*a*Variance(x, w), "Variance scales by a^2")
		verifAssertEqF(PopVariance(ax, w), a*a*PopVariance(x, w), "PopVariance scales by a^2")
	case 2:
		if n < 2 || wm == 1 {
			return
		}
		verifAssume(Variance(x, w) > 0)
		verifAssertEqF(StdDev(ax, w), verifAbsF(a)*StdDev(x, w), "StdDev scales by |a|")
	case 3:
		verifAssume(sw != 1)
		if n < 2 {
			return
		}
		c, d := verifFloat("c"), verifFloat("d")
		y := verifFloats("y", n)
		cy := make([]float64, n)
		for i := range y {
			cy[i] = c*y[i] + d
		}
		verifAssertEqF(Covariance(ax, cy, w), a*c*Covariance(x, y, w), "Covariance(a*x+b, c*y+d) = a*c*Covariance(x,y)")
	case 4, 5:
		kind := Empirical
		if fn == 5 {
			kind = LinInterp
		}
		p := verifFloat("p")
		verifAssume(verifAnd(0 <= p, p <= 1))
		verifAssertEqF(Quantile(p, kind, ax, w), a*Quantile(p, kind, x, w)+b, "Quantile(a*x+b) = a*Quantile(x)+b for a > 0")
	case 6:
		q := verifFloat("q")
		verifAssertEqF(CDF(a*q+b, Empirical, ax, w), CDF(q, Empirical, x, w), "CDF(a*q+b; a*x+b) = CDF(q; x) for a > 0")
	}
	verifReach("end")
}

// VerifC10_CovarianceMatrix: 3 samples x 2 variables: symmetric, entries equal
// the pairwise Covariance / Variance, positive semi-definite (2x2 minors);
// CorrelationMatrix has unit diagonal and off-diagonal Correlation.
func VerifC10_CovarianceMatrix() {
	r, c := 3, 2
	wm := verifChoose("weights", 0, verifParam("cmweights", 0)) // weighted: sqrt(w) scaling, not decided by z3 in time
	data := verifFloats("x", r*c)
	var w []float64
	if wm == 1 {
		w = verifFloats("w", r)
		var s float64
		for i := range w {
			verifAssume(w[i] > 0)
			s += w[i]
		}
		verifAssume(s != 1)
	}
	x := mat.NewDense(r, c, append([]float64{}, data...))
	col := func(j int) []float64 {
		v := make([]float64, r)
		for i := range v {
			v[i] = data[i*c+j]
		}
		return v
	}
	// destination state: zero value, or a correctly sized matrix holding
	// arbitrary earlier contents (documented: "the result is stored in-place")
	var cov mat.SymDense
	if verifChoose("dst", 0, 1) == 1 {
		cov = *mat.NewSymDense(c, verifFloats("old", c*c))
	}
	CovarianceMatrix(&cov, x, w)
	verifAssert(cov.SymmetricDim() == c, "dimension")
	for i := 0; i < c; i++ {
		for j := 0; j < c; j++ {
			verifAssertEqF(cov.At(i, j), cov.At(j, i), "symmetric")
			verifAssertEqF(cov.At(i, j), Covariance(col(i), col(j), w), "entry equals the pairwise Covariance")
		}
	}
	for i := 0; i < r*c; i++ {
		verifAssert(verifSame(x.RawMatrix().Data[i], data[i]), "input matrix untouched")
	}
	if wm == 0 {
		verifAssert(verifAnd(cov.At(0, 0) >= 0, cov.At(1, 1) >= 0), "non-negative diagonal")
		verifAssert(cov.At(0, 0)*cov.At(1, 1)-cov.At(0, 1)*cov.At(0, 1) >= 0, "non-negative determinant (PSD)")
		verifAssume(verifAnd(cov.At(0, 0) > 0, cov.At(1, 1) > 0))
		var cor mat.SymDense
		if verifChoose("cordst", 0, 1) == 1 {
			cor = *mat.NewSymDense(c, verifFloats("oldcor", c*c))
		}
		CorrelationMatrix(&cor, x, w)
		verifAssertEqF(cor.At(0, 0), 1, "unit diagonal")
		verifAssertEqF(cor.At(1, 1), 1, "unit diagonal")
		verifAssertEqF(cor.At(0, 1), cor.At(1, 0), "correlation matrix symmetric")
		verifAssertEqF(cor.At(0, 1)*math.Sqrt(cov.At(0, 0))*math.Sqrt(cov.At(1, 1)), cov.At(0, 1), "off-diagonal = cov / (sd_0 * sd_1)")
	}
	verifReach("end")
}
