package sampleuv

// C11, algebraic sub-claims: univariate Latin hypercube sampling of a
// distuv.Uniform, SampleUniformWeighted, Weighted.ReweightAll. Global source
// (Src == nil): rand.Perm is an arbitrary permutation and rand.Float64 an
// arbitrary value of [0,1) in the engine. Model R.

import "gonum.org/v1/gonum/stat/distuv"

// VerifC11_UvLatinHypercube: each of the n equal-probability strata of the
// uniform law on [Min, Max] receives exactly one of the n samples. n = 1, 2, 4
// (.. 2^lhe: powers of two keep the code's concrete i/n exact).
func VerifC11_UvLatinHypercube() {
	n := 1 << verifChoose("nexp", 0, verifParam("lhe", 2))
	u := distuv.Uniform{Min: verifFloat("min"), Max: verifFloat("max")}
	verifAssume(u.Min < u.Max)
	batch := make([]float64, n)
	weights := make([]float64, n)
	SampleUniformWeighted{LatinHypercube{Q: u}}.SampleWeighted(batch, weights)
	w := u.Max - u.Min
	for k := 0; k < n; k++ {
		lo := u.Min + float64(k)*w/float64(n)
		hi := u.Min + float64(k+1)*w/float64(n)
		cnt := 0
		for i := range batch {
			cnt += verifIteInt(verifAnd(lo <= batch[i], batch[i] < hi), 1, 0)
		}
		verifAssert(cnt == 1, "exactly one sample per stratum")
		verifAssert(weights[k] == 1, "SampleUniformWeighted: unit weights")
	}
	panicked, fault, _ := verifCatch(func() {
		SampleUniformWeighted{LatinHypercube{Q: u}}.SampleWeighted(batch, make([]float64, n+1))
	})
	verifAssert(verifAnd(panicked, !fault), "SampleWeighted panics on a length mismatch")
	verifReach("end")
}

// VerifC11_WeightedReweightAll: from an arbitrary valid state, ReweightAll
// installs the new weights and re-establishes the heap invariant (root = sum);
// panics iff the length differs.
func VerifC11_WeightedReweightAll() {
	n := verifChoose("n", 1, verifParam("wn", 7))
	s := verifC11weighted(n)
	l := verifChoose("len", n-1, n+1)
	nw := verifFloats("nw", l)
	panicked, fault, _ := verifCatch(func() { s.ReweightAll(nw) })
	verifAssert(!fault, "no runtime fault")
	verifAssert(panicked == (l != n), "ReweightAll panics iff len(w) != Len()")
	if !panicked {
		var sum float64
		for i := range nw {
			verifAssert(verifSame(s.weights[i], nw[i]), "weights installed")
			sum += nw[i]
		}
		verifAssert(verifC11heapOK(s), "heap invariant re-established")
		verifAssertEqF(s.heap[0], sum, "root = sum of the weights")
	}
	verifReach("end")
}
