package sampleuv

import "math/rand/v2"

// C11 (decidable core): sampleuv.Weighted - sampling without replacement from
// a heap of weights; one step from an arbitrary valid state (model R).

type verifC11src struct{ v uint64 }

func (s *verifC11src) Uint64() uint64 { return s.v }

func verifC11heapOK(s Weighted) bool {
	n := len(s.weights)
	ok := true
	for i := 0; i < n; i++ {
		t := s.weights[i]
		if 2*i+1 < n {
			t += s.heap[2*i+1]
		}
		if 2*i+2 < n {
			t += s.heap[2*i+2]
		}
		ok = verifAnd(ok, s.heap[i] == t)
	}
	return ok
}

func verifC11weighted(n int) Weighted {
	s := Weighted{weights: verifFloats("w", n), heap: verifFloats("heap", n)}
	for i := range s.weights {
		verifAssume(s.weights[i] >= 0)
	}
	verifAssume(verifC11heapOK(s))
	return s
}

// VerifC11_WeightedNew: NewWeighted establishes heap[i] = w[i] + children.
func VerifC11_WeightedNew() {
	n := verifChoose("n", 1, verifParam("wn", 7))
	w := verifFloats("w", n)
	s := NewWeighted(w, nil)
	verifAssert(verifC11heapOK(s), "heap invariant established")
	var sum float64
	for i := range w {
		sum += w[i]
		verifAssert(verifSame(s.weights[i], w[i]), "weights copied")
	}
	verifAssertEqF(s.heap[0], sum, "root = sum of the weights")
	verifReach("end")
}

// VerifC11_WeightedReweight: restores the invariant for every idx.
func VerifC11_WeightedReweight() {
	n := verifChoose("n", 1, verifParam("wn", 7))
	idx := verifChoose("idx", 0, n-1)
	s := verifC11weighted(n)
	w0 := append([]float64(nil), s.weights...)
	total0 := s.heap[0]
	nw := verifFloat("neww")
	s.Reweight(idx, nw)
	verifAssert(verifC11heapOK(s), "heap invariant restored")
	verifAssertEqF(s.heap[0], total0-w0[idx]+nw, "total updated")
	for i := range w0 {
		if i == idx {
			verifAssert(verifSame(s.weights[i], nw), "weights[idx] = w")
		} else {
			verifAssert(verifSame(s.weights[i], w0[i]), "other weights unchanged")
		}
	}
	verifReach("end")
}

// VerifC11_WeightedTake: from an arbitrary valid state and random word: Take
// fails iff the total is 0; otherwise it returns an index in range whose
// weight was positive (so an already taken index, weight 0, is never
// returned), sets that weight to 0, keeps the invariant and reduces the total
// by exactly that weight.
func VerifC11_WeightedTake() {
	n := verifChoose("n", 1, verifParam("wn", 7))
	s := verifC11weighted(n)
	s.rnd = rand.New(&verifC11src{verifUint64("word")})
	w0 := append([]float64(nil), s.weights...)
	total0 := s.heap[0]
	var idx int
	var ok bool
	panicked, fault, _ := verifCatch(func() { idx, ok = s.Take() })
	verifAssert(!fault && !panicked, "Take never faults")
	if panicked {
		return
	}
	verifAssert(ok == (total0 != 0), "ok iff something is left")
	if !ok {
		verifAssert(idx == -1, "idx = -1 when nothing is left")
		return
	}
	verifAssert(0 <= idx && idx < n, "index in range")
	if idx < 0 || idx >= n {
		return
	}
	verifAssert(w0[idx] > 0, "the taken index had positive weight (never a taken one)")
	verifAssert(verifC11heapOK(s), "heap invariant kept")
	verifAssertEqF(s.heap[0], total0-w0[idx], "total reduced by the taken weight")
	for i := range w0 {
		if i == idx {
			verifAssert(s.weights[i] == 0, "taken weight set to 0")
		} else {
			verifAssert(verifSame(s.weights[i], w0[i]), "other weights unchanged")
		}
	}
	verifReach("end")
}
