package fd

import (
	"sync"

	"gonum.org/v1/gonum/mat"
)

// C09 for diff/fd: with Concurrent set, every routine returns the serial
// answer (exactly, over the reals: only the reduction order differs), calls the
// user function the same number of times, is free of data races and deadlocks
// on every explored schedule and leaves no goroutine behind. The engine's
// cooperative scheduler runs the real goroutines (verifSched(k): the first k
// scheduling/select choices of a path are explored exhaustively),
// runtime.GOMAXPROCS returns an arbitrary value (so the worker count is
// case-split by concretisation) and every heap access is checked against
// happens-before vector clocks.

type verifC09counter struct {
	mu sync.Mutex
	n  int
}

func (c *verifC09counter) inc() {
	c.mu.Lock()
	c.n++
	c.mu.Unlock()
}

func verifC09formula(id int) Formula {
	switch id {
	case 0:
		return Forward
	case 1:
		return Backward
	case 2:
		return Central
	case 3:
		return Forward2nd
	case 4:
		return Backward2nd
	}
	return Central2nd
}

// VerifC09_JacobianConcurrent: fd.Jacobian, Concurrent == serial.
func VerifC09_JacobianConcurrent() {
	n := verifChoose("n", 1, verifParam("c09n", 2))
	m := verifChoose("m", 1, verifParam("c09m", 2))
	id := verifChoose("formula", 0, 2)
	known := verifChoose("originKnown", 0, 1) == 1
	qs := make([]*verifC18quad, m)
	for k := range qs {
		qs[k] = verifC18newQuad("q"+string(rune('0'+k)), n)
	}
	x := verifFloats("x", n)
	h := verifFloat("h")
	verifAssume(h > 0)
	var cnt verifC09counter
	f := func(y, x []float64) {
		cnt.inc()
		for k := range qs {
			y[k] = qs[k].eval(x)
		}
	}
	mk := func(conc bool) *JacobianSettings {
		set := &JacobianSettings{Formula: verifC09formula(id), Step: h, Concurrent: conc}
		if known {
			set.OriginValue = make([]float64, m)
			for k := range qs {
				set.OriginValue[k] = qs[k].eval(x)
			}
		}
		return set
	}
	ser := mat.NewDense(m, n, nil)
	Jacobian(ser, f, x, mk(false))
	serCalls := cnt.n
	cnt.n = 0
	x0 := append([]float64(nil), x...)

	verifSched(verifParam("c09sched", 1))
	verifSchedPreempt(verifParam("c09preempt", 1) == 1)
	con := mat.NewDense(m, n, nil)
	if verifChoose("dstUsed", 0, 1) == 1 {
		con = mat.NewDense(m, n, verifFloats("old", m*n))
	}
	Jacobian(con, f, x, mk(true))
	verifAssert(verifSchedDrain() == 0, "Jacobian(Concurrent) leaves no goroutine behind")
	verifAssert(cnt.n == serCalls, "Jacobian(Concurrent) calls f as often as the serial code")
	for i := 0; i < m; i++ {
		for j := 0; j < n; j++ {
			verifAssertEqF(con.At(i, j), ser.At(i, j), "Jacobian(Concurrent) equals the serial Jacobian")
		}
	}
	for i := range x {
		verifAssert(verifSame(x[i], x0[i]), "Jacobian(Concurrent) leaves x unchanged")
	}
	verifReach("end")
}

// VerifC09_GradientConcurrent: fd.Gradient, Concurrent == serial.
func VerifC09_GradientConcurrent() {
	n := verifChoose("n", 1, verifParam("c09n", 2))
	id := verifChoose("formula", 0, 2)
	known := verifChoose("originKnown", 0, 1) == 1
	q := verifC18newQuad("q", n)
	x := verifFloats("x", n)
	h := verifFloat("h")
	verifAssume(h > 0)
	var cnt verifC09counter
	f := func(x []float64) float64 {
		cnt.inc()
		return q.eval(x)
	}
	mk := func(conc bool) *Settings {
		set := &Settings{Formula: verifC09formula(id), Step: h, Concurrent: conc}
		if known {
			set.OriginKnown = true
			set.OriginValue = q.eval(x)
		}
		return set
	}
	ser := Gradient(nil, f, x, mk(false))
	serCalls := cnt.n
	cnt.n = 0
	verifSched(verifParam("c09sched", 1))
	verifSchedPreempt(verifParam("c09preempt", 1) == 1)
	con := Gradient(nil, f, x, mk(true))
	verifAssert(verifSchedDrain() == 0, "Gradient(Concurrent) leaves no goroutine behind")
	verifAssert(cnt.n == serCalls, "Gradient(Concurrent) calls f as often as the serial code")
	for i := 0; i < n; i++ {
		verifAssertEqF(con[i], ser[i], "Gradient(Concurrent) equals the serial gradient")
	}
	verifReach("end")
}

// VerifC09_DerivativeConcurrent: fd.Derivative, Concurrent == serial.
func VerifC09_DerivativeConcurrent() {
	id := verifChoose("formula", 0, 5)
	known := verifChoose("originKnown", 0, 1) == 1
	c := verifFloats("c", 4)
	x := verifFloat("x")
	h := verifFloat("h")
	verifAssume(h > 0)
	var cnt verifC09counter
	f := func(t float64) float64 {
		cnt.inc()
		return verifC18fpoly(c, t)
	}
	mk := func(conc bool) *Settings {
		set := &Settings{Formula: verifC09formula(id), Step: h, Concurrent: conc}
		if known {
			set.OriginKnown = true
			set.OriginValue = verifC18fpoly(c, x)
		}
		return set
	}
	ser := Derivative(f, x, mk(false))
	serCalls := cnt.n
	cnt.n = 0
	verifSched(verifParam("c09sched", 1))
	verifSchedPreempt(verifParam("c09preempt", 1) == 1)
	con := Derivative(f, x, mk(true))
	verifAssert(verifSchedDrain() == 0, "Derivative(Concurrent) leaves no goroutine behind")
	verifAssert(cnt.n == serCalls, "Derivative(Concurrent) calls f as often as the serial code")
	verifAssertEqF(con, ser, "Derivative(Concurrent) equals the serial derivative")
	verifReach("end")
}

// VerifC09_HessianConcurrent: fd.Hessian, Concurrent == serial.
func VerifC09_HessianConcurrent() {
	n := verifChoose("n", 1, verifParam("c09hn", 2))
	id := verifChoose("formula", 0, 2)
	known := verifChoose("originKnown", 0, 1) == 1
	q := verifC18newQuad("q", n)
	x := verifFloats("x", n)
	h := verifFloat("h")
	verifAssume(h > 0)
	var cnt verifC09counter
	f := func(x []float64) float64 {
		cnt.inc()
		return q.eval(x)
	}
	mk := func(conc bool) *Settings {
		set := &Settings{Formula: verifC09formula(id), Step: h, Concurrent: conc}
		if known {
			set.OriginKnown = true
			set.OriginValue = q.eval(x)
		}
		return set
	}
	ser := mat.NewSymDense(n, nil)
	Hessian(ser, f, x, mk(false))
	serCalls := cnt.n
	cnt.n = 0
	verifSched(verifParam("c09hsched", 1))
	verifSchedPreempt(verifParam("c09hpreempt", 0) == 1)
	// the destination may hold arbitrary earlier contents (a reused matrix)
	con := mat.NewSymDense(n, nil)
	if verifChoose("dstUsed", 0, 1) == 1 {
		con = mat.NewSymDense(n, verifFloats("old", n*n))
	}
	Hessian(con, f, x, mk(true))
	verifAssert(verifSchedDrain() == 0, "Hessian(Concurrent) leaves no goroutine behind")
	verifAssert(cnt.n == serCalls, "Hessian(Concurrent) calls f as often as the serial code")
	for i := 0; i < n; i++ {
		for j := i; j < n; j++ {
			verifAssertEqF(con.At(i, j), ser.At(i, j), "Hessian(Concurrent) equals the serial Hessian")
		}
	}
	verifReach("end")
}

// VerifC09_LaplacianConcurrent: fd.Laplacian and fd.CrossLaplacian.
func VerifC09_LaplacianConcurrent() {
	n := verifChoose("n", 1, verifParam("c09hn", 2))
	cross := verifChoose("cross", 0, 1) == 1
	id := verifChoose("formula", 3, 5) // second-derivative formulas for Laplacian
	if cross {
		id -= 3 // CrossLaplacian applies a first-derivative formula twice
	}
	known := verifChoose("originKnown", 0, 1) == 1
	q := verifC18newQuad("q", n)
	r := verifC18newQuad("r", n)
	x := verifFloats("x", n)
	y := verifFloats("y", n)
	h := verifFloat("h")
	verifAssume(h > 0)
	var cnt verifC09counter
	f := func(x []float64) float64 {
		cnt.inc()
		return q.eval(x)
	}
	g := func(x, y []float64) float64 {
		cnt.inc()
		return q.eval(x) * r.eval(y)
	}
	mk := func(conc bool) *Settings {
		set := &Settings{Formula: verifC09formula(id), Step: h, Concurrent: conc}
		if known {
			set.OriginKnown = true
			if cross {
				set.OriginValue = q.eval(x) * r.eval(y)
			} else {
				set.OriginValue = q.eval(x)
			}
		}
		return set
	}
	run := func(conc bool) float64 {
		if cross {
			return CrossLaplacian(g, x, y, mk(conc))
		}
		return Laplacian(f, x, mk(conc))
	}
	ser := run(false)
	serCalls := cnt.n
	cnt.n = 0
	verifSched(verifParam("c09hsched", 1))
	verifSchedPreempt(verifParam("c09hpreempt", 0) == 1)
	con := run(true)
	verifAssert(verifSchedDrain() == 0, "Laplacian(Concurrent) leaves no goroutine behind")
	verifAssert(cnt.n == serCalls, "Laplacian(Concurrent) calls f as often as the serial code")
	verifAssertEqF(con, ser, "Laplacian(Concurrent) equals the serial value")
	verifReach("end")
}
