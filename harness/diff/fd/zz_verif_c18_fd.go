package fd

import "gonum.org/v1/gonum/mat"

// C18: every built-in finite difference formula differentiates polynomials up
// to its exactness degree exactly (model R: x, step and coefficients are exact
// reals), and Gradient / Jacobian / Hessian / Laplacian / CrossLaplacian agree
// with the analytic derivatives of a symbolic quadratic and with each other.

func verifC18fpoly(c []float64, t float64) float64 {
	var s float64
	for i := len(c) - 1; i >= 0; i-- {
		s = s*t + c[i]
	}
	return s
}

// k-th derivative (k = 1, 2) of the polynomial with coefficients c at t.
func verifC18fderiv(c []float64, k int, t float64) float64 {
	var s float64
	for i := len(c) - 1; i >= k; i-- {
		m := float64(i)
		if k == 2 {
			m *= float64(i - 1)
		}
		s = s*t + m*c[i]
	}
	return s
}

// formula number -> (formula, exactness degree)
func verifC18formula(id int) (Formula, int) {
	switch id {
	case 0:
		return Forward, 1
	case 1:
		return Backward, 1
	case 2:
		return Central, 2
	case 3:
		return Forward2nd, 2
	case 4:
		return Backward2nd, 2
	}
	return Central2nd, 3
}

// VerifC18_DerivativeExact: Derivative(p, x) == p'(x) (p”(x)) for deg p <= the
// formula's exactness degree, symbolic x and step h > 0, origin known or not.
func VerifC18_DerivativeExact() {
	id := verifChoose("formula", 0, 5)
	formula, deg := verifC18formula(id)
	known := verifChoose("originKnown", 0, 1) == 1
	c := verifFloats("c", deg+1)
	x := verifFloat("x")
	h := verifFloat("h")
	verifAssume(h > 0)
	p := func(t float64) float64 { return verifC18fpoly(c, t) }
	set := &Settings{Formula: formula, Step: h}
	if known {
		set.OriginKnown = true
		set.OriginValue = p(x)
	}
	got := Derivative(p, x, set)
	verifAssertEqF(got, verifC18fderiv(c, formula.Derivative, x), "Derivative exact on the formula's design degree")
	verifReach("end")
}

// VerifC18_DerivativeNegativeStep: a negative step is a legitimate mirrored
// stencil for Derivative (only h != 0 is needed).
func VerifC18_DerivativeNegativeStep() {
	id := verifChoose("formula", 0, 5)
	formula, deg := verifC18formula(id)
	c := verifFloats("c", deg+1)
	x := verifFloat("x")
	h := verifFloat("h")
	verifAssume(h < 0)
	got := Derivative(func(t float64) float64 { return verifC18fpoly(c, t) }, x, &Settings{Formula: formula, Step: h})
	verifAssertEqF(got, verifC18fderiv(c, formula.Derivative, x), "Derivative exact with negative step")
	verifReach("end")
}

// symbolic quadratic in n variables: c0 + sum b_i x_i + sum_{i<=j} a_ij x_i x_j
type verifC18quad struct {
	n  int
	c0 float64
	b  []float64
	a  []float64 // a[i*n+j] for i <= j
}

func verifC18newQuad(tag string, n int) *verifC18quad {
	q := &verifC18quad{n: n, c0: verifFloat(tag + "c0"), b: verifFloats(tag+"b", n), a: verifFloats(tag+"a", n*n)}
	return q
}

func (q *verifC18quad) eval(x []float64) float64 {
	s := q.c0
	for i := 0; i < q.n; i++ {
		s += q.b[i] * x[i]
		for j := i; j < q.n; j++ {
			s += q.a[i*q.n+j] * x[i] * x[j]
		}
	}
	return s
}

func (q *verifC18quad) grad(x []float64, i int) float64 {
	s := q.b[i]
	for j := 0; j < q.n; j++ {
		switch {
		case j == i:
			s += 2 * q.a[i*q.n+i] * x[i]
		case j < i:
			s += q.a[j*q.n+i] * x[j]
		default:
			s += q.a[i*q.n+j] * x[j]
		}
	}
	return s
}

func (q *verifC18quad) hess(i, j int) float64 {
	if i == j {
		return 2 * q.a[i*q.n+i]
	}
	if j < i {
		i, j = j, i
	}
	return q.a[i*q.n+j]
}

func verifC18first(id int) Formula {
	switch id {
	case 0:
		return Forward
	case 1:
		return Backward
	}
	return Central
}

// VerifC18_GradientQuadratic: Central gradient of a quadratic is exact;
// Forward/Backward gradients are exact when the pure second order terms vanish
// in the differentiated direction (here: a_ii = 0), i.e. on functions linear
// in each variable separately.
func VerifC18_GradientQuadratic() {
	n := verifChoose("n", 1, verifParam("fdn", 2))
	id := verifChoose("formula", 0, 2)
	known := verifChoose("originKnown", 0, 1) == 1
	q := verifC18newQuad("q", n)
	if id != 2 {
		for i := 0; i < n; i++ {
			q.a[i*n+i] = 0
		}
	}
	x := verifFloats("x", n)
	x0 := append([]float64(nil), x...)
	h := verifFloat("h")
	verifAssume(h > 0)
	set := &Settings{Formula: verifC18first(id), Step: h}
	if known {
		set.OriginKnown = true
		set.OriginValue = q.eval(x)
	}
	var dst []float64
	if verifChoose("dstnil", 0, 1) == 0 {
		dst = make([]float64, n)
	}
	g := Gradient(dst, q.eval, x, set)
	verifAssert(len(g) == n, "Gradient length")
	for i := 0; i < n; i++ {
		verifAssertEqF(g[i], q.grad(x0, i), "Gradient equals the analytic gradient")
		verifAssert(verifSame(x[i], x0[i]), "Gradient leaves x unchanged")
	}
	verifReach("end")
}

// VerifC18_JacobianQuadratic: Jacobian of (q1, q2) equals the analytic one and
// each row equals Gradient of that component.
func VerifC18_JacobianQuadratic() {
	n := verifChoose("n", 1, verifParam("fdn", 2))
	m := verifChoose("m", 1, 2)
	id := verifChoose("formula", 0, 2)
	known := verifChoose("originKnown", 0, 1) == 1
	qs := make([]*verifC18quad, m)
	for k := range qs {
		qs[k] = verifC18newQuad("q"+string(rune('0'+k)), n)
		if id != 2 {
			for i := 0; i < n; i++ {
				qs[k].a[i*n+i] = 0
			}
		}
	}
	x := verifFloats("x", n)
	h := verifFloat("h")
	verifAssume(h > 0)
	f := func(y, x []float64) {
		for k := range qs {
			y[k] = qs[k].eval(x)
		}
	}
	set := &JacobianSettings{Formula: verifC18first(id), Step: h}
	if known {
		set.OriginValue = make([]float64, m)
		f(set.OriginValue, x)
	}
	dst := mat.NewDense(m, n, nil)
	Jacobian(dst, f, x, set)
	for k := 0; k < m; k++ {
		g := Gradient(nil, qs[k].eval, x, &Settings{Formula: verifC18first(id), Step: h})
		for j := 0; j < n; j++ {
			verifAssertEqF(dst.At(k, j), qs[k].grad(x, j), "Jacobian equals the analytic Jacobian")
			verifAssertEqF(dst.At(k, j), g[j], "Jacobian row equals Gradient of the component")
		}
	}
	verifReach("end")
}

// VerifC18_HessianQuadratic: Hessian (first-order formula applied twice) of a
// quadratic is exact for Forward, Backward and Central; it is symmetric and its
// trace equals Laplacian (Central2nd/Forward2nd/Backward2nd, also exact).
func VerifC18_HessianQuadratic() {
	n := verifChoose("n", 1, verifParam("fdn", 2))
	id := verifChoose("formula", 0, 2)
	known := verifChoose("originKnown", 0, 1) == 1
	q := verifC18newQuad("q", n)
	x := verifFloats("x", n)
	h := verifFloat("h")
	verifAssume(h > 0)
	h2 := verifFloat("h2")
	verifAssume(h2 > 0)
	set := &Settings{Formula: verifC18first(id), Step: h}
	if known {
		set.OriginKnown = true
		set.OriginValue = q.eval(x)
	}
	var dst mat.SymDense
	if verifChoose("presized", 0, 1) == 1 {
		dst = *mat.NewSymDense(n, nil)
	}
	Hessian(&dst, q.eval, x, set)
	verifAssert(dst.SymmetricDim() == n, "Hessian size")
	var trace float64
	for i := 0; i < n; i++ {
		for j := 0; j < n; j++ {
			verifAssertEqF(dst.At(i, j), q.hess(i, j), "Hessian equals the analytic Hessian")
		}
		trace += dst.At(i, i)
	}
	second := []Formula{Forward2nd, Backward2nd, Central2nd}[id]
	set2 := &Settings{Formula: second, Step: h2}
	if known {
		set2.OriginKnown = true
		set2.OriginValue = q.eval(x)
	}
	lap := Laplacian(q.eval, x, set2)
	verifAssertEqF(lap, trace, "Laplacian equals the trace of Hessian")
	verifReach("end")
}

// VerifC18_LaplacianCubic: Central2nd Laplacian is exact on separable cubics
// plus arbitrary mixed quadratic terms.
func VerifC18_LaplacianCubic() {
	n := verifChoose("n", 1, verifParam("fdn", 2))
	known := verifChoose("originKnown", 0, 1) == 1
	q := verifC18newQuad("q", n)
	d := verifFloats("d", n) // cubic coefficients
	f := func(x []float64) float64 {
		s := q.eval(x)
		for i := range d {
			s += d[i] * x[i] * x[i] * x[i]
		}
		return s
	}
	x := verifFloats("x", n)
	h := verifFloat("h")
	verifAssume(h > 0)
	set := &Settings{Formula: Central2nd, Step: h}
	if known {
		set.OriginKnown = true
		set.OriginValue = f(x)
	}
	lap := Laplacian(f, x, set)
	var want float64
	for i := 0; i < n; i++ {
		want += q.hess(i, i) + 6*d[i]*x[i]
	}
	verifAssertEqF(lap, want, "Central2nd Laplacian exact on cubics")
	verifReach("end")
}

// VerifC18_CrossLaplacianBilinear: f(x,y) = c0 + sum_i (bx_i x_i + by_i y_i + ax_i x_i^2 + ay_i y_i^2) + sum_ij m_ij x_i y_j;
// sum_i d2f/dx_i dy_i = sum_i m_ii, exact for every first-order formula.
func VerifC18_CrossLaplacianBilinear() {
	n := verifChoose("n", 1, verifParam("fdn", 2))
	id := verifChoose("formula", 0, 2)
	known := verifChoose("originKnown", 0, 1) == 1
	c0 := verifFloat("c0")
	bx := verifFloats("bx", n)
	by := verifFloats("by", n)
	ax := verifFloats("ax", n)
	ay := verifFloats("ay", n)
	mm := verifFloats("m", n*n)
	f := func(x, y []float64) float64 {
		s := c0
		for i := 0; i < n; i++ {
			s += bx[i]*x[i] + by[i]*y[i] + ax[i]*x[i]*x[i] + ay[i]*y[i]*y[i]
			for j := 0; j < n; j++ {
				s += mm[i*n+j] * x[i] * y[j]
			}
		}
		return s
	}
	x := verifFloats("x", n)
	y := verifFloats("y", n)
	h := verifFloat("h")
	verifAssume(h > 0)
	set := &Settings{Formula: verifC18first(id), Step: h}
	if known {
		set.OriginKnown = true
		set.OriginValue = f(x, y)
	}
	got := CrossLaplacian(f, x, y, set)
	var want float64
	for i := 0; i < n; i++ {
		want += mm[i*n+i]
	}
	verifAssertEqF(got, want, "CrossLaplacian exact on quadratic + bilinear functions")
	verifReach("end")
}

// VerifC18_FdValidation: documented panics (derivative order, bad formula,
// negative step, sizes).
func VerifC18_FdValidation() {
	which := verifChoose("which", 0, 6)
	x := []float64{verifFloat("x0"), verifFloat("x1")}
	f := func(x []float64) float64 { return x[0] * x[1] }
	h := verifFloat("h")
	switch which {
	case 0: // Gradient / Hessian / CrossLaplacian / Jacobian need derivative order 1
		p, _, _ := verifCatch(func() { Gradient(nil, f, x, &Settings{Formula: Central2nd}) })
		verifAssert(p, "Gradient panics on a second-order formula")
		p, _, _ = verifCatch(func() { Hessian(mat.NewSymDense(2, nil), f, x, &Settings{Formula: Central2nd}) })
		verifAssert(p, "Hessian panics on a second-order formula")
		p, _, _ = verifCatch(func() {
			CrossLaplacian(func(x, y []float64) float64 { return x[0] * y[0] }, x, x, &Settings{Formula: Forward2nd})
		})
		verifAssert(p, "CrossLaplacian panics on a second-order formula")
		p, _, _ = verifCatch(func() {
			Jacobian(mat.NewDense(1, 2, nil), func(y, x []float64) { y[0] = x[0] }, x, &JacobianSettings{Formula: Backward2nd})
		})
		verifAssert(p, "Jacobian panics on a second-order formula")
	case 1: // Laplacian needs order 2
		p, _, _ := verifCatch(func() { Laplacian(f, x, &Settings{Formula: Central}) })
		verifAssert(p, "Laplacian panics on a first-order formula")
	case 2: // negative step
		verifAssume(h != 0)
		p, fault, _ := verifCatch(func() { Hessian(mat.NewSymDense(2, nil), f, x, &Settings{Formula: Central, Step: h}) })
		verifAssert(!fault, "Hessian: no runtime fault")
		verifAssert(verifIff(p, h < 0), "Hessian panics iff step < 0")
		p, fault, _ = verifCatch(func() { Laplacian(f, x, &Settings{Formula: Central2nd, Step: h}) })
		verifAssert(!fault, "Laplacian: no runtime fault")
		verifAssert(verifIff(p, h < 0), "Laplacian panics iff step < 0")
		p, fault, _ = verifCatch(func() {
			CrossLaplacian(func(x, y []float64) float64 { return x[0] * y[0] }, x, x, &Settings{Formula: Central, Step: h})
		})
		verifAssert(!fault, "CrossLaplacian: no runtime fault")
		verifAssert(verifIff(p, h < 0), "CrossLaplacian panics iff step < 0")
	case 3: // malformed formulas
		bad := Formula{Stencil: []Point{{Loc: 0, Coeff: -1}, {Loc: 1, Coeff: 1}}, Derivative: verifInt("d", 0, 1), Step: h}
		p, fault, _ := verifCatch(func() { Derivative(func(t float64) float64 { return t }, x[0], &Settings{Formula: bad}) })
		verifAssert(!fault, "Derivative: no runtime fault")
		verifAssert(verifIff(p, verifOr(bad.Derivative == 0, h <= 0)), "Derivative panics iff the formula is malformed")
	case 4: // sizes
		nd := verifChoose("nd", 0, 3)
		p, fault, _ := verifCatch(func() { Gradient(make([]float64, nd), f, x, nil) })
		verifAssert(!fault, "Gradient: no runtime fault")
		verifAssert(p == (nd != 2), "Gradient panics iff len(dst) != len(x)")
		p, _, _ = verifCatch(func() { Hessian(mat.NewSymDense(3, nil), f, x, nil) })
		verifAssert(p, "Hessian panics on dst size mismatch")
		p, _, _ = verifCatch(func() { Jacobian(mat.NewDense(1, 3, nil), func(y, x []float64) { y[0] = x[0] }, x, nil) })
		verifAssert(p, "Jacobian panics on column mismatch")
		p, _, _ = verifCatch(func() {
			Jacobian(mat.NewDense(1, 2, nil), func(y, x []float64) { y[0] = x[0] }, x, &JacobianSettings{OriginValue: make([]float64, 2)})
		})
		verifAssert(p, "Jacobian panics on OriginValue length mismatch")
	case 5: // empty x
		p, _, _ := verifCatch(func() { Laplacian(f, nil, nil) })
		verifAssert(p, "Laplacian panics on empty x")
		p, _, _ = verifCatch(func() { CrossLaplacian(func(x, y []float64) float64 { return 0 }, nil, nil, nil) })
		verifAssert(p, "CrossLaplacian panics on empty x")
		p, _, _ = verifCatch(func() { Jacobian(mat.NewDense(1, 1, nil), func(y, x []float64) {}, nil, nil) })
		verifAssert(p, "Jacobian panics on empty x")
	case 6:
		p, _, _ := verifCatch(func() {
			CrossLaplacian(func(x, y []float64) float64 { return 0 }, x, x[:1], nil)
		})
		verifAssert(p, "CrossLaplacian panics on length mismatch")
	}
	verifReach("end")
}

// --- non-vacuity twins (expected to be violated; not in the check spec).

func VerifC18_TwinDerivativeOneDegreeMore() {
	id := verifChoose("formula", 0, 5)
	formula, deg := verifC18formula(id)
	c := verifFloats("c", deg+2)
	x := verifFloat("x")
	h := verifFloat("h")
	verifAssume(h > 0)
	got := Derivative(func(t float64) float64 { return verifC18fpoly(c, t) }, x, &Settings{Formula: formula, Step: h})
	verifAssertEqF(got, verifC18fderiv(c, formula.Derivative, x), "TWIN (must fail): Derivative exact one degree above the design degree")
}

func VerifC18_TwinGradientForwardQuadratic() {
	q := verifC18newQuad("q", 2)
	x := verifFloats("x", 2)
	h := verifFloat("h")
	verifAssume(h > 0)
	g := Gradient(nil, q.eval, x, &Settings{Formula: Forward, Step: h})
	verifAssertEqF(g[0], q.grad(x, 0), "TWIN (must fail): Forward gradient exact on general quadratics")
}
