package interp

// C18: every interpolant reproduces its data at the knots, is continuous (value
// and first derivative for the piecewise cubics, also second derivative for the
// cubic splines) across interior knots, reproduces linear data, and
// extrapolates with the end values as documented. Knots are symbolic strictly
// increasing reals, values symbolic reals (model R).

func verifC18name(p string, i int) string { return p + string(rune('0'+i)) }

func verifC18knots(n int) []float64 {
	x := make([]float64, n)
	x[0] = verifFloat("x0")
	for i := 1; i < n; i++ {
		g := verifFloat(verifC18name("gap", i))
		verifAssume(g > 0)
		x[i] = x[i-1] + g
	}
	return x
}

const (
	verifC18kLinear = iota
	verifC18kConstant
	verifC18kAkima
	verifC18kFritschButland
	verifC18kNatural
	verifC18kClamped
	verifC18kNotAKnot
	verifC18kWithDerivatives
)

// verifC18fit fits interpolant number kind; cubic is non-nil for the
// piecewise-cubic based ones.
func verifC18fit(kind int, xs, ys []float64) (p Predictor, cubic *PiecewiseCubic, err error) {
	switch kind {
	case verifC18kLinear:
		var pl PiecewiseLinear
		err = pl.Fit(xs, ys)
		return pl, nil, err
	case verifC18kConstant:
		var pc PiecewiseConstant
		err = pc.Fit(xs, ys)
		return pc, nil, err
	case verifC18kAkima:
		var as AkimaSpline
		err = as.Fit(xs, ys)
		return &as, &as.cubic, err
	case verifC18kFritschButland:
		var fb FritschButland
		err = fb.Fit(xs, ys)
		return &fb, &fb.cubic, err
	case verifC18kNatural:
		var nc NaturalCubic
		err = nc.Fit(xs, ys)
		return &nc, &nc.cubic, err
	case verifC18kClamped:
		var cc ClampedCubic
		err = cc.Fit(xs, ys)
		return &cc, &cc.cubic, err
	case verifC18kNotAKnot:
		var nak NotAKnotCubic
		err = nak.Fit(xs, ys)
		return &nak, &nak.cubic, err
	}
	var pc PiecewiseCubic
	pc.FitWithDerivatives(xs, ys, verifFloats("dydx", len(xs)))
	return &pc, &pc, nil
}

// verifC18check: knots reproduced, extrapolation constant, C1 (C2) continuity.
// verifC18same: exact equality in model R, stated as 1+a == 1+b so that the
// native witness replay (purely relative tolerance) stays meaningful when the
// expected value is 0.
func verifC18same(a, b float64, msg string) { verifAssertEqF(1+a, 1+b, msg) }

func verifC18check(kind, n int) {
	xs := verifC18knots(n)
	ys := verifFloats("y", n)
	xs0 := append([]float64(nil), xs...)
	ys0 := append([]float64(nil), ys...)
	p, cubic, err := verifC18fit(kind, xs, ys)
	verifAssert(err == nil, "Fit succeeds on strictly increasing knots")
	if err != nil {
		return
	}
	for i := 0; i < n; i++ {
		verifAssert(verifAnd(verifSame(xs[i], xs0[i]), verifSame(ys[i], ys0[i])), "Fit leaves its inputs unchanged")
		verifC18same(p.Predict(xs0[i]), ys0[i], "Predict(xs[i]) == ys[i]")
	}
	// documented constant extrapolation
	d := verifFloat("d")
	verifAssume(d > 0)
	verifC18same(p.Predict(xs0[0]-d), ys0[0], "left extrapolation is ys[0]")
	verifC18same(p.Predict(xs0[n-1]+d), ys0[n-1], "right extrapolation is ys[n-1]")
	if cubic == nil {
		return
	}
	// left limits at every knot i >= 1 from piece i-1
	for i := 1; i < n; i++ {
		a := cubic.coeffs.RawRowView(i - 1)
		dx := xs0[i] - xs0[i-1]
		val := ((a[3]*dx+a[2])*dx+a[1])*dx + a[0]
		der := (3*a[3]*dx+2*a[2])*dx + a[1]
		verifC18same(val, ys0[i], "value continuous at the knot (left limit == ys[i])")
		verifC18same(der, cubic.PredictDerivative(xs0[i]), "first derivative continuous at the knot")
		if i < n-1 && kind >= verifC18kNatural && kind <= verifC18kNotAKnot {
			verifC18same(6*a[3]*dx+2*a[2], 2*cubic.coeffs.At(i, 2), "second derivative continuous at the interior knot (spline)")
		}
	}
	switch kind {
	case verifC18kNatural:
		last := cubic.coeffs.RawRowView(n - 2)
		verifC18same(cubic.coeffs.At(0, 2), 0, "natural spline: y''(left end) = 0")
		verifC18same(6*last[3]*(xs0[n-1]-xs0[n-2])+2*last[2], 0, "natural spline: y''(right end) = 0")
	case verifC18kClamped:
		verifC18same(cubic.PredictDerivative(xs0[0]), 0, "clamped spline: y'(left end) = 0")
		verifC18same(cubic.PredictDerivative(xs0[n-1]), 0, "clamped spline: y'(right end) = 0")
	case verifC18kNotAKnot:
		verifC18same(cubic.coeffs.At(0, 3), cubic.coeffs.At(1, 3), "not-a-knot: y''' continuous at the first interior knot")
		verifC18same(cubic.coeffs.At(n-3, 3), cubic.coeffs.At(n-2, 3), "not-a-knot: y''' continuous at the last interior knot")
	case verifC18kWithDerivatives:
		dy := verifFloats("dydx", n)
		for i := 0; i < n; i++ {
			verifC18same(cubic.PredictDerivative(xs0[i]), dy[i], "PredictDerivative(xs[i]) == dydxs[i]")
		}
	}
}

func VerifC18_InterpPiecewise() {
	kind := verifChoose("kind", verifC18kLinear, verifC18kConstant)
	n := verifChoose("n", 2, verifParam("interpn", 4))
	verifC18check(kind, n)
	verifReach("end")
}

func VerifC18_InterpCubicLocal() {
	k := verifChoose("kind", 0, 2)
	kind := []int{verifC18kAkima, verifC18kFritschButland, verifC18kWithDerivatives}[k]
	n := verifChoose("n", 2, verifParam("interpn", 4))
	verifC18check(kind, n)
	verifReach("end")
}

func VerifC18_InterpSplineNatural() {
	n := verifChoose("n", 2, verifParam("splinen", 4))
	verifC18check(verifC18kNatural, n)
	verifReach("end")
}

func VerifC18_InterpSplineClamped() {
	n := verifChoose("n", 2, verifParam("splinen", 4))
	verifC18check(verifC18kClamped, n)
	verifReach("end")
}

// verifC18grid: concrete irregular knot sets for NotAKnotCubic. Its Fit goes
// through the general (pivoted LU + condition estimate) solver, which is out
// of reach with symbolic matrix entries; with concrete knots the matrix is
// concrete and only the right hand side (the values) is symbolic.
func verifC18grid(id int) []float64 {
	switch id {
	case 0:
		return []float64{0, 1, 3, 4}
	case 1:
		return []float64{-2, -1.5, 0.25, 1, 5}
	case 2:
		return []float64{0, 0.5, 1, 1.5, 2, 2.5}
	}
	return []float64{-1, 0, 0.125, 3, 3.5, 7, 8}
}

func verifC18near(a, b float64, msg string) {
	d := a - b
	verifAssert(verifAnd(d <= 1e-9, -1e-9 <= d), msg)
}

// VerifC18_InterpSplineNotAKnot: concrete knots (4 grids, 4..7 knots), symbolic
// values in [-1,1]. Knot reproduction is exact; the continuity conditions
// depend on the natively (IEEE) factorised concrete matrix and are checked to
// 1e-9.
func VerifC18_InterpSplineNotAKnot() {
	xs := verifC18grid(verifChoose("grid", 0, verifParam("nakgrids", 3)))
	n := len(xs)
	ys := verifFloats("y", n)
	for i := range ys {
		verifAssume(verifAnd(-1 <= ys[i], ys[i] <= 1))
	}
	var nak NotAKnotCubic
	err := nak.Fit(xs, ys)
	verifAssert(err == nil, "Fit succeeds")
	if err != nil {
		return
	}
	c := &nak.cubic
	for i := 0; i < n; i++ {
		verifAssertEqF(nak.Predict(xs[i]), ys[i], "Predict(xs[i]) == ys[i]")
	}
	verifAssertEqF(nak.Predict(xs[0]-1), ys[0], "left extrapolation is ys[0]")
	verifAssertEqF(nak.Predict(xs[n-1]+1), ys[n-1], "right extrapolation is ys[n-1]")
	for i := 1; i < n; i++ {
		a := c.coeffs.RawRowView(i - 1)
		dx := xs[i] - xs[i-1]
		verifC18near(((a[3]*dx+a[2])*dx+a[1])*dx+a[0], ys[i], "value continuous at the knot")
		verifC18near((3*a[3]*dx+2*a[2])*dx+a[1], c.PredictDerivative(xs[i]), "first derivative continuous at the knot")
		if i < n-1 {
			verifC18near(6*a[3]*dx+2*a[2], 2*c.coeffs.At(i, 2), "second derivative continuous at the interior knot")
		}
	}
	verifC18near(c.coeffs.At(0, 3), c.coeffs.At(1, 3), "not-a-knot: third derivative continuous at the first interior knot")
	verifC18near(c.coeffs.At(n-3, 3), c.coeffs.At(n-2, 3), "not-a-knot: third derivative continuous at the last interior knot")
	verifReach("end")
}

// VerifC18_NotAKnotCubicData: not-a-knot splines reproduce cubic polynomials
// (concrete knots, symbolic coefficients in [-1,1], symbolic query point).
func VerifC18_NotAKnotCubicData() {
	xs := verifC18grid(verifChoose("grid", 0, verifParam("nakgrids", 3)))
	n := len(xs)
	cf := verifFloats("c", 4)
	for i := range cf {
		verifAssume(verifAnd(-1 <= cf[i], cf[i] <= 1))
	}
	poly := func(t float64) float64 { return ((cf[3]*t+cf[2])*t+cf[1])*t + cf[0] }
	ys := make([]float64, n)
	for i := range ys {
		ys[i] = poly(xs[i])
	}
	var nak NotAKnotCubic
	err := nak.Fit(xs, ys)
	verifAssert(err == nil, "Fit succeeds")
	if err != nil {
		return
	}
	q := verifFloat("q")
	verifAssume(verifAnd(xs[0] <= q, q <= xs[n-1]))
	d := nak.Predict(q) - poly(q)
	verifAssert(verifAnd(d <= 1e-6, -1e-6 <= d), "cubic data reproduced inside the knot range")
	verifReach("end")
}

// VerifC18_NotAKnotThreeKnots: the documentation admits 3 knots (one interior
// node: "It panics if len(xs) < 3"); Fit should then succeed.
func VerifC18_NotAKnotThreeKnots() {
	xs := []float64{0, 1, 3, 4}[:verifChoose("n", 3, 4)] // n = 4 is the clean control case
	ys := verifFloats("y", len(xs))
	var nak NotAKnotCubic
	err := nak.Fit(xs, ys)
	if len(xs) == 3 {
		verifAssert(err == nil, "NotAKnotCubic.Fit succeeds with 3 strictly increasing knots")
	} else {
		verifAssert(err == nil, "NotAKnotCubic.Fit succeeds with 4 strictly increasing knots")
	}
	verifReach("end")
}

// VerifC18_InterpLinearData: data on a straight line is reproduced exactly at
// an arbitrary query point inside the knot range (every interpolant except
// PiecewiseConstant and ClampedCubic, whose end slopes are forced to 0;
// NotAKnotCubic: see VerifC18_NotAKnotCubicData).
func VerifC18_InterpLinearData() {
	k := verifChoose("kind", 0, 3)
	kind := []int{verifC18kLinear, verifC18kAkima, verifC18kFritschButland, verifC18kNatural}[k]
	n := verifChoose("n", 2, verifParam("lineardatan", 4))
	xs := verifC18knots(n)
	al, be := verifFloat("alpha"), verifFloat("beta")
	ys := make([]float64, n)
	for i := range ys {
		ys[i] = al + be*xs[i]
	}
	p, cubic, err := verifC18fit(kind, xs, ys)
	verifAssert(err == nil, "Fit succeeds")
	if err != nil {
		return
	}
	q := verifFloat("q")
	verifAssume(verifAnd(xs[0] <= q, q <= xs[n-1]))
	verifAssertEqF(p.Predict(q), al+be*q, "linear data reproduced at every point of the knot range")
	if cubic != nil {
		verifAssume(q < xs[n-1])
		verifAssertEqF(cubic.PredictDerivative(q), be, "derivative of linear data is the slope")
	}
	verifReach("end")
}

// VerifC18_InterpPiecewiseDefinition: PiecewiseLinear / PiecewiseConstant at an
// arbitrary query point against their definitions.
func VerifC18_InterpPiecewiseDefinition() {
	kind := verifChoose("kind", verifC18kLinear, verifC18kConstant)
	n := verifChoose("n", 2, verifParam("interpn", 4))
	xs := verifC18knots(n)
	ys := verifFloats("y", n)
	p, _, _ := verifC18fit(kind, xs, ys)
	q := verifFloat("q")
	got := p.Predict(q)
	for i := 0; i+1 < n; i++ {
		if kind == verifC18kLinear {
			in := verifAnd(xs[i] <= q, q <= xs[i+1])
			want := ys[i] + (ys[i+1]-ys[i])*(q-xs[i])/(xs[i+1]-xs[i])
			verifAssert(verifImplies(in, got == want), "PiecewiseLinear is the chord on [xs[i], xs[i+1]]")
		} else {
			in := verifAnd(xs[i] < q, q <= xs[i+1])
			verifAssert(verifImplies(in, got == ys[i+1]), "PiecewiseConstant is ys[i+1] on (xs[i], xs[i+1]]")
		}
	}
	verifAssert(verifImplies(q <= xs[0], got == ys[0]), "left of the knots: ys[0]")
	verifAssert(verifImplies(q >= xs[n-1], got == ys[n-1]), "right of the knots: ys[n-1]")
	verifReach("end")
}

// VerifC18_FritschButlandMonotone: on monotone data the fitted end-point
// derivatives of every piece satisfy the Fritsch-Carlson sufficient condition
// for monotonicity (0 <= d_i/delta, d_{i+1}/delta <= 3), so no new extrema.
func VerifC18_FritschButlandMonotone() {
	n := verifChoose("n", 2, verifParam("fbn", 4))
	xs := verifC18knots(n)
	ys := make([]float64, n)
	ys[0] = verifFloat("y0")
	for i := 1; i < n; i++ {
		s := verifFloat(verifC18name("rise", i))
		verifAssume(s >= 0)
		ys[i] = ys[i-1] + s
	}
	var fb FritschButland
	fb.Fit(xs, ys)
	for i := 0; i+1 < n; i++ {
		delta := (ys[i+1] - ys[i]) / (xs[i+1] - xs[i])
		d0 := fb.PredictDerivative(xs[i])
		d1 := fb.PredictDerivative(xs[i+1])
		verifAssert(verifAnd(0 <= d0, d0 <= 3*delta), "left derivative within [0, 3*delta]")
		verifAssert(verifAnd(0 <= d1, d1 <= 3*delta), "right derivative within [0, 3*delta]")
	}
	verifReach("end")
}

// VerifC18_InterpValidation: documented panics.
func VerifC18_InterpValidation() {
	kind := verifChoose("kind", verifC18kLinear, verifC18kNotAKnot)
	nx := verifChoose("nx", 0, 3)
	ny := verifChoose("ny", 0, 3)
	xs := verifFloats("x", nx)
	ys := verifFloats("y", ny)
	strict := true
	for i := 1; i < nx; i++ {
		strict = verifAnd(strict, xs[i-1] < xs[i])
	}
	if kind == verifC18kNotAKnot && nx == 3 && ny == 3 {
		// valid input would go through the general banded solve with symbolic
		// entries (too expensive, see VerifC18_InterpSplineNotAKnot): only the
		// invalid side is explored here.
		verifAssume(!strict)
	}
	panicked, _, _ := verifCatch(func() { verifC18fit(kind, xs, ys) })
	min := 2
	if kind == verifC18kNotAKnot {
		min = 3
	}
	bad := verifOr(nx != ny || nx < min, !strict)
	verifAssert(verifImplies(bad, panicked), "Fit panics on mismatched lengths, too few points or non-increasing xs")
	verifAssert(verifImplies(panicked, bad), "Fit panics only on invalid input")
	verifReach("end")
}

// VerifC18_ClampedCubicTwoEqualKnots: the doc of ClampedCubic.Fit says it
// panics if the xs are not strictly increasing. With exactly two knots the
// check inside makeCubicSplineSecondDerivativeEquations is skipped (n > 2
// only); before /repo 44f53e3 Fit returned a singular-matrix error for
// xs[0] == xs[1] instead (finding F10, fixed). Case 1 is xs[0] > xs[1].
func VerifC18_ClampedCubicTwoEqualKnots() {
	x0 := verifFloat("x0")
	ys := verifFloats("y", 2)
	var cc ClampedCubic
	if verifChoose("case", 0, 1) == 0 {
		panicked, _, _ := verifCatch(func() { cc.Fit([]float64{x0, x0}, ys) })
		verifAssert(panicked, "ClampedCubic.Fit panics on two equal knots")
	} else {
		d := verifFloat("d")
		verifAssume(d > 0)
		panicked, _, _ := verifCatch(func() { cc.Fit([]float64{x0, x0 - d}, ys) })
		verifAssert(panicked, "ClampedCubic.Fit panics on two decreasing knots")
	}
	verifReach("end")
}
