package selftest

import (
	"gonum.org/v1/gonum/graph"
	"gonum.org/v1/gonum/graph/simple"
)

// VerifSelf_SafeGraphIter: map-backed iterators of graph/simple under the
// `safe` build tag (reflect shim) agree with the native run.
func VerifSelf_SafeGraphIter() {
	k := verifInt("k", 0, 3)
	g := simple.NewDirectedGraph()
	for i := int64(0); i < 4; i++ {
		g.AddNode(simple.Node(i * 3))
	}
	g.SetEdge(simple.Edge{F: simple.Node(0), T: simple.Node(3)})
	g.SetEdge(simple.Edge{F: simple.Node(0), T: simple.Node(6)})
	g.SetEdge(simple.Edge{F: simple.Node(3), T: simple.Node(9)})
	if k == 2 {
		g.RemoveNode(6)
	}
	sum, cnt := int64(0), 0
	it := g.Nodes()
	verifObserveInt("len0", it.Len())
	for it.Next() {
		sum += it.Node().ID()
		cnt++
	}
	verifObserveInt("sum", int(sum))
	verifObserveInt("cnt", cnt)
	from := g.From(0)
	fs := int64(0)
	for from.Next() {
		fs += from.Node().ID()
	}
	verifObserveInt("from0", int(fs))
	to := graph.NodesOf(g.To(9))
	verifObserveInt("to9", len(to))
	es := graph.EdgesOf(g.Edges())
	verifObserveInt("edges", len(es))
	it.Reset()
	verifObserveInt("lenreset", it.Len())
}
