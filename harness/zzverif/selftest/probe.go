package selftest

import "gonum.org/v1/gonum/mat"

var _ = mat.NewDense

func VerifSelf_Probe() {
	k := verifChoose("k", 0, 999)
	_ = k
	verifReach("end")
}
