package selftest

// Translator validation: each harness computes observations from symbolic
// inputs with ordinary Go code; the engine's values (under a solver model of
// the path) must equal what the natively compiled code prints for the same
// inputs.

import (
	"container/heap"
	"errors"
	"math"
	"math/bits"
	"sort"
	"strings"
)

func VerifSelf_IntOps() {
	x := verifInt64("x")
	y := verifInt64("y")
	verifAssume(y != 0)
	verifObserveInt("add", int(x+y))
	verifObserveInt("sub", int(x-y))
	verifObserveInt("mul", int(x*y))
	verifObserveInt("div", int(x/y))
	verifObserveInt("rem", int(x%y))
	verifObserveInt("and", int(x&y))
	verifObserveInt("or", int(x|y))
	verifObserveInt("xor", int(x^y))
	verifObserveInt("andnot", int(x&^y))
	verifObserveInt("neg", int(-x))
	verifObserveInt("not", int(^x))
	verifObserveInt("shl3", int(x<<3))
	verifObserveInt("shr2", int(x>>2))
	verifObserveInt("ushr2", int(uint64(x)>>2))
	s := uint(y) & 127
	verifObserveInt("shlsym", int(x<<s))
	verifObserveInt("shrsym", int(x>>s))
	verifObserveInt("ushrsym", int(uint64(x)>>s))
	verifObserveInt("i8", int(int8(x)))
	verifObserveInt("u8", int(uint8(x)))
	verifObserveInt("i16", int(int16(x)))
	verifObserveInt("u16", int(uint16(x)))
	verifObserveInt("i32", int(int32(x)))
	verifObserveInt("u32", int(uint32(x)))
	verifObserveInt("i32mul", int(int32(x)*int32(y)))
	verifObserveInt("u8add", int(uint8(x)+uint8(y)))
	verifObserveInt("udiv", int(uint64(x)/uint64(y)))
	verifObserveInt("urem", int(uint64(x)%uint64(y)))
	verifObserveBool("lt", x < y)
	verifObserveBool("ult", uint64(x) < uint64(y))
	verifObserveInt("lz", bits.LeadingZeros64(uint64(x)))
	verifObserveInt("tz", bits.TrailingZeros64(uint64(x)))
	verifObserveInt("pop", bits.OnesCount64(uint64(x)))
	verifObserveInt("len", bits.Len64(uint64(y)))
	hi, lo := bits.Mul64(uint64(x), uint64(y))
	verifObserveInt("mulhi", int(hi))
	verifObserveInt("mullo", int(lo))
	verifObserveInt("rev", int(bits.ReverseBytes64(uint64(x))))
	verifObserveInt("rotl", int(bits.RotateLeft64(uint64(x), 13)))
}

func VerifSelf_FloatOps() {
	a := verifFloat("a")
	b := verifFloat("b")
	c := verifFloat("c")
	verifAssume(b != 0)
	verifObserveF("fma", a+b*c)
	verifObserveF("div", a/b)
	verifObserveF("abs", math.Abs(a-c))
	verifObserveF("max", math.Max(a, c))
	verifObserveF("min", math.Min(a, c))
	verifObserveF("neg", -a)
	verifObserveBool("lt", a < c)
	verifObserveBool("le", a <= c)
	verifObserveBool("eq", a == c)
	verifObserveF("sq", a*a+c*c)
	verifObserveF("hyp2", math.Hypot(a, c)*math.Hypot(a, c))
	verifObserveF("copysign", math.Copysign(a, c))
	verifObserveF("pow3", math.Pow(a, 3))
	z := complex(a, b) * complex(c, a)
	verifObserveF("cre", real(z))
	verifObserveF("cim", imag(z))
	n := verifInt("n", -5, 5)
	verifObserveF("itof", float64(n)*a)
}

type selfPair struct {
	a, b int
	arr  [3]int
}

func (p selfPair) sum() int   { return p.a + p.b + p.arr[0] + p.arr[1] + p.arr[2] }
func (p *selfPair) bump(k int) { p.a += k; p.arr[1] += k }

type selfShape interface{ area() int }
type selfRect struct{ w, h int }
type selfSq struct{ s int }

func (r selfRect) area() int { return r.w * r.h }
func (s *selfSq) area() int  { return s.s * s.s }

func selfGeneric[T int | int64](xs []T) T {
	var s T
	for _, x := range xs {
		s += x
	}
	return s
}

func VerifSelf_Aggregates() {
	x := verifInt("x", -100, 100)
	y := verifInt("y", -100, 100)
	p := selfPair{a: x, b: y, arr: [3]int{x, y, x + y}}
	q := p // copy
	q.bump(3)
	verifObserveInt("psum", p.sum())
	verifObserveInt("qsum", q.sum())
	pf := &p.b
	p = selfPair{a: 1}
	*pf += 5
	verifObserveInt("alias", p.b)
	arr := p.arr
	arr[2] = 9
	verifObserveInt("arrcopy", p.arr[2]+arr[2])
	// slices
	s := make([]int, 2, 4)
	s[0], s[1] = x, y
	t := append(s, 7)
	u := append(s, 8) // shares backing with t
	verifObserveInt("share", t[2]+u[2])
	v := append(t, 1, 2, 3) // reallocates
	v[0] = 100
	verifObserveInt("realloc", t[0]+v[0]+len(v)+cap(t))
	w := v[1:3:4]
	verifObserveInt("three", len(w)*10+cap(w))
	n := copy(v[2:], v[:3])
	verifObserveInt("copy", n*1000+v[2]+v[3]+v[4])
	// maps
	m := map[int]int{1: x, 2: y}
	m[3] = x * 2
	delete(m, 1)
	tot := 0
	for k, val := range m {
		tot += k*1000 + val
	}
	_, ok := m[1]
	verifObserveInt("map", tot+len(m))
	verifObserveBool("mapok", ok)
	ms := map[string][]int{"a": {x}, "b": {y, y}}
	ms["a"] = append(ms["a"], 4)
	verifObserveInt("mapslice", len(ms["a"])*10+len(ms["b"])+ms["a"][0])
	// interfaces
	shapes := []selfShape{selfRect{x, 2}, &selfSq{y}}
	area := 0
	for _, sh := range shapes {
		switch v := sh.(type) {
		case selfRect:
			area += v.area() + 1
		case *selfSq:
			area += v.area() + 2
		}
	}
	verifObserveInt("area", area)
	f := shapes[1].area
	verifObserveInt("methodvalue", f())
	verifObserveInt("generic", int(selfGeneric([]int64{int64(x), int64(y), 3}))+selfGeneric([]int{x, 1}))
}

func selfDefer(x int) (r int, err error) {
	defer func() {
		if e := recover(); e != nil {
			r = -r - 1
			err = errors.New("recovered")
		}
	}()
	defer func() { r *= 2 }()
	r = x + 1
	if x > 10 {
		var a []int
		_ = a[x] // runtime panic
	}
	if x < -10 {
		panic("neg")
	}
	return r + 1, nil
}

func VerifSelf_Control() {
	x := verifInt("x", -30, 30)
	r, err := selfDefer(x)
	verifObserveInt("defer", r)
	verifObserveBool("err", err != nil)
	// phi swaps
	a, b := 0, 1
	for i := 0; i < 10; i++ {
		a, b = b, a+b
	}
	verifObserveInt("fib", a+x)
	// switch
	k := 0
	switch {
	case x < -5:
		k = 1
	case x < 5:
		k = 2
		fallthrough
	case x == 100:
		k += 10
	default:
		k = 3
	}
	verifObserveInt("switch", k)
	// closures capturing by reference
	cnt := 0
	inc := func(d int) func() int {
		return func() int { cnt += d; return cnt }
	}
	i1, i2 := inc(1), inc(x)
	i1()
	i2()
	verifObserveInt("closure", i1()+cnt)
	// labeled loops
	tot := 0
outer:
	for i := 0; i < 4; i++ {
		for j := 0; j < 4; j++ {
			if j == 2 {
				continue outer
			}
			if i == 3 {
				break outer
			}
			tot += i*10 + j
		}
	}
	verifObserveInt("labels", tot)
	panicked, fault, msg := verifCatch(func() {
		var m map[int]int
		m[1] = x
	})
	verifObserveBool("nilmap", panicked && fault)
	_ = msg
	p2, f2, msg2 := verifCatch(func() { panic(errors.New("boom")) })
	verifObserveBool("errpanic", p2 && !f2)
	verifObserveStr("errmsg", msg2)
}

type selfHeap []int

func (h selfHeap) Len() int            { return len(h) }
func (h selfHeap) Less(i, j int) bool  { return h[i] < h[j] }
func (h selfHeap) Swap(i, j int)       { h[i], h[j] = h[j], h[i] }
func (h *selfHeap) Push(x interface{}) { *h = append(*h, x.(int)) }
func (h *selfHeap) Pop() interface{} {
	old := *h
	n := len(old)
	x := old[n-1]
	*h = old[:n-1]
	return x
}

func VerifSelf_StdLib() {
	xs := verifInts("xs", 4, -9, 9)
	cp := append([]int(nil), xs...)
	sort.Ints(cp)
	verifObserveInt("sorted", cp[0]*1000000+cp[1]*10000+cp[2]*100+cp[3])
	cp2 := append([]int(nil), xs...)
	sort.Slice(cp2, func(i, j int) bool { return cp2[i] > cp2[j] })
	verifObserveInt("sortslice", cp2[0]*1000000+cp2[1]*10000+cp2[2]*100+cp2[3])
	h := &selfHeap{}
	for _, x := range xs {
		heap.Push(h, x)
	}
	first := heap.Pop(h).(int)
	second := heap.Pop(h).(int)
	verifObserveInt("heap", first*100+second)
	idx := sort.SearchInts(cp, 0)
	verifObserveInt("search", idx)
	s := "ab" + string(rune('a'+(xs[0]+9)%26)) + "z"
	verifObserveStr("str", strings.ToUpper(s)+s[1:3])
	verifObserveInt("strcmp", strings.Compare(s, "abm"))
	bs := []byte(s)
	bs[0] = 'Q'
	verifObserveStr("bytes", string(bs)+s)
	verifObserveBool("inf", math.IsInf(math.Inf(1), 0) && !math.IsNaN(1.5) && math.IsNaN(math.NaN()))
	verifObserveF("sqrt", math.Sqrt(2)*float64(xs[1]))
	verifObserveF("floor", math.Floor(2.5)+math.Exp(0.5)+math.Log(3))
}

func VerifSelf_Bytes() {
	b := verifBytes("b", 4)
	s := string(b)
	n := 0
	for i := 0; i < len(s); i++ {
		if s[i] >= 'a' && s[i] <= 'z' {
			n++
		}
	}
	verifObserveInt("lower", n)
	i := verifInt("i", 0, 3)
	verifObserveInt("idx", int(b[i])+int(s[3-i]))
	u := uint32(b[0]) | uint32(b[1])<<8 | uint32(b[2])<<16 | uint32(b[3])<<24
	verifObserveInt("le32", int(u))
	verifObserveBool("streq", s == "abcd")
	verifObserveBool("strlt", s < "m")
}
