package selftest

import "strings"

// VerifSelf_Unicode: string ranging with U+FFFD and unicode tables.
func VerifSelf_Unicode() {
	s := string([]rune{0xfffd}) + "\xff" + "é"
	n := 0
	for range s {
		n++
	}
	verifAssert(n == 3, "three runes")
	verifObserveInt("n", n)
	verifAssert(strings.EqualFold("É", "é"), "EqualFold non-ASCII")
	verifAssert(!strings.EqualFold("€", "node"), "EqualFold terminates")
	verifObserveStr("up", strings.ToUpper("straße é"))
	verifReach("end")
}
