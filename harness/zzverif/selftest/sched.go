package selftest

import "sync"

// Scheduler self-tests: small concurrent programs whose outcome is known.

// VerifSelf_SchedWorkerPool: a worker pool over a buffered job channel with a
// mutex-protected accumulator and a WaitGroup. Race free, deadlock free, the
// sum is schedule independent.
func VerifSelf_SchedWorkerPool() {
	verifSched(verifParam("schedk", 2))
	nw := verifChoose("workers", 1, 3)
	n := verifChoose("jobs", 0, 4)
	jobs := make(chan int, 2)
	var mu sync.Mutex
	var wg sync.WaitGroup
	sum := 0
	cnt := make([]int, nw)
	for w := 0; w < nw; w++ {
		wg.Add(1)
		go func(w int) {
			defer wg.Done()
			for j := range jobs {
				mu.Lock()
				sum += j
				mu.Unlock()
				cnt[w]++
			}
		}(w)
	}
	for j := 1; j <= n; j++ {
		jobs <- j
	}
	close(jobs)
	wg.Wait()
	verifAssert(sum == n*(n+1)/2, "sum over all jobs")
	tot := 0
	for _, c := range cnt {
		tot += c
	}
	verifAssert(tot == n, "every job handled exactly once")
	verifAssert(verifSchedDrain() == 0, "no goroutine left behind")
	verifObserveInt("sum", sum)
	verifReach("end")
}

// VerifSelf_SchedUnbuffered: rendezvous channels, a results channel and a
// select with a quit channel.
func VerifSelf_SchedUnbuffered() {
	verifSched(verifParam("schedk", 2))
	n := verifChoose("n", 0, 3)
	in := make(chan int)
	out := make(chan int)
	quit := make(chan struct{})
	go func() {
		for {
			select {
			case v := <-in:
				out <- 2 * v
			case <-quit:
				return
			}
		}
	}()
	tot := 0
	for i := 1; i <= n; i++ {
		in <- i
		tot += <-out
	}
	close(quit)
	verifAssert(tot == n*(n+1), "doubled sum")
	verifAssert(verifSchedDrain() == 0, "worker exits on quit")
	verifObserveInt("tot", tot)
	verifReach("end")
}

// VerifSelf_SchedRace (expected to be REPORTED): two goroutines add to one
// cell without synchronisation.
func VerifSelf_SchedRace() {
	verifSched(2)
	var wg sync.WaitGroup
	x := 0
	for i := 0; i < 2; i++ {
		wg.Add(1)
		go func() {
			defer wg.Done()
			x++
		}()
	}
	wg.Wait()
	_ = x
	verifReach("end")
}

// VerifSelf_SchedDeadlock (expected to be REPORTED): a receive nobody answers.
func VerifSelf_SchedDeadlock() {
	verifSched(2)
	c := make(chan int)
	var wg sync.WaitGroup
	wg.Add(1)
	go func() {
		defer wg.Done()
		<-c
	}()
	wg.Wait()
	verifReach("end")
}

// VerifSelf_SchedLeak (expected to be REPORTED through the assertion): the
// worker blocks for ever on a send nobody receives.
func VerifSelf_SchedLeak() {
	verifSched(2)
	c := make(chan int)
	go func() { c <- 1 }()
	verifAssert(verifSchedDrain() == 0, "no goroutine left behind")
	verifReach("end")
}

// VerifSelf_SchedOrder: the result depends on the schedule (which of two
// senders is received first): both outcomes must be explored.
func VerifSelf_SchedOrder() {
	verifSched(2)
	c := make(chan int, 2)
	var wg sync.WaitGroup
	for i := 1; i <= 2; i++ {
		wg.Add(1)
		go func(i int) {
			defer wg.Done()
			c <- i
		}(i)
	}
	wg.Wait()
	first := <-c
	if first == 1 {
		verifReach("first=1")
	} else {
		verifReach("first=2")
	}
	verifAssert(first+<-c == 3, "both values arrive")
}
