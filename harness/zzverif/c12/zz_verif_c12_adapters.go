package c12

import (
	"math"

	"gonum.org/v1/gonum/graph"
	"gonum.org/v1/gonum/graph/iterator"
	"gonum.org/v1/gonum/graph/multi"
	"gonum.org/v1/gonum/graph/simple"
)

// c12Drain checks a node iterator against the expected index set: Len counts
// down, each expected node exactly once, nothing else, Reset restarts.
func c12Drain(it graph.Nodes, n int, want []bool, who string) {
	cnt := 0
	for _, w := range want {
		if w {
			cnt++
		}
	}
	for round := 0; round < 2; round++ {
		seen := make([]int, n)
		verifAssert(it.Len() == cnt, who+": Len before iteration is the number of elements")
		k := 0
		for it.Next() {
			k++
			verifAssert(k <= cnt, who+": no more elements than expected")
			if k > cnt {
				return
			}
			nd := it.Node()
			verifAssert(nd != nil, who+": Node is non-nil after Next returned true")
			if nd == nil {
				return
			}
			i := -1
			for j := 0; j < n; j++ {
				if c12IDs[j] == nd.ID() {
					i = j
				}
			}
			verifAssert(i >= 0 && want[i], who+": only expected elements are produced")
			if i >= 0 {
				seen[i]++
			}
			verifAssert(it.Len() == cnt-k, who+": Len is the number of remaining elements")
		}
		verifAssert(k == cnt, who+": every element is produced")
		for i := range seen {
			verifAssert(!want[i] || seen[i] == 1, who+": each element exactly once")
		}
		verifAssert(!it.Next(), who+": Next stays false when exhausted")
		it.Reset()
	}
}

// VerifC12_Undirect: graph.Undirect over every digraph: neighbours are the
// union of successors and predecessors (each once), symmetric edge queries.
func VerifC12_Undirect() {
	n := verifParam("an", 3)
	g := c12Directed(n, false)
	u := graph.Undirect{G: g}
	all := make([]bool, n)
	for i := range all {
		all[i] = true
	}
	c12Drain(u.Nodes(), n, all, "Undirect.Nodes")
	for i := 0; i < n; i++ {
		nb := make([]bool, n)
		for j := 0; j < n; j++ {
			e := g.adj[i][j] || g.adj[j][i]
			nb[j] = e
			verifAssert(u.HasEdgeBetween(c12IDs[i], c12IDs[j]) == e, "Undirect.HasEdgeBetween is the symmetric closure")
			eb := u.EdgeBetween(c12IDs[i], c12IDs[j])
			verifAssert((eb != nil) == e, "Undirect.EdgeBetween is non-nil iff an edge exists in either direction")
			verifAssert((u.Edge(c12IDs[i], c12IDs[j]) != nil) == e, "Undirect.Edge agrees with EdgeBetween")
			if eb != nil {
				a, b := eb.From().ID(), eb.To().ID()
				verifAssert((a == c12IDs[i] && b == c12IDs[j]) || (a == c12IDs[j] && b == c12IDs[i]), "Undirect.EdgeBetween joins the two nodes")
			}
		}
		c12Drain(u.From(c12IDs[i]), n, nb, "Undirect.From")
		nd := u.Node(c12IDs[i])
		verifAssert(nd != nil && nd.ID() == c12IDs[i], "Undirect.Node")
	}
	verifAssert(u.Node(c12Absent) == nil, "Undirect.Node of an absent ID is nil")
	c12Drain(u.From(c12Absent), n, make([]bool, n), "Undirect.From(absent)")
	verifReach("end")
}

// VerifC12_UndirectWeighted: default merge is the mean of the two directed
// weights with Absent standing in for a missing direction.
func VerifC12_UndirectWeighted() {
	n := verifParam("an", 3)
	g := c12Directed(n, true)
	absent := verifFloat("absent")
	u := graph.UndirectWeighted{G: g, Absent: absent}
	for i := 0; i < n; i++ {
		nb := make([]bool, n)
		for j := 0; j < n; j++ {
			if i == j {
				continue
			}
			e := g.adj[i][j] || g.adj[j][i]
			nb[j] = e
			f, r := absent, absent
			if g.adj[i][j] {
				f = g.w[i][j]
			}
			if g.adj[j][i] {
				r = g.w[j][i]
			}
			w, ok := u.Weight(c12IDs[i], c12IDs[j])
			verifAssert(ok == e, "UndirectWeighted.Weight ok iff an edge exists in either direction")
			verifAssertEqF(w, (f+r)/2, "UndirectWeighted.Weight is the mean of both directions (Absent for a missing one)")
			we := u.WeightedEdgeBetween(c12IDs[i], c12IDs[j])
			verifAssert((we != nil) == e, "UndirectWeighted.WeightedEdgeBetween non-nil iff an edge exists")
			if we != nil {
				verifAssertEqF(we.Weight(), (f+r)/2, "UndirectWeighted edge weight is the merged weight")
			}
			verifAssert(u.HasEdgeBetween(c12IDs[i], c12IDs[j]) == e, "UndirectWeighted.HasEdgeBetween")
		}
		c12Drain(u.From(c12IDs[i]), n, nb, "UndirectWeighted.From")
	}
	// custom merge
	u.Merge = func(x, y float64, _, _ graph.Edge) float64 { return x - 2*y }
	for i := 0; i < n; i++ {
		for j := 0; j < n; j++ {
			if i == j || !(g.adj[i][j] || g.adj[j][i]) {
				continue
			}
			f, r := absent, absent
			if g.adj[i][j] {
				f = g.w[i][j]
			}
			if g.adj[j][i] {
				r = g.w[j][i]
			}
			w, _ := u.Weight(c12IDs[i], c12IDs[j])
			verifAssertEqF(w, f-2*r, "UndirectWeighted.Weight applies Merge to (forward, reverse)")
		}
	}
	verifReach("end")
}

// VerifC12_Copy: graph.Copy / CopyWeighted into each map-backed simple graph
// reproduce the source's node and edge sets (iterator-free queries on dst).
func VerifC12_Copy() {
	n := verifParam("an", 3)
	kind := verifChoose("kind", 0, 3)
	directed := kind == 0 || kind == 2
	var g *c12Graph
	var src graph.Weighted
	if directed {
		g = c12Directed(n, kind >= 2)
		src = g
	} else {
		ug := c12Undirected(n, kind >= 2)
		g = ug.c12Graph
		src = ug
	}
	var dst graph.Graph
	switch kind {
	case 0:
		d := simple.NewDirectedGraph()
		graph.Copy(d, src)
		dst = d
	case 1:
		d := simple.NewUndirectedGraph()
		graph.Copy(d, src)
		dst = d
	case 2:
		d := simple.NewWeightedDirectedGraph(0, math.Inf(1))
		graph.CopyWeighted(d, src)
		dst = d
	default:
		d := simple.NewWeightedUndirectedGraph(0, math.Inf(1))
		graph.CopyWeighted(d, src)
		dst = d
	}
	for i := 0; i < n; i++ {
		nd := dst.Node(c12IDs[i])
		verifAssert(nd != nil && nd.ID() == c12IDs[i], "Copy: every source node is in the destination")
		for j := 0; j < n; j++ {
			e := g.adj[i][j]
			verifAssert((dst.Edge(c12IDs[i], c12IDs[j]) != nil) == e, "Copy: destination has exactly the source's edges")
			verifAssert(dst.HasEdgeBetween(c12IDs[i], c12IDs[j]) == (e || g.adj[j][i]), "Copy: HasEdgeBetween agrees")
			if wd, ok := dst.(graph.Weighted); ok && e {
				w, wok := wd.Weight(c12IDs[i], c12IDs[j])
				verifAssert(wok, "CopyWeighted: weight present")
				verifAssertEqF(w, g.w[i][j], "CopyWeighted: weights are preserved")
			}
		}
	}
	verifAssert(dst.Node(c12Absent) == nil, "Copy: no extra nodes")
	verifReach("end")
}

// VerifC12_OrderedIterators: the slice-backed iterators honour the iterator
// contract (Len, Next, Node, Reset, NodeSlice of the remaining elements).
func VerifC12_OrderedIterators() {
	n := verifChoose("len", 0, 4)
	nodes := make([]graph.Node, n)
	want := make([]bool, 5)
	for i := range nodes {
		nodes[i] = c12Node(c12IDs[i])
		want[i] = true
	}
	c12Drain(iterator.NewOrderedNodes(nodes), 5, want, "OrderedNodes")
	// NodeSlice after k steps holds the remaining elements in order
	k := verifChoose("steps", 0, 4)
	if k > n {
		return
	}
	it := iterator.NewOrderedNodes(nodes)
	for s := 0; s < k; s++ {
		verifAssert(it.Next(), "OrderedNodes: Next is true while elements remain")
	}
	rest := it.NodeSlice()
	verifAssert(len(rest) == n-k, "OrderedNodes.NodeSlice: the remaining elements")
	for i := range rest {
		verifAssert(rest[i].ID() == c12IDs[k+i], "OrderedNodes.NodeSlice: in order")
	}
	// ImplicitNodes over [beg, end)
	beg := verifChoose("beg", -1, 1)
	imp := iterator.NewImplicitNodes(beg, beg+n, func(id int) graph.Node { return c12Node(id) })
	verifAssert(imp.Len() == n, "ImplicitNodes.Len")
	for round := 0; round < 2; round++ {
		for i := 0; i < n; i++ {
			verifAssert(imp.Next(), "ImplicitNodes: Next while elements remain")
			verifAssert(imp.Node().ID() == int64(beg+i), "ImplicitNodes: consecutive IDs")
			verifAssert(imp.Len() == n-i-1, "ImplicitNodes: Len counts down")
		}
		verifAssert(!imp.Next(), "ImplicitNodes: exhausted")
		imp.Reset()
	}
	verifReach("end")
}

// VerifC12_OrderedEdgeLineLen: the slice-backed edge and line iterators
// (OrderedEdges, OrderedWeightedEdges, OrderedLines, OrderedWeightedLines):
// "Len returns the number of items remaining in the iterator" — after k calls
// of Next that returned true, n-k items remain (as OrderedNodes and the
// map-backed iterators report), and the Slice method returns exactly those.
// Found F-C12-2 (Len was remaining+1, Slice repeated the current item), fixed
// in /repo commit fae482f.
func VerifC12_OrderedEdgeLineLen() {
	n := verifChoose("len", 1, 3)
	k := verifChoose("steps", 0, 3)
	if k > n {
		return
	}
	kind := verifChoose("kind", 0, 3)
	var it graph.Iterator
	var rest func() int
	switch kind {
	case 0:
		xs := make([]graph.Edge, n)
		for i := range xs {
			xs[i] = simple.Edge{F: simple.Node(i), T: simple.Node(i + 1)}
		}
		e := iterator.NewOrderedEdges(xs)
		it, rest = e, func() int { return len(e.EdgeSlice()) }
	case 1:
		xs := make([]graph.WeightedEdge, n)
		for i := range xs {
			xs[i] = simple.WeightedEdge{F: simple.Node(i), T: simple.Node(i + 1), W: 1}
		}
		e := iterator.NewOrderedWeightedEdges(xs)
		it, rest = e, func() int { return len(e.WeightedEdgeSlice()) }
	case 2:
		xs := make([]graph.Line, n)
		for i := range xs {
			xs[i] = multi.Line{F: multi.Node(0), T: multi.Node(1), UID: int64(i)}
		}
		e := iterator.NewOrderedLines(xs)
		it, rest = e, func() int { return len(e.LineSlice()) }
	default:
		xs := make([]graph.WeightedLine, n)
		for i := range xs {
			xs[i] = multi.WeightedLine{F: multi.Node(0), T: multi.Node(1), W: 1, UID: int64(i)}
		}
		e := iterator.NewOrderedWeightedLines(xs)
		it, rest = e, func() int { return len(e.WeightedLineSlice()) }
	}
	verifAssert(it.Len() == n, "ordered edge/line iterator: Len before iteration is the number of items")
	for s := 0; s < k; s++ {
		verifAssert(it.Next(), "ordered edge/line iterator: Next is true while items remain")
		verifAssert(it.Len() == n-s-1, "ordered edge/line iterator: Len is the number of items remaining after Next")
	}
	verifAssert(rest() == n-k, "ordered edge/line iterator: the Slice method returns the remaining items")
	verifAssert(it.Len() == 0 && !it.Next(), "ordered edge/line iterator: exhausted after the Slice method")
	it.Reset()
	verifAssert(it.Len() == n, "ordered edge/line iterator: Reset restores Len")
	verifReach("end")
}
