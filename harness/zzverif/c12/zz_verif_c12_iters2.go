package c12

import (
	"math"

	"gonum.org/v1/gonum/graph"
	"gonum.org/v1/gonum/graph/iterator"
	"gonum.org/v1/gonum/graph/multi"
	"gonum.org/v1/gonum/graph/simple"
)

// C12: iterator contracts of graph/iterator beyond Len: the items themselves
// (k-th Next delivers the k-th item; item method is nil before the first Next),
// the Slice methods (remaining items, in order), the lazily materialised
// map iterators (default build), the reflect-based map iterators (tag safe),
// the graph.*Of helpers, and graph.Copy into non-empty / differently directed
// destinations.

// c12NodesOnly hides the NodeSlice method of an iterator.
type c12NodesOnly struct{ it graph.Nodes }

func (n c12NodesOnly) Next() bool       { return n.it.Next() }
func (n c12NodesOnly) Len() int         { return n.it.Len() }
func (n c12NodesOnly) Reset()           { n.it.Reset() }
func (n c12NodesOnly) Node() graph.Node { return n.it.Node() }

// c12UnknownLen reports a negative length ("unknown").
type c12UnknownLen struct{ c12NodesOnly }

func (n c12UnknownLen) Len() int { return -1 }

// VerifC12_OrderedItems: OrderedEdges / OrderedWeightedEdges / OrderedLines /
// OrderedWeightedLines deliver their items in the given order, nil before the
// first Next, and the Slice methods / graph.*Of return the remaining items in
// order.
func VerifC12_OrderedItems() {
	n := verifChoose("len", 0, 3)
	k := verifChoose("steps", 0, 3)
	if k > n {
		return
	}
	kind := verifChoose("kind", 0, 3)
	useOf := verifChoose("of", 0, 1) == 1
	// item IDs: edge i runs i -> i+1; line i has UID 10+i
	var next func() bool
	var cur func() int // id of the current item, -1 if nil
	var rest func() []int
	switch kind {
	case 0:
		xs := make([]graph.Edge, n)
		for i := range xs {
			xs[i] = simple.Edge{F: simple.Node(i), T: simple.Node(i + 1)}
		}
		it := iterator.NewOrderedEdges(xs)
		next = it.Next
		cur = func() int {
			if e := it.Edge(); e != nil {
				return int(e.From().ID())
			}
			return -1
		}
		rest = func() []int {
			var es []graph.Edge
			if useOf {
				es = graph.EdgesOf(it)
			} else {
				es = it.EdgeSlice()
			}
			var r []int
			for _, e := range es {
				r = append(r, int(e.From().ID()))
			}
			return r
		}
	case 1:
		xs := make([]graph.WeightedEdge, n)
		for i := range xs {
			xs[i] = simple.WeightedEdge{F: simple.Node(i), T: simple.Node(i + 1), W: float64(i)}
		}
		it := iterator.NewOrderedWeightedEdges(xs)
		next = it.Next
		cur = func() int {
			if e := it.WeightedEdge(); e != nil {
				return int(e.From().ID())
			}
			return -1
		}
		rest = func() []int {
			var es []graph.WeightedEdge
			if useOf {
				es = graph.WeightedEdgesOf(it)
			} else {
				es = it.WeightedEdgeSlice()
			}
			var r []int
			for _, e := range es {
				r = append(r, int(e.From().ID()))
			}
			return r
		}
	case 2:
		xs := make([]graph.Line, n)
		for i := range xs {
			xs[i] = multi.Line{F: multi.Node(0), T: multi.Node(1), UID: int64(i)}
		}
		it := iterator.NewOrderedLines(xs)
		next = it.Next
		cur = func() int {
			if e := it.Line(); e != nil {
				return int(e.ID())
			}
			return -1
		}
		rest = func() []int {
			var es []graph.Line
			if useOf {
				es = graph.LinesOf(it)
			} else {
				es = it.LineSlice()
			}
			var r []int
			for _, e := range es {
				r = append(r, int(e.ID()))
			}
			return r
		}
	default:
		xs := make([]graph.WeightedLine, n)
		for i := range xs {
			xs[i] = multi.WeightedLine{F: multi.Node(0), T: multi.Node(1), W: 1, UID: int64(i)}
		}
		it := iterator.NewOrderedWeightedLines(xs)
		next = it.Next
		cur = func() int {
			if e := it.WeightedLine(); e != nil {
				return int(e.ID())
			}
			return -1
		}
		rest = func() []int {
			var es []graph.WeightedLine
			if useOf {
				es = graph.WeightedLinesOf(it)
			} else {
				es = it.WeightedLineSlice()
			}
			var r []int
			for _, e := range es {
				r = append(r, int(e.ID()))
			}
			return r
		}
	}
	verifAssert(cur() == -1, "ordered iterator: the item is nil before the first Next")
	for s := 0; s < k; s++ {
		verifAssert(next(), "ordered iterator: Next is true while items remain")
		verifAssert(cur() == s, "ordered iterator: the k-th Next delivers the k-th item")
	}
	r := rest()
	verifAssert(len(r) == n-k, "ordered iterator: Slice / *Of return the remaining items")
	for i := range r {
		verifAssert(r[i] == k+i, "ordered iterator: Slice / *Of keep the order")
	}
	verifAssert(!next(), "ordered iterator: exhausted after Slice / *Of")
	verifAssert(cur() == -1, "ordered iterator: Next returned false, so the item method returns nil (graph.Iterator.Next)")
	verifReach("end")
}

// VerifC12_NodesOf: graph.NodesOf: nil iterator, empty iterator, a NodeSlicer
// (remaining nodes), an iterator without NodeSlice, an iterator of unknown
// (negative) length.
func VerifC12_NodesOf() {
	verifAssert(graph.NodesOf(nil) == nil, "NodesOf(nil) is nil")
	verifAssert(graph.EdgesOf(nil) == nil && graph.WeightedEdgesOf(nil) == nil && graph.LinesOf(nil) == nil && graph.WeightedLinesOf(nil) == nil, "*Of(nil) is nil")
	verifAssert(len(graph.NodesOf(graph.Empty)) == 0, "NodesOf(Empty) is empty")
	n := verifChoose("len", 0, 3)
	k := verifChoose("steps", 0, 3)
	if k > n {
		return
	}
	nodes := make([]graph.Node, n)
	for i := range nodes {
		nodes[i] = c12Node(c12IDs[i])
	}
	var it graph.Nodes
	base := iterator.NewOrderedNodes(nodes)
	switch verifChoose("wrap", 0, 2) {
	case 0:
		it = base
	case 1:
		it = c12NodesOnly{base}
	default:
		it = c12UnknownLen{c12NodesOnly{base}}
	}
	for s := 0; s < k; s++ {
		verifAssert(it.Next(), "NodesOf: Next while items remain")
	}
	got := graph.NodesOf(it)
	verifAssert(len(got) == n-k, "NodesOf returns the remaining nodes")
	for i := range got {
		verifAssert(got[i].ID() == c12IDs[k+i], "NodesOf keeps the iteration order")
	}
	verifReach("end")
}

// VerifC12_ImplicitNodes: ImplicitNodes over [beg,end): Node is nil before
// the first Next, the k-th Next delivers beg+k-1, NodeSlice returns the
// remaining nodes and exhausts the iterator, Reset restarts, beg > end panics.
func VerifC12_ImplicitNodes() {
	n := verifChoose("len", 0, 3)
	k := verifChoose("steps", 0, 3)
	if k > n {
		return
	}
	beg := verifChoose("beg", -2, 1)
	imp := iterator.NewImplicitNodes(beg, beg+n, func(id int) graph.Node { return c12Node(id) })
	verifAssert(imp.Node() == nil, "ImplicitNodes: Node is nil before the first Next")
	for s := 0; s < k; s++ {
		verifAssert(imp.Next(), "ImplicitNodes: Next while items remain")
		verifAssert(imp.Node().ID() == int64(beg+s), "ImplicitNodes: consecutive IDs from beg")
	}
	verifAssert(imp.Len() == n-k, "ImplicitNodes: Len is the number of remaining nodes")
	rest := imp.NodeSlice()
	verifAssert(len(rest) == n-k, "ImplicitNodes.NodeSlice: the remaining nodes")
	for i := range rest {
		verifAssert(rest[i].ID() == int64(beg+k+i), "ImplicitNodes.NodeSlice: in order")
	}
	verifAssert(imp.Len() == 0 && !imp.Next(), "ImplicitNodes: exhausted after NodeSlice")
	verifAssert(len(imp.NodeSlice()) == 0, "ImplicitNodes.NodeSlice of an exhausted iterator is empty")
	imp.Reset()
	verifAssert(imp.Len() == n, "ImplicitNodes: Reset restores Len")
	verifAssert(len(graph.NodesOf(imp)) == n, "NodesOf(ImplicitNodes) returns all nodes after Reset")
	panicked, _, _ := verifCatch(func() { iterator.NewImplicitNodes(beg+1, beg, nil) })
	verifAssert(panicked, "NewImplicitNodes panics if beg is greater than end")
	verifReach("end")
}

// VerifC12_ImplicitNodesExhausted: graph.Iterator.Next "returns whether the
// next call to the item method will return a non-nil item": once Next has
// returned false, Node() returns nil (as OrderedNodes does).
func VerifC12_ImplicitNodesExhausted() {
	n := verifChoose("len", 0, 3)
	beg := verifChoose("beg", -2, 1)
	imp := iterator.NewImplicitNodes(beg, beg+n, func(id int) graph.Node { return c12Node(id) })
	for s := 0; s < n; s++ {
		verifAssert(imp.Next(), "ImplicitNodes: Next while items remain")
	}
	verifAssert(!imp.Next(), "ImplicitNodes: Next is false when exhausted")
	verifAssert(imp.Node() == nil, "ImplicitNodes: Next returned false, so Node() returns nil (graph.Iterator.Next)")
	verifReach("end")
}

func c12NodeMap(n int) map[int64]graph.Node {
	m := make(map[int64]graph.Node)
	for i := 0; i < n; i++ {
		m[c12IDs[i]] = c12Node(c12IDs[i])
	}
	return m
}

// c12MapIter builds one of the map-driven node iterators over the first n
// (all nodes) resp. the members of sel (neighbour maps).
func c12MapIter(lazy bool, kind int, n int, sel []bool) graph.Nodes {
	nodes := c12NodeMap(n)
	switch kind {
	case 0:
		sub := make(map[int64]graph.Node)
		for i := 0; i < n; i++ {
			if sel[i] {
				sub[c12IDs[i]] = c12Node(c12IDs[i])
			}
		}
		if lazy {
			return iterator.NewLazyOrderedNodes(sub)
		}
		return iterator.NewNodes(sub)
	case 1:
		e := make(map[int64]graph.Edge)
		for i := 0; i < n; i++ {
			if sel[i] {
				e[c12IDs[i]] = simple.Edge{F: c12Node(c12Absent), T: c12Node(c12IDs[i])}
			}
		}
		if lazy {
			return iterator.NewLazyOrderedNodesByEdge(nodes, e)
		}
		return iterator.NewNodesByEdge(nodes, e)
	case 2:
		e := make(map[int64]graph.WeightedEdge)
		for i := 0; i < n; i++ {
			if sel[i] {
				e[c12IDs[i]] = simple.WeightedEdge{F: c12Node(c12Absent), T: c12Node(c12IDs[i]), W: 1}
			}
		}
		if lazy {
			return iterator.NewLazyOrderedNodesByWeightedEdge(nodes, e)
		}
		return iterator.NewNodesByWeightedEdge(nodes, e)
	case 3:
		e := make(map[int64]map[int64]graph.Line)
		for i := 0; i < n; i++ {
			if sel[i] {
				e[c12IDs[i]] = map[int64]graph.Line{0: multi.Line{F: c12Node(c12Absent), T: c12Node(c12IDs[i])}}
			}
		}
		if lazy {
			return iterator.NewLazyOrderedNodesByLines(nodes, e)
		}
		return iterator.NewNodesByLines(nodes, e)
	default:
		e := make(map[int64]map[int64]graph.WeightedLine)
		for i := 0; i < n; i++ {
			if sel[i] {
				e[c12IDs[i]] = map[int64]graph.WeightedLine{0: multi.WeightedLine{F: c12Node(c12Absent), T: c12Node(c12IDs[i]), W: 1}}
			}
		}
		if lazy {
			return iterator.NewLazyOrderedNodesByWeightedLines(nodes, e)
		}
		return iterator.NewNodesByWeightedLines(nodes, e)
	}
}

func c12MapIterCheck(lazy bool, who string) {
	n := 3
	kind := verifChoose("kind", 0, 4)
	mask := verifChoose("sel", 0, 7)
	sel := make([]bool, n)
	cnt := 0
	for i := range sel {
		sel[i] = mask>>uint(i)&1 == 1
		if sel[i] {
			cnt++
		}
	}
	c12Drain(c12MapIter(lazy, kind, n, sel), n, sel, who)
	// a Reset before any Next is harmless
	it := c12MapIter(lazy, kind, n, sel)
	it.Reset()
	c12Drain(it, n, sel, who+" (Reset first)")
	// NodeSlice / NodesOf after k steps: the remaining nodes, each once
	k := verifChoose("steps", 0, 3)
	if k > cnt {
		return
	}
	it = c12MapIter(lazy, kind, n, sel)
	seen := make([]int, n)
	mark := func(nd graph.Node) {
		for j := 0; j < n; j++ {
			if nd != nil && c12IDs[j] == nd.ID() {
				seen[j]++
			}
		}
	}
	for s := 0; s < k; s++ {
		verifAssert(it.Next(), who+": Next while items remain")
		mark(it.Node())
	}
	var rest []graph.Node
	if verifChoose("of", 0, 1) == 1 {
		rest = graph.NodesOf(it)
	} else {
		rest = it.(graph.NodeSlicer).NodeSlice()
	}
	verifAssert(len(rest) == cnt-k, who+": NodeSlice / NodesOf return the remaining nodes")
	for _, nd := range rest {
		verifAssert(nd != nil, who+": NodeSlice holds nodes")
		mark(nd)
	}
	for j := 0; j < n; j++ {
		want := 0
		if sel[j] {
			want = 1
		}
		verifAssert(seen[j] == want, who+": delivered + NodeSlice is every node exactly once")
	}
	verifAssert(it.Len() == 0 && !it.Next(), who+": exhausted after NodeSlice")
	it.Reset()
	verifAssert(it.Len() == cnt, who+": Reset restores Len")
	verifReach("end")
}

// VerifC12_LazyNodes: the five LazyOrderedNodes* iterators (default build).
func VerifC12_LazyNodes() { c12MapIterCheck(true, "LazyOrderedNodes") }

// VerifC12_MapNodesSafe: iterator.Nodes / NodesByEdge (five constructors) of
// the safe build (reflect.MapIter).
func VerifC12_MapNodesSafe() { c12MapIterCheck(false, "map-backed Nodes (safe)") }

// VerifC12_MapLinesSafe: iterator.Lines / WeightedLines of the safe build.
func VerifC12_MapLinesSafe() {
	mask := verifChoose("sel", 0, 7)
	weighted := verifChoose("weighted", 0, 1) == 1
	cnt := 0
	ls := make(map[int64]graph.Line)
	ws := make(map[int64]graph.WeightedLine)
	for i := 0; i < 3; i++ {
		if mask>>uint(i)&1 == 1 {
			cnt++
			ls[int64(i)] = multi.Line{F: multi.Node(0), T: multi.Node(1), UID: int64(i)}
			ws[int64(i)] = multi.WeightedLine{F: multi.Node(0), T: multi.Node(1), W: float64(i), UID: int64(i)}
		}
	}
	var it graph.Iterator
	var cur func() int
	var rest func() []int
	if weighted {
		w := iterator.NewWeightedLines(ws)
		it = w
		cur = func() int {
			if l := w.WeightedLine(); l != nil {
				return int(l.ID())
			}
			return -1
		}
		rest = func() []int {
			var r []int
			for _, l := range w.WeightedLineSlice() {
				r = append(r, int(l.ID()))
			}
			return r
		}
	} else {
		l := iterator.NewLines(ls)
		it = l
		cur = func() int {
			if x := l.Line(); x != nil {
				return int(x.ID())
			}
			return -1
		}
		rest = func() []int {
			var r []int
			for _, x := range l.LineSlice() {
				r = append(r, int(x.ID()))
			}
			return r
		}
	}
	for round := 0; round < 2; round++ {
		seen := [3]int{}
		verifAssert(it.Len() == cnt, "map-backed Lines: Len before iteration")
		k := 0
		for it.Next() {
			k++
			if k > cnt {
				verifAssert(false, "map-backed Lines: no more items than lines")
				return
			}
			id := cur()
			verifAssert(id >= 0 && id < 3 && mask>>uint(id)&1 == 1, "map-backed Lines: only lines of the map")
			if id >= 0 && id < 3 {
				seen[id]++
			}
			verifAssert(it.Len() == cnt-k, "map-backed Lines: Len counts down")
		}
		verifAssert(k == cnt, "map-backed Lines: every line")
		for i := 0; i < 3; i++ {
			verifAssert(seen[i] == mask>>uint(i)&1, "map-backed Lines: each line exactly once")
		}
		it.Reset()
	}
	k := verifChoose("steps", 0, 3)
	if k > cnt {
		return
	}
	seen := [3]int{}
	for s := 0; s < k; s++ {
		verifAssert(it.Next(), "map-backed Lines: Next while items remain")
		seen[cur()]++
	}
	r := rest()
	verifAssert(len(r) == cnt-k, "map-backed Lines: LineSlice returns the remaining lines")
	for _, id := range r {
		seen[id]++
	}
	for i := 0; i < 3; i++ {
		verifAssert(seen[i] == mask>>uint(i)&1, "map-backed Lines: delivered + LineSlice is each line once")
	}
	verifAssert(it.Len() == 0 && !it.Next(), "map-backed Lines: exhausted after LineSlice")
	verifReach("end")
}

// VerifC12_CopyInto: graph.Copy / CopyWeighted "without first clearing the
// destination": what the destination held stays; "will panic if a node ID in
// the source graph matches a node ID in the destination"; "if the source is
// undirected and the destination is directed both directions will be present".
func VerifC12_CopyInto() {
	n := verifParam("an", 3)
	srcDirected := verifChoose("srcdirected", 0, 1) == 1
	dstDirected := verifChoose("dstdirected", 0, 1) == 1
	weighted := verifChoose("weighted", 0, 1) == 1
	var g *c12Graph
	var src graph.Weighted
	if srcDirected {
		g = c12Directed(n, weighted)
		src = g
	} else {
		ug := c12Undirected(n, weighted)
		g = ug.c12Graph
		src = ug
	}
	if weighted && srcDirected && !dstDirected {
		// "a fundamental cycle with two nodes where the edge weights differ: undefined"
		for i := 0; i < n; i++ {
			for j := 0; j < n; j++ {
				if g.adj[i][j] && g.adj[j][i] {
					verifAssume(g.w[i][j] == g.w[j][i])
				}
			}
		}
	}
	collide := verifChoose("collide", 0, 1) == 1
	const a, b = int64(70), int64(71)
	extra := a
	if collide {
		extra = c12IDs[n-1]
	}
	var dst graph.Graph
	var cp func()
	switch {
	case !weighted && dstDirected:
		d := simple.NewDirectedGraph()
		d.SetEdge(simple.Edge{F: simple.Node(extra), T: simple.Node(b)})
		dst, cp = d, func() { graph.Copy(d, src) }
	case !weighted:
		d := simple.NewUndirectedGraph()
		d.SetEdge(simple.Edge{F: simple.Node(extra), T: simple.Node(b)})
		dst, cp = d, func() { graph.Copy(d, src) }
	case dstDirected:
		d := simple.NewWeightedDirectedGraph(0, math.Inf(1))
		d.SetWeightedEdge(simple.WeightedEdge{F: simple.Node(extra), T: simple.Node(b), W: 5})
		dst, cp = d, func() { graph.CopyWeighted(d, src) }
	default:
		d := simple.NewWeightedUndirectedGraph(0, math.Inf(1))
		d.SetWeightedEdge(simple.WeightedEdge{F: simple.Node(extra), T: simple.Node(b), W: 5})
		dst, cp = d, func() { graph.CopyWeighted(d, src) }
	}
	panicked, fault, _ := verifCatch(cp)
	verifAssert(!fault, "Copy: no runtime fault")
	verifAssert(panicked == collide, "Copy: panics iff a source node ID is already in the destination")
	if panicked {
		return
	}
	verifAssert(dst.Node(a) != nil && dst.Node(b) != nil && dst.Edge(a, b) != nil, "Copy: the destination is not cleared")
	for i := 0; i < n; i++ {
		verifAssert(dst.Node(c12IDs[i]) != nil, "Copy: every source node is in the destination")
		verifAssert(!dst.HasEdgeBetween(c12IDs[i], a) && !dst.HasEdgeBetween(c12IDs[i], b), "Copy: no edges to the old nodes appear")
		for j := 0; j < n; j++ {
			if i == j {
				continue
			}
			e := g.adj[i][j]
			if !dstDirected {
				e = e || g.adj[j][i]
			}
			verifAssert((dst.Edge(c12IDs[i], c12IDs[j]) != nil) == e, "Copy: destination has exactly the source's edges (both directions of an undirected source; undirected in an undirected destination)")
			if wd, ok := dst.(graph.Weighted); ok && e {
				w, wok := wd.Weight(c12IDs[i], c12IDs[j])
				want := g.w[i][j]
				if !g.adj[i][j] {
					want = g.w[j][i]
				}
				verifAssert(wok, "CopyWeighted: weight present")
				verifAssertEqF(w, want, "CopyWeighted: weights are preserved")
			}
		}
	}
	verifReach("end")
}

// VerifC12_UndirectWeightedMore: the remaining queries of UndirectWeighted:
// Nodes, Edge / EdgeBetween / WeightedEdge agree with WeightedEdgeBetween, the
// EdgePair joins the two nodes, Merge receives the forward and reverse edges,
// and with the default merge Weight(x,x) is the wrapped graph's self weight.
func VerifC12_UndirectWeightedMore() {
	n := verifParam("an", 3)
	g := c12Directed(n, true)
	absent := verifFloat("absent")
	u := graph.UndirectWeighted{G: g, Absent: absent}
	all := make([]bool, n)
	for i := range all {
		all[i] = true
	}
	c12Drain(u.Nodes(), n, all, "UndirectWeighted.Nodes")
	for i := 0; i < n; i++ {
		w, ok := u.Weight(c12IDs[i], c12IDs[i])
		verifAssert(ok, "UndirectWeighted.Weight(x,x): ok")
		verifAssertEqF(w, 0, "UndirectWeighted.Weight(x,x) is the internal self weight (default merge)")
		for j := 0; j < n; j++ {
			if i == j {
				continue
			}
			e := g.adj[i][j] || g.adj[j][i]
			x, y := c12IDs[i], c12IDs[j]
			verifAssert((u.Edge(x, y) != nil) == e && (u.EdgeBetween(x, y) != nil) == e && (u.WeightedEdge(x, y) != nil) == e, "UndirectWeighted: Edge / EdgeBetween / WeightedEdge non-nil iff an edge exists in either direction")
			if we := u.WeightedEdge(x, y); we != nil {
				a, b := we.From().ID(), we.To().ID()
				verifAssert((a == x && b == y) || (a == y && b == x), "UndirectWeighted: the edge pair joins the two nodes")
			}
		}
	}
	// Merge sees the two directed edges
	var gotF, gotR graph.Edge
	u.Merge = func(x, y float64, xy, yx graph.Edge) float64 { gotF, gotR = xy, yx; return x + 3*y }
	for i := 0; i < n; i++ {
		for j := 0; j < n; j++ {
			if i == j || !(g.adj[i][j] || g.adj[j][i]) {
				continue
			}
			gotF, gotR = nil, nil
			we := u.WeightedEdgeBetween(c12IDs[i], c12IDs[j])
			verifAssert((gotF != nil) == g.adj[i][j] && (gotR != nil) == g.adj[j][i], "UndirectWeighted.Merge receives the forward and the reverse edge (nil when missing)")
			f, r := absent, absent
			if g.adj[i][j] {
				f = g.w[i][j]
			}
			if g.adj[j][i] {
				r = g.w[j][i]
			}
			verifAssertEqF(we.Weight(), f+3*r, "UndirectWeighted.WeightedEdgeBetween applies Merge to (forward, reverse)")
		}
	}
	verifReach("end")
}

// VerifC12_UndirectWeightedDoc: two sentences of UndirectWeighted.Weight's
// documentation taken literally: "If x and y are the same node the internal
// node weight is returned" (also with a custom Merge) and "If there is no
// joining edge between the two nodes the weight value returned is zero" (also
// with a non-zero Absent).
func VerifC12_UndirectWeightedDoc() {
	n := 2
	g := c12Directed(n, true)
	absent := verifFloat("absent")
	u := graph.UndirectWeighted{G: g, Absent: absent}
	if verifChoose("merge", 0, 1) == 1 {
		u.Merge = func(x, y float64, _, _ graph.Edge) float64 { return x - 2*y + 1 }
	}
	w, ok := u.Weight(c12IDs[0], c12IDs[0])
	verifAssert(ok, "UndirectWeighted.Weight(x,x): ok")
	verifAssertEqF(w, 0, "UndirectWeighted.Weight(x,x): the internal node weight is returned")
	if !g.adj[0][1] && !g.adj[1][0] && u.Merge == nil {
		w, ok := u.Weight(c12IDs[0], c12IDs[1])
		verifAssert(!ok, "UndirectWeighted.Weight: not ok without a joining edge")
		verifAssertEqF(w, 0, "UndirectWeighted.Weight: zero if there is no joining edge")
	}
	verifReach("end")
}

// VerifC12_MapIterExhausted (tag safe for the map-backed kinds): the same
// sentence of graph.Iterator.Next ("returns whether the next call to the item
// method will return a non-nil item") for the other node iterators: once Next
// has returned false the item method returns nil. kind 0..4: LazyOrderedNodes*,
// 5..9: iterator.Nodes / NodesByEdge (safe build).
func VerifC12_MapIterExhausted() {
	kind := verifChoose("kind", verifParam("exlo", 0), verifParam("exhi", 9))
	mask := verifChoose("sel", 0, 7)
	sel := make([]bool, 3)
	for i := range sel {
		sel[i] = mask>>uint(i)&1 == 1
	}
	it := c12MapIter(kind < 5, kind%5, 3, sel)
	for it.Next() {
	}
	verifAssert(!it.Next(), "node iterator: Next stays false when exhausted")
	verifAssert(it.Node() == nil, "node iterator: Next returned false, so Node() returns nil (graph.Iterator.Next)")
	verifReach("end")
}
