// Package c12 holds the harnesses of property C12 that need only exported
// API: the graph.Undirect / UndirectWeighted adapters, graph.Copy /
// CopyWeighted into the map-backed simple graphs, and the slice-backed
// iterators. Graphs handed to gonum are harness types exposing only the
// graph interfaces: adjacency matrix, concrete topology chosen by case split,
// symbolic weights where the algorithm uses weights, non-contiguous IDs.
package c12

import (
	"math"

	"gonum.org/v1/gonum/graph"
	"gonum.org/v1/gonum/graph/iterator"
)

const c12Max = 5

var c12IDs = [c12Max]int64{5, 1, 9, -3, 1 << 40}

const c12Absent int64 = 77

type c12Node int64

func (n c12Node) ID() int64 { return int64(n) }

type c12Edge struct {
	f, t c12Node
	w    float64
}

func (e c12Edge) From() graph.Node         { return e.f }
func (e c12Edge) To() graph.Node           { return e.t }
func (e c12Edge) ReversedEdge() graph.Edge { return c12Edge{f: e.t, t: e.f, w: e.w} }
func (e c12Edge) Weight() float64          { return e.w }

// c12Graph is a directed weighted graph (graph.WeightedDirected).
type c12Graph struct {
	n   int
	adj [][]bool
	w   [][]float64
}

func c12New(n int) *c12Graph {
	g := &c12Graph{n: n}
	g.adj = make([][]bool, n)
	g.w = make([][]float64, n)
	for i := range g.adj {
		g.adj[i] = make([]bool, n)
		g.w[i] = make([]float64, n)
	}
	return g
}

func (g *c12Graph) idx(id int64) int {
	for i := 0; i < g.n; i++ {
		if c12IDs[i] == id {
			return i
		}
	}
	return -1
}

func (g *c12Graph) Node(id int64) graph.Node {
	if g.idx(id) < 0 {
		return nil
	}
	return c12Node(id)
}

func (g *c12Graph) Nodes() graph.Nodes {
	if g.n == 0 {
		return graph.Empty
	}
	nodes := make([]graph.Node, g.n)
	for i := range nodes {
		nodes[i] = c12Node(c12IDs[i])
	}
	return iterator.NewOrderedNodes(nodes)
}

func (g *c12Graph) From(id int64) graph.Nodes {
	i := g.idx(id)
	if i < 0 {
		return graph.Empty
	}
	var nodes []graph.Node
	for j := 0; j < g.n; j++ {
		if g.adj[i][j] {
			nodes = append(nodes, c12Node(c12IDs[j]))
		}
	}
	if len(nodes) == 0 {
		return graph.Empty
	}
	return iterator.NewOrderedNodes(nodes)
}

func (g *c12Graph) To(id int64) graph.Nodes {
	j := g.idx(id)
	if j < 0 {
		return graph.Empty
	}
	var nodes []graph.Node
	for i := 0; i < g.n; i++ {
		if g.adj[i][j] {
			nodes = append(nodes, c12Node(c12IDs[i]))
		}
	}
	if len(nodes) == 0 {
		return graph.Empty
	}
	return iterator.NewOrderedNodes(nodes)
}

func (g *c12Graph) HasEdgeFromTo(uid, vid int64) bool {
	i, j := g.idx(uid), g.idx(vid)
	if i < 0 || j < 0 {
		return false
	}
	return g.adj[i][j]
}

func (g *c12Graph) HasEdgeBetween(xid, yid int64) bool {
	return g.HasEdgeFromTo(xid, yid) || g.HasEdgeFromTo(yid, xid)
}

func (g *c12Graph) Edge(uid, vid int64) graph.Edge {
	if !g.HasEdgeFromTo(uid, vid) {
		return nil
	}
	return c12Edge{f: c12Node(uid), t: c12Node(vid), w: g.w[g.idx(uid)][g.idx(vid)]}
}

func (g *c12Graph) WeightedEdge(uid, vid int64) graph.WeightedEdge {
	if !g.HasEdgeFromTo(uid, vid) {
		return nil
	}
	return c12Edge{f: c12Node(uid), t: c12Node(vid), w: g.w[g.idx(uid)][g.idx(vid)]}
}

func (g *c12Graph) Weight(xid, yid int64) (float64, bool) {
	if xid == yid {
		return 0, true
	}
	if g.HasEdgeFromTo(xid, yid) {
		return g.w[g.idx(xid)][g.idx(yid)], true
	}
	return math.Inf(1), false
}

// c12UGraph is the undirected view; the builder keeps adj and w symmetric.
// It also lists its edges (path.UndirectedWeightLister).
type c12UGraph struct{ *c12Graph }

func (g c12UGraph) EdgeBetween(xid, yid int64) graph.Edge { return g.Edge(xid, yid) }
func (g c12UGraph) WeightedEdgeBetween(xid, yid int64) graph.WeightedEdge {
	return g.WeightedEdge(xid, yid)
}
func (g c12UGraph) WeightedEdges() graph.WeightedEdges {
	var edges []graph.WeightedEdge
	for i := 0; i < g.n; i++ {
		for j := i + 1; j < g.n; j++ {
			if g.adj[i][j] {
				edges = append(edges, c12Edge{f: c12Node(c12IDs[i]), t: c12Node(c12IDs[j]), w: g.w[i][j]})
			}
		}
	}
	if len(edges) == 0 {
		return graph.Empty
	}
	return iterator.NewOrderedWeightedEdges(edges)
}

var (
	_ graph.WeightedDirected   = (*c12Graph)(nil)
	_ graph.WeightedUndirected = c12UGraph{}
)

func c12Name(p string, i, j int) string {
	return p + string(rune('0'+i)) + string(rune('0'+j))
}

// c12Directed: every digraph on n nodes (mask case split), unweighted.
func c12Directed(n int, weighted bool) *c12Graph {
	g := c12New(n)
	mask := verifChoose("mask", 0, 1<<uint(n*(n-1))-1)
	b := 0
	for i := 0; i < n; i++ {
		for j := 0; j < n; j++ {
			if i == j {
				continue
			}
			if mask>>uint(b)&1 == 1 {
				g.adj[i][j] = true
				g.w[i][j] = 1
				if weighted {
					g.w[i][j] = verifFloat(c12Name("w", i, j))
				}
			}
			b++
		}
	}
	return g
}

// c12Undirected: every undirected graph on n nodes (mask case split); symbolic
// edge weights (free sign) if weighted.
func c12Undirected(n int, weighted bool) c12UGraph {
	g := c12New(n)
	mask := verifChoose("mask", 0, 1<<uint(n*(n-1)/2)-1)
	b := 0
	for i := 0; i < n; i++ {
		for j := i + 1; j < n; j++ {
			if mask>>uint(b)&1 == 1 {
				g.adj[i][j], g.adj[j][i] = true, true
				w := 1.0
				if weighted {
					w = verifFloat(c12Name("w", i, j))
				}
				g.w[i][j], g.w[j][i] = w, w
			}
			b++
		}
	}
	return c12UGraph{g}
}
