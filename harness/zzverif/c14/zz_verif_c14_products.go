package c14

// C14, graph products: every product of graph/product is compared with its
// documented definition, evaluated by brute force over all pairs of product
// nodes, for every pair of labelled input graphs up to the stated order,
// directed and undirected inputs and destinations.

import (
	"gonum.org/v1/gonum/graph"
	"gonum.org/v1/gonum/graph/iterator"
	"gonum.org/v1/gonum/graph/product"
	"gonum.org/v1/gonum/graph/simple"
)

const verifC14pMax = 3

// Non-contiguous, unsorted IDs; the two ID sets overlap in one value.
var (
	verifC14pIDsA = [verifC14pMax]int64{7, -2, 1 << 33}
	verifC14pIDsB = [verifC14pMax]int64{4, 7, -9}
)

type verifC14pNode int64

func (n verifC14pNode) ID() int64 { return int64(n) }

type verifC14pEdge struct {
	f, t graph.Node
	lab  int
}

func (e verifC14pEdge) From() graph.Node         { return e.f }
func (e verifC14pEdge) To() graph.Node           { return e.t }
func (e verifC14pEdge) ReversedEdge() graph.Edge { return verifC14pEdge{f: e.t, t: e.f, lab: e.lab} }

// verifC14pG is an input graph exposing graph.Graph only; the wrappers add
// exactly the methods of graph.Directed or graph.Undirected.
type verifC14pG struct {
	n   int
	ids []int64
	adj [][]bool
	lab [][]int
}

func (g *verifC14pG) idx(id int64) int {
	for i := 0; i < g.n; i++ {
		if g.ids[i] == id {
			return i
		}
	}
	return -1
}

func (g *verifC14pG) Node(id int64) graph.Node {
	if g.idx(id) < 0 {
		return nil
	}
	return verifC14pNode(id)
}

func (g *verifC14pG) Nodes() graph.Nodes {
	if g.n == 0 {
		return graph.Empty
	}
	nodes := make([]graph.Node, g.n)
	for i := range nodes {
		nodes[i] = verifC14pNode(g.ids[i])
	}
	return iterator.NewOrderedNodes(nodes)
}

func (g *verifC14pG) From(id int64) graph.Nodes {
	i := g.idx(id)
	if i < 0 {
		return graph.Empty
	}
	var nodes []graph.Node
	for j := 0; j < g.n; j++ {
		if g.adj[i][j] {
			nodes = append(nodes, verifC14pNode(g.ids[j]))
		}
	}
	if len(nodes) == 0 {
		return graph.Empty
	}
	return iterator.NewOrderedNodes(nodes)
}

func (g *verifC14pG) has(uid, vid int64) bool {
	i, j := g.idx(uid), g.idx(vid)
	return i >= 0 && j >= 0 && g.adj[i][j]
}

func (g *verifC14pG) HasEdgeBetween(xid, yid int64) bool {
	return g.has(xid, yid) || g.has(yid, xid)
}

func (g *verifC14pG) Edge(uid, vid int64) graph.Edge {
	if !g.has(uid, vid) {
		return nil
	}
	return verifC14pEdge{f: verifC14pNode(uid), t: verifC14pNode(vid), lab: g.lab[g.idx(uid)][g.idx(vid)]}
}

type verifC14pDG struct{ *verifC14pG }

func (g verifC14pDG) HasEdgeFromTo(uid, vid int64) bool { return g.has(uid, vid) }
func (g verifC14pDG) To(id int64) graph.Nodes {
	j := g.idx(id)
	if j < 0 {
		return graph.Empty
	}
	var nodes []graph.Node
	for i := 0; i < g.n; i++ {
		if g.adj[i][j] {
			nodes = append(nodes, verifC14pNode(g.ids[i]))
		}
	}
	if len(nodes) == 0 {
		return graph.Empty
	}
	return iterator.NewOrderedNodes(nodes)
}

type verifC14pUG struct{ *verifC14pG }

func (g verifC14pUG) EdgeBetween(xid, yid int64) graph.Edge { return g.Edge(xid, yid) }

var (
	_ graph.Directed   = verifC14pDG{}
	_ graph.Undirected = verifC14pUG{}
)

// verifC14pBuild: the labelled graph number mask on n nodes. Edge labels (used
// by ModularExt's agree) follow a fixed pattern: asymmetric for arcs,
// symmetric for undirected edges.
func verifC14pBuild(n int, directed bool, mask int, ids []int64) (*verifC14pG, graph.Graph) {
	g := &verifC14pG{n: n, ids: ids}
	g.adj = make([][]bool, n)
	g.lab = make([][]int, n)
	for i := range g.adj {
		g.adj[i] = make([]bool, n)
		g.lab[i] = make([]int, n)
	}
	b := 0
	if directed {
		for i := 0; i < n; i++ {
			for j := 0; j < n; j++ {
				if i == j {
					continue
				}
				if mask>>uint(b)&1 == 1 {
					g.adj[i][j] = true
					g.lab[i][j] = (2*i + j) % 3 % 2
				}
				b++
			}
		}
		return g, verifC14pDG{g}
	}
	for i := 0; i < n; i++ {
		for j := i + 1; j < n; j++ {
			if mask>>uint(b)&1 == 1 {
				g.adj[i][j], g.adj[j][i] = true, true
				g.lab[i][j], g.lab[j][i] = (i+j)%2, (i+j)%2
			}
			b++
		}
	}
	return g, verifC14pUG{g}
}

// verifC14pMasks: number of labelled graphs on n nodes.
func verifC14pMasks(n int, directed bool) int {
	if directed {
		return 1 << uint(n*(n-1))
	}
	return 1 << uint(n*(n-1)/2)
}

// verifC14pInput: every labelled graph on 0..maxn nodes, directed or
// undirected (case split).
func verifC14pInput(name string, maxn int, ids []int64) (*verifC14pG, bool, graph.Graph) {
	n := verifChoose(name+"n", 0, maxn)
	directed := verifChoose(name+"dir", 0, 1) == 1
	mask := verifChoose(name+"mask", 0, verifC14pMasks(n, directed)-1)
	g, gg := verifC14pBuild(n, directed, mask, ids)
	return g, directed, gg
}

// verifC14pDst is a recording graph.Builder. Like the simple graphs it panics
// on node ID collisions and on self edges, and SetEdge adds missing end points.
type verifC14pDst struct {
	sym   bool
	nodes []graph.Node
	byID  map[int64]graph.Node
	out   map[int64]map[int64]graph.Edge // arcs as set by SetEdge
	narcs int
}

func (d *verifC14pDst) Node(id int64) graph.Node {
	if n, ok := d.byID[id]; ok {
		return n
	}
	return nil
}

func (d *verifC14pDst) Nodes() graph.Nodes {
	if len(d.nodes) == 0 {
		return graph.Empty
	}
	return iterator.NewOrderedNodes(append([]graph.Node(nil), d.nodes...))
}

func (d *verifC14pDst) arc(uid, vid int64) graph.Edge {
	if e, ok := d.out[uid][vid]; ok {
		return e
	}
	if d.sym {
		if e, ok := d.out[vid][uid]; ok {
			return e.ReversedEdge()
		}
	}
	return nil
}

func (d *verifC14pDst) addNode(n graph.Node) {
	if d.byID == nil {
		d.byID = make(map[int64]graph.Node)
		d.out = make(map[int64]map[int64]graph.Edge)
	}
	d.byID[n.ID()] = n
	d.nodes = append(d.nodes, n)
}

func (d *verifC14pDst) From(id int64) graph.Nodes {
	var nodes []graph.Node
	for _, n := range d.nodes {
		if d.arc(id, n.ID()) != nil {
			nodes = append(nodes, n)
		}
	}
	if len(nodes) == 0 {
		return graph.Empty
	}
	return iterator.NewOrderedNodes(nodes)
}

func (d *verifC14pDst) HasEdgeBetween(xid, yid int64) bool {
	return d.arc(xid, yid) != nil || d.arc(yid, xid) != nil
}

func (d *verifC14pDst) Edge(uid, vid int64) graph.Edge { return d.arc(uid, vid) }

func (d *verifC14pDst) NewNode() graph.Node {
	id := int64(0)
	for d.Node(id) != nil {
		id++
	}
	return verifC14pNode(id)
}

func (d *verifC14pDst) AddNode(n graph.Node) {
	if d.Node(n.ID()) != nil {
		panic("verif dst: node ID collision")
	}
	d.addNode(n)
}

func (d *verifC14pDst) NewEdge(from, to graph.Node) graph.Edge {
	return verifC14pEdge{f: from, t: to}
}

func (d *verifC14pDst) SetEdge(e graph.Edge) {
	uid, vid := e.From().ID(), e.To().ID()
	if uid == vid {
		panic("verif dst: adding self edge")
	}
	if d.Node(uid) == nil {
		d.addNode(e.From())
	}
	if d.Node(vid) == nil {
		d.addNode(e.To())
	}
	if d.out[uid] == nil {
		d.out[uid] = make(map[int64]graph.Edge)
	}
	d.out[uid][vid] = verifC14pEdge{f: e.From(), t: e.To()}
	d.narcs++
}

type verifC14pDDst struct{ *verifC14pDst }

func (d verifC14pDDst) HasEdgeFromTo(uid, vid int64) bool { return d.arc(uid, vid) != nil }
func (d verifC14pDDst) To(id int64) graph.Nodes {
	var nodes []graph.Node
	for _, n := range d.nodes {
		if d.arc(n.ID(), id) != nil {
			nodes = append(nodes, n)
		}
	}
	if len(nodes) == 0 {
		return graph.Empty
	}
	return iterator.NewOrderedNodes(nodes)
}

type verifC14pUDst struct{ *verifC14pDst }

func (d verifC14pUDst) EdgeBetween(xid, yid int64) graph.Edge { return d.arc(xid, yid) }

// verifC14pBuilder: a destination that can be read back.
type verifC14pBuilder interface {
	graph.Graph
	graph.Builder
}

var (
	_ verifC14pBuilder = verifC14pDDst{}
	_ graph.Directed   = verifC14pDDst{}
	_ verifC14pBuilder = verifC14pUDst{}
	_ graph.Undirected = verifC14pUDst{}
)

// verifC14pNewDst: 0 recording directed, 1 recording undirected,
// 2 simple.DirectedGraph, 3 simple.UndirectedGraph (the first pd of these).
func verifC14pNewDst() (verifC14pBuilder, bool) {
	switch verifChoose("dst", 0, verifParam("pd", 4)-1) {
	case 0:
		return verifC14pDDst{&verifC14pDst{}}, true
	case 1:
		return verifC14pUDst{&verifC14pDst{sym: true}}, false
	case 2:
		return simple.NewDirectedGraph(), true
	default:
		return simple.NewUndirectedGraph(), false
	}
}

const (
	verifC14pCartesian = iota
	verifC14pTensor
	verifC14pLexicographical
	verifC14pStrong
	verifC14pCoNormal
	verifC14pModular
	verifC14pModularExt
)

// verifC14pRel is the documented definition: does the product have the edge
// (u1,u2)~(v1,v2), with x~y read as "a has the edge/arc from x to y".
// agree is consulted only by ModularExt.
func verifC14pRel(kind int, a, b *verifC14pG, u1, u2, v1, v2 int, agree func(u1, v1, u2, v2 int) bool) bool {
	inA, inB := a.adj[u1][v1], b.adj[u2][v2]
	switch kind {
	case verifC14pCartesian:
		return (u1 == v1 && inB) || (inA && u2 == v2)
	case verifC14pTensor:
		return inA && inB
	case verifC14pLexicographical:
		return inA || (u1 == v1 && inB)
	case verifC14pStrong:
		return (u1 == v1 && inB) || (inA && u2 == v2) || (inA && inB)
	case verifC14pCoNormal:
		return inA || inB
	case verifC14pModular:
		return ((inA && inB) || (!inA && !inB)) && (u1 != v1 && u2 != v2)
	case verifC14pModularExt:
		return ((inA && inB && agree(u1, v1, u2, v2)) || (!inA && !inB)) && (u1 != v1 && u2 != v2)
	}
	panic("unreachable")
}

// verifC14pCheck compares dst with the definition.
func verifC14pCheck(who string, kind int, dst graph.Graph, dstDirected bool, a, b *verifC14pG, agree func(u1, v1, u2, v2 int) bool) {
	nodes := graph.NodesOf(dst.Nodes())
	verifAssert(len(nodes) == a.n*b.n, who+": the product has |V(a)|*|V(b)| nodes")
	// cell[i][j]: ID of the product node (a_i, b_j).
	cell := make([][]int64, a.n)
	have := make([][]bool, a.n)
	for i := range cell {
		cell[i] = make([]int64, b.n)
		have[i] = make([]bool, b.n)
	}
	for _, n := range nodes {
		pn, ok := n.(product.Node)
		verifAssert(ok, who+": destination nodes are product.Node values")
		if !ok {
			return
		}
		ok = pn.A != nil && pn.B != nil
		verifAssert(ok, who+": product nodes carry their A and B nodes")
		if !ok {
			return
		}
		i, j := a.idx(pn.A.ID()), b.idx(pn.B.ID())
		ok = i >= 0 && j >= 0
		verifAssert(ok, who+": A is a node of a and B a node of b")
		if !ok {
			return
		}
		verifAssert(!have[i][j], who+": every pair (A,B) occurs once")
		have[i][j] = true
		cell[i][j] = pn.ID()
	}
	for i := 0; i < a.n; i++ {
		for j := 0; j < b.n; j++ {
			verifAssert(have[i][j], who+": every pair of V(a) x V(b) is a product node")
			if !have[i][j] {
				return
			}
		}
	}
	dd, _ := dst.(graph.Directed)
	for u1 := 0; u1 < a.n; u1++ {
		for u2 := 0; u2 < b.n; u2++ {
			for v1 := 0; v1 < a.n; v1++ {
				for v2 := 0; v2 < b.n; v2++ {
					uid, vid := cell[u1][u2], cell[v1][v2]
					want := verifC14pRel(kind, a, b, u1, u2, v1, v2, agree)
					var got bool
					if dstDirected {
						got = dd.HasEdgeFromTo(uid, vid)
						verifAssert(got == want, who+": directed destination has the arc (u1,u2)->(v1,v2) iff the definition prescribes it")
					} else {
						want = want || verifC14pRel(kind, a, b, v1, v2, u1, u2, agree)
						got = dst.HasEdgeBetween(uid, vid)
						verifAssert(got == want, who+": undirected destination has the edge (u1,u2)~(v1,v2) iff the definition prescribes it in one of the two directions")
					}
					if !got || !want {
						continue
					}
					// end points of returned edges are the product nodes.
					e := dst.Edge(uid, vid)
					ok := e != nil
					verifAssert(ok, who+": Edge returns the edge that exists")
					if !ok {
						continue
					}
					f, okf := e.From().(product.Node)
					t, okt := e.To().(product.Node)
					verifAssert(okf && okt, who+": edge end points are product.Node values")
					if okf && okt {
						verifAssert(f.ID() == uid && t.ID() == vid &&
							f.A.ID() == a.ids[u1] && f.B.ID() == b.ids[u2] &&
							t.A.ID() == a.ids[v1] && t.B.ID() == b.ids[v2],
							who+": edge end points carry the A and B nodes of their product node")
					}
				}
			}
		}
	}
}

// verifC14pProduct drives one product over all inputs.
func verifC14pProduct(kind int, who string) {
	a, _, ga := verifC14pInput("a", verifParam("pa", 3), verifC14pIDsA[:])
	b, _, gb := verifC14pInput("b", verifParam("pb", 2), verifC14pIDsB[:])
	dst, dstDirected := verifC14pNewDst()
	var agree func(u1, v1, u2, v2 int) bool
	switch kind {
	case verifC14pCartesian:
		product.Cartesian(dst, ga, gb)
	case verifC14pTensor:
		product.Tensor(dst, ga, gb)
	case verifC14pLexicographical:
		product.Lexicographical(dst, ga, gb)
	case verifC14pStrong:
		product.Strong(dst, ga, gb)
	case verifC14pCoNormal:
		product.CoNormal(dst, ga, gb)
	case verifC14pModular:
		product.Modular(dst, ga, gb)
	case verifC14pModularExt:
		// agree: 0 equal edge labels, 1 nil (= Modular), 2 never, 3 always
		// (the first pk of these).
		ak := verifChoose("agree", 0, verifParam("pk", 4)-1)
		agree = func(u1, v1, u2, v2 int) bool {
			switch ak {
			case 0:
				return a.lab[u1][v1] == b.lab[u2][v2]
			case 2:
				return false
			}
			return true
		}
		var fn func(eA, eB graph.Edge) bool
		if ak != 1 {
			fn = func(eA, eB graph.Edge) bool {
				ok := eA != nil && eB != nil
				verifAssert(ok, who+": agree is called with edges")
				if !ok {
					return false
				}
				u1, v1 := a.idx(eA.From().ID()), a.idx(eA.To().ID())
				u2, v2 := b.idx(eB.From().ID()), b.idx(eB.To().ID())
				ok = u1 >= 0 && v1 >= 0 && u2 >= 0 && v2 >= 0 && a.adj[u1][v1] && b.adj[u2][v2]
				verifAssert(ok, who+": agree is called with an edge of a and an edge of b")
				if !ok {
					return false
				}
				return agree(u1, v1, u2, v2)
			}
		}
		product.ModularExt(dst, ga, gb, fn)
	}
	verifC14pCheck(who, kind, dst, dstDirected, a, b, agree)
	verifReach("end")
}

// VerifC14_ProductCartesian: (u1=v1 and u2~v2) or (u1~v1 and u2=v2).
func VerifC14_ProductCartesian() { verifC14pProduct(verifC14pCartesian, "Cartesian") }

// VerifC14_ProductTensor: u1~v1 and u2~v2.
func VerifC14_ProductTensor() { verifC14pProduct(verifC14pTensor, "Tensor") }

// VerifC14_ProductLexicographical: u1~v1 or (u1=v1 and u2~v2).
func VerifC14_ProductLexicographical() {
	verifC14pProduct(verifC14pLexicographical, "Lexicographical")
}

// VerifC14_ProductStrong: Cartesian or Tensor condition.
func VerifC14_ProductStrong() { verifC14pProduct(verifC14pStrong, "Strong") }

// VerifC14_ProductCoNormal: u1~v1 or u2~v2.
func VerifC14_ProductCoNormal() { verifC14pProduct(verifC14pCoNormal, "CoNormal") }

// VerifC14_ProductModular: ((u1~v1 and u2~v2) or (u1!~v1 and u2!~v2)) and u1!=v1 and u2!=v2.
func VerifC14_ProductModular() { verifC14pProduct(verifC14pModular, "Modular") }

// VerifC14_ProductModularExt: as Modular with agree(u1v1, u2v2) required for
// the (u1~v1 and u2~v2) case; nil agree = Modular.
func VerifC14_ProductModularExt() { verifC14pProduct(verifC14pModularExt, "ModularExt") }
