// Package c14 holds the solver harnesses for property C14 (structural graph
// algorithms). Graphs handed to gonum are harness types exposing only the
// graph interfaces: adjacency matrix, concrete topology chosen by case split,
// symbolic weights where the algorithm uses weights, non-contiguous IDs.
package c14

import (
	"math"

	"gonum.org/v1/gonum/graph"
	"gonum.org/v1/gonum/graph/iterator"
)

const c14Max = 5

var c14IDs = [c14Max]int64{5, 1, 9, -3, 1 << 40}

const c14Absent int64 = 77

type c14Node int64

func (n c14Node) ID() int64 { return int64(n) }

type c14Edge struct {
	f, t c14Node
	w    float64
}

func (e c14Edge) From() graph.Node         { return e.f }
func (e c14Edge) To() graph.Node           { return e.t }
func (e c14Edge) ReversedEdge() graph.Edge { return c14Edge{f: e.t, t: e.f, w: e.w} }
func (e c14Edge) Weight() float64          { return e.w }

// c14Graph is a directed weighted graph (graph.WeightedDirected).
type c14Graph struct {
	n   int
	adj [][]bool
	w   [][]float64
}

func c14New(n int) *c14Graph {
	g := &c14Graph{n: n}
	g.adj = make([][]bool, n)
	g.w = make([][]float64, n)
	for i := range g.adj {
		g.adj[i] = make([]bool, n)
		g.w[i] = make([]float64, n)
	}
	return g
}

func (g *c14Graph) idx(id int64) int {
	for i := 0; i < g.n; i++ {
		if c14IDs[i] == id {
			return i
		}
	}
	return -1
}

func (g *c14Graph) Node(id int64) graph.Node {
	if g.idx(id) < 0 {
		return nil
	}
	return c14Node(id)
}

func (g *c14Graph) Nodes() graph.Nodes {
	if g.n == 0 {
		return graph.Empty
	}
	nodes := make([]graph.Node, g.n)
	for i := range nodes {
		nodes[i] = c14Node(c14IDs[i])
	}
	return iterator.NewOrderedNodes(nodes)
}

func (g *c14Graph) From(id int64) graph.Nodes {
	i := g.idx(id)
	if i < 0 {
		return graph.Empty
	}
	var nodes []graph.Node
	for j := 0; j < g.n; j++ {
		if g.adj[i][j] {
			nodes = append(nodes, c14Node(c14IDs[j]))
		}
	}
	if len(nodes) == 0 {
		return graph.Empty
	}
	return iterator.NewOrderedNodes(nodes)
}

func (g *c14Graph) To(id int64) graph.Nodes {
	j := g.idx(id)
	if j < 0 {
		return graph.Empty
	}
	var nodes []graph.Node
	for i := 0; i < g.n; i++ {
		if g.adj[i][j] {
			nodes = append(nodes, c14Node(c14IDs[i]))
		}
	}
	if len(nodes) == 0 {
		return graph.Empty
	}
	return iterator.NewOrderedNodes(nodes)
}

func (g *c14Graph) HasEdgeFromTo(uid, vid int64) bool {
	i, j := g.idx(uid), g.idx(vid)
	if i < 0 || j < 0 {
		return false
	}
	return g.adj[i][j]
}

func (g *c14Graph) HasEdgeBetween(xid, yid int64) bool {
	return g.HasEdgeFromTo(xid, yid) || g.HasEdgeFromTo(yid, xid)
}

func (g *c14Graph) Edge(uid, vid int64) graph.Edge {
	if !g.HasEdgeFromTo(uid, vid) {
		return nil
	}
	return c14Edge{f: c14Node(uid), t: c14Node(vid), w: g.w[g.idx(uid)][g.idx(vid)]}
}

func (g *c14Graph) WeightedEdge(uid, vid int64) graph.WeightedEdge {
	if !g.HasEdgeFromTo(uid, vid) {
		return nil
	}
	return c14Edge{f: c14Node(uid), t: c14Node(vid), w: g.w[g.idx(uid)][g.idx(vid)]}
}

func (g *c14Graph) Weight(xid, yid int64) (float64, bool) {
	if xid == yid {
		return 0, true
	}
	if g.HasEdgeFromTo(xid, yid) {
		return g.w[g.idx(xid)][g.idx(yid)], true
	}
	return math.Inf(1), false
}

// c14UGraph is the undirected view; the builder keeps adj and w symmetric.
// It also lists its edges (path.UndirectedWeightLister).
type c14UGraph struct{ *c14Graph }

func (g c14UGraph) EdgeBetween(xid, yid int64) graph.Edge { return g.Edge(xid, yid) }
func (g c14UGraph) WeightedEdgeBetween(xid, yid int64) graph.WeightedEdge {
	return g.WeightedEdge(xid, yid)
}
func (g c14UGraph) WeightedEdges() graph.WeightedEdges {
	var edges []graph.WeightedEdge
	for i := 0; i < g.n; i++ {
		for j := i + 1; j < g.n; j++ {
			if g.adj[i][j] {
				edges = append(edges, c14Edge{f: c14Node(c14IDs[i]), t: c14Node(c14IDs[j]), w: g.w[i][j]})
			}
		}
	}
	if len(edges) == 0 {
		return graph.Empty
	}
	return iterator.NewOrderedWeightedEdges(edges)
}

var (
	_ graph.WeightedDirected   = (*c14Graph)(nil)
	_ graph.WeightedUndirected = c14UGraph{}
)

func c14Name(p string, i, j int) string {
	return p + string(rune('0'+i)) + string(rune('0'+j))
}

// c14Directed: every digraph on n nodes (mask case split), unweighted.
func c14Directed(n int) *c14Graph {
	g := c14New(n)
	mask := verifChoose("mask", 0, 1<<uint(n*(n-1))-1)
	b := 0
	for i := 0; i < n; i++ {
		for j := 0; j < n; j++ {
			if i == j {
				continue
			}
			if mask>>uint(b)&1 == 1 {
				g.adj[i][j] = true
				g.w[i][j] = 1
			}
			b++
		}
	}
	return g
}

// c14Undirected: every undirected graph on n nodes (mask case split); symbolic
// edge weights (free sign) if weighted.
func c14Undirected(n int, weighted bool) c14UGraph {
	g := c14New(n)
	mask := verifChoose("mask", 0, 1<<uint(n*(n-1)/2)-1)
	b := 0
	for i := 0; i < n; i++ {
		for j := i + 1; j < n; j++ {
			if mask>>uint(b)&1 == 1 {
				g.adj[i][j], g.adj[j][i] = true, true
				w := 1.0
				if weighted {
					w = verifFloat(c14Name("w", i, j))
				}
				g.w[i][j], g.w[j][i] = w, w
			}
			b++
		}
	}
	return c14UGraph{g}
}

// c14Reach is the reflexive-transitive closure of adj (or of the symmetric
// closure when sym), computed naively.
func c14Reach(g *c14Graph, sym bool) [][]bool {
	r := make([][]bool, g.n)
	for i := range r {
		r[i] = make([]bool, g.n)
		for j := range r[i] {
			r[i][j] = i == j || g.adj[i][j] || (sym && g.adj[j][i])
		}
	}
	for changed := true; changed; {
		changed = false
		for i := 0; i < g.n; i++ {
			for j := 0; j < g.n; j++ {
				if r[i][j] {
					continue
				}
				for k := 0; k < g.n; k++ {
					if r[i][k] && r[k][j] {
						r[i][j] = true
						changed = true
						break
					}
				}
			}
		}
	}
	return r
}

// c14Hops is the hop distance matrix (-1 unreachable), by repeated relaxation.
func c14Hops(g *c14Graph) [][]int {
	d := make([][]int, g.n)
	for i := range d {
		d[i] = make([]int, g.n)
		for j := range d[i] {
			d[i][j] = -1
		}
		d[i][i] = 0
	}
	for round := 0; round < g.n; round++ {
		for i := 0; i < g.n; i++ {
			for u := 0; u < g.n; u++ {
				if d[i][u] < 0 {
					continue
				}
				for v := 0; v < g.n; v++ {
					if g.adj[u][v] && (d[i][v] < 0 || d[i][v] > d[i][u]+1) {
						d[i][v] = d[i][u] + 1
					}
				}
			}
		}
	}
	return d
}

// c14PartitionOf checks that comps lists every node of g exactly once and
// returns comp index per node (or -1).
func c14PartitionOf(g *c14Graph, comps [][]graph.Node, who string) []int {
	in := make([]int, g.n)
	for i := range in {
		in[i] = -1
	}
	for c, comp := range comps {
		verifAssert(len(comp) > 0, who+": no empty component")
		for _, nd := range comp {
			i := g.idx(nd.ID())
			verifAssert(i >= 0, who+": component members are nodes of the graph")
			if i < 0 {
				continue
			}
			verifAssert(in[i] == -1, who+": a node appears in one component only, once")
			in[i] = c
		}
	}
	for i := range in {
		verifAssert(in[i] >= 0, who+": every node appears in some component")
	}
	return in
}
