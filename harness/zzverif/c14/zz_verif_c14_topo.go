package c14

import (
	"gonum.org/v1/gonum/graph"
	"gonum.org/v1/gonum/graph/topo"
	"gonum.org/v1/gonum/graph/traverse"
)

// VerifC14_TarjanSCC: the components partition the nodes by mutual reachability.
func VerifC14_TarjanSCC() {
	g := c14Directed(verifParam("dn", 3))
	r := c14Reach(g, false)
	in := c14PartitionOf(g, topo.TarjanSCC(g), "TarjanSCC")
	for i := 0; i < g.n; i++ {
		for j := 0; j < g.n; j++ {
			verifAssert((in[i] == in[j]) == (r[i][j] && r[j][i]), "TarjanSCC: same component iff mutually reachable")
		}
	}
	verifReach("end")
}

// VerifC14_ConnectedComponents: components partition the nodes by connectivity.
func VerifC14_ConnectedComponents() {
	g := c14Undirected(verifParam("un", 4), false)
	r := c14Reach(g.c14Graph, true)
	in := c14PartitionOf(g.c14Graph, topo.ConnectedComponents(g), "ConnectedComponents")
	for i := 0; i < g.n; i++ {
		for j := 0; j < g.n; j++ {
			verifAssert((in[i] == in[j]) == r[i][j], "ConnectedComponents: same component iff connected")
		}
	}
	verifReach("end")
}

// VerifC14_PathExistsIn: equals reachability, every ordered pair incl. s == t.
func VerifC14_PathExistsIn() {
	g := c14Directed(verifParam("dn", 3))
	r := c14Reach(g, false)
	for i := 0; i < g.n; i++ {
		for j := 0; j < g.n; j++ {
			got := topo.PathExistsIn(g, c14Node(c14IDs[i]), c14Node(c14IDs[j]))
			verifAssert(got == r[i][j], "PathExistsIn: true iff a path exists")
		}
	}
	verifReach("end")
}

// VerifC14_TopoSort: Sort orders every edge forward, or reports exactly the
// cyclic components.
func VerifC14_TopoSort() {
	g := c14Directed(verifParam("dn", 3))
	r := c14Reach(g, false)
	sorted, err := topo.Sort(g)
	cyclic := false
	for i := 0; i < g.n; i++ {
		for j := 0; j < g.n; j++ {
			if i != j && r[i][j] && r[j][i] {
				cyclic = true
			}
		}
	}
	verifAssert((err != nil) == cyclic, "Sort: error iff the graph has a cycle")
	// group[i]: position class of node i in the output.
	pos := make([]int, g.n)
	for i := range pos {
		pos[i] = -1
	}
	var comps topo.Unorderable
	if err != nil {
		var ok bool
		comps, ok = err.(topo.Unorderable)
		verifAssert(ok, "Sort: the error is an Unorderable")
		if !ok {
			return
		}
	}
	nils := 0
	for p, nd := range sorted {
		if nd == nil {
			verifAssert(nils < len(comps), "Sort: one nil marker per cyclic component")
			if nils < len(comps) {
				for _, m := range comps[nils] {
					i := g.idx(m.ID())
					verifAssert(i >= 0 && pos[i] == -1, "Sort: cyclic component members are distinct graph nodes")
					if i >= 0 {
						pos[i] = p
					}
				}
			}
			nils++
			continue
		}
		i := g.idx(nd.ID())
		verifAssert(i >= 0 && pos[i] == -1, "Sort: sorted nodes are distinct graph nodes")
		if i >= 0 {
			pos[i] = p
		}
	}
	verifAssert(nils == len(comps), "Sort: one nil marker per cyclic component")
	for i := range pos {
		verifAssert(pos[i] >= 0, "Sort: every node is sorted or in a reported cyclic component")
	}
	// exactly the cyclic components: nodes share a reported component iff
	// they are distinct and mutually reachable; singletons are never reported.
	inComp := make([]int, g.n)
	for i := range inComp {
		inComp[i] = -1
	}
	for c, comp := range comps {
		verifAssert(len(comp) > 1, "Sort: reported components are cyclic (more than one node)")
		for k, m := range comp {
			if i := g.idx(m.ID()); i >= 0 {
				inComp[i] = c
			}
			if k > 0 {
				verifAssert(comp[k-1].ID() < m.ID(), "Sort: members of a cyclic component are sorted by ID")
			}
		}
	}
	for i := 0; i < g.n; i++ {
		for j := 0; j < g.n; j++ {
			if i == j {
				continue
			}
			mutual := r[i][j] && r[j][i]
			verifAssert((inComp[i] >= 0 && inComp[i] == inComp[j]) == mutual, "Sort: reported components are exactly the cyclic strongly connected components")
			if g.adj[i][j] && !mutual && pos[i] >= 0 && pos[j] >= 0 {
				verifAssert(pos[i] < pos[j], "Sort: every edge between different components points forward")
			}
		}
	}
	verifReach("end")
}

// VerifC14_BreadthFirst: Walk visits exactly the reachable nodes once each,
// in hop-distance order, and reports the true depth to until.
func VerifC14_BreadthFirst() {
	g := c14Directed(verifParam("dn", 3))
	s := verifChoose("s", 0, g.n-1)
	hops := c14Hops(g)
	visits := make([]int, g.n)
	untils := make([]int, g.n)
	last := 0
	var bf traverse.BreadthFirst
	bf.Visit = func(n graph.Node) {
		if i := g.idx(n.ID()); i >= 0 {
			visits[i]++
		}
	}
	res := bf.Walk(g, c14Node(c14IDs[s]), func(n graph.Node, d int) bool {
		i := g.idx(n.ID())
		verifAssert(i >= 0, "BreadthFirst: until sees graph nodes")
		if i < 0 {
			return false
		}
		untils[i]++
		verifAssert(d == hops[s][i], "BreadthFirst: depth passed to until is the hop distance")
		verifAssert(d >= last, "BreadthFirst: nodes are reported in non-decreasing hop distance")
		last = d
		return false
	})
	verifAssert(res == nil, "BreadthFirst: Walk returns nil when until never accepts")
	for i := 0; i < g.n; i++ {
		want := 0
		if hops[s][i] >= 0 {
			want = 1
		}
		verifAssert(visits[i] == want, "BreadthFirst: Visit called exactly once per reachable node, never otherwise")
		verifAssert(untils[i] == want, "BreadthFirst: until called exactly once per reachable node")
		verifAssert(bf.Visited(c14Node(c14IDs[i])) == (want == 1), "BreadthFirst: Visited is the reachable set")
	}
	// early stop: Walk returns the first node accepted by until.
	for t := 0; t < g.n; t++ {
		var bf2 traverse.BreadthFirst
		res = bf2.Walk(g, c14Node(c14IDs[s]), func(n graph.Node, d int) bool { return n.ID() == c14IDs[t] })
		if hops[s][t] >= 0 {
			verifAssert(res != nil && res.ID() == c14IDs[t], "BreadthFirst: a reachable target is found")
		} else {
			verifAssert(res == nil, "BreadthFirst: an unreachable target is not found")
		}
	}
	verifReach("end")
}

// VerifC14_DepthFirst: Walk visits exactly the reachable nodes once each.
func VerifC14_DepthFirst() {
	g := c14Directed(verifParam("dn", 3))
	s := verifChoose("s", 0, g.n-1)
	r := c14Reach(g, false)
	visits := make([]int, g.n)
	untils := make([]int, g.n)
	var df traverse.DepthFirst
	df.Visit = func(n graph.Node) {
		if i := g.idx(n.ID()); i >= 0 {
			visits[i]++
		}
	}
	res := df.Walk(g, c14Node(c14IDs[s]), func(n graph.Node) bool {
		if i := g.idx(n.ID()); i >= 0 {
			untils[i]++
		}
		return false
	})
	verifAssert(res == nil, "DepthFirst: Walk returns nil when until never accepts")
	for i := 0; i < g.n; i++ {
		want := 0
		if r[s][i] {
			want = 1
		}
		verifAssert(visits[i] == want, "DepthFirst: Visit called exactly once per reachable node, never otherwise")
		verifAssert(untils[i] == want, "DepthFirst: until called exactly once per reachable node")
		verifAssert(df.Visited(c14Node(c14IDs[i])) == r[s][i], "DepthFirst: Visited is the reachable set")
	}
	for t := 0; t < g.n; t++ {
		var df2 traverse.DepthFirst
		res = df2.Walk(g, c14Node(c14IDs[s]), func(n graph.Node) bool { return n.ID() == c14IDs[t] })
		if r[s][t] {
			verifAssert(res != nil && res.ID() == c14IDs[t], "DepthFirst: a reachable target is found")
		} else {
			verifAssert(res == nil, "DepthFirst: an unreachable target is not found")
		}
	}
	verifReach("end")
}

// VerifC14_WalkAll: BreadthFirst/DepthFirst.WalkAll visit every node of an
// undirected graph exactly once, one before/after pair per component.
func VerifC14_WalkAll() {
	g := c14Undirected(verifParam("un", 4), false)
	r := c14Reach(g.c14Graph, true)
	ncomp := 0
	for i := 0; i < g.n; i++ {
		first := true
		for j := 0; j < i; j++ {
			if r[i][j] {
				first = false
			}
		}
		if first {
			ncomp++
		}
	}
	for kind := 0; kind < 2; kind++ {
		seen := make([]int, g.n)
		comp := make([]int, g.n)
		before, after := 0, 0
		bfn := func() { before++ }
		afn := func() { after++ }
		during := func(n graph.Node) {
			if i := g.idx(n.ID()); i >= 0 {
				seen[i]++
				comp[i] = before
			}
		}
		if kind == 0 {
			var w traverse.BreadthFirst
			w.WalkAll(g, bfn, afn, during)
		} else {
			var w traverse.DepthFirst
			w.WalkAll(g, bfn, afn, during)
		}
		verifAssert(before == ncomp && after == ncomp, "WalkAll: one before/after call per connected component")
		for i := 0; i < g.n; i++ {
			verifAssert(seen[i] == 1, "WalkAll: every node is traversed exactly once")
			for j := 0; j < g.n; j++ {
				verifAssert((comp[i] == comp[j]) == r[i][j], "WalkAll: nodes are traversed in the same walk iff connected")
			}
		}
	}
	verifReach("end")
}
