package c14

// C14, deterministic generators of graph/graphs/gen: node set and edge set
// exactly as documented, documented panics, for every ID sequence (with and
// without repetitions) up to the stated length.

import (
	"math/rand/v2"

	"gonum.org/v1/gonum/graph"
	"gonum.org/v1/gonum/graph/graphs/gen"
	"gonum.org/v1/gonum/graph/simple"
)

var verifC14pGenIDs = [...]int64{5, 1, 9, -3, 1 << 40, -7, 12}

// NodeWithID makes the recording destination a gen.NodeIDGraphBuilder.
func (d *verifC14pDst) NodeWithID(id int64) (graph.Node, bool) {
	if n := d.Node(id); n != nil {
		return n, false
	}
	return verifC14pNode(id), true
}

type verifC14pGenBuilder interface {
	graph.Graph
	gen.NodeIDGraphBuilder
}

var (
	_ verifC14pGenBuilder = verifC14pDDst{}
	_ verifC14pGenBuilder = verifC14pUDst{}
	_ verifC14pGenBuilder = (*simple.DirectedGraph)(nil)
	_ verifC14pGenBuilder = (*simple.UndirectedGraph)(nil)
)

func verifC14pGenDst() (verifC14pGenBuilder, bool) {
	switch verifChoose("dst", 0, 3) {
	case 0:
		return verifC14pDDst{&verifC14pDst{}}, true
	case 1:
		return verifC14pUDst{&verifC14pDst{sym: true}}, false
	case 2:
		return simple.NewDirectedGraph(), true
	default:
		return simple.NewUndirectedGraph(), false
	}
}

// verifC14pGenSeq: an ID sequence of length minLen..gn. Either an IDRange
// (contiguous, distinct) or an IDSet whose every element is drawn from
// length+1 non-contiguous values, so that all repetition patterns occur.
func verifC14pGenSeq(minLen int) (seq []int64, ids gen.IDer, distinct bool) {
	l := verifChoose("len", minLen, verifParam("gn", 4))
	if verifChoose("ider", 0, 1) == 1 {
		r := gen.IDRange{First: -2, Last: int64(l) - 3}
		verifAssert(r.Len() == l, "IDRange: Len is Last-First+1")
		for i := 0; i < l; i++ {
			verifAssert(r.ID(i) == int64(i)-2, "IDRange: ID(i) is First+i")
			seq = append(seq, int64(i)-2)
		}
		return seq, r, true
	}
	distinct = true
	for i := 0; i < l; i++ {
		v := verifC14pGenIDs[verifChoose("id"+string(rune('0'+i)), 0, l)]
		for _, w := range seq {
			if w == v {
				distinct = false
			}
		}
		seq = append(seq, v)
	}
	set := gen.IDSet(append([]int64(nil), seq...))
	verifAssert(set.Len() == l, "IDSet: Len is the number of IDs")
	return seq, set, distinct
}

// verifC14pGenCheck: dst has exactly the node IDs in nodes and exactly the
// arcs want[i][j] (nodes[i] -> nodes[j]); an undirected destination has the
// edge iff one of the two arcs is wanted.
func verifC14pGenCheck(who string, dst graph.Graph, dstDirected bool, nodes []int64, want [][]bool) {
	got := graph.NodesOf(dst.Nodes())
	verifAssert(len(got) == len(nodes), who+": the graph has exactly the given nodes")
	for _, id := range nodes {
		verifAssert(dst.Node(id) != nil, who+": every given ID is a node")
	}
	dd, _ := dst.(graph.Directed)
	for i, u := range nodes {
		for j, v := range nodes {
			if dstDirected {
				verifAssert(dd.HasEdgeFromTo(u, v) == want[i][j], who+": directed destination has the arc iff documented (direction included)")
			} else {
				verifAssert(dst.HasEdgeBetween(u, v) == (want[i][j] || want[j][i]), who+": undirected destination has the edge iff documented")
			}
		}
	}
}

func verifC14pGenWant(n int) [][]bool {
	w := make([][]bool, n)
	for i := range w {
		w[i] = make([]bool, n)
	}
	return w
}

// VerifC14_GenComplete: every pair of distinct nodes is adjacent, nothing else
// (the direction of the arc in a directed destination is not documented);
// panic iff an ID is repeated.
func VerifC14_GenComplete() {
	seq, ids, distinct := verifC14pGenSeq(0)
	dst, dstDirected := verifC14pGenDst()
	panicked, fault, _ := verifCatch(func() { gen.Complete(dst, ids) })
	verifAssert(!fault, "Complete: no runtime fault")
	verifAssert(panicked == !distinct, "Complete: panics iff an ID appears twice")
	if panicked || !distinct {
		return
	}
	n := len(seq)
	got := graph.NodesOf(dst.Nodes())
	verifAssert(len(got) == n, "Complete: the graph has exactly the given nodes")
	for i, u := range seq {
		verifAssert(dst.Node(u) != nil, "Complete: every given ID is a node")
		for j, v := range seq {
			verifAssert(dst.HasEdgeBetween(u, v) == (i != j), "Complete: two nodes are adjacent iff they are distinct")
		}
	}
	_ = dstDirected
	verifReach("end")
}

// VerifC14_GenCycle: arcs ids[i] -> ids[(i+1) mod n]; a single node for n = 1.
func VerifC14_GenCycle() {
	seq, ids, distinct := verifC14pGenSeq(0)
	dst, dstDirected := verifC14pGenDst()
	panicked, fault, _ := verifCatch(func() { gen.Cycle(dst, ids) })
	verifAssert(!fault, "Cycle: no runtime fault")
	verifAssert(panicked == !distinct, "Cycle: panics iff an ID appears twice")
	if panicked || !distinct {
		return
	}
	n := len(seq)
	want := verifC14pGenWant(n)
	if n > 1 {
		for i := 0; i < n; i++ {
			want[i][(i+1)%n] = true
		}
	}
	verifC14pGenCheck("Cycle", dst, dstDirected, seq, want)
	verifReach("end")
}

// VerifC14_GenPath: arcs ids[i] -> ids[i+1].
func VerifC14_GenPath() {
	seq, ids, distinct := verifC14pGenSeq(0)
	dst, dstDirected := verifC14pGenDst()
	panicked, fault, _ := verifCatch(func() { gen.Path(dst, ids) })
	verifAssert(!fault, "Path: no runtime fault")
	verifAssert(panicked == !distinct, "Path: panics iff an ID appears twice")
	if panicked || !distinct {
		return
	}
	n := len(seq)
	want := verifC14pGenWant(n)
	for i := 0; i+1 < n; i++ {
		want[i][i+1] = true
	}
	verifC14pGenCheck("Path", dst, dstDirected, seq, want)
	verifReach("end")
}

// VerifC14_GenStar: arcs center -> leaf; seq[0] is the center.
func VerifC14_GenStar() {
	seq, _, distinct := verifC14pGenSeq(1)
	leaves := gen.IDSet(append([]int64(nil), seq[1:]...))
	dst, dstDirected := verifC14pGenDst()
	panicked, fault, _ := verifCatch(func() { gen.Star(dst, seq[0], leaves) })
	verifAssert(!fault, "Star: no runtime fault")
	verifAssert(panicked == !distinct, "Star: panics iff an ID appears twice in leaves and center")
	if panicked || !distinct {
		return
	}
	n := len(seq)
	want := verifC14pGenWant(n)
	for i := 1; i < n; i++ {
		want[0][i] = true
	}
	verifC14pGenCheck("Star", dst, dstDirected, seq, want)
	verifReach("end")
}

// VerifC14_GenWheel: arcs center -> cycle node and cycle[i] -> cycle[(i+1) mod m].
func VerifC14_GenWheel() {
	seq, _, distinct := verifC14pGenSeq(1)
	cycle := gen.IDSet(append([]int64(nil), seq[1:]...))
	dst, dstDirected := verifC14pGenDst()
	panicked, fault, _ := verifCatch(func() { gen.Wheel(dst, seq[0], cycle) })
	verifAssert(!fault, "Wheel: no runtime fault")
	verifAssert(panicked == !distinct, "Wheel: panics iff an ID appears twice in cycle and center")
	if panicked || !distinct {
		return
	}
	n := len(seq)
	m := n - 1
	want := verifC14pGenWant(n)
	for i := 1; i < n; i++ {
		want[0][i] = true
		if m > 1 {
			want[i][1+i%m] = true // cycle index i-1 -> (i-1+1) mod m
		}
	}
	verifC14pGenCheck("Wheel", dst, dstDirected, seq, want)
	verifReach("end")
}

// VerifC14_GenTree: breadth-first n-ary tree: the parent of nodes[j], j >= 1,
// is nodes[(j-1)/fan]; documented panics for the fan-out and repeated IDs.
func VerifC14_GenTree() {
	seq, ids, distinct := verifC14pGenSeq(0)
	n := len(seq)
	// every fan-out in [-1, n+1] for distinct IDs; with a repeated ID only
	// the (otherwise valid) fan-out 1: the call panics either way.
	lo, hi := -1, n+1
	if !distinct {
		lo, hi = 1, 1
	}
	fan := verifChoose("fan", lo, hi)
	dst, dstDirected := verifC14pGenDst()
	panicked, fault, _ := verifCatch(func() { gen.Tree(dst, fan, ids) })
	verifAssert(!fault, "Tree: no runtime fault")
	wantPanic := n > 1 && (fan < 1 || fan >= n || !distinct)
	verifAssert(panicked == wantPanic, "Tree: panics iff more than one node and (fan-out zero/negative or not less than the number of nodes, or an ID appears twice)")
	if panicked || wantPanic {
		return
	}
	want := verifC14pGenWant(n)
	for j := 1; j < n; j++ {
		want[(j-1)/fan][j] = true
	}
	verifC14pGenCheck("Tree", dst, dstDirected, seq, want)
	verifReach("end")
}

// VerifC14_GenRandomCorners: the parameter values for which the random
// generators Gnp and Gnm are deterministic by their documentation: p = 0 and
// m = 0 give n isolated nodes, p = 1 gives every edge (both arcs in a
// directed destination) whatever the random source returns, probabilities
// outside [0,1] and sizes outside [0, n(n-1)/2] are reported as errors.
func VerifC14_GenRandomCorners() {
	n := verifChoose("n", 0, verifParam("gn", 4))
	which := verifChoose("case", 0, 5)
	var dst interface {
		graph.Graph
		gen.GraphBuilder
	}
	var dstDirected bool
	switch verifChoose("dst", 0, 3) {
	case 0:
		dst, dstDirected = verifC14pDDst{&verifC14pDst{}}, true
	case 1:
		dst, dstDirected = verifC14pUDst{&verifC14pDst{sym: true}}, false
	case 2:
		dst, dstDirected = simple.NewDirectedGraph(), true
	default:
		dst, dstDirected = simple.NewUndirectedGraph(), false
	}
	wantEdges := false
	var err error
	switch which {
	case 0:
		err = gen.Gnp(dst, n, 0, nil)
	case 1:
		err = gen.Gnm(dst, n, 0, nil)
	case 2:
		err = gen.Gnp(dst, n, 1, rand.NewPCG(uint64(n), 99))
		wantEdges = true
	case 3:
		err = gen.Gnp(dst, n, 1, verifC14pConstSource(1<<64-1))
		wantEdges = true
	case 4:
		bad := []float64{-0.5, 1.5}[verifChoose("bad", 0, 1)]
		err = gen.Gnp(dst, n, bad, nil)
		verifAssert(err != nil, "Gnp: a probability outside [0,1] is an error")
		return
	default:
		m := n*(n-1)/2 + 1
		if dstDirected {
			m = 2*m + 1 // a directed destination takes m/2 edges per direction
		}
		if verifChoose("neg", 0, 1) == 1 {
			m = -2
		}
		err = gen.Gnm(dst, n, m, nil)
		verifAssert(err != nil, "Gnm: a size outside [0, n(n-1)/2] is an error")
		return
	}
	verifAssert(err == nil, "Gnp/Gnm: no error for valid parameters")
	nodes := graph.NodesOf(dst.Nodes())
	verifAssert(len(nodes) == n, "Gnp/Gnm: the graph has order n")
	dd, _ := dst.(graph.Directed)
	for _, u := range nodes {
		for _, v := range nodes {
			want := wantEdges && u.ID() != v.ID()
			if dstDirected {
				verifAssert(dd.HasEdgeFromTo(u.ID(), v.ID()) == want, "Gnp/Gnm: p = 0 or m = 0 gives no edge, p = 1 every arc")
			} else {
				verifAssert(dst.HasEdgeBetween(u.ID(), v.ID()) == want, "Gnp/Gnm: p = 0 or m = 0 gives no edge, p = 1 every edge")
			}
		}
	}
	verifReach("end")
}

// verifC14pConstSource is a rand.Source returning one value for ever.
type verifC14pConstSource uint64

func (s verifC14pConstSource) Uint64() uint64 { return uint64(s) }
