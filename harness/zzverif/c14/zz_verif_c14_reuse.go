package c14

import (
	"gonum.org/v1/gonum/graph"
	"gonum.org/v1/gonum/graph/traverse"
)

// VerifC14_TraverseReuse: one BreadthFirst / DepthFirst value used for a walk
// that STOPS EARLY (until accepts a chosen target while other nodes are still
// queued), then Reset, then a second complete walk from another start: the
// second walk visits exactly the nodes reachable from its start, once each,
// with the true hop depths - nothing of the first walk (queued nodes, visited
// marks, queue head) survives Reset.
func VerifC14_TraverseReuse() {
	g := c14Directed(verifParam("dn", 3))
	s1 := verifChoose("s1", 0, g.n-1)
	t1 := verifChoose("t1", 0, g.n-1)
	s2 := verifChoose("s2", 0, g.n-1)
	hops := c14Hops(g)
	r := c14Reach(g, false)
	if verifChoose("kind", 0, 1) == 0 {
		var bf traverse.BreadthFirst
		bf.Walk(g, c14Node(c14IDs[s1]), func(n graph.Node, d int) bool { return n.ID() == c14IDs[t1] })
		bf.Reset()
		for i := 0; i < g.n; i++ {
			verifAssert(!bf.Visited(c14Node(c14IDs[i])), "BreadthFirst: nothing is visited after Reset")
		}
		visits := make([]int, g.n)
		bf.Visit = func(n graph.Node) {
			if i := g.idx(n.ID()); i >= 0 {
				visits[i]++
			}
		}
		res := bf.Walk(g, c14Node(c14IDs[s2]), func(n graph.Node, d int) bool {
			if i := g.idx(n.ID()); i >= 0 {
				verifAssert(d == hops[s2][i], "BreadthFirst (reused): depth passed to until is the hop distance")
			}
			return false
		})
		verifAssert(res == nil, "BreadthFirst (reused): Walk returns nil when until never accepts")
		for i := 0; i < g.n; i++ {
			want := 0
			if hops[s2][i] >= 0 {
				want = 1
			}
			verifAssert(visits[i] == want, "BreadthFirst (reused after an early stop and Reset): Visit called exactly once per reachable node, never otherwise")
		}
	} else {
		var df traverse.DepthFirst
		df.Walk(g, c14Node(c14IDs[s1]), func(n graph.Node) bool { return n.ID() == c14IDs[t1] })
		df.Reset()
		for i := 0; i < g.n; i++ {
			verifAssert(!df.Visited(c14Node(c14IDs[i])), "DepthFirst: nothing is visited after Reset")
		}
		visits := make([]int, g.n)
		df.Visit = func(n graph.Node) {
			if i := g.idx(n.ID()); i >= 0 {
				visits[i]++
			}
		}
		res := df.Walk(g, c14Node(c14IDs[s2]), func(n graph.Node) bool { return false })
		verifAssert(res == nil, "DepthFirst (reused): Walk returns nil when until never accepts")
		for i := 0; i < g.n; i++ {
			want := 0
			if r[s2][i] {
				want = 1
			}
			verifAssert(visits[i] == want, "DepthFirst (reused after an early stop and Reset): Visit called exactly once per reachable node, never otherwise")
		}
	}
	verifReach("end")
}
