package c14

import (
	"gonum.org/v1/gonum/graph"
	"gonum.org/v1/gonum/graph/coloring"
	"gonum.org/v1/gonum/graph/flow"
	"gonum.org/v1/gonum/graph/topo"
)

// c14Mask is the bit set of the node indices in nodes (-1 if a node is not
// in g or repeated).
func c14Mask(g *c14Graph, nodes []graph.Node) int {
	m := 0
	for _, nd := range nodes {
		i := g.idx(nd.ID())
		if i < 0 || m>>uint(i)&1 == 1 {
			return -1
		}
		m |= 1 << uint(i)
	}
	return m
}

// VerifC14_DirectedCycles: DirectedCyclesIn returns exactly the elementary
// cycles, each once (as closed node lists).
func VerifC14_DirectedCycles() {
	g := c14Directed(verifParam("dn", 3))
	n := g.n
	// oracle: elementary cycles, canonical form = start at the smallest index.
	var want [][]int
	seen := make([]bool, n)
	var cur []int
	var rec func(start, u int)
	rec = func(start, u int) {
		seen[u] = true
		cur = append(cur, u)
		for v := 0; v < n; v++ {
			if !g.adj[u][v] {
				continue
			}
			if v == start {
				want = append(want, append([]int(nil), cur...))
			} else if v > start && !seen[v] {
				rec(start, v)
			}
		}
		cur = cur[:len(cur)-1]
		seen[u] = false
	}
	for s := 0; s < n; s++ {
		rec(s, s)
	}
	got := topo.DirectedCyclesIn(g)
	verifAssert(len(got) == len(want), "DirectedCyclesIn: as many cycles as there are elementary cycles")
	used := make([]int, len(want))
	for _, c := range got {
		ok := len(c) >= 3 && c[0].ID() == c[len(c)-1].ID()
		verifAssert(ok, "DirectedCyclesIn: a cycle is a closed node list")
		if !ok {
			continue
		}
		body := c[:len(c)-1]
		verifAssert(c14Mask(g, body) > 0, "DirectedCyclesIn: cycles are elementary (no repeated node)")
		// rotate to the smallest index
		k0 := 0
		for k := range body {
			if g.idx(body[k].ID()) < g.idx(body[k0].ID()) {
				k0 = k
			}
		}
		found := false
		for w, wc := range want {
			if len(wc) != len(body) {
				continue
			}
			same := true
			for k := range wc {
				if g.idx(body[(k0+k)%len(body)].ID()) != wc[k] {
					same = false
				}
			}
			if same {
				used[w]++
				found = true
			}
		}
		verifAssert(found, "DirectedCyclesIn: every returned cycle is an elementary cycle of g")
	}
	for w := range want {
		verifAssert(used[w] == 1, "DirectedCyclesIn: every elementary cycle is returned exactly once")
	}
	verifReach("end")
}

// VerifC14_UndirectedCycles: UndirectedCyclesIn returns a cycle basis:
// m - n + c cycles of g that are independent over GF(2).
func VerifC14_UndirectedCycles() {
	g := c14Undirected(verifParam("un", 4), false)
	n := g.n
	r := c14Reach(g.c14Graph, true)
	ncomp, m := 0, 0
	eidx := make([][]int, n)
	for i := 0; i < n; i++ {
		eidx[i] = make([]int, n)
		first := true
		for j := 0; j < i; j++ {
			if r[i][j] {
				first = false
			}
		}
		if first {
			ncomp++
		}
	}
	for i := 0; i < n; i++ {
		for j := i + 1; j < n; j++ {
			if g.adj[i][j] {
				eidx[i][j], eidx[j][i] = m, m
				m++
			}
		}
	}
	got := topo.UndirectedCyclesIn(g)
	verifAssert(len(got) == m-n+ncomp, "UndirectedCyclesIn: the basis has m - n + c cycles")
	var vecs []int
	for _, c := range got {
		ok := len(c) >= 4 && c[0].ID() == c[len(c)-1].ID()
		verifAssert(ok, "UndirectedCyclesIn: a cycle is a closed node list of at least 3 nodes")
		if !ok {
			return
		}
		verifAssert(c14Mask(g.c14Graph, c[:len(c)-1]) > 0, "UndirectedCyclesIn: cycles do not repeat nodes")
		vec := 0
		for k := 0; k+1 < len(c); k++ {
			i, j := g.idx(c[k].ID()), g.idx(c[k+1].ID())
			e := i >= 0 && j >= 0 && g.adj[i][j]
			verifAssert(e, "UndirectedCyclesIn: consecutive nodes are adjacent in g")
			if !e {
				return
			}
			vec ^= 1 << uint(eidx[i][j])
		}
		vecs = append(vecs, vec)
	}
	// GF(2) rank by elimination
	rank := 0
	for b := 0; b < m; b++ {
		p := -1
		for k := rank; k < len(vecs); k++ {
			if vecs[k]>>uint(b)&1 == 1 {
				p = k
				break
			}
		}
		if p < 0 {
			continue
		}
		vecs[rank], vecs[p] = vecs[p], vecs[rank]
		for k := range vecs {
			if k != rank && vecs[k]>>uint(b)&1 == 1 {
				vecs[k] ^= vecs[rank]
			}
		}
		rank++
	}
	verifAssert(rank == len(got), "UndirectedCyclesIn: the cycles are independent (a basis of the cycle space)")
	verifReach("end")
}

func c14IsClique(g *c14Graph, s int) bool {
	for i := 0; i < g.n; i++ {
		for j := i + 1; j < g.n; j++ {
			if s>>uint(i)&1 == 1 && s>>uint(j)&1 == 1 && !g.adj[i][j] {
				return false
			}
		}
	}
	return true
}

// VerifC14_BronKerbosch: exactly the maximal cliques, each once.
func VerifC14_BronKerbosch() {
	g := c14Undirected(verifParam("un", 4), false)
	n := g.n
	want := make([]bool, 1<<uint(n))
	nwant := 0
	for s := 1; s < 1<<uint(n); s++ {
		if !c14IsClique(g.c14Graph, s) {
			continue
		}
		maximal := true
		for v := 0; v < n; v++ {
			if s>>uint(v)&1 == 0 && c14IsClique(g.c14Graph, s|1<<uint(v)) {
				maximal = false
			}
		}
		if maximal {
			want[s] = true
			nwant++
		}
	}
	got := topo.BronKerbosch(g)
	verifAssert(len(got) == nwant, "BronKerbosch: as many cliques as there are maximal cliques")
	seen := make([]bool, 1<<uint(n))
	for _, c := range got {
		s := c14Mask(g.c14Graph, c)
		verifAssert(s > 0, "BronKerbosch: a clique lists distinct nodes of g")
		if s <= 0 {
			continue
		}
		verifAssert(want[s], "BronKerbosch: every returned set is a maximal clique")
		verifAssert(!seen[s], "BronKerbosch: no clique is returned twice")
		seen[s] = true
	}
	verifReach("end")
}

// c14CoreOf: the k-core by peeling (bit set).
func c14CoreOf(g *c14Graph, k int) int {
	alive := 1<<uint(g.n) - 1
	for changed := true; changed; {
		changed = false
		for v := 0; v < g.n; v++ {
			if alive>>uint(v)&1 == 0 {
				continue
			}
			d := 0
			for u := 0; u < g.n; u++ {
				if alive>>uint(u)&1 == 1 && g.adj[v][u] {
					d++
				}
			}
			if d < k {
				alive &^= 1 << uint(v)
				changed = true
			}
		}
	}
	return alive
}

// VerifC14_KCore: KCore(k) is the k-core by the peeling definition for every
// k up to the degeneracy; DegeneracyOrdering's cores are the shells and its
// order is a degeneracy ordering.
func VerifC14_KCore() {
	g := c14Undirected(verifParam("un", 4), false)
	n := g.n
	degen := 0
	for k := 0; k <= n; k++ {
		if c14CoreOf(g.c14Graph, k) != 0 {
			degen = k
		}
	}
	for k := 0; k <= degen; k++ {
		core := topo.KCore(k, g)
		verifAssert(c14Mask(g.c14Graph, core) == c14CoreOf(g.c14Graph, k), "KCore: the k-core by the peeling definition")
	}
	order, cores := topo.DegeneracyOrdering(g)
	verifAssert(c14Mask(g.c14Graph, order) == 1<<uint(n)-1, "DegeneracyOrdering: order is a permutation of the nodes")
	verifAssert(len(cores) == degen+1, "DegeneracyOrdering: one core list per k = 0..degeneracy")
	if len(cores) == degen+1 {
		acc := 0
		for k := degen; k >= 0; k-- {
			s := c14Mask(g.c14Graph, cores[k])
			verifAssert(s >= 0 && s&acc == 0, "DegeneracyOrdering: core lists are disjoint")
			if s < 0 {
				return
			}
			acc |= s
			verifAssert(acc == c14CoreOf(g.c14Graph, k), "DegeneracyOrdering: cores[k..] together are the k-core")
		}
	}
	// degeneracy ordering: in one direction every node has at most `degen`
	// neighbours on one side.
	fwd, bwd := true, true
	for p, nd := range order {
		i := g.idx(nd.ID())
		later, earlier := 0, 0
		for q, md := range order {
			j := g.idx(md.ID())
			if i >= 0 && j >= 0 && g.adj[i][j] {
				if q > p {
					later++
				} else if q < p {
					earlier++
				}
			}
		}
		if later > degen {
			fwd = false
		}
		if earlier > degen {
			bwd = false
		}
	}
	verifAssert(fwd || bwd, "DegeneracyOrdering: every node has at most degeneracy-many neighbours on one side of the order")
	verifReach("end")
}

// c14ReachAvoid: nodes reachable from r without passing through avoid (bit set).
func c14ReachAvoid(g *c14Graph, r, avoid int) int {
	if r == avoid {
		return 0
	}
	seen := 1 << uint(r)
	for changed := true; changed; {
		changed = false
		for u := 0; u < g.n; u++ {
			if seen>>uint(u)&1 == 0 {
				continue
			}
			for v := 0; v < g.n; v++ {
				if g.adj[u][v] && v != avoid && seen>>uint(v)&1 == 0 {
					seen |= 1 << uint(v)
					changed = true
				}
			}
		}
	}
	return seen
}

// VerifC14_Dominators: both algorithms return the unique dominator tree:
// idom(v) is the dominator of v that every other strict dominator of v dominates.
func VerifC14_Dominators() {
	g := c14Directed(verifParam("dn", 3))
	n := g.n
	r := verifChoose("root", 0, n-1)
	reach := c14ReachAvoid(g, r, -1)
	// dom[v]: bit set of strict dominators of v (u != v, every path r -> v passes u)
	dom := make([]int, n)
	for v := 0; v < n; v++ {
		if reach>>uint(v)&1 == 0 {
			continue
		}
		for u := 0; u < n; u++ {
			if u != v && c14ReachAvoid(g, r, u)>>uint(v)&1 == 0 {
				dom[v] |= 1 << uint(u)
			}
		}
	}
	idom := make([]int, n)
	for v := 0; v < n; v++ {
		idom[v] = -1
		if reach>>uint(v)&1 == 0 || v == r {
			continue
		}
		for u := 0; u < n; u++ {
			// the strict dominator whose own strict dominators are all the others
			if dom[v]>>uint(u)&1 == 1 && dom[u] == dom[v]&^(1<<uint(u)) {
				verifAssert(idom[v] == -1, "oracle: immediate dominator is unique")
				idom[v] = u
			}
		}
		verifAssert(idom[v] >= 0, "oracle: every reachable non-root node has an immediate dominator")
	}
	for alg := 0; alg < 2; alg++ {
		var dt flow.DominatorTree
		who := "Dominators"
		if alg == 0 {
			dt = flow.Dominators(c14Node(c14IDs[r]), g)
		} else {
			dt = flow.DominatorsSLT(c14Node(c14IDs[r]), g)
			who = "DominatorsSLT"
		}
		verifAssert(dt.Root().ID() == c14IDs[r], who+": Root is the given root")
		for v := 0; v < n; v++ {
			d := dt.DominatorOf(c14IDs[v])
			if idom[v] < 0 {
				verifAssert(d == nil, who+": the root and unreachable nodes have no immediate dominator")
			} else {
				verifAssert(d != nil && d.ID() == c14IDs[idom[v]], who+": DominatorOf is the immediate dominator")
			}
			kids := dt.DominatedBy(c14IDs[v])
			want := 0
			for x := 0; x < n; x++ {
				if idom[x] == v {
					want |= 1 << uint(x)
				}
			}
			got := c14Mask(g, kids)
			if len(kids) == 0 {
				got = 0
			}
			verifAssert(got == want, who+": DominatedBy lists exactly the immediately dominated nodes")
		}
	}
	verifReach("end")
}

// c14Chromatic: chromatic number by brute force.
func c14Chromatic(g *c14Graph) int {
	n := g.n
	if n == 0 {
		return 0
	}
	col := make([]int, n)
	for k := 1; k <= n; k++ {
		var try func(v int) bool
		try = func(v int) bool {
			if v == n {
				return true
			}
			for c := 0; c < k; c++ {
				ok := true
				for u := 0; u < v; u++ {
					if g.adj[u][v] && col[u] == c {
						ok = false
					}
				}
				if ok {
					col[v] = c
					if try(v + 1) {
						return true
					}
				}
			}
			return false
		}
		if try(0) {
			return k
		}
	}
	return n
}

func c14CheckColoring(g *c14Graph, k int, colors map[int64]int, chi int, exact bool, who string) {
	n := g.n
	verifAssert(len(colors) == n, who+": every node is coloured")
	used := make([]bool, n+1)
	distinct := 0
	for i := 0; i < n; i++ {
		c, ok := colors[c14IDs[i]]
		verifAssert(ok, who+": every node is coloured")
		verifAssert(c >= 0 && c < k, who+": colours are in [0, k)")
		if c >= 0 && c <= n && !used[c] {
			used[c] = true
			distinct++
		}
		for j := 0; j < n; j++ {
			if g.adj[i][j] {
				verifAssert(colors[c14IDs[j]] != c, who+": adjacent nodes have different colours")
			}
		}
	}
	verifAssert(distinct == k, who+": k is the number of colours used")
	verifAssert(k >= chi, who+": k is at least the chromatic number")
	if exact {
		verifAssert(k == chi, who+": the exact solver attains the chromatic number")
	}
}

// VerifC14_Coloring: every deterministic colouring routine returns a proper
// colouring with k colours; DsaturExact attains the chromatic number.
func VerifC14_Coloring() {
	g := c14Undirected(verifParam("cn", 4), false)
	if g.n == 0 {
		return
	}
	chi := c14Chromatic(g.c14Graph)
	k, colors, err := coloring.DsaturExact(nil, g)
	verifAssert(err == nil, "DsaturExact: no error without a terminator")
	c14CheckColoring(g.c14Graph, k, colors, chi, true, "DsaturExact")
	k, colors, err = coloring.Dsatur(g, nil)
	verifAssert(err == nil, "Dsatur: no error without a partial colouring")
	c14CheckColoring(g.c14Graph, k, colors, chi, false, "Dsatur")
	k, colors = coloring.RecursiveLargestFirst(g)
	c14CheckColoring(g.c14Graph, k, colors, chi, false, "RecursiveLargestFirst")
	k, colors, err = coloring.SanSegundo(g, nil)
	verifAssert(err == nil, "SanSegundo: no error without a partial colouring")
	c14CheckColoring(g.c14Graph, k, colors, chi, false, "SanSegundo")
	k, colors, err = coloring.WelshPowell(g, nil)
	verifAssert(err == nil, "WelshPowell: no error without a partial colouring")
	c14CheckColoring(g.c14Graph, k, colors, chi, false, "WelshPowell")
	verifReach("end")
}
