package c14

// C14, remaining definition-level checks: topo.IsPathIn, topo.Equal,
// topo.SortStabilized, traversal with Traverse filters and until predicates,
// colouring with partial colourings (and Randomized, Sets).

import (
	"math/rand/v2"

	"gonum.org/v1/gonum/graph"
	"gonum.org/v1/gonum/graph/coloring"
	"gonum.org/v1/gonum/graph/iterator"
	"gonum.org/v1/gonum/graph/topo"
	"gonum.org/v1/gonum/graph/traverse"
)

const verifC14pAbsent int64 = 77

// VerifC14_IsPathIn: the documented special cases, false when two consecutive
// nodes are not joined (in the direction of the path for a directed graph),
// true for a sequence of distinct nodes with all consecutive nodes joined.
// (Nothing is asserted for node sequences that repeat a node and are joined
// throughout: whether such a walk is a "path" is not documented.)
func VerifC14_IsPathIn() {
	g, _, gg := verifC14pInput("g", verifParam("pn", 3), verifC14pIDsA[:])
	maxLen := verifParam("plen", 4)
	n := g.n
	seq := make([]int, 0, maxLen)
	var rec func()
	rec = func() {
		path := make([]graph.Node, len(seq))
		for k, i := range seq {
			id := verifC14pAbsent
			if i < n {
				id = g.ids[i]
			}
			path[k] = verifC14pNode(id)
		}
		got := topo.IsPathIn(gg, path)
		switch len(seq) {
		case 0:
			verifAssert(got, "IsPathIn: a zero length path is a path")
		case 1:
			verifAssert(got == (seq[0] < n), "IsPathIn: a single node is a path iff it is in the graph")
		default:
			joined, distinct := true, true
			for k := 0; k+1 < len(seq); k++ {
				u, v := seq[k], seq[k+1]
				if u >= n || v >= n || !g.adj[u][v] {
					joined = false
				}
				for l := k + 1; l < len(seq); l++ {
					if seq[l] == u {
						distinct = false
					}
				}
			}
			if !joined {
				verifAssert(!got, "IsPathIn: false when consecutive nodes are not joined by an edge (in path direction)")
			} else if distinct {
				verifAssert(got, "IsPathIn: true for distinct nodes with all consecutive nodes joined")
			}
		}
		if len(seq) < maxLen {
			for i := 0; i <= n; i++ {
				seq = append(seq, i)
				rec()
				seq = seq[:len(seq)-1]
			}
		}
	}
	rec()
	verifReach("end")
}

// VerifC14_Equal: true iff the node ID sets are identical and every node has
// the same set of successors in both graphs; independent of iteration order
// and of the directed/undirected interface.
func VerifC14_Equal() {
	pn := verifParam("pn", 3)
	a, _, ga := verifC14pInput("a", pn, verifC14pIDsA[:])
	rot := []int64{-2, 1 << 33, 7} // the IDs of a in another order
	trues := 0
	for variant := 0; variant < 2; variant++ {
		ids := verifC14pIDsA[:]
		if variant == 1 {
			ids = rot
		}
		for n := 0; n <= pn; n++ {
			for dir := 0; dir < 2; dir++ {
				for mask := 0; mask < verifC14pMasks(n, dir == 1); mask++ {
					b, gb := verifC14pBuild(n, dir == 1, mask, ids)
					want := a.n == b.n
					for i := 0; want && i < a.n; i++ {
						j := b.idx(a.ids[i])
						if j < 0 {
							want = false
							break
						}
						for k := 0; k < a.n; k++ {
							l := b.idx(a.ids[k])
							if l < 0 || a.adj[i][k] != b.adj[j][l] {
								want = false
							}
						}
					}
					if want {
						trues++
					}
					verifAssert(topo.Equal(ga, gb) == want, "Equal: true iff identical node sets and identical successor sets")
					verifAssert(topo.Equal(gb, ga) == want, "Equal: symmetric")
				}
			}
		}
	}
	verifAssert(trues >= 1, "oracle: some graph equals a")
	verifReach("end")
}

// verifC14pRev is g with Nodes and From iterating in reverse index order.
type verifC14pRev struct{ *c14Graph }

func (g verifC14pRev) Nodes() graph.Nodes {
	if g.n == 0 {
		return graph.Empty
	}
	nodes := make([]graph.Node, 0, g.n)
	for i := g.n - 1; i >= 0; i-- {
		nodes = append(nodes, c14Node(c14IDs[i]))
	}
	return iterator.NewOrderedNodes(nodes)
}

func (g verifC14pRev) From(id int64) graph.Nodes {
	i := g.idx(id)
	if i < 0 {
		return graph.Empty
	}
	var nodes []graph.Node
	for j := g.n - 1; j >= 0; j-- {
		if g.adj[i][j] {
			nodes = append(nodes, c14Node(c14IDs[j]))
		}
	}
	if len(nodes) == 0 {
		return graph.Empty
	}
	return iterator.NewOrderedNodes(nodes)
}

var _ graph.Directed = verifC14pRev{}

// verifC14pCheckSort: the result of a topological sort (same statement as
// VerifC14_TopoSort, with the order of component members given by less).
// Returns false if the result is too malformed to be examined further.
func verifC14pCheckSort(g *c14Graph, sorted []graph.Node, err error, less func(a, b int64) bool, who string) bool {
	r := c14Reach(g, false)
	cyclic := false
	for i := 0; i < g.n; i++ {
		for j := 0; j < g.n; j++ {
			if i != j && r[i][j] && r[j][i] {
				cyclic = true
			}
		}
	}
	verifAssert((err != nil) == cyclic, who+": error iff the graph has a cycle")
	pos := make([]int, g.n)
	for i := range pos {
		pos[i] = -1
	}
	var comps topo.Unorderable
	if err != nil {
		var ok bool
		comps, ok = err.(topo.Unorderable)
		verifAssert(ok, who+": the error is an Unorderable")
		if !ok {
			return false
		}
	}
	nils := 0
	for p, nd := range sorted {
		if nd == nil {
			verifAssert(nils < len(comps), who+": one nil marker per cyclic component")
			if nils < len(comps) {
				for _, m := range comps[nils] {
					i := g.idx(m.ID())
					verifAssert(i >= 0 && pos[i] == -1, who+": cyclic component members are distinct graph nodes")
					if i >= 0 {
						pos[i] = p
					}
				}
			}
			nils++
			continue
		}
		i := g.idx(nd.ID())
		verifAssert(i >= 0 && pos[i] == -1, who+": sorted nodes are distinct graph nodes")
		if i >= 0 {
			pos[i] = p
		}
	}
	verifAssert(nils == len(comps), who+": one nil marker per cyclic component")
	for i := range pos {
		verifAssert(pos[i] >= 0, who+": every node is sorted or in a reported cyclic component")
		if pos[i] < 0 {
			return false
		}
	}
	inComp := make([]int, g.n)
	for i := range inComp {
		inComp[i] = -1
	}
	for c, comp := range comps {
		verifAssert(len(comp) > 1, who+": reported components are cyclic (more than one node)")
		for k, m := range comp {
			if i := g.idx(m.ID()); i >= 0 {
				inComp[i] = c
			}
			if k > 0 {
				verifAssert(less(comp[k-1].ID(), m.ID()), who+": members of a cyclic component are sorted by the order function")
			}
		}
	}
	for i := 0; i < g.n; i++ {
		for j := 0; j < g.n; j++ {
			if i == j {
				continue
			}
			mutual := r[i][j] && r[j][i]
			verifAssert((inComp[i] >= 0 && inComp[i] == inComp[j]) == mutual, who+": reported components are exactly the cyclic strongly connected components")
			if g.adj[i][j] && !mutual {
				verifAssert(pos[i] < pos[j], who+": every edge between different components points forward")
			}
		}
	}
	return true
}

// VerifC14_SortStabilized: a topological sort (as Sort) that does not depend
// on the iteration order of Nodes and From; without any edge the result is
// sorted by the order function.
func VerifC14_SortStabilized() {
	g := c14Directed(verifParam("dn", 3))
	custom := verifChoose("order", 0, 1) == 1
	less := func(a, b int64) bool { return a < b }
	var order func([]graph.Node)
	if custom {
		less = func(a, b int64) bool { return a > b }
		order = func(nodes []graph.Node) { // insertion sort, descending ID
			for i := 1; i < len(nodes); i++ {
				for j := i; j > 0 && nodes[j].ID() > nodes[j-1].ID(); j-- {
					nodes[j], nodes[j-1] = nodes[j-1], nodes[j]
				}
			}
		}
	}
	sorted, err := topo.SortStabilized(g, order)
	if !verifC14pCheckSort(g, sorted, err, less, "SortStabilized") {
		return
	}
	// With no arcs at all nothing but the order function decides.
	// (Not asserted: that two consecutive sorted nodes without an arc between
	// them follow the order function. The implementation does not do that,
	// e.g. arcs 9->1, 9->-3, -3->5 give 9,-3,5,1; see notes/C14_products.md.)
	if verifC14pMaskOf(g) == 0 {
		for p := 0; p+1 < len(sorted); p++ {
			u, v := sorted[p], sorted[p+1]
			if u != nil && v != nil {
				verifAssert(less(u.ID(), v.ID()), "SortStabilized: a graph without edges is sorted by the order function")
			}
		}
	}
	sorted2, err2 := topo.SortStabilized(verifC14pRev{g}, order)
	same := len(sorted) == len(sorted2) && (err == nil) == (err2 == nil)
	if same {
		for p := range sorted {
			if (sorted[p] == nil) != (sorted2[p] == nil) || (sorted[p] != nil && sorted[p].ID() != sorted2[p].ID()) {
				same = false
			}
		}
	}
	if same && err != nil {
		c1, ok1 := err.(topo.Unorderable)
		c2, ok2 := err2.(topo.Unorderable)
		same = ok1 && ok2 && len(c1) == len(c2)
		if same {
			for c := range c1 {
				if len(c1[c]) != len(c2[c]) {
					same = false
					continue
				}
				for k := range c1[c] {
					if c1[c][k].ID() != c2[c][k].ID() {
						same = false
					}
				}
			}
		}
	}
	verifAssert(same, "SortStabilized: the result does not depend on the iteration order of the graph")
	verifReach("end")
}

// verifC14pMaskOf: the mask (bit order of c14Directed) of g's arcs.
func verifC14pMaskOf(g *c14Graph) int {
	mask, b := 0, 0
	for i := 0; i < g.n; i++ {
		for j := 0; j < g.n; j++ {
			if i == j {
				continue
			}
			if g.adj[i][j] {
				mask |= 1 << uint(b)
			}
			b++
		}
	}
	return mask
}

// VerifC14_TraverseFiltered: BreadthFirst/DepthFirst.Walk with a Traverse edge
// filter and an until predicate accepting a set of nodes, for every digraph,
// every subset of its arcs as the set of traversable arcs, every source and
// every target set (on more than 3 nodes: sampled filters and target sets):
// the walk is the walk of the filtered graph.
func VerifC14_TraverseFiltered() {
	g := c14Directed(verifParam("tn", 3))
	n := g.n
	s := verifChoose("s", 0, n-1)
	gmask := verifC14pMaskOf(g)
	src := c14Node(c14IDs[s])
	walks := 0
	// n <= 3: every subset of the arcs, every target set. Above: the filters
	// gmask&pattern for five fixed patterns and three target sets.
	full := n <= 3
	var filters []int
	if full {
		for fmask := 0; fmask < 1<<uint(n*(n-1)); fmask++ {
			if fmask&^gmask == 0 {
				filters = append(filters, fmask)
			}
		}
	} else {
		for _, pat := range []int{0xFFF, 0xA5A, 0x5A5, 0x3C9, 0xC36} {
			dup := false
			for _, fm := range filters {
				if fm == gmask&pat {
					dup = true
				}
			}
			if !dup {
				filters = append(filters, gmask&pat)
			}
		}
	}
	for _, fmask := range filters {
		// f: the filtered graph (only the arcs the filter lets through).
		f := c14New(n)
		b := 0
		for i := 0; i < n; i++ {
			for j := 0; j < n; j++ {
				if i == j {
					continue
				}
				f.adj[i][j] = fmask>>uint(b)&1 == 1
				b++
			}
		}
		hops := c14Hops(f)
		for kind := 0; kind < 2; kind++ {
			who := "BreadthFirst"
			if kind == 1 {
				who = "DepthFirst"
			}
			// tmask == 0: full walk (until never accepts).
			for tmask := 0; tmask < 1<<uint(n); tmask++ {
				if !full && tmask != 0 && tmask != 1<<uint((s+2)%n) && tmask != (1<<uint(n)-1)&^(1<<uint(s)|1<<uint((s+1)%n)) {
					continue
				}
				walks++
				visits := make([]int, n)
				untils := make([]int, n)
				asked := make([][]int, n)
				for i := range asked {
					asked[i] = make([]int, n)
				}
				accepted := 0
				visit := func(nd graph.Node) {
					if i := g.idx(nd.ID()); i >= 0 {
						visits[i]++
					}
				}
				filter := func(e graph.Edge) bool {
					ok := e != nil
					verifAssert(ok, who+": Traverse is called with an edge")
					if !ok {
						return false
					}
					i, j := g.idx(e.From().ID()), g.idx(e.To().ID())
					ok = i >= 0 && j >= 0 && g.adj[i][j]
					verifAssert(ok, who+": Traverse is called with edges of the graph")
					if !ok {
						return false
					}
					verifAssert(hops[s][i] >= 0, who+": Traverse is called only for edges leaving a node reachable through traversable edges")
					asked[i][j]++
					return f.adj[i][j]
				}
				until := func(nd graph.Node, d int) bool {
					i := g.idx(nd.ID())
					verifAssert(i >= 0, who+": until sees graph nodes")
					if i < 0 {
						return false
					}
					verifAssert(accepted == 0, who+": until is not called after it accepted a node")
					untils[i]++
					if d >= 0 {
						verifAssert(d == hops[s][i], who+": depth is the hop distance in the filtered graph")
					}
					if tmask>>uint(i)&1 == 1 {
						accepted++
						return true
					}
					return false
				}
				var res graph.Node
				var visited func(graph.Node) bool
				if kind == 0 {
					w := traverse.BreadthFirst{Visit: visit, Traverse: filter}
					res = w.Walk(g, src, until)
					visited = w.Visited
				} else {
					w := traverse.DepthFirst{Visit: visit, Traverse: filter}
					res = w.Walk(g, src, func(nd graph.Node) bool { return until(nd, -1) })
					visited = w.Visited
				}
				// nearest accepted node
				best := -1
				for i := 0; i < n; i++ {
					if tmask>>uint(i)&1 == 1 && hops[s][i] >= 0 && (best < 0 || hops[s][i] < best) {
						best = hops[s][i]
					}
				}
				if best < 0 {
					verifAssert(res == nil, who+": nil when no accepted node is reachable through traversable edges")
				} else {
					ok := res != nil && g.idx(res.ID()) >= 0
					verifAssert(ok, who+": an accepted node reachable through traversable edges is found")
					if ok {
						r := g.idx(res.ID())
						verifAssert(tmask>>uint(r)&1 == 1 && hops[s][r] >= 0, who+": the returned node is accepted by until and reachable through traversable edges")
						if kind == 0 {
							verifAssert(hops[s][r] == best, who+": the first accepted node in breadth-first order is a nearest one")
						}
					}
				}
				for i := 0; i < n; i++ {
					reach := hops[s][i] >= 0
					verifAssert(visits[i] <= 1 && untils[i] <= 1, who+": Visit and until are called at most once per node")
					if !reach {
						verifAssert(visits[i] == 0 && untils[i] == 0, who+": nodes not reachable through traversable edges are never visited")
						verifAssert(!visited(c14Node(c14IDs[i])), who+": Visited is false for nodes not reachable through traversable edges")
					}
					verifAssert(visited(c14Node(c14IDs[i])) == (visits[i] == 1), who+": Visited reports the nodes Visit was called on")
					if best >= 0 {
						continue
					}
					// complete walk
					want := 0
					if reach {
						want = 1
					}
					verifAssert(visits[i] == want && untils[i] == want, who+": a complete walk visits exactly the nodes reachable through traversable edges, once")
					for j := 0; j < n; j++ {
						if reach && g.adj[i][j] {
							verifAssert(asked[i][j] >= 1, who+": Traverse is called on every edge leaving a visited node")
						} else {
							verifAssert(asked[i][j] == 0, who+": Traverse is not called on other pairs")
						}
					}
				}
			}
		}
	}
	verifAssert(walks > 0, "oracle: some walk was examined")
	verifReach("end")
}

// verifC14pProper: colors is a proper total colouring of g extending partial
// and k is the number of colours it uses.
func verifC14pProper(g *c14Graph, k int, colors, partial map[int64]int, who string) {
	n := g.n
	verifAssert(len(colors) == n, who+": exactly the nodes of g are coloured")
	var seen []int
	for i := 0; i < n; i++ {
		c, ok := colors[c14IDs[i]]
		verifAssert(ok, who+": every node is coloured")
		if !ok {
			continue
		}
		if pc, in := partial[c14IDs[i]]; in {
			verifAssert(c == pc, who+": the colouring is consistent with the partial colouring")
		}
		for j := 0; j < n; j++ {
			if g.adj[i][j] {
				oc, ok2 := colors[c14IDs[j]]
				verifAssert(!ok2 || oc != c, who+": adjacent nodes have different colours")
			}
		}
		dup := false
		for _, sc := range seen {
			if sc == c {
				dup = true
			}
		}
		if !dup {
			seen = append(seen, c)
		}
	}
	verifAssert(k == len(seen), who+": k is the number of colours used")
	// Sets: colour classes with ascending IDs.
	sets := coloring.Sets(colors)
	verifAssert(len(sets) == len(seen), "Sets: one set per colour")
	total := 0
	for c, ids := range sets {
		total += len(ids)
		for q, id := range ids {
			oc, ok := colors[id]
			verifAssert(ok && oc == c, "Sets: a set holds nodes of its colour")
			if q > 0 {
				verifAssert(ids[q-1] < id, "Sets: IDs are in ascending order")
			}
		}
	}
	verifAssert(total == len(colors), "Sets: every coloured node is in a set")
}

// VerifC14_ColoringPartial: Dsatur, SanSegundo, WelshPowell and Randomized
// with every partial colouring over a small palette: ErrInvalidPartialColoring
// iff the partial colouring names a node that is not in g or gives two
// adjacent nodes the same colour; otherwise a proper colouring of all nodes
// that extends the partial colouring (always possible), k = colours used.
func VerifC14_ColoringPartial() {
	g := c14Undirected(verifParam("cn", 4), false)
	n := g.n
	if n == 0 {
		return
	}
	palette := []int{-1, 0, 2, 1, 5}[:1+verifParam("pc", 2)] // -1: not in the partial colouring
	np := len(palette)
	total := 1
	for i := 0; i < n; i++ {
		total *= np
	}
	// code == total: a valid-looking partial colouring that names an absent node.
	for code := 0; code <= total; code++ {
		partial := make(map[int64]int)
		valid := true
		if code == total {
			partial[c14Absent] = 0
			valid = false
		} else {
			x := code
			for i := 0; i < n; i++ {
				if c := palette[x%np]; c >= 0 {
					partial[c14IDs[i]] = c
				}
				x /= np
			}
			for i := 0; i < n; i++ {
				for j := 0; j < n; j++ {
					ci, oki := partial[c14IDs[i]]
					cj, okj := partial[c14IDs[j]]
					if g.adj[i][j] && oki && okj && ci == cj {
						valid = false
					}
				}
			}
		}
		for alg := 0; alg < 4; alg++ {
			// every routine gets its own copy of the partial colouring
			arg := make(map[int64]int, len(partial))
			for id, c := range partial {
				arg[id] = c
			}
			var (
				k      int
				colors map[int64]int
				err    error
				who    string
			)
			switch alg {
			case 0:
				who = "Dsatur"
				k, colors, err = coloring.Dsatur(g, arg)
			case 1:
				who = "SanSegundo"
				k, colors, err = coloring.SanSegundo(g, arg)
			case 2:
				who = "WelshPowell"
				k, colors, err = coloring.WelshPowell(g, arg)
			default:
				who = "Randomized"
				k, colors, err = coloring.Randomized(g, arg, rand.NewPCG(uint64(code), uint64(7*n)))
			}
			if !valid {
				verifAssert(err == coloring.ErrInvalidPartialColoring, who+": ErrInvalidPartialColoring for an inadmissible partial colouring")
				continue
			}
			verifAssert(err == nil, who+": no error for an admissible partial colouring")
			if err != nil {
				continue
			}
			verifC14pProper(g.c14Graph, k, colors, partial, who)
		}
	}
	verifReach("end")
}

// verifC14pCliqueDst records what CliqueGraph builds (topo.Builder).
type verifC14pCliqueDst struct {
	nodes []graph.Node
	edges []graph.Edge
}

func (d *verifC14pCliqueDst) AddNode(n graph.Node) { d.nodes = append(d.nodes, n) }
func (d *verifC14pCliqueDst) SetEdge(e graph.Edge) { d.edges = append(d.edges, e) }

// VerifC14_CliqueGraph: the nodes are exactly the maximal cliques of g (each
// once, distinct IDs), two cliques are joined iff they share a node, and the
// Nodes of an edge are exactly the shared nodes.
func VerifC14_CliqueGraph() {
	g := c14Undirected(verifParam("un", 4), false)
	n := g.n
	dst := &verifC14pCliqueDst{}
	topo.CliqueGraph(dst, g)
	want := make([]bool, 1<<uint(n))
	nwant := 0
	for s := 1; s < 1<<uint(n); s++ {
		if !c14IsClique(g.c14Graph, s) {
			continue
		}
		maximal := true
		for v := 0; v < n; v++ {
			if s>>uint(v)&1 == 0 && c14IsClique(g.c14Graph, s|1<<uint(v)) {
				maximal = false
			}
		}
		if maximal {
			want[s] = true
			nwant++
		}
	}
	verifAssert(len(dst.nodes) == nwant, "CliqueGraph: one node per maximal clique")
	masks := make([]int, len(dst.nodes))
	for k, nd := range dst.nodes {
		c, ok := nd.(topo.Clique)
		verifAssert(ok, "CliqueGraph: nodes are topo.Clique values")
		if !ok {
			return
		}
		masks[k] = c14Mask(g.c14Graph, c.Nodes())
		ok = masks[k] > 0 && want[masks[k]]
		verifAssert(ok, "CliqueGraph: the Nodes of a node are a maximal clique of g")
		if !ok {
			return
		}
		for l := 0; l < k; l++ {
			verifAssert(masks[l] != masks[k], "CliqueGraph: no clique appears twice")
			verifAssert(dst.nodes[l].ID() != nd.ID(), "CliqueGraph: node IDs are distinct")
		}
	}
	find := func(nd graph.Node) int {
		for k, m := range dst.nodes {
			if m.ID() == nd.ID() {
				return k
			}
		}
		return -1
	}
	joined := make([][]bool, len(dst.nodes))
	for k := range joined {
		joined[k] = make([]bool, len(dst.nodes))
	}
	for _, e := range dst.edges {
		ce, ok := e.(topo.CliqueGraphEdge)
		verifAssert(ok, "CliqueGraph: edges are topo.CliqueGraphEdge values")
		if !ok {
			return
		}
		k, l := find(ce.From()), find(ce.To())
		ok = k >= 0 && l >= 0 && k != l
		verifAssert(ok, "CliqueGraph: an edge joins two different clique nodes")
		if !ok {
			return
		}
		fc, okf := ce.From().(topo.Clique)
		tc, okt := ce.To().(topo.Clique)
		verifAssert(okf && okt && c14Mask(g.c14Graph, fc.Nodes()) == masks[k] && c14Mask(g.c14Graph, tc.Nodes()) == masks[l],
			"CliqueGraph: edge end points carry their cliques")
		joined[k][l], joined[l][k] = true, true
		verifAssert(c14Mask(g.c14Graph, ce.Nodes()) == masks[k]&masks[l], "CliqueGraph: the Nodes of an edge are the nodes common to the two cliques")
	}
	for k := range masks {
		for l := range masks {
			if k != l {
				verifAssert(joined[k][l] == (masks[k]&masks[l] != 0), "CliqueGraph: two cliques are joined iff they share a node")
			}
		}
	}
	verifReach("end")
}
