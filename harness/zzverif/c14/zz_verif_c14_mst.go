package c14

import (
	"gonum.org/v1/gonum/graph"
	"gonum.org/v1/gonum/graph/path"
)

// c14Dst records what Prim/Kruskal build (path.WeightedBuilder).
type c14Dst struct {
	nodes []int64
	edges []c14Edge
}

func (d *c14Dst) AddNode(n graph.Node) { d.nodes = append(d.nodes, n.ID()) }
func (d *c14Dst) SetWeightedEdge(e graph.WeightedEdge) {
	d.edges = append(d.edges, c14Edge{f: c14Node(e.From().ID()), t: c14Node(e.To().ID()), w: e.Weight()})
}

// c14Find is a naive union-find root lookup on a parent array.
func c14Find(par []int, x int) int {
	for par[x] != x {
		x = par[x]
	}
	return x
}

// c14CheckForest: dst holds every node once and a spanning forest of g (acyclic
// subset of g's edges with n - #components edges) of total weight w that is
// minimal among all spanning forests of g.
func c14CheckForest(g c14UGraph, dst *c14Dst, w float64, who string) {
	n := g.n
	cnt := make([]int, n)
	for _, id := range dst.nodes {
		i := g.idx(id)
		verifAssert(i >= 0, who+": destination nodes are nodes of g")
		if i >= 0 {
			cnt[i]++
		}
	}
	for i := range cnt {
		verifAssert(cnt[i] == 1, who+": every node of g is added to the destination exactly once")
	}
	// components of g
	r := c14Reach(g.c14Graph, true)
	ncomp := 0
	for i := 0; i < n; i++ {
		first := true
		for j := 0; j < i; j++ {
			if r[i][j] {
				first = false
			}
		}
		if first {
			ncomp++
		}
	}
	// result edges: real edges with the right weight, acyclic
	par := make([]int, n)
	for i := range par {
		par[i] = i
	}
	var sum float64
	for _, e := range dst.edges {
		i, j := g.idx(e.f.ID()), g.idx(e.t.ID())
		ok := i >= 0 && j >= 0 && i != j && g.adj[i][j]
		verifAssert(ok, who+": result edges are edges of g")
		if !ok {
			return
		}
		verifAssertEqF(e.w, g.w[i][j], who+": result edges carry the weight they have in g")
		ri, rj := c14Find(par, i), c14Find(par, j)
		verifAssert(ri != rj, who+": the result is acyclic")
		par[ri] = rj
		sum += g.w[i][j]
	}
	verifAssert(len(dst.edges) == n-ncomp, who+": the result spans every component (n - #components edges)")
	verifAssertEqF(w, sum, who+": returned weight is the total weight of the result")
	// every spanning forest of g, by subset enumeration
	type pair struct{ i, j int }
	var es []pair
	for i := 0; i < n; i++ {
		for j := i + 1; j < n; j++ {
			if g.adj[i][j] {
				es = append(es, pair{i, j})
			}
		}
	}
	forests := 0
	for sub := 0; sub < 1<<uint(len(es)); sub++ {
		k := 0
		for b := range es {
			if sub>>uint(b)&1 == 1 {
				k++
			}
		}
		if k != n-ncomp {
			continue
		}
		for i := range par {
			par[i] = i
		}
		acyclic := true
		var fw float64
		for b, e := range es {
			if sub>>uint(b)&1 == 0 {
				continue
			}
			ri, rj := c14Find(par, e.i), c14Find(par, e.j)
			if ri == rj {
				acyclic = false
				break
			}
			par[ri] = rj
			fw += g.w[e.i][e.j]
		}
		if !acyclic {
			continue
		}
		forests++
		verifAssert(w <= fw, who+": no spanning forest of g is lighter than the result")
	}
	verifAssert(forests > 0, who+": oracle found a spanning forest")
}

// VerifC14_Kruskal: every undirected graph on un nodes, symbolic weights of
// free sign (ties included).
func VerifC14_Kruskal() {
	g := c14Undirected(verifParam("un", 4), true)
	dst := &c14Dst{}
	w := path.Kruskal(dst, g)
	c14CheckForest(g, dst, w, "Kruskal")
	verifReach("end")
}

// VerifC14_Prim: as Kruskal.
func VerifC14_Prim() {
	g := c14Undirected(verifParam("un", 4), true)
	dst := &c14Dst{}
	w := path.Prim(dst, g)
	c14CheckForest(g, dst, w, "Prim")
	verifReach("end")
}
