package c15

import (
	"math"

	"gonum.org/v1/gonum/graph"
	"gonum.org/v1/gonum/graph/network"
)

// c15Plain hides the weight methods of c15Graph: PageRank then takes its
// unweighted arm.
type c15Plain struct{ graph.Directed }

// VerifC15_PageRank: PageRank and PageRankSparse, unweighted and edge-weighted,
// on EVERY digraph on prn nodes (dangling nodes, isolated nodes, the empty and
// the complete graph included) with concrete weights: the returned vector is a
// probability vector and satisfies its defining stationarity equation
//
//	r = damp*(H + A)*r + (1-damp)/n,  H[i][j] = w(j,i)/sum_k w(j,k),
//	A = columns 1/n for the dangling nodes j
//
// within 1e-6, and the dense and sparse routines agree. The random start
// vector (rand.NormFloat64) is replaced by a fixed positive one, so the
// power iteration runs concretely; the case split is over the topology, the
// routine, the weighting and the damping factor.
func VerifC15_PageRank() {
	n := verifParam("prn", 3)
	g := c15Directed(n, false)
	wkind := verifChoose("weights", 0, 2) // 0: unweighted graph, 1: unit weights, 2: varied weights
	if wkind == 2 {
		for i := 0; i < n; i++ {
			for j := 0; j < n; j++ {
				if g.adj[i][j] {
					g.w[i][j] = float64(1 + (2*i+j)%3)
				}
			}
		}
	}
	damp := []float64{0.85, 0.3}[verifChoose("damp", 0, 1)]
	calls := 0
	verifStubFunc("math/rand/v2.NormFloat64", func() float64 {
		calls++
		return float64(calls)
	})
	var dg graph.Directed = g
	if wkind == 0 {
		dg = c15Plain{g}
	}
	const tol = 1e-10
	dense := network.PageRank(dg, damp, tol)
	sparse := network.PageRankSparse(dg, damp, tol)
	for which, r := range []map[int64]float64{dense, sparse} {
		name := []string{"PageRank", "PageRankSparse"}[which]
		verifAssert(len(r) == n, name+": one rank per node")
		sum := 0.0
		for i := 0; i < n; i++ {
			v, ok := r[c15IDs[i]]
			verifAssert(ok && v > 0, name+": every node has a positive rank")
			sum += v
		}
		verifAssert(math.Abs(sum-1) <= 1e-6, name+": the ranks sum to 1")
		for i := 0; i < n; i++ {
			want := (1 - damp) / float64(n)
			for j := 0; j < n; j++ {
				z := 0.0
				for k := 0; k < n; k++ {
					if g.adj[j][k] {
						z += g.w[j][k]
					}
				}
				switch {
				case z == 0:
					want += damp * r[c15IDs[j]] / float64(n)
				case g.adj[j][i]:
					want += damp * r[c15IDs[j]] * g.w[j][i] / z
				}
			}
			verifAssert(math.Abs(r[c15IDs[i]]-want) <= 1e-6, name+": r = damp*(H+A)*r + (1-damp)/n at every node")
		}
	}
	for i := 0; i < n; i++ {
		verifAssert(math.Abs(dense[c15IDs[i]]-sparse[c15IDs[i]]) <= 1e-6, "PageRank and PageRankSparse agree")
	}
	verifReach("end")
}
