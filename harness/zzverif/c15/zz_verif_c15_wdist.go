package c15

import (
	"math"

	"gonum.org/v1/gonum/graph"
	"gonum.org/v1/gonum/graph/network"
	"gonum.org/v1/gonum/graph/path"
)

// c15WGraph case-splits directed/undirected and builds every topology with
// symbolic weights assumed >= 0 (zero included).
func c15WGraph(pn string, def int) (*c15Graph, graph.Weighted, graph.Graph) {
	var g *c15Graph
	var gw graph.Weighted
	var gg graph.Graph
	if verifChoose("undirected", 0, 1) == 1 {
		ug := c15Undirected(verifParam(pn, def), true)
		g, gw, gg = ug.c15Graph, ug, ug
	} else {
		g = c15Directed(verifParam(pn, def), true)
		gw, gg = g, g
	}
	for i := 0; i < g.n; i++ {
		for j := 0; j < g.n; j++ {
			if g.adj[i][j] {
				verifAssume(g.w[i][j] >= 0)
			}
		}
	}
	return g, gw, gg
}

func c15AllPairs(gw graph.Weighted, pn string) path.AllShortest {
	if verifChoose("alg", 0, verifParam(pn, 1)-1) == 0 {
		return path.DijkstraAllPaths(gw)
	}
	ap, ok := path.FloydWarshall(gw)
	verifAssert(ok, "FloydWarshall: no negative cycle with weights >= 0")
	return ap
}

// c15Dist is the definition-level distance matrix of a graph with weights
// >= 0: the minimum weight over all simple paths (branch-free); reach[u][v]
// tells whether any path exists (concrete: topology is concrete).
func c15Dist(g *c15Graph) (d [][]float64, reach [][]bool) {
	n := g.n
	d = make([][]float64, n)
	reach = make([][]bool, n)
	for s := 0; s < n; s++ {
		d[s] = make([]float64, n)
		reach[s] = make([]bool, n)
		reach[s][s] = true
		for t := 0; t < n; t++ {
			if s == t {
				continue
			}
			all := c15SimplePaths(g, s, t)
			if len(all) == 0 {
				continue
			}
			reach[s][t] = true
			m := c15PathWeight(g, all[0])
			for _, p := range all[1:] {
				w := c15PathWeight(g, p)
				m = verifIteF(w < m, w, m)
			}
			d[s][t] = m
		}
	}
	return d, reach
}

// VerifC15_DistancesWeighted: Farness, Residual and Eccentricity on every
// weighted (di)graph with SYMBOLIC weights >= 0, zero included, so distinct
// nodes at distance exactly 0 (zero-weight edges and paths) are covered:
//
//	F(v) = sum_u d(u,v),  C(v) = sum_{u != v} 2^-d(u,v),  E(v) = max_u d(u,v)
//
// over incoming finite distances. 2^x of a symbolic x is an uninterpreted
// function in the engine, so the Residual assertion says: the same multiset of
// distances enters the sum (the node itself excluded, every other node at
// finite distance included, also at distance 0).
func VerifC15_DistancesWeighted() {
	g, gw, gg := c15WGraph("wdn", 3)
	n := g.n
	p := c15AllPairs(gw, "wdalgs")
	fa := network.Farness(gg, p)
	re := network.Residual(gg, p)
	ec := network.Eccentricity(gg, p)
	verifAssert(len(fa) == n && len(re) == n && len(ec) == n, "distance measures: one entry per node")
	d, reach := c15Dist(g)
	for v := 0; v < n; v++ {
		var far, res, ecc float64
		for u := 0; u < n; u++ {
			if !reach[u][v] || u == v {
				continue
			}
			far += d[u][v]
			res += math.Exp2(-d[u][v])
			ecc = verifIteF(d[u][v] > ecc, d[u][v], ecc)
		}
		id := c15IDs[v]
		verifAssertEqF(fa[id], far, "Farness(weighted): sum of finite incoming distances")
		verifAssertEqF(re[id], res, "Residual(weighted): sum over u != v of 2^-d(u,v), distance 0 included")
		verifAssertEqF(ec[id], ecc, "Eccentricity(weighted): largest finite incoming distance")
	}
	verifReach("end")
}

// VerifC15_ClosenessHarmonicWeighted: Closeness = 1/Farness and Harmonic =
// sum_{u != v} 1/d(u,v) with symbolic weights. The reciprocal of a zero
// distance / zero farness is +Inf in IEEE arithmetic, which the real model
// cannot express: paths with a zero divisor are pruned here (recorded
// assumption) and are covered with concrete weights by
// VerifC15_DistancesSmallWeights.
func VerifC15_ClosenessHarmonicWeighted() {
	verifDivZeroPrune(true)
	g, gw, gg := c15WGraph("wdn", 3)
	n := g.n
	p := c15AllPairs(gw, "wdalgs")
	cl := network.Closeness(gg, p)
	ha := network.Harmonic(gg, p)
	verifAssert(len(cl) == n && len(ha) == n, "distance measures: one entry per node")
	d, reach := c15Dist(g)
	for v := 0; v < n; v++ {
		var far, har float64
		others := 0
		for u := 0; u < n; u++ {
			if !reach[u][v] || u == v {
				continue
			}
			others++
			far += d[u][v]
			har += 1 / d[u][v]
		}
		id := c15IDs[v]
		if others > 0 {
			verifAssertEqF(cl[id]*far, 1, "Closeness(weighted): reciprocal of farness")
		} else {
			verifAssert(math.IsInf(cl[id], 1), "Closeness: +Inf when no other node reaches v")
		}
		verifAssertEqF(ha[id], har, "Harmonic(weighted): sum of reciprocal incoming distances")
	}
	verifReach("end")
}

// VerifC15_DistancesSmallWeights: all five measures with CONCRETE weights from
// {0, 1, .., swmax} on every (di)graph, evaluated natively, so the IEEE
// behaviour of the documented formulas at distance 0 is included:
// 1/d(u,v) = +Inf for a distinct node at distance 0 (Harmonic), 1/0 = +Inf
// farness 0 (Closeness), 2^-0 = 1 (Residual).
func VerifC15_DistancesSmallWeights() {
	var g *c15Graph
	var gw graph.Weighted
	var gg graph.Graph
	wmax := verifParam("swmax", 1)
	undirected := verifChoose("undirected", 0, 1) == 1
	if undirected {
		n := verifParam("swun", 3)
		g = c15New(n)
		for i := 0; i < n; i++ {
			for j := i + 1; j < n; j++ {
				k := verifChoose(c15Name("e", i, j), -1, wmax)
				if k >= 0 {
					g.adj[i][j], g.adj[j][i] = true, true
					g.w[i][j], g.w[j][i] = float64(k), float64(k)
				}
			}
		}
		ug := c15UGraph{g}
		gw, gg = ug, ug
	} else {
		n := verifParam("swdn", 3)
		g = c15New(n)
		for i := 0; i < n; i++ {
			for j := 0; j < n; j++ {
				if i == j {
					continue
				}
				k := verifChoose(c15Name("e", i, j), -1, wmax)
				if k >= 0 {
					g.adj[i][j] = true
					g.w[i][j] = float64(k)
				}
			}
		}
		gw, gg = g, g
	}
	n := g.n
	p := c15AllPairs(gw, "swalgs")
	cl := network.Closeness(gg, p)
	fa := network.Farness(gg, p)
	ha := network.Harmonic(gg, p)
	re := network.Residual(gg, p)
	ec := network.Eccentricity(gg, p)
	verifAssert(len(cl) == n && len(fa) == n && len(ha) == n && len(re) == n && len(ec) == n, "distance measures: one entry per node")
	d, reach := c15Dist(g)
	for v := 0; v < n; v++ {
		var far, har, res, ecc float64
		for u := 0; u < n; u++ {
			if !reach[u][v] || u == v {
				continue
			}
			far += d[u][v]
			har += 1 / d[u][v]
			res += 1 / math.Pow(2, d[u][v])
			if d[u][v] > ecc {
				ecc = d[u][v]
			}
		}
		id := c15IDs[v]
		verifAssert(fa[id] == far, "Farness: sum of finite incoming distances")
		verifAssert(c15CloseInf(cl[id], 1/far), "Closeness: reciprocal of farness (+Inf for farness 0)")
		verifAssert(c15CloseInf(ha[id], har), "Harmonic: sum of reciprocal incoming distances (+Inf at distance 0)")
		verifAssert(c15Close(re[id], res), "Residual: sum of 2^-d over incoming distances, distance 0 counts 1")
		verifAssert(ec[id] == ecc, "Eccentricity: largest finite incoming distance")
	}
	verifReach("end")
}

func c15CloseInf(a, b float64) bool {
	if math.IsInf(a, 1) || math.IsInf(b, 1) {
		return math.IsInf(a, 1) && math.IsInf(b, 1)
	}
	return c15Close(a, b)
}
