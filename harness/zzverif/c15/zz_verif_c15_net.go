package c15

import (
	"math"

	"gonum.org/v1/gonum/graph"
	"gonum.org/v1/gonum/graph/network"
	"gonum.org/v1/gonum/graph/path"
	"gonum.org/v1/gonum/graph/spectral"
)

func c15Close(a, b float64) bool {
	if a == b {
		return true
	}
	return math.Abs(a-b) <= 1e-12*(1+math.Abs(a)+math.Abs(b))
}

// VerifC15_Laplacian: L = D - A entry by entry, Index/Nodes consistent.
func VerifC15_Laplacian() {
	n := verifParam("ln", 4)
	g := c15Undirected(n, false)
	l := spectral.NewLaplacian(g)
	verifAssert(len(l.Nodes) == n && len(l.Index) == n, "Laplacian: Nodes and Index cover the graph")
	r, c := l.Dims()
	verifAssert(r == n && c == n, "Laplacian: n x n")
	for i := 0; i < n; i++ {
		ri, ok := l.Index[c15IDs[i]]
		verifAssert(ok && l.Nodes[ri].ID() == c15IDs[i], "Laplacian: Index maps IDs to rows of Nodes")
		deg := 0
		for j := 0; j < n; j++ {
			if g.adj[i][j] {
				deg++
			}
		}
		for j := 0; j < n; j++ {
			rj := l.Index[c15IDs[j]]
			want := 0.0
			if i == j {
				want = float64(deg)
			} else if g.adj[i][j] {
				want = -1
			}
			verifAssert(l.At(ri, rj) == want, "Laplacian: L = D - A")
		}
	}
	verifReach("end")
}

// VerifC15_SymNormLaplacian: L_ii = 1 (deg > 0), L_ij = -1/sqrt(d_i d_j).
func VerifC15_SymNormLaplacian() {
	n := verifParam("ln", 4)
	g := c15Undirected(n, false)
	l := spectral.NewSymNormLaplacian(g)
	deg := make([]int, n)
	for i := 0; i < n; i++ {
		for j := 0; j < n; j++ {
			if g.adj[i][j] {
				deg[i]++
			}
		}
	}
	for i := 0; i < n; i++ {
		ri := l.Index[c15IDs[i]]
		for j := 0; j < n; j++ {
			rj := l.Index[c15IDs[j]]
			want := 0.0
			if i == j && deg[i] > 0 {
				want = 1
			} else if i != j && g.adj[i][j] {
				want = -1 / math.Sqrt(float64(deg[i]*deg[j]))
			}
			verifAssert(c15Close(l.At(ri, rj), want), "SymNormLaplacian: I - D^-1/2 A D^-1/2")
		}
	}
	verifReach("end")
}

// VerifC15_RandomWalkLaplacian: symbolic damping d: column u holds 1-d on the
// diagonal and (d-1)/deg(u) at the successors of u (deg(u) > 0).
func VerifC15_RandomWalkLaplacian() {
	n := verifParam("rn", 3)
	g := c15Directed(n, false)
	damp := verifFloat("damp")
	l := spectral.NewRandomWalkLaplacian(g, damp)
	for u := 0; u < n; u++ {
		deg := 0
		for v := 0; v < n; v++ {
			if g.adj[u][v] {
				deg++
			}
		}
		cu := l.Index[c15IDs[u]]
		for v := 0; v < n; v++ {
			rv := l.Index[c15IDs[v]]
			want := 0.0
			if deg > 0 && u == v {
				want = 1 - damp
			} else if g.adj[u][v] {
				want = (damp - 1) / float64(deg)
			}
			verifAssertEqF(l.At(rv, cu), want, "RandomWalkLaplacian: (1-d)(I - A D^-1) column by column")
		}
	}
	verifReach("end")
}

// VerifC15_Distances: Closeness, Farness, Harmonic, Residual, Eccentricity on
// every unweighted digraph, against hop distances computed naively
// (incoming paths, infinite distances skipped).
func VerifC15_Distances() {
	n := verifParam("dn", 3)
	g := c15Directed(n, false)
	hops := c15Hops(g)
	p := path.DijkstraAllPaths(g)
	cl := network.Closeness(g, p)
	fa := network.Farness(g, p)
	ha := network.Harmonic(g, p)
	re := network.Residual(g, p)
	ec := network.Eccentricity(g, p)
	verifAssert(len(cl) == n && len(fa) == n && len(ha) == n && len(re) == n && len(ec) == n, "distance measures: one entry per node")
	for v := 0; v < n; v++ {
		var far, har, res, ecc float64
		for u := 0; u < n; u++ {
			if hops[u][v] < 0 || u == v {
				continue
			}
			d := float64(hops[u][v])
			far += d
			har += 1 / d
			res += 1 / math.Pow(2, d)
			if d > ecc {
				ecc = d
			}
		}
		id := c15IDs[v]
		verifAssert(fa[id] == far, "Farness: sum of finite incoming distances")
		if far > 0 {
			verifAssert(c15Close(cl[id], 1/far), "Closeness: reciprocal of farness")
		} else {
			verifAssert(math.IsInf(cl[id], 1), "Closeness: +Inf when no other node reaches v")
		}
		verifAssert(c15Close(ha[id], har), "Harmonic: sum of reciprocal incoming distances")
		verifAssert(c15Close(re[id], res), "Residual: sum of 2^-d over incoming distances")
		verifAssert(ec[id] == ecc, "Eccentricity: largest finite incoming distance")
	}
	verifReach("end")
}

// c15ShortestPaths: all shortest (fewest hops) simple paths s -> t.
func c15ShortestPaths(g *c15Graph, s, t int, hops [][]int) [][]int {
	var out [][]int
	if hops[s][t] < 0 {
		return nil
	}
	seen := make([]bool, g.n)
	var cur []int
	var rec func(u int)
	rec = func(u int) {
		seen[u] = true
		cur = append(cur, u)
		if u == t {
			if len(cur)-1 == hops[s][t] {
				out = append(out, append([]int(nil), cur...))
			}
		} else if len(cur)-1 < hops[s][t] {
			for v := 0; v < g.n; v++ {
				if g.adj[u][v] && !seen[v] {
					rec(v)
				}
			}
		}
		cur = cur[:len(cur)-1]
		seen[u] = false
	}
	rec(s)
	return out
}

// VerifC15_Betweenness: node and edge betweenness of unweighted graphs equal
// sum over ordered pairs s != t of sigma_st(x)/sigma_st by path enumeration;
// only non-zero node entries are reported.
func VerifC15_Betweenness() {
	var g *c15Graph
	var gg graph.Graph
	undirected := verifChoose("undirected", 0, 1) == 1
	if undirected {
		ug := c15Undirected(verifParam("bun", 4), false)
		g, gg = ug.c15Graph, ug
	} else {
		g = c15Directed(verifParam("bdn", 3), false)
		gg = g
	}
	n := g.n
	hops := c15Hops(g)
	wantV := make([]float64, n)
	wantE := make([][]float64, n)
	for i := range wantE {
		wantE[i] = make([]float64, n)
	}
	for s := 0; s < n; s++ {
		for t := 0; t < n; t++ {
			if s == t {
				continue
			}
			sp := c15ShortestPaths(g, s, t, hops)
			if len(sp) == 0 {
				continue
			}
			frac := 1 / float64(len(sp))
			for _, p := range sp {
				for k := 1; k+1 < len(p); k++ {
					wantV[p[k]] += frac
				}
				for k := 0; k+1 < len(p); k++ {
					a, b := p[k], p[k+1]
					if undirected && c15IDs[b] < c15IDs[a] {
						a, b = b, a
					}
					wantE[a][b] += frac
				}
			}
		}
	}
	cb := network.Betweenness(gg)
	for v := 0; v < n; v++ {
		got, ok := cb[c15IDs[v]]
		verifAssert(ok == (wantV[v] != 0), "Betweenness: exactly the non-zero centralities are reported")
		verifAssert(c15Close(got, wantV[v]), "Betweenness: sum of sigma_st(v)/sigma_st")
	}
	verifAssert(len(cb) <= n, "Betweenness: keys are node IDs")
	eb := network.EdgeBetweenness(gg)
	cnt := 0
	for a := 0; a < n; a++ {
		for b := 0; b < n; b++ {
			got, ok := eb[[2]int64{c15IDs[a], c15IDs[b]}]
			if ok {
				cnt++
			}
			verifAssert(c15Close(got, wantE[a][b]), "EdgeBetweenness: sum of sigma_st(e)/sigma_st")
			if ok {
				verifAssert(g.adj[a][b], "EdgeBetweenness: keys are edges of the graph")
			}
		}
	}
	verifAssert(cnt == len(eb), "EdgeBetweenness: no keys outside the graph")
	verifReach("end")
}
