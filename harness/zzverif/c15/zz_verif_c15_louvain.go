package c15

import (
	"gonum.org/v1/gonum/graph"
	"gonum.org/v1/gonum/graph/community"
)

// c15Down returns the next lower level or nil ("nil if at the lowest level" is
// a nil pointer of the receiver's concrete type inside the interface).
func c15Down(r community.ReducedGraph) community.ReducedGraph {
	switch e := r.Expanded().(type) {
	case *community.ReducedUndirected:
		if e == nil {
			return nil
		}
		return e
	case *community.ReducedDirected:
		if e == nil {
			return nil
		}
		return e
	}
	return nil
}

// c15Blocks turns communities of original nodes into a block index per
// original node; ok reports that every node occurs exactly once and no
// community is empty or holds a foreign node.
func c15Blocks(g *c15Graph, comms [][]graph.Node) (c []int, ok bool) {
	c = make([]int, g.n)
	cnt := make([]int, g.n)
	ok = true
	for b, comm := range comms {
		if len(comm) == 0 {
			ok = false
		}
		for _, u := range comm {
			i := g.idx(u.ID())
			if i < 0 {
				ok = false
				continue
			}
			cnt[i]++
			c[i] = b
		}
	}
	for _, k := range cnt {
		if k != 1 {
			ok = false
		}
	}
	return c, ok
}

// c15QConcrete: the defining modularity sum of a concrete-weight graph
// (undirected graphs have a symmetric A, so one formula serves both).
func c15QConcrete(g *c15Graph, c []int, gamma float64) float64 {
	n := g.n
	kout := make([]float64, n)
	kin := make([]float64, n)
	var m float64
	for i := 0; i < n; i++ {
		for j := 0; j < n; j++ {
			a := c15A(g, i, j)
			kout[i] += a
			kin[j] += a
			m += a
		}
	}
	var sum float64
	for i := 0; i < n; i++ {
		for j := 0; j < n; j++ {
			if c[i] == c[j] {
				sum += c15A(g, i, j) - gamma*kout[i]*kin[j]/m
			}
		}
	}
	return sum / m
}

// VerifC15_Modularize: community.Modularize on every (di)graph of the stated
// order with concrete weights from {1, .., lwmax} and resolutions {1, 1/2, 2}
// (the first lgammas of them),
// for EVERY outcome of the random node order (rand.IntN is a fresh symbolic
// integer per draw). At every level of the returned hierarchy:
//   - Communities() is a partition of the original nodes, one community per
//     entry of Structure();
//   - Communities()[i] is the union of the lower level's Communities()
//     indexed by the IDs in Structure()[i] (documented meaning of Structure);
//   - the level graph's edge/node weights are the inter/intra-community sums
//     of the communities its nodes stand for;
//   - Q(level graph, Structure()) = Q(original, Communities()) = the defining
//     sum;
//
// and the top level is never worse than the singleton partition.
func VerifC15_Modularize() {
	var g *c15Graph
	var gg graph.Graph
	wmax := verifParam("lwmax", 1)
	directed := verifChoose("directed", 0, 1) == 1
	if directed {
		n := verifParam("ldn", 3)
		g = c15New(n)
		for i := 0; i < n; i++ {
			for j := 0; j < n; j++ {
				if i == j {
					continue
				}
				if k := verifChoose(c15Name("e", i, j), 0, wmax); k > 0 {
					g.adj[i][j], g.w[i][j] = true, float64(k)
				}
			}
		}
		gg = g
	} else {
		n := verifParam("lun", 3)
		g = c15New(n)
		for i := 0; i < n; i++ {
			for j := i + 1; j < n; j++ {
				if k := verifChoose(c15Name("e", i, j), 0, wmax); k > 0 {
					g.adj[i][j], g.adj[j][i] = true, true
					g.w[i][j], g.w[j][i] = float64(k), float64(k)
				}
			}
		}
		gg = c15UGraph{g}
	}
	if !c15HasEdge(g) {
		return
	}
	n := g.n
	gamma := []float64{1, 0.5, 2}[verifChoose("gamma", 0, verifParam("lgammas", 3)-1)]

	top := community.Modularize(gg, gamma, nil)

	single := make([]int, n)
	for i := range single {
		single[i] = i
	}
	levels := 0
	for p := top; p != nil; p = c15Down(p) {
		levels++
		verifAssert(levels <= n+1, "Modularize: every aggregation merges at least two nodes")
		comms := p.Communities()
		st := p.Structure()
		c, ok := c15Blocks(g, comms)
		verifAssert(ok, "Modularize: Communities() at every level is a partition of the original nodes")
		verifAssert(len(st) == len(comms), "Modularize: one community per Structure entry")
		want := c15QConcrete(g, c, gamma)
		verifAssert(c15Close(community.Q(gg, comms, gamma), want), "Modularize: Q(original, Communities()) equals the defining sum")
		verifAssert(c15Close(community.Q(p, st, gamma), want), "Modularize: Q(level graph, Structure()) equals Q(original, Communities())")
		if p == top {
			verifAssert(want >= c15QConcrete(g, single, gamma)-1e-12, "Modularize: never worse than the singleton partition")
			verifAssert(p.Nodes().Len() == len(comms), "Modularize: the top level is unclustered (one node per community)")
		}
		low := c15Down(p)
		if low == nil {
			continue
		}
		// nodes of p stand for the communities of the lower level
		lc := low.Communities()
		verifAssert(p.Nodes().Len() == len(lc), "Modularize: one node per community of the lower level")
		lb, ok := c15Blocks(g, lc)
		verifAssert(ok, "Modularize: lower level communities partition the original nodes")
		seen := make([]bool, len(lc))
		for b, members := range st {
			for _, m := range members {
				id := int(m.ID())
				verifAssert(id >= 0 && id < len(lc) && !seen[id], "Modularize: Structure indexes each node of the level once")
				seen[id] = true
				for i := 0; i < n; i++ {
					if lb[i] == id {
						verifAssert(c[i] == b, "Modularize: Communities()[i] is the union of the lower communities listed in Structure()[i]")
					}
				}
			}
		}
		for _, s := range seen {
			verifAssert(s, "Modularize: Structure covers every node of the level")
		}
		wg := p.(graph.Weighted)
		for a := 0; a < len(lc); a++ {
			for b := 0; b < len(lc); b++ {
				var sum float64
				any := false
				for i := 0; i < n; i++ {
					for j := 0; j < n; j++ {
						if lb[i] == a && lb[j] == b && g.adj[i][j] {
							sum += g.w[i][j]
							any = true
						}
					}
				}
				w, ok := wg.Weight(int64(a), int64(b))
				if a == b {
					verifAssert(ok && c15Close(w, sum), "Modularize: node weight is the intra-community weight sum")
				} else {
					verifAssert(ok == any, "Modularize: reduced nodes are joined iff their communities are")
					if any {
						verifAssert(c15Close(w, sum), "Modularize: reduced edge weight is the inter-community weight sum")
					}
				}
			}
		}
	}
	verifReach("end")
}

// VerifC15_StructureDocumented: the doc comment of ReducedGraph.Structure says
// that at the lowest level (Expanded() nil) the slices contain "nodes from the
// original input graph". OPEN VIOLATION (documentation defect), kept out of
// the check spec: the lowest level holds internal nodes whose IDs are indices
// into the ID-sorted original nodes (identical only when the original IDs are
// 0..n-1).
func VerifC15_StructureDocumented() {
	n := 3
	g := c15New(n)
	mask := verifChoose("mask", 1, 7)
	b := 0
	for i := 0; i < n; i++ {
		for j := i + 1; j < n; j++ {
			if mask>>uint(b)&1 == 1 {
				g.adj[i][j], g.adj[j][i] = true, true
				g.w[i][j], g.w[j][i] = 1, 1
			}
			b++
		}
	}
	var p community.ReducedGraph = community.Modularize(c15UGraph{g}, 1, nil)
	for c15Down(p) != nil {
		p = c15Down(p)
	}
	for _, members := range p.Structure() {
		for _, m := range members {
			verifAssert(g.idx(m.ID()) >= 0, "Structure() at the lowest level contains nodes from the original input graph (doc comment)")
		}
	}
	verifReach("end")
}
