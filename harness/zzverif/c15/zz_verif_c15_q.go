package c15

import (
	"gonum.org/v1/gonum/graph"
	"gonum.org/v1/gonum/graph/community"
)

// c15Partition case-splits over every set partition of n elements
// (restricted growth strings) and returns the block index of each element.
func c15Partition(n int) []int {
	c := make([]int, n)
	hi := 0
	for i := 1; i < n; i++ {
		c[i] = verifChoose("block", 0, hi+1)
		if c[i] > hi {
			hi = c[i]
		}
	}
	return c
}

func c15Communities(n int, c []int) [][]graph.Node {
	nb := 0
	for _, b := range c {
		if b+1 > nb {
			nb = b + 1
		}
	}
	comm := make([][]graph.Node, nb)
	// fill blocks in reverse node order so that the order inside a block
	// differs from the graph's node order
	for i := n - 1; i >= 0; i-- {
		comm[c[i]] = append(comm[c[i]], c15Node(c15IDs[i]))
	}
	return comm
}

// c15AssumePositiveTotal: weights >= 0 and not all zero (otherwise Q is 0/0).
func c15AssumeWeights(g *c15Graph) {
	var tot float64
	for i := 0; i < g.n; i++ {
		for j := 0; j < g.n; j++ {
			if g.adj[i][j] {
				verifAssume(g.w[i][j] >= 0)
				tot += g.w[i][j]
			}
		}
	}
	verifAssume(tot > 0)
}

func c15HasEdge(g *c15Graph) bool {
	for i := 0; i < g.n; i++ {
		for j := 0; j < g.n; j++ {
			if g.adj[i][j] {
				return true
			}
		}
	}
	return false
}

// A_ij of the defining formula: the weight of the edge, 0 if absent.
func c15A(g *c15Graph, i, j int) float64 {
	if g.adj[i][j] {
		return g.w[i][j]
	}
	return 0
}

// VerifC15_QUndirected: for every undirected graph on qn nodes, every
// partition, symbolic weights >= 0 and symbolic resolution:
//
//	Q = 1/2m sum_ij [ A_ij - gamma k_i k_j / 2m ] delta(c_i, c_j).
func VerifC15_QUndirected() {
	n := verifParam("qn", 4)
	g := c15Undirected(n, true)
	if !c15HasEdge(g.c15Graph) {
		return // no edges: Q is 0/0 (NaN), nothing to compare
	}
	c15AssumeWeights(g.c15Graph)
	gamma := verifFloat("gamma")
	c := c15Partition(n)
	got := community.Q(g, c15Communities(n, c), gamma)

	k := make([]float64, n)
	var m2 float64
	for i := 0; i < n; i++ {
		for j := 0; j < n; j++ {
			k[i] += c15A(g.c15Graph, i, j)
		}
		m2 += k[i]
	}
	var sum float64
	for i := 0; i < n; i++ {
		for j := 0; j < n; j++ {
			if c[i] == c[j] {
				sum += c15A(g.c15Graph, i, j) - gamma*k[i]*k[j]/m2
			}
		}
	}
	verifAssertEqF(got, sum/m2, "Q(undirected) equals the defining double sum")
	verifReach("end")
}

// VerifC15_QDirected: directed graphs,
//
//	Q = 1/m sum_ij [ A_ij - gamma k_i^out k_j^in / m ] delta(c_i, c_j).
func VerifC15_QDirected() {
	n := verifParam("qdn", 3)
	g := c15Directed(n, true)
	if !c15HasEdge(g) {
		return
	}
	c15AssumeWeights(g)
	gamma := verifFloat("gamma")
	c := c15Partition(n)
	got := community.Q(g, c15Communities(n, c), gamma)

	kout := make([]float64, n)
	kin := make([]float64, n)
	var m float64
	for i := 0; i < n; i++ {
		for j := 0; j < n; j++ {
			kout[i] += c15A(g, i, j)
			kin[j] += c15A(g, i, j)
			m += c15A(g, i, j)
		}
	}
	var sum float64
	for i := 0; i < n; i++ {
		for j := 0; j < n; j++ {
			if c[i] == c[j] {
				sum += c15A(g, i, j) - gamma*kout[i]*kin[j]/m
			}
		}
	}
	verifAssertEqF(got, sum/m, "Q(directed) equals the defining double sum")
	verifReach("end")
}

// VerifC15_QNil: communities == nil means every node is its own community;
// Q panics exactly when some edge weight is negative.
func VerifC15_QNil() {
	n := verifParam("qdn", 3)
	var g graph.Graph
	var cg *c15Graph
	if verifChoose("directed", 0, 1) == 1 {
		cg = c15Directed(n, true)
		g = cg
	} else {
		ug := c15Undirected(n, true)
		cg = ug.c15Graph
		g = ug
	}
	if !c15HasEdge(cg) {
		return
	}
	anyNeg := false
	var tot float64
	for i := 0; i < n; i++ {
		for j := 0; j < n; j++ {
			if cg.adj[i][j] {
				anyNeg = verifOr(anyNeg, cg.w[i][j] < 0)
				tot += cg.w[i][j]
			}
		}
	}
	verifAssume(verifOr(anyNeg, tot > 0))
	gamma := verifFloat("gamma")
	var qnil float64
	panicked, fault, _ := verifCatch(func() { qnil = community.Q(g, nil, gamma) })
	verifAssert(!fault, "Q: no runtime fault")
	verifAssert(verifIff(panicked, anyNeg), "Q panics iff some edge weight is negative")
	if panicked {
		return
	}
	single := make([]int, n)
	for i := range single {
		single[i] = i
	}
	qs := community.Q(g, c15Communities(n, single), gamma)
	verifAssertEqF(qnil, qs, "Q(nil communities) equals Q of the singleton partition")
	verifReach("end")
}
