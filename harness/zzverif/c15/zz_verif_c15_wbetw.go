package c15

import (
	"gonum.org/v1/gonum/graph"
	"gonum.org/v1/gonum/graph/network"
	"gonum.org/v1/gonum/graph/path"
)

// c15SimplePaths enumerates every simple path s -> t (index sequences).
func c15SimplePaths(g *c15Graph, s, t int) [][]int {
	var out [][]int
	seen := make([]bool, g.n)
	var cur []int
	var rec func(u int)
	rec = func(u int) {
		seen[u] = true
		cur = append(cur, u)
		if u == t {
			out = append(out, append([]int(nil), cur...))
		} else {
			for v := 0; v < g.n; v++ {
				if g.adj[u][v] && !seen[v] {
					rec(v)
				}
			}
		}
		cur = cur[:len(cur)-1]
		seen[u] = false
	}
	rec(s)
	return out
}

func c15PathWeight(g *c15Graph, p []int) float64 {
	var sum float64
	for k := 0; k+1 < len(p); k++ {
		sum += g.w[p[k]][p[k+1]]
	}
	return sum
}

// VerifC15_BetweennessWeighted: symbolic positive edge weights (with wbzero=1
// non-negative weights without zero-weight cycles on directed graphs). Node and edge
// betweenness from an all-pairs shortest path result equal the brute-force
// sums of sigma_st(x)/sigma_st over the enumerated simple paths; which paths
// are shortest (ties included) is decided by the solver.
func VerifC15_BetweennessWeighted() {
	var g *c15Graph
	var gg graph.Weighted
	undirected := verifChoose("undirected", 0, 1) == 1
	if undirected {
		ug := c15Undirected(verifParam("wbun", 3), true)
		g, gg = ug.c15Graph, ug
	} else {
		g = c15Directed(verifParam("wbdn", 3), true)
		gg = g
	}
	n := g.n
	// wbzero=1: directed graphs get weights >= 0 (zero-weight arcs and
	// zero-weight shortest paths) under the assumption that every cycle has
	// positive weight (the random walk of AllShortest.Between over a
	// zero-weight cycle terminates only with probability 1). An undirected
	// zero-weight edge is itself a zero-weight cycle, so undirected weights
	// stay > 0.
	zero := verifParam("wbzero", 0) == 1 && !undirected
	for i := 0; i < n; i++ {
		for j := 0; j < n; j++ {
			if g.adj[i][j] {
				if zero {
					verifAssume(g.w[i][j] >= 0)
				} else {
					verifAssume(g.w[i][j] > 0)
				}
			}
		}
	}
	if zero {
		for i := 0; i < n; i++ {
			for j := 0; j < n; j++ {
				if i == j || !g.adj[j][i] {
					continue
				}
				for _, p := range c15SimplePaths(g, i, j) {
					verifAssume(c15PathWeight(g, p)+g.w[j][i] > 0)
				}
			}
		}
	}
	var ap path.AllShortest
	if verifChoose("alg", 0, verifParam("wbalgs", 1)-1) == 0 {
		ap = path.DijkstraAllPaths(gg)
	} else {
		var ok bool
		ap, ok = path.FloydWarshall(gg)
		verifAssert(ok, "FloydWarshall: no negative cycle with positive weights")
	}
	cb := network.BetweennessWeighted(gg, ap)
	eb := network.EdgeBetweennessWeighted(gg, ap)

	wantV := make([]float64, n)
	wantE := make([][]float64, n)
	for i := range wantE {
		wantE[i] = make([]float64, n)
	}
	for s := 0; s < n; s++ {
		for t := 0; t < n; t++ {
			if s == t {
				continue
			}
			all := c15SimplePaths(g, s, t)
			if len(all) == 0 {
				continue
			}
			ws := make([]float64, len(all))
			d := c15PathWeight(g, all[0])
			for q, p := range all {
				ws[q] = c15PathWeight(g, p)
				d = verifIteF(ws[q] < d, ws[q], d)
			}
			var sigma float64
			for q := range all {
				sigma += verifIteF(ws[q] == d, 1, 0)
			}
			for q, p := range all {
				share := verifIteF(ws[q] == d, 1, 0) / sigma
				for k := 1; k+1 < len(p); k++ {
					wantV[p[k]] += share
				}
				for k := 0; k+1 < len(p); k++ {
					a, b := p[k], p[k+1]
					if undirected && c15IDs[b] < c15IDs[a] {
						a, b = b, a
					}
					wantE[a][b] += share
				}
			}
		}
	}
	for v := 0; v < n; v++ {
		verifAssertEqF(cb[c15IDs[v]], wantV[v], "BetweennessWeighted: sum of sigma_st(v)/sigma_st")
	}
	for a := 0; a < n; a++ {
		for b := 0; b < n; b++ {
			verifAssertEqF(eb[[2]int64{c15IDs[a], c15IDs[b]}], wantE[a][b], "EdgeBetweennessWeighted: sum of sigma_st(e)/sigma_st")
		}
	}
	verifReach("end")
}
