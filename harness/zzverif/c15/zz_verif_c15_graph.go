// Package c15 holds the solver harnesses for property C15 (network measures
// and modularity). Graphs handed to gonum are harness types exposing only the
// graph interfaces: adjacency matrix, concrete topology chosen by case split,
// symbolic weights where the algorithm uses weights, non-contiguous IDs.
package c15

import (
	"math"

	"gonum.org/v1/gonum/graph"
	"gonum.org/v1/gonum/graph/iterator"
)

const c15Max = 5

var c15IDs = [c15Max]int64{5, 1, 9, -3, 1 << 40}

const c15Absent int64 = 77

type c15Node int64

func (n c15Node) ID() int64 { return int64(n) }

type c15Edge struct {
	f, t c15Node
	w    float64
}

func (e c15Edge) From() graph.Node         { return e.f }
func (e c15Edge) To() graph.Node           { return e.t }
func (e c15Edge) ReversedEdge() graph.Edge { return c15Edge{f: e.t, t: e.f, w: e.w} }
func (e c15Edge) Weight() float64          { return e.w }

// c15Graph is a directed weighted graph (graph.WeightedDirected).
type c15Graph struct {
	n   int
	adj [][]bool
	w   [][]float64
}

func c15New(n int) *c15Graph {
	g := &c15Graph{n: n}
	g.adj = make([][]bool, n)
	g.w = make([][]float64, n)
	for i := range g.adj {
		g.adj[i] = make([]bool, n)
		g.w[i] = make([]float64, n)
	}
	return g
}

func (g *c15Graph) idx(id int64) int {
	for i := 0; i < g.n; i++ {
		if c15IDs[i] == id {
			return i
		}
	}
	return -1
}

func (g *c15Graph) Node(id int64) graph.Node {
	if g.idx(id) < 0 {
		return nil
	}
	return c15Node(id)
}

func (g *c15Graph) Nodes() graph.Nodes {
	if g.n == 0 {
		return graph.Empty
	}
	nodes := make([]graph.Node, g.n)
	for i := range nodes {
		nodes[i] = c15Node(c15IDs[i])
	}
	return iterator.NewOrderedNodes(nodes)
}

func (g *c15Graph) From(id int64) graph.Nodes {
	i := g.idx(id)
	if i < 0 {
		return graph.Empty
	}
	var nodes []graph.Node
	for j := 0; j < g.n; j++ {
		if g.adj[i][j] {
			nodes = append(nodes, c15Node(c15IDs[j]))
		}
	}
	if len(nodes) == 0 {
		return graph.Empty
	}
	return iterator.NewOrderedNodes(nodes)
}

func (g *c15Graph) To(id int64) graph.Nodes {
	j := g.idx(id)
	if j < 0 {
		return graph.Empty
	}
	var nodes []graph.Node
	for i := 0; i < g.n; i++ {
		if g.adj[i][j] {
			nodes = append(nodes, c15Node(c15IDs[i]))
		}
	}
	if len(nodes) == 0 {
		return graph.Empty
	}
	return iterator.NewOrderedNodes(nodes)
}

func (g *c15Graph) HasEdgeFromTo(uid, vid int64) bool {
	i, j := g.idx(uid), g.idx(vid)
	if i < 0 || j < 0 {
		return false
	}
	return g.adj[i][j]
}

func (g *c15Graph) HasEdgeBetween(xid, yid int64) bool {
	return g.HasEdgeFromTo(xid, yid) || g.HasEdgeFromTo(yid, xid)
}

func (g *c15Graph) Edge(uid, vid int64) graph.Edge {
	if !g.HasEdgeFromTo(uid, vid) {
		return nil
	}
	return c15Edge{f: c15Node(uid), t: c15Node(vid), w: g.w[g.idx(uid)][g.idx(vid)]}
}

func (g *c15Graph) WeightedEdge(uid, vid int64) graph.WeightedEdge {
	if !g.HasEdgeFromTo(uid, vid) {
		return nil
	}
	return c15Edge{f: c15Node(uid), t: c15Node(vid), w: g.w[g.idx(uid)][g.idx(vid)]}
}

func (g *c15Graph) Weight(xid, yid int64) (float64, bool) {
	if xid == yid {
		return 0, true
	}
	if g.HasEdgeFromTo(xid, yid) {
		return g.w[g.idx(xid)][g.idx(yid)], true
	}
	return math.Inf(1), false
}

// c15UGraph is the undirected view; the builder keeps adj and w symmetric.
// It also lists its edges (path.UndirectedWeightLister).
type c15UGraph struct{ *c15Graph }

func (g c15UGraph) EdgeBetween(xid, yid int64) graph.Edge { return g.Edge(xid, yid) }
func (g c15UGraph) WeightedEdgeBetween(xid, yid int64) graph.WeightedEdge {
	return g.WeightedEdge(xid, yid)
}
func (g c15UGraph) WeightedEdges() graph.WeightedEdges {
	var edges []graph.WeightedEdge
	for i := 0; i < g.n; i++ {
		for j := i + 1; j < g.n; j++ {
			if g.adj[i][j] {
				edges = append(edges, c15Edge{f: c15Node(c15IDs[i]), t: c15Node(c15IDs[j]), w: g.w[i][j]})
			}
		}
	}
	if len(edges) == 0 {
		return graph.Empty
	}
	return iterator.NewOrderedWeightedEdges(edges)
}

var (
	_ graph.WeightedDirected   = (*c15Graph)(nil)
	_ graph.WeightedUndirected = c15UGraph{}
)

func c15Name(p string, i, j int) string {
	return p + string(rune('0'+i)) + string(rune('0'+j))
}

// c15Directed: every digraph on n nodes (mask case split); unit weights or
// symbolic weights.
func c15Directed(n int, weighted bool) *c15Graph {
	g := c15New(n)
	mask := verifChoose("mask", 0, 1<<uint(n*(n-1))-1)
	b := 0
	for i := 0; i < n; i++ {
		for j := 0; j < n; j++ {
			if i == j {
				continue
			}
			if mask>>uint(b)&1 == 1 {
				g.adj[i][j] = true
				g.w[i][j] = 1
				if weighted {
					g.w[i][j] = verifFloat(c15Name("w", i, j))
				}
			}
			b++
		}
	}
	return g
}

// c15Undirected: every undirected graph on n nodes (mask case split); symbolic
// edge weights (free sign) if weighted.
func c15Undirected(n int, weighted bool) c15UGraph {
	g := c15New(n)
	mask := verifChoose("mask", 0, 1<<uint(n*(n-1)/2)-1)
	b := 0
	for i := 0; i < n; i++ {
		for j := i + 1; j < n; j++ {
			if mask>>uint(b)&1 == 1 {
				g.adj[i][j], g.adj[j][i] = true, true
				w := 1.0
				if weighted {
					w = verifFloat(c15Name("w", i, j))
				}
				g.w[i][j], g.w[j][i] = w, w
			}
			b++
		}
	}
	return c15UGraph{g}
}

// c15Reach is the reflexive-transitive closure of adj (or of the symmetric
// closure when sym), computed naively.
func c15Reach(g *c15Graph, sym bool) [][]bool {
	r := make([][]bool, g.n)
	for i := range r {
		r[i] = make([]bool, g.n)
		for j := range r[i] {
			r[i][j] = i == j || g.adj[i][j] || (sym && g.adj[j][i])
		}
	}
	for changed := true; changed; {
		changed = false
		for i := 0; i < g.n; i++ {
			for j := 0; j < g.n; j++ {
				if r[i][j] {
					continue
				}
				for k := 0; k < g.n; k++ {
					if r[i][k] && r[k][j] {
						r[i][j] = true
						changed = true
						break
					}
				}
			}
		}
	}
	return r
}

// c15Hops is the hop distance matrix (-1 unreachable), by repeated relaxation.
func c15Hops(g *c15Graph) [][]int {
	d := make([][]int, g.n)
	for i := range d {
		d[i] = make([]int, g.n)
		for j := range d[i] {
			d[i][j] = -1
		}
		d[i][i] = 0
	}
	for round := 0; round < g.n; round++ {
		for i := 0; i < g.n; i++ {
			for u := 0; u < g.n; u++ {
				if d[i][u] < 0 {
					continue
				}
				for v := 0; v < g.n; v++ {
					if g.adj[u][v] && (d[i][v] < 0 || d[i][v] > d[i][u]+1) {
						d[i][v] = d[i][u] + 1
					}
				}
			}
		}
	}
	return d
}
