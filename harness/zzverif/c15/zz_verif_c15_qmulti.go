package c15

import (
	"gonum.org/v1/gonum/graph"
	"gonum.org/v1/gonum/graph/community"
)

// c15Layer builds one layer with the given concrete topology mask; edge
// weights are sign*a with symbolic a >= 0 and positive total (the layer's
// modularity is 0/0 otherwise).
func c15Layer(n, mask int, directed bool, prefix string, sign float64) *c15Graph {
	g := c15New(n)
	var tot float64
	b := 0
	for i := 0; i < n; i++ {
		for j := 0; j < n; j++ {
			if i == j || (!directed && j < i) {
				continue
			}
			if mask>>uint(b)&1 == 1 {
				a := verifFloat(c15Name(prefix, i, j))
				verifAssume(a >= 0)
				tot += a
				g.adj[i][j] = true
				g.w[i][j] = sign * a
				if !directed {
					g.adj[j][i] = true
					g.w[j][i] = sign * a
				}
			}
			b++
		}
	}
	verifAssume(tot > 0)
	return g
}

// c15QLayerDef is the documented per-layer sum (NOT scaled by the layer's
// total edge weight), with A* = |A|:
//
//	undirected: sum_ij [ A*_ij - gamma k_i k_j / 2m ] delta(c_i, c_j)
//	directed:   sum_ij [ A*_ij - gamma k_i^out k_j^in / m ] delta(c_i, c_j)
//
// For a symmetric A both read the same when m is taken as sum_ij A_ij.
func c15QLayerDef(g *c15Graph, sign float64, c []int, gamma float64) float64 {
	n := g.n
	kout := make([]float64, n)
	kin := make([]float64, n)
	var m float64
	for i := 0; i < n; i++ {
		for j := 0; j < n; j++ {
			a := sign * c15A(g, i, j)
			kout[i] += a
			kin[j] += a
			m += a
		}
	}
	var sum float64
	for i := 0; i < n; i++ {
		for j := 0; j < n; j++ {
			if c[i] == c[j] {
				sum += sign*c15A(g, i, j) - gamma*kout[i]*kin[j]/m
			}
		}
	}
	return sum
}

func c15Multiplex(directed bool, layers []*c15Graph) community.Multiplex {
	if directed {
		ls := make([]graph.Directed, len(layers))
		for i, l := range layers {
			ls[i] = l
		}
		m, err := community.NewDirectedLayers(ls...)
		verifAssert(err == nil, "NewDirectedLayers: layers over the same nodes are accepted")
		return m
	}
	ls := make([]graph.Undirected, len(layers))
	for i, l := range layers {
		ls[i] = c15UGraph{l}
	}
	m, err := community.NewUndirectedLayers(ls...)
	verifAssert(err == nil, "NewUndirectedLayers: layers over the same nodes are accepted")
	return m
}

// VerifC15_QMultiplex: two-layer multiplex graphs; every topology of layer 0,
// layer 1 either every topology (undirected) or derived from layer 0's mask
// (directed; the layers are scored independently), every partition (or nil =
// singletons), symbolic edge weights, layer weights and resolutions in the
// documented modes:
//
//	mode 0  weights nil (all 1), resolutions nil (all 1)
//	mode 1  weights > 0, one global resolution
//	mode 2  layer 0 weight < 0 with edges <= 0, layer 1 weight > 0, per-layer resolutions
//	mode 3  layer 0 weight exactly 0 (Q_0 = 0), per-layer resolutions
func VerifC15_QMultiplex() {
	n := verifParam("qmn", 3)
	directed := verifChoose("directed", 0, 1) == 1
	mode := verifChoose("mode", 0, 3)
	var m0, m1 int
	if directed {
		top := 1<<uint(n*(n-1)) - 1
		m0 = verifChoose("mask0", 1, top)
		m1 = (m0*11+7)%top + 1
	} else {
		top := 1<<uint(n*(n-1)/2) - 1
		m0 = verifChoose("mask0", 1, top)
		m1 = verifChoose("mask1", 1, top)
	}
	sign0 := 1.0
	if mode == 2 {
		sign0 = -1
	}
	l0 := c15Layer(n, m0, directed, "a", sign0)
	l1 := c15Layer(n, m1, directed, "b", 1)
	g := c15Multiplex(directed, []*c15Graph{l0, l1})

	var weights, resolutions []float64
	w := []float64{1, 1}
	gam := []float64{1, 1}
	switch mode {
	case 1:
		w = []float64{verifFloat("lw0"), verifFloat("lw1")}
		verifAssume(w[0] > 0)
		verifAssume(w[1] > 0)
		weights = []float64{w[0], w[1]}
		r := verifFloat("gamma")
		gam = []float64{r, r}
		resolutions = []float64{r}
	case 2:
		w = []float64{verifFloat("lw0"), verifFloat("lw1")}
		verifAssume(w[0] < 0)
		verifAssume(w[1] > 0)
		weights = []float64{w[0], w[1]}
		gam = []float64{verifFloat("gamma0"), verifFloat("gamma1")}
		resolutions = []float64{gam[0], gam[1]}
	case 3:
		w = []float64{0, verifFloat("lw1")}
		verifAssume(w[1] != 0)
		verifAssume(w[1] > 0)
		weights = []float64{0, w[1]}
		gam = []float64{verifFloat("gamma0"), verifFloat("gamma1")}
		resolutions = []float64{gam[0], gam[1]}
	}

	var c []int
	var comm [][]graph.Node
	if verifChoose("nilcomm", 0, 1) == 1 {
		c = make([]int, n)
		for i := range c {
			c[i] = i
		}
	} else {
		c = c15Partition(n)
		comm = c15Communities(n, c)
	}
	q := community.QMultiplex(g, comm, weights, resolutions)
	verifAssert(len(q) == 2, "QMultiplex: one score per layer")
	if mode == 3 {
		verifAssertEqF(q[0], 0, "QMultiplex: a layer of weight 0 scores 0")
	} else {
		verifAssertEqF(q[0], w[0]*c15QLayerDef(l0, sign0, c, gam[0]), "QMultiplex: layer 0 equals w * defining double sum")
	}
	verifAssertEqF(q[1], w[1]*c15QLayerDef(l1, 1, c, gam[1]), "QMultiplex: layer 1 equals w * defining double sum")
	verifReach("end")
}

// VerifC15_QMultiplexPanics: the documented panics: weights / resolutions
// vector length mismatch, and an edge whose sign does not match the layer
// weight (the "layer weight-scaled edge" is negative).
func VerifC15_QMultiplexPanics() {
	n := 3
	directed := verifChoose("directed", 0, 1) == 1
	top := 1<<uint(n*(n-1)/2) - 1
	if directed {
		top = 1<<uint(n*(n-1)) - 1
	}
	m0 := verifChoose("mask0", 1, top)
	// layer 0: free-sign edge weights, layer 1: >= 0.
	l0 := c15New(n)
	b := 0
	anyNeg, anyPos := false, false
	var tot float64
	for i := 0; i < n; i++ {
		for j := 0; j < n; j++ {
			if i == j || (!directed && j < i) {
				continue
			}
			if m0>>uint(b)&1 == 1 {
				a := verifFloat(c15Name("a", i, j))
				l0.adj[i][j], l0.w[i][j] = true, a
				if !directed {
					l0.adj[j][i], l0.w[j][i] = true, a
				}
				anyNeg = verifOr(anyNeg, a < 0)
				anyPos = verifOr(anyPos, a > 0)
				tot += a
			}
			b++
		}
	}
	l1 := c15Layer(n, (m0*5+1)%top+1, directed, "b", 1)
	g := c15Multiplex(directed, []*c15Graph{l0, l1})
	lw0 := verifFloat("lw0")
	verifAssume(lw0 != 0)
	// no 0/0 on the non-panicking side
	verifAssume(verifOr(verifOr(verifAnd(anyNeg, lw0 > 0), verifAnd(anyPos, lw0 < 0)), tot != 0))
	switch verifChoose("case", 0, 3) {
	case 0:
		p, fault, _ := verifCatch(func() { community.QMultiplex(g, nil, []float64{lw0, 1}, nil) })
		verifAssert(!fault, "QMultiplex: no runtime fault")
		want := verifOr(verifAnd(lw0 > 0, anyNeg), verifAnd(lw0 < 0, anyPos))
		verifAssert(verifIff(p, want), "QMultiplex panics iff some edge does not sign-match its layer weight")
	case 1:
		p, fault, msg := verifCatch(func() { community.QMultiplex(g, nil, []float64{1}, nil) })
		verifAssert(p && !fault && msg == "community: weights vector length mismatch", "QMultiplex: weights length must equal the depth")
	case 2:
		p, fault, msg := verifCatch(func() { community.QMultiplex(g, nil, []float64{1, 1, 1}, nil) })
		verifAssert(p && !fault && msg == "community: weights vector length mismatch", "QMultiplex: weights length must equal the depth")
	case 3:
		p, fault, msg := verifCatch(func() { community.QMultiplex(g, nil, nil, []float64{1, 1, 1}) })
		verifAssert(p && !fault && msg == "community: resolutions vector length mismatch", "QMultiplex: resolutions length must be 1 or the depth")
	}
	verifReach("end")
}
