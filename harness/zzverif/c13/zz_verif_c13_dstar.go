package c13

import (
	"math"

	"gonum.org/v1/gonum/graph"
	"gonum.org/v1/gonum/graph/path"
	"gonum.org/v1/gonum/graph/path/dynamic"
	"gonum.org/v1/gonum/graph/simple"
)

// D* Lite (path/dynamic): the documented replanning loop
//
//	d := NewDStarLite(s, t, g, h, world)
//	for d.Step() { changes := observe(d.Here()); d.UpdateWorld(changes) }
//
// generalised to every sequence of dsteps operations from {Step, UpdateWorld
// with one changed / added / blocked arc, MoveTo + UpdateWorld}. The graph g
// is the real world; every change is reported, so the planner's world model is
// the current g. After NewDStarLite and after every UpdateWorld the plan
// (Path) must be optimal for the CURRENT world from the current location:
// weight = true distance (brute force over the simple paths), the path is a
// real walk with that weight; Step moves along an arc that lies on a shortest
// path and reports false exactly at the goal or when the goal is unreachable.

// c13DStarCheck checks Path() against the current world and returns the
// reported weight.
func c13DStarCheck(d *dynamic.DStarLite, g *c13Graph, here, t int, who string) float64 {
	verifAssert(d.Here().ID() == c13IDs[here], who+": Here is the current location")
	p, w := d.Path()
	c13CheckWeight(g, here, t, w, who+": Path weight")
	c13CheckPath(g, here, t, p, w, who+": Path")
	return w
}

// VerifC13_DStarLite: see the file comment. Null heuristic, STRICTLY POSITIVE
// arc weights (the D* Lite papers assume 0 < c(s,s')).
func VerifC13_DStarLite() { c13DStarLite(true) }

// VerifC13_DStarLiteZero: the same over gonum's documented domain: "NewDStarLite
// will panic if g has a negative edge weight", i.e. zero-weight arcs are
// accepted.
func VerifC13_DStarLiteZero() { c13DStarLite(false) }

func c13DStarLite(pos bool) {
	g := c13Build(true, false)
	if pos {
		for i := 0; i < g.n; i++ {
			for j := 0; j < g.n; j++ {
				if g.adj[i][j] {
					verifAssume(g.w[i][j] > 0)
				}
			}
		}
	}
	s := verifChoose("s", 0, verifParam("dsrcs", 1)-1)
	t := g.n - 1
	world := simple.NewWeightedDirectedGraph(0, math.Inf(1))
	d := dynamic.NewDStarLite(c13Node(c13IDs[s]), c13Node(c13IDs[t]), g, path.NullHeuristic, world)
	here := s
	w0 := c13DStarCheck(d, g, here, t, "NewDStarLite")
	steps := verifParam("dsteps", 2)
	for k := 0; k < steps; k++ {
		switch verifChoose("op", 0, verifParam("dops", 2)) {
		case 0: // Step
			reach := c13Reachable(g, here, t)
			ok := d.Step()
			verifAssert(ok == (here != t && reach), "Step: false exactly at the goal or when there is no path")
			if !ok {
				verifAssert(d.Here().ID() == c13IDs[here], "Step: a refused step does not move")
				continue
			}
			nh := g.idx(d.Here().ID())
			verifAssert(nh >= 0 && g.adj[here][nh], "Step: moves along an arc of the world")
			if nh < 0 || !g.adj[here][nh] {
				return
			}
			w1 := c13DStarCheck(d, g, nh, t, "Step")
			verifAssertEqF(w0, g.w[here][nh]+w1, "Step: the arc taken lies on a shortest path to the goal")
			here, w0 = nh, w1
		case 1: // one arc changes its weight, or appears
			i := verifChoose("ci", 0, g.n-1)
			j := verifChoose("cj", 0, g.n-1)
			if i == j {
				return
			}
			nw := verifFloat("nw" + string(rune('0'+k)))
			verifAssume(nw >= 0)
			if pos {
				verifAssume(nw > 0)
			}
			g.adj[i][j], g.w[i][j] = true, nw
			d.UpdateWorld([]graph.Edge{c13Edge{f: c13Node(c13IDs[i]), t: c13Node(c13IDs[j]), w: nw}})
			w0 = c13DStarCheck(d, g, here, t, "UpdateWorld")
		default: // MoveTo another node, then a (possibly void) change is reported
			n := verifChoose("mv", 0, g.n-1)
			i := verifChoose("ci", 0, g.n-1)
			j := verifChoose("cj", 0, g.n-1)
			if i == j {
				return
			}
			d.MoveTo(c13Node(c13IDs[n]))
			here = n
			nw := verifFloat("nw" + string(rune('0'+k)))
			verifAssume(nw >= 0)
			if pos {
				verifAssume(nw > 0)
			}
			g.adj[i][j], g.w[i][j] = true, nw
			d.UpdateWorld([]graph.Edge{c13Edge{f: c13Node(c13IDs[i]), t: c13Node(c13IDs[j]), w: nw}})
			w0 = c13DStarCheck(d, g, here, t, "MoveTo+UpdateWorld")
		}
	}
	verifReach("end")
}
