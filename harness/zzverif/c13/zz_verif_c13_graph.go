// Package c13 holds the solver harnesses for property C13 (shortest paths).
// The graph handed to gonum is a harness type that exposes only the graph
// interfaces ("a user type"): adjacency matrix with concrete topology,
// symbolic edge weights, non-contiguous unordered node IDs.
package c13

import (
	"math"

	"gonum.org/v1/gonum/graph"
	"gonum.org/v1/gonum/graph/iterator"
)

const c13Max = 6

// Node IDs: non-contiguous, not sorted, one negative.
var c13IDs = [c13Max]int64{5, 1, 9, -3, 12, 7}

// c13Absent is an ID that is never in the graph.
const c13Absent int64 = 77

type c13Node int64

func (n c13Node) ID() int64 { return int64(n) }

type c13Edge struct {
	f, t c13Node
	w    float64
}

func (e c13Edge) From() graph.Node         { return e.f }
func (e c13Edge) To() graph.Node           { return e.t }
func (e c13Edge) ReversedEdge() graph.Edge { return c13Edge{f: e.t, t: e.f, w: e.w} }
func (e c13Edge) Weight() float64          { return e.w }

// c13Graph is a directed weighted graph (graph.WeightedDirected).
type c13Graph struct {
	n   int
	adj [][]bool
	w   [][]float64
}

func c13New(n int) *c13Graph {
	g := &c13Graph{n: n}
	g.adj = make([][]bool, n)
	g.w = make([][]float64, n)
	for i := range g.adj {
		g.adj[i] = make([]bool, n)
		g.w[i] = make([]float64, n)
	}
	return g
}

func (g *c13Graph) idx(id int64) int {
	for i := 0; i < g.n; i++ {
		if c13IDs[i] == id {
			return i
		}
	}
	return -1
}

func (g *c13Graph) Node(id int64) graph.Node {
	if g.idx(id) < 0 {
		return nil
	}
	return c13Node(id)
}

func (g *c13Graph) Nodes() graph.Nodes {
	if g.n == 0 {
		return graph.Empty
	}
	nodes := make([]graph.Node, g.n)
	for i := range nodes {
		nodes[i] = c13Node(c13IDs[i])
	}
	return iterator.NewOrderedNodes(nodes)
}

func (g *c13Graph) From(id int64) graph.Nodes {
	i := g.idx(id)
	if i < 0 {
		return graph.Empty
	}
	var nodes []graph.Node
	for j := 0; j < g.n; j++ {
		if g.adj[i][j] {
			nodes = append(nodes, c13Node(c13IDs[j]))
		}
	}
	if len(nodes) == 0 {
		return graph.Empty
	}
	return iterator.NewOrderedNodes(nodes)
}

func (g *c13Graph) To(id int64) graph.Nodes {
	j := g.idx(id)
	if j < 0 {
		return graph.Empty
	}
	var nodes []graph.Node
	for i := 0; i < g.n; i++ {
		if g.adj[i][j] {
			nodes = append(nodes, c13Node(c13IDs[i]))
		}
	}
	if len(nodes) == 0 {
		return graph.Empty
	}
	return iterator.NewOrderedNodes(nodes)
}

func (g *c13Graph) HasEdgeFromTo(uid, vid int64) bool {
	i, j := g.idx(uid), g.idx(vid)
	if i < 0 || j < 0 {
		return false
	}
	return g.adj[i][j]
}

func (g *c13Graph) HasEdgeBetween(xid, yid int64) bool {
	return g.HasEdgeFromTo(xid, yid) || g.HasEdgeFromTo(yid, xid)
}

func (g *c13Graph) Edge(uid, vid int64) graph.Edge {
	if !g.HasEdgeFromTo(uid, vid) {
		return nil
	}
	return c13Edge{f: c13Node(uid), t: c13Node(vid), w: g.w[g.idx(uid)][g.idx(vid)]}
}

func (g *c13Graph) WeightedEdge(uid, vid int64) graph.WeightedEdge {
	if !g.HasEdgeFromTo(uid, vid) {
		return nil
	}
	return c13Edge{f: c13Node(uid), t: c13Node(vid), w: g.w[g.idx(uid)][g.idx(vid)]}
}

// Weight follows the convention of graph/simple: self weight 0, absent +Inf.
func (g *c13Graph) Weight(xid, yid int64) (float64, bool) {
	if xid == yid {
		return 0, true
	}
	if g.HasEdgeFromTo(xid, yid) {
		return g.w[g.idx(xid)][g.idx(yid)], true
	}
	return math.Inf(1), false
}

// c13UGraph is the undirected view (graph.WeightedUndirected): the builder
// keeps adj and w symmetric.
type c13UGraph struct{ *c13Graph }

func (g c13UGraph) EdgeBetween(xid, yid int64) graph.Edge { return g.Edge(xid, yid) }
func (g c13UGraph) WeightedEdgeBetween(xid, yid int64) graph.WeightedEdge {
	return g.WeightedEdge(xid, yid)
}

var (
	_ graph.WeightedDirected   = (*c13Graph)(nil)
	_ graph.WeightedUndirected = c13UGraph{}
)

func c13Name(p string, i, j int) string {
	return p + string(rune('0'+i)) + string(rune('0'+j))
}

// c13FourList is the stated list of 4-node digraphs (edge lists over indices).
var c13FourList = [][][2]int{
	// 0: K4, every ordered pair
	{{0, 1}, {0, 2}, {0, 3}, {1, 0}, {1, 2}, {1, 3}, {2, 0}, {2, 1}, {2, 3}, {3, 0}, {3, 1}, {3, 2}},
	// 1: directed 4-cycle
	{{0, 1}, {1, 2}, {2, 3}, {3, 0}},
	// 2: transitive tournament (DAG)
	{{0, 1}, {0, 2}, {0, 3}, {1, 2}, {1, 3}, {2, 3}},
	// 3: diamond with a chord
	{{0, 1}, {0, 2}, {1, 3}, {2, 3}, {1, 2}},
	// 4: two disconnected 2-cycles
	{{0, 1}, {1, 0}, {2, 3}, {3, 2}},
	// 5: bidirected path 0-1-2-3
	{{0, 1}, {1, 0}, {1, 2}, {2, 1}, {2, 3}, {3, 2}},
	// 6: 3-cycle with a tail in and a tail out
	{{3, 0}, {0, 1}, {1, 2}, {2, 0}, {2, 3}},
	// 7: two parallel routes plus back edge
	{{0, 1}, {1, 3}, {0, 2}, {2, 3}, {3, 0}},
}

// c13FourList2 is a second stated list of 4-node digraphs (param four=2), chosen
// for the negative-cycle logic: cycles sharing a node, cycles that are not
// reachable from node 0, cycles reached late, overlapping cycles.
var c13FourList2 = [][][2]int{
	// 0: figure eight: two 2-cycles sharing node 1, entered from 0
	{{0, 1}, {1, 2}, {2, 1}, {1, 3}, {3, 1}},
	// 1: a 2-cycle {2,3} that is NOT reachable from 0 but leads into 1
	{{0, 1}, {2, 3}, {3, 2}, {2, 1}},
	// 2: 3-cycle 1-2-3 downstream of 0, plus the chord 0 -> 3
	{{0, 1}, {1, 2}, {2, 3}, {3, 1}, {0, 3}},
	// 3: 2-cycle through the source with a tail
	{{0, 1}, {1, 0}, {1, 2}, {2, 3}},
	// 4: overlapping cycles 1-2 and 1-2-3 below a fan-out from 0
	{{0, 1}, {0, 2}, {0, 3}, {1, 2}, {2, 3}, {3, 1}, {2, 1}},
	// 5: bidirected star with centre 0
	{{0, 1}, {1, 0}, {0, 2}, {2, 0}, {0, 3}, {3, 0}},
}

// c13Build makes the graph of the current case. shape 0: every digraph on
// nnodes nodes (mask split); shape 1: the 4-node list. Weights are symbolic
// reals, >= 0 if nonneg.
func c13Build(nonneg, undirected bool) *c13Graph {
	var g *c13Graph
	if four := verifParam("four", 0); four >= 1 {
		g = c13New(4)
		list := c13FourList
		if four == 2 {
			list = c13FourList2
		}
		k := verifChoose("topo", verifParam("topolo", 0), verifParam("topohi", len(list)-1))
		for _, e := range list[k] {
			g.adj[e[0]][e[1]] = true
			if undirected {
				g.adj[e[1]][e[0]] = true
			}
		}
	} else {
		n := verifParam("nnodes", 3)
		if lo := verifParam("nnodeslo", 0); lo > 0 {
			// degenerate orders (a single node, two nodes) as a case split
			n = verifChoose("n", lo, n)
		}
		g = c13New(n)
		if undirected {
			mask := verifChoose("mask", 0, 1<<uint(n*(n-1)/2)-1)
			b := 0
			for i := 0; i < n; i++ {
				for j := i + 1; j < n; j++ {
					if mask>>uint(b)&1 == 1 {
						g.adj[i][j], g.adj[j][i] = true, true
					}
					b++
				}
			}
		} else {
			mask := verifParam("onlymask", -1) // debugging aid: a single topology
			if mask < 0 {
				mask = verifChoose("mask", 0, 1<<uint(n*(n-1))-1)
			}
			b := 0
			for i := 0; i < n; i++ {
				for j := 0; j < n; j++ {
					if i == j {
						continue
					}
					if mask>>uint(b)&1 == 1 {
						g.adj[i][j] = true
					}
					b++
				}
			}
		}
	}
	// maxedges (tier parameter): topologies with more arcs are left to the
	// thorough tier; the case ends here without obligations.
	ne := 0
	for i := 0; i < g.n; i++ {
		for j := 0; j < g.n; j++ {
			if g.adj[i][j] {
				ne++
			}
		}
	}
	verifAssume(ne <= verifParam("maxedges", 99))
	for i := 0; i < g.n; i++ {
		for j := 0; j < g.n; j++ {
			if !g.adj[i][j] {
				continue
			}
			if undirected && j < i {
				g.w[i][j] = g.w[j][i]
				continue
			}
			w := verifFloat(c13Name("w", i, j))
			if nonneg {
				verifAssume(w >= 0)
			}
			g.w[i][j] = w
		}
	}
	return g
}

// c13SimplePaths enumerates every simple path s -> t as index sequences
// (the single path [s] when s == t).
func c13SimplePaths(g *c13Graph, s, t int) [][]int {
	var out [][]int
	seen := make([]bool, g.n)
	var cur []int
	var rec func(u int)
	rec = func(u int) {
		seen[u] = true
		cur = append(cur, u)
		if u == t {
			out = append(out, append([]int(nil), cur...))
		} else {
			for v := 0; v < g.n; v++ {
				if g.adj[u][v] && !seen[v] {
					rec(v)
				}
			}
		}
		cur = cur[:len(cur)-1]
		seen[u] = false
	}
	rec(s)
	return out
}

func c13PathWeight(g *c13Graph, p []int) float64 {
	var sum float64
	for k := 0; k+1 < len(p); k++ {
		sum += g.w[p[k]][p[k+1]]
	}
	return sum
}

// c13NegCycleThrough reports (as a term) whether some simple cycle through
// node c has negative total weight.
func c13NegCycleThrough(g *c13Graph, c int) bool {
	neg := false
	for x := 0; x < g.n; x++ {
		if x == c || !g.adj[x][c] {
			continue
		}
		for _, p := range c13SimplePaths(g, c, x) {
			neg = verifOr(neg, c13PathWeight(g, p)+g.w[x][c] < 0)
		}
	}
	return neg
}

// c13AssumeNoZeroCycle assumes every simple cycle has strictly positive
// weight. Needed only where gonum picks among equal alternatives with
// math/rand in a loop: with a zero-weight cycle that loop terminates with
// probability 1 but not for every (adversarial = symbolic) outcome.
func c13AssumeNoZeroCycle(g *c13Graph) {
	for c := 0; c < g.n; c++ {
		for x := 0; x < g.n; x++ {
			if x == c || !g.adj[x][c] {
				continue
			}
			for _, p := range c13SimplePaths(g, c, x) {
				verifAssume(c13PathWeight(g, p)+g.w[x][c] > 0)
			}
		}
	}
}

func c13Reachable(g *c13Graph, s, t int) bool { return len(c13SimplePaths(g, s, t)) > 0 }

// c13CheckWeight asserts d is the true distance s -> t (no negative cycle
// assumed by the caller).
func c13CheckWeight(g *c13Graph, s, t int, d float64, who string) {
	paths := c13SimplePaths(g, s, t)
	if len(paths) == 0 {
		verifAssert(math.IsInf(d, 1), who+": unreachable pair has weight +Inf")
		return
	}
	verifAssert(!math.IsInf(d, 0), who+": reachable pair has finite weight")
	lower := true
	attained := false
	for _, p := range paths {
		pw := c13PathWeight(g, p)
		lower = verifAnd(lower, d <= pw)
		attained = verifOr(attained, d == pw)
	}
	verifAssert(lower, who+": reported weight <= weight of every simple path")
	verifAssert(attained, who+": reported weight is attained by a simple path")
}

// c13CheckPath asserts that path is a real walk s -> t with total weight d.
func c13CheckPath(g *c13Graph, s, t int, path []graph.Node, d float64, who string) {
	if !c13Reachable(g, s, t) {
		verifAssert(len(path) == 0, who+": no path returned for an unreachable pair")
		return
	}
	verifAssert(len(path) > 0, who+": a path is returned for a reachable pair")
	if len(path) == 0 {
		return
	}
	verifAssert(path[0].ID() == c13IDs[s], who+": path starts at the source")
	verifAssert(path[len(path)-1].ID() == c13IDs[t], who+": path ends at the target")
	var sum float64
	for k := 0; k+1 < len(path); k++ {
		i, j := g.idx(path[k].ID()), g.idx(path[k+1].ID())
		ok := i >= 0 && j >= 0 && g.adj[i][j]
		verifAssert(ok, who+": consecutive path nodes are joined by an edge")
		if !ok {
			return
		}
		sum += g.w[i][j]
	}
	verifAssertEqF(sum, d, who+": path edge weights sum to the reported weight")
}

func c13SameSeq(p []graph.Node, q []int) bool {
	if len(p) != len(q) {
		return false
	}
	for k := range p {
		if p[k].ID() != c13IDs[q[k]] {
			return false
		}
	}
	return true
}

// c13CheckAllPaths asserts that got is exactly the set of simple paths s -> t
// whose weight equals the true distance d (d already checked).
func c13CheckAllPaths(g *c13Graph, s, t int, got [][]graph.Node, d float64, who string) {
	paths := c13SimplePaths(g, s, t)
	if len(paths) == 0 {
		verifAssert(len(got) == 0, who+": no paths for an unreachable pair")
		return
	}
	used := make([]int, len(paths))
	for _, gp := range got {
		found := false
		for k, p := range paths {
			if c13SameSeq(gp, p) {
				used[k]++
				found = true
			}
		}
		verifAssert(found, who+": every returned path is a simple path of the graph")
	}
	for k, p := range paths {
		verifAssert(used[k] <= 1, who+": returned paths are distinct")
		verifAssert(verifIff(c13PathWeight(g, p) == d, used[k] == 1),
			who+": a simple path is returned iff its weight is the minimum")
	}
}
