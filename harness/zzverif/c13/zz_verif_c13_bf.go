package c13

import (
	"math"

	"gonum.org/v1/gonum/graph"
	"gonum.org/v1/gonum/graph/path"
)

// c13NegReachable: some negative simple cycle passes through a node reachable
// from s (as a term over the symbolic weights).
func c13NegReachable(g *c13Graph, s int) bool {
	neg := false
	for c := 0; c < g.n; c++ {
		if c13Reachable(g, s, c) {
			neg = verifOr(neg, c13NegCycleThrough(g, c))
		}
	}
	return neg
}

// VerifC13_BellmanFordFrom: weights of free sign. The negative-cycle flag is
// raised exactly when a negative cycle is reachable from the source; without
// one, weights are the true distances and paths are real.
func VerifC13_BellmanFordFrom() {
	g := c13Build(false, false)
	// quick tier: source 0 only (every topology is still covered; the other
	// sources only change the iteration order); thorough: every source.
	s := verifChoose("s", 0, verifParam("bfsrcs", 1)-1)
	sp, ok := path.BellmanFordFrom(c13Node(c13IDs[s]), g)
	neg := c13NegReachable(g, s)
	verifAssert(verifIff(ok, !neg), "BellmanFordFrom: ok is false iff a negative cycle is reachable from the source")
	if ok {
		for t := 0; t < g.n; t++ {
			d := sp.WeightTo(c13IDs[t])
			c13CheckWeight(g, s, t, d, "BellmanFordFrom.WeightTo")
			p, w := sp.To(c13IDs[t])
			c13CheckWeight(g, s, t, w, "BellmanFordFrom.To weight")
			c13CheckPath(g, s, t, p, w, "BellmanFordFrom.To")
		}
		verifAssert(math.IsInf(sp.WeightTo(c13Absent), 1), "BellmanFordFrom: absent target has weight +Inf")
		verifReach("no negative cycle")
	} else {
		// Documented: unreachable targets still have no path and +Inf; paths to
		// reachable targets are made of graph nodes joined by edges.
		for t := 0; t < g.n; t++ {
			p, w := sp.To(c13IDs[t])
			if !c13Reachable(g, s, t) {
				verifAssert(verifAnd(len(p) == 0, math.IsInf(w, 1)), "BellmanFordFrom(neg cycle): unreachable target has no path, weight +Inf")
				continue
			}
			verifAssert(len(p) > 0, "BellmanFordFrom(neg cycle): reachable target has a path")
			c13CheckEdgesExist(g, p, "BellmanFordFrom(neg cycle).To")
			if len(p) > 0 {
				verifAssert(p[len(p)-1].ID() == c13IDs[t], "BellmanFordFrom(neg cycle): path ends at the target")
			}
		}
		verifReach("negative cycle")
	}
	verifReach("end")
}

func c13CheckEdgesExist(g *c13Graph, p []graph.Node, who string) {
	for k := 0; k+1 < len(p); k++ {
		i, j := g.idx(p[k].ID()), g.idx(p[k+1].ID())
		verifAssert(i >= 0 && j >= 0 && g.adj[i][j], who+": consecutive path nodes are joined by an edge")
	}
}

// VerifC13_AStarNull: A* with the null heuristic (trivially admissible),
// every source/target pair, symbolic non-negative weights.
func VerifC13_AStarNull() {
	g := c13Build(true, false)
	s := verifChoose("s", 0, g.n-1)
	t := verifChoose("t", 0, g.n-1)
	sp, _ := path.AStar(c13Node(c13IDs[s]), c13Node(c13IDs[t]), g, nil)
	p, w := sp.To(c13IDs[t])
	c13CheckWeight(g, s, t, w, "AStar(null).To weight")
	c13CheckWeight(g, s, t, sp.WeightTo(c13IDs[t]), "AStar(null).WeightTo")
	c13CheckPath(g, s, t, p, w, "AStar(null).To")
	verifReach("end")
}

// VerifC13_AStarAdmissible: A* with a symbolic heuristic constrained only by
// admissibility (h(v) <= true distance v -> t, h >= 0, h(t) = 0), as in the
// documentation of AStar: "The path will be the shortest path if the
// heuristic is admissible".
func VerifC13_AStarAdmissible() {
	g := c13Build(true, false)
	s := verifChoose("s", 0, g.n-1)
	t := verifChoose("t", 0, g.n-1)
	hs := make([]float64, g.n)
	for v := 0; v < g.n; v++ {
		if v == t {
			continue
		}
		h := verifFloat(c13Name("h", v, t))
		verifAssume(h >= 0)
		for _, p := range c13SimplePaths(g, v, t) {
			verifAssume(h <= c13PathWeight(g, p))
		}
		hs[v] = h
	}
	heur := func(x, y graph.Node) float64 { return hs[g.idx(x.ID())] }
	sp, _ := path.AStar(c13Node(c13IDs[s]), c13Node(c13IDs[t]), g, heur)
	p, w := sp.To(c13IDs[t])
	c13CheckWeight(g, s, t, w, "AStar(admissible).To weight")
	c13CheckPath(g, s, t, p, w, "AStar(admissible).To")
	verifReach("end")
}

// VerifC13_AStarConsistent: as above with a consistent (monotone) heuristic:
// h(u) <= w(u,v) + h(v) on every edge, h(t) = 0, h >= 0.
func VerifC13_AStarConsistent() {
	g := c13Build(true, false)
	s := verifChoose("s", 0, g.n-1)
	t := verifChoose("t", 0, g.n-1)
	hs := make([]float64, g.n)
	for v := 0; v < g.n; v++ {
		if v == t {
			continue
		}
		h := verifFloat(c13Name("h", v, t))
		verifAssume(h >= 0)
		hs[v] = h
	}
	for u := 0; u < g.n; u++ {
		for v := 0; v < g.n; v++ {
			if g.adj[u][v] {
				verifAssume(hs[u] <= g.w[u][v]+hs[v])
			}
		}
	}
	heur := func(x, y graph.Node) float64 { return hs[g.idx(x.ID())] }
	sp, _ := path.AStar(c13Node(c13IDs[s]), c13Node(c13IDs[t]), g, heur)
	p, w := sp.To(c13IDs[t])
	c13CheckWeight(g, s, t, w, "AStar(consistent).To weight")
	c13CheckPath(g, s, t, p, w, "AStar(consistent).To")
	verifReach("end")
}
