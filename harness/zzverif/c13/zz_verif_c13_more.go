package c13

import (
	"math"

	"gonum.org/v1/gonum/graph"
	"gonum.org/v1/gonum/graph/path"
)

// c13Plain exposes only graph.Directed (no Weight method): the path
// routines must fall back to UniformCost.
type c13Plain struct{ g *c13Graph }

func (p c13Plain) Node(id int64) graph.Node       { return p.g.Node(id) }
func (p c13Plain) Nodes() graph.Nodes             { return p.g.Nodes() }
func (p c13Plain) From(id int64) graph.Nodes      { return p.g.From(id) }
func (p c13Plain) To(id int64) graph.Nodes        { return p.g.To(id) }
func (p c13Plain) HasEdgeBetween(x, y int64) bool { return p.g.HasEdgeBetween(x, y) }
func (p c13Plain) HasEdgeFromTo(x, y int64) bool  { return p.g.HasEdgeFromTo(x, y) }
func (p c13Plain) Edge(x, y int64) graph.Edge     { return p.g.Edge(x, y) }

// c13Trav exposes only traverse.Graph (From, Edge) plus Weight: the
// single-source routines then discover nodes lazily.
type c13Trav struct{ g *c13Graph }

func (p c13Trav) From(id int64) graph.Nodes         { return p.g.From(id) }
func (p c13Trav) Edge(x, y int64) graph.Edge        { return p.g.Edge(x, y) }
func (p c13Trav) Weight(x, y int64) (float64, bool) { return p.g.Weight(x, y) }

// VerifC13_UniformCost: a graph without weights: every edge costs 1
// (Dijkstra single source, all pairs, Floyd-Warshall, Bellman-Ford).
func VerifC13_UniformCost() {
	g := c13Build(true, false)
	for i := 0; i < g.n; i++ {
		for j := 0; j < g.n; j++ {
			if g.adj[i][j] {
				g.w[i][j] = 1 // the model's weights: unit
			}
		}
	}
	pg := c13Plain{g}
	c13CheckAllPairs(g, path.DijkstraAllPaths(pg), "DijkstraAllPaths(uniform)")
	fw, ok := path.FloydWarshall(pg)
	verifAssert(ok, "FloydWarshall(uniform): no negative cycle")
	c13CheckAllPairs(g, fw, "FloydWarshall(uniform)")
	for s := 0; s < g.n; s++ {
		sp := path.DijkstraFrom(c13Node(c13IDs[s]), pg)
		bf, ok := path.BellmanFordFrom(c13Node(c13IDs[s]), pg)
		verifAssert(ok, "BellmanFordFrom(uniform): no negative cycle")
		for t := 0; t < g.n; t++ {
			c13CheckWeight(g, s, t, sp.WeightTo(c13IDs[t]), "DijkstraFrom(uniform).WeightTo")
			c13CheckWeight(g, s, t, bf.WeightTo(c13IDs[t]), "BellmanFordFrom(uniform).WeightTo")
			p, w := sp.To(c13IDs[t])
			c13CheckPath(g, s, t, p, w, "DijkstraFrom(uniform).To")
		}
	}
	verifReach("end")
}

// VerifC13_Traverse: the single-source routines on a traverse.Graph (nodes
// discovered lazily): reachable targets exact, unreachable/unknown +Inf.
func VerifC13_Traverse() {
	g := c13Build(true, false)
	s := verifChoose("s", 0, g.n-1)
	tg := c13Trav{g}
	sp := path.DijkstraFrom(c13Node(c13IDs[s]), tg)
	bf, ok := path.BellmanFordFrom(c13Node(c13IDs[s]), tg)
	verifAssert(ok, "BellmanFordFrom(traverse): no negative cycle with weights >= 0")
	for t := 0; t < g.n; t++ {
		// a source without out-edges is indistinguishable from an absent
		// node for a traverse.Graph: documented to return an empty tree.
		if c13OutDeg(g, s) == 0 {
			continue
		}
		c13CheckWeight(g, s, t, sp.WeightTo(c13IDs[t]), "DijkstraFrom(traverse).WeightTo")
		c13CheckWeight(g, s, t, bf.WeightTo(c13IDs[t]), "BellmanFordFrom(traverse).WeightTo")
		p, w := sp.To(c13IDs[t])
		c13CheckPath(g, s, t, p, w, "DijkstraFrom(traverse).To")
		p, w = bf.To(c13IDs[t])
		c13CheckPath(g, s, t, p, w, "BellmanFordFrom(traverse).To")
	}
	verifReach("end")
}

func c13OutDeg(g *c13Graph, s int) int {
	d := 0
	for j := 0; j < g.n; j++ {
		if g.adj[s][j] {
			d++
		}
	}
	return d
}

// VerifC13_DijkstraFromTo: point to point Dijkstra (early exit at the target),
// every pair including s == t. Found F-C13-2 (s == t with a source without
// out-edges returned (nil, +Inf)), fixed in /repo commit 459fbf6.
func VerifC13_DijkstraFromTo() {
	c13DijkstraFromTo(true)
}

// VerifC13_DijkstraFromToDistinct: the same for s != t only.
func VerifC13_DijkstraFromToDistinct() {
	c13DijkstraFromTo(false)
}

func c13DijkstraFromTo(same bool) {
	g := c13Build(true, false)
	s := verifChoose("s", 0, g.n-1)
	t := verifChoose("t", 0, g.n-1)
	if s == t && !same {
		return
	}
	p, w := path.DijkstraFromTo(c13Node(c13IDs[s]), c13Node(c13IDs[t]), g)
	c13CheckWeight(g, s, t, w, "DijkstraFromTo weight")
	c13CheckPath(g, s, t, p, w, "DijkstraFromTo")
	verifReach("end")
}

// VerifC13_Undirected: undirected weighted graphs (symmetric weights >= 0):
// Dijkstra single source / all pairs and Floyd-Warshall; distances symmetric.
func VerifC13_Undirected() {
	g := c13Build(true, true)
	ug := c13UGraph{g}
	ap := path.DijkstraAllPaths(ug)
	c13CheckAllPairs(g, ap, "DijkstraAllPaths(undirected)")
	fw, ok := path.FloydWarshall(ug)
	verifAssert(ok, "FloydWarshall(undirected): ok with weights >= 0")
	c13CheckAllPairs(g, fw, "FloydWarshall(undirected)")
	for s := 0; s < g.n; s++ {
		sp := path.DijkstraFrom(c13Node(c13IDs[s]), ug)
		for t := 0; t < g.n; t++ {
			c13CheckWeight(g, s, t, sp.WeightTo(c13IDs[t]), "DijkstraFrom(undirected).WeightTo")
			verifAssertEqFOrInf(ap.Weight(c13IDs[s], c13IDs[t]), ap.Weight(c13IDs[t], c13IDs[s]), "undirected: distance is symmetric")
		}
	}
	verifReach("end")
}

func verifAssertEqFOrInf(a, b float64, msg string) {
	if math.IsInf(a, 0) || math.IsInf(b, 0) {
		verifAssert(a == b, msg)
		return
	}
	verifAssertEqF(a, b, msg)
}

// VerifC13_Yen: Yen's k shortest paths: loopless, distinct, real paths s -> t,
// non-decreasing weights, within the cost bound, and no omitted path is
// cheaper than a returned one (nor within budget when fewer than k are
// returned).
func VerifC13_Yen() {
	g := c13Build(true, false)
	s := verifChoose("s", 0, g.n-1)
	t := verifChoose("t", 0, g.n-1)
	if s == t {
		return
	}
	k := verifChoose("k", 0, 3) // 0 stands for k = -1 (cost bound only)
	cost := math.Inf(1)
	if k == 0 {
		k = -1
		cost = verifFloat("cost")
		verifAssume(cost >= 0)
	}
	got := path.YenKShortestPaths(g, k, cost, c13Node(c13IDs[s]), c13Node(c13IDs[t]))
	all := c13SimplePaths(g, s, t)
	if len(all) == 0 {
		verifAssert(len(got) == 0, "Yen: no path for an unreachable target")
		return
	}
	// true distance as a branch-free min
	d := c13PathWeight(g, all[0])
	for _, p := range all[1:] {
		w := c13PathWeight(g, p)
		d = verifIteF(w < d, w, d)
	}
	verifAssert(len(got) >= 1, "Yen: at least the shortest path is returned")
	if k > 0 {
		verifAssert(len(got) <= k, "Yen: at most k paths")
	}
	used := make([]int, len(all))
	ws := make([]float64, len(got))
	for r, gp := range got {
		found := false
		for q, p := range all {
			if c13SameSeq(gp, p) {
				used[q]++
				found = true
				ws[r] = c13PathWeight(g, p)
			}
		}
		verifAssert(found, "Yen: every returned path is a loopless path from s to t in g")
		if !found {
			return
		}
		if r > 0 {
			verifAssert(ws[r-1] <= ws[r], "Yen: paths are in non-decreasing weight order")
		}
		if !math.IsInf(cost, 1) {
			verifAssert(ws[r] <= d+cost, "Yen: returned paths are within the cost bound")
		}
	}
	verifAssertEqF(ws[0], d, "Yen: the first path is a shortest path")
	last := ws[len(got)-1]
	for q, p := range all {
		verifAssert(used[q] <= 1, "Yen: returned paths are distinct")
		if used[q] == 0 {
			w := c13PathWeight(g, p)
			verifAssert(w >= last, "Yen: no omitted path is cheaper than a returned one")
			if k < 0 || len(got) < k {
				verifAssert(w > d+cost, "Yen: fewer than k paths only when the others exceed the cost bound")
			}
		}
	}
	verifReach("end")
}

// c13LongList: graphs with 5-6 nodes whose cheapest s -> t route can be a long
// chain (Yen's spur/root bookkeeping only gets interesting for paths of five
// and more nodes). s = node 0, t = the last node.
var c13LongList = [][][2]int{
	// 0: 6-node ladder: chain 0-1-2-3-4-5 plus the shortcuts i -> i+2 (8 simple paths 0 -> 5)
	{{0, 1}, {1, 2}, {2, 3}, {3, 4}, {4, 5}, {0, 2}, {1, 3}, {2, 4}, {3, 5}},
	// 1: 5-node chain plus shortcuts 0->2, 1->3, 2->4, 0->3
	{{0, 1}, {1, 2}, {2, 3}, {3, 4}, {0, 2}, {1, 3}, {2, 4}, {0, 3}},
	// 2: 6-node chain plus one long shortcut and a back arc
	{{0, 1}, {1, 2}, {2, 3}, {3, 4}, {4, 5}, {0, 4}, {1, 5}, {3, 1}},
}

var c13LongN = []int{6, 5, 6}

// c13LongWeights: stated concrete weight vectors (chain arcs first): cheap
// chain / expensive shortcuts (the best path is the whole chain), all equal
// (many ties), shortcut = two chain arcs (ties between chain and shortcut),
// increasing, decreasing.
func c13LongWeight(vec, e, nchain int) float64 {
	switch vec {
	case 0:
		if e < nchain {
			return 1
		}
		return 5
	case 1:
		return 1
	case 2:
		if e < nchain {
			return 1
		}
		return 2
	case 3:
		return float64(1 + e)
	default:
		return float64(12 - e)
	}
}

// VerifC13_YenLong: Yen's k shortest paths on the 5-6 node list, k = 4..6,
// unbounded cost: loopless real paths, distinct, non-decreasing weights, no
// omitted path cheaper than the last returned one, and fewer than k paths only
// if there are no more simple paths. Weights: symbolic positive reals
// (ylw=0) or the stated concrete vectors (ylw=1).
func VerifC13_YenLong() {
	gi := verifChoose("long", verifParam("longlo", 0), verifParam("longhi", len(c13LongList)-1))
	n := c13LongN[gi]
	g := c13New(n)
	nchain := n - 1
	symbolic := verifParam("ylw", 1) == 0
	vec := 0
	if !symbolic {
		vec = verifChoose("wvec", 0, 4)
	}
	for e, a := range c13LongList[gi] {
		g.adj[a[0]][a[1]] = true
		if symbolic {
			w := verifFloat(c13Name("w", a[0], a[1]))
			verifAssume(w > 0)
			g.w[a[0]][a[1]] = w
		} else {
			g.w[a[0]][a[1]] = c13LongWeight(vec, e, nchain)
		}
	}
	s, t := 0, n-1
	k := verifChoose("k", verifParam("klo", 4), verifParam("khi", 6))
	got := path.YenKShortestPaths(g, k, math.Inf(1), c13Node(c13IDs[s]), c13Node(c13IDs[t]))
	all := c13SimplePaths(g, s, t)
	verifAssert(len(got) <= k, "YenLong: at most k paths")
	want := k
	if len(all) < k {
		want = len(all)
	}
	verifAssert(len(got) == want, "YenLong: min(k, number of simple paths) paths are returned")
	used := make([]int, len(all))
	ws := make([]float64, len(got))
	for r, gp := range got {
		found := false
		for q, p := range all {
			if c13SameSeq(gp, p) {
				used[q]++
				found = true
				ws[r] = c13PathWeight(g, p)
			}
		}
		verifAssert(found, "YenLong: every returned path is a loopless path from s to t in g")
		if !found {
			return
		}
		if r > 0 {
			verifAssert(ws[r-1] <= ws[r], "YenLong: paths are in non-decreasing weight order")
		}
	}
	if len(got) == 0 {
		return
	}
	last := ws[len(got)-1]
	for q, p := range all {
		verifAssert(used[q] <= 1, "YenLong: returned paths are distinct")
		if used[q] == 0 {
			verifAssert(c13PathWeight(g, p) >= last, "YenLong: no omitted path is cheaper than a returned one")
		}
	}
	verifReach("end")
}
