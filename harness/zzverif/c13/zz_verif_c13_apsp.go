package c13

import (
	"math"

	"gonum.org/v1/gonum/graph/path"
)

// c13NegAny: some simple cycle of the graph has negative weight (term).
func c13NegAny(g *c13Graph) bool {
	neg := false
	for c := 0; c < g.n; c++ {
		neg = verifOr(neg, c13NegCycleThrough(g, c))
	}
	return neg
}

// c13Affected: some walk s -> t touches a negative cycle (term): a node c on
// a negative simple cycle with s ->* c ->* t.
func c13Affected(g *c13Graph, s, t int) bool {
	a := false
	for c := 0; c < g.n; c++ {
		if c13Reachable(g, s, c) && c13Reachable(g, c, t) {
			a = verifOr(a, c13NegCycleThrough(g, c))
		}
	}
	return a
}

// VerifC13_FloydWarshall: weights of free sign. ok is false iff the graph has
// a negative cycle; without one all weights/paths are exact.
func VerifC13_FloydWarshall() {
	g := c13Build(false, false)
	ap, ok := path.FloydWarshall(g)
	verifAssert(verifIff(ok, !c13NegAny(g)), "FloydWarshall: ok is false iff the graph has a negative cycle")
	if ok {
		c13CheckAllPairs(g, ap, "FloydWarshall")
		verifReach("no negative cycle")
	} else {
		// Documented (AllShortest.Between/AllBetween/Weight): a pair whose
		// connection passes a negative cycle has weight -Inf and nil paths;
		// pairs not affected keep exact answers.
		for s := 0; s < g.n; s++ {
			for t := 0; t < g.n; t++ {
				d := ap.Weight(c13IDs[s], c13IDs[t])
				aff := c13Affected(g, s, t)
				verifAssert(verifIff(math.IsInf(d, -1), aff), "FloydWarshall(neg cycle): weight is -Inf iff a negative cycle lies between the pair")
				all, w := ap.AllBetween(c13IDs[s], c13IDs[t])
				if math.IsInf(w, -1) {
					verifAssert(len(all) == 0, "FloydWarshall(neg cycle): no paths are returned with weight -Inf")
				}
			}
		}
		verifReach("negative cycle")
	}
	verifReach("end")
}

// VerifC13_FloydWarshallBetween: Between (random choice among ties) with no
// negative and no zero-weight cycle.
func VerifC13_FloydWarshallBetween() {
	g := c13Build(false, false)
	c13AssumeNoZeroCycle(g)
	ap, ok := path.FloydWarshall(g)
	verifAssert(ok, "FloydWarshall: ok when every cycle is positive")
	if ok {
		c13CheckBetween(g, ap, "FloydWarshall")
	}
	verifReach("end")
}

// VerifC13_BellmanFordAllFrom: as BellmanFordFrom, plus AllTo/To when every
// cycle is positive.
func VerifC13_BellmanFordAllFrom() {
	g := c13Build(false, false)
	s := verifChoose("s", 0, verifParam("bfsrcs", 1)-1)
	sp, ok := path.BellmanFordAllFrom(c13Node(c13IDs[s]), g)
	neg := c13NegReachable(g, s)
	verifAssert(verifIff(ok, !neg), "BellmanFordAllFrom: ok is false iff a negative cycle is reachable from the source")
	if !ok {
		verifReach("negative cycle")
		return
	}
	for t := 0; t < g.n; t++ {
		c13CheckWeight(g, s, t, sp.WeightTo(c13IDs[t]), "BellmanFordAllFrom.WeightTo")
	}
	verifReach("weights")
	c13AssumeNoZeroCycle(g)
	c13CheckAlts(g, s, sp, "BellmanFordAllFrom")
	verifReach("end")
}

// VerifC13_JohnsonAllPaths: weights of free sign; ok iff no negative cycle.
// Johnson draws a fresh node ID with rand.Int64 (q = -r, then +r, ... until
// q is not a node ID). The draw is stubbed by a harness-level case split over
// candidate values: colliding with an existing ID on the first draw (3 -> -3),
// on the second draw (5), or fresh (100, MaxInt64).
func VerifC13_JohnsonAllPaths() {
	g := c13Build(false, false)
	calls := 0
	first := []int64{3, 100, math.MaxInt64} // q = -3 collides with node -3
	second := []int64{5, 100}               // q = +5 collides with node 5
	verifStubFunc("math/rand/v2.Int64", func() int64 {
		calls++
		switch calls {
		case 1:
			return first[verifChoose("rand1", 0, len(first)-1)]
		case 2:
			return second[verifChoose("rand2", 0, len(second)-1)]
		}
		return 1000 + int64(calls)
	})
	ap, ok := path.JohnsonAllPaths(g)
	verifAssert(verifIff(ok, !c13NegAny(g)), "JohnsonAllPaths: ok is false iff the graph has a negative cycle")
	if ok {
		c13CheckAllPairs(g, ap, "JohnsonAllPaths")
		verifReach("no negative cycle")
	}
	verifReach("end")
}

// VerifC13_JohnsonBetween: Between (random choice among ties) when every
// cycle is positive.
func VerifC13_JohnsonBetween() {
	g := c13Build(false, false)
	c13AssumeNoZeroCycle(g)
	verifStubFunc("math/rand/v2.Int64", func() int64 { return 100 })
	ap, ok := path.JohnsonAllPaths(g)
	verifAssert(ok, "JohnsonAllPaths: ok when every cycle is positive")
	if ok {
		c13CheckBetween(g, ap, "JohnsonAllPaths")
	}
	verifReach("end")
}
