package c13

import (
	"math"

	"gonum.org/v1/gonum/graph/path"
)

// VerifC13_DijkstraFrom: single-source Dijkstra on every digraph of the case
// split with symbolic non-negative weights.
func VerifC13_DijkstraFrom() {
	g := c13Build(true, false)
	s := verifChoose("s", 0, g.n-1)
	sp := path.DijkstraFrom(c13Node(c13IDs[s]), g)
	verifAssert(sp.From().ID() == c13IDs[s], "DijkstraFrom: From is the source")
	for t := 0; t < g.n; t++ {
		d := sp.WeightTo(c13IDs[t])
		c13CheckWeight(g, s, t, d, "DijkstraFrom.WeightTo")
		p, w := sp.To(c13IDs[t])
		c13CheckWeight(g, s, t, w, "DijkstraFrom.To weight")
		c13CheckPath(g, s, t, p, w, "DijkstraFrom.To")
	}
	verifAssert(math.IsInf(sp.WeightTo(c13Absent), 1), "DijkstraFrom: absent target has weight +Inf")
	p, w := sp.To(c13Absent)
	verifAssert(verifAnd(p == nil, math.IsInf(w, 1)), "DijkstraFrom: absent target has no path")
	verifReach("end")
}

// VerifC13_DijkstraAllFrom: single-source Dijkstra keeping all alternatives.
// WeightTo on every graph; AllTo (which calls To, a math/rand walk) under the
// no-zero-weight-cycle assumption (see c13AssumeNoZeroCycle).
func VerifC13_DijkstraAllFrom() {
	g := c13Build(true, false)
	s := verifChoose("s", 0, g.n-1)
	sp := path.DijkstraAllFrom(c13Node(c13IDs[s]), g)
	for t := 0; t < g.n; t++ {
		c13CheckWeight(g, s, t, sp.WeightTo(c13IDs[t]), "DijkstraAllFrom.WeightTo")
	}
	verifAssert(math.IsInf(sp.WeightTo(c13Absent), 1), "DijkstraAllFrom: absent target has weight +Inf")
	verifReach("weights")
	c13AssumeNoZeroCycle(g)
	c13CheckAlts(g, s, sp, "DijkstraAllFrom")
	verifReach("end")
}

// c13CheckAlts checks To (random choice among ties: every outcome) and AllTo.
func c13CheckAlts(g *c13Graph, s int, sp path.ShortestAlts, who string) {
	for t := 0; t < g.n; t++ {
		d := sp.WeightTo(c13IDs[t])
		all, w := sp.AllTo(c13IDs[t])
		c13CheckWeight(g, s, t, w, who+".AllTo weight")
		for _, p := range all {
			c13CheckPath(g, s, t, p, w, who+".AllTo")
		}
		c13CheckAllPaths(g, s, t, all, d, who+".AllTo")
		p, w1, unique := sp.To(c13IDs[t])
		c13CheckWeight(g, s, t, w1, who+".To weight")
		c13CheckPath(g, s, t, p, w1, who+".To")
		if c13Reachable(g, s, t) {
			verifAssert(unique == (len(all) == 1), who+".To: unique iff there is exactly one shortest path")
		}
	}
}

// VerifC13_DijkstraAllPaths: all-pairs Dijkstra, Weight and AllBetween for
// every ordered pair including s == t and absent nodes.
func VerifC13_DijkstraAllPaths() {
	g := c13Build(true, false)
	ap := path.DijkstraAllPaths(g)
	c13CheckAllPairs(g, ap, "DijkstraAllPaths")
	verifReach("end")
}

// VerifC13_DijkstraAllPathsBetween: Between (random choice among ties, every
// outcome) under the no-zero-weight-cycle assumption.
func VerifC13_DijkstraAllPathsBetween() {
	g := c13Build(true, false)
	c13AssumeNoZeroCycle(g)
	ap := path.DijkstraAllPaths(g)
	c13CheckBetween(g, ap, "DijkstraAllPaths")
	verifReach("end")
}

func c13CheckBetween(g *c13Graph, ap path.AllShortest, who string) {
	for s := 0; s < g.n; s++ {
		for t := 0; t < g.n; t++ {
			p, w, unique := ap.Between(c13IDs[s], c13IDs[t])
			c13CheckWeight(g, s, t, w, who+".Between weight")
			c13CheckPath(g, s, t, p, w, who+".Between")
			if c13Reachable(g, s, t) {
				nmin := 0
				for _, q := range c13SimplePaths(g, s, t) {
					nmin += verifIteInt(c13PathWeight(g, q) == w, 1, 0)
				}
				verifAssert(unique == (nmin == 1), who+".Between: unique iff there is exactly one shortest path")
			}
		}
	}
	p, w, _ := ap.Between(c13IDs[0], c13Absent)
	verifAssert(verifAnd(p == nil, math.IsInf(w, 1)), who+".Between: absent target has no path, weight +Inf")
}

func c13CheckAllPairs(g *c13Graph, ap path.AllShortest, who string) {
	for s := 0; s < g.n; s++ {
		for t := 0; t < g.n; t++ {
			d := ap.Weight(c13IDs[s], c13IDs[t])
			c13CheckWeight(g, s, t, d, who+".Weight")
			all, w := ap.AllBetween(c13IDs[s], c13IDs[t])
			c13CheckWeight(g, s, t, w, who+".AllBetween weight")
			for _, p := range all {
				c13CheckPath(g, s, t, p, w, who+".AllBetween")
			}
			c13CheckAllPaths(g, s, t, all, d, who+".AllBetween")
		}
		verifAssert(math.IsInf(ap.Weight(c13IDs[s], c13Absent), 1), who+": absent target has weight +Inf")
		verifAssert(math.IsInf(ap.Weight(c13Absent, c13IDs[s]), 1), who+": absent source has weight +Inf")
	}
}
