package c13

import (
	"math"

	"gonum.org/v1/gonum/graph"
	"gonum.org/v1/gonum/graph/path"
)

// Queries about nodes that are not in the graph (property C13: "forall
// source/target pairs incl. s = t and absent nodes ... +Inf for unreachable
// pairs"): an absent SOURCE for every single-source routine, an absent source
// or target for the point-to-point routines and Yen.

func c13CheckEmptyTree(g *c13Graph, from graph.Node, weightTo func(int64) float64, to func(int64) ([]graph.Node, float64), who string) {
	verifAssert(from != nil && from.ID() == c13Absent, who+": From is the node given as the source")
	for t := 0; t < g.n; t++ {
		verifAssert(math.IsInf(weightTo(c13IDs[t]), 1), who+": no node of the graph is reachable from an absent source: weight +Inf")
		p, w := to(c13IDs[t])
		verifAssert(len(p) == 0 && math.IsInf(w, 1), who+": no path from an absent source")
	}
}

// VerifC13_AbsentSource: non-negative symbolic weights.
func VerifC13_AbsentSource() {
	g := c13Build(true, false)
	absent := c13Node(c13Absent)
	switch verifChoose("routine", 0, 5) {
	case 0:
		sp := path.DijkstraFrom(absent, g)
		c13CheckEmptyTree(g, sp.From(), sp.WeightTo, sp.To, "DijkstraFrom(absent)")
	case 1:
		sp := path.DijkstraAllFrom(absent, g)
		c13CheckEmptyTree(g, sp.From(), sp.WeightTo, func(id int64) ([]graph.Node, float64) {
			p, w, unique := sp.To(id)
			verifAssert(!unique, "DijkstraAllFrom(absent).To: no path, so not a unique one")
			all, wa := sp.AllTo(id)
			verifAssert(len(all) == 0 && math.IsInf(wa, 1), "DijkstraAllFrom(absent).AllTo: no paths, weight +Inf")
			return p, w
		}, "DijkstraAllFrom(absent)")
	case 2:
		// absent source / absent target / both, point to point
		t := verifChoose("t", 0, g.n-1)
		p, w := path.DijkstraFromTo(absent, c13Node(c13IDs[t]), g)
		verifAssert(len(p) == 0 && math.IsInf(w, 1), "DijkstraFromTo(absent, t): no path, weight +Inf")
		p, w = path.DijkstraFromTo(c13Node(c13IDs[t]), absent, g)
		verifAssert(len(p) == 0 && math.IsInf(w, 1), "DijkstraFromTo(s, absent): no path, weight +Inf")
	case 3:
		t := verifChoose("t", 0, g.n-1)
		sp, expanded := path.AStar(absent, c13Node(c13IDs[t]), g, nil)
		p, w := sp.To(c13IDs[t])
		verifAssert(len(p) == 0 && math.IsInf(w, 1) && expanded == 0, "AStar(absent, t): no path, weight +Inf, nothing expanded")
		sp, _ = path.AStar(c13Node(c13IDs[t]), absent, g, nil)
		p, w = sp.To(c13Absent)
		verifAssert(len(p) == 0 && math.IsInf(w, 1), "AStar(s, absent): no path, weight +Inf")
		verifAssert(math.IsInf(sp.WeightTo(c13Absent), 1), "AStar(s, absent).WeightTo: +Inf")
	case 4:
		t := verifChoose("t", 0, g.n-1)
		k := verifChoose("k", -1, 2)
		got := path.YenKShortestPaths(g, k, math.Inf(1), absent, c13Node(c13IDs[t]))
		verifAssert(len(got) == 0, "Yen(absent, t): no paths")
		got = path.YenKShortestPaths(g, k, math.Inf(1), c13Node(c13IDs[t]), absent)
		verifAssert(len(got) == 0, "Yen(s, absent): no paths")
	default:
		// Yen with s == t: the only loopless path from s to s is [s]
		s := verifChoose("t", 0, g.n-1)
		k := verifChoose("k", -1, 2)
		if k == 0 {
			return
		}
		got := path.YenKShortestPaths(g, k, math.Inf(1), c13Node(c13IDs[s]), c13Node(c13IDs[s]))
		verifAssert(len(got) == 1 && len(got[0]) == 1 && got[0][0].ID() == c13IDs[s], "Yen(s, s): exactly the trivial path [s]")
	}
	verifReach("end")
}

// VerifC13_BellmanFordAbsent: weights of free sign: an absent source reaches
// nothing, in particular no negative cycle: ok is true whatever the graph
// holds.
func VerifC13_BellmanFordAbsent() {
	g := c13Build(false, false)
	absent := c13Node(c13Absent)
	if verifChoose("all", 0, 1) == 0 {
		sp, ok := path.BellmanFordFrom(absent, g)
		verifAssert(ok, "BellmanFordFrom(absent): no negative cycle is reachable from an absent source")
		c13CheckEmptyTree(g, sp.From(), sp.WeightTo, sp.To, "BellmanFordFrom(absent)")
	} else {
		sp, ok := path.BellmanFordAllFrom(absent, g)
		verifAssert(ok, "BellmanFordAllFrom(absent): no negative cycle is reachable from an absent source")
		c13CheckEmptyTree(g, sp.From(), sp.WeightTo, func(id int64) ([]graph.Node, float64) {
			p, w, _ := sp.To(id)
			return p, w
		}, "BellmanFordAllFrom(absent)")
	}
	verifReach("end")
}
