package floats

import "math"

// C08, extreme magnitudes at the floats level: Norm(., 2) and Distance(., ., 2)
// are the scaled kernels (homogeneous under 2^±500..), Norm(., Inf) and
// Norm(., 1) are trivially homogeneous, and LogSumExp is documented to be
// computed stably: shifting every element by c shifts the result by c, also
// when exp(x_i + c) overflows or underflows.
func VerifC08_FloatsMagnitude() {
	n := verifChoose("n", 1, verifParam("magn", 4))
	s := []float64{math.Ldexp(1, 500), math.Ldexp(1, -500), math.Ldexp(1, 520), math.Ldexp(1, -530)}[verifChoose("scale", 0, 3)]
	rot := verifChoose("rot", 0, n-1)
	x, y := make([]float64, n), make([]float64, n)
	sx, sy := make([]float64, n), make([]float64, n)
	for i := 0; i < n; i++ {
		k := (i + rot) % n
		x[i] = float64(3+2*k) * (1 - 2*float64(k%2))
		y[i] = float64(k) - 1.5
		sx[i], sy[i] = s*x[i], s*y[i]
	}
	close := func(got, want float64) bool { return math.Abs(got-want) <= 1e-12*math.Abs(want) && !math.IsInf(got, 0) }
	for _, L := range []float64{1, 2, math.Inf(1)} {
		verifAssert(close(Norm(sx, L), s*Norm(x, L)), "Norm(s*x, L) = s*Norm(x, L) for L in {1, 2, Inf}")
		verifAssert(close(Distance(sx, sy, L), s*Distance(x, y, L)), "Distance(s*x, s*y, L) = s*Distance(x, y, L) for L in {1, 2, Inf}")
	}
	for _, c := range []float64{1000, -1000, 5000, -800} {
		sh := make([]float64, n)
		for i := range x {
			sh[i] = x[i] + c
		}
		got, want := LogSumExp(sh), LogSumExp(x)+c
		verifAssert(math.Abs(got-want) <= 1e-9 && !math.IsInf(got, 0), "LogSumExp(x + c) = LogSumExp(x) + c where exp(x_i + c) over/underflows")
	}
	verifReach("end")
}
