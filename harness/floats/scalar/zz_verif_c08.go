package scalar

import "math"

// C08: floats/scalar predicates and NaN payload helpers, bit level (model F).

// VerifC08_SameEqualWithinAbs: Same is IEEE equality or both NaN;
// EqualWithinAbs is a==b or |a-b|<=tol (the subtraction is an opaque value in
// model F, so the statement holds for every subtraction function).
func VerifC08_SameEqualWithinAbs() {
	a, b, tol := verifFloat("a"), verifFloat("b"), verifFloat("tol")
	verifAssert(verifIff(Same(a, b), verifOr(a == b, verifAnd(a != a, b != b))), "Same")
	verifAssert(Same(a, a), "Same is reflexive (also for NaN)")
	verifAssert(verifIff(Same(a, b), Same(b, a)), "Same is symmetric")
	verifAssert(verifIff(EqualWithinAbs(a, b, tol), verifOr(a == b, math.Abs(a-b) <= tol)), "EqualWithinAbs")
	verifAssert(verifImplies(a == b, EqualWithinAbs(a, b, tol)), "equal values (incl. equal infinities) are within any tolerance")
	verifReach("end")
}

// VerifC08_EqualWithinULP: symmetric; equal values true; NaN false; for
// non-NaN unequal values of the same sign it is |bits(a)-bits(b)| <= ulp, for
// opposite signs bits(|a|)+bits(|b|) <= ulp.
func VerifC08_EqualWithinULP() {
	a, b := verifFloat("a"), verifFloat("b")
	ulp := uint(verifUint64("ulp"))
	r := EqualWithinULP(a, b, ulp)
	verifAssert(r == EqualWithinULP(b, a, ulp), "symmetric")
	if a == b {
		verifAssert(r, "equal values")
		return
	}
	if a != a || b != b {
		verifAssert(!r, "NaN is never within any ULP distance")
		return
	}
	ba, bb := math.Float64bits(a), math.Float64bits(b)
	const sign = 1 << 63
	if (ba^bb)&sign == 0 {
		d := ba - bb
		if bb > ba {
			d = bb - ba
		}
		verifAssert(r == (d <= uint64(ulp)), "same sign: distance of the bit patterns")
	} else {
		verifAssert(r == ((ba&^sign)+(bb&^sign) <= uint64(ulp)), "opposite signs: distance through zero")
	}
	verifReach("end")
}

// VerifC08_NaNPayload: NaNWith(p) is a quiet NaN carrying the low 51 bits of p;
// NaNPayload(NaNWith(p)) = (p mod 2^51, true); NaNPayload of a non-NaN is (0,false).
func VerifC08_NaNPayload() {
	p := verifUint64("p")
	f := NaNWith(p)
	verifAssert(f != f, "NaNWith returns a NaN")
	got, ok := NaNPayload(f)
	verifAssert(ok, "NaNPayload recognises NaNWith")
	verifAssert(got == p&(1<<51-1), "payload round trip (low 51 bits)")
	x := verifFloat("x")
	if x == x {
		q, ok := NaNPayload(x)
		verifAssert(!ok && q == 0, "non-NaN has no payload")
	}
	verifReach("end")
}
