package scalar

import "math"

// C08, second wave: EqualWithinRel / EqualWithinAbsOrRel and Round /
// RoundEven, model F. Subtraction is exact IEEE (run with fp_exact_add),
// * and / are opaque, so the symbolic statements are the ones that do not
// depend on a product or quotient; the NaN / Inf / zero / out-of-range-precision
// arms are evaluated on concrete special values (every operation is then
// computed natively by the engine from the SSA of the real code).

var verifC08special = []float64{0, math.Copysign(0, -1), 1, -1, 1.5, -2.5, 0x1p-1022, 0x1p-1074, -0x1p-1074, 1e300, -1e300, math.MaxFloat64, math.Inf(1), math.Inf(-1), math.NaN()}

// VerifC08_EqualWithinRel: a == b (including equal infinities and ±0) is
// within every tolerance, also NaN; EqualWithinAbsOrRel is the disjunction of
// the two predicates.
func VerifC08_EqualWithinRel() {
	a, b, tol, tol2 := verifFloat("a"), verifFloat("b"), verifFloat("tol"), verifFloat("tol2")
	r := EqualWithinRel(a, b, tol)
	verifAssert(verifImplies(a == b, r), "equal values are within any relative tolerance (also NaN tolerance)")
	verifAssert(EqualWithinAbsOrRel(a, b, tol, tol2) == verifOr(EqualWithinAbs(a, b, tol), EqualWithinRel(a, b, tol2)), "AbsOrRel = Abs or Rel")
	verifAssert(verifImplies(a == b, EqualWithinAbsOrRel(a, b, tol, tol2)), "equal values are within any tolerances")
	verifReach("end")
}

// VerifC08_EqualWithinRelSpecial: concrete special operands and tolerances. A
// NaN operand is never within tolerance; an infinity is within tolerance only
// of itself (Inf/Inf is NaN and fails the test) for every tolerance
// including +Inf; finite a != b: |a-b| <= tol*max(|a|,|b|) in exact arithmetic
// when the difference is above the smallest normal number.
func VerifC08_EqualWithinRelSpecial() {
	i := verifChoose("a", 0, len(verifC08special)-1)
	j := verifChoose("b", 0, len(verifC08special)-1)
	a, b := verifC08special[i], verifC08special[j]
	for _, tol := range []float64{0, 1e-10, 0.5, 1, 3, math.Inf(1), math.NaN(), -1} {
		r := EqualWithinRel(a, b, tol)
		ro := EqualWithinAbsOrRel(a, b, tol, tol)
		switch {
		case a == b:
			verifAssert(r && ro, "equal values")
		case a != a || b != b:
			verifAssert(!r && !ro, "NaN is not within any tolerance of anything")
		case math.IsInf(a, 0) || math.IsInf(b, 0):
			verifAssert(!r, "an infinity is only within relative tolerance of itself")
			verifAssert(ro == (tol == math.Inf(1)), "an infinity is within an absolute tolerance of another value only for tol = +Inf")
		default:
			d := math.Abs(a - b)
			if d > 0x1p-1022 && !math.IsInf(d, 0) && tol == tol {
				m := math.Max(math.Abs(a), math.Abs(b))
				// the documented test |a-b| <= tol*max(|a|,|b|), evaluated as the quotient d/m <= tol
				verifAssert(r == (d/m <= tol), "finite values: relative difference against tol")
			}
			if tol != tol {
				verifAssert(!r && !ro, "NaN tolerance accepts only equal values")
			}
		}
	}
	verifReach("end")
}

// VerifC08_RoundSpecial: Round / RoundEven special cases for every precision:
// ±0 -> +0, ±Inf -> ±Inf, NaN -> NaN; a precision beyond the decimal range
// of float64 returns x (prec > 308: x*10^prec overflows) or 0 (prec < -323);
// integral x with prec >= 0 is returned unchanged.
func VerifC08_RoundSpecial() {
	even := verifChoose("even", 0, 1) == 1
	i := verifChoose("x", 0, len(verifC08special)-1)
	x := verifC08special[i]
	prec := []int{-400, -324, -323, -308, -2, -1, 0, 1, 2, 15, 17, 308, 309, 400}[verifChoose("prec", 0, 13)]
	var r float64
	if even {
		r = RoundEven(x, prec)
	} else {
		r = Round(x, prec)
	}
	switch {
	case x == 0:
		verifAssert(math.Float64bits(r) == 0, "Round(±0) = +0")
	case math.IsInf(x, 0):
		if prec < -323 {
			return // see VerifC08_RoundInfTinyPrec (open violation)
		}
		verifAssert(r == x, "Round(±Inf) = ±Inf")
	case x != x:
		verifAssert(r != r, "Round(NaN) = NaN")
	case prec >= 0 && x == math.Trunc(x):
		verifAssert(verifSame(r, x), "integral x, prec >= 0: unchanged")
	case prec > 308+16:
		verifAssert(verifSame(r, x), "precision beyond the range of float64: unchanged")
	case prec < -323:
		verifAssert(math.Float64bits(r) == 0, "rounding to a decade above every float64: +0")
	case prec == 0:
		if even {
			verifAssert(verifSame(r, math.RoundToEven(x)) || (math.RoundToEven(x) == 0 && math.Float64bits(r) == 0), "prec 0: math.RoundToEven (a zero result is +0)")
		} else {
			verifAssert(verifSame(r, math.Round(x)) || (math.Round(x) == 0 && math.Float64bits(r) == 0), "prec 0: math.Round (a zero result is +0)")
		}
	case prec == 1 && (x == 1.5 || x == -2.5):
		verifAssert(verifSame(r, x), "one decimal kept")
	case prec == -1 && (x == 1.5 || x == -2.5):
		verifAssert(math.Float64bits(r) == 0, "rounds to +0 at the tens")
	}
	verifReach("end")
}

// VerifC08_RoundIntegral (symbolic x, all bit patterns): for prec >= 0 an
// integral x (x == Trunc(x), Trunc opaque) and ±Inf are returned bit for bit,
// except that -0 becomes +0.
func VerifC08_RoundIntegral() {
	x := verifFloat("x")
	prec := verifChoose("prec", 0, 3) * 100 // 0, 100, 200, 300
	verifAssume(x == math.Trunc(x))
	for _, r := range []float64{Round(x, prec), RoundEven(x, prec)} {
		if x == 0 {
			verifAssert(math.Float64bits(r) == 0, "±0 -> +0")
		} else {
			verifAssert(verifSame(r, x), "integral x unchanged")
		}
	}
	verifReach("end")
}

// VerifC08_EqualWithinRelSymmetric (fp_exact_add): the predicate is symmetric.
func VerifC08_EqualWithinRelSymmetric() {
	a, b, tol := verifFloat("a"), verifFloat("b"), verifFloat("tol")
	verifAssert(EqualWithinRel(a, b, tol) == EqualWithinRel(b, a, tol), "symmetric")
	verifReach("end")
}

// VerifC08_RoundInfTinyPrec: Round(±Inf) = ±Inf is documented for every
// precision. OPEN VIOLATION: for prec < -323 math.Pow10(prec) is 0, Inf*0 is
// NaN and NaN is returned.
func VerifC08_RoundInfTinyPrec() {
	x := math.Inf(1 - 2*verifChoose("neg", 0, 1))
	prec := []int{-324, -400, -1 << 40}[verifChoose("prec", 0, 2)]
	verifAssert(Round(x, prec) == x, "Round(±Inf) = ±Inf")
	verifAssert(RoundEven(x, prec) == x, "RoundEven(±Inf) = ±Inf")
	verifReach("end")
}
