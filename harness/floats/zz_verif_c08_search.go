package floats

import "math"

// C08 group 2: search and ordering helpers return exactly the documented
// index / boolean / sequence for every value including +-0, +-Inf, NaN and ties.
// Run in model F (IEEE compare, classification, abs, neg exact).

func verifC08nan(x float64) bool { return x != x }

// VerifC08_MaxMinIdx: MaxIdx/MinIdx return the first index holding the
// largest/smallest value; NaN entries are never selected when a non-NaN entry
// exists; Max/Min return that element; zero length panics.
func VerifC08_MaxMinIdx() {
	n := verifChoose("n", 0, verifParam("maxn", 5))
	isMax := verifChoose("max", 0, 1) == 1
	s := verifFloats("s", n)
	s0 := verifC08copy(s)
	var r int
	var val float64
	panicked, fault, msg := verifCatch(func() {
		if isMax {
			r = MaxIdx(s)
			val = Max(s)
		} else {
			r = MinIdx(s)
			val = Min(s)
		}
	})
	verifAssert(!fault, "no runtime fault")
	verifAssert(panicked == (n == 0), "panics iff zero length")
	if panicked {
		verifAssert(msg == zeroLength, "documented panic message")
		verifReach("panic")
		return
	}
	verifC08unchanged(s, s0, "input untouched")
	verifAssert(verifAnd(0 <= r, r < n), "index in range")
	verifAssert(verifSame(val, s[r]), "Max/Min is the element at MaxIdx/MinIdx")
	anyNum := false
	for i := 0; i < n; i++ {
		anyNum = verifOr(anyNum, verifNot(verifC08nan(s[i])))
	}
	verifAssert(verifImplies(anyNum, verifNot(verifC08nan(s[r]))), "a NaN is not selected when a number exists")
	for i := 0; i < n; i++ {
		num := verifNot(verifC08nan(s[i]))
		if isMax {
			verifAssert(verifImplies(num, s[i] <= s[r]), "s[r] is the maximum")
			verifAssert(verifImplies(verifAnd(num, i < r), s[i] < s[r]), "first index of the maximum")
		} else {
			verifAssert(verifImplies(num, s[i] >= s[r]), "s[r] is the minimum")
			verifAssert(verifImplies(verifAnd(num, i < r), s[i] > s[r]), "first index of the minimum")
		}
	}
	verifReach("end")
}

// VerifC08_Within: Within returns the first i with s[i] <= v < s[i+1], -1 when
// there is none (including NaN v), and panics for short or unsorted input.
// s is NaN-free here (see VerifC08_WithinNaNSlice).
func VerifC08_Within() {
	n := verifChoose("n", 0, verifParam("maxn", 5))
	s := verifFloats("s", n)
	v := verifFloat("v")
	for i := range s {
		verifAssume(verifNot(verifC08nan(s[i])))
	}
	s0 := verifC08copy(s)
	var r int
	panicked, fault, msg := verifCatch(func() { r = Within(s, v) })
	verifAssert(!fault, "no runtime fault")
	verifC08unchanged(s, s0, "input untouched")
	if n < 2 {
		verifAssert(panicked, "short input panics")
		verifAssert(msg == shortSpan, "documented panic message")
		verifReach("short")
		return
	}
	sorted := true
	for i := 1; i < n; i++ {
		sorted = verifAnd(sorted, s[i-1] <= s[i])
	}
	verifAssert(verifIff(panicked, verifNot(sorted)), "panics iff s is not sorted")
	if panicked {
		verifReach("unsorted")
		return
	}
	want := -1
	for i := n - 2; i >= 0; i-- {
		want = verifIteInt(verifAnd(s[i] <= v, v < s[i+1]), i, want)
	}
	verifAssert(r == want, "first i with s[i] <= v < s[i+1], else -1")
	verifReach("end")
}

// VerifC08_WithinNaNSlice: the documented post-condition on slices that contain
// NaN but are accepted as sorted (sort.Float64sAreSorted orders NaN first).
func VerifC08_WithinNaNSlice() {
	n := verifChoose("n", 2, verifParam("maxn", 5))
	s := verifFloats("s", n)
	v := verifFloat("v")
	var r int
	panicked, fault, _ := verifCatch(func() { r = Within(s, v) })
	verifAssert(!fault, "no runtime fault")
	if panicked {
		return
	}
	verifAssert(verifAnd(-1 <= r, r < n-1), "result in [-1, n-2]")
	if r >= 0 {
		verifAssert(verifAnd(s[r] <= v, v < s[r+1]), "s[r] <= v < s[r+1]")
	}
	verifReach("end")
}

// VerifC08_NearestIdx: lowest index of an element nearest to v. v NaN gives 0;
// v=+Inf/-Inf gives the first largest/smallest element.
func VerifC08_NearestIdx() {
	n := verifChoose("n", 0, verifParam("nearn", 4))
	s := verifFloats("s", n)
	v := verifFloat("v")
	s0 := verifC08copy(s)
	var r int
	panicked, fault, msg := verifCatch(func() { r = NearestIdx(s, v) })
	verifAssert(!fault, "no runtime fault")
	verifAssert(panicked == (n == 0), "panics iff zero length")
	if panicked {
		verifAssert(msg == zeroLength, "documented panic message")
		return
	}
	verifC08unchanged(s, s0, "input untouched")
	verifAssert(verifAnd(0 <= r, r < n), "index in range")
	if verifC08nan(v) {
		verifAssert(r == 0, "NaN v gives 0")
		verifReach("nan")
		return
	}
	if math.IsInf(v, 0) {
		up := v > 0
		anyNum := false
		for i := 0; i < n; i++ {
			anyNum = verifOr(anyNum, verifNot(verifC08nan(s[i])))
		}
		verifAssert(verifImplies(anyNum, verifNot(verifC08nan(s[r]))), "a NaN is not selected when a number exists")
		for i := 0; i < n; i++ {
			num := verifNot(verifC08nan(s[i]))
			if up {
				verifAssert(verifImplies(num, s[i] <= s[r]), "+Inf: largest element")
				verifAssert(verifImplies(verifAnd(num, i < r), s[i] < s[r]), "+Inf: first largest")
			} else {
				verifAssert(verifImplies(num, s[i] >= s[r]), "-Inf: smallest element")
				verifAssert(verifImplies(verifAnd(num, i < r), s[i] > s[r]), "-Inf: first smallest")
			}
		}
		verifReach("inf")
		return
	}
	// finite v. The distances d[i] = |v - s[i]| are taken as opaque values
	// (the subtraction is uninterpreted in model F, so the statement holds for
	// every subtraction function, in particular the IEEE one): r is the
	// lowest index of a smallest non-NaN distance.
	dr := math.Abs(v - s[r])
	anyNum := false
	for i := 0; i < n; i++ {
		anyNum = verifOr(anyNum, verifNot(verifC08nan(math.Abs(v-s[i]))))
	}
	verifAssert(verifImplies(anyNum, verifNot(verifC08nan(dr))), "an element at NaN distance is not selected when another exists")
	for i := 0; i < n; i++ {
		di := math.Abs(v - s[i])
		num := verifNot(verifC08nan(di))
		verifAssert(verifImplies(num, dr <= di), "s[r] is nearest")
		verifAssert(verifImplies(verifAnd(num, i < r), dr < di), "lowest index among the nearest")
	}
	verifReach("end")
}

// VerifC08_FindCount: Find returns the indices of the first k matches (all for
// k<0) and an error iff k>0 and fewer than k match; Count counts matches.
func VerifC08_FindCount() {
	n := verifChoose("n", 0, verifParam("maxn", 5))
	k := verifChoose("k", -1, n+1)
	s := verifFloats("s", n)
	thr := verifFloat("thr")
	f := func(x float64) bool { return x > thr }
	s0 := verifC08copy(s)
	pre := verifChoose("pre", 0, 1) // 0: nil inds, 1: non-empty inds with spare capacity
	var inds []int
	if pre == 1 {
		inds = make([]int, 2, n+2)
		inds[0], inds[1] = 77, 78
	}
	got, err := Find(inds, f, s, k)
	cnt := Count(f, s)
	verifC08unchanged(s, s0, "input untouched")
	// oracle: rank[i] = number of matches before i
	total := 0
	for i := 0; i < n; i++ {
		if f(s[i]) {
			total++
		}
	}
	verifAssert(cnt == total, "Count = number of matches")
	wantLen := total
	if k >= 0 && k < total {
		wantLen = k
	}
	verifAssert(len(got) == wantLen, "number of indices returned")
	verifAssert((err != nil) == (k > 0 && total < k), "error iff k>0 and fewer than k matches")
	prev := -1
	for j := 0; j < len(got); j++ {
		verifAssert(got[j] > prev && got[j] < n, "indices strictly increasing and in range")
		verifAssert(f(s[got[j]]), "returned index matches")
		for i := prev + 1; i < got[j]; i++ {
			verifAssert(!f(s[i]), "no match skipped")
		}
		prev = got[j]
	}
	if k < 0 {
		for i := prev + 1; i < n; i++ {
			verifAssert(!f(s[i]), "no match skipped at the tail")
		}
	}
	verifReach("end")
}

// VerifC08_Predicates: HasNaN, Equal, Same, EqualFunc, EqualLengths.
func VerifC08_Predicates() {
	maxn := verifParam("maxn", 5)
	n := verifChoose("n", 0, maxn)
	m := n
	if verifChoose("difflen", 0, 1) == 1 {
		m = verifChoose("m", 0, maxn)
	}
	s := verifFloats("s", n)
	t := verifFloats("t", m)
	s0, t0 := verifC08copy(s), verifC08copy(t)
	verifMerge(true)
	hasNaN := HasNaN(s)
	eq := Equal(s, t)
	same := Same(s, t)
	eqf := EqualFunc(s, t, func(a, b float64) bool { return a <= b })
	eql := EqualLengths(s, t)
	verifMerge(false)
	verifC08unchanged(s, s0, "input untouched")
	verifC08unchanged(t, t0, "input untouched")
	verifAssert(eql == (n == m), "EqualLengths")
	verifAssert(EqualLengths(), "EqualLengths of nothing")
	wantNaN := false
	for i := 0; i < n; i++ {
		wantNaN = verifOr(wantNaN, verifC08nan(s[i]))
	}
	verifAssert(verifIff(hasNaN, wantNaN), "HasNaN iff some element is NaN")
	if n != m {
		verifAssert(!eq, "Equal: different lengths")
		verifAssert(!same, "Same: different lengths")
		verifAssert(!eqf, "EqualFunc: different lengths")
		verifReach("difflen")
		return
	}
	wantEq, wantSame, wantF := true, true, true
	for i := 0; i < n; i++ {
		wantEq = verifAnd(wantEq, s[i] == t[i])
		wantSame = verifAnd(wantSame, verifOr(s[i] == t[i], verifAnd(verifC08nan(s[i]), verifC08nan(t[i]))))
		wantF = verifAnd(wantF, s[i] <= t[i])
	}
	verifAssert(verifIff(eq, wantEq), "Equal iff all elements numerically identical")
	verifAssert(verifIff(same, wantSame), "Same iff all elements equal or both NaN")
	verifAssert(verifIff(eqf, wantF), "EqualFunc iff f holds for all pairs")
	verifReach("end")
}

// VerifC08_Argsort: Argsort / ArgsortStable through the real sort package.
// inds is a permutation with dst[i] = orig[inds[i]] (bit level, any values);
// for NaN-free input dst is ascending; the stable variant keeps the order of
// equal elements.
func VerifC08_Argsort() {
	n := verifChoose("n", 0, verifParam("sortn", 4))
	stable := verifChoose("stable", 0, 1) == 1
	nanfree := verifChoose("nanfree", 0, 1) == 1
	s := verifFloats("s", n)
	if nanfree {
		for i := range s {
			verifAssume(verifNot(verifC08nan(s[i])))
		}
	}
	s0 := verifC08copy(s)
	inds := make([]int, n)
	if stable {
		ArgsortStable(s, inds)
	} else {
		Argsort(s, inds)
	}
	seen := make([]bool, n)
	for i := 0; i < n; i++ {
		j := inds[i]
		verifAssert(verifAnd(0 <= j, j < n), "inds in range")
		j = verifConcrete(j)
		verifAssert(!seen[j], "inds is a permutation")
		seen[j] = true
		verifAssert(verifSame(s[i], s0[j]), "dst[i] = orig[inds[i]]")
	}
	if nanfree {
		for i := 1; i < n; i++ {
			verifAssert(s[i-1] <= s[i], "dst ascending")
			if stable {
				verifAssert(verifImplies(s[i-1] == s[i], inds[i-1] < inds[i]), "stable: equal elements keep their order")
			}
		}
	}
	verifReach("end")
}

// VerifC08_ArgsortLenPanic: mismatched lengths panic.
func VerifC08_ArgsortLenPanic() {
	n := verifChoose("n", 0, 3)
	m := verifChoose("m", 0, 3)
	stable := verifChoose("stable", 0, 1) == 1
	s := verifFloats("s", n)
	inds := make([]int, m)
	panicked, fault, msg := verifCatch(func() {
		if stable {
			ArgsortStable(s, inds)
		} else {
			Argsort(s, inds)
		}
	})
	verifAssert(!fault, "no runtime fault")
	verifAssert(panicked == (n != m), "panics iff lengths differ")
	if panicked {
		verifAssert(msg == badDstLength, "documented message")
	}
	verifReach("end")
}

// VerifC08_SpanSpecial: Span's first element is l and last is u (bit level)
// whenever l or u is NaN or infinite, the interior follows the special-case
// table in the code comments, and n<2 panics.
func VerifC08_SpanSpecial() {
	n := verifChoose("n", 0, verifParam("spann", 5))
	l := verifFloat("l")
	u := verifFloat("u")
	back := verifFloats("d", n+2)
	back0 := verifC08copy(back)
	d := back[1 : n+1 : n+1]
	special := verifOr(verifOr(verifC08nan(l), verifC08nan(u)), verifOr(math.IsInf(l, 0), math.IsInf(u, 0)))
	verifAssume(special)
	var ret []float64
	panicked, fault, msg := verifCatch(func() { ret = Span(d, l, u) })
	verifAssert(!fault, "no runtime fault")
	verifAssert(panicked == (n < 2), "panics iff n < 2")
	verifC08outside(back, back0, 1, n, "cells outside dst untouched")
	if panicked {
		verifAssert(msg == shortSpan, "documented message")
		verifC08unchanged(back, back0, "nothing written before the panic")
		return
	}
	verifAssert(len(ret) == n, "returns dst")
	verifAssert(verifSame(d[0], l), "first element is l")
	verifAssert(verifSame(d[n-1], u), "last element is u")
	for i := 1; i < n-1; i++ {
		x := d[i]
		switch {
		case verifC08nan(l) || verifC08nan(u):
			verifAssert(verifC08nan(x), "NaN bound: interior is NaN")
		case math.IsInf(l, 0) && math.IsInf(u, 0):
			if l == u {
				verifAssert(x == l, "equal infinite bounds: constant")
			} else if 2*i+1 < n {
				verifAssert(x == l, "opposite infinities: lower half is l")
			} else if 2*i+1 > n {
				verifAssert(x == u, "opposite infinities: upper half is u")
			} else {
				verifAssert(verifSame(x, 0), "opposite infinities: middle is 0")
			}
		case math.IsInf(l, 0):
			verifAssert(x == l, "infinite l: interior is l")
		default:
			verifAssert(x == u, "infinite u: interior is u")
		}
	}
	verifReach("end")
}

// VerifC08_NearestIdxForSpanSpecial: for NaN/Inf l, u or v the result is an
// index of a nearest element of Span(dst,l,u) in the sense of NearestIdx: the
// element it selects equals the one NearestIdx selects, or is at the same
// distance from v (ties between equally near elements are not resolved the
// same way by the two functions; the test-suite pins that). Run with fp_exact_add.
func VerifC08_NearestIdxForSpanSpecial() {
	n := verifChoose("n", 0, verifParam("spann", 5))
	l := verifFloat("l")
	u := verifFloat("u")
	v := verifFloat("v")
	special := verifOr(verifOr(verifC08nan(l), verifC08nan(u)), verifOr(math.IsInf(l, 0), math.IsInf(u, 0)))
	special = verifOr(special, verifOr(verifC08nan(v), math.IsInf(v, 0)))
	verifAssume(special)
	var r int
	panicked, fault, msg := verifCatch(func() { r = NearestIdxForSpan(n, l, u, v) })
	verifAssert(!fault, "no runtime fault")
	verifAssert(panicked == (n < 2), "panics iff n < 2")
	if panicked {
		verifAssert(msg == shortSpan, "documented message")
		return
	}
	verifAssert(verifAnd(0 <= r, r < n), "index in range")
	if verifC08nan(l) || verifC08nan(u) || math.IsInf(l, 0) || math.IsInf(u, 0) {
		sp := Span(make([]float64, n), l, u)
		r0 := NearestIdx(sp, v)
		a, b := sp[r], sp[r0]
		sameVal := verifOr(a == b, verifAnd(verifC08nan(a), verifC08nan(b)))
		da, db := math.Abs(v-a), math.Abs(v-b)
		verifAssert(verifOr(sameVal, da == db), "selects an element as near to v as NearestIdx(Span(l,u),v) does")
		verifReach("special-bounds")
		return
	}
	// finite l, u; v is NaN or infinite.
	if verifC08nan(v) {
		verifAssert(r == 0, "NaN v gives 0")
		return
	}
	// v=+Inf: index of the larger bound (0 when l>=u), v=-Inf: of the smaller bound.
	if v > 0 {
		verifAssert(r == verifIteInt(u <= l, 0, n-1), "+Inf v: end holding the larger bound")
	} else {
		verifAssert(r == verifIteInt(l <= u, 0, n-1), "-Inf v: end holding the smaller bound")
	}
	verifReach("end")
}
