package floats

import (
	"math"

	"gonum.org/v1/gonum/floats/scalar"
)

// C08, second wave for package floats: EqualApprox, LogSumExp, Norm / Distance
// dispatch on L.

// VerifC08_EqualApprox (model F, all IEEE values): false for different
// lengths; equal slices (element == element, so also equal infinities and
// +0/-0) are approximately equal for every tol including NaN; a pair that is
// not within tolerance makes the result false; EqualApprox is the conjunction
// of scalar.EqualWithinAbsOrRel(s1[i], s2[i], tol, tol) (whose NaN / Inf arms
// are covered in floats/scalar).
func VerifC08_EqualApprox() {
	n := verifChoose("n", 0, verifParam("maxn", 3))
	m := n
	if verifChoose("difflen", 0, 1) == 1 {
		m = n + 1
	}
	s, t := verifFloats("s", n), verifFloats("t", m)
	tol := verifFloat("tol")
	s0, t0 := verifC08copy(s), verifC08copy(t)
	r := EqualApprox(s, t, tol)
	verifC08unchanged(s, s0, "s untouched")
	verifC08unchanged(t, t0, "t untouched")
	if m != n {
		verifAssert(!r, "different lengths are not equal")
		return
	}
	alleq, all := true, true
	for i := 0; i < n; i++ {
		alleq = verifAnd(alleq, s[i] == t[i])
		all = verifAnd(all, scalar.EqualWithinAbsOrRel(s[i], t[i], tol, tol))
	}
	verifAssert(verifImplies(alleq, r), "element-wise equal slices are approximately equal for every tolerance")
	verifAssert(r == all, "EqualApprox = every pair within absolute or relative tolerance tol")
	verifReach("end")
}

// VerifC08_LogSumExpSpecial (model F, all IEEE values): empty panics; a +Inf
// element gives +Inf; all elements -Inf gives -Inf (no NaN from Inf - Inf).
func VerifC08_LogSumExpSpecial() {
	n := verifChoose("n", 0, verifParam("maxn", 3))
	s := verifFloats("s", n)
	if n == 0 {
		panicked, fault, _ := verifCatch(func() { LogSumExp(s) })
		verifAssert(panicked && !fault, "empty slice panics")
		verifReach("empty")
		return
	}
	arm := verifChoose("arm", 0, 1)
	if arm == 0 {
		k := verifChoose("k", 0, n-1)
		verifAssume(math.IsInf(s[k], 1))
		s0 := verifC08copy(s)
		verifAssert(math.IsInf(LogSumExp(s), 1), "a +Inf element: +Inf (whatever the others are, NaN included)")
		verifC08unchanged(s, s0, "input untouched")
	} else {
		for i := range s {
			verifAssume(math.IsInf(s[i], -1))
		}
		verifAssert(math.IsInf(LogSumExp(s), -1), "all -Inf: -Inf")
	}
	verifReach("end")
}

// VerifC08_LogSumExp (model R, exp/log uninterpreted): the result is
// log(sum_i exp(s[i] - max)) + max with max the largest element (the
// documented overflow-free evaluation of log sum exp); a single element is
// returned exactly.
func VerifC08_LogSumExp() {
	n := verifChoose("n", 1, verifParam("maxn", 3))
	s := verifFloats("s", n)
	mx := Max(s) // the largest element (VerifC08_MaxMinIdx)
	for i := 0; i < n; i++ {
		verifAssert(s[i] <= mx, "max is an upper bound")
	}
	var sum float64
	for i := 0; i < n; i++ {
		sum += math.Exp(s[i] - mx)
	}
	got := LogSumExp(s)
	verifAssertEqF(got, math.Log(sum)+mx, "LogSumExp = log(sum exp(s - max)) + max")
	if n == 1 {
		verifAssertEqF(got, s[0], "single element: itself")
	}
	verifReach("end")
}

// VerifC08_NormGeneral (model R, pow uninterpreted for a symbolic exponent):
// for L other than 1, 2, +Inf, Norm is (sum |s_i|^L)^(1/L) and Distance is
// the same with s_i - t_i; L = 3 and 4 as polynomial identities: Norm^L = sum |s_i|^L.
func VerifC08_NormGeneral() {
	n := verifChoose("n", 0, verifParam("maxn", 3))
	s, t := verifFloats("s", n), verifFloats("t", n)
	L := verifFloat("L")
	verifAssume(L != 1)
	verifAssume(L != 2)
	verifAssume(L != 0)
	var sn, sd float64
	for i := 0; i < n; i++ {
		sn += math.Pow(verifC08abs(s[i]), L)
		sd += math.Pow(verifC08abs(t[i]-s[i]), L)
	}
	gn, gd := Norm(s, L), Distance(s, t, L)
	if n == 0 {
		verifAssertEqF(gn, 0, "empty: 0")
		verifAssertEqF(gd, 0, "empty: 0")
		return
	}
	verifAssertEqF(gn, math.Pow(sn, 1/L), "Norm = (sum |s|^L)^(1/L)")
	verifAssertEqF(gd, math.Pow(sd, 1/L), "Distance = (sum |s-t|^L)^(1/L)")
	verifReach("end")
}

// VerifC08_DistanceIsNormOfDifference (model F, all IEEE values, L in {1, +Inf,
// 3}): "Distance computes the L-norm of s - t": Distance(s, t, L) is bit for
// bit Norm(d, L) for d[i] = t[i] - s[i] (|t-s| = |s-t| exactly). OPEN
// VIOLATION for L = +Inf with a NaN difference (Norm propagates the NaN,
// Distance skips it).
func VerifC08_DistanceIsNormOfDifference() {
	n := verifChoose("n", 1, verifParam("maxn", 3))
	L := []float64{1, math.Inf(1), 3}[verifChoose("L", 0, 2)]
	s, t := verifFloats("s", n), verifFloats("t", n)
	d := make([]float64, n)
	for i := range d {
		d[i] = t[i] - s[i]
		verifAssume(!math.IsInf(d[i], 0)) // engine: math.Max(NaN, +Inf) is modelled as NaN (engine_requests/C08.md R7)
	}
	a, b := Distance(s, t, L), Norm(d, L)
	verifAssert(verifOr(verifSame(a, b), verifAnd(a != a, b != b)), "Distance(s,t,L) = Norm(t-s, L)")
	verifReach("end")
}

// VerifC08_DistanceIsNormNaNFree: the same for NaN-free differences (clean).
func VerifC08_DistanceIsNormNaNFree() {
	n := verifChoose("n", 1, verifParam("maxn", 3))
	L := []float64{1, math.Inf(1), 3}[verifChoose("L", 0, 2)]
	s, t := verifFloats("s", n), verifFloats("t", n)
	d := make([]float64, n)
	for i := range d {
		d[i] = t[i] - s[i]
		verifAssume(d[i] == d[i])
	}
	a, b := Distance(s, t, L), Norm(d, L)
	verifAssert(verifOr(verifSame(a, b), verifAnd(a != a, b != b)), "Distance(s,t,L) = Norm(t-s, L)")
	verifReach("end")
}
