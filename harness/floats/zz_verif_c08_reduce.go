package floats

import "math"

// C08 group 1, reductions, model R (exact real arithmetic): the value returned
// is exactly the mathematical sum / product / maximum (rounding is outside).

func verifC08abs(x float64) float64 {
	if x < 0 {
		return -x
	}
	return x
}

// VerifC08_Reductions: Sum, SumCompensated, Prod, Dot, Norm(1), Norm(inf),
// Distance(1), Distance(inf) on a window of a larger backing; inputs untouched.
func VerifC08_Reductions() {
	n := verifChoose("n", 0, verifParam("maxn", 5))
	fn := verifChoose("fn", 0, 7)
	sb, s, _ := verifC08win("s", n)
	tb, t, _ := verifC08win("t", n)
	sb0, tb0 := verifC08copy(sb), verifC08copy(tb)
	var got float64
	switch fn {
	case 0:
		got = Sum(s)
	case 1:
		got = SumCompensated(s)
	case 2:
		got = Prod(s)
	case 3:
		got = Dot(s, t)
	case 4:
		got = Norm(s, 1)
	case 5:
		got = Norm(s, math.Inf(1))
	case 6:
		got = Distance(s, t, 1)
	case 7:
		got = Distance(s, t, math.Inf(1))
	}
	verifC08unchanged(sb, sb0, "input untouched")
	verifC08unchanged(tb, tb0, "input untouched")
	switch fn {
	case 0, 1:
		want := 0.0
		for i := 0; i < n; i++ {
			want += s[i]
		}
		verifAssertEqF(got, want, "sum of the elements")
	case 2:
		want := 1.0
		for i := 0; i < n; i++ {
			want *= s[i]
		}
		verifAssertEqF(got, want, "product of the elements (1 when empty)")
	case 3:
		want := 0.0
		for i := 0; i < n; i++ {
			want += s[i] * t[i]
		}
		verifAssertEqF(got, want, "dot product")
	case 4, 6:
		want := 0.0
		for i := 0; i < n; i++ {
			if fn == 4 {
				want += verifAbsF(s[i])
			} else {
				want += verifAbsF(s[i] - t[i])
			}
		}
		verifAssertEqF(got, want, "sum of absolute values")
	case 5, 7:
		// got is the maximum: an upper bound that is attained (0 when empty).
		attained := n == 0 && got == 0
		for i := 0; i < n; i++ {
			a := verifAbsF(s[i])
			if fn == 7 {
				a = verifAbsF(s[i] - t[i])
			}
			verifAssert(got >= a, "upper bound of the absolute values")
			attained = verifOr(attained, got == a)
		}
		verifAssert(attained, "maximum is attained")
	}
	verifReach("end")
}

// VerifC08_Norm2: Norm(s,2) and Distance(s,t,2) (scaled accumulation) return
// r >= 0 with r*r equal to the exact sum of squares.
func VerifC08_Norm2() {
	dist := verifChoose("dist", 0, 1) == 1
	maxn := verifParam("norm2n", 2)
	if dist {
		maxn = verifParam("dist2n", 2)
	}
	n := verifChoose("n", 0, maxn)
	s := verifFloats("s", n+2)[1 : n+1]
	t := verifFloats("t", n+2)[1 : n+1]
	var got, want float64
	if dist {
		got = Distance(s, t, 2)
		for i := 0; i < n; i++ {
			want += (s[i] - t[i]) * (s[i] - t[i])
		}
	} else {
		got = Norm(s, 2)
		for i := 0; i < n; i++ {
			want += s[i] * s[i]
		}
	}
	verifAssert(got >= 0, "norm is non-negative")
	verifAssertEqF(got*got, want, "norm squared is the sum of squares")
	verifReach("end")
}

// VerifC08_DistanceLenPanic: Distance panics iff the lengths differ.
func VerifC08_DistanceLenPanic() {
	n := verifChoose("n", 0, 3)
	m := verifChoose("m", 0, 3)
	L := []float64{1, 2, math.Inf(1), 3}[verifChoose("L", 0, 3)]
	s := verifFloats("s", n)
	t := verifFloats("t", m)
	if n == m && L == 3 {
		return // general L goes through math.Pow
	}
	panicked, fault, msg := verifCatch(func() { Distance(s, t, L) })
	verifAssert(!fault, "no runtime fault")
	verifAssert(panicked == (n != m), "panics iff lengths differ")
	if panicked {
		verifAssert(msg == badLength, "documented message")
	}
	verifReach("end")
}

// VerifC08_SpanGeneric: for finite l, u Span gives dst[0]=l, dst[n-1]=u and
// equal spacing dst[i] = l + i*(u-l)/(n-1) (exact arithmetic).
func VerifC08_SpanGeneric() {
	n := verifChoose("n", 2, verifParam("spann", 5))
	l := verifFloat("l")
	u := verifFloat("u")
	back := verifFloats("d", n+2)
	back0 := verifC08copy(back)
	d := back[1 : n+1 : n+1]
	ret := Span(d, l, u)
	verifAssert(len(ret) == n, "returns dst")
	verifC08outside(back, back0, 1, n, "cells outside dst untouched")
	verifAssertEqF(d[0], l, "first element is l")
	verifAssertEqF(d[n-1], u, "last element is u")
	for i := 0; i < n; i++ {
		verifAssertEqF(d[i]*float64(n-1), l*float64(n-1)+float64(i)*(u-l), "equally spaced")
	}
	verifReach("end")
}

// VerifC08_NearestIdxForSpanInterior (model R): for finite l != u and v strictly
// between them, NearestIdxForSpan(n,l,u,v) is an index of an element of
// Span(dst,l,u) nearest to v (the documented equivalence with
// NearestIdx(Span(...)); exact halfway points may resolve to either neighbour,
// as the code comment says).
func VerifC08_NearestIdxForSpanInterior() {
	n := verifChoose("n", 2, verifParam("spann", 5))
	l, u, v := verifFloat("l"), verifFloat("u"), verifFloat("v")
	verifAssume(l != u)
	verifAssume(verifOr(verifAnd(l < v, v < u), verifAnd(u < v, v < l)))
	r := NearestIdxForSpan(n, l, u, v)
	verifAssert(verifAnd(0 <= r, r < n), "index in range")
	sp := Span(make([]float64, n), l, u)
	r0 := NearestIdx(sp, v)
	r = verifConcrete(r)
	r0 = verifConcrete(r0)
	verifAssertEqF(verifAbsF(v-sp[r]), verifAbsF(v-sp[r0]), "selects an element as near to v as NearestIdx(Span(l,u),v)")
	verifReach("end")
}
