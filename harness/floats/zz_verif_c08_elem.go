package floats

// C08 group 1: element-wise and cumulative primitives of package floats equal
// their one-line scalar definitions; cells outside the addressed window are
// untouched; dst may alias a source.
//
// The harnesses are run in model F (arithmetic uninterpreted: result cell must
// be bit-identical to one of the IEEE-equivalent spellings of the scalar
// definition, e.g. dst+s, s+dst, 1*s+dst) and in model R (exact equality with
// the plain definition).

// verifC08win returns a symbolic backing of off+n+1 cells and the window
// back[off:off+n] (capacity clipped) for a case-split start offset.
func verifC08win(name string, n int) (back, win []float64, off int) {
	off = verifChoose(name+"off", 0, verifParam("maxoff", 1))
	back = verifFloats(name, off+n+1)
	win = back[off : off+n : off+n]
	return back, win, off
}

func verifC08copy(s []float64) []float64 { return append([]float64(nil), s...) }

// verifC08outside asserts that the cells of back outside [off,off+n) are bit-identical to back0.
func verifC08outside(back, back0 []float64, off, n int, msg string) {
	for i := range back {
		if i >= off && i < off+n {
			continue
		}
		verifAssert(verifSame(back[i], back0[i]), msg)
	}
}

func verifC08unchanged(back, back0 []float64, msg string) {
	for i := range back {
		verifAssert(verifSame(back[i], back0[i]), msg)
	}
}

// verifC08isSum: got is a+b in one of its IEEE-equivalent spellings.
func verifC08isSum(got, a, b float64) bool {
	r := verifSame(got, a+b)
	r = verifOr(r, verifSame(got, b+a))
	r = verifOr(r, verifSame(got, 1*a+b))
	r = verifOr(r, verifSame(got, 1*b+a))
	r = verifOr(r, verifSame(got, a+1*b))
	r = verifOr(r, verifSame(got, b+1*a))
	return r
}

// verifC08isDiff: got is a-b in one of its IEEE-equivalent spellings.
func verifC08isDiff(got, a, b float64) bool {
	r := verifSame(got, a-b)
	r = verifOr(r, verifSame(got, -1*b+a))
	r = verifOr(r, verifSame(got, a+-1*b))
	r = verifOr(r, verifSame(got, -b+a))
	r = verifOr(r, verifSame(got, a+-b))
	return r
}

// verifC08isAxpy: got is y + alpha*x.
func verifC08isAxpy(got, alpha, x, y float64) bool {
	r := verifSame(got, y+alpha*x)
	r = verifOr(r, verifSame(got, alpha*x+y))
	r = verifOr(r, verifSame(got, y+x*alpha))
	r = verifOr(r, verifSame(got, x*alpha+y))
	return r
}

func verifC08isProd(got, a, b float64) bool {
	return verifOr(verifSame(got, a*b), verifSame(got, b*a))
}

// VerifC08_FloatsAddSub: Add, AddTo, Sub, SubTo, AddScaled, AddScaledTo.
func VerifC08_FloatsAddSub() {
	n := verifChoose("n", 0, verifParam("maxn", 5))
	fn := verifChoose("fn", 0, 5)
	alias := verifChoose("alias", 0, 2) // To-variants: 0 distinct, 1 dst is s, 2 dst is t
	sb, s, so := verifC08win("s", n)
	tb, t, to := verifC08win("t", n)
	db, d, do := verifC08win("d", n)
	alpha := verifFloat("alpha")
	isTo := fn == 1 || fn == 3 || fn == 5
	if !isTo && alias != 0 {
		return
	}
	switch alias {
	case 1:
		db, d, do = sb, s, so
	case 2:
		db, d, do = tb, t, to
	}
	s0, t0, d0 := verifC08copy(s), verifC08copy(t), verifC08copy(d)
	sb0, tb0, db0 := verifC08copy(sb), verifC08copy(tb), verifC08copy(db)
	var ret []float64
	switch fn {
	case 0:
		Add(d, s)
	case 1:
		ret = AddTo(d, s, t)
	case 2:
		Sub(d, s)
	case 3:
		ret = SubTo(d, s, t)
	case 4:
		AddScaled(d, alpha, s)
	case 5:
		ret = AddScaledTo(d, t, alpha, s) // dst = y + alpha*s with y = t
	}
	if isTo {
		verifAssert(len(ret) == n, "To-variant returns dst")
		for i := range ret {
			verifAssert(verifSame(ret[i], d[i]), "To-variant returns dst")
		}
	}
	for i := 0; i < n; i++ {
		var ok bool
		switch fn {
		case 0:
			ok = verifC08isSum(d[i], d0[i], s0[i])
		case 1:
			ok = verifC08isSum(d[i], s0[i], t0[i])
		case 2:
			ok = verifC08isDiff(d[i], d0[i], s0[i])
		case 3:
			ok = verifC08isDiff(d[i], s0[i], t0[i])
		case 4:
			ok = verifC08isAxpy(d[i], alpha, s0[i], d0[i])
		case 5:
			ok = verifC08isAxpy(d[i], alpha, s0[i], t0[i])
		}
		verifAssert(ok, "element i equals the scalar definition")
	}
	verifC08outside(db, db0, do, n, "dst backing outside the window untouched")
	if alias != 1 {
		verifC08unchanged(sb, sb0, "source s untouched")
	}
	if alias != 2 {
		verifC08unchanged(tb, tb0, "source t untouched")
	}
	verifReach("end")
}

// VerifC08_FloatsMulDivScale: Mul, MulTo, Div, DivTo, Scale, ScaleTo, AddConst.
func VerifC08_FloatsMulDivScale() {
	verifDivZeroPrune(true) // model R: x/0 is outside the finite-real model; model F is unaffected
	n := verifChoose("n", 0, verifParam("maxn", 5))
	fn := verifChoose("fn", 0, 6)
	alias := verifChoose("alias", 0, 2)
	sb, s, so := verifC08win("s", n)
	tb, t, to := verifC08win("t", n)
	db, d, do := verifC08win("d", n)
	c := verifFloat("c")
	isTo := fn == 1 || fn == 3 || fn == 5
	if !isTo && alias != 0 {
		return
	}
	if fn == 5 && alias == 2 {
		return
	}
	switch alias {
	case 1:
		db, d, do = sb, s, so
	case 2:
		db, d, do = tb, t, to
	}
	s0, t0, d0 := verifC08copy(s), verifC08copy(t), verifC08copy(d)
	sb0, tb0, db0 := verifC08copy(sb), verifC08copy(tb), verifC08copy(db)
	var ret []float64
	switch fn {
	case 0:
		Mul(d, s)
	case 1:
		ret = MulTo(d, s, t)
	case 2:
		Div(d, s)
	case 3:
		ret = DivTo(d, s, t)
	case 4:
		Scale(c, d)
	case 5:
		ret = ScaleTo(d, c, s)
	case 6:
		AddConst(c, d)
	}
	if isTo {
		verifAssert(len(ret) == n, "To-variant returns dst")
		for i := range ret {
			verifAssert(verifSame(ret[i], d[i]), "To-variant returns dst")
		}
	}
	for i := 0; i < n; i++ {
		var ok bool
		switch fn {
		case 0:
			ok = verifC08isProd(d[i], d0[i], s0[i])
		case 1:
			ok = verifC08isProd(d[i], s0[i], t0[i])
		case 2:
			ok = verifSame(d[i], d0[i]/s0[i])
		case 3:
			ok = verifSame(d[i], s0[i]/t0[i])
		case 4:
			ok = verifC08isProd(d[i], c, d0[i])
		case 5:
			ok = verifC08isProd(d[i], c, s0[i])
		case 6:
			ok = verifOr(verifSame(d[i], d0[i]+c), verifSame(d[i], c+d0[i]))
		}
		verifAssert(ok, "element i equals the scalar definition")
	}
	verifC08outside(db, db0, do, n, "dst backing outside the window untouched")
	if alias != 1 {
		verifC08unchanged(sb, sb0, "source s untouched")
	}
	if alias != 2 {
		verifC08unchanged(tb, tb0, "source t untouched")
	}
	verifReach("end")
}

// VerifC08_FloatsCum: CumSum, CumProd (dst distinct from or identical to s), Reverse.
func VerifC08_FloatsCum() {
	n := verifChoose("n", 0, verifParam("maxn", 5))
	fn := verifChoose("fn", 0, 2)
	alias := verifChoose("alias", 0, 1)
	sb, s, so := verifC08win("s", n)
	db, d, do := verifC08win("d", n)
	if fn == 2 && alias != 0 {
		return
	}
	if alias == 1 {
		db, d, do = sb, s, so
	}
	s0 := verifC08copy(s)
	sb0, db0 := verifC08copy(sb), verifC08copy(db)
	switch fn {
	case 0, 1:
		var ret []float64
		if fn == 0 {
			ret = CumSum(d, s)
		} else {
			ret = CumProd(d, s)
		}
		verifAssert(len(ret) == n, "returns dst")
		for i := 0; i < n; i++ {
			verifAssert(verifSame(ret[i], d[i]), "returns dst")
			if i == 0 {
				verifAssert(verifSame(d[0], s0[0]), "dst[0] = s[0]")
				continue
			}
			if fn == 0 {
				verifAssert(verifOr(verifSame(d[i], d[i-1]+s0[i]), verifSame(d[i], s0[i]+d[i-1])), "dst[i] = dst[i-1] + s[i]")
			} else {
				verifAssert(verifC08isProd(d[i], d[i-1], s0[i]), "dst[i] = dst[i-1] * s[i]")
			}
		}
	case 2:
		Reverse(d)
		d0 := db0[do : do+n]
		for i := 0; i < n; i++ {
			verifAssert(verifSame(d[i], d0[n-1-i]), "Reverse: s[i] = old s[n-1-i]")
		}
	}
	verifC08outside(db, db0, do, n, "dst backing outside the window untouched")
	if alias != 1 {
		verifC08unchanged(sb, sb0, "source untouched")
	}
	verifReach("end")
}

// VerifC08_FloatsLengthPanics: every element-wise primitive panics with its
// documented message, before writing anything, when the lengths differ.
func VerifC08_FloatsLengthPanics() {
	maxn := verifParam("lenn", 3)
	fn := verifChoose("fn", 0, 13)
	three := fn == 1 || fn == 3 || fn == 5 || fn == 7 || fn == 9
	n := verifChoose("n", 0, maxn)
	m := verifChoose("m", 0, maxn)
	k := 0
	if three {
		k = verifChoose("k", 0, maxn)
	}
	d := verifFloats("d", n)
	s := verifFloats("s", m)
	t := verifFloats("t", k)
	d0 := verifC08copy(d)
	alpha := verifFloat("alpha")
	panicked, fault, msg := verifCatch(func() {
		switch fn {
		case 0:
			Add(d, s)
		case 1:
			AddTo(d, s, t)
		case 2:
			Sub(d, s)
		case 3:
			SubTo(d, s, t)
		case 4:
			AddScaled(d, alpha, s)
		case 5:
			AddScaledTo(d, s, alpha, t)
		case 6:
			Mul(d, s)
		case 7:
			MulTo(d, s, t)
		case 8:
			Div(d, s)
		case 9:
			DivTo(d, s, t)
		case 10:
			ScaleTo(d, alpha, s)
		case 11:
			CumSum(d, s)
		case 12:
			CumProd(d, s)
		case 13:
			Dot(d, s)
		}
	})
	mismatch := n != m
	if three {
		mismatch = n != m || m != k
	}
	verifAssert(!fault, "no runtime fault")
	verifAssert(panicked == mismatch, "panics iff the lengths differ")
	if panicked {
		verifAssert(msg == badLength || msg == badDstLength, "documented panic message")
		for i := range d {
			verifAssert(verifSame(d[i], d0[i]), "nothing written before the panic")
		}
	}
	verifReach("end")
}
