package multi

import (
	"gonum.org/v1/gonum/graph"
	"gonum.org/v1/gonum/graph/set/uid"
)

// One inductive step from an arbitrary valid state for the four multigraph
// types. The pre-state is written into the struct fields; queries that need
// the map-backed node iterators (Nodes, From, To) are not used; Lines /
// WeightedLines are slice backed and are checked.

var verifC12IDs = []int64{0, 3, -2}

const verifC12Outside int64 = 42

// line IDs that may be live in the pre-state, and one that never is.
var verifC12LIDs = []int64{0, 1}

const verifC12NoLine int64 = 5

type verifC12Model struct {
	ids     []int64
	present []bool
	// line[i][j][k]: a line with ID verifC12LIDs[k] (k<2) or the new line (k==2) from i to j
	line [][][3]bool
	w    [][][3]float64
	lid  [3]int64
}

type verifC12View struct {
	kind               int
	directed, weighted bool
	g                  interface {
		graph.Multigraph
		graph.NodeAdder
		graph.NodeRemover
		graph.LineRemover
	}
	rawNode  func(id int64)
	rawLine  func(u, v, id int64, w float64)
	rawLIDs  func(u, v int64) *uid.Set // make sure the pair has a line ID set
	hasLIDs  func(u, v int64) bool     // the pair has a line ID set
	useNode  func(id int64)
	fwd      func(u, v, id int64) bool
	rev      func(u, v, id int64) bool // line u->v recorded in the reverse adjacency (at v)
	nFwd     func(u int64) int         // number of adjacency keys of u (forward)
	nRev     func(u int64) int
	nNodes   func() int
	newLine  func(u, v int64) int64
	setLine  func(u, v, id int64, w float64)
	lines    func(u, v int64) (ids []int64, ws []float64, lenOK bool)
	weightOf func(u, v int64) (float64, bool)
}

func verifC12Norm(directed bool, u, v int64) (int64, int64) {
	if !directed && v < u {
		return v, u
	}
	return u, v
}

func verifC12Drain(it graph.Lines) (ids []int64, lenOK bool) {
	lenOK = true
	n := it.Len()
	k := 0
	for it.Next() {
		k++
		ids = append(ids, it.Line().ID())
		if it.Len() != n-k {
			lenOK = false
		}
	}
	if k != n {
		lenOK = false
	}
	return ids, lenOK
}

func verifC12DrainW(it graph.WeightedLines) (ids []int64, ws []float64, lenOK bool) {
	lenOK = true
	n := it.Len()
	k := 0
	for it.Next() {
		k++
		ids = append(ids, it.WeightedLine().ID())
		ws = append(ws, it.WeightedLine().Weight())
		if it.Len() != n-k {
			lenOK = false
		}
	}
	if k != n {
		lenOK = false
	}
	return ids, ws, lenOK
}

func verifC12NewView(kind int) *verifC12View {
	v := &verifC12View{kind: kind, directed: kind == 0 || kind == 2, weighted: kind >= 2}
	lidSet := func(m map[int64]map[int64]*uid.Set, a, b int64) *uid.Set {
		a, b = verifC12Norm(v.directed, a, b)
		if m[a] == nil {
			m[a] = make(map[int64]*uid.Set)
		}
		if m[a][b] == nil {
			m[a][b] = uid.NewSet()
		}
		return m[a][b]
	}
	switch kind {
	case 0:
		g := NewDirectedGraph()
		v.g = g
		v.rawNode = func(id int64) { g.nodes[id] = Node(id) }
		v.useNode = g.nodeIDs.Use
		v.rawLIDs = func(a, b int64) *uid.Set { return lidSet(g.lineIDs, a, b) }
		v.hasLIDs = func(a, b int64) bool {
			a, b = verifC12Norm(v.directed, a, b)
			return g.lineIDs[a][b] != nil
		}
		v.rawLine = func(a, b, id int64, w float64) {
			l := Line{F: Node(a), T: Node(b), UID: id}
			if g.from[a] == nil {
				g.from[a] = make(map[int64]map[int64]graph.Line)
			}
			if g.from[a][b] == nil {
				g.from[a][b] = make(map[int64]graph.Line)
			}
			if g.to[b] == nil {
				g.to[b] = make(map[int64]map[int64]graph.Line)
			}
			if g.to[b][a] == nil {
				g.to[b][a] = make(map[int64]graph.Line)
			}
			g.from[a][b][id] = l
			g.to[b][a][id] = l
			lidSet(g.lineIDs, a, b).Use(id)
		}
		v.fwd = func(a, b, id int64) bool { _, ok := g.from[a][b][id]; return ok }
		v.rev = func(a, b, id int64) bool { _, ok := g.to[b][a][id]; return ok }
		v.nFwd = func(a int64) int { return len(g.from[a]) }
		v.nRev = func(a int64) int { return len(g.to[a]) }
		v.nNodes = func() int { return len(g.nodes) }
		v.newLine = func(a, b int64) int64 { return g.NewLine(Node(a), Node(b)).ID() }
		v.setLine = func(a, b, id int64, w float64) { g.SetLine(Line{F: Node(a), T: Node(b), UID: id}) }
		v.lines = func(a, b int64) ([]int64, []float64, bool) {
			ids, ok := verifC12Drain(g.Lines(a, b))
			return ids, nil, ok
		}
	case 1:
		g := NewUndirectedGraph()
		v.g = g
		v.rawNode = func(id int64) { g.nodes[id] = Node(id) }
		v.useNode = g.nodeIDs.Use
		v.rawLIDs = func(a, b int64) *uid.Set { return lidSet(g.lineIDs, a, b) }
		v.hasLIDs = func(a, b int64) bool {
			a, b = verifC12Norm(v.directed, a, b)
			return g.lineIDs[a][b] != nil
		}
		v.rawLine = func(a, b, id int64, w float64) {
			l := Line{F: Node(a), T: Node(b), UID: id}
			for _, p := range [][2]int64{{a, b}, {b, a}} {
				if g.lines[p[0]] == nil {
					g.lines[p[0]] = make(map[int64]map[int64]graph.Line)
				}
				if g.lines[p[0]][p[1]] == nil {
					g.lines[p[0]][p[1]] = make(map[int64]graph.Line)
				}
				g.lines[p[0]][p[1]][id] = l
			}
			lidSet(g.lineIDs, a, b).Use(id)
		}
		v.fwd = func(a, b, id int64) bool { _, ok := g.lines[a][b][id]; return ok }
		v.rev = func(a, b, id int64) bool { _, ok := g.lines[b][a][id]; return ok }
		v.nFwd = func(a int64) int { return len(g.lines[a]) }
		v.nRev = v.nFwd
		v.nNodes = func() int { return len(g.nodes) }
		v.newLine = func(a, b int64) int64 { return g.NewLine(Node(a), Node(b)).ID() }
		v.setLine = func(a, b, id int64, w float64) { g.SetLine(Line{F: Node(a), T: Node(b), UID: id}) }
		v.lines = func(a, b int64) ([]int64, []float64, bool) {
			ids, ok := verifC12Drain(g.Lines(a, b))
			return ids, nil, ok
		}
	case 2:
		g := NewWeightedDirectedGraph()
		v.g = g
		v.rawNode = func(id int64) { g.nodes[id] = Node(id) }
		v.useNode = g.nodeIDs.Use
		v.rawLIDs = func(a, b int64) *uid.Set { return lidSet(g.lineIDs, a, b) }
		v.hasLIDs = func(a, b int64) bool {
			a, b = verifC12Norm(v.directed, a, b)
			return g.lineIDs[a][b] != nil
		}
		v.rawLine = func(a, b, id int64, w float64) {
			l := WeightedLine{F: Node(a), T: Node(b), W: w, UID: id}
			if g.from[a] == nil {
				g.from[a] = make(map[int64]map[int64]graph.WeightedLine)
			}
			if g.from[a][b] == nil {
				g.from[a][b] = make(map[int64]graph.WeightedLine)
			}
			if g.to[b] == nil {
				g.to[b] = make(map[int64]map[int64]graph.WeightedLine)
			}
			if g.to[b][a] == nil {
				g.to[b][a] = make(map[int64]graph.WeightedLine)
			}
			g.from[a][b][id] = l
			g.to[b][a][id] = l
			lidSet(g.lineIDs, a, b).Use(id)
		}
		v.fwd = func(a, b, id int64) bool { _, ok := g.from[a][b][id]; return ok }
		v.rev = func(a, b, id int64) bool { _, ok := g.to[b][a][id]; return ok }
		v.nFwd = func(a int64) int { return len(g.from[a]) }
		v.nRev = func(a int64) int { return len(g.to[a]) }
		v.nNodes = func() int { return len(g.nodes) }
		v.newLine = func(a, b int64) int64 { return g.NewWeightedLine(Node(a), Node(b), 1).ID() }
		v.setLine = func(a, b, id int64, w float64) {
			g.SetWeightedLine(WeightedLine{F: Node(a), T: Node(b), W: w, UID: id})
		}
		v.lines = func(a, b int64) ([]int64, []float64, bool) { return verifC12DrainW(g.WeightedLines(a, b)) }
		v.weightOf = g.Weight
	default:
		g := NewWeightedUndirectedGraph()
		v.g = g
		v.rawNode = func(id int64) { g.nodes[id] = Node(id) }
		v.useNode = g.nodeIDs.Use
		v.rawLIDs = func(a, b int64) *uid.Set { return lidSet(g.lineIDs, a, b) }
		v.hasLIDs = func(a, b int64) bool {
			a, b = verifC12Norm(v.directed, a, b)
			return g.lineIDs[a][b] != nil
		}
		v.rawLine = func(a, b, id int64, w float64) {
			l := WeightedLine{F: Node(a), T: Node(b), W: w, UID: id}
			for _, p := range [][2]int64{{a, b}, {b, a}} {
				if g.lines[p[0]] == nil {
					g.lines[p[0]] = make(map[int64]map[int64]graph.WeightedLine)
				}
				if g.lines[p[0]][p[1]] == nil {
					g.lines[p[0]][p[1]] = make(map[int64]graph.WeightedLine)
				}
				g.lines[p[0]][p[1]][id] = l
			}
			lidSet(g.lineIDs, a, b).Use(id)
		}
		v.fwd = func(a, b, id int64) bool { _, ok := g.lines[a][b][id]; return ok }
		v.rev = func(a, b, id int64) bool { _, ok := g.lines[b][a][id]; return ok }
		v.nFwd = func(a int64) int { return len(g.lines[a]) }
		v.nRev = v.nFwd
		v.nNodes = func() int { return len(g.nodes) }
		v.newLine = func(a, b int64) int64 { return g.NewWeightedLine(Node(a), Node(b), 1).ID() }
		v.setLine = func(a, b, id int64, w float64) {
			g.SetWeightedLine(WeightedLine{F: Node(a), T: Node(b), W: w, UID: id})
		}
		v.lines = func(a, b int64) ([]int64, []float64, bool) { return verifC12DrainW(g.WeightedLines(a, b)) }
		v.weightOf = g.Weight
	}
	return v
}

func verifC12Name(p string, i, j, k int) string {
	return p + string(rune('0'+i)) + string(rune('0'+j)) + string(rune('0'+k))
}

// verifC12Pre: every node subset of the first n universe IDs, every set of
// lines with IDs {0,1} on every (ordered / unordered) pair of present nodes,
// and for pairs without lines either no line-ID set at all (never connected)
// or a set with a released ID (connected before).
func verifC12Pre(v *verifC12View, n int) *verifC12Model {
	m := &verifC12Model{}
	m.ids = append(m.ids, verifC12IDs[:n]...)
	m.ids = append(m.ids, verifC12Outside)
	k := len(m.ids)
	m.present = make([]bool, k)
	m.line = make([][][3]bool, k)
	m.w = make([][][3]float64, k)
	for i := range m.line {
		m.line[i] = make([][3]bool, k)
		m.w[i] = make([][3]float64, k)
	}
	m.lid = [3]int64{verifC12LIDs[0], verifC12LIDs[1], verifC12NoLine}
	for i := 0; i < n; i++ {
		if verifChoose("node", 0, 1) == 1 {
			m.present[i] = true
			v.rawNode(m.ids[i])
			v.useNode(m.ids[i])
		}
	}
	for i := 0; i < n; i++ {
		for j := 0; j < n; j++ {
			if i == j || !m.present[i] || !m.present[j] {
				continue
			}
			if !v.directed && j < i {
				continue
			}
			set := verifChoose("lines", 0, 3)
			for b := 0; b < 2; b++ {
				if set>>uint(b)&1 == 1 {
					w := 1.0
					if v.weighted {
						w = verifFloat(verifC12Name("w", i, j, b))
					}
					m.line[i][j][b], m.w[i][j][b] = true, w
					if !v.directed {
						m.line[j][i][b], m.w[j][i][b] = true, w
					}
					v.rawLine(m.ids[i], m.ids[j], verifC12LIDs[b], w)
				}
			}
			if set == 0 && verifChoose("hadline", 0, 1) == 1 {
				s := v.rawLIDs(m.ids[i], m.ids[j])
				s.Use(0)
				s.Release(0)
			}
		}
	}
	return m
}

func verifC12Post(v *verifC12View, m *verifC12Model, who string) {
	cnt := 0
	for i, id := range m.ids {
		nd := v.g.Node(id)
		verifAssert((nd != nil) == m.present[i], who+": Node(id) is non-nil iff the node is in the graph")
		if m.present[i] {
			cnt++
		}
		nf, nr := 0, 0
		for j, jd := range m.ids {
			any, anyRev := false, false
			for k := 0; k < 3; k++ {
				l := m.line[i][j][k]
				any = any || l
				anyRev = anyRev || m.line[j][i][k]
				verifAssert(v.fwd(id, jd, m.lid[k]) == l, who+": forward adjacency holds exactly the model's lines")
				verifAssert(v.rev(id, jd, m.lid[k]) == l, who+": reverse adjacency mirrors the forward adjacency")
			}
			if any {
				nf++
			}
			if anyRev {
				nr++
			}
			verifAssert(v.g.HasEdgeBetween(id, jd) == (any || anyRev), who+": HasEdgeBetween agrees with the line set")
			if dg, ok := v.g.(interface{ HasEdgeFromTo(u, v int64) bool }); ok {
				verifAssert(dg.HasEdgeFromTo(id, jd) == any, who+": HasEdgeFromTo agrees with the line set")
			}
			ids, ws, lenOK := v.lines(id, jd)
			verifAssert(lenOK, who+": Lines iterator Len counts down to zero (finding F-C12-2, fixed in fae482f)")
			seen := [3]int{}
			var sum float64
			for x, lid := range ids {
				found := false
				for k := 0; k < 3; k++ {
					if lid == m.lid[k] && m.line[i][j][k] {
						seen[k]++
						found = true
						if v.weighted {
							verifAssertEqF(ws[x], m.w[i][j][k], who+": WeightedLines carry the stored weights")
							sum += m.w[i][j][k]
						}
					}
				}
				verifAssert(found, who+": Lines yields only lines of the model")
			}
			for k := 0; k < 3; k++ {
				want := 0
				if m.line[i][j][k] {
					want = 1
				}
				verifAssert(seen[k] == want, who+": Lines yields every line exactly once")
			}
			if v.weightOf != nil {
				w, ok := v.weightOf(id, jd)
				verifAssert(ok == any, who+": Weight ok iff lines exist")
				if any {
					verifAssertEqF(w, sum, who+": Weight is the sum of the line weights (default EdgeWeightFunc)")
				}
			}
			// a freshly issued line ID is not live between the two nodes
			if m.present[i] && m.present[j] && i != j {
				nid := v.newLine(id, jd)
				for k := 0; k < 3; k++ {
					if m.line[i][j][k] {
						verifAssert(nid != m.lid[k], who+": NewLine never issues the ID of a live line between the nodes")
					}
				}
			}
		}
		verifAssert(v.nFwd(id) == nf, who+": no stray neighbour keys in the forward adjacency")
		verifAssert(v.nRev(id) == nr, who+": no stray neighbour keys in the reverse adjacency")
	}
	verifAssert(v.nNodes() == cnt, who+": node map holds exactly the model's nodes")
}

func verifC12Kind() int {
	return verifChoose("kind", verifParam("mkindlo", 0), verifParam("mkindhi", 3))
}

func verifC12Arg(m *verifC12Model, name string) (int, int64) {
	i := verifChoose(name, 0, len(m.ids)-1)
	return i, m.ids[i]
}

// VerifC12_MultiBase: the pre-states satisfy the checked relation.
func VerifC12_MultiBase() {
	v := verifC12NewView(verifC12Kind())
	m := verifC12Pre(v, verifParam("c12mn", 2))
	verifC12Post(v, m, "multi pre-state")
	verifReach("end")
}

// VerifC12_MultiSetLine: NewLine + SetLine adds exactly one line with a fresh
// ID (adding missing end points); SetLine with a live ID replaces that line.
func VerifC12_MultiSetLine() {
	v := verifC12NewView(verifC12Kind())
	m := verifC12Pre(v, verifParam("c12mn", 2))
	i, u := verifC12Arg(m, "u")
	j, w := verifC12Arg(m, "v")
	if i == j {
		return
	}
	wt := 1.0
	if v.weighted {
		wt = verifFloat("wnew")
	}
	k := verifChoose("lid", 0, 2) // 0,1: explicit ID 0/1 (add or replace); 2: ID from NewLine
	lid := m.lid[k]
	if k == 2 {
		lid = v.newLine(u, w)
		for q := 0; q < 2; q++ {
			if m.line[i][j][q] {
				verifAssert(lid != m.lid[q], "SetLine: NewLine issued a fresh ID")
			}
		}
		// the fresh ID may coincide with a non-live tracked ID
		for q := 0; q < 2; q++ {
			if lid == m.lid[q] {
				k = q
			}
		}
		m.lid[2] = lid
		if k != 2 {
			m.lid[2] = verifC12NoLine + 1
		}
	}
	panicked, _, _ := verifCatch(func() { v.setLine(u, w, lid, wt) })
	verifAssert(!panicked, "SetLine: does not panic")
	m.present[i], m.present[j] = true, true
	m.line[i][j][k], m.w[i][j][k] = true, wt
	if !v.directed {
		m.line[j][i][k], m.w[j][i][k] = true, wt
	}
	verifC12Post(v, m, "SetLine")
	verifReach("end")
}

// VerifC12_MultiRemoveLine: removes exactly that line; a no-op (no panic) when
// the line or a node does not exist. Found F-C12-3 (panic for two present
// nodes never joined by a line), fixed in /repo commit 0348ac2.
func VerifC12_MultiRemoveLine() { verifC12MultiRemoveLine(false) }

// VerifC12_MultiRemoveLineJoined: the same restricted to node pairs that are
// or were joined by a line (their line-ID set exists), or with an absent node.
func VerifC12_MultiRemoveLineJoined() { verifC12MultiRemoveLine(true) }

func verifC12MultiRemoveLine(joinedOnly bool) {
	v := verifC12NewView(verifC12Kind())
	m := verifC12Pre(v, verifParam("c12mn", 2))
	i, u := verifC12Arg(m, "u")
	j, w := verifC12Arg(m, "v")
	k := verifChoose("lid", 0, 2)
	if joinedOnly && m.present[i] && m.present[j] && !v.hasLIDs(u, w) {
		return
	}
	panicked, _, _ := verifCatch(func() { v.g.RemoveLine(u, w, m.lid[k]) })
	verifAssert(!panicked, "RemoveLine: a no-op, not a panic, when the line does not exist")
	if panicked {
		return
	}
	m.line[i][j][k] = false
	if !v.directed {
		m.line[j][i][k] = false
	}
	verifC12Post(v, m, "RemoveLine")
	verifReach("end")
}

// VerifC12_MultiRemoveNode: removes the node and exactly its incident lines;
// re-adding the ID brings nothing back.
func VerifC12_MultiRemoveNode() {
	v := verifC12NewView(verifC12Kind())
	m := verifC12Pre(v, verifParam("c12mn", 2))
	i, u := verifC12Arg(m, "u")
	v.g.RemoveNode(u)
	m.present[i] = false
	for j := range m.ids {
		m.line[i][j] = [3]bool{}
		m.line[j][i] = [3]bool{}
	}
	verifC12Post(v, m, "RemoveNode")
	panicked, _, _ := verifCatch(func() { v.g.AddNode(Node(u)) })
	verifAssert(!panicked, "RemoveNode then AddNode of the same ID does not panic")
	m.present[i] = true
	verifC12Post(v, m, "RemoveNode+AddNode")
	verifReach("end")
}

// verifC12DrainNodes checks a node iterator against the expected set: Len
// counts down, each expected node exactly once, nothing else, Reset restarts.
func verifC12DrainNodes(it graph.Nodes, m *verifC12Model, want []bool, who string) {
	n := 0
	for _, w := range want {
		if w {
			n++
		}
	}
	for round := 0; round < 2; round++ {
		seen := make([]int, len(m.ids))
		verifAssert(it.Len() == n, who+": Len before iteration is the number of elements")
		k := 0
		for it.Next() {
			k++
			verifAssert(k <= n, who+": no more elements than expected")
			if k > n {
				return
			}
			nd := it.Node()
			verifAssert(nd != nil, who+": Node is non-nil after Next returned true")
			if nd == nil {
				return
			}
			i := -1
			for j, id := range m.ids {
				if id == nd.ID() {
					i = j
				}
			}
			verifAssert(i >= 0 && want[i], who+": only expected elements are produced")
			if i >= 0 {
				seen[i]++
			}
			verifAssert(it.Len() == n-k, who+": Len is the number of remaining elements")
		}
		verifAssert(k == n, who+": every element is produced")
		for i := range seen {
			verifAssert(!want[i] || seen[i] == 1, who+": each element exactly once")
		}
		verifAssert(!it.Next(), who+": Next stays false when exhausted")
		it.Reset()
	}
}

// VerifC12_MultiIterators (build tag safe: reflect-based map iterators):
// Nodes(), From(u), To(u) of the multigraphs enumerate exactly the model's
// sets after one mutation (SetLine or RemoveNode) of an arbitrary pre-state.
func VerifC12_MultiIterators() {
	v := verifC12NewView(verifC12Kind())
	m := verifC12Pre(v, verifParam("c12mn", 2))
	if verifChoose("op", 0, 1) == 0 {
		i, u := verifC12Arg(m, "u")
		j, w := verifC12Arg(m, "v")
		if i == j {
			return
		}
		v.setLine(u, w, verifC12LIDs[1], 1)
		m.present[i], m.present[j] = true, true
		m.line[i][j][1] = true
		if !v.directed {
			m.line[j][i][1] = true
		}
	} else {
		i, u := verifC12Arg(m, "u")
		v.g.RemoveNode(u)
		m.present[i] = false
		for j := range m.ids {
			m.line[i][j] = [3]bool{}
			m.line[j][i] = [3]bool{}
		}
	}
	verifC12DrainNodes(v.g.Nodes(), m, m.present, "multi Nodes")
	for i, id := range m.ids {
		from := make([]bool, len(m.ids))
		to := make([]bool, len(m.ids))
		for j := range m.ids {
			for k := 0; k < 3; k++ {
				from[j] = from[j] || m.line[i][j][k]
				to[j] = to[j] || m.line[j][i][k]
			}
		}
		verifC12DrainNodes(v.g.From(id), m, from, "multi From")
		if dg, ok := v.g.(interface{ To(int64) graph.Nodes }); ok {
			verifC12DrainNodes(dg.To(id), m, to, "multi To")
		}
	}
	verifReach("end")
}
