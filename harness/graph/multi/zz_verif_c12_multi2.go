package multi

import (
	"gonum.org/v1/gonum/graph"
)

// C12, multigraphs, the operations and queries the first harness file leaves
// out: AddNode / NewNode steps, self-loop lines, the Edge / WeightedEdge /
// Edges / WeightedEdges views (build tag safe), custom EdgeWeightFunc, and
// short histories of NewLine+SetLine / RemoveLine / RemoveNode that reuse
// released line IDs.

// verifC12Grow tracks one more ID in the model and returns its index.
func verifC12Grow(m *verifC12Model, id int64) int {
	for i, x := range m.ids {
		if x == id {
			return i
		}
	}
	m.ids = append(m.ids, id)
	m.present = append(m.present, false)
	for i := range m.line {
		m.line[i] = append(m.line[i], [3]bool{})
		m.w[i] = append(m.w[i], [3]float64{})
	}
	m.line = append(m.line, make([][3]bool, len(m.ids)))
	m.w = append(m.w, make([][3]float64, len(m.ids)))
	return len(m.ids) - 1
}

type verifC12MNode struct {
	id    int64
	label int
}

func (n verifC12MNode) ID() int64 { return n.id }

func verifC12NewNodeFresh(v *verifC12View, m *verifC12Model, who string) graph.Node {
	var nd graph.Node
	panicked, _, _ := verifCatch(func() { nd = v.g.(interface{ NewNode() graph.Node }).NewNode() })
	verifAssert(!panicked, who+": NewNode does not panic")
	if panicked {
		return nil
	}
	for i, id := range m.ids {
		if m.present[i] {
			verifAssert(nd.ID() != id, who+": NewNode never issues the ID of a live node")
		}
	}
	return nd
}

// VerifC12_MultiAddNode: AddNode panics exactly on an ID collision and then
// leaves the multigraph unchanged; otherwise only the node set grows and the
// graph holds the given node object.
func VerifC12_MultiAddNode() {
	v := verifC12NewView(verifC12Kind())
	m := verifC12Pre(v, verifParam("c12mn", 2))
	i, id := verifC12Arg(m, "arg")
	panicked, fault, _ := verifCatch(func() { v.g.AddNode(verifC12MNode{id: id, label: 5}) })
	verifAssert(!fault, "multi AddNode: no runtime fault")
	verifAssert(panicked == m.present[i], "multi AddNode: panics iff the ID is already in the graph")
	if !m.present[i] {
		m.present[i] = true
		l, ok := v.g.Node(id).(verifC12MNode)
		verifAssert(ok && l.label == 5, "multi AddNode: the graph holds the added node object")
	} else {
		_, ok := v.g.Node(id).(Node)
		verifAssert(ok, "multi AddNode: a refused node does not replace the stored one")
	}
	verifC12Post(v, m, "multi AddNode")
	verifC12NewNodeFresh(v, m, "multi AddNode")
	verifReach("end")
}

// VerifC12_MultiNewNode: NewNode issues an ID that is not live; adding it
// grows only the node set; the next NewNode is fresh again.
func VerifC12_MultiNewNode() {
	v := verifC12NewView(verifC12Kind())
	m := verifC12Pre(v, verifParam("c12mn", 2))
	nd := verifC12NewNodeFresh(v, m, "multi NewNode")
	if nd == nil {
		return
	}
	panicked, _, _ := verifCatch(func() { v.g.AddNode(nd) })
	verifAssert(!panicked, "multi NewNode: adding the issued node does not panic")
	i := verifC12Grow(m, nd.ID())
	m.present[i] = true
	verifC12Post(v, m, "multi NewNode+AddNode")
	verifC12NewNodeFresh(v, m, "multi NewNode+AddNode")
	verifReach("end")
}

// verifC12PreLoops: verifC12Pre plus, for every present node, any set of
// self-loop lines with IDs {0,1}.
func verifC12PreLoops(v *verifC12View, n int) *verifC12Model {
	m := verifC12Pre(v, n)
	for i := 0; i < n; i++ {
		if !m.present[i] {
			continue
		}
		set := verifChoose("loops", 0, 3)
		for b := 0; b < 2; b++ {
			if set>>uint(b)&1 == 1 {
				w := 1.0
				if v.weighted {
					w = verifFloat(verifC12Name("l", i, i, b))
				}
				m.line[i][i][b], m.w[i][i][b] = true, w
				v.rawLine(m.ids[i], m.ids[i], verifC12LIDs[b], w)
			}
		}
	}
	return m
}

// VerifC12_MultiSelfLoop: multigraphs accept self-loop lines (no documented
// restriction): SetLine(u,u), RemoveLine(u,u,id), RemoveNode keep the set
// model and the mirrored maps, from pre-states that may hold self loops.
func VerifC12_MultiSelfLoop() {
	v := verifC12NewView(verifC12Kind())
	m := verifC12PreLoops(v, verifParam("c12ln", 2))
	verifC12Post(v, m, "multi pre-state with self loops")
	switch verifChoose("op", 0, 2) {
	case 0:
		i, u := verifC12Arg(m, "u")
		k := verifChoose("lid", 0, 2)
		lid := m.lid[k]
		wt := 1.0
		if v.weighted {
			wt = verifFloat("wnew")
		}
		if k == 2 {
			lid = v.newLine(u, u)
			for q := 0; q < 2; q++ {
				if m.line[i][i][q] {
					verifAssert(lid != m.lid[q], "self loop: NewLine issued an ID that is not live on the pair")
				}
				if lid == m.lid[q] {
					k = q
				}
			}
			m.lid[2] = lid
			if k != 2 {
				m.lid[2] = verifC12NoLine + 1
			}
		}
		panicked, _, _ := verifCatch(func() { v.setLine(u, u, lid, wt) })
		verifAssert(!panicked, "self loop: SetLine(u,u) does not panic")
		m.present[i] = true
		m.line[i][i][k], m.w[i][i][k] = true, wt
		verifC12Post(v, m, "SetLine(u,u)")
	case 1:
		i, u := verifC12Arg(m, "u")
		k := verifChoose("lid", 0, 2)
		panicked, _, _ := verifCatch(func() { v.g.RemoveLine(u, u, m.lid[k]) })
		verifAssert(!panicked, "self loop: RemoveLine(u,u,id) does not panic")
		m.line[i][i][k] = false
		verifC12Post(v, m, "RemoveLine(u,u)")
	default:
		i, u := verifC12Arg(m, "u")
		v.g.RemoveNode(u)
		m.present[i] = false
		for j := range m.ids {
			m.line[i][j] = [3]bool{}
			m.line[j][i] = [3]bool{}
		}
		verifC12Post(v, m, "RemoveNode (self loops)")
		panicked, _, _ := verifCatch(func() { v.g.AddNode(Node(u)) })
		verifAssert(!panicked, "self loop: RemoveNode then AddNode does not panic")
		m.present[i] = true
		verifC12Post(v, m, "RemoveNode+AddNode (self loops)")
	}
	verifReach("end")
}

// ---- Edge / Edges views (the per-edge line iterators are map backed: tag safe)

// verifC12EdgeLines drains the lines of a multi.Edge / multi.WeightedEdge and
// checks them against the model's lines from i to j.
func verifC12EdgeLines(v *verifC12View, m *verifC12Model, e graph.Edge, i, j int, wf int, who string) {
	var ids []int64
	var ws []float64
	switch e := e.(type) {
	case Edge:
		it := e.Lines
		n := it.Len()
		k := 0
		for it.Next() {
			k++
			ids = append(ids, it.Line().ID())
			ws = append(ws, 0)
			verifAssert(it.Len() == n-k, who+": the edge's line iterator counts down")
		}
		verifAssert(k == n, who+": the edge's line iterator yields Len items")
	case WeightedEdge:
		it := e.WeightedLines
		n := it.Len()
		k := 0
		for it.Next() {
			k++
			ids = append(ids, it.WeightedLine().ID())
			ws = append(ws, it.WeightedLine().Weight())
			verifAssert(it.Len() == n-k, who+": the edge's line iterator counts down")
		}
		verifAssert(k == n, who+": the edge's line iterator yields Len items")
		it.Reset()
		var sum float64
		cnt := 0
		for k := 0; k < 3; k++ {
			if m.line[i][j][k] {
				sum += m.w[i][j][k]
				cnt++
			}
		}
		if wf == 0 {
			verifAssertEqF(e.Weight(), sum, who+": edge weight is the sum of the line weights (nil EdgeWeightFunc)")
		} else {
			verifAssertEqF(e.Weight(), 2*sum+float64(cnt), who+": edge weight is computed by the graph's EdgeWeightFunc")
		}
	default:
		verifAssert(false, who+": the edge is a multi.Edge or multi.WeightedEdge")
		return
	}
	seen := [3]int{}
	for x, lid := range ids {
		found := false
		for k := 0; k < 3; k++ {
			if lid == m.lid[k] && m.line[i][j][k] {
				seen[k]++
				found = true
				if v.weighted {
					verifAssertEqF(ws[x], m.w[i][j][k], who+": the edge's lines carry the stored weights")
				}
			}
		}
		verifAssert(found, who+": the edge holds only lines of the model")
	}
	for k := 0; k < 3; k++ {
		want := 0
		if m.line[i][j][k] {
			want = 1
		}
		verifAssert(seen[k] == want, who+": the edge holds every line between its ends exactly once")
	}
}

// verifC12WF: a custom EdgeWeightFunc: 2*sum + number of lines; accepts nil,
// resets the iterator before returning (as the documentation requires).
func verifC12WF(it graph.WeightedLines) float64 {
	if it == nil {
		return 0
	}
	var s float64
	for it.Next() {
		s += 2*it.WeightedLine().Weight() + 1
	}
	it.Reset()
	return s
}

// VerifC12_MultiEdges: after one mutation of an arbitrary pre-state the edge
// views agree with the line model: Edge/WeightedEdge(u,v) non-nil iff lines
// exist, with the right ends, lines and aggregate weight; Edges() /
// WeightedEdges() hold every connected (ordered / unordered) pair exactly once;
// Weight uses the graph's EdgeWeightFunc.
func VerifC12_MultiEdges() {
	v := verifC12NewView(verifC12Kind())
	m := verifC12Pre(v, verifParam("c12mn", 2))
	wf := 0
	if v.weighted {
		wf = verifChoose("weightfunc", 0, 1)
		if wf == 1 {
			switch g := v.g.(type) {
			case *WeightedDirectedGraph:
				g.EdgeWeightFunc = verifC12WF
			case *WeightedUndirectedGraph:
				g.EdgeWeightFunc = verifC12WF
			}
		}
	}
	switch verifChoose("op", 0, 2) {
	case 0:
		i, u := verifC12Arg(m, "u")
		j, w := verifC12Arg(m, "v")
		if i == j {
			return
		}
		wt := 1.0
		if v.weighted {
			wt = verifFloat("wnew")
		}
		v.setLine(u, w, verifC12LIDs[1], wt)
		m.present[i], m.present[j] = true, true
		m.line[i][j][1], m.w[i][j][1] = true, wt
		if !v.directed {
			m.line[j][i][1], m.w[j][i][1] = true, wt
		}
	case 1:
		i, u := verifC12Arg(m, "u")
		j, w := verifC12Arg(m, "v")
		if i == j {
			return
		}
		v.g.RemoveLine(u, w, verifC12LIDs[0])
		m.line[i][j][0] = false
		if !v.directed {
			m.line[j][i][0] = false
		}
	default:
		i, u := verifC12Arg(m, "u")
		v.g.RemoveNode(u)
		m.present[i] = false
		for j := range m.ids {
			m.line[i][j] = [3]bool{}
			m.line[j][i] = [3]bool{}
		}
	}
	nEdges := 0
	for i, id := range m.ids {
		for j, jd := range m.ids {
			any := m.line[i][j][0] || m.line[i][j][1] || m.line[i][j][2]
			if any && (v.directed || i <= j) {
				nEdges++
			}
			e := v.g.(interface{ Edge(u, v int64) graph.Edge }).Edge(id, jd)
			verifAssert((e != nil) == any, "multi Edge: non-nil iff lines exist from u to v")
			if e != nil {
				verifAssert(e.From() != nil && e.To() != nil && e.From().ID() == id && e.To().ID() == jd, "multi Edge(u,v): runs from u to v")
				if any {
					verifC12EdgeLines(v, m, e, i, j, wf, "multi Edge")
				}
			}
			if v.weightOf != nil {
				w, ok := v.weightOf(id, jd)
				verifAssert(ok == any, "multi Weight: ok iff lines exist")
				if any {
					var sum float64
					cnt := 0
					for k := 0; k < 3; k++ {
						if m.line[i][j][k] {
							sum += m.w[i][j][k]
							cnt++
						}
					}
					if wf == 0 {
						verifAssertEqF(w, sum, "multi Weight: sum of the line weights (nil EdgeWeightFunc)")
					} else {
						verifAssertEqF(w, 2*sum+float64(cnt), "multi Weight: computed by the EdgeWeightFunc")
					}
				}
			}
		}
	}
	// Edges(): each connected pair exactly once
	idx := func(id int64) int {
		for i, x := range m.ids {
			if x == id {
				return i
			}
		}
		return -1
	}
	check := func(next func() graph.Edge, length func() int, reset func(), who string) {
		for round := 0; round < 2; round++ {
			cnt := make([][]int, len(m.ids))
			for i := range cnt {
				cnt[i] = make([]int, len(m.ids))
			}
			verifAssert(length() == nEdges, who+": Len is the number of connected pairs")
			k := 0
			for {
				e := next()
				if e == nil {
					break
				}
				k++
				if k > nEdges {
					verifAssert(false, who+": no more items than connected pairs")
					return
				}
				verifAssert(e.From() != nil && e.To() != nil, who+": edge ends are nodes of the graph")
				if e.From() == nil || e.To() == nil {
					return
				}
				a, b := idx(e.From().ID()), idx(e.To().ID())
				ok := a >= 0 && b >= 0 && (m.line[a][b][0] || m.line[a][b][1] || m.line[a][b][2])
				verifAssert(ok, who+": only connected pairs are produced")
				if ok {
					cnt[a][b]++
					if round == 0 {
						verifC12EdgeLines(v, m, e, a, b, wf, who)
					}
				}
				verifAssert(length() == nEdges-k, who+": Len is the number of remaining items")
			}
			verifAssert(k == nEdges, who+": every connected pair is produced")
			for a := range m.ids {
				for b := range m.ids {
					want := 0
					if m.line[a][b][0] || m.line[a][b][1] || m.line[a][b][2] {
						want = 1
					}
					if v.directed {
						verifAssert(cnt[a][b] == want, who+": every edge exactly once")
					} else if a < b {
						verifAssert(cnt[a][b]+cnt[b][a] == want, who+": every undirected edge exactly once")
					}
				}
			}
			reset()
		}
	}
	eit := v.g.(interface{ Edges() graph.Edges }).Edges()
	check(func() graph.Edge {
		if !eit.Next() {
			return nil
		}
		return eit.Edge()
	}, eit.Len, eit.Reset, "multi Edges()")
	if wg, ok := v.g.(interface {
		WeightedEdges() graph.WeightedEdges
	}); ok {
		wit := wg.WeightedEdges()
		check(func() graph.Edge {
			if !wit.Next() {
				return nil
			}
			return wit.WeightedEdge()
		}, wit.Len, wit.Reset, "multi WeightedEdges()")
	}
	verifReach("end")
}

// VerifC12_MultiLineHistory: every history of hlen operations from the empty
// multigraph over the nodes {0, 3}: NewLine+SetLine in either orientation,
// RemoveLine of a previously issued ID (live or not), RemoveNode+AddNode.
// After every step: NewLine never issues a live ID of the pair (released IDs
// may be reused), Lines enumerate exactly the live lines of the pair in both
// query orientations.
func VerifC12_MultiLineHistory() {
	v := verifC12NewView(verifC12Kind())
	const maxL = 4
	type ln struct {
		id       int64
		rev      bool // line runs 3 -> 0
		live     bool
		w        float64
		everUsed bool
	}
	var issued [maxL]ln
	n := 0
	steps := verifParam("mhlen", 3)
	for s := 0; s < steps; s++ {
		switch verifChoose("op", 0, 2) {
		case 0:
			if n == maxL {
				return
			}
			rev := verifChoose("rev", 0, 1) == 1
			a, b := int64(0), int64(3)
			if rev {
				a, b = b, a
			}
			id := v.newLine(a, b)
			for q := 0; q < n; q++ {
				if issued[q].live && (issued[q].rev == rev || !v.directed) {
					verifAssert(id != issued[q].id, "history: NewLine never issues the ID of a live line of the pair")
				}
			}
			w := 1.0
			if v.weighted {
				w = verifFloat("hw" + string(rune('0'+s)))
			}
			v.setLine(a, b, id, w)
			// a reused ID replaces the tracked dead entry
			slot := n
			for q := 0; q < n; q++ {
				if issued[q].id == id && (issued[q].rev == rev || !v.directed) {
					slot = q
				}
			}
			if slot == n {
				n++
			} else {
				verifReach("a released line ID is issued again")
			}
			issued[slot] = ln{id: id, rev: rev, live: true, w: w}
		case 1:
			if n == 0 {
				return
			}
			q := verifChoose("which", 0, n-1)
			a, b := int64(0), int64(3)
			if issued[q].rev {
				a, b = b, a
			}
			if !v.directed && verifChoose("swap", 0, 1) == 1 {
				a, b = b, a
			}
			panicked, _, _ := verifCatch(func() { v.g.RemoveLine(a, b, issued[q].id) })
			verifAssert(!panicked, "history: RemoveLine does not panic")
			issued[q].live = false
		default:
			v.g.RemoveNode(0)
			for q := 0; q < n; q++ {
				issued[q].live = false
			}
			panicked, _, _ := verifCatch(func() { v.g.AddNode(Node(0)) })
			verifAssert(!panicked, "history: re-adding a removed node does not panic")
		}
		// queries in both orientations
		for o := 0; o < 2; o++ {
			a, b := int64(0), int64(3)
			if o == 1 {
				a, b = b, a
			}
			ids, ws, lenOK := v.lines(a, b)
			verifAssert(lenOK, "history: Lines iterator Len counts down to zero")
			want := 0
			for q := 0; q < n; q++ {
				if !issued[q].live || (v.directed && issued[q].rev != (o == 1)) {
					continue
				}
				want++
				c := 0
				for x, id := range ids {
					if id == issued[q].id {
						c++
						if v.weighted {
							verifAssertEqF(ws[x], issued[q].w, "history: lines carry the stored weights")
						}
					}
				}
				verifAssert(c == 1, "history: every live line of the pair exactly once")
			}
			verifAssert(len(ids) == want, "history: Lines yields nothing but the live lines")
			anyLive := false
			for q := 0; q < n; q++ {
				anyLive = anyLive || issued[q].live
			}
			verifAssert(v.g.HasEdgeBetween(a, b) == anyLive, "history: HasEdgeBetween agrees with the live lines")
		}
	}
	verifReach("end")
}
