package graph6

import (
	"gonum.org/v1/gonum/graph"
	"gonum.org/v1/gonum/graph/iterator"
	"gonum.org/v1/gonum/graph/simple"
)

// verifC16graph is a tiny undirected graph over node ids ids[0..n) with a
// symmetric adjacency matrix adj (by index).
type verifC16graph struct {
	ids []int64
	adj [][]bool
}

func (g verifC16graph) idx(id int64) int {
	for i, v := range g.ids {
		if v == id {
			return i
		}
	}
	return -1
}

func (g verifC16graph) Node(id int64) graph.Node {
	if g.idx(id) < 0 {
		return nil
	}
	return simple.Node(id)
}

func (g verifC16graph) Nodes() graph.Nodes {
	// deliberately not in id order
	nodes := make([]graph.Node, 0, len(g.ids))
	for i := len(g.ids) - 1; i >= 0; i-- {
		nodes = append(nodes, simple.Node(g.ids[i]))
	}
	return iterator.NewOrderedNodes(nodes)
}

func (g verifC16graph) From(id int64) graph.Nodes {
	i := g.idx(id)
	if i < 0 {
		return graph.Empty
	}
	var nodes []graph.Node
	for j := range g.ids {
		if g.adj[i][j] {
			nodes = append(nodes, simple.Node(g.ids[j]))
		}
	}
	if len(nodes) == 0 {
		return graph.Empty
	}
	return iterator.NewOrderedNodes(nodes)
}

func (g verifC16graph) HasEdgeBetween(x, y int64) bool {
	i, j := g.idx(x), g.idx(y)
	return i >= 0 && j >= 0 && g.adj[i][j]
}

func (g verifC16graph) Edge(u, v int64) graph.Edge {
	if !g.HasEdgeBetween(u, v) {
		return nil
	}
	return simple.Edge{F: simple.Node(u), T: simple.Node(v)}
}

// verifC16hdr returns the documented meaning of the size header of s, and the
// header length, or n=-1 if the bytes are not a well-formed graph6 header.
func verifC16hdr(s string) (n int64, hl int) {
	if len(s) < 1 {
		return -1, 0
	}
	if s[0] != 126 {
		return int64(s[0]) - 63, 1
	}
	if len(s) < 4 {
		return -1, 0
	}
	if s[1] != 126 {
		return (int64(s[1])-63)<<12 | (int64(s[2])-63)<<6 | (int64(s[3]) - 63), 4
	}
	if len(s) < 8 {
		return -1, 0
	}
	n = 0
	for i := 2; i < 8; i++ {
		n = n<<6 | (int64(s[i]) - 63)
	}
	return n, 8
}

// VerifC16_Graph6DecodeTotal: every byte string of length 0..maxlen, arbitrary
// int64 node ids: the read API never faults or panics; invalid strings behave as
// the null graph; HasEdgeBetween is symmetric and irreflexive; Edge agrees with
// HasEdgeBetween; a valid string has the node count of its header and exactly
// the documented payload length.
func VerifC16_Graph6DecodeTotal() {
	maxLen := verifParam("g6maxlen", 8)
	L := verifChoose("len", verifParam("g6minlen", 0), maxLen)
	verifC16g6decode(L, verifString("s", L))
}

// verifC16sizeHeader is the documented encoding N(n) of a node count.
func verifC16sizeHeader(n int) []byte {
	switch {
	case n < 63:
		return []byte{byte(n) + 63}
	case n < 258048:
		return []byte{126, byte(n>>12)&63 + 63, byte(n>>6)&63 + 63, byte(n)&63 + 63}
	}
	h := []byte{126, 126}
	for sh := 30; sh >= 0; sh -= 6 {
		h = append(h, byte(n>>uint(sh))&63+63)
	}
	return h
}

// VerifC16_Graph6DecodeBig: the statement of VerifC16_Graph6DecodeTotal for the
// strings of exactly the valid length of an n node graph, n around the 1-byte /
// 4-byte header change (62, 63, 64, 70): the header bytes are fixed to the documented
// encoding of n, every payload byte is symbolic (also outside 63..126), node
// ids are arbitrary int64.
func VerifC16_Graph6DecodeBig() {
	n := []int{62, 63, 64, 70}[verifChoose("nidx", 0, 3)]
	hdr := verifC16sizeHeader(n)
	L := len(hdr) + (n*(n-1)/2+5)/6
	s := verifString("s", L)
	for i, b := range hdr {
		verifAssume(s[i] == b)
	}
	verifC16g6decode(L, s)
}

func verifC16g6decode(L int, s string) {
	g := Graph(s)
	u := verifInt64("u")
	v := verifInt64("v")

	var valid, huv, hvu, huu, euv, nodeU bool
	var nn int
	panicked, fault, _ := verifCatch(func() {
		valid = IsValid(g)
		nn = g.Nodes().Len()
		huv = g.HasEdgeBetween(u, v)
		hvu = g.HasEdgeBetween(v, u)
		huu = g.HasEdgeBetween(u, u)
		euv = g.Edge(u, v) != nil
		nodeU = g.Node(u) != nil
	})
	verifAssert(!fault, "graph6 read API: no runtime fault")
	verifAssert(!panicked, "graph6 read API: no panic")
	if panicked {
		return
	}
	verifAssert(huv == hvu, "HasEdgeBetween symmetric")
	verifAssert(!huu, "HasEdgeBetween irreflexive")
	verifAssert(euv == huv, "Edge(u,v) != nil iff HasEdgeBetween(u,v)")
	verifAssert(verifImplies(huv, verifAnd(verifAnd(0 <= u, u < int64(nn)), verifAnd(0 <= v, v < int64(nn)))), "edges only between existing nodes")
	verifAssert(nodeU == verifAnd(0 <= u, u < int64(nn)), "Node(u) exists iff 0 <= u < n")
	if !valid {
		verifAssert(nn == 0, "invalid string is the null graph: no nodes")
		verifAssert(!huv, "invalid string is the null graph: no edges")
		verifReach("invalid")
		return
	}
	verifReach("valid")
	// documented format: all bytes in 63..126, header n, payload ceil(n(n-1)/2/6) bytes
	allOK := true
	for i := 0; i < L; i++ {
		allOK = verifAnd(allOK, verifAnd(s[i] >= 63, s[i] <= 126))
	}
	verifAssert(allOK, "valid string has only bytes 63..126")
	hn, hl := verifC16hdr(s)
	verifAssert(hn >= 0, "valid string has a well formed header")
	verifAssert(int64(nn) == hn, "node count equals the header number")
	// n <= 2^36: (n*n-n)/2 is computed here in a wrap-free way for n < 2^31
	verifAssert(hn < 1<<31, "valid short string cannot claim >= 2^31 nodes")
	verifAssert(int64(L-hl) == ((hn*hn-hn)/2+5)/6, "payload length is ceil(n(n-1)/12)")
	if verifAnd(verifAnd(0 <= u, u < hn), verifAnd(0 <= v, verifAnd(v < hn, u != v))) {
		// documented bit: k = x(x-1)/2+y for x>y, big-endian in 6-bit groups
		x, y := u, v
		if x < y {
			x, y = y, x
		}
		k := int((x*x-x)/2 + y)
		bit := (s[hl+k/6]-63)&(1<<uint(5-k%6)) != 0
		verifAssert(huv == bit, "HasEdgeBetween reads the documented bit")
		verifReach("bit")
	}
	verifReach("end")
}

// VerifC16_Graph6From: for a valid string and an existing node u, iterating
// From(u) yields exactly the v with HasEdgeBetween(u,v), in increasing order,
// and Len() announces the count; never a fault.
func VerifC16_Graph6From() {
	maxLen := verifParam("g6fromlen", 4)
	L := verifChoose("len", 0, maxLen)
	s := verifString("s", L)
	g := Graph(s)
	u := verifInt64("u")
	var got []int64
	var ln int
	isNil := false
	panicked, fault, _ := verifCatch(func() {
		it := g.From(u)
		if it == nil {
			isNil = true
			return
		}
		ln = it.Len()
		for it.Next() {
			got = append(got, it.Node().ID())
		}
	})
	verifAssert(!fault, "graph6 From: no runtime fault")
	verifAssert(!panicked, "graph6 From: no panic")
	if panicked || isNil {
		return
	}
	verifAssert(ln == len(got), "From(u).Len() is the number of nodes iterated")
	n := int64(g.Nodes().Len())
	prev := int64(-1)
	for _, w := range got {
		verifAssert(verifAnd(prev < w, w < n), "From(u) yields increasing existing ids")
		verifAssert(g.HasEdgeBetween(u, w), "From(u) yields only neighbours")
		prev = w
	}
	cnt := 0
	for w := int64(0); w < n; w++ {
		if g.HasEdgeBetween(u, w) {
			cnt++
		}
	}
	verifAssert(cnt == len(got), "From(u) yields every neighbour")
	verifReach("end")
}

// VerifC16_Graph6RoundTrip: for every graph on n <= maxn nodes (adjacency bits
// symbolic, node ids 0..n-1) Graph(Encode(g)) is valid, has n nodes and exactly
// the adjacency of g; the encoding has the documented canonical form.
func VerifC16_Graph6RoundTrip() {
	maxN := verifParam("g6maxn", 4)
	n := verifChoose("n", 0, maxN)
	h := verifC16graph{ids: make([]int64, n), adj: make([][]bool, n)}
	// node ids: 0..n-1, or decreasing non-contiguous ids including negative
	// ones; rank[i] is the position of node i in id order, which is the node
	// id in the encoded graph.
	scrambled := verifChoose("scrambledids", 0, 1) == 1
	rank := make([]int64, n)
	for i := 0; i < n; i++ {
		h.ids[i] = int64(i)
		rank[i] = int64(i)
		if scrambled {
			h.ids[i] = int64(7*(n-i) - 20)
			rank[i] = int64(n - 1 - i)
		}
		h.adj[i] = make([]bool, n)
	}
	for i := 0; i < n; i++ {
		for j := 0; j < i; j++ {
			b := verifBool("e" + string(rune('0'+i)) + string(rune('0'+j)))
			h.adj[i][j] = b
			h.adj[j][i] = b
		}
	}
	var enc Graph
	panicked, fault, _ := verifCatch(func() { enc = Encode(h) })
	verifAssert(!fault, "Encode: no runtime fault")
	verifAssert(!panicked, "Encode: no panic")
	if panicked {
		return
	}
	verifAssert(IsValid(enc), "Encode produces a valid graph6 string")
	verifAssert(len(enc) == 1+(n*(n-1)/2+5)/6, "canonical length")
	verifAssert(enc.Nodes().Len() == n, "decoded node count")
	for i := 0; i < n; i++ {
		for j := 0; j < n; j++ {
			verifAssert(enc.HasEdgeBetween(rank[i], rank[j]) == (i != j && h.adj[i][j]), "decoded adjacency equals encoded adjacency")
		}
	}
	verifReach("end")
}

// VerifC16_Graph6Canonical: for a canonical string s (1 byte header, n <= maxn,
// padding bits zero) Encode(Graph(s)) == s.
func VerifC16_Graph6Canonical() {
	maxN := verifParam("g6maxn", 4)
	n := verifChoose("n", 0, maxN)
	bits := n * (n - 1) / 2
	L := 1 + (bits+5)/6
	s := verifString("s", L)
	verifAssume(s[0] == byte(63+n))
	for i := 1; i < L; i++ {
		verifAssume(verifAnd(s[i] >= 63, s[i] <= 126))
	}
	if bits%6 != 0 {
		pad := uint(6 - bits%6)
		verifAssume((s[L-1]-63)&(1<<pad-1) == 0)
	}
	g := Graph(s)
	verifAssert(IsValid(g), "canonical string is valid")
	var enc Graph
	panicked, fault, _ := verifCatch(func() { enc = Encode(g) })
	verifAssert(!fault, "Encode(Graph(s)): no runtime fault")
	verifAssert(!panicked, "Encode(Graph(s)): no panic")
	if panicked {
		return
	}
	verifAssert(len(enc) == L, "re-encoding has the same length")
	if len(enc) == L {
		same := true
		for i := 0; i < L; i++ {
			same = verifAnd(same, enc[i] == s[i])
		}
		verifAssert(same, "Encode(Graph(s)) == s for canonical s")
	}
	verifReach("end")
}

// VerifC16_Graph6EncodeHeaderChange: Encode on both sides of the 1-byte/4-byte
// size header change (n = 62, 63, 64): graphs whose only possible edges are five
// fixed pairs with symbolic presence bits (all 32 combinations). The encoding
// starts with the documented size header, has the documented length, is valid,
// and decodes to n nodes and exactly the chosen edges.
func VerifC16_Graph6EncodeHeaderChange() {
	n := verifChoose("n", 62, 64)
	h := verifC16graph{ids: make([]int64, n), adj: make([][]bool, n)}
	for i := 0; i < n; i++ {
		h.ids[i] = int64(i)
		h.adj[i] = make([]bool, n)
	}
	pairs := [][2]int{{1, 0}, {n - 1, 0}, {n - 1, n - 2}, {32, 31}, {n / 2, 5}}
	bits := make([]bool, len(pairs))
	for k, p := range pairs {
		bits[k] = verifBool("e" + string(rune('0'+k)))
		h.adj[p[0]][p[1]] = bits[k]
		h.adj[p[1]][p[0]] = bits[k]
	}
	enc := Encode(h)
	hdr := verifC16sizeHeader(n)
	verifAssert(len(enc) == len(hdr)+(n*(n-1)/2+5)/6, "documented length")
	for i, b := range hdr {
		verifAssert(enc[i] == b, "documented size header")
	}
	verifAssert(IsValid(enc), "Encode produces a valid graph6 string")
	verifAssert(enc.Nodes().Len() == n, "decoded node count")
	for k, p := range pairs {
		verifAssert(enc.HasEdgeBetween(int64(p[0]), int64(p[1])) == bits[k], "chosen pair decodes to its bit")
	}
	// number of set payload bits (every byte is 63 + a 6 bit group)
	cnt := 0
	for i := len(hdr); i < len(enc); i++ {
		for b := enc[i] - 63; b != 0; b &= b - 1 {
			cnt++
		}
	}
	want := 0
	for _, b := range bits {
		if b {
			want++
		}
	}
	verifAssert(cnt == want, "no other payload bit is set")
	verifReach("end")
}
