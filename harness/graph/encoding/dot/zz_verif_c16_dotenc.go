package dot

import (
	"strconv"

	"gonum.org/v1/gonum/graph"
	"gonum.org/v1/gonum/graph/encoding"
	"gonum.org/v1/gonum/graph/multi"
	"gonum.org/v1/gonum/graph/simple"
)

// verifC16stubs: assembly-only runtime string primitives get their defining
// loops, and fmt.Sprint of one int64 (all that nodeID uses) is strconv.FormatInt.
func verifC16stubs() {
	verifStubFunc("internal/bytealg.IndexByteString", func(s string, c byte) int {
		for i := 0; i < len(s); i++ {
			if s[i] == c {
				return i
			}
		}
		return -1
	})
	verifStubFunc("internal/bytealg.IndexByte", func(b []byte, c byte) int {
		for i := 0; i < len(b); i++ {
			if b[i] == c {
				return i
			}
		}
		return -1
	})
	verifStubFunc("internal/bytealg.CountString", func(s string, c byte) int {
		n := 0
		for i := 0; i < len(s); i++ {
			if s[i] == c {
				n++
			}
		}
		return n
	})
	verifStubFunc("fmt.Sprint", func(a ...interface{}) string {
		if len(a) != 1 {
			panic("verifC16: fmt.Sprint model takes one operand")
		}
		switch v := a[0].(type) {
		case int64:
			return strconv.FormatInt(v, 10)
		case string:
			return v
		}
		panic("verifC16: fmt.Sprint operand not modelled")
	})
}

// verifC16node is a node that records the DOT ID given by the decoder.
type verifC16node struct {
	id    int64
	dotID string
}

func (n *verifC16node) ID() int64         { return n.id }
func (n *verifC16node) DOTID() string     { return n.dotID }
func (n *verifC16node) SetDOTID(s string) { n.dotID = s }

// destination graphs whose NewNode makes DOT-aware nodes.
type verifC16undirected struct {
	*simple.UndirectedGraph
	name string
}

func (g *verifC16undirected) NewNode() graph.Node {
	return &verifC16node{id: g.UndirectedGraph.NewNode().ID()}
}
func (g *verifC16undirected) SetDOTID(s string) { g.name = s }

type verifC16directed struct {
	*simple.DirectedGraph
	name string
}

func (g *verifC16directed) NewNode() graph.Node {
	return &verifC16node{id: g.DirectedGraph.NewNode().ID()}
}
func (g *verifC16directed) SetDOTID(s string) { g.name = s }

// verifC16itoa: decimal representation, written naively.
func verifC16itoa(v int64) string {
	if v == 0 {
		return "0"
	}
	neg := v < 0
	var u uint64
	if neg {
		u = uint64(-v)
	} else {
		u = uint64(v)
	}
	s := ""
	for u > 0 {
		s = string(rune('0'+u%10)) + s
		u /= 10
	}
	if neg {
		s = "-" + s
	}
	return s
}

var verifC16ids = []int64{0, -1, 9223372036854775807, -9223372036854775808, 10, 7, 1, -12, 123, 1 << 40}

// verifC16nids: how many entries of the id table are used (tier dependent).
func verifC16nids() int {
	k := verifParam("dotidtab", len(verifC16ids))
	if k > len(verifC16ids) {
		k = len(verifC16ids)
	}
	return k
}

// verifC16find returns the decoded node with the given DOT ID.
func verifC16find(g interface{ Nodes() graph.Nodes }, dotID string) (graph.Node, int) {
	var found graph.Node
	cnt := 0
	it := g.Nodes()
	for it.Next() {
		if n, ok := it.Node().(*verifC16node); ok && n.dotID == dotID {
			found = n
			cnt++
		}
	}
	return found, cnt
}

// VerifC16_DotGraphRoundTrip: simple graphs (undirected and directed) with 0..2
// nodes whose int64 ids are drawn from a table with both extremes, 0 or 1 edge
// (either direction, self loops excluded by simple graphs): Unmarshal(Marshal(g))
// has one node per original node, named by the decimal id, the same edge set
// (direction kept), the graph name, and nothing else.
func VerifC16_DotGraphRoundTrip() {
	verifC16stubs()
	directed := verifChoose("directed", 0, 1) == 1
	n := verifChoose("n", 0, verifParam("dotnodes", 2))
	ids := make([]int64, n)
	for i := range ids {
		ids[i] = verifC16ids[verifChoose("id"+string(rune('0'+i)), 0, verifC16nids()-1)]
		for j := 0; j < i; j++ {
			if ids[j] == ids[i] {
				return // distinct ids only
			}
		}
	}
	// edge: 0 none, 1 ids[0]->ids[1], 2 ids[1]->ids[0]
	e := 0
	if n == 2 {
		e = verifChoose("edge", 0, 2)
	}
	names := []string{"", "G", "node", "a b", "1x", "-.5"}
	name := "G"
	if n < 2 {
		name = names[verifChoose("name", 0, len(names)-1)]
	}

	var src graph.Graph
	var dst interface {
		graph.Graph
		graph.Builder
	}
	var dstName *string
	if directed {
		g := simple.NewDirectedGraph()
		for _, id := range ids {
			g.AddNode(simple.Node(id))
		}
		if e == 1 {
			g.SetEdge(simple.Edge{F: simple.Node(ids[0]), T: simple.Node(ids[1])})
		} else if e == 2 {
			g.SetEdge(simple.Edge{F: simple.Node(ids[1]), T: simple.Node(ids[0])})
		}
		src = g
		d := &verifC16directed{DirectedGraph: simple.NewDirectedGraph()}
		dst, dstName = d, &d.name
	} else {
		g := simple.NewUndirectedGraph()
		for _, id := range ids {
			g.AddNode(simple.Node(id))
		}
		if e != 0 {
			g.SetEdge(simple.Edge{F: simple.Node(ids[0]), T: simple.Node(ids[1])})
		}
		src = g
		d := &verifC16undirected{UndirectedGraph: simple.NewUndirectedGraph()}
		dst, dstName = d, &d.name
	}

	var b []byte
	var err error
	panicked, fault, _ := verifCatch(func() { b, err = Marshal(src, name, "", " ") })
	verifAssert(!fault && !panicked, "Marshal: no fault or panic")
	if panicked {
		return
	}
	verifAssert(err == nil, "Marshal succeeds")
	panicked, fault, _ = verifCatch(func() { err = Unmarshal(b, dst) })
	verifAssert(!fault && !panicked, "Unmarshal: no fault or panic")
	if panicked {
		return
	}
	verifAssert(err == nil, "Unmarshal accepts what Marshal wrote")
	if err != nil {
		return
	}
	verifAssert(*dstName == name, "graph name round trips")
	verifAssert(dst.Nodes().Len() == n, "same number of nodes")
	back := make([]graph.Node, n)
	for i, id := range ids {
		var cnt int
		back[i], cnt = verifC16find(dst, verifC16itoa(id))
		verifAssert(cnt == 1, "exactly one decoded node is named by the decimal id")
		if cnt != 1 {
			return
		}
	}
	if n == 2 {
		u, v := back[0].ID(), back[1].ID()
		var fwd, bwd bool
		if directed {
			d := dst.(*verifC16directed)
			fwd, bwd = d.HasEdgeFromTo(u, v), d.HasEdgeFromTo(v, u)
			verifAssert(fwd == (e == 1) && bwd == (e == 2), "directed edge set round trips")
		} else {
			fwd = dst.HasEdgeBetween(u, v)
			verifAssert(fwd == (e != 0), "undirected edge set round trips")
		}
	}
	verifReach("end")
}

// verifC16named is a source node with an arbitrary DOT ID.
type verifC16named struct {
	id    int64
	dotID string
}

func (n verifC16named) ID() int64     { return n.id }
func (n verifC16named) DOTID() string { return n.dotID }

// verifC16quoted: s is a double-quoted string in which every quote is escaped
// and which Go can unquote; returns the content.
func verifC16quoted(s string) (string, bool) {
	if len(s) < 2 || s[0] != '"' || s[len(s)-1] != '"' {
		return "", false
	}
	t, err := strconv.Unquote(s)
	return t, err == nil
}

// verifC16norm is what an ID or attribute text s comes back as: s itself, or the
// content of s when s is a valid double-quoted string (IDs are "unquoted during
// unmarshalling if appropriate"), except that a quoted HTML-like string "<...>"
// stays quoted (decode.go unquoteID: "to make round-trips idempotent").
func verifC16norm(s string) string {
	t, ok := verifC16quoted(s)
	if !ok {
		return s
	}
	if len(s) >= 4 && s[1] == '<' && s[len(s)-2] == '>' {
		return s
	}
	return t
}

// verifC16idRoundTrip: one node whose DOT ID is s. Documented: IDs are quoted if
// needed during marshalling and unquoted during unmarshalling. So Marshal
// succeeds, its output is accepted by Unmarshal, and the decoded node is named
// s, or the content of s when s itself is a valid double-quoted string.
func verifC16idRoundTrip(s string, skipBadHTML bool) {
	if skipBadHTML && verifC16badHTML(s) {
		verifReach("skipped: ID that quoteID passes but the DOT lexer rejects (V5)")
		return
	}
	g := simple.NewUndirectedGraph()
	g.AddNode(verifC16named{id: 5, dotID: s})
	dst := &verifC16undirected{UndirectedGraph: simple.NewUndirectedGraph()}
	var b []byte
	var err error
	panicked, fault, _ := verifCatch(func() { b, err = Marshal(g, "", "", "") })
	verifAssert(!fault && !panicked, "Marshal: no fault or panic")
	if panicked {
		return
	}
	verifAssert(err == nil, "Marshal succeeds")
	panicked, fault, _ = verifCatch(func() { err = Unmarshal(b, dst) })
	verifAssert(!fault && !panicked, "Unmarshal: no fault or panic")
	if panicked {
		return
	}
	verifAssert(err == nil, "Unmarshal accepts what Marshal wrote")
	if err != nil {
		return
	}
	verifAssert(dst.Nodes().Len() == 1, "one node")
	_, cnt := verifC16find(dst, verifC16norm(s))
	verifAssert(cnt == 1, "the decoded node has the DOT ID (unquoted if it was a quoted string)")
}

// verifC16badHTML: s is taken for an ID by quoteID (written as it is) although
// the lexer of graph/formats/dot does not accept it (open violation V5):
//   - s looks like <...> but is not an HTML string as the lexer implements it:
//     '<' { chars | '<' chars '>' } '>' with chars free of NUL, '<', '>', one
//     nesting level, and (observed, stricter than internal/dot.bnf) no empty
//     tag "<>" inside;
//   - s is a double-quoted string containing a NUL byte.
func verifC16badHTML(s string) bool {
	if len(s) < 2 {
		return false
	}
	if s[0] == '"' && s[len(s)-1] == '"' {
		for i := 1; i < len(s)-1; i++ {
			if s[i] == 0 {
				return true
			}
		}
		return false
	}
	if s[0] != '<' || s[len(s)-1] != '>' {
		return false
	}
	depth := 0
	for i := 1; i < len(s)-1; i++ {
		switch s[i] {
		case 0:
			return true
		case '<':
			depth++
			if depth > 1 {
				return true
			}
		case '>':
			depth--
			if depth < 0 {
				return true
			}
			if s[i-1] == '<' {
				return true // empty tag
			}
		}
	}
	return depth != 0
}

// VerifC16_DotIDRoundTripASCII: every DOT ID of length 0..dotidfull with every
// byte symbolic in 0..127 (strings.EqualFold ranges over a string that has a
// byte >= 0x80, which the engine cannot do on symbolic strings).
func VerifC16_DotIDRoundTripASCII() {
	verifC16stubs()
	L := verifChoose("len", 0, verifParam("dotidfull", 1))
	sb := verifBytes("s", L)
	for i := range sb {
		verifAssume(sb[i] < 0x80)
	}
	verifC16idRoundTrip(string(sb), false)
	verifReach("end")
}

// verifC16pieces: quoting-hostile alphabet for DOT IDs, most hostile first.
// ASCII only: isKeyword -> strings.EqualFold -> unicode.SimpleFold reads the
// tables of package unicode, which the engine does not initialise (it loops for
// ever in the engine; engine_requests/C16.md R6).
var verifC16pieces = []string{
	"\"", "\\", "<", ">", "a", " ", "-", ".", "1", "\n", "_", "{", ";", "/", "#", "\x00", "N", "e", "+", "\t",
}

// VerifC16_DotIDRoundTrip: every DOT ID made of 0..dotid pieces from the first
// dotidalpha entries of the hostile alphabet, except strings <...> that are not
// HTML strings of the DOT grammar (see VerifC16_DotIDRoundTripHTML) (case split; the decoder keys a
// map by the ID, so IDs are concrete in the engine anyway).
func VerifC16_DotIDRoundTrip() {
	verifC16stubs()
	L := verifChoose("len", 0, verifParam("dotid", 2))
	na := verifParam("dotidalpha", len(verifC16pieces))
	s := ""
	for i := 0; i < L; i++ {
		s += verifC16pieces[verifChoose("c"+string(rune('0'+i)), 0, na-1)]
	}
	verifC16idRoundTrip(s, true)
	verifReach("end")
}

// VerifC16_DotIDRoundTripHTML: the same without the exclusion. OPEN VIOLATION
// (notes/C16_text.md V5): quoteID takes every <...> for an HTML ID, so "<<>",
// "<>>", "<a>b>", "<<>>" are written unquoted and the output is rejected by
// Unmarshal (dotid=4 for "<<>>"; dotid=3,dotidalpha=20 for the quoted NUL).
// Not part of the check spec.
func VerifC16_DotIDRoundTripHTML() {
	verifC16stubs()
	L := verifChoose("len", 0, verifParam("dotid", 3))
	na := verifParam("dotidalpha", 6)
	s := ""
	for i := 0; i < L; i++ {
		s += verifC16pieces[verifChoose("c"+string(rune('0'+i)), 0, na-1)]
	}
	verifC16idRoundTrip(s, false)
	verifReach("end")
}

// ---- attributes, ports, multigraphs ----

func verifC16piecesText(name string, maxLen, na int) string {
	L := verifChoose(name+"len", 0, maxLen)
	s := ""
	for i := 0; i < L; i++ {
		s += verifC16pieces[verifChoose(name+string(rune('0'+i)), 0, na-1)]
	}
	return s
}

// source side: node and edge with one attribute, edge with ports.
type verifC16attrNode struct {
	verifC16named
	attrs []encoding.Attribute
}

func (n verifC16attrNode) Attributes() []encoding.Attribute { return n.attrs }

type verifC16attrEdge struct {
	simple.Edge
	attrs              []encoding.Attribute
	fromPort, fromComp string
	toPort, toComp     string
}

func (e verifC16attrEdge) Attributes() []encoding.Attribute { return e.attrs }
func (e verifC16attrEdge) FromPort() (string, string)       { return e.fromPort, e.fromComp }
func (e verifC16attrEdge) ToPort() (string, string)         { return e.toPort, e.toComp }
func (e verifC16attrEdge) ReversedEdge() graph.Edge         { e.F, e.T = e.T, e.F; return e }

// destination side: records attributes and ports.
type verifC16dstNode struct {
	verifC16node
	attrs []encoding.Attribute
}

func (n *verifC16dstNode) SetAttribute(a encoding.Attribute) error {
	n.attrs = append(n.attrs, a)
	return nil
}

type verifC16dstEdge struct {
	simple.Edge
	attrs              []encoding.Attribute
	fromPort, fromComp string
	toPort, toComp     string
}

func (e *verifC16dstEdge) SetAttribute(a encoding.Attribute) error {
	e.attrs = append(e.attrs, a)
	return nil
}
func (e *verifC16dstEdge) SetFromPort(p, c string) error { e.fromPort, e.fromComp = p, c; return nil }
func (e *verifC16dstEdge) SetToPort(p, c string) error   { e.toPort, e.toComp = p, c; return nil }

type verifC16attrDirected struct {
	*simple.DirectedGraph
}

func (g verifC16attrDirected) NewNode() graph.Node {
	return &verifC16dstNode{verifC16node: verifC16node{id: g.DirectedGraph.NewNode().ID()}}
}
func (g verifC16attrDirected) NewEdge(from, to graph.Node) graph.Edge {
	return &verifC16dstEdge{Edge: simple.Edge{F: from, T: to}}
}

// VerifC16_DotAttrPortRoundTrip: directed graph a -> b; where=0: node a has one
// attribute, where=1: the edge has one attribute, where=2: the edge has ports
// (port ID from the hostile alphabet, compass point from the DOT list). Key and
// value are hostile texts. Unmarshal(Marshal(g)) gives the attribute (unquoted
// as for IDs) on the same element and nothing else, and the ports on their ends.
func VerifC16_DotAttrPortRoundTrip() {
	verifC16stubs()
	na := verifParam("dotattralpha", 8)
	maxLen := verifParam("dotattr", 2)
	where := verifChoose("where", 0, 2)
	var key, val, port, comp string
	switch where {
	case 0, 1:
		key = verifC16piecesText("k", 1, na)
		val = verifC16piecesText("v", maxLen, na)
		if key == "" {
			key = "label"
		}
	case 2:
		port = verifC16piecesText("p", maxLen, na)
		comps := []string{"", "n", "ne", "e", "se", "s", "sw", "w", "nw", "c", "_"}
		comp = comps[verifChoose("comp", 0, len(comps)-1)]
	}
	if verifC16badHTML(key) || verifC16badHTML(val) || verifC16badHTML(port) {
		verifReach("skipped: ID that quoteID passes but the DOT lexer rejects (V5)")
		return
	}
	a := verifC16attrNode{verifC16named: verifC16named{id: 1, dotID: "a"}}
	b := verifC16named{id: 2, dotID: "b"}
	e := verifC16attrEdge{Edge: simple.Edge{F: a, T: b}}
	switch where {
	case 0:
		a.attrs = []encoding.Attribute{{Key: key, Value: val}}
		e.F = a
	case 1:
		e.attrs = []encoding.Attribute{{Key: key, Value: val}}
	case 2:
		e.fromPort, e.fromComp = port, comp
		e.toComp = "sw"
	}
	g := simple.NewDirectedGraph()
	g.AddNode(a)
	g.AddNode(b)
	g.SetEdge(e)
	dst := verifC16attrDirected{simple.NewDirectedGraph()}
	var out []byte
	var err error
	panicked, fault, _ := verifCatch(func() { out, err = Marshal(g, "", "", "") })
	verifAssert(!fault && !panicked, "Marshal: no fault or panic")
	if panicked {
		return
	}
	verifAssert(err == nil, "Marshal succeeds")
	panicked, fault, _ = verifCatch(func() { err = Unmarshal(out, dst) })
	verifAssert(!fault && !panicked, "Unmarshal: no fault or panic")
	if panicked {
		return
	}
	verifAssert(err == nil, "Unmarshal accepts what Marshal wrote")
	if err != nil {
		return
	}
	verifAssert(dst.Nodes().Len() == 2, "two nodes")
	na3, ca := verifC16findDst(dst, "a")
	nb2, cb := verifC16findDst(dst, "b")
	verifAssert(ca == 1 && cb == 1, "nodes a and b are decoded once each")
	if na3 == nil || nb2 == nil {
		return
	}
	verifAssert(dst.HasEdgeFromTo(na3.id, nb2.id) && !dst.HasEdgeFromTo(nb2.id, na3.id), "edge a -> b only")
	de, ok := dst.Edge(na3.id, nb2.id).(*verifC16dstEdge)
	verifAssert(ok, "edge made by NewEdge")
	if !ok {
		return
	}
	verifAssert(len(nb2.attrs) == 0, "node b has no attributes")
	switch where {
	case 0:
		verifAssert(len(na3.attrs) == 1 && len(de.attrs) == 0, "one attribute, on node a")
		if len(na3.attrs) == 1 {
			verifAssert(na3.attrs[0].Key == verifC16norm(key) && na3.attrs[0].Value == verifC16norm(val), "node attribute round trips")
		}
	case 1:
		verifAssert(len(na3.attrs) == 0 && len(de.attrs) == 1, "one attribute, on the edge")
		if len(de.attrs) == 1 {
			verifAssert(de.attrs[0].Key == verifC16norm(key) && de.attrs[0].Value == verifC16norm(val), "edge attribute round trips")
		}
	case 2:
		verifAssert(len(na3.attrs) == 0 && len(de.attrs) == 0, "no attributes")
		verifAssert(de.toPort == "" && de.toComp == "sw", "to port round trips")
		if comp == "" && verifC16isCompass(port) {
			// DOT ambiguity, not asserted: ":e" alone is the compass point e
			verifReach("port named like a compass point")
		} else {
			verifAssert(de.fromComp == comp, "from compass point round trips")
			verifAssert(de.fromPort == verifC16norm(port), "from port round trips")
		}
	}
	verifReach("end")
}

func verifC16isCompass(s string) bool {
	switch s {
	case "n", "ne", "e", "se", "s", "sw", "w", "nw", "c", "_":
		return true
	}
	return false
}

func verifC16findDst(g graph.Graph, dotID string) (*verifC16dstNode, int) {
	var found *verifC16dstNode
	cnt := 0
	it := g.Nodes()
	for it.Next() {
		if n, ok := it.Node().(*verifC16dstNode); ok && n.dotID == dotID {
			found = n
			cnt++
		}
	}
	return found, cnt
}

// ---- multigraphs ----

type verifC16multiDirected struct {
	*multi.DirectedGraph
}

func (g verifC16multiDirected) NewNode() graph.Node {
	return &verifC16node{id: g.DirectedGraph.NewNode().ID()}
}

type verifC16multiUndirected struct {
	*multi.UndirectedGraph
}

func (g verifC16multiUndirected) NewNode() graph.Node {
	return &verifC16node{id: g.UndirectedGraph.NewNode().ID()}
}

func verifC16countLines(it graph.Lines) int {
	n := 0
	for it.Next() {
		n++
	}
	return n
}

// VerifC16_DotMultiRoundTrip: multigraphs on two nodes (ids from the table) with
// 0..dotlines parallel lines u->v and 0..1 line v->u: UnmarshalMulti(MarshalMulti(g))
// has the two nodes named by their decimal ids and the same number of lines in
// each direction (undirected: in total).
func VerifC16_DotMultiRoundTrip() {
	verifC16stubs()
	directed := verifChoose("directed", 0, 1) == 1
	iu := verifChoose("idu", 0, verifC16nids()-1)
	iv := verifChoose("idv", 0, verifC16nids()-1)
	if iu == iv {
		return
	}
	u, v := verifC16ids[iu], verifC16ids[iv]
	fw := verifChoose("fw", 0, verifParam("dotlines", 2))
	bw := verifChoose("bw", 0, 1)
	var out []byte
	var err error
	var dst encoding.MultiBuilder
	if directed {
		g := multi.NewDirectedGraph()
		g.AddNode(multi.Node(u))
		g.AddNode(multi.Node(v))
		for i := 0; i < fw; i++ {
			g.SetLine(g.NewLine(multi.Node(u), multi.Node(v)))
		}
		for i := 0; i < bw; i++ {
			g.SetLine(g.NewLine(multi.Node(v), multi.Node(u)))
		}
		panicked, fault, _ := verifCatch(func() { out, err = MarshalMulti(g, "M", "", "") })
		verifAssert(!fault && !panicked, "MarshalMulti: no fault or panic")
		if panicked {
			return
		}
		dst = verifC16multiDirected{multi.NewDirectedGraph()}
	} else {
		g := multi.NewUndirectedGraph()
		g.AddNode(multi.Node(u))
		g.AddNode(multi.Node(v))
		for i := 0; i < fw; i++ {
			g.SetLine(g.NewLine(multi.Node(u), multi.Node(v)))
		}
		for i := 0; i < bw; i++ {
			g.SetLine(g.NewLine(multi.Node(v), multi.Node(u)))
		}
		panicked, fault, _ := verifCatch(func() { out, err = MarshalMulti(g, "M", "", "") })
		verifAssert(!fault && !panicked, "MarshalMulti: no fault or panic")
		if panicked {
			return
		}
		dst = verifC16multiUndirected{multi.NewUndirectedGraph()}
	}
	verifAssert(err == nil, "MarshalMulti succeeds")
	panicked, fault, _ := verifCatch(func() { err = UnmarshalMulti(out, dst) })
	verifAssert(!fault && !panicked, "UnmarshalMulti: no fault or panic")
	if panicked {
		return
	}
	verifAssert(err == nil, "UnmarshalMulti accepts what MarshalMulti wrote")
	if err != nil {
		return
	}
	verifAssert(dst.Nodes().Len() == 2, "two nodes")
	nu, cu := verifC16find(dst, verifC16itoa(u))
	nv, cv := verifC16find(dst, verifC16itoa(v))
	verifAssert(cu == 1 && cv == 1, "one decoded node per decimal id")
	if cu != 1 || cv != 1 {
		return
	}
	if directed {
		verifAssert(verifC16countLines(dst.Lines(nu.ID(), nv.ID())) == fw, "lines u->v")
		verifAssert(verifC16countLines(dst.Lines(nv.ID(), nu.ID())) == bw, "lines v->u")
	} else {
		verifAssert(verifC16countLines(dst.Lines(nu.ID(), nv.ID())) == fw+bw, "lines between u and v")
	}
	verifReach("end")
}
