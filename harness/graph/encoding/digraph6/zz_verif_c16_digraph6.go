package digraph6

import (
	"gonum.org/v1/gonum/graph"
	"gonum.org/v1/gonum/graph/iterator"
	"gonum.org/v1/gonum/graph/simple"
)

// verifC16digraph is a tiny directed graph over node ids ids[0..n) with an
// adjacency matrix adj (by index, adj[i][j]: edge i->j).
type verifC16digraph struct {
	ids []int64
	adj [][]bool
}

func (g verifC16digraph) idx(id int64) int {
	for i, v := range g.ids {
		if v == id {
			return i
		}
	}
	return -1
}

func (g verifC16digraph) Node(id int64) graph.Node {
	if g.idx(id) < 0 {
		return nil
	}
	return simple.Node(id)
}

func (g verifC16digraph) Nodes() graph.Nodes {
	// deliberately not in id order
	nodes := make([]graph.Node, 0, len(g.ids))
	for i := len(g.ids) - 1; i >= 0; i-- {
		nodes = append(nodes, simple.Node(g.ids[i]))
	}
	return iterator.NewOrderedNodes(nodes)
}

func (g verifC16digraph) From(id int64) graph.Nodes {
	i := g.idx(id)
	if i < 0 {
		return graph.Empty
	}
	var nodes []graph.Node
	for j := range g.ids {
		if g.adj[i][j] {
			nodes = append(nodes, simple.Node(g.ids[j]))
		}
	}
	if len(nodes) == 0 {
		return graph.Empty
	}
	return iterator.NewOrderedNodes(nodes)
}

func (g verifC16digraph) HasEdgeBetween(x, y int64) bool {
	i, j := g.idx(x), g.idx(y)
	return i >= 0 && j >= 0 && (g.adj[i][j] || g.adj[j][i])
}

func (g verifC16digraph) Edge(u, v int64) graph.Edge {
	i, j := g.idx(u), g.idx(v)
	if i < 0 || j < 0 || !g.adj[i][j] {
		return nil
	}
	return simple.Edge{F: simple.Node(u), T: simple.Node(v)}
}

// verifC16hdr returns the documented meaning of the size header that follows
// the '&' of s and the total header length (including '&'), or n=-1.
func verifC16hdr(s string) (n int64, hl int) {
	if len(s) < 2 || s[0] != '&' {
		return -1, 0
	}
	if s[1] != 126 {
		return int64(s[1]) - 63, 2
	}
	if len(s) < 5 {
		return -1, 0
	}
	if s[2] != 126 {
		return (int64(s[2])-63)<<12 | (int64(s[3])-63)<<6 | (int64(s[4]) - 63), 5
	}
	if len(s) < 9 {
		return -1, 0
	}
	n = 0
	for i := 3; i < 9; i++ {
		n = n<<6 | (int64(s[i]) - 63)
	}
	return n, 9
}

// VerifC16_Digraph6DecodeTotal: every byte string of length 0..maxlen, arbitrary
// int64 node ids: the read API never faults or panics; invalid strings behave as
// the null graph; HasEdgeBetween is the symmetric closure of HasEdgeFromTo,
// which is irreflexive; Edge agrees with HasEdgeFromTo; a valid string has the
// node count of its header, the documented payload length and HasEdgeFromTo
// reads the documented bit.
func VerifC16_Digraph6DecodeTotal() {
	maxLen := verifParam("d6maxlen", 8)
	L := verifChoose("len", verifParam("d6minlen", 0), maxLen)
	verifC16d6decode(L, false)
}

// VerifC16_Digraph6DecodeLongHeader: the same statement for strings of length
// 9..d6longmax, the shortest ones that can carry the 8-byte size header (36-bit
// n). OPEN VIOLATION: IsValid computes n*n in int64; n = k*2^32 wraps to 0.
func VerifC16_Digraph6DecodeLongHeader() {
	L := verifChoose("len", 9, verifParam("d6longmax", 9))
	verifC16d6decode(L, false)
}

// VerifC16_Digraph6DecodeLongHeaderNoWrap: as above under the assumption that an
// 8-byte header announces fewer than 2^32 nodes (n*n cannot wrap to a small
// non-negative number).
func VerifC16_Digraph6DecodeLongHeaderNoWrap() {
	L := verifChoose("len", 9, verifParam("d6longmax", 9))
	verifC16d6decode(L, true)
}

// VerifC16_Digraph6DecodeBig: the decoder statement for strings of exactly the
// valid length of an n node digraph, n around the 1-byte / 4-byte header change
// (62, 63, 64): '&' and the header bytes are fixed to the documented encoding of
// n, every payload byte is symbolic, node ids are arbitrary int64.
func VerifC16_Digraph6DecodeBig() {
	n := []int{62, 63, 64}[verifChoose("nidx", 0, 2)]
	hdr := []byte{'&', byte(n) + 63}
	if n >= 63 {
		hdr = []byte{'&', 126, byte(n>>12)&63 + 63, byte(n>>6)&63 + 63, byte(n)&63 + 63}
	}
	L := len(hdr) + (n*n+5)/6
	s := verifString("s", L)
	for i, b := range hdr {
		verifAssume(s[i] == b)
	}
	verifC16d6decodeStr(L, s)
}

func verifC16d6decode(L int, nowrap bool) {
	s := verifString("s", L)
	if nowrap {
		hn0, _ := verifC16hdr(s)
		verifAssume(hn0 < 1<<32)
	}
	verifC16d6decodeStr(L, s)
}

func verifC16d6decodeStr(L int, s string) {
	g := Graph(s)
	u := verifInt64("u")
	v := verifInt64("v")

	var valid, fuv, fvu, fuu, buv, bvu, euv, nodeU bool
	var nn int
	panicked, fault, _ := verifCatch(func() {
		valid = IsValid(g)
		nn = g.Nodes().Len()
		fuv = g.HasEdgeFromTo(u, v)
		fvu = g.HasEdgeFromTo(v, u)
		fuu = g.HasEdgeFromTo(u, u)
		buv = g.HasEdgeBetween(u, v)
		bvu = g.HasEdgeBetween(v, u)
		euv = g.Edge(u, v) != nil
		nodeU = g.Node(u) != nil
	})
	verifAssert(!fault, "digraph6 read API: no runtime fault")
	verifAssert(!panicked, "digraph6 read API: no panic")
	if panicked {
		return
	}
	verifAssert(buv == bvu, "HasEdgeBetween symmetric")
	verifAssert(buv == verifOr(fuv, fvu), "HasEdgeBetween is HasEdgeFromTo in either direction")
	verifAssert(!fuu, "HasEdgeFromTo irreflexive")
	verifAssert(euv == fuv, "Edge(u,v) != nil iff HasEdgeFromTo(u,v)")
	verifAssert(verifImplies(fuv, verifAnd(verifAnd(0 <= u, u < int64(nn)), verifAnd(0 <= v, v < int64(nn)))), "edges only between existing nodes")
	verifAssert(nodeU == verifAnd(0 <= u, u < int64(nn)), "Node(u) exists iff 0 <= u < n")
	if !valid {
		verifAssert(nn == 0, "invalid string is the null graph: no nodes")
		verifAssert(verifAnd(!fuv, !buv), "invalid string is the null graph: no edges")
		verifReach("invalid")
		return
	}
	verifReach("valid")
	allOK := s[0] == '&'
	for i := 1; i < L; i++ {
		allOK = verifAnd(allOK, verifAnd(s[i] >= 63, s[i] <= 126))
	}
	verifAssert(allOK, "valid string is '&' followed by bytes 63..126")
	hn, hl := verifC16hdr(s)
	verifAssert(hn >= 0, "valid string has a well formed header")
	verifAssert(int64(nn) == hn, "node count equals the header number")
	verifAssert(hn < 1<<31, "valid short string cannot claim >= 2^31 nodes")
	verifAssert(int64(L-hl) == (hn*hn+5)/6, "payload length is ceil(n*n/6)")
	if verifAnd(verifAnd(0 <= u, u < hn), verifAnd(0 <= v, verifAnd(v < hn, u != v))) {
		k := int(u*hn + v)
		bit := (s[hl+k/6]-63)&(1<<uint(5-k%6)) != 0
		verifAssert(fuv == bit, "HasEdgeFromTo reads the documented bit")
		verifReach("bit")
	}
	verifReach("end")
}

// VerifC16_Digraph6FromTo: for a valid string and an existing node u, iterating
// From(u) / To(u) yields exactly the v with HasEdgeFromTo(u,v) / (v,u), in
// increasing order, and Len() announces the count; never a fault.
func VerifC16_Digraph6FromTo() {
	maxLen := verifParam("d6fromlen", 4)
	L := verifChoose("len", 0, maxLen)
	rev := verifChoose("reverse", 0, 1) == 1
	s := verifString("s", L)
	g := Graph(s)
	u := verifInt64("u")
	var got []int64
	var ln int
	isNil := false
	panicked, fault, _ := verifCatch(func() {
		var it graph.Nodes
		if rev {
			it = g.To(u)
		} else {
			it = g.From(u)
		}
		if it == nil {
			isNil = true
			return
		}
		ln = it.Len()
		for it.Next() {
			got = append(got, it.Node().ID())
		}
	})
	verifAssert(!fault, "digraph6 From/To: no runtime fault")
	verifAssert(!panicked, "digraph6 From/To: no panic")
	if panicked || isNil {
		return
	}
	verifAssert(ln == len(got), "Len() is the number of nodes iterated")
	n := int64(g.Nodes().Len())
	has := func(w int64) bool {
		if rev {
			return g.HasEdgeFromTo(w, u)
		}
		return g.HasEdgeFromTo(u, w)
	}
	prev := int64(-1)
	for _, w := range got {
		verifAssert(verifAnd(prev < w, w < n), "iterator yields increasing existing ids")
		verifAssert(has(w), "iterator yields only neighbours")
		prev = w
	}
	cnt := 0
	for w := int64(0); w < n; w++ {
		if has(w) {
			cnt++
		}
	}
	verifAssert(cnt == len(got), "iterator yields every neighbour")
	verifReach("end")
}

// VerifC16_Digraph6RoundTrip: for every digraph on n <= maxn nodes (adjacency
// bits symbolic, node ids 0..n-1) Graph(Encode(g)) is valid, has n nodes and
// exactly the arcs of g; the encoding has the documented canonical length.
func VerifC16_Digraph6RoundTrip() {
	maxN := verifParam("d6maxn", 3)
	n := verifChoose("n", 0, maxN)
	h := verifC16digraph{ids: make([]int64, n), adj: make([][]bool, n)}
	// node ids: 0..n-1, or decreasing non-contiguous ids including negative
	// ones; rank[i] is the position of node i in id order, which is the node
	// id in the encoded graph.
	scrambled := verifChoose("scrambledids", 0, 1) == 1
	rank := make([]int64, n)
	for i := 0; i < n; i++ {
		h.ids[i] = int64(i)
		rank[i] = int64(i)
		if scrambled {
			h.ids[i] = int64(7*(n-i) - 20)
			rank[i] = int64(n - 1 - i)
		}
		h.adj[i] = make([]bool, n)
	}
	for i := 0; i < n; i++ {
		for j := 0; j < n; j++ {
			if i != j {
				h.adj[i][j] = verifBool("e" + string(rune('0'+i)) + string(rune('0'+j)))
			}
		}
	}
	var enc Graph
	panicked, fault, _ := verifCatch(func() { enc = Encode(h) })
	verifAssert(!fault, "Encode: no runtime fault")
	verifAssert(!panicked, "Encode: no panic")
	if panicked {
		return
	}
	verifAssert(IsValid(enc), "Encode produces a valid digraph6 string")
	verifAssert(len(enc) == 2+(n*n+5)/6, "canonical length")
	verifAssert(enc.Nodes().Len() == n, "decoded node count")
	for i := 0; i < n; i++ {
		for j := 0; j < n; j++ {
			verifAssert(enc.HasEdgeFromTo(rank[i], rank[j]) == (i != j && h.adj[i][j]), "decoded arcs equal encoded arcs")
		}
	}
	verifReach("end")
}

// VerifC16_Digraph6Canonical: for a canonical string s ('&', 1 byte header,
// n <= maxn, diagonal and padding bits zero) Encode(Graph(s)) == s.
func VerifC16_Digraph6Canonical() {
	maxN := verifParam("d6maxn", 3)
	n := verifChoose("n", 0, maxN)
	bits := n * n
	L := 2 + (bits+5)/6
	s := verifString("s", L)
	verifAssume(s[0] == '&')
	verifAssume(s[1] == byte(63+n))
	for i := 2; i < L; i++ {
		verifAssume(verifAnd(s[i] >= 63, s[i] <= 126))
	}
	if bits%6 != 0 {
		pad := uint(6 - bits%6)
		verifAssume((s[L-1]-63)&(1<<pad-1) == 0)
	}
	for i := 0; i < n; i++ {
		k := i*n + i
		verifAssume((s[2+k/6]-63)&(1<<uint(5-k%6)) == 0)
	}
	g := Graph(s)
	verifAssert(IsValid(g), "canonical string is valid")
	var enc Graph
	panicked, fault, _ := verifCatch(func() { enc = Encode(g) })
	verifAssert(!fault, "Encode(Graph(s)): no runtime fault")
	verifAssert(!panicked, "Encode(Graph(s)): no panic")
	if panicked {
		return
	}
	verifAssert(len(enc) == L, "re-encoding has the same length")
	if len(enc) == L {
		same := true
		for i := 0; i < L; i++ {
			same = verifAnd(same, enc[i] == s[i])
		}
		verifAssert(same, "Encode(Graph(s)) == s for canonical s")
	}
	verifReach("end")
}

// VerifC16_Digraph6EncodeHeaderChange: Encode on both sides of the 1-byte/4-byte
// size header change (n = 62, 63, 64): digraphs whose only possible arcs are five
// fixed ordered pairs with symbolic presence bits. The encoding starts with '&'
// and the documented size header, has the documented length, is valid, and
// decodes to n nodes and exactly the chosen arcs.
func VerifC16_Digraph6EncodeHeaderChange() {
	n := verifChoose("n", 62, 64)
	h := verifC16digraph{ids: make([]int64, n), adj: make([][]bool, n)}
	for i := 0; i < n; i++ {
		h.ids[i] = int64(i)
		h.adj[i] = make([]bool, n)
	}
	pairs := [][2]int{{1, 0}, {0, n - 1}, {n - 1, n - 2}, {31, 32}, {n / 2, 5}}
	bits := make([]bool, len(pairs))
	for k, p := range pairs {
		bits[k] = verifBool("e" + string(rune('0'+k)))
		h.adj[p[0]][p[1]] = bits[k]
	}
	enc := Encode(h)
	hdr := []byte{'&', byte(n) + 63}
	if n >= 63 {
		hdr = []byte{'&', 126, byte(n>>12)&63 + 63, byte(n>>6)&63 + 63, byte(n)&63 + 63}
	}
	verifAssert(len(enc) == len(hdr)+(n*n+5)/6, "documented length")
	for i, b := range hdr {
		verifAssert(enc[i] == b, "documented '&' and size header")
	}
	verifAssert(IsValid(enc), "Encode produces a valid digraph6 string")
	verifAssert(enc.Nodes().Len() == n, "decoded node count")
	for k, p := range pairs {
		verifAssert(enc.HasEdgeFromTo(int64(p[0]), int64(p[1])) == bits[k], "chosen arc decodes to its bit")
	}
	// number of set payload bits (every byte is 63 + a 6 bit group)
	cnt := 0
	for i := len(hdr); i < len(enc); i++ {
		for b := enc[i] - 63; b != 0; b &= b - 1 {
			cnt++
		}
	}
	want := 0
	for _, b := range bits {
		if b {
			want++
		}
	}
	verifAssert(cnt == want, "no other payload bit is set")
	verifReach("end")
}
