package simple

import (
	"math"

	"gonum.org/v1/gonum/graph"
)

// One inductive step from an arbitrary valid state, for the four map-backed
// graph types. The state is written directly into the struct fields
// (in-package), the operation is applied through the exported API, and the
// post-state is compared with a plain set model through the exported
// queries and by inspecting the internal maps (from/to mirror, no stray keys).

// ID universe: small, negative, and the top of the int64 range.
var verifC12IDs = []int64{0, 3, -2, math.MaxInt64}

const (
	verifC12Outside int64 = 42 // an ID outside the universe, never in the pre-state
	verifC12Ghost   int64 = 7  // optionally used-then-released (sits in the free list)
	verifC12MaxV          = 6  // universe + outside + one freshly issued ID
)

type verifC12Model struct {
	ids     []int64 // tracked IDs (universe, outside, possibly one new ID)
	present []bool
	edge    [][]bool // edge[i][j]: i -> j (kept symmetric for undirected kinds)
	w       [][]float64
}

func (m *verifC12Model) idx(id int64) int {
	for i, x := range m.ids {
		if x == id {
			return i
		}
	}
	return -1
}

// verifC12View gives uniform access to one concrete graph type.
type verifC12View struct {
	kind     int // 0 Directed, 1 Undirected, 2 WeightedDirected, 3 WeightedUndirected
	directed bool
	weighted bool
	g        interface {
		graph.Graph
		graph.NodeAdder
		graph.NodeRemover
		graph.EdgeRemover
		graph.NodeWithIDer
	}
	// raw state writers / readers (in-package)
	rawNode  func(id int64)
	rawEdge  func(u, v int64, w float64)
	rawInner func(id int64) // make sure the inner adjacency maps exist
	useID    func(id int64)
	relID    func(id int64)
	nNodes   func() int
	out      func(u, v int64) bool // forward adjacency entry exists
	in       func(u, v int64) bool // reverse adjacency entry exists (edge u -> v recorded at v)
	nOut     func(u int64) int
	nIn      func(u int64) int
	nOuter   func() int // number of outer adjacency keys (forward + reverse)
	setEdge  func(u, v int64, w float64)
}

func verifC12NewView(kind int) *verifC12View {
	v := &verifC12View{kind: kind, directed: kind == 0 || kind == 2, weighted: kind >= 2}
	switch kind {
	case 0:
		g := NewDirectedGraph()
		v.g = g
		v.rawNode = func(id int64) { g.nodes[id] = Node(id) }
		v.rawInner = func(id int64) {
			if g.from[id] == nil {
				g.from[id] = make(map[int64]graph.Edge)
			}
			if g.to[id] == nil {
				g.to[id] = make(map[int64]graph.Edge)
			}
		}
		v.rawEdge = func(a, b int64, w float64) {
			e := Edge{F: Node(a), T: Node(b)}
			if g.from[a] == nil {
				g.from[a] = make(map[int64]graph.Edge)
			}
			if g.to[b] == nil {
				g.to[b] = make(map[int64]graph.Edge)
			}
			g.from[a][b] = e
			g.to[b][a] = e
		}
		v.useID = g.nodeIDs.Use
		v.relID = g.nodeIDs.Release
		v.nNodes = func() int { return len(g.nodes) }
		v.out = func(a, b int64) bool { _, ok := g.from[a][b]; return ok }
		v.in = func(a, b int64) bool { _, ok := g.to[b][a]; return ok }
		v.nOut = func(a int64) int { return len(g.from[a]) }
		v.nIn = func(a int64) int { return len(g.to[a]) }
		v.nOuter = func() int { return len(g.from) + len(g.to) }
		v.setEdge = func(a, b int64, w float64) { g.SetEdge(Edge{F: Node(a), T: Node(b)}) }
	case 1:
		g := NewUndirectedGraph()
		v.g = g
		v.rawNode = func(id int64) { g.nodes[id] = Node(id) }
		v.rawInner = func(id int64) {
			if g.edges[id] == nil {
				g.edges[id] = make(map[int64]graph.Edge)
			}
		}
		v.rawEdge = func(a, b int64, w float64) {
			e := Edge{F: Node(a), T: Node(b)}
			if g.edges[a] == nil {
				g.edges[a] = make(map[int64]graph.Edge)
			}
			if g.edges[b] == nil {
				g.edges[b] = make(map[int64]graph.Edge)
			}
			g.edges[a][b] = e
			g.edges[b][a] = e
		}
		v.useID = g.nodeIDs.Use
		v.relID = g.nodeIDs.Release
		v.nNodes = func() int { return len(g.nodes) }
		v.out = func(a, b int64) bool { _, ok := g.edges[a][b]; return ok }
		v.in = func(a, b int64) bool { _, ok := g.edges[b][a]; return ok }
		v.nOut = func(a int64) int { return len(g.edges[a]) }
		v.nIn = v.nOut
		v.nOuter = func() int { return len(g.edges) }
		v.setEdge = func(a, b int64, w float64) { g.SetEdge(Edge{F: Node(a), T: Node(b)}) }
	case 2:
		g := NewWeightedDirectedGraph(0, math.Inf(1))
		v.g = g
		v.rawNode = func(id int64) { g.nodes[id] = Node(id) }
		v.rawInner = func(id int64) {
			if g.from[id] == nil {
				g.from[id] = make(map[int64]graph.WeightedEdge)
			}
			if g.to[id] == nil {
				g.to[id] = make(map[int64]graph.WeightedEdge)
			}
		}
		v.rawEdge = func(a, b int64, w float64) {
			e := WeightedEdge{F: Node(a), T: Node(b), W: w}
			if g.from[a] == nil {
				g.from[a] = make(map[int64]graph.WeightedEdge)
			}
			if g.to[b] == nil {
				g.to[b] = make(map[int64]graph.WeightedEdge)
			}
			g.from[a][b] = e
			g.to[b][a] = e
		}
		v.useID = g.nodeIDs.Use
		v.relID = g.nodeIDs.Release
		v.nNodes = func() int { return len(g.nodes) }
		v.out = func(a, b int64) bool { _, ok := g.from[a][b]; return ok }
		v.in = func(a, b int64) bool { _, ok := g.to[b][a]; return ok }
		v.nOut = func(a int64) int { return len(g.from[a]) }
		v.nIn = func(a int64) int { return len(g.to[a]) }
		v.nOuter = func() int { return len(g.from) + len(g.to) }
		v.setEdge = func(a, b int64, w float64) { g.SetWeightedEdge(WeightedEdge{F: Node(a), T: Node(b), W: w}) }
	default:
		g := NewWeightedUndirectedGraph(0, math.Inf(1))
		v.g = g
		v.rawNode = func(id int64) { g.nodes[id] = Node(id) }
		v.rawInner = func(id int64) {
			if g.edges[id] == nil {
				g.edges[id] = make(map[int64]graph.WeightedEdge)
			}
		}
		v.rawEdge = func(a, b int64, w float64) {
			e := WeightedEdge{F: Node(a), T: Node(b), W: w}
			if g.edges[a] == nil {
				g.edges[a] = make(map[int64]graph.WeightedEdge)
			}
			if g.edges[b] == nil {
				g.edges[b] = make(map[int64]graph.WeightedEdge)
			}
			g.edges[a][b] = e
			g.edges[b][a] = e
		}
		v.useID = g.nodeIDs.Use
		v.relID = g.nodeIDs.Release
		v.nNodes = func() int { return len(g.nodes) }
		v.out = func(a, b int64) bool { _, ok := g.edges[a][b]; return ok }
		v.in = func(a, b int64) bool { _, ok := g.edges[b][a]; return ok }
		v.nOut = func(a int64) int { return len(g.edges[a]) }
		v.nIn = v.nOut
		v.nOuter = func() int { return len(g.edges) }
		v.setEdge = func(a, b int64, w float64) { g.SetWeightedEdge(WeightedEdge{F: Node(a), T: Node(b), W: w}) }
	}
	return v
}

func verifC12Name(p string, i, j int) string {
	return p + string(rune('0'+i)) + string(rune('0'+j))
}

// verifC12Pre builds an arbitrary valid pre-state over the first n universe
// IDs (all node subsets x all edge sets over present nodes x representation
// variants) and the model describing it.
func verifC12Pre(v *verifC12View, n int) *verifC12Model {
	m := &verifC12Model{}
	m.ids = append(m.ids, verifC12IDs[:n]...)
	m.ids = append(m.ids, verifC12Outside)
	k := len(m.ids)
	m.present = make([]bool, k, verifC12MaxV)
	m.edge = make([][]bool, k, verifC12MaxV)
	m.w = make([][]float64, k, verifC12MaxV)
	for i := range m.edge {
		m.edge[i] = make([]bool, verifC12MaxV)
		m.w[i] = make([]float64, verifC12MaxV)
	}
	// representation variants: a released ID in the free list; inner maps
	// left behind empty (as after RemoveEdge) or not allocated at all.
	if verifChoose("ghost", 0, 1) == 1 {
		v.useID(verifC12Ghost)
		v.relID(verifC12Ghost)
	}
	emptyInner := verifChoose("emptyinner", 0, 1) == 1
	for i := 0; i < n; i++ {
		if verifChoose("node", 0, 1) == 1 {
			m.present[i] = true
			v.rawNode(m.ids[i])
			v.useID(m.ids[i])
			if emptyInner {
				v.rawInner(m.ids[i])
			}
		}
	}
	for i := 0; i < n; i++ {
		for j := 0; j < n; j++ {
			if i == j || !m.present[i] || !m.present[j] {
				continue
			}
			if !v.directed && j < i {
				continue
			}
			if verifChoose("edge", 0, 1) == 1 {
				w := 1.0
				if v.weighted {
					w = verifFloat(verifC12Name("w", i, j))
				}
				m.edge[i][j], m.w[i][j] = true, w
				if !v.directed {
					m.edge[j][i], m.w[j][i] = true, w
				}
				v.rawEdge(m.ids[i], m.ids[j], w)
			}
		}
	}
	return m
}

// verifC12Post compares every iterator-free query and the internal maps with
// the model.
func verifC12Post(v *verifC12View, m *verifC12Model, who string) {
	cnt := 0
	for i, id := range m.ids {
		nd := v.g.Node(id)
		verifAssert((nd != nil) == m.present[i], who+": Node(id) is non-nil iff the node is in the graph")
		if nd != nil {
			verifAssert(nd.ID() == id, who+": Node(id) has the requested ID")
		}
		nw, isNew := v.g.NodeWithID(id)
		verifAssert(isNew == !m.present[i] && nw != nil && nw.ID() == id, who+": NodeWithID reports existing nodes as not new")
		if m.present[i] {
			cnt++
		}
		od, idg := 0, 0
		for j, jd := range m.ids {
			e := m.edge[i][j]
			if e {
				od++
			}
			if m.edge[j][i] {
				idg++
			}
			verifAssert(v.out(id, jd) == e, who+": forward adjacency holds exactly the model's edges")
			verifAssert(v.in(id, jd) == e, who+": reverse adjacency mirrors the forward adjacency")
			verifAssert(v.g.HasEdgeBetween(id, jd) == (e || m.edge[j][i]), who+": HasEdgeBetween agrees with the edge set (symmetric)")
			if dg, ok := v.g.(graph.Directed); ok {
				verifAssert(dg.HasEdgeFromTo(id, jd) == e, who+": HasEdgeFromTo agrees with the edge set")
			}
			ed := v.g.Edge(id, jd)
			verifAssert((ed != nil) == e, who+": Edge is non-nil iff the edge exists")
			if ed != nil {
				verifAssert(ed.From().ID() == id && ed.To().ID() == jd, who+": Edge(u,v) runs from u to v")
			}
			if wg, ok := v.g.(graph.Weighted); ok {
				w, wok := wg.Weight(id, jd)
				verifAssert(wok == (e || i == j), who+": Weight ok iff edge exists or u == v")
				if e {
					verifAssertEqF(w, m.w[i][j], who+": Weight returns the stored weight")
					verifAssertEqF(wg.WeightedEdge(id, jd).Weight(), m.w[i][j], who+": WeightedEdge carries the stored weight")
				} else if i == j {
					verifAssert(w == 0, who+": Weight(u,u) is the self weight")
				} else {
					verifAssert(math.IsInf(w, 1), who+": Weight of an absent edge is the absent weight")
				}
			}
		}
		verifAssert(v.nOut(id) == od, who+": no stray keys in the forward adjacency of a node")
		verifAssert(v.nIn(id) == idg, who+": no stray keys in the reverse adjacency of a node")
	}
	verifAssert(v.nNodes() == cnt, who+": node map holds exactly the model's nodes")
	// freshness of the next issued ID
	var nid int64
	panicked, _, _ := verifCatch(func() { nid = v.g.NewNode().ID() })
	verifAssert(!panicked, who+": NewNode does not panic")
	if !panicked {
		for i, id := range m.ids {
			if m.present[i] {
				verifAssert(nid != id, who+": NewNode never issues the ID of a live node")
			}
		}
	}
}

func verifC12Kind() int { return verifChoose("kind", verifParam("kindlo", 0), verifParam("kindhi", 3)) }

// arg picks an ID from the tracked IDs (universe + outside).
func verifC12Arg(m *verifC12Model, name string) (int, int64) {
	i := verifChoose(name, 0, len(m.ids)-1)
	return i, m.ids[i]
}

func (m *verifC12Model) removeNode(i int) {
	m.present[i] = false
	for j := range m.ids {
		m.edge[i][j], m.edge[j][i] = false, false
	}
}

// VerifC12_SimpleBase: the constructors' states and every pre-state built by
// the harness satisfy the checked relation (base case / harness sanity).
func VerifC12_SimpleBase() {
	v := verifC12NewView(verifC12Kind())
	m := verifC12Pre(v, verifParam("c12n", 3))
	verifC12Post(v, m, "pre-state")
	verifReach("end")
}

// VerifC12_SimpleAddNode: AddNode panics exactly on an ID collision and then
// leaves the graph unchanged; otherwise only the node set grows.
func VerifC12_SimpleAddNode() {
	v := verifC12NewView(verifC12Kind())
	m := verifC12Pre(v, verifParam("c12n", 3))
	i, id := verifC12Arg(m, "arg")
	panicked, fault, msg := verifCatch(func() { v.g.AddNode(Node(id)) })
	verifAssert(!fault, "AddNode: no runtime fault")
	verifAssert(panicked == m.present[i], "AddNode: panics iff the ID is already in the graph")
	_ = msg
	m.present[i] = true
	verifC12Post(v, m, "AddNode")
	verifReach("end")
}

// VerifC12_SimpleNewNode: NewNode issues an ID that is not live; adding it
// grows only the node set; the next NewNode is fresh again.
func VerifC12_SimpleNewNode() {
	v := verifC12NewView(verifC12Kind())
	m := verifC12Pre(v, verifParam("c12n", 3))
	nd := v.g.NewNode()
	id := nd.ID()
	for i, x := range m.ids {
		if m.present[i] {
			verifAssert(id != x, "NewNode: issued ID is not the ID of a live node")
		}
	}
	panicked, _, _ := verifCatch(func() { v.g.AddNode(nd) })
	verifAssert(!panicked, "NewNode: adding the issued node does not panic")
	i := m.idx(id)
	if i < 0 {
		m.ids = append(m.ids, id)
		m.present = append(m.present, false)
		m.edge = append(m.edge, make([]bool, verifC12MaxV))
		m.w = append(m.w, make([]float64, verifC12MaxV))
		i = len(m.ids) - 1
	}
	m.present[i] = true
	verifC12Post(v, m, "NewNode+AddNode")
	verifReach("end")
}

// VerifC12_SimpleRemoveNode: removes the node and exactly its incident edges;
// a no-op for absent IDs.
func VerifC12_SimpleRemoveNode() {
	v := verifC12NewView(verifC12Kind())
	m := verifC12Pre(v, verifParam("c12n", 3))
	i, id := verifC12Arg(m, "arg")
	v.g.RemoveNode(id)
	m.removeNode(i)
	verifC12Post(v, m, "RemoveNode")
	// re-adding the removed ID works and brings back no stale edges
	panicked, _, _ := verifCatch(func() { v.g.AddNode(Node(id)) })
	verifAssert(!panicked, "RemoveNode then AddNode of the same ID does not panic")
	m.present[i] = true
	verifC12Post(v, m, "RemoveNode+AddNode")
	verifReach("end")
}

// VerifC12_SimpleSetEdge: panics exactly on a self loop (state unchanged);
// otherwise adds missing end points and the edge (replacing weight).
func VerifC12_SimpleSetEdge() {
	v := verifC12NewView(verifC12Kind())
	m := verifC12Pre(v, verifParam("c12n", 3))
	i, u := verifC12Arg(m, "u")
	j, w := verifC12Arg(m, "v")
	wt := 1.0
	if v.weighted {
		wt = verifFloat("wnew")
	}
	panicked, fault, _ := verifCatch(func() { v.setEdge(u, w, wt) })
	verifAssert(!fault, "SetEdge: no runtime fault")
	verifAssert(panicked == (i == j), "SetEdge: panics iff the edge is a self loop")
	if i != j {
		m.present[i], m.present[j] = true, true
		m.edge[i][j], m.w[i][j] = true, wt
		if !v.directed {
			m.edge[j][i], m.w[j][i] = true, wt
		}
	}
	verifC12Post(v, m, "SetEdge")
	verifReach("end")
}

// VerifC12_SimpleRemoveEdge: removes exactly that edge (both directions of an
// undirected edge); nodes stay; no-op when absent.
func VerifC12_SimpleRemoveEdge() {
	v := verifC12NewView(verifC12Kind())
	m := verifC12Pre(v, verifParam("c12n", 3))
	i, u := verifC12Arg(m, "u")
	j, w := verifC12Arg(m, "v")
	panicked, _, _ := verifCatch(func() { v.g.RemoveEdge(u, w) })
	verifAssert(!panicked, "RemoveEdge: never panics")
	m.edge[i][j] = false
	if !v.directed {
		m.edge[j][i] = false
	}
	verifC12Post(v, m, "RemoveEdge")
	verifReach("end")
}
