package simple

import "gonum.org/v1/gonum/graph"

// verifC12Drain checks an iterator against the expected ID multiset: Len
// counts down correctly, each expected element is produced exactly once,
// nothing else is produced, and Reset restarts the enumeration.
func verifC12Drain(it graph.Nodes, m *verifC12Model, want []bool, who string) {
	n := 0
	for _, w := range want {
		if w {
			n++
		}
	}
	for round := 0; round < 2; round++ {
		seen := make([]int, len(m.ids))
		verifAssert(it.Len() == n, who+": Len before iteration is the number of elements")
		k := 0
		for it.Next() {
			k++
			verifAssert(k <= n, who+": no more elements than expected")
			if k > n {
				return
			}
			nd := it.Node()
			verifAssert(nd != nil, who+": Node is non-nil after Next returned true")
			if nd == nil {
				return
			}
			i := m.idx(nd.ID())
			verifAssert(i >= 0 && want[i], who+": only expected elements are produced")
			if i >= 0 {
				seen[i]++
			}
			verifAssert(it.Len() == n-k, who+": Len is the number of remaining elements")
		}
		verifAssert(k == n, who+": every element is produced")
		for i := range seen {
			if want[i] {
				verifAssert(seen[i] == 1, who+": each element exactly once")
			}
		}
		verifAssert(!it.Next(), who+": Next stays false when exhausted")
		it.Reset()
	}
}

// VerifC12_SimpleIterators: Nodes(), From(u) and To(u) enumerate exactly the
// model's sets, after one mutation (SetEdge or RemoveNode) of an arbitrary
// pre-state. Needs the map-backed iterators of graph/iterator.
func VerifC12_SimpleIterators() {
	v := verifC12NewView(verifC12Kind())
	m := verifC12Pre(v, verifParam("c12n", 3))
	if verifChoose("op", 0, 1) == 0 {
		i, u := verifC12Arg(m, "u")
		j, w := verifC12Arg(m, "v")
		if i == j {
			return
		}
		v.setEdge(u, w, 1)
		m.present[i], m.present[j] = true, true
		m.edge[i][j], m.w[i][j] = true, 1
		if !v.directed {
			m.edge[j][i], m.w[j][i] = true, 1
		}
	} else {
		i, u := verifC12Arg(m, "u")
		v.g.RemoveNode(u)
		m.removeNode(i)
	}
	verifC12Drain(v.g.Nodes(), m, m.present, "Nodes")
	// Edges(): every edge of the model exactly once (an undirected edge once).
	if eg, ok := v.g.(interface{ Edges() graph.Edges }); ok {
		cnt := make([][]int, len(m.ids))
		for i := range cnt {
			cnt[i] = make([]int, len(m.ids))
		}
		it := eg.Edges()
		total := it.Len()
		k := 0
		for it.Next() {
			k++
			e := it.Edge()
			a, b := m.idx(e.From().ID()), m.idx(e.To().ID())
			verifAssert(a >= 0 && b >= 0 && m.edge[a][b], "Edges: only edges of the graph are produced")
			if a >= 0 && b >= 0 {
				cnt[a][b]++
			}
			verifAssert(it.Len() == total-k, "Edges: Len is the number of remaining elements")
		}
		verifAssert(k == total, "Edges: Len before iteration is the number of edges")
		for a := range m.ids {
			for b := range m.ids {
				want := 0
				if m.edge[a][b] {
					want = 1
				}
				if v.directed {
					verifAssert(cnt[a][b] == want, "Edges: every edge exactly once")
				} else if a < b {
					verifAssert(cnt[a][b]+cnt[b][a] == want, "Edges: every undirected edge exactly once")
				}
			}
		}
	}
	for i, id := range m.ids {
		from := make([]bool, len(m.ids))
		to := make([]bool, len(m.ids))
		for j := range m.ids {
			from[j] = m.edge[i][j]
			to[j] = m.edge[j][i]
		}
		verifC12Drain(v.g.From(id), m, from, "From")
		if dg, ok := v.g.(graph.Directed); ok {
			verifC12Drain(dg.To(id), m, to, "To")
		}
	}
	verifReach("end")
}
