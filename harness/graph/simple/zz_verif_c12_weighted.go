package simple

import (
	"gonum.org/v1/gonum/graph"
)

// C12, weighted variants and the slice-backed edge iterators of the four
// map-backed graphs: one inductive step from an arbitrary valid pre-state
// (verifC12Pre), every operation, SYMBOLIC self and absent weights, labelled
// node objects (which node object the graph holds for an ID), and afterwards
// the full weighted query surface incl. Edges()/WeightedEdges() (slice backed:
// interpretable in the default build).

// verifC12WNode is a node object carrying a label.
type verifC12WNode struct {
	id    int64
	label int
}

func (n verifC12WNode) ID() int64 { return n.id }

type verifC12WState struct {
	v            *verifC12View
	m            *verifC12Model
	labels       []int // per tracked ID: 0 = the plain simple.Node written by the pre-state
	self, absent float64
}

func verifC12WNew(n int) *verifC12WState {
	s := &verifC12WState{}
	s.v = verifC12NewView(verifChoose("kind", verifParam("wkindlo", 0), verifParam("wkindhi", 3)))
	s.m = verifC12Pre(s.v, n)
	s.labels = make([]int, len(s.m.ids), verifC12MaxV)
	if s.v.weighted {
		s.self = verifFloat("self")
		s.absent = verifFloat("absent")
		switch g := s.v.g.(type) {
		case *WeightedDirectedGraph:
			g.self, g.absent = s.self, s.absent
		case *WeightedUndirectedGraph:
			g.self, g.absent = s.self, s.absent
		}
	}
	return s
}

// grow makes sure id is tracked by the model and returns its index.
func (s *verifC12WState) grow(id int64) int {
	i := s.m.idx(id)
	if i < 0 {
		s.m.ids = append(s.m.ids, id)
		s.m.present = append(s.m.present, false)
		s.m.edge = append(s.m.edge, make([]bool, verifC12MaxV))
		s.m.w = append(s.m.w, make([]float64, verifC12MaxV))
		s.labels = append(s.labels, 0)
		i = len(s.m.ids) - 1
	}
	return i
}

func (s *verifC12WState) checkNodeObject(nd graph.Node, i int, who string) {
	if s.labels[i] == 0 {
		_, ok := nd.(Node)
		verifAssert(ok, who+": the node object held for an ID is the one that was stored")
		return
	}
	l, ok := nd.(verifC12WNode)
	verifAssert(ok && l.label == s.labels[i], who+": the node object held for an ID is the one last stored by AddNode/SetEdge")
}

func (s *verifC12WState) post(who string) {
	v, m := s.v, s.m
	nEdges := 0
	for i, id := range m.ids {
		nd := v.g.Node(id)
		verifAssert((nd != nil) == m.present[i], who+": Node(id) is non-nil iff the node is in the graph")
		if nd != nil {
			verifAssert(nd.ID() == id, who+": Node(id) has the requested ID")
			s.checkNodeObject(nd, i, who)
		}
		od, idg := 0, 0
		for j, jd := range m.ids {
			e := m.edge[i][j]
			if e {
				od++
				if v.directed || i < j {
					nEdges++
				}
			}
			if m.edge[j][i] {
				idg++
			}
			verifAssert(v.out(id, jd) == e, who+": forward adjacency holds exactly the model's edges")
			verifAssert(v.in(id, jd) == e, who+": reverse adjacency mirrors the forward adjacency")
			verifAssert(v.g.HasEdgeBetween(id, jd) == (e || m.edge[j][i]), who+": HasEdgeBetween agrees with the edge set (symmetric)")
			ed := v.g.Edge(id, jd)
			verifAssert((ed != nil) == e, who+": Edge is non-nil iff the edge exists")
			if ug, ok := v.g.(graph.Undirected); ok {
				eb := ug.EdgeBetween(id, jd)
				verifAssert((eb != nil) == e, who+": EdgeBetween is non-nil iff the edge exists")
				if eb != nil {
					a, b := eb.From().ID(), eb.To().ID()
					verifAssert((a == id && b == jd) || (a == jd && b == id), who+": EdgeBetween(x,y) joins x and y")
				}
			}
			if wg, ok := v.g.(graph.Weighted); ok {
				w, wok := wg.Weight(id, jd)
				verifAssert(wok == (e || i == j), who+": Weight ok iff edge exists or x == y")
				we := wg.WeightedEdge(id, jd)
				verifAssert((we != nil) == e, who+": WeightedEdge is non-nil iff the edge exists")
				switch {
				case i == j:
					verifAssertEqF(w, s.self, who+": Weight(x,x) is the graph's self weight")
				case e:
					verifAssertEqF(w, m.w[i][j], who+": Weight returns the stored weight")
					if we != nil {
						verifAssertEqF(we.Weight(), m.w[i][j], who+": WeightedEdge carries the stored weight")
						verifAssert(we.From().ID() == id && we.To().ID() == jd, who+": WeightedEdge(u,v) runs from u to v")
					}
				default:
					verifAssertEqF(w, s.absent, who+": Weight of an absent edge is the graph's absent weight")
				}
				if ug, ok := v.g.(graph.WeightedUndirected); ok {
					wb := ug.WeightedEdgeBetween(id, jd)
					verifAssert((wb != nil) == e, who+": WeightedEdgeBetween is non-nil iff the edge exists")
					if wb != nil {
						verifAssertEqF(wb.Weight(), m.w[i][j], who+": WeightedEdgeBetween carries the stored weight")
					}
				}
			}
		}
		verifAssert(v.nOut(id) == od, who+": no stray keys in the forward adjacency of a node")
		verifAssert(v.nIn(id) == idg, who+": no stray keys in the reverse adjacency of a node")
	}
	// Edges(): every edge exactly once (an undirected edge once, either orientation).
	if eg, ok := v.g.(interface{ Edges() graph.Edges }); ok {
		it := eg.Edges()
		for round := 0; round < 2; round++ {
			cnt := s.count()
			verifAssert(it.Len() == nEdges, who+": Edges().Len is the number of edges")
			k := 0
			for it.Next() {
				k++
				if k > nEdges {
					verifAssert(false, who+": Edges() yields no more items than there are edges")
					return
				}
				e := it.Edge()
				verifAssert(e != nil, who+": Edge() is non-nil after Next returned true")
				if e == nil {
					return
				}
				a, b := m.idx(e.From().ID()), m.idx(e.To().ID())
				verifAssert(a >= 0 && b >= 0 && m.edge[a][b], who+": Edges() yields only edges of the graph")
				if a >= 0 && b >= 0 {
					cnt[a][b]++
				}
				verifAssert(it.Len() == nEdges-k, who+": Edges().Len is the number of remaining items")
			}
			verifAssert(k == nEdges, who+": Edges() yields every edge")
			s.once(cnt, who+": Edges() yields every edge exactly once")
			verifAssert(!it.Next(), who+": Edges().Next stays false when exhausted")
			it.Reset()
		}
	}
	// WeightedEdges(): the same with the stored weights; WeightedEdgeSlice /
	// graph.WeightedEdgesOf return the remaining items.
	if wg, ok := v.g.(interface {
		WeightedEdges() graph.WeightedEdges
	}); ok {
		it := wg.WeightedEdges()
		for round := 0; round < 2; round++ {
			cnt := s.count()
			verifAssert(it.Len() == nEdges, who+": WeightedEdges().Len is the number of edges")
			k := 0
			for it.Next() {
				k++
				if k > nEdges {
					verifAssert(false, who+": WeightedEdges() yields no more items than there are edges")
					return
				}
				e := it.WeightedEdge()
				verifAssert(e != nil, who+": WeightedEdge() is non-nil after Next returned true")
				if e == nil {
					return
				}
				a, b := m.idx(e.From().ID()), m.idx(e.To().ID())
				verifAssert(a >= 0 && b >= 0 && m.edge[a][b], who+": WeightedEdges() yields only edges of the graph")
				if a >= 0 && b >= 0 && m.edge[a][b] {
					cnt[a][b]++
					verifAssertEqF(e.Weight(), m.w[a][b], who+": WeightedEdges() items carry the stored weight")
				}
				verifAssert(it.Len() == nEdges-k, who+": WeightedEdges().Len is the number of remaining items")
			}
			verifAssert(k == nEdges, who+": WeightedEdges() yields every edge")
			s.once(cnt, who+": WeightedEdges() yields every edge exactly once")
			verifAssert(!it.Next(), who+": WeightedEdges().Next stays false when exhausted")
			it.Reset()
		}
		if nEdges > 0 {
			verifAssert(it.Next(), who+": WeightedEdges().Next after Reset")
			first := it.WeightedEdge()
			rest := graph.WeightedEdgesOf(it)
			verifAssert(len(rest) == nEdges-1, who+": WeightedEdgesOf returns the remaining items of a partially consumed iterator")
			cnt := s.count()
			all := append([]graph.WeightedEdge{first}, rest...)
			for _, e := range all {
				a, b := m.idx(e.From().ID()), m.idx(e.To().ID())
				if a >= 0 && b >= 0 {
					cnt[a][b]++
				}
			}
			if len(rest) == nEdges-1 {
				s.once(cnt, who+": first item + WeightedEdgesOf(rest) is every edge exactly once")
			}
		} else {
			verifAssert(len(graph.WeightedEdgesOf(it)) == 0, who+": WeightedEdgesOf of an edgeless graph is empty")
		}
	}
}

func (s *verifC12WState) count() [][]int {
	cnt := make([][]int, len(s.m.ids))
	for i := range cnt {
		cnt[i] = make([]int, len(s.m.ids))
	}
	return cnt
}

func (s *verifC12WState) once(cnt [][]int, msg string) {
	m := s.m
	for a := range m.ids {
		for b := range m.ids {
			want := 0
			if m.edge[a][b] {
				want = 1
			}
			if s.v.directed {
				verifAssert(cnt[a][b] == want, msg)
			} else if a < b {
				verifAssert(cnt[a][b]+cnt[b][a] == want, msg)
			}
		}
	}
}

// VerifC12_WeightedStep: every operation of the four map-backed graphs from
// every pre-state, with symbolic self/absent weights and labelled nodes.
func VerifC12_WeightedStep() {
	s := verifC12WNew(verifParam("c12wn", 2))
	v, m := s.v, s.m
	switch verifChoose("op", 0, 4) {
	case 0: // AddNode
		i, id := verifC12Arg(m, "arg")
		panicked, fault, _ := verifCatch(func() { v.g.AddNode(verifC12WNode{id: id, label: 5}) })
		verifAssert(!fault, "AddNode: no runtime fault")
		verifAssert(panicked == m.present[i], "AddNode: panics iff the ID is already in the graph")
		if !m.present[i] {
			m.present[i] = true
			s.labels[i] = 5
		}
		s.post("AddNode")
	case 1: // NewNode + AddNode
		nd := v.g.NewNode()
		for i, x := range m.ids {
			if m.present[i] {
				verifAssert(nd.ID() != x, "NewNode: issued ID is not the ID of a live node")
			}
		}
		panicked, _, _ := verifCatch(func() { v.g.AddNode(nd) })
		verifAssert(!panicked, "NewNode: adding the issued node does not panic")
		i := s.grow(nd.ID())
		m.present[i] = true
		s.post("NewNode+AddNode")
	case 2: // RemoveNode
		i, id := verifC12Arg(m, "arg")
		v.g.RemoveNode(id)
		m.removeNode(i)
		s.labels[i] = 0
		s.post("RemoveNode")
	case 3: // New(Weighted)Edge + Set(Weighted)Edge with labelled end points
		i, u := verifC12Arg(m, "u")
		j, w := verifC12Arg(m, "v")
		from, to := verifC12WNode{id: u, label: 7}, verifC12WNode{id: w, label: 8}
		wt := 1.0
		var set func()
		if v.weighted {
			wt = verifFloat("wnew")
			b := v.g.(interface {
				NewWeightedEdge(from, to graph.Node, w float64) graph.WeightedEdge
				SetWeightedEdge(graph.WeightedEdge)
			})
			e := b.NewWeightedEdge(from, to, wt)
			verifAssert(e.From().ID() == u && e.To().ID() == w, "NewWeightedEdge: runs from the source to the destination")
			verifAssertEqF(e.Weight(), wt, "NewWeightedEdge: carries the given weight")
			set = func() { b.SetWeightedEdge(e) }
		} else {
			b := v.g.(interface {
				NewEdge(from, to graph.Node) graph.Edge
				SetEdge(graph.Edge)
			})
			e := b.NewEdge(from, to)
			verifAssert(e.From().ID() == u && e.To().ID() == w, "NewEdge: runs from the source to the destination")
			set = func() { b.SetEdge(e) }
		}
		// New*Edge does not change the graph
		verifAssert((v.g.Node(u) != nil) == m.present[i] && (v.g.Node(w) != nil) == m.present[j] && v.out(u, w) == m.edge[i][j],
			"NewEdge/NewWeightedEdge do not change the graph")
		panicked, fault, _ := verifCatch(set)
		verifAssert(!fault, "SetEdge: no runtime fault")
		verifAssert(panicked == (i == j), "SetEdge: panics iff the edge is a self loop")
		if i != j {
			m.present[i], m.present[j] = true, true
			s.labels[i], s.labels[j] = 7, 8
			m.edge[i][j], m.w[i][j] = true, wt
			if !v.directed {
				m.edge[j][i], m.w[j][i] = true, wt
			}
		}
		s.post("SetEdge")
	default: // RemoveEdge
		i, u := verifC12Arg(m, "u")
		j, w := verifC12Arg(m, "v")
		panicked, _, _ := verifCatch(func() { v.g.RemoveEdge(u, w) })
		verifAssert(!panicked, "RemoveEdge: never panics")
		m.edge[i][j] = false
		if !v.directed {
			m.edge[j][i] = false
		}
		s.post("RemoveEdge")
	}
	verifReach("end")
}
