package simple

import (
	"math"

	"gonum.org/v1/gonum/graph"
	"gonum.org/v1/gonum/mat"
)

// C12, dense-matrix graphs: the operations and queries that the first dense
// harnesses leave out — SetEdge (unit weight), SetWeightedEdge with a weight
// that may EQUAL the absent marker (the absent-weight convention: such an
// edge does not exist), the constructor's init weight, RemoveEdge(u,u),
// Edges()/WeightedEdges() (each edge exactly once, Len, Reset),
// EdgeBetween/WeightedEdgeBetween, and the Matrix() view.

// verifC12DensePost2 checks the edge iterators, the undirected "between"
// queries and Matrix() against the model. diagSelf: assert the diagonal of
// Matrix() (the constructor writes the self weight there).
func verifC12DensePost2(g verifC12Dense, directed bool, n int, edge [][]bool, w [][]float64, self, absent float64, diagSelf bool, who string) {
	nEdges := 0
	for i := 0; i < n; i++ {
		for j := 0; j < n; j++ {
			if edge[i][j] && (directed || i < j) {
				nEdges++
			}
		}
	}
	type lister interface {
		Edges() graph.Edges
		WeightedEdges() graph.WeightedEdges
		Matrix() mat.Matrix
	}
	l := g.(lister)
	newCnt := func() [][]int {
		c := make([][]int, n)
		for i := range c {
			c[i] = make([]int, n)
		}
		return c
	}
	once := func(cnt [][]int, msg string) {
		for a := 0; a < n; a++ {
			for b := 0; b < n; b++ {
				want := 0
				if edge[a][b] {
					want = 1
				}
				if directed {
					verifAssert(cnt[a][b] == want, msg)
				} else if a < b {
					verifAssert(cnt[a][b]+cnt[b][a] == want, msg)
				}
			}
		}
	}
	in := func(id int64) bool { return id >= 0 && id < int64(n) }
	eit := l.Edges()
	wit := l.WeightedEdges()
	for round := 0; round < 2; round++ {
		cnt := newCnt()
		verifAssert(eit.Len() == nEdges, who+": Edges().Len is the number of edges")
		k := 0
		for eit.Next() {
			k++
			if k > nEdges {
				verifAssert(false, who+": Edges() yields no more items than there are edges")
				return
			}
			e := eit.Edge()
			a, b := e.From().ID(), e.To().ID()
			ok := in(a) && in(b) && edge[a][b]
			verifAssert(ok, who+": Edges() yields only edges of the graph")
			if ok {
				cnt[a][b]++
			}
			verifAssert(eit.Len() == nEdges-k, who+": Edges().Len is the number of remaining items")
		}
		verifAssert(k == nEdges, who+": Edges() yields every edge")
		once(cnt, who+": Edges() yields every edge exactly once")
		eit.Reset()

		cnt = newCnt()
		verifAssert(wit.Len() == nEdges, who+": WeightedEdges().Len is the number of edges")
		k = 0
		for wit.Next() {
			k++
			if k > nEdges {
				verifAssert(false, who+": WeightedEdges() yields no more items than there are edges")
				return
			}
			e := wit.WeightedEdge()
			a, b := e.From().ID(), e.To().ID()
			ok := in(a) && in(b) && edge[a][b]
			verifAssert(ok, who+": WeightedEdges() yields only edges of the graph")
			if ok {
				cnt[a][b]++
				verifAssertEqF(e.Weight(), w[a][b], who+": WeightedEdges() items carry the stored weight")
			}
			verifAssert(wit.Len() == nEdges-k, who+": WeightedEdges().Len is the number of remaining items")
		}
		verifAssert(k == nEdges, who+": WeightedEdges() yields every edge")
		once(cnt, who+": WeightedEdges() yields every edge exactly once")
		wit.Reset()
	}
	if ug, ok := g.(interface {
		EdgeBetween(x, y int64) graph.Edge
		WeightedEdgeBetween(x, y int64) graph.WeightedEdge
	}); ok {
		for i := -1; i <= n; i++ {
			for j := -1; j <= n; j++ {
				e := i >= 0 && i < n && j >= 0 && j < n && edge[i][j]
				eb := ug.EdgeBetween(int64(i), int64(j))
				wb := ug.WeightedEdgeBetween(int64(i), int64(j))
				verifAssert((eb != nil) == e && (wb != nil) == e, who+": EdgeBetween/WeightedEdgeBetween non-nil iff the edge exists")
				if wb != nil && e {
					verifAssertEqF(wb.Weight(), w[i][j], who+": WeightedEdgeBetween carries the stored weight")
					a, b := wb.From().ID(), wb.To().ID()
					verifAssert((a == int64(i) && b == int64(j)) || (a == int64(j) && b == int64(i)), who+": WeightedEdgeBetween(x,y) joins x and y")
				}
			}
		}
	}
	mx := l.Matrix()
	r, c := mx.Dims()
	verifAssert(r == n && c == n, who+": Matrix() is n x n")
	if r == n && c == n {
		for i := 0; i < n; i++ {
			for j := 0; j < n; j++ {
				switch {
				case i == j:
					if diagSelf {
						verifAssertEqF(mx.At(i, j), self, who+": Matrix() diagonal holds the self weight")
					}
				case edge[i][j]:
					verifAssertEqF(mx.At(i, j), w[i][j], who+": Matrix() entry (i,j) is the weight of the edge i -> j")
				default:
					verifAssertEqF(mx.At(i, j), absent, who+": Matrix() entry of an absent edge is the absent weight")
				}
			}
		}
	}
}

func verifC12DenseLabels(n int) []int {
	labels := make([]int, n)
	for i := range labels {
		labels[i] = 100 + i
	}
	return labels
}

// VerifC12_DenseOps: SetEdge (unit weight), SetWeightedEdge with an arbitrary
// weight (possibly the absent marker) and RemoveEdge on every dense pre-state;
// all queries incl. the edge iterators and Matrix() (off-diagonal).
func VerifC12_DenseOps() {
	n := verifChoose("n", 1, verifParam("densen", 2))
	directed := verifChoose("directed", 0, 1) == 1
	from := verifChoose("from", 0, 1) == 1
	g, edge, w, self, absent := verifC12DenseState(directed, from, n)
	labels := verifC12DenseLabels(n)
	u := verifChoose("u", -1, n)
	v := verifChoose("v", -1, n)
	bad := u == v || u < 0 || u >= n || v < 0 || v >= n
	who := ""
	switch verifChoose("op", 0, 2) {
	case 0:
		who = "dense SetEdge"
		e := Edge{F: verifC12Label{id: int64(u), label: 7}, T: verifC12Label{id: int64(v), label: 8}}
		panicked, _, _ := verifCatch(func() { g.SetEdge(e) })
		verifAssert(panicked == bad, "dense SetEdge: panics iff self loop or an end outside the matrix")
		if !bad {
			labels[u], labels[v] = 7, 8
			// unit weight; if the absent marker is 1 the edge is (by the
			// absent-weight convention) not there
			if absent == 1 {
				edge[u][v] = false
			} else {
				edge[u][v], w[u][v] = true, 1
			}
			if !directed {
				edge[v][u], w[v][u] = edge[u][v], w[u][v]
			}
		}
	case 1:
		who = "dense SetWeightedEdge"
		x := verifFloat("wnew")
		e := WeightedEdge{F: verifC12Label{id: int64(u), label: 7}, T: verifC12Label{id: int64(v), label: 8}, W: x}
		panicked, _, _ := verifCatch(func() { g.SetWeightedEdge(e) })
		verifAssert(panicked == bad, "dense SetWeightedEdge: panics iff self loop or an end outside the matrix")
		if !bad {
			labels[u], labels[v] = 7, 8
			if x == absent {
				edge[u][v] = false
			} else {
				edge[u][v], w[u][v] = true, x
			}
			if !directed {
				edge[v][u], w[v][u] = edge[u][v], w[u][v]
			}
		}
	default:
		who = "dense RemoveEdge"
		panicked, _, _ := verifCatch(func() { g.RemoveEdge(int64(u), int64(v)) })
		verifAssert(!panicked, "dense RemoveEdge: never panics")
		if !bad {
			edge[u][v] = false
			if !directed {
				edge[v][u] = false
			}
		}
	}
	verifC12DensePost(g, directed, from, n, edge, w, self, absent, labels, who)
	verifC12DensePost2(g, directed, n, edge, w, self, absent, false, who)
	verifReach("end")
}

// VerifC12_DenseInit: the constructors: New*Matrix(n, init, self, absent)
// gives the complete graph with weight init, or the empty graph when init is
// the absent marker; Matrix() has self on the diagonal.
func VerifC12_DenseInit() {
	n := verifChoose("n", 1, verifParam("densen", 2))
	directed := verifChoose("directed", 0, 1) == 1
	from := verifChoose("from", 0, 1) == 1
	init, self, absent := verifFloat("init"), verifFloat("self"), verifFloat("absent")
	var nodes []graph.Node
	if from {
		nodes = make([]graph.Node, n)
		for i := range nodes {
			nodes[i] = verifC12Label{id: int64(n - 1 - i), label: 100 + n - 1 - i}
		}
	}
	var g verifC12Dense
	switch {
	case directed && from:
		g = NewDirectedMatrixFrom(nodes, init, self, absent)
	case directed:
		g = NewDirectedMatrix(n, init, self, absent)
	case from:
		g = NewUndirectedMatrixFrom(nodes, init, self, absent)
	default:
		g = NewUndirectedMatrix(n, init, self, absent)
	}
	complete := true
	if init == absent {
		complete = false
	}
	edge := make([][]bool, n)
	w := make([][]float64, n)
	for i := range edge {
		edge[i] = make([]bool, n)
		w[i] = make([]float64, n)
		for j := range edge[i] {
			if i != j && complete {
				edge[i][j], w[i][j] = true, init
			}
		}
	}
	verifC12DensePost(g, directed, from, n, edge, w, self, absent, verifC12DenseLabels(n), "dense constructor")
	verifC12DensePost2(g, directed, n, edge, w, self, absent, true, "dense constructor")
	verifReach("end")
}

// VerifC12_DenseRemoveSelf: RemoveEdge(u,u): there is no self edge (Edge(u,u)
// is nil), so by "If the edge does not exist it is a no-op" nothing observable
// changes, incl. the Matrix() view whose diagonal the constructor set to the
// self weight.
func VerifC12_DenseRemoveSelf() {
	n := verifChoose("n", 1, verifParam("densen", 2))
	directed := verifChoose("directed", 0, 1) == 1
	g, edge, w, self, absent := verifC12DenseState(directed, false, n)
	u := verifChoose("u", 0, n-1)
	verifAssert(g.Edge(int64(u), int64(u)) == nil, "dense: there is no self edge")
	verifC12DensePost2(g, directed, n, edge, w, self, absent, true, "dense pre-state")
	g.RemoveEdge(int64(u), int64(u))
	verifC12DensePost(g, directed, false, n, edge, w, self, absent, verifC12DenseLabels(n), "dense RemoveEdge(u,u)")
	verifC12DensePost2(g, directed, n, edge, w, self, absent, true, "dense RemoveEdge(u,u)")
	verifReach("end")
}

// VerifC12_DenseAbsentF (model F: IEEE bit patterns incl. NaN and Inf): the
// absent-weight convention with an arbitrary absent marker: a cell holds an
// edge iff its weight is not the same value as the marker, where two NaNs
// count as the same (an absent marker of NaN works); the stored weight comes
// back bit for bit.
func VerifC12_DenseAbsentF() {
	directed := verifChoose("directed", 0, 1) == 1
	self, absent, x := verifFloat("self"), verifFloat("absent"), verifFloat("x")
	var g verifC12Dense
	if directed {
		g = NewDirectedMatrix(2, absent, self, absent)
	} else {
		g = NewUndirectedMatrix(2, absent, self, absent)
	}
	verifAssert(!g.HasEdgeBetween(0, 1) && g.Edge(0, 1) == nil && g.Edge(1, 0) == nil, "dense(F): init == absent gives the empty graph")
	w0, ok0 := g.Weight(0, 1)
	verifAssert(!ok0 && verifSame(w0, absent), "dense(F): Weight of an absent edge is the absent marker, ok false")
	g.SetWeightedEdge(WeightedEdge{F: Node(0), T: Node(1), W: x})
	same := verifOr(x == absent, verifAnd(math.IsNaN(x), math.IsNaN(absent)))
	has := g.HasEdgeBetween(0, 1)
	verifAssert(has == !same, "dense(F): an edge exists iff its weight is not the absent marker (NaN equals NaN)")
	wt, ok := g.Weight(0, 1)
	verifAssert(ok == !same, "dense(F): Weight ok iff the edge exists")
	verifAssert(verifOr(!ok, verifSame(wt, x)), "dense(F): Weight returns the stored weight bit for bit")
	verifAssert(verifOr(ok, verifSame(wt, absent)), "dense(F): Weight of an absent edge is the absent marker")
	e := g.WeightedEdge(0, 1)
	verifAssert((e != nil) == !same, "dense(F): WeightedEdge non-nil iff the edge exists")
	rev := g.WeightedEdge(1, 0)
	if directed {
		verifAssert(rev == nil, "dense(F) directed: the reverse edge is not created")
	} else {
		verifAssert((rev != nil) == !same, "dense(F) undirected: the edge exists in both orientations")
	}
	ws, oks := g.Weight(1, 1)
	verifAssert(oks && verifSame(ws, self), "dense(F): Weight(u,u) is the self weight")
	g.RemoveEdge(0, 1)
	verifAssert(!g.HasEdgeBetween(0, 1), "dense(F): RemoveEdge removes the edge for every absent marker")
	verifReach("end")
}
