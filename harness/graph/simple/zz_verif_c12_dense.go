package simple

import (
	"gonum.org/v1/gonum/graph"
)

// verifC12Label is a node type carrying a label, to observe which node object
// a dense graph built with New*MatrixFrom holds for an ID.
type verifC12Label struct {
	id    int64
	label int
}

func (n verifC12Label) ID() int64 { return n.id }

type verifC12Dense interface {
	graph.Weighted
	graph.EdgeRemover
	SetWeightedEdge(graph.WeightedEdge)
	SetEdge(graph.Edge)
}

// verifC12DenseState: a dense graph of order n in an arbitrary state: every
// off-diagonal cell either absent or a symbolic weight different from the
// (symbolic) absent marker; self weight symbolic. from: built with
// New*MatrixFrom (explicit, labelled nodes) or with New*Matrix.
func verifC12DenseState(directed, from bool, n int) (g verifC12Dense, edge [][]bool, w [][]float64, self, absent float64) {
	self = verifFloat("self")
	absent = verifFloat("absent")
	var nodes []graph.Node
	if from {
		nodes = make([]graph.Node, n)
		for i := range nodes {
			// given out of order: the constructor sorts by ID
			nodes[i] = verifC12Label{id: int64(n - 1 - i), label: 100 + n - 1 - i}
		}
	}
	if directed {
		if from {
			g = NewDirectedMatrixFrom(nodes, absent, self, absent)
		} else {
			g = NewDirectedMatrix(n, absent, self, absent)
		}
	} else {
		if from {
			g = NewUndirectedMatrixFrom(nodes, absent, self, absent)
		} else {
			g = NewUndirectedMatrix(n, absent, self, absent)
		}
	}
	edge = make([][]bool, n)
	w = make([][]float64, n)
	for i := range edge {
		edge[i] = make([]bool, n)
		w[i] = make([]float64, n)
	}
	for i := 0; i < n; i++ {
		for j := 0; j < n; j++ {
			if i == j || (!directed && j < i) {
				continue
			}
			if verifChoose("edge", 0, 1) == 1 {
				x := verifFloat(verifC12Name("w", i, j))
				verifAssume(x != absent)
				edge[i][j], w[i][j] = true, x
				if !directed {
					edge[j][i], w[j][i] = true, x
				}
				// raw write of the pre-state
				switch m := g.(type) {
				case *DirectedMatrix:
					m.mat.Set(i, j, x)
				case *UndirectedMatrix:
					m.mat.SetSym(i, j, x)
				}
			}
		}
	}
	return g, edge, w, self, absent
}

func verifC12DensePost(g verifC12Dense, directed, from bool, n int, edge [][]bool, w [][]float64, self, absent float64, labels []int, who string) {
	// nodes: exactly 0..n-1
	for id := int64(-1); id <= int64(n); id++ {
		in := id >= 0 && id < int64(n)
		nd := g.Node(id)
		verifAssert((nd != nil) == in, who+": Node(id) non-nil iff 0 <= id < n")
		if nd != nil {
			verifAssert(nd.ID() == id, who+": Node(id) has the requested ID")
			if from {
				l, ok := nd.(verifC12Label)
				verifAssert(ok && l.label == labels[id], who+": the stored node object for an ID is the expected one")
			}
		}
	}
	it := g.Nodes()
	verifAssert(it.Len() == n, who+": Nodes().Len is the order")
	seen := make([]int, n)
	for it.Next() {
		id := it.Node().ID()
		verifAssert(id >= 0 && id < int64(n), who+": Nodes() yields IDs in range")
		if id >= 0 && id < int64(n) {
			seen[id]++
		}
	}
	for i := range seen {
		verifAssert(seen[i] == 1, who+": Nodes() yields every node exactly once")
	}
	for i := -1; i <= n; i++ {
		for j := -1; j <= n; j++ {
			in := i >= 0 && i < n && j >= 0 && j < n
			e := in && edge[i][j]
			rev := in && edge[j][i]
			ui, vj := int64(i), int64(j)
			verifAssert(g.HasEdgeBetween(ui, vj) == (e || rev), who+": HasEdgeBetween agrees with the edge set")
			if dg, ok := g.(graph.Directed); ok {
				verifAssert(dg.HasEdgeFromTo(ui, vj) == e, who+": HasEdgeFromTo agrees with the edge set")
			}
			ed := g.Edge(ui, vj)
			verifAssert((ed != nil) == e, who+": Edge non-nil iff the edge exists")
			if ed != nil {
				verifAssert(ed.From().ID() == ui && ed.To().ID() == vj, who+": Edge(u,v) runs from u to v")
			}
			we := g.WeightedEdge(ui, vj)
			verifAssert((we != nil) == e, who+": WeightedEdge non-nil iff the edge exists")
			wt, ok := g.Weight(ui, vj)
			verifAssert(ok == (e || i == j), who+": Weight ok iff edge exists or u == v")
			switch {
			case i == j:
				verifAssertEqF(wt, self, who+": Weight(u,u) is the self weight")
			case e:
				verifAssertEqF(wt, w[i][j], who+": Weight is the stored weight")
				verifAssertEqF(we.Weight(), w[i][j], who+": WeightedEdge carries the stored weight")
			default:
				verifAssertEqF(wt, absent, who+": Weight of an absent edge is the absent weight")
			}
		}
		// From / To enumerate exactly the neighbours
		if i >= 0 && i < n {
			cnt := make([]int, n)
			fr := g.From(int64(i))
			k := 0
			for fr.Next() {
				id := fr.Node().ID()
				if id >= 0 && id < int64(n) {
					cnt[id]++
				}
				k++
			}
			deg := 0
			for j := 0; j < n; j++ {
				want := 0
				if edge[i][j] {
					want = 1
					deg++
				}
				verifAssert(cnt[j] == want, who+": From yields exactly the successors, once each")
			}
			verifAssert(k == deg, who+": From yields nothing else")
			if dg, ok := g.(graph.Directed); ok {
				cnt := make([]int, n)
				to := dg.To(int64(i))
				for to.Next() {
					id := to.Node().ID()
					if id >= 0 && id < int64(n) {
						cnt[id]++
					}
				}
				for j := 0; j < n; j++ {
					want := 0
					if edge[j][i] {
						want = 1
					}
					verifAssert(cnt[j] == want, who+": To yields exactly the predecessors, once each")
				}
			}
		} else {
			verifAssert(g.From(int64(i)).Len() == 0, who+": From of an ID outside the matrix is empty")
		}
	}
}

// VerifC12_DenseSetEdge: SetWeightedEdge on the dense graphs: panics exactly
// for a self loop or an end outside the matrix and then leaves the graph
// unchanged; otherwise sets exactly that cell (both cells if undirected).
func VerifC12_DenseSetEdge() {
	n := verifChoose("n", 1, verifParam("densen", 3))
	directed := verifChoose("directed", 0, 1) == 1
	from := verifChoose("from", 0, 1) == 1
	g, edge, w, self, absent := verifC12DenseState(directed, from, n)
	labels := make([]int, n)
	for i := range labels {
		labels[i] = 100 + i
	}
	verifC12DensePost(g, directed, from, n, edge, w, self, absent, labels, "dense pre-state")
	u := verifChoose("u", -1, n)
	v := verifChoose("v", -1, n)
	x := verifFloat("wnew")
	verifAssume(x != absent)
	e := WeightedEdge{F: verifC12Label{id: int64(u), label: 7}, T: verifC12Label{id: int64(v), label: 8}, W: x}
	panicked, _, _ := verifCatch(func() { g.SetWeightedEdge(e) })
	bad := u == v || u < 0 || u >= n || v < 0 || v >= n
	verifAssert(panicked == bad, "dense SetWeightedEdge: panics iff self loop or an end outside the matrix")
	if !bad {
		edge[u][v], w[u][v] = true, x
		labels[u], labels[v] = 7, 8
		if !directed {
			edge[v][u], w[v][u] = true, x
		}
	}
	verifC12DensePost(g, directed, from, n, edge, w, self, absent, labels, "dense SetWeightedEdge")
	verifReach("end")
}

// VerifC12_DenseRemoveEdge: RemoveEdge clears exactly that edge, no-op for
// IDs outside the matrix.
func VerifC12_DenseRemoveEdge() {
	n := verifChoose("n", 1, verifParam("densen", 3))
	directed := verifChoose("directed", 0, 1) == 1
	from := verifChoose("from", 0, 1) == 1
	g, edge, w, self, absent := verifC12DenseState(directed, from, n)
	labels := make([]int, n)
	for i := range labels {
		labels[i] = 100 + i
	}
	u := verifChoose("u", -1, n)
	v := verifChoose("v", -1, n)
	panicked, _, _ := verifCatch(func() { g.RemoveEdge(int64(u), int64(v)) })
	verifAssert(!panicked, "dense RemoveEdge: never panics")
	if u >= 0 && u < n && v >= 0 && v < n && u != v {
		edge[u][v] = false
		if !directed {
			edge[v][u] = false
		}
	}
	verifC12DensePost(g, directed, from, n, edge, w, self, absent, labels, "dense RemoveEdge")
	verifReach("end")
}
