package set

import "gonum.org/v1/gonum/graph"

type verifC12Node int64

func (n verifC12Node) ID() int64 { return int64(n) }

var verifC12IDs = []int64{0, 3, -2, 1 << 62}

func verifC12Ints(name string) (Ints[int64], []bool) {
	s := make(Ints[int64])
	in := make([]bool, len(verifC12IDs))
	for i, id := range verifC12IDs {
		if verifChoose(name, 0, 1) == 1 {
			s.Add(id)
			in[i] = true
		}
	}
	return s, in
}

func verifC12NodesSet(name string) (Nodes, []bool) {
	s := NewNodes()
	in := make([]bool, len(verifC12IDs))
	for i, id := range verifC12IDs {
		if verifChoose(name, 0, 1) == 1 {
			s.Add(verifC12Node(id))
			in[i] = true
		}
	}
	return s, in
}

func verifC12Count(in []bool) int {
	n := 0
	for _, b := range in {
		if b {
			n++
		}
	}
	return n
}

// VerifC12_SetInts: Add/Remove/Has/Count of Ints behave as a set of integers.
func VerifC12_SetInts() {
	s, in := verifC12Ints("a")
	k := verifChoose("arg", 0, len(verifC12IDs)-1)
	if verifChoose("op", 0, 1) == 0 {
		s.Add(verifC12IDs[k])
		in[k] = true
	} else {
		s.Remove(verifC12IDs[k])
		in[k] = false
	}
	for i, id := range verifC12IDs {
		verifAssert(s.Has(id) == in[i], "Ints: Has agrees with the model after Add/Remove")
	}
	verifAssert(!s.Has(99), "Ints: an ID never added is not a member")
	verifAssert(s.Count() == verifC12Count(in), "Ints: Count is the number of members")
	verifReach("end")
}

// VerifC12_SetNodes: Nodes Add/Remove/Has/Count, Clone, Union, Intersection,
// Equal against the set model.
func VerifC12_SetNodes() {
	a, ina := verifC12NodesSet("a")
	b, inb := verifC12NodesSet("b")
	verifAssert(a.Count() == verifC12Count(ina), "Nodes: Count is the number of members")
	eq := true
	for i := range ina {
		if ina[i] != inb[i] {
			eq = false
		}
	}
	verifAssert(Equal(a, b) == eq, "Nodes: Equal iff same members")
	verifAssert(Equal(a, a), "Nodes: Equal is reflexive")
	u := UnionOfNodes(a, b)
	x := IntersectionOfNodes(a, b)
	c := CloneNodes(a)
	nu, nx := 0, 0
	for i, id := range verifC12IDs {
		n := graph.Node(verifC12Node(id))
		verifAssert(a.Has(n) == ina[i], "Nodes: Has agrees with the model")
		verifAssert(u.Has(n) == (ina[i] || inb[i]), "Nodes: union membership")
		verifAssert(x.Has(n) == (ina[i] && inb[i]), "Nodes: intersection membership")
		verifAssert(c.Has(n) == ina[i], "Nodes: clone membership")
		if ina[i] || inb[i] {
			nu++
		}
		if ina[i] && inb[i] {
			nx++
		}
	}
	verifAssert(u.Count() == nu && x.Count() == nx && c.Count() == a.Count(), "Nodes: result sizes")
	// the clone is independent of the original
	k := verifChoose("arg", 0, len(verifC12IDs)-1)
	c.Remove(verifC12Node(verifC12IDs[k]))
	verifAssert(a.Has(verifC12Node(verifC12IDs[k])) == ina[k], "Nodes: removing from a clone leaves the original alone")
	// self operations (the `same` fast path)
	ua := UnionOfNodes(a, a)
	xa := IntersectionOfNodes(a, a)
	verifAssert(Equal(ua, a) && Equal(xa, a), "Nodes: union/intersection with itself is the set")
	verifReach("end")
}
