package linear

import "gonum.org/v1/gonum/graph"

// C12: the stack and queue used by the traversals behave as LIFO / FIFO
// containers from EVERY representation state: NodeQueue = (head, data[:len]
// with any spare capacity); one operation; the abstract content afterwards is
// the model's. Covers the compaction branch of Enqueue (len == cap, head > 0)
// and the reset-on-empty branch of Dequeue.

type verifC12N int64

func (n verifC12N) ID() int64 { return int64(n) }

func verifC12Content(q *NodeQueue) []int64 {
	var ids []int64
	for i := q.head; i < len(q.data); i++ {
		ids = append(ids, q.data[i].ID())
	}
	return ids
}

// VerifC12_LinearQueueStep: arbitrary valid queue state, then Enqueue /
// Dequeue / Reset.
func VerifC12_LinearQueueStep() {
	maxn := verifParam("qmax", 4)
	l := verifChoose("len", 0, maxn)   // len(data)
	c := verifChoose("cap", l, maxn+1) // cap(data)
	h := 0                             // head
	if l > 0 {
		h = verifChoose("head", 0, l-1) // a non-empty queue: head < len; an empty one is always (0, 0)
	}
	q := &NodeQueue{head: h, data: make([]graph.Node, l, c)}
	var model []int64
	for i := 0; i < l; i++ {
		if i >= h {
			q.data[i] = verifC12N(10 + i)
			model = append(model, int64(10+i))
		}
	}
	verifAssert(q.Len() == len(model), "queue: Len is the number of queued nodes")
	switch verifChoose("op", 0, 2) {
	case 0:
		q.Enqueue(verifC12N(99))
		model = append(model, 99)
	case 1:
		var n graph.Node
		panicked, fault, _ := verifCatch(func() { n = q.Dequeue() })
		verifAssert(!fault, "queue: Dequeue never faults")
		verifAssert(panicked == (len(model) == 0), "queue: Dequeue panics iff the queue is empty")
		if !panicked {
			verifAssert(n != nil && n.ID() == model[0], "queue: Dequeue returns the oldest node")
			model = model[1:]
		}
	default:
		q.Reset()
		model = nil
	}
	verifAssert(q.Len() == len(model), "queue: Len after the operation")
	got := verifC12Content(q)
	verifAssert(len(got) == len(model), "queue: content length")
	if len(got) == len(model) {
		for i := range got {
			verifAssert(got[i] == model[i], "queue: content in FIFO order")
		}
	}
	// representation invariant re-established
	verifAssert(q.head >= 0 && q.head <= len(q.data) && (q.head < len(q.data) || len(q.data) == 0 && q.head == 0), "queue: head is inside data, (0,0) when empty")
	// and the whole content comes out in order
	for i := range model {
		verifAssert(q.Dequeue().ID() == model[i], "queue: draining yields FIFO order")
	}
	verifAssert(q.Len() == 0, "queue: empty after draining")
	verifReach("end")
}

// VerifC12_LinearHistory: every sequence of hlen operations from the zero
// values: queue {Enqueue, Dequeue, Reset} and stack {Push, Pop} against
// slices.
func VerifC12_LinearHistory() {
	steps := verifParam("lhlen", 6)
	var q NodeQueue
	var s NodeStack
	var mq, ms []int64
	for i := 0; i < steps; i++ {
		switch verifChoose("op", 0, 2) {
		case 0:
			q.Enqueue(verifC12N(i))
			s.Push(verifC12N(i))
			mq = append(mq, int64(i))
			ms = append(ms, int64(i))
		case 1:
			if len(mq) == 0 {
				panicked, _, _ := verifCatch(func() { q.Dequeue() })
				verifAssert(panicked, "history: Dequeue of an empty queue panics")
			} else {
				verifAssert(q.Dequeue().ID() == mq[0], "history: Dequeue is FIFO")
				mq = mq[1:]
			}
			if len(ms) > 0 {
				verifAssert(s.Pop().ID() == ms[len(ms)-1], "history: Pop is LIFO")
				ms = ms[:len(ms)-1]
			}
		default:
			q.Reset()
			mq = nil
		}
		verifAssert(q.Len() == len(mq), "history: queue Len")
		verifAssert(s.Len() == len(ms), "history: stack Len")
	}
	verifReach("end")
}
