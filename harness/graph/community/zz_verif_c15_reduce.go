package community

// Solver harnesses for property C15, in-package part: one Louvain aggregation
// step (reduceUndirected / reduceDirected) applied to an ARBITRARY partition.
// The reduced graph must have one node per non-empty community, edge weights
// equal to the inter-community sums, node weights equal to the intra-community
// sums, report the partition through Communities(), and have the same
// modularity (as singletons) as the original graph with that partition.

import (
	"math"

	"gonum.org/v1/gonum/graph"
	"gonum.org/v1/gonum/graph/iterator"
)

const verifC15Max = 5

var verifC15IDs = [verifC15Max]int64{5, 1, 9, -3, 1 << 40}

type verifC15Node int64

func (n verifC15Node) ID() int64 { return int64(n) }

type verifC15Edge struct {
	f, t verifC15Node
	w    float64
}

func (e verifC15Edge) From() graph.Node         { return e.f }
func (e verifC15Edge) To() graph.Node           { return e.t }
func (e verifC15Edge) ReversedEdge() graph.Edge { return verifC15Edge{f: e.t, t: e.f, w: e.w} }
func (e verifC15Edge) Weight() float64          { return e.w }

// verifC15Graph: adjacency-matrix graph.WeightedDirected exposing only the
// graph interfaces.
type verifC15Graph struct {
	n   int
	adj [][]bool
	w   [][]float64
}

func verifC15New(n int) *verifC15Graph {
	g := &verifC15Graph{n: n}
	g.adj = make([][]bool, n)
	g.w = make([][]float64, n)
	for i := range g.adj {
		g.adj[i] = make([]bool, n)
		g.w[i] = make([]float64, n)
	}
	return g
}

func (g *verifC15Graph) idx(id int64) int {
	for i := 0; i < g.n; i++ {
		if verifC15IDs[i] == id {
			return i
		}
	}
	return -1
}

func (g *verifC15Graph) Node(id int64) graph.Node {
	if g.idx(id) < 0 {
		return nil
	}
	return verifC15Node(id)
}

func (g *verifC15Graph) Nodes() graph.Nodes {
	if g.n == 0 {
		return graph.Empty
	}
	nodes := make([]graph.Node, g.n)
	for i := range nodes {
		nodes[i] = verifC15Node(verifC15IDs[i])
	}
	return iterator.NewOrderedNodes(nodes)
}

func (g *verifC15Graph) From(id int64) graph.Nodes {
	i := g.idx(id)
	if i < 0 {
		return graph.Empty
	}
	var nodes []graph.Node
	for j := 0; j < g.n; j++ {
		if g.adj[i][j] {
			nodes = append(nodes, verifC15Node(verifC15IDs[j]))
		}
	}
	if len(nodes) == 0 {
		return graph.Empty
	}
	return iterator.NewOrderedNodes(nodes)
}

func (g *verifC15Graph) To(id int64) graph.Nodes {
	j := g.idx(id)
	if j < 0 {
		return graph.Empty
	}
	var nodes []graph.Node
	for i := 0; i < g.n; i++ {
		if g.adj[i][j] {
			nodes = append(nodes, verifC15Node(verifC15IDs[i]))
		}
	}
	if len(nodes) == 0 {
		return graph.Empty
	}
	return iterator.NewOrderedNodes(nodes)
}

func (g *verifC15Graph) HasEdgeFromTo(uid, vid int64) bool {
	i, j := g.idx(uid), g.idx(vid)
	if i < 0 || j < 0 {
		return false
	}
	return g.adj[i][j]
}

func (g *verifC15Graph) HasEdgeBetween(xid, yid int64) bool {
	return g.HasEdgeFromTo(xid, yid) || g.HasEdgeFromTo(yid, xid)
}

func (g *verifC15Graph) Edge(uid, vid int64) graph.Edge {
	if !g.HasEdgeFromTo(uid, vid) {
		return nil
	}
	return verifC15Edge{f: verifC15Node(uid), t: verifC15Node(vid), w: g.w[g.idx(uid)][g.idx(vid)]}
}

func (g *verifC15Graph) WeightedEdge(uid, vid int64) graph.WeightedEdge {
	if !g.HasEdgeFromTo(uid, vid) {
		return nil
	}
	return verifC15Edge{f: verifC15Node(uid), t: verifC15Node(vid), w: g.w[g.idx(uid)][g.idx(vid)]}
}

func (g *verifC15Graph) Weight(xid, yid int64) (float64, bool) {
	if xid == yid {
		return 0, true
	}
	if g.HasEdgeFromTo(xid, yid) {
		return g.w[g.idx(xid)][g.idx(yid)], true
	}
	return math.Inf(1), false
}

// verifC15UGraph: the undirected view (adj and w symmetric).
type verifC15UGraph struct{ *verifC15Graph }

func (g verifC15UGraph) EdgeBetween(xid, yid int64) graph.Edge { return g.Edge(xid, yid) }
func (g verifC15UGraph) WeightedEdgeBetween(xid, yid int64) graph.WeightedEdge {
	return g.WeightedEdge(xid, yid)
}

var (
	_ graph.WeightedDirected   = (*verifC15Graph)(nil)
	_ graph.WeightedUndirected = verifC15UGraph{}
)

func verifC15Name(p string, i, j int) string {
	return p + string(rune('0'+i)) + string(rune('0'+j))
}

// verifC15Build: every (di)graph on n nodes by mask case split, symbolic
// weights >= 0 with positive total (Q is 0/0 otherwise); nil when the
// topology has no edge.
func verifC15Build(n int, directed bool) *verifC15Graph {
	g := verifC15New(n)
	var tot float64
	if directed {
		mask := verifChoose("mask", 1, 1<<uint(n*(n-1))-1)
		b := 0
		for i := 0; i < n; i++ {
			for j := 0; j < n; j++ {
				if i == j {
					continue
				}
				if mask>>uint(b)&1 == 1 {
					g.adj[i][j] = true
					g.w[i][j] = verifFloat(verifC15Name("w", i, j))
					verifAssume(g.w[i][j] >= 0)
					tot += g.w[i][j]
				}
				b++
			}
		}
	} else {
		mask := verifChoose("mask", 1, 1<<uint(n*(n-1)/2)-1)
		b := 0
		for i := 0; i < n; i++ {
			for j := i + 1; j < n; j++ {
				if mask>>uint(b)&1 == 1 {
					g.adj[i][j], g.adj[j][i] = true, true
					w := verifFloat(verifC15Name("w", i, j))
					verifAssume(w >= 0)
					g.w[i][j], g.w[j][i] = w, w
					tot += w
				}
				b++
			}
		}
	}
	verifAssume(tot > 0)
	return g
}

// verifC15Partition: every set partition of n elements (restricted growth
// strings); block index per element and the number of blocks.
func verifC15Partition(n int) ([]int, int) {
	c := make([]int, n)
	hi := 0
	for i := 1; i < n; i++ {
		c[i] = verifChoose("block", 0, hi+1)
		if c[i] > hi {
			hi = c[i]
		}
	}
	return c, hi + 1
}

func verifC15A(g *verifC15Graph, i, j int) float64 {
	if g.adj[i][j] {
		return g.w[i][j]
	}
	return 0
}

// verifC15QDef: the defining double sum (undirected: A symmetric, 2m = sum of
// all A_ij; directed: m = sum of all A_ij, k_i^out k_j^in).
func verifC15QDef(g *verifC15Graph, c []int, gamma float64) float64 {
	n := g.n
	kout := make([]float64, n)
	kin := make([]float64, n)
	var m float64
	for i := 0; i < n; i++ {
		for j := 0; j < n; j++ {
			a := verifC15A(g, i, j)
			kout[i] += a
			kin[j] += a
			m += a
		}
	}
	var sum float64
	for i := 0; i < n; i++ {
		for j := 0; j < n; j++ {
			if c[i] == c[j] {
				sum += verifC15A(g, i, j) - gamma*kout[i]*kin[j]/m
			}
		}
	}
	return sum / m
}

// verifC15NilReduced: "nil if at the lowest level" is a nil pointer of the
// receiver's concrete type inside the interface (the documented "same concrete
// type as the receiver"); a nil interface is accepted too.
func verifC15NilReduced(r ReducedGraph) bool {
	switch r := r.(type) {
	case nil:
		return true
	case *ReducedUndirected:
		return r == nil
	case *ReducedDirected:
		return r == nil
	}
	return false
}

func verifC15NodeSet(it graph.Nodes, k int) ([]int, bool) {
	cnt := make([]int, k)
	ok := true
	for it.Next() {
		id := it.Node().ID()
		if id < 0 || id >= int64(k) {
			ok = false
			continue
		}
		cnt[id]++
	}
	return cnt, ok
}

// verifC15Reduce is the common body. base is the reduction with nil
// communities (what Louvain starts from), red the reduction of base by the
// partition; both only through the graph interfaces + Communities/Structure/
// Expanded.
func verifC15Reduce(directed bool) {
	var n int
	if directed {
		n = verifParam("rdn", 3)
	} else {
		n = verifParam("run", 4)
	}
	g := verifC15Build(n, directed)
	gamma := verifFloat("gamma")
	c, nb := verifC15Partition(n)

	var orig graph.Graph
	var base, red interface {
		ReducedGraph
		graph.Weighted
	}
	if directed {
		orig = g
	} else {
		orig = verifC15UGraph{g}
	}
	if directed {
		base = reduceDirected(g, nil)
	} else {
		base = reduceUndirected(verifC15UGraph{g}, nil)
	}

	// Level 0: one node per original node, IDs 0..n-1, each community a
	// single original node, weights are the original weights.
	verifAssert(base.Nodes().Len() == n, "reduce(nil): one node per original node")
	verifAssert(verifC15NilReduced(base.Expanded()), "reduce(nil): lowest level")
	bc := base.Communities()
	verifAssert(len(bc) == n, "reduce(nil): singleton communities")
	of := make([]int, n) // base node id -> original index
	seen := make([]bool, n)
	for a := 0; a < n; a++ {
		verifAssert(len(bc[a]) == 1, "reduce(nil): singleton communities")
		i := g.idx(bc[a][0].ID())
		verifAssert(i >= 0 && !seen[i], "reduce(nil): communities are distinct original nodes")
		seen[i] = true
		of[a] = i
	}
	for a := 0; a < n; a++ {
		for b := 0; b < n; b++ {
			if a == b {
				continue
			}
			w, ok := base.Weight(int64(a), int64(b))
			verifAssert(ok == g.adj[of[a]][of[b]], "reduce(nil): same edges as the original graph")
			if ok {
				verifAssertEqF(w, g.w[of[a]][of[b]], "reduce(nil): same weights as the original graph")
			}
		}
	}
	single := make([]int, n)
	for i := range single {
		single[i] = i
	}
	verifAssertEqF(Q(base, nil, gamma), verifC15QDef(g, single, gamma), "reduce(nil): Q of the base graph is Q of the singleton partition")

	// Aggregation by the arbitrary partition c (blocks listed in base node
	// ids, members in descending id order, optionally with an empty
	// community that must be dropped).
	comms := make([][]graph.Node, nb)
	for a := n - 1; a >= 0; a-- {
		comms[c[of[a]]] = append(comms[c[of[a]]], node(a))
	}
	switch verifChoose("empty", 0, 2) {
	case 1:
		comms = append([][]graph.Node{nil}, comms...)
	case 2:
		comms = append(comms, nil)
	}
	if directed {
		red = reduceDirected(base.(*ReducedDirected), comms)
	} else {
		red = reduceUndirected(base.(*ReducedUndirected), comms)
	}
	verifAssert(red.Nodes().Len() == nb, "reduce: one node per non-empty community")
	verifAssert(!verifC15NilReduced(red.Expanded()), "reduce: the base graph is the next lower level")
	st := red.Structure()
	verifAssert(len(st) == nb, "reduce: Structure lists every node of the reduced graph")
	for a := 0; a < nb; a++ {
		verifAssert(len(st[a]) == 1 && st[a][0].ID() == int64(a), "reduce: a fresh reduced graph is unclustered")
	}

	// Communities() is the partition c in terms of original nodes.
	rc := red.Communities()
	verifAssert(len(rc) == nb, "reduce: Communities lists the non-empty communities")
	blockOf := make([]int, n) // original index -> reduced node id
	cnt := make([]int, n)
	for a := 0; a < nb; a++ {
		verifAssert(len(rc[a]) > 0, "reduce: no empty community")
		for _, u := range rc[a] {
			i := g.idx(u.ID())
			verifAssert(i >= 0, "reduce: communities hold original nodes")
			cnt[i]++
			blockOf[i] = a
		}
	}
	for i := 0; i < n; i++ {
		verifAssert(cnt[i] == 1, "reduce: every original node is in exactly one community")
	}
	for i := 0; i < n; i++ {
		for j := 0; j < n; j++ {
			verifAssert((blockOf[i] == blockOf[j]) == (c[i] == c[j]), "reduce: Communities is the requested partition")
		}
	}

	// Weights: inter-community sums, intra-community sums on the diagonal.
	for a := 0; a < nb; a++ {
		wantFrom := make([]int, nb)
		wantTo := make([]int, nb)
		for b := 0; b < nb; b++ {
			var sum float64
			any := false
			for i := 0; i < n; i++ {
				for j := 0; j < n; j++ {
					if blockOf[i] == a && blockOf[j] == b && g.adj[i][j] {
						sum += g.w[i][j]
						any = true
					}
				}
			}
			w, ok := red.Weight(int64(a), int64(b))
			if a == b {
				verifAssert(ok, "reduce: Weight(x, x) is reported")
				verifAssertEqF(w, sum, "reduce: node weight is the intra-community sum of A_ij")
				continue
			}
			verifAssert(ok == any, "reduce: communities are joined iff some member edge joins them")
			if any {
				verifAssertEqF(w, sum, "reduce: edge weight is the inter-community sum of A_ij")
				wantFrom[b] = 1
			}
			if directed {
				verifAssert(red.(*ReducedDirected).HasEdgeFromTo(int64(a), int64(b)) == any, "reduce: HasEdgeFromTo")
				for i := 0; i < n; i++ {
					for j := 0; j < n; j++ {
						if blockOf[i] == b && blockOf[j] == a && g.adj[i][j] {
							wantTo[b] = 1
						}
					}
				}
			}
		}
		got, ok := verifC15NodeSet(red.From(int64(a)), nb)
		verifAssert(ok, "reduce: From yields nodes of the reduced graph")
		for b := 0; b < nb; b++ {
			verifAssert(got[b] == wantFrom[b], "reduce: From lists each adjacent community exactly once")
		}
		if directed {
			got, ok := verifC15NodeSet(red.(*ReducedDirected).To(int64(a)), nb)
			verifAssert(ok, "reduce: To yields nodes of the reduced graph")
			for b := 0; b < nb; b++ {
				verifAssert(got[b] == wantTo[b], "reduce: To lists each adjacent community exactly once")
			}
		}
	}

	// Same modularity.
	want := verifC15QDef(g, c, gamma)
	verifAssertEqF(Q(red, nil, gamma), want, "reduce: Q of the reduced graph equals Q of the original graph with that partition")
	verifAssertEqF(Q(orig, rc, gamma), want, "reduce: Q(original, Communities()) equals the defining sum")
	verifReach("end")
}

// VerifC15_ReduceUndirected: all undirected graphs on run nodes x all
// partitions, symbolic weights >= 0 and resolution.
func VerifC15_ReduceUndirected() { verifC15Reduce(false) }

// VerifC15_ReduceDirected: all digraphs on rdn nodes x all partitions.
func VerifC15_ReduceDirected() { verifC15Reduce(true) }
