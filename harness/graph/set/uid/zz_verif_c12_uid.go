package uid

import (
	"math"

	"gonum.org/v1/gonum/graph/internal/set"
)

// ID universe of the one-step checks: small IDs, a negative one and both ends
// of the int64 range where NewID wraps.
var verifC12U = []int64{0, 1, 2, -7, math.MaxInt64 - 1, math.MaxInt64}

const (
	verifC12Never = 0
	verifC12Used  = 1
	verifC12Free  = 2
)

// verifC12State builds an arbitrary Set over the universe that satisfies the
// representation invariant: used and free are disjoint, maxID >= -1 and
// maxID >= every used ID (maxID is a symbolic int64 otherwise).
//
// With concreteMax, maxID is instead case-split over a list of concrete
// candidates (needed when the code under test stores a maxID-derived ID as
// a map key: map keys must be concrete in the engine).
func verifC12State(concreteMax bool) (*Set, []int) {
	s := &Set{used: make(set.Ints[int64]), free: make(set.Ints[int64])}
	st := make([]int, len(verifC12U))
	var m int64
	if concreteMax {
		cands := []int64{-1, 0, 1, 2, 5, math.MaxInt64 - 2, math.MaxInt64 - 1, math.MaxInt64}
		m = cands[verifChoose("maxID", 0, len(cands)-1)]
	} else {
		m = verifInt64("maxID")
	}
	verifAssume(m >= -1)
	for i, id := range verifC12U {
		st[i] = verifChoose("st", verifC12Never, verifC12Free)
		switch st[i] {
		case verifC12Used:
			s.used.Add(id)
			verifAssume(m >= id)
		case verifC12Free:
			s.free.Add(id)
		}
	}
	s.maxID = m
	return s, st
}

func verifC12CheckState(s *Set, st []int, maxID int64, who string) {
	nu, nf := 0, 0
	for i, id := range verifC12U {
		verifAssert(s.used.Has(id) == (st[i] == verifC12Used), who+": used set is the model's used set")
		verifAssert(s.free.Has(id) == (st[i] == verifC12Free), who+": free set is the model's free set")
		if st[i] == verifC12Used {
			nu++
			verifAssert(s.maxID >= id, who+": maxID bounds every used ID")
		}
		if st[i] == verifC12Free {
			nf++
		}
	}
	verifAssert(s.used.Count() == nu && s.free.Count() == nf, who+": no stray IDs in used/free")
	verifAssert(s.maxID == maxID, who+": maxID is the model's maxID")
}

func verifC12CheckNewID(s *Set, st []int, who string) {
	var id int64
	panicked, _, _ := verifCatch(func() { id = s.NewID() })
	verifAssert(!panicked, who+": NewID does not panic while an unused ID exists")
	if panicked {
		return
	}
	for i, u := range verifC12U {
		if st[i] == verifC12Used {
			verifAssert(id != u, who+": NewID never returns an ID in use")
		}
	}
}

// VerifC12_UidNewID: from every state of the universe, NewID returns an ID
// that is not in use and leaves the set unchanged.
func VerifC12_UidNewID() {
	s, st := verifC12State(false)
	m := s.maxID
	verifC12CheckNewID(s, st, "NewID")
	verifC12CheckState(s, st, m, "NewID (state unchanged)")
	verifReach("end")
}

// VerifC12_UidUse: Use(id) marks id used, un-frees it, raises maxID; the
// invariant holds again and the next NewID is fresh.
func VerifC12_UidUse() {
	s, st := verifC12State(false)
	m := s.maxID
	k := verifChoose("arg", 0, len(verifC12U)-1)
	id := verifC12U[k]
	s.Use(id)
	st[k] = verifC12Used
	if id > m {
		m = id
	}
	verifC12CheckState(s, st, m, "Use")
	verifC12CheckNewID(s, st, "Use then NewID")
	verifReach("end")
}

// VerifC12_UidRelease: Release(id) frees id; the next NewID is fresh.
func VerifC12_UidRelease() {
	s, st := verifC12State(false)
	m := s.maxID
	k := verifChoose("arg", 0, len(verifC12U)-1)
	s.Release(verifC12U[k])
	st[k] = verifC12Free
	verifC12CheckState(s, st, m, "Release")
	verifC12CheckNewID(s, st, "Release then NewID")
	verifReach("end")
}

// VerifC12_UidNewUse: the allocation loop of the graph types: NewID, Use it,
// NewID again gives a different, unused ID (incl. the MaxInt64 wrap).
func VerifC12_UidNewUse() {
	s, st := verifC12State(true)
	var a, b int64
	p1, _, _ := verifCatch(func() { a = s.NewID() })
	verifAssert(!p1, "NewID does not panic")
	if p1 {
		return
	}
	s.Use(a)
	p2, _, _ := verifCatch(func() { b = s.NewID() })
	verifAssert(!p2, "second NewID does not panic")
	if p2 {
		return
	}
	verifAssert(a != b, "NewID after Use(NewID()) returns a different ID")
	for i, u := range verifC12U {
		if st[i] == verifC12Used {
			verifAssert(b != u, "second NewID never returns an ID in use")
		}
	}
	verifReach("end")
}

// VerifC12_UidHistory: every sequence of hlen operations from a fresh set over
// the IDs {0, 1, 2, 5}: Use(k), Release(k), or id := NewID(); Use(id). After
// every step NewID must not return an ID that was Use()d and not Release()d,
// and used/free must match the model (complements the one-step checks with
// states reached by real histories, e.g. Release of a never-used ID above
// maxID followed by Use).
func VerifC12_UidHistory() {
	ids := []int64{0, 1, 2, 5}
	s := NewSet()
	live := map[int64]bool{}
	hlen := verifParam("hlen", 4)
	for step := 0; step < hlen; step++ {
		op := verifChoose("op", 0, 2*len(ids))
		switch {
		case op < len(ids):
			s.Use(ids[op])
			live[ids[op]] = true
		case op < 2*len(ids):
			s.Release(ids[op-len(ids)])
			live[ids[op-len(ids)]] = false
		default:
			id := s.NewID()
			verifAssert(!live[id], "history: NewID never returns an ID in use")
			s.Use(id)
			live[id] = true
		}
		nid := s.NewID()
		verifAssert(!live[nid], "history: NewID never returns an ID in use")
		for id, l := range live {
			verifAssert(s.used.Has(id) == l, "history: used set is the set of live IDs")
			if l {
				verifAssert(!s.free.Has(id), "history: a live ID is not in the free set")
				verifAssert(s.maxID >= id, "history: maxID bounds every live ID")
			}
		}
	}
	verifReach("end")
}
