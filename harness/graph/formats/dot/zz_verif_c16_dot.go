package dot

import (
	"gonum.org/v1/gonum/graph/formats/dot/ast"
	"gonum.org/v1/gonum/graph/formats/dot/internal/lexer"
	"gonum.org/v1/gonum/graph/formats/dot/internal/token"
)

var verifC16dotPrefixes = []string{
	"",
	"graph{",
	"digraph G {a->",
	"graph{a",
	"graph{a[b=",
	"graph{a--b:p:",
	"digraph{subgraph ",
	"graph{\"",
	"graph{\"a\\",
	"graph{<",
	"graph{/*",
	"graph{//",
	"graph{#",
	"strict ",
	"graph{-.",
	"graph{a--{",
}

func verifC16dotInput(name string, kparam string, kdef int) []byte {
	pi := verifChoose("prefix", verifParam("dotpfxlo", 0), verifParam("dotpfxhi", len(verifC16dotPrefixes)-1))
	K := verifChoose("k", 0, verifParam(kparam, kdef))
	b := []byte(verifC16dotPrefixes[pi])
	return append(b, verifBytes(name, K)...)
}

// VerifC16_DotLexerTotal: the gocc lexer on a concrete prefix followed by
// 0..dotlex symbolic bytes: Scan never faults, every token lies inside the
// input, tokens do not overlap and advance, and EOF is reached within
// len(input)+1 calls (no hang).
func VerifC16_DotLexerTotal() {
	src := verifC16dotInput("b", "dotlex", 3)
	n := len(src)
	l := lexer.NewLexer(src)
	prevEnd := 0
	done := false
	for i := 0; i <= n && !done; i++ {
		var tok *token.Token
		panicked, fault, _ := verifCatch(func() { tok = l.Scan() })
		verifAssert(!fault, "Scan: no runtime fault")
		verifAssert(!panicked, "Scan: no panic")
		if panicked {
			return
		}
		off, ln := tok.Pos.Offset, len(tok.Lit)
		verifAssert(off >= prevEnd && off+ln <= n, "token lies inside the input after the previous token")
		if tok.Type == token.EOF {
			done = true
		} else {
			verifAssert(ln > 0, "a token other than EOF is not empty")
			for j := 0; j < ln; j++ {
				verifAssert(tok.Lit[j] == src[off+j], "token literal is the input at its offset")
			}
		}
		prevEnd = off + ln
	}
	verifAssert(done, "EOF within len(input)+1 tokens")
	verifReach("end")
}

// VerifC16_DotParseTotal: ParseBytes on a concrete prefix followed by 0..dotparse
// symbolic bytes never faults or panics; it returns a file or an error.
func VerifC16_DotParseTotal() {
	verifC16fmtStubs()
	src := verifC16dotInput("b", "dotparse", 2)
	var f *ast.File
	var err error
	panicked, fault, _ := verifCatch(func() { f, err = ParseBytes(src) })
	verifAssert(!fault, "ParseBytes: no runtime fault")
	verifAssert(!panicked, "ParseBytes: no panic")
	if panicked {
		return
	}
	verifAssert((f == nil) == (err != nil), "ParseBytes: file iff no error")
	if err == nil {
		verifReach("accepted")
		verifAssert(len(f.Graphs) > 0, "accepted file has a graph")
	} else {
		verifReach("rejected")
	}
	verifReach("end")
}

// ---- print / parse fixpoint ----

// verifC16fmt is the defining behaviour of the fmt verbs %s, %v (string, []byte,
// Stringer operands) and %d (int operands), which is all that ast.*.String
// uses; the engine has no fmt.
func verifC16fmt(format string, a []interface{}) string {
	out := ""
	k := 0
	for i := 0; i < len(format); i++ {
		if format[i] != '%' {
			out += format[i : i+1]
			continue
		}
		if i+1 >= len(format) || k >= len(a) {
			panic("verifC16fmt: bad format")
		}
		i++
		switch format[i] {
		case 's', 'v':
			switch v := a[k].(type) {
			case string:
				out += v
			case []byte:
				out += string(v)
			case interface{ String() string }:
				out += v.String()
			default:
				panic("verifC16fmt: operand not modelled")
			}
		default:
			panic("verifC16fmt: verb not modelled")
		}
		k++
	}
	if k != len(a) {
		panic("verifC16fmt: operand count")
	}
	return out
}

func verifC16fmtStubs() {
	// assembly-only runtime string primitives: defining loops
	verifStubFunc("internal/bytealg.IndexByteString", func(s string, c byte) int {
		for i := 0; i < len(s); i++ {
			if s[i] == c {
				return i
			}
		}
		return -1
	})
	verifStubFunc("internal/bytealg.IndexByte", func(b []byte, c byte) int {
		for i := 0; i < len(b); i++ {
			if b[i] == c {
				return i
			}
		}
		return -1
	})
	verifStubFunc("internal/bytealg.CountString", func(s string, c byte) int {
		n := 0
		for i := 0; i < len(s); i++ {
			if s[i] == c {
				n++
			}
		}
		return n
	})
	verifStubFunc("fmt.Sprintf", func(format string, a ...interface{}) string {
		return verifC16fmt(format, a)
	})
	verifStubFunc("fmt.Fprintf", func(w interface{ Write([]byte) (int, error) }, format string, a ...interface{}) (int, error) {
		return w.Write([]byte(verifC16fmt(format, a)))
	})
}

var verifC16dotFrames = [][2]string{
	{"graph{", "}"},
	{"digraph G {a->", "}"},
	{"graph{a[", "=c]}"},
	{"graph{a--b:", "}"},
	{"strict digraph{subgraph ", "{a}}"},
	{"graph{a=", " b}"},
	{"graph{\"", "\"}"},
}

// VerifC16_DotPrintParseFixpoint: a source text with 0..dotfix symbolic bytes in
// an identifier / statement position; if it parses to f, then f.String() parses
// again, to a file that prints identically.
func VerifC16_DotPrintParseFixpoint() {
	verifC16fmtStubs()
	fi := verifChoose("frame", verifParam("dotframelo", 0), verifParam("dotframehi", len(verifC16dotFrames)-1))
	K := verifChoose("k", 0, verifParam("dotfix", 2))
	src := []byte(verifC16dotFrames[fi][0])
	src = append(src, verifBytes("b", K)...)
	src = append(src, verifC16dotFrames[fi][1]...)
	f, err := ParseBytes(src)
	if err != nil {
		verifReach("rejected")
		verifReach("end")
		return
	}
	verifReach("accepted")
	var s1 string
	panicked, fault, _ := verifCatch(func() { s1 = f.String() })
	verifAssert(!fault && !panicked, "File.String: no fault or panic")
	if panicked {
		return
	}
	f2, err := ParseString(s1)
	verifAssert(err == nil && f2 != nil, "the printed file parses")
	if err == nil && f2 != nil {
		verifAssert(f2.String() == s1, "printing the reparsed file gives the same text")
		verifAssert(len(f2.Graphs) == len(f.Graphs), "same number of graphs")
		g, g2 := f.Graphs[0], f2.Graphs[0]
		verifAssert(g.Strict == g2.Strict && g.Directed == g2.Directed && g.ID == g2.ID && len(g.Stmts) == len(g2.Stmts), "same graph header and statement count")
	}
	verifReach("end")
}
