package rdf

// C16: N-Quads statement parser (Ragel machine in parse.go), term constructors,
// term splitting (extract.go), label / language tag checkers (check.go).
//
// ParseNQuad(s) is parse([]rune(s)): the harnesses drive parse (and extract,
// checkLabelText, checkLangText) with rune slices whose cells are symbolic, which
// covers ParseNQuad on every string that decodes to such a rune sequence (the
// engine cannot convert a string with symbolic bytes to []rune).
//
// A symbolic rune is a symbolic index into a fixed alphabet: the conversion of
// a matched term back to a string inside the parser enumerates the feasible
// runes (engine: at most 64 values).

// verifC16alphaASCII: one or two members of every ASCII character class that
// the N-Quads grammar distinguishes (structure, escapes, IRI / label / language
// tag / hex digit membership, the characters excluded from IRIs and literals).
var verifC16alphaASCII = []rune{
	' ', '\t', '\n', '\r', 0, 0x0b,
	'<', '>', '"', '\\', '_', ':', '.', '#', '@', '^', '-',
	'a', 'f', 'g', 'u', 'U', 'n', 'z', 'A', 'F', 'G', 'Z',
	'0', '9', '!', ';', '=', '?', '[', ']', '`', '{', '|', '}', '~', 0x7f,
	'%', '\'', '/',
}

// verifC16alphaUni: both sides of every non-ASCII range boundary of the
// grammar (PN_CHARS_BASE, PN_CHARS, IRI, STRING_LITERAL), plus the structural
// ASCII characters needed to finish a term.
var verifC16alphaUni = []rune{
	' ', '<', '>', '"', '\\', '_', ':', '.', 'a',
	0x80, 0xb6, 0xb7, 0xb8, 0xbf, 0xc0, 0xd6, 0xd7, 0xd8, 0xf6, 0xf7, 0xf8,
	0x2ff, 0x300, 0x36f, 0x370, 0x37d, 0x37e, 0x37f, 0x1fff, 0x2000,
	0x200b, 0x200c, 0x200d, 0x200e, 0x203e, 0x203f, 0x2040, 0x2041,
	0x206f, 0x2070, 0x218f, 0x2190, 0x2bff, 0x2c00, 0x2fef, 0x2ff0,
	0x3000, 0x3001, 0xd7ff, 0xe000, 0xf8ff, 0xf900, 0xfdcf, 0xfdd0,
	0xfdef, 0xfdf0, 0xfffd, 0xfffe, 0xffff, 0x10000, 0xeffff, 0xf0000, 0x10ffff,
}

// verifC16stubs gives the assembly-only runtime string primitives reached through
// net/url.Parse their defining loops (the engine has no body for them).
func verifC16stubs() {
	verifStubFunc("internal/bytealg.IndexByteString", func(s string, c byte) int {
		for i := 0; i < len(s); i++ {
			if s[i] == c {
				return i
			}
		}
		return -1
	})
	verifStubFunc("internal/bytealg.CountString", func(s string, c byte) int {
		n := 0
		for i := 0; i < len(s); i++ {
			if s[i] == c {
				n++
			}
		}
		return n
	})
	verifStubFunc("internal/bytealg.Count", func(b []byte, c byte) int {
		n := 0
		for i := 0; i < len(b); i++ {
			if b[i] == c {
				n++
			}
		}
		return n
	})
	verifStubFunc("internal/bytealg.IndexByte", func(b []byte, c byte) int {
		for i := 0; i < len(b); i++ {
			if b[i] == c {
				return i
			}
		}
		return -1
	})
}

func verifC16alpha() []rune {
	verifC16stubs()
	if verifChoose("alphabet", 0, verifParam("nqalphabets", 2)-1) == 1 {
		return verifC16alphaUni
	}
	return verifC16alphaASCII
}

// verifC16symRunes appends k symbolic runes drawn from alpha to prefix.
func verifC16symRunes(prefix string, alpha []rune, name string, k int) []rune {
	data := []rune(prefix)
	for i := 0; i < k; i++ {
		j := verifInt(name+string(rune('0'+i)), 0, len(alpha)-1)
		data = append(data, alpha[j])
	}
	return data
}

// verifC16termOK: a term value returned by the parser is accepted by the term
// splitter and has one of the permitted kinds.
func verifC16termOK(v string, iri, blank, lit bool) bool {
	_, _, kind, err := extract([]rune(v))
	if err != nil {
		return false
	}
	switch kind {
	case IRI:
		return iri
	case Blank:
		return blank
	case Literal:
		return lit
	}
	return false
}

// verifC16parseCheck runs the statement parser on data and checks totality
// and, on success, that the result is a well-formed statement: every term is
// a substring that the term splitter accepts with a kind allowed in its
// position.
func verifC16parseCheck(data []rune) {
	var st Statement
	var err error
	panicked, fault, _ := verifCatch(func() { st, err = parse(data) })
	verifAssert(!fault, "parse: no runtime fault")
	verifAssert(!panicked, "parse: no panic")
	if panicked {
		return
	}
	if err != nil {
		verifReach("rejected")
		return
	}
	verifReach("accepted")
	verifAssert(verifC16termOK(st.Subject.Value, true, true, false), "accepted statement: subject is an IRI or a blank node")
	verifAssert(verifC16termOK(st.Predicate.Value, true, false, false), "accepted statement: predicate is an IRI")
	verifAssert(verifC16termOK(st.Object.Value, true, true, true), "accepted statement: object is an IRI, a blank node or a literal")
	if st.Label.Value != "" {
		verifAssert(verifC16termOK(st.Label.Value, true, true, false), "accepted statement: label is an IRI or a blank node")
	}
	verifAssert(st.Subject.UID == 0 && st.Predicate.UID == 0 && st.Object.UID == 0 && st.Label.UID == 0, "accepted statement: UIDs are zero")
}

// VerifC16_NQuadParseTotalShort: every rune string of length 0..nqshort over
// the alphabets.
func VerifC16_NQuadParseTotalShort() {
	alpha := verifC16alpha()
	L := verifChoose("len", 0, verifParam("nqshort", 3))
	verifC16parseCheck(verifC16symRunes("", alpha, "r", L))
	verifReach("end")
}

// verifC16prefixes are concrete prefixes of valid statements that stop inside
// every kind of term and between terms.
var verifC16prefixes = []string{
	"<",
	"<a:b",
	"<a:\\u00",
	"<a:b> ",
	"_:",
	"_:b",
	"_:b <a:p> ",
	"<a:s> <a:p> ",
	"<a:s> <a:p> \"",
	"<a:s> <a:p> \"x\\",
	"<a:s> <a:p> \"x\\u0",
	"<a:s> <a:p> \"x\\U0010ff",
	"<a:s> <a:p> \"x\"",
	"<a:s> <a:p> \"x\"^",
	"<a:s> <a:p> \"x\"^^<",
	"<a:s> <a:p> \"x\"^^<a:t",
	"<a:s> <a:p> \"x\"@",
	"<a:s> <a:p> \"x\"@en",
	"<a:s> <a:p> \"x\"@en-",
	"<a:s> <a:p> _:o",
	"<a:s> <a:p> <a:o>",
	"<a:s> <a:p> <a:o> ",
	"<a:s> <a:p> <a:o> <a:g",
	"<a:s> <a:p> <a:o> _:g",
	"<a:s> <a:p> <a:o> <a:g> ",
	"<a:s> <a:p> <a:o> .",
	"<a:s> <a:p> <a:o> . #",
}

// VerifC16_NQuadParseTotalTail: a concrete prefix of a valid statement followed
// by 0..nqtail symbolic runes.
func VerifC16_NQuadParseTotalTail() {
	alpha := verifC16alpha()
	pi := verifChoose("prefix", 0, len(verifC16prefixes)-1)
	K := verifChoose("k", 0, verifParam("nqtail", 3))
	verifC16parseCheck(verifC16symRunes(verifC16prefixes[pi], alpha, "r", K))
	verifReach("end")
}

// ---- round trip ----

// verifC16sprintf is the defining behaviour of fmt.Sprintf for formats made
// of literal text and %s verbs with string operands (all that Statement.String
// uses); the engine has no fmt.
func verifC16sprintf(format string, a ...interface{}) string {
	out := ""
	k := 0
	for i := 0; i < len(format); i++ {
		if format[i] == '%' && i+1 < len(format) && format[i+1] == 's' && k < len(a) {
			s, ok := a[k].(string)
			if !ok {
				panic("verifC16sprintf: operand is not a string")
			}
			out += s
			k++
			i++
			continue
		}
		if format[i] == '%' {
			panic("verifC16sprintf: verb not modelled")
		}
		out += string(format[i : i+1])
	}
	if k != len(a) {
		panic("verifC16sprintf: operand count")
	}
	return out
}

// verifC16hostile is the escaping-hostile alphabet of term texts. (U+FFFD is
// left out: the engine's range-over-string mis-steps on an encoded U+FFFD,
// engine_requests/C16.md R5.)
var verifC16hostile = []rune{
	'\\', '"', '\n', '\r', '\t', '<', '>', '_', ':', 'a', ' ', '.', '-', '@', '^', '#', 'u', '0', '\'', '%', '{', '`',
	0xe9,     // printable, PN_CHARS_BASE
	0x85,     // C1 control: not printable, \u escape
	0xd7,     // printable, not a PN_CHARS_BASE
	0xe000,   // private use: \u escape
	0x1f600,  // printable astral
	0x10ffff, // not printable astral: \U escape
}

// verifC16iriSafe is the hostile alphabet without the characters that RFC 3987
// and the N-Quads IRIREF production exclude from IRIs (controls, space, < > " \ ^ ` { | }).
var verifC16iriSafe = []rune{
	'_', ':', 'a', '.', '-', '@', '#', 'u', '0', '\'', '%', '/', '?', '=',
	0xe9, 0x85, 0xd7, 0xe000, 0x1f600, 0x10ffff,
}

func verifC16text(alpha []rune, name string, maxLen int) string {
	L := verifChoose(name+"len", 0, maxLen)
	rs := make([]rune, L)
	for i := range rs {
		rs[i] = alpha[verifInt(name+string(rune('0'+i)), 0, len(alpha)-1)]
	}
	return string(rs) // the engine enumerates the feasible runes here
}

// verifC16roundTrip: one term of a statement is built by its constructor from a
// text over alpha (the other terms are fixed); if the constructor accepts it,
// Parts gives the text back, String has the documented form, and parsing the
// printed statement gives an equal statement.
//
// what: 0 subject IRI, 1 subject blank, 2 predicate IRI, 3 object IRI, 4 object
// blank, 5 object literal text (no qualifier, language tag, datatype), 6 object
// literal language tag, 7 object literal datatype IRI, 8 label IRI, 9 label
// blank, 10 fixed statement without label.
func verifC16roundTrip(what int, alpha []rune, iriPrefixes []string) {
	verifC16stubs()
	verifStubFunc("fmt.Sprintf", verifC16sprintf)
	maxLen := verifParam("nqtext", 2)
	st := Statement{
		Subject:   Term{Value: "<a:s>"},
		Predicate: Term{Value: "<a:p>"},
		Object:    Term{Value: "<a:o>"},
	}
	var text, qual string
	var kind Kind
	var t Term
	var err error
	switch what {
	case 0, 2, 3, 8:
		text = verifC16text(alpha, "t", maxLen)
		text = iriPrefixes[verifChoose("scheme", 0, len(iriPrefixes)-1)] + text
		kind = IRI
		t, err = NewIRITerm(text)
	case 1, 4, 9:
		text = verifC16text(alpha, "t", maxLen)
		kind = Blank
		t, err = NewBlankTerm(text)
	case 5:
		text = verifC16text(alpha, "t", maxLen)
		kind = Literal
		switch verifChoose("qual", 0, 2) {
		case 1:
			qual = "@en-GB"
		case 2:
			qual = "a:t"
		}
		t, err = NewLiteralTerm(text, qual)
		verifAssert(err == nil, "literal text is never rejected")
	case 6:
		text = "x\"y"
		qual = "@" + verifC16text(alpha, "t", maxLen)
		kind = Literal
		t, err = NewLiteralTerm(text, qual)
	case 7:
		text = "x\\y"
		qual = verifC16text(alpha, "t", maxLen)
		qual = iriPrefixes[verifChoose("scheme", 0, len(iriPrefixes)-1)] + qual
		kind = Literal
		t, err = NewLiteralTerm(text, qual)
		if qual == "" {
			verifAssert(err == nil, "literal without qualifier is accepted")
		}
	default:
		t, err = st.Object, nil
		text, kind = "a:o", IRI
	}
	if err != nil {
		verifReach("constructor rejects")
		return
	}
	verifReach("constructor accepts")
	verifAssert(t.UID == 0, "constructor leaves the UID unset")

	// the constructed term splits into what it was built from
	var gotText, gotQual string
	var gotKind Kind
	var perr error
	panicked, fault, _ := verifCatch(func() { gotText, gotQual, gotKind, perr = t.Parts() })
	verifAssert(!fault, "Parts: no runtime fault")
	verifAssert(!panicked, "Parts: no panic")
	if panicked {
		return
	}
	verifAssert(perr == nil, "Parts accepts a term made by a constructor")
	if perr == nil {
		verifAssert(gotKind == kind, "Parts: kind of the constructed term")
		verifAssert(gotText == text, "Parts: text of the constructed term")
		verifAssert(gotQual == qual, "Parts: qualifier of the constructed term")
	}

	switch what {
	case 0, 1:
		st.Subject = t
	case 2:
		st.Predicate = t
	case 3, 4, 5, 6, 7:
		st.Object = t
	case 8, 9:
		st.Label = t
	}
	line := st.String()
	// documented form: terms separated by one space, terminated by " ."
	want := st.Subject.Value + " " + st.Predicate.Value + " " + st.Object.Value
	if st.Label.Value != "" {
		want += " " + st.Label.Value
	}
	want += " ."
	verifAssert(line == want, "String: terms separated by spaces and terminated by ' .'")

	var back *Statement
	panicked, fault, _ = verifCatch(func() { back, err = ParseNQuad(line) })
	verifAssert(!fault, "ParseNQuad(String()): no runtime fault")
	verifAssert(!panicked, "ParseNQuad(String()): no panic")
	if panicked {
		return
	}
	verifAssert(err == nil && back != nil, "ParseNQuad accepts the printed statement")
	if err == nil && back != nil {
		verifAssert(*back == st, "ParseNQuad(String()) is the statement")
	}
}

// VerifC16_NQuadRoundTripBlankLiteral: blank node labels (subject, object,
// label), literal texts (plain, with language tag, with datatype) and language
// tags over the whole hostile alphabet.
func VerifC16_NQuadRoundTripBlankLiteral() {
	whats := []int{1, 4, 9, 5, 6, 10}
	verifC16roundTrip(whats[verifChoose("what", 0, len(whats)-1)], verifC16hostile, nil)
	verifReach("end")
}

// VerifC16_NQuadRoundTripIRI: IRIs (subject, predicate, object, label, literal
// datatype; with and without the scheme prefix "s:") over the hostile alphabet minus the characters that are not IRI
// characters at all (controls, space, < > " \ ^ ` { | }).
func VerifC16_NQuadRoundTripIRI() {
	whats := []int{0, 2, 3, 8, 7}
	verifC16roundTrip(whats[verifChoose("what", 0, len(whats)-1)], verifC16iriSafe, []string{"", "s:"})
	verifReach("end")
}

// VerifC16_NQuadRoundTripIRIHostile: the same over the whole hostile alphabet.
// OPEN VIOLATION (notes/C16_text.md V4): NewIRITerm / NewLiteralTerm accept
// "s: ", "s:<", "s:\"", ... and return terms that neither Parts nor ParseNQuad
// accepts. Not part of the check spec.
func VerifC16_NQuadRoundTripIRIHostile() {
	whats := []int{0, 2, 3, 8, 7}
	verifC16roundTrip(whats[verifChoose("what", 0, len(whats)-1)], verifC16hostile, []string{"", "s:"})
	verifReach("end")
}

// VerifC16_NQuadRoundTripIRIAuthority: IRIs "s://" + text over the IRI-safe
// alphabet, i.e. the text is the authority component. OPEN VIOLATION
// (notes/C16_text.md V6): a character that the printer writes as \uXXXX
// (U+0085, U+E000, U+10FFFF) makes ParseNQuad fail with "invalid character
// \"\\\" in host name": the parser hands the still escaped IRI to url.Parse. The
// same happens for the valid N-Quad <http://ex\u00e9mple.org/a> <a:p> <a:o> .
// (VerifC16_NQuadRoundTripIRI reaches it at nqtext=3 with "s:" + "//x".) Not part
// of the check spec.
func VerifC16_NQuadRoundTripIRIAuthority() {
	whats := []int{0, 2, 3, 8, 7}
	verifC16roundTrip(whats[verifChoose("what", 0, len(whats)-1)], verifC16iriSafe, []string{"s://"})
	verifReach("end")
}

// ---- term splitter and term checkers ----

var verifC16termPrefixes = []string{
	"",
	"<a:",
	"<a:\\u00",
	"<a:\\U0010ff",
	"_:",
	"_:b",
	"\"",
	"\"x\\",
	"\"x\\u00a",
	"\"x\\U0010fff",
	"\"x\"",
	"\"x\"^",
	"\"x\"^^<a:",
	"\"x\"^^<a:\\u004",
	"\"x\"@e",
	"\"x\"@en-",
}

// VerifC16_TermPartsTotal: Term.Parts (extract + unEscape) on a concrete prefix
// of a term followed by 0..nqterm symbolic runes never faults or panics; an
// accepted term has a valid kind, only a literal has a qualifier, and the texts
// of IRIs and blank nodes are what the syntax says.
func VerifC16_TermPartsTotal() {
	alpha := verifC16alpha()
	pi := verifChoose("prefix", 0, len(verifC16termPrefixes)-1)
	K := verifChoose("k", 0, verifParam("nqterm", 3))
	data := verifC16symRunes(verifC16termPrefixes[pi], alpha, "r", K)
	var text, qual string
	var kind Kind
	var err error
	panicked, fault, _ := verifCatch(func() { text, qual, kind, err = extract(data) })
	verifAssert(!fault, "extract: no runtime fault")
	verifAssert(!panicked, "extract: no panic")
	if panicked {
		return
	}
	if err != nil {
		verifAssert(kind == Invalid && text == "" && qual == "", "rejected term: zero results")
		verifReach("rejected")
		verifReach("end")
		return
	}
	verifReach("accepted")
	verifAssert(kind == IRI || kind == Blank || kind == Literal, "accepted term has a kind")
	if kind != Literal {
		verifAssert(qual == "", "only literals have a qualifier")
	}
	v := string(data)
	if kind == Blank {
		verifAssert(len(v) > 2 && v[:2] == "_:" && text == v[2:], "blank node text is the label after _:")
		verifAssert(checkLabelText([]rune(text)) == nil, "blank node text is a valid label")
	}
	if kind == IRI {
		verifAssert(v[0] == '<' && v[len(v)-1] == '>', "IRI term is bracketed")
	}
	if kind == Literal {
		verifAssert(v[0] == '"', "literal term is quoted")
		if len(qual) > 0 && qual[0] == '@' {
			verifAssert(checkLangText([]byte(qual)) == nil, "language qualifier is a valid tag")
		}
	}
	verifReach("end")
}

// VerifC16_LabelLangCheckTotal: checkLabelText on every rune string and
// checkLangText on every byte string of length 0..nqlabel never fault; a label
// is accepted exactly when "_:"+label is accepted as a blank term by the term
// splitter (the two machines implement the same production).
func VerifC16_LabelLangCheckTotal() {
	alpha := verifC16alpha()
	L := verifChoose("len", 0, verifParam("nqlabel", 2))
	if verifChoose("which", 0, 1) == 0 {
		label := verifC16symRunes("", alpha, "r", L)
		var err error
		panicked, fault, _ := verifCatch(func() { err = checkLabelText(label) })
		verifAssert(!fault, "checkLabelText: no runtime fault")
		verifAssert(!panicked, "checkLabelText: no panic")
		term := append([]rune("_:"), label...)
		var kind Kind
		var xerr error
		panicked, fault, _ = verifCatch(func() { _, _, kind, xerr = extract(term) })
		verifAssert(!fault && !panicked, "extract: no fault or panic")
		verifAssert((err == nil) == (xerr == nil), "label accepted iff _:label is a term")
		if xerr == nil {
			verifAssert(kind == Blank, "_:label is a blank node")
		}
	} else {
		tag := verifBytes("b", L)
		var err error
		panicked, fault, _ := verifCatch(func() { err = checkLangText(tag) })
		verifAssert(!fault, "checkLangText: no runtime fault")
		verifAssert(!panicked, "checkLangText: no panic")
		if err == nil {
			verifAssert(L >= 2 && tag[0] == '@', "accepted tag starts with @ and is not empty")
			verifAssert(tag[L-1] != '-', "accepted tag does not end with -")
		}
	}
	verifReach("end")
}
