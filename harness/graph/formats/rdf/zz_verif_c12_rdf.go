package rdf

// C12 for rdf.Graph (a directed multigraph of statements that shares uid.Set
// for term and line IDs): every history of hlen operations AddStatement /
// RemoveStatement / RemoveTerm over a pool of four statements on the terms
// <a>, <b>, <c> with predicates <p>, <q>, from the empty graph. After each
// step the graph is compared with the plain set of live statements: the
// statement iterator, the predicate index (pred), the mirrored from/to maps,
// the node set ("orphan" terms are removed), Predicates, TermFor, and the
// uniqueness of the UIDs of live terms.

type verifC12RDF struct {
	g      *Graph
	pool   []*Statement
	live   []bool
	preset bool
}

func verifC12RDFNew(preset bool) *verifC12RDF {
	mk := func(s, p, o string) *Statement {
		st := &Statement{Subject: Term{Value: s}, Predicate: Term{Value: p}, Object: Term{Value: o}}
		if preset {
			// consistent non-zero UIDs, as the Decoder assigns them
			id := map[string]int64{"<a>": 1, "<b>": 2, "<c>": 3, "<p>": 4, "<q>": 5}
			st.Subject.UID, st.Predicate.UID, st.Object.UID = id[s], id[p], id[o]
		}
		return st
	}
	r := &verifC12RDF{g: NewGraph(), preset: preset}
	r.pool = []*Statement{
		mk("<a>", "<p>", "<b>"),
		mk("<c>", "<p>", "<b>"),
		mk("<a>", "<q>", "<c>"),
		mk("<b>", "<q>", "<a>"),
	}
	r.live = make([]bool, len(r.pool))
	return r
}

func (r *verifC12RDF) usesNode(val string) bool {
	for i, s := range r.pool {
		if r.live[i] && (s.Subject.Value == val || s.Object.Value == val) {
			return true
		}
	}
	return false
}

func (r *verifC12RDF) usesPred(val string) bool {
	for i, s := range r.pool {
		if r.live[i] && s.Predicate.Value == val {
			return true
		}
	}
	return false
}

func (r *verifC12RDF) check(who string) {
	g := r.g
	// 1. the statement iterator yields exactly the live statements, once each
	seen := make([]int, len(r.pool))
	it := g.AllStatements()
	total := 0
	for it.Next() {
		total++
		if total > len(r.pool) {
			verifAssert(false, who+": AllStatements yields no more statements than were added")
			return
		}
		s := it.Statement()
		found := false
		for i, p := range r.pool {
			if p == s {
				seen[i]++
				found = true
			}
		}
		verifAssert(found, who+": AllStatements yields only added statements")
	}
	for i := range r.pool {
		want := 0
		if r.live[i] {
			want = 1
		}
		verifAssert(seen[i] == want, who+": AllStatements yields exactly the statements in the graph, once each")
	}
	// 2. indexes mirrored: pred, from, to
	nPred := 0
	for _, ss := range g.pred {
		nPred += len(ss)
		verifAssert(len(ss) > 0, who+": no empty statement set is left in the predicate index")
	}
	nLive := 0
	for i, s := range r.pool {
		if !r.live[i] {
			continue
		}
		nLive++
		su, pu, ou := s.Subject.UID, s.Predicate.UID, s.Object.UID
		verifAssert(g.pred[pu][s], who+": a statement in the graph is in the predicate index under its predicate's UID")
		_, f := g.from[su][ou][pu]
		_, t := g.to[ou][su][pu]
		verifAssert(f && t, who+": a statement in the graph is in the from and to maps")
		verifAssert(g.HasEdgeFromTo(su, ou) && g.HasEdgeBetween(ou, su), "HasEdgeFromTo / HasEdgeBetween see the statement")
	}
	verifAssert(nPred == nLive, who+": the predicate index holds exactly the statements in the graph")
	nFrom, nTo := 0, 0
	for _, a := range g.from {
		for _, b := range a {
			verifAssert(len(b) > 0, who+": no empty line set is left in the from map")
			nFrom += len(b)
		}
	}
	for _, a := range g.to {
		for _, b := range a {
			verifAssert(len(b) > 0, who+": no empty line set is left in the to map")
			nTo += len(b)
		}
	}
	verifAssert(nFrom == nLive && nTo == nLive, who+": from and to maps hold exactly the statements in the graph")
	// 3. node set = subjects and objects of the statements in the graph
	nNodes := 0
	for _, val := range []string{"<a>", "<b>", "<c>"} {
		want := r.usesNode(val)
		if want {
			nNodes++
		}
		t, ok := g.TermFor(val)
		verifAssert(ok == want, who+": TermFor finds a subject/object term iff a statement in the graph uses it")
		if ok && want {
			verifAssert(t.Value == val, who+": TermFor returns the term with the given text")
			nd := g.Node(t.UID)
			verifAssert(nd != nil && nd.(Term).Value == val, who+": the node with the term's UID is the term")
		}
	}
	verifAssert(len(g.nodes) == nNodes, who+": the node set is exactly the subjects and objects in use (orphan terms are removed)")
	verifAssert(g.Nodes().Len() == nNodes, who+": Nodes().Len is the number of terms in use")
	// 4. predicates
	preds := g.Predicates()
	nP := 0
	for _, val := range []string{"<p>", "<q>"} {
		want := r.usesPred(val)
		c := 0
		for _, p := range preds {
			if p.Value == val {
				c++
			}
		}
		if want {
			nP++
			verifAssert(c == 1, who+": Predicates lists every predicate in use exactly once")
			t, ok := g.TermFor(val)
			verifAssert(ok && t.Value == val, who+": TermFor finds a predicate in use")
		} else {
			verifAssert(c == 0, who+": Predicates lists no predicate that no statement uses")
		}
	}
	verifAssert(len(preds) == nP, who+": Predicates lists nothing else")
	// 5. UIDs of the terms in use: one per term text, distinct texts distinct UIDs
	var vals []string
	var uids []int64
	for i, s := range r.pool {
		if !r.live[i] {
			continue
		}
		vals = append(vals, s.Subject.Value, s.Predicate.Value, s.Object.Value)
		uids = append(uids, s.Subject.UID, s.Predicate.UID, s.Object.UID)
	}
	for a := range vals {
		for b := a + 1; b < len(vals); b++ {
			verifAssert((vals[a] == vals[b]) == (uids[a] == uids[b]), who+": terms in use have one UID per term text and distinct texts have distinct UIDs")
		}
	}
}

// VerifC12_RDFHistory: see the file comment. uids=0: statements arrive with
// zero UIDs and the graph assigns them; uids=1: consistent preset UIDs.
func VerifC12_RDFHistory() {
	r := verifC12RDFNew(verifChoose("uids", verifParam("rdfuidlo", 0), verifParam("rdfuidhi", 1)) == 1)
	steps := verifParam("rdfhlen", 2)
	for s := 0; s < steps; s++ {
		switch verifChoose("op", 0, 2) {
		case 0:
			i := verifChoose("stmt", 0, len(r.pool)-1)
			if r.live[i] {
				return
			}
			if !r.preset {
				// "If the UID fields of the terms in s are zero, they will be set
				// ... otherwise the UIDs must match terms that already exist in
				// the graph": UIDs left over from an earlier stay in the graph
				// are cleared before the statement is added again.
				r.pool[i].Subject.UID, r.pool[i].Predicate.UID, r.pool[i].Object.UID = 0, 0, 0
			}
			panicked, _, msg := verifCatch(func() { r.g.AddStatement(r.pool[i]) })
			verifAssert(!panicked, "AddStatement of a valid statement with consistent UIDs does not panic: "+msg)
			if panicked {
				return
			}
			r.live[i] = true
			r.check("AddStatement")
		case 1:
			i := verifChoose("stmt", 0, len(r.pool)-1)
			if !r.live[i] && r.pool[i].Subject.UID == 0 && r.pool[i].Predicate.UID == 0 {
				// never added, zero UIDs: nothing to look up; covered by the preset variant
				return
			}
			panicked, _, _ := verifCatch(func() { r.g.RemoveStatement(r.pool[i]) })
			verifAssert(!panicked, "RemoveStatement does not panic")
			r.live[i] = false
			r.check("RemoveStatement")
		default:
			k := verifChoose("term", 0, 3)
			val := []string{"<a>", "<b>", "<c>", "<p>"}[k]
			t, ok := r.g.TermFor(val)
			if !ok {
				return
			}
			panicked, _, _ := verifCatch(func() { r.g.RemoveTerm(t) })
			verifAssert(!panicked, "RemoveTerm does not panic")
			for i, s := range r.pool {
				if s.Subject.Value == val || s.Predicate.Value == val || s.Object.Value == val {
					r.live[i] = false
				}
			}
			r.check("RemoveTerm")
		}
	}
	verifReach("end")
}

func verifC12RDFCount(g *Graph) int {
	n := 0
	it := g.AllStatements()
	for it.Next() {
		n++
		if n > 8 {
			break
		}
	}
	return n
}

// VerifC12_RDFZeroUIDs: AddStatement documents "If the UID fields of the terms
// in s are zero, they will be set to values consistent with the rest of the
// graph on return"; RemoveStatement "removes s from the graph". A statement
// added with zero UIDs can be removed again.
func VerifC12_RDFZeroUIDs() {
	r := verifC12RDFNew(false)
	n := verifChoose("n", 1, 2)
	for i := 0; i < n; i++ {
		r.g.AddStatement(r.pool[i])
	}
	verifAssert(verifC12RDFCount(r.g) == n, "zero UIDs: the added statements are in the graph")
	for i := 0; i < n; i++ {
		s := r.pool[i]
		verifAssert(s.Subject.UID != s.Predicate.UID && s.Subject.UID != s.Object.UID && s.Predicate.UID != s.Object.UID, "zero UIDs: the terms of a statement get distinct UIDs")
	}
	r.g.RemoveStatement(r.pool[0])
	verifAssert(verifC12RDFCount(r.g) == n-1, "zero UIDs: RemoveStatement removes a statement that was added with zero UIDs")
	verifReach("end")
}

// VerifC12_RDFRemoveTermPreds: "RemoveTerm removes t and any statements
// referencing t from the graph": a term that is the object of statements from
// k different subjects.
func VerifC12_RDFRemoveTermPreds() {
	k := verifChoose("k", 1, 3)
	g := NewGraph()
	subj := []string{"<a>", "<c>", "<d>"}
	pred := []string{"<p>", "<q>", "<r>"}
	obj := Term{Value: "<b>", UID: 9}
	for i := 0; i < k; i++ {
		g.AddStatement(&Statement{
			Subject:   Term{Value: subj[i], UID: int64(1 + i)},
			Predicate: Term{Value: pred[i], UID: int64(5 + i)},
			Object:    obj,
		})
	}
	verifAssert(verifC12RDFCount(g) == k, "RemoveTerm: pre-state holds k statements")
	g.RemoveTerm(obj)
	verifAssert(verifC12RDFCount(g) == 0, "RemoveTerm: no statement referencing the term is left")
	verifAssert(len(g.Predicates()) == 0, "RemoveTerm: Predicates lists no predicate of a removed statement")
	verifAssert(g.Nodes().Len() == 0, "RemoveTerm: the subjects orphaned by the removal are removed too (as RemoveStatement does)")
	for i := 0; i < k; i++ {
		_, ok := g.TermFor(pred[i])
		verifAssert(!ok, "RemoveTerm: TermFor does not find the predicate of a removed statement")
	}
	verifReach("end")
}

// VerifC12_RDFPredicateUID: freshly issued term UIDs never collide with the
// UIDs of terms in use: two statements share the predicate <p>; one of them
// is removed (both end points stay in use); a statement with new terms and
// zero UIDs is added.
func VerifC12_RDFPredicateUID() {
	g := NewGraph()
	a, b, p := Term{Value: "<a>", UID: 1}, Term{Value: "<b>", UID: 2}, Term{Value: "<p>", UID: 4}
	s0 := &Statement{Subject: a, Predicate: p, Object: b}
	s1 := &Statement{Subject: b, Predicate: p, Object: a}
	g.AddStatement(s0)
	g.AddStatement(s1)
	g.RemoveStatement(s0)
	verifAssert(verifC12RDFCount(g) == 1, "predicate UID: one of the two statements is left")
	n := &Statement{Subject: Term{Value: "<d>"}, Predicate: Term{Value: "<r>"}, Object: Term{Value: "<e>"}}
	g.AddStatement(n)
	for _, u := range []int64{n.Subject.UID, n.Predicate.UID, n.Object.UID} {
		verifAssert(u != 1 && u != 2 && u != 4, "predicate UID: a freshly issued term UID is not the UID of a term in use (<a>, <b>, or the predicate <p> of the remaining statement)")
	}
	t, ok := g.TermFor("<p>")
	verifAssert(ok && t.Value == "<p>", "predicate UID: TermFor(<p>) still returns the predicate <p>")
	verifReach("end")
}

// VerifC12_RDFPredicateAsObject: the same for a predicate term that is also in
// use as the object of another statement: removing the last statement that
// uses it as a predicate must not free its UID (it is still a node) nor make
// TermFor forget it.
func VerifC12_RDFPredicateAsObject() {
	g := NewGraph()
	x, y := Term{Value: "<x>", UID: 1}, Term{Value: "<y>", UID: 2}
	p, q, r := Term{Value: "<p>", UID: 4}, Term{Value: "<q>", UID: 5}, Term{Value: "<r>", UID: 6}
	s0 := &Statement{Subject: x, Predicate: p, Object: y}
	s1 := &Statement{Subject: x, Predicate: q, Object: p}
	s2 := &Statement{Subject: y, Predicate: r, Object: x}
	g.AddStatement(s0)
	g.AddStatement(s1)
	g.AddStatement(s2)
	g.RemoveStatement(s0)
	verifAssert(verifC12RDFCount(g) == 2, "predicate as object: two statements are left")
	t, ok := g.TermFor("<p>")
	verifAssert(ok && t.Value == "<p>" && t.UID == 4, "predicate as object: TermFor still finds the term, which is the object of a statement in the graph")
	n := &Statement{Subject: Term{Value: "<d>"}, Predicate: Term{Value: "<s>"}, Object: Term{Value: "<e>"}}
	g.AddStatement(n)
	for _, u := range []int64{n.Subject.UID, n.Predicate.UID, n.Object.UID} {
		verifAssert(u != 1 && u != 2 && u != 4 && u != 5 && u != 6, "predicate as object: a freshly issued term UID is not the UID of a term in use")
	}
	nd := g.Node(4)
	verifAssert(nd != nil && nd.(Term).Value == "<p>", "predicate as object: the node with the UID of <p> is still <p>")
	verifReach("end")
}
