package cmplx64

import (
	gomath "math"

	math "gonum.org/v1/gonum/internal/math32"
)

// C08: internal/cmplx64 (complex64 twin of math/cmplx used by the c64 kernels).

func verifC08bits(x float32) uint32 { return gomath.Float32bits(x) }

func verifC08c(name string) complex64 {
	return complex(verifFloat32(name+".re"), verifFloat32(name+".im"))
}

// VerifC08_Cmplx64Classify (model F, all bit patterns): IsInf is "either part
// infinite"; IsNaN is "some part NaN and no part infinite"; Inf() and NaN();
// Conj flips the sign bit of the imaginary part only; Abs(x) is
// math32.Hypot(re, im): +Inf when a part is infinite (even if the other is
// NaN), otherwise NaN when a part is NaN, never negative.
func VerifC08_Cmplx64Classify() {
	x := verifC08c("x")
	re, im := real(x), imag(x)
	anyInf := math.IsInf(re, 0) || math.IsInf(im, 0)
	anyNaN := re != re || im != im
	verifAssert(IsInf(x) == anyInf, "IsInf: either part infinite")
	verifAssert(IsNaN(x) == (anyNaN && !anyInf), "IsNaN: a NaN part and no infinite part")
	verifAssert(IsInf(Inf()) && !IsNaN(Inf()), "Inf() is an infinity")
	verifAssert(verifC08bits(real(Inf())) == 0x7f800000 && verifC08bits(imag(Inf())) == 0x7f800000, "Inf() = +Inf+Inf i")
	verifAssert(IsNaN(NaN()) && !IsInf(NaN()), "NaN() is a NaN")
	c := Conj(x)
	verifAssert(verifC08bits(real(c)) == verifC08bits(re), "Conj keeps the real part bit for bit")
	if im == im {
		verifAssert(verifC08bits(imag(c)) == verifC08bits(im)^(1<<31), "Conj flips the sign bit of the imaginary part")
	} else {
		verifAssert(imag(c) != imag(c), "Conj keeps a NaN imaginary part NaN")
	}
	a := Abs(x)
	verifAssert(verifC08bits(a) == verifC08bits(math.Hypot(re, im)) || (a != a && anyNaN), "Abs = Hypot(re, im)")
	if anyInf {
		verifAssert(verifC08bits(a) == 0x7f800000, "Abs of an infinity is +Inf")
	} else if anyNaN {
		verifAssert(a != a, "Abs of a NaN is NaN")
	}
	verifReach("end")
}

// VerifC08_Cmplx64SqrtArms (model F): the special arms of Sqrt. x = ±0±0i gives
// +0+0i; a zero imaginary part gives a purely real (re > 0) or purely
// imaginary (re < 0) root of |re|; a zero real part gives r±ri with
// r = Sqrt(|im|/2).
func VerifC08_Cmplx64SqrtArms() {
	x := verifC08c("x")
	re, im := real(x), imag(x)
	verifAssume(re == 0 || im == 0)
	r := Sqrt(x)
	switch {
	case re == 0 && im == 0:
		verifAssert(verifC08bits(real(r)) == 0 && verifC08bits(imag(r)) == 0, "Sqrt(±0±0i) = +0+0i")
	case im == 0 && re < 0:
		verifAssert(verifC08bits(real(r)) == 0, "negative real: real part of the root is +0")
		verifAssert(verifC08bits(imag(r)) == verifC08bits(math.Sqrt(-re)), "negative real: imaginary part Sqrt(-re)")
	case im == 0 && re > 0:
		verifAssert(verifC08bits(real(r)) == verifC08bits(math.Sqrt(re)), "positive real: real part Sqrt(re)")
		verifAssert(verifC08bits(imag(r)) == 0, "positive real: imaginary part +0")
	case re == 0 && im < 0:
		s := math.Sqrt(-0.5 * im)
		verifAssert(verifC08bits(real(r)) == verifC08bits(s) && verifC08bits(imag(r)) == verifC08bits(-s), "negative imaginary: r - ri, r = Sqrt(-im/2)")
	case re == 0 && im > 0:
		s := math.Sqrt(0.5 * im)
		verifAssert(verifC08bits(real(r)) == verifC08bits(s) && verifC08bits(imag(r)) == verifC08bits(s), "positive imaginary: r + ri, r = Sqrt(im/2)")
	default:
		verifReach("nan") // a NaN part with a zero part: falls through to the general arm
	}
	verifReach("end")
}

// VerifC08_Cmplx64Sqrt (model R, finite reals): r = Sqrt(x) satisfies
// real(r) >= 0, imag(r) has the sign of imag(x), and r*r = x.
func VerifC08_Cmplx64Sqrt() {
	x := verifC08c("x")
	arm := verifChoose("arm", 0, verifParam("sqrtarms", 1))
	switch arm {
	case 0:
		verifAssume(imag(x) == 0)
	case 1:
		verifAssume(real(x) == 0)
		verifAssume(imag(x) != 0)
	case 2:
		verifAssume(real(x) != 0)
		verifAssume(imag(x) != 0)
	}
	r := Sqrt(x)
	t, u := real(r), imag(r)
	verifAssert(t >= 0, "real(r) >= 0")
	verifAssert(verifImplies(imag(x) > 0, u >= 0) && verifImplies(imag(x) < 0, u <= 0), "imag(r) has the sign of imag(x)")
	verifAssert(t*t-u*u == real(x), "real(r*r) = real(x)")
	verifAssert(2*t*u == imag(x), "imag(r*r) = imag(x)")
	verifReach("end")
}
