package c64

import "math"

// C08, extreme magnitudes in single precision complex (see internal/asm/c128).
func VerifC08_L2Magnitude() {
	n := verifChoose("n", 1, verifParam("magn", 4))
	s := float32([]float64{math.Ldexp(1, 100), math.Ldexp(1, -100), math.Ldexp(1, 110), math.Ldexp(1, -90)}[verifChoose("scale", 0, 3)])
	rot := verifChoose("rot", 0, n-1)
	x, y := make([]complex64, n), make([]complex64, n)
	sx, sy := make([]complex64, n), make([]complex64, n)
	for i := 0; i < n; i++ {
		k := (i + rot) % n
		x[i] = complex(float32(3+2*k), float32(1-k))
		y[i] = complex(float32(k)-1.5, float32(2*k+1))
		sx[i] = complex(s*real(x[i]), s*imag(x[i]))
		sy[i] = complex(s*real(y[i]), s*imag(y[i]))
	}
	close := func(got, want float32) bool {
		return math.Abs(float64(got)-float64(want)) <= 1e-5*float64(want) && !math.IsInf(float64(got), 0)
	}
	verifAssert(close(L2NormUnitary(sx), s*L2NormUnitary(x)), "L2NormUnitary(s*x) = s*L2NormUnitary(x)")
	verifAssert(close(L2DistanceUnitary(sx, sy), s*L2DistanceUnitary(x, y)), "L2DistanceUnitary(s*x, s*y) = s*L2DistanceUnitary(x, y)")
	var ss, dd float64
	for i := range x {
		ss += float64(real(x[i]))*float64(real(x[i])) + float64(imag(x[i]))*float64(imag(x[i]))
		d := x[i] - y[i]
		dd += float64(real(d))*float64(real(d)) + float64(imag(d))*float64(imag(d))
	}
	verifAssert(close(L2NormUnitary(x), float32(math.Sqrt(ss))), "L2NormUnitary = sqrt(sum |x_i|^2)")
	verifAssert(close(L2DistanceUnitary(x, y), float32(math.Sqrt(dd))), "L2DistanceUnitary = sqrt(sum |x_i-y_i|^2)")
	verifReach("end")
}
