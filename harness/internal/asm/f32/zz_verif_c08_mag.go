package f32

import "math"

// C08, extreme magnitudes in single precision: factors 2^±90 .. 2^±110 (the
// float32 squares of s*x over/underflow, s*x itself does not).
func VerifC08_L2Magnitude() {
	n := verifChoose("n", 1, verifParam("magn", 4))
	s := float32([]float64{math.Ldexp(1, 100), math.Ldexp(1, -100), math.Ldexp(1, 110), math.Ldexp(1, -90)}[verifChoose("scale", 0, 3)])
	rot := verifChoose("rot", 0, n-1)
	inc := verifChoose("inc", 1, 2)
	x, y := make([]float32, n), make([]float32, n)
	sx, sy := make([]float32, n), make([]float32, n)
	xi, sxi := make([]float32, n*inc), make([]float32, n*inc)
	for i := 0; i < n; i++ {
		k := (i + rot) % n
		x[i] = float32(3+2*k) * (1 - 2*float32(k%2))
		y[i] = float32(k) - 1.5
		sx[i], sy[i] = s*x[i], s*y[i]
		xi[i*inc], sxi[i*inc] = x[i], sx[i]
	}
	close := func(got, want float32) bool {
		return math.Abs(float64(got)-float64(want)) <= 1e-5*float64(want) && !math.IsInf(float64(got), 0)
	}
	verifAssert(close(L2NormUnitary(sx), s*L2NormUnitary(x)), "L2NormUnitary(s*x) = s*L2NormUnitary(x)")
	verifAssert(close(L2NormInc(sxi, uintptr(n), uintptr(inc)), s*L2NormInc(xi, uintptr(n), uintptr(inc))), "L2NormInc(s*x) = s*L2NormInc(x)")
	verifAssert(close(L2DistanceUnitary(sx, sy), s*L2DistanceUnitary(x, y)), "L2DistanceUnitary(s*x, s*y) = s*L2DistanceUnitary(x, y)")
	var ss, dd float64
	for i := range x {
		ss += float64(x[i]) * float64(x[i])
		dd += float64(x[i]-y[i]) * float64(x[i]-y[i])
	}
	verifAssert(close(L2NormUnitary(x), float32(math.Sqrt(ss))), "L2NormUnitary = sqrt(sum x_i^2)")
	verifAssert(close(L2NormInc(xi, uintptr(n), uintptr(inc)), float32(math.Sqrt(ss))), "L2NormInc = sqrt(sum x_i^2)")
	verifAssert(close(L2DistanceUnitary(x, y), float32(math.Sqrt(dd))), "L2DistanceUnitary = sqrt(sum (x_i-y_i)^2)")
	verifReach("end")
}
