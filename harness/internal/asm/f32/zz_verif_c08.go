// Code generated from one template for f32, c128 and c64 (C08 kernels); edit with care.

package f32

// C08: the pure-Go kernels (build tags noasm / safe) are exactly the loops of
// their doc comments: result cells bit-identical (model F) / exactly equal
// (model R) to the one-line definition, cells outside the addressed
// window/stride untouched, dst may alias a source.

func verifC08same(a, b float32) bool { return verifSame(float64(a), float64(b)) }

func verifC08scalar(name string) float32 { return verifFloat32(name) }

func verifC08win(name string, n int) (back, win []float32, off int) {
	off = verifChoose(name+"off", 0, verifParam("maxoff", 1))
	back = verifFloat32s(name, off+n+1)
	win = back[off : off+n : off+n]
	return back, win, off
}

func verifC08copy(s []float32) []float32 { return append([]float32(nil), s...) }

func verifC08outside(back, back0 []float32, off, n int, msg string) {
	for i := range back {
		if i >= off && i < off+n {
			continue
		}
		verifAssert(verifC08same(back[i], back0[i]), msg)
	}
}

func verifC08unchanged(back, back0 []float32, msg string) {
	for i := range back {
		verifAssert(verifC08same(back[i], back0[i]), msg)
	}
}

func verifC08eq(a, b []float32, msg string) {
	verifAssert(len(a) == len(b), msg)
	for i := range a {
		verifAssert(verifC08same(a[i], b[i]), msg)
	}
}

// VerifC08_UnitaryKernels: the unit-stride element-wise kernels.
func VerifC08_UnitaryKernels() {
	n := verifChoose("n", 0, verifParam("maxn", 5))
	fn := verifChoose("fn", 0, 3)
	alias := 0
	if fn == 1 {
		alias = verifChoose("alias", 0, 2) // dst distinct / dst is x / dst is y
	} else if fn == 3 {
		alias = verifChoose("alias", 0, 1)
	}
	xb, x, xo := verifC08win("x", n)
	yb, y, yo := verifC08win("y", n)
	db, d, do := verifC08win("d", n)
	alpha := verifC08scalar("alpha")
	ralpha := alpha
	_ = ralpha
	switch alias {
	case 1:
		db, d, do = xb, x, xo
	case 2:
		db, d, do = yb, y, yo
	}
	x0, y0 := verifC08copy(x), verifC08copy(y)
	xb0, yb0, db0 := verifC08copy(xb), verifC08copy(yb), verifC08copy(db)
	usesD := false
	switch fn {
	case 0:
		AxpyUnitary(alpha, x, y)
		for i := 0; i < n; i++ {
			verifAssert(verifC08same(y[i], y0[i]+alpha*x0[i]), "y[i] += alpha*x[i]")
		}
		verifC08outside(yb, yb0, yo, n, "outside y untouched")
		verifC08unchanged(xb, xb0, "x untouched")
	case 1:
		usesD = true
		AxpyUnitaryTo(d, alpha, x, y)
		for i := 0; i < n; i++ {
			verifAssert(verifC08same(d[i], alpha*x0[i]+y0[i]), "dst[i] = alpha*x[i] + y[i]")
		}
	case 2:
		ScalUnitary(alpha, x)
		for i := 0; i < n; i++ {
			verifAssert(verifC08same(x[i], x0[i]*alpha), "x[i] *= alpha")
		}
		verifC08outside(xb, xb0, xo, n, "outside x untouched")
	case 3:
		usesD = true
		ScalUnitaryTo(d, alpha, x)
		for i := 0; i < n; i++ {
			verifAssert(verifC08same(d[i], alpha*x0[i]), "dst[i] = alpha*x[i]")
		}

	}
	if usesD {
		verifC08outside(db, db0, do, n, "outside dst untouched")
		if alias != 1 {
			verifC08unchanged(xb, xb0, "x untouched")
		}
		if alias != 2 {
			verifC08unchanged(yb, yb0, "y untouched")
		}
	}
	verifReach("end")
}

const verifC08maxInc = 3
const verifC08maxIx = 1

// increments and start indices: symbolic (one path, solver decides the
// addressing) or case-split (every combination its own path).
func verifC08pick(name string, lo, hi int) int {
	if false {
		return verifInt(name, lo, hi)
	}
	return verifChoose(name, lo, hi)
}

func verifC08stridedLen(n int) int {
	if n == 0 {
		return verifC08maxIx + 1
	}
	return verifC08maxIx + (n-1)*verifC08maxInc + 2
}

// VerifC08_IncKernels: the strided kernels with symbolic increments 1..3 and
// symbolic start indices 0..2; dst distinct from the sources or (alias=1)
// AxpyIncTo with dst = y / ScalIncTo with dst = x.
func VerifC08_IncKernels() {
	n := verifChoose("n", 0, verifParam("incn", 4))
	fn := verifChoose("fn", 0, 3)
	alias := 0
	if fn == 1 || fn == 3 {
		alias = verifChoose("alias", 0, 1)
	}
	L := verifC08stridedLen(n)
	x := verifFloat32s("x", L)
	y := verifFloat32s("y", L)
	d := verifFloat32s("d", L)
	alpha := verifC08scalar("alpha")
	ralpha := alpha
	_ = ralpha
	incX, incY, incD, ix, iy, id := 1, 1, 1, 0, 0, 0
	incX = verifC08pick("incX", 1, verifC08maxInc)
	if fn == 0 || fn == 1 {
		incY = verifC08pick("incY", 1, verifC08maxInc)
		ix = verifC08pick("ix", 0, verifC08maxIx)
		iy = verifC08pick("iy", 0, verifC08maxIx)
	}
	if (fn == 1 || fn == 3) && alias == 0 {
		incD = verifC08pick("incD", 1, verifC08maxInc)
	}
	if fn == 1 && alias == 0 {
		id = verifC08pick("id", 0, verifC08maxIx)
	}
	x0, y0, d0 := verifC08copy(x), verifC08copy(y), verifC08copy(d)
	switch fn {
	case 0:
		AxpyInc(alpha, x, y, uintptr(n), uintptr(incX), uintptr(incY), uintptr(ix), uintptr(iy))
		want := verifC08copy(y0)
		for i := 0; i < n; i++ {
			want[iy+i*incY] = y0[iy+i*incY] + alpha*x0[ix+i*incX]
		}
		verifC08eq(y, want, "y[iy+i*incY] += alpha*x[ix+i*incX]; other cells untouched")
		verifC08unchanged(x, x0, "x untouched")
	case 1:
		if alias == 1 {
			AxpyIncTo(y, uintptr(incY), uintptr(iy), alpha, x, y, uintptr(n), uintptr(incX), uintptr(incY), uintptr(ix), uintptr(iy))
			want := verifC08copy(y0)
			for i := 0; i < n; i++ {
				want[iy+i*incY] = alpha*x0[ix+i*incX] + y0[iy+i*incY]
			}
			verifC08eq(y, want, "AxpyIncTo with dst aliasing y")
			verifC08unchanged(x, x0, "x untouched")
			break
		}
		AxpyIncTo(d, uintptr(incD), uintptr(id), alpha, x, y, uintptr(n), uintptr(incX), uintptr(incY), uintptr(ix), uintptr(iy))
		want := verifC08copy(d0)
		for i := 0; i < n; i++ {
			want[id+i*incD] = alpha*x0[ix+i*incX] + y0[iy+i*incY]
		}
		verifC08eq(d, want, "dst[id+i*incD] = alpha*x[..] + y[..]; other cells untouched")
		verifC08unchanged(x, x0, "x untouched")
		verifC08unchanged(y, y0, "y untouched")
	case 2:
		ScalInc(alpha, x, uintptr(n), uintptr(incX))
		want := verifC08copy(x0)
		for i := 0; i < n; i++ {
			want[i*incX] = x0[i*incX] * alpha
		}
		verifC08eq(x, want, "x[i*incX] *= alpha; other cells untouched")
	case 3:
		if alias == 1 {
			ScalIncTo(x, uintptr(incX), alpha, x, uintptr(n), uintptr(incX))
			want := verifC08copy(x0)
			for i := 0; i < n; i++ {
				want[i*incX] = alpha * x0[i*incX]
			}
			verifC08eq(x, want, "ScalIncTo with dst aliasing x")
			break
		}
		ScalIncTo(d, uintptr(incD), alpha, x, uintptr(n), uintptr(incX))
		want := verifC08copy(d0)
		for i := 0; i < n; i++ {
			want[i*incD] = alpha * x0[i*incX]
		}
		verifC08eq(d, want, "dst[i*incDst] = alpha*x[i*incX]; other cells untouched")
		verifC08unchanged(x, x0, "x untouched")

	}
	verifReach("end")
}

// VerifC08_KernelReductions: dot products and sums equal their documented
// loops; inputs untouched.
func VerifC08_KernelReductions() {
	n := verifChoose("n", 0, verifParam("maxn", 5))
	fn := verifChoose("fn", 0, 2)
	inc := verifChoose("strided", 0, 1) == 1
	var x, y []float32
	incX, incY, ix, iy := 1, 1, 0, 0
	if inc {
		L := verifC08stridedLen(n)
		x, y = verifFloat32s("x", L), verifFloat32s("y", L)
		incX = verifC08pick("incX", 1, verifC08maxInc)
		incY = verifC08pick("incY", 1, verifC08maxInc)
		ix = verifC08pick("ix", 0, verifC08maxIx)
		iy = verifC08pick("iy", 0, verifC08maxIx)
	} else {
		x = verifFloat32s("x", n+2)[1 : n+1 : n+1]
		y = verifFloat32s("y", n+2)[1 : n+1 : n+1]
	}
	x0, y0 := verifC08copy(x), verifC08copy(y)
	switch fn {
	case 0:
		var got, want float32
		if inc {
			got = DotInc(x, y, uintptr(n), uintptr(incX), uintptr(incY), uintptr(ix), uintptr(iy))
		} else {
			got = DotUnitary(x, y)
		}
		for i := 0; i < n; i++ {
			want += y[iy+i*incY] * x[ix+i*incX]
		}
		verifAssert(verifC08same(got, want), "reduction equals its documented loop")
	case 1:
		var got, want float64
		if inc {
			got = DdotInc(x, y, uintptr(n), uintptr(incX), uintptr(incY), uintptr(ix), uintptr(iy))
		} else {
			got = DdotUnitary(x, y)
		}
		for i := 0; i < n; i++ {
			want += float64(y[iy+i*incY]) * float64(x[ix+i*incX])
		}
		verifAssert(verifSame(got, want), "reduction equals its documented loop")
	case 2:
		var got, want float32
		if inc {
			return
		}
		got = Sum(x)
		for i := 0; i < n; i++ {
			want += x[i]
		}
		verifAssert(verifC08same(got, want), "reduction equals its documented loop")

	}
	verifC08unchanged(x, x0, "x untouched")
	verifC08unchanged(y, y0, "y untouched")
	verifReach("end")
}
