package f32

// C08: the level-2 kernels behind BLAS (GemvN, GemvT, Ger; pure Go in the
// configurations checked here) equal their definitions in exact arithmetic
// (model R), for every increment sign, row stride lda >= n, and touch only the
// addressed elements of y / A.

func verifC08gAbs(x int) int {
	if x < 0 {
		return -x
	}
	return x
}

func verifC08gIdx(n, inc, i int) int {
	if inc > 0 {
		return i * inc
	}
	return (n - 1 - i) * (-inc)
}

var verifC08gIncs = []int{-2, -1, 1, 2}

// VerifC08_Gemv: y = alpha*op(A)*x + beta*y on the addressed elements of y;
// A, x and the cells of y between the addressed elements are untouched.
func VerifC08_Gemv() { verifC08gemv(false) }

// VerifC08_GemvTail: the cell of y just past the last addressed element is
// untouched (y may be longer than 1+(len-1)*|inc|).
func VerifC08_GemvTail() { verifC08gemv(true) }

func verifC08gemv(tail bool) {
	maxN := verifParam("gemvn", 2)
	trans := verifChoose("trans", 0, 1) == 1
	m := verifChoose("m", 0, maxN)
	n := verifChoose("n", 0, maxN)
	lda := n + verifChoose("ldaPad", 0, 1)
	if lda < 1 {
		lda = 1
	}
	incX := verifC08gIncs[verifChoose("incX", 0, 3)]
	incY := verifC08gIncs[verifChoose("incY", 0, 3)]
	lenX, lenY := n, m
	if trans {
		lenX, lenY = m, n
	}
	la := 1
	if m > 0 {
		la = lda*(m-1) + n + 1
	}
	lx, ly := 1, 1
	if lenX > 0 {
		lx = 2 + (lenX-1)*verifC08gAbs(incX)
	}
	if lenY > 0 {
		ly = 2 + (lenY-1)*verifC08gAbs(incY)
	}
	a := verifFloat32s("a", la)
	x := verifFloat32s("x", lx)
	y := verifFloat32s("y", ly)
	alpha := verifFloat32("alpha")
	beta := verifFloat32("beta")
	switch verifChoose("alphabeta", 0, 3) {
	case 1:
		alpha = 0
	case 2:
		beta = 0
	case 3:
		beta = 1
	}
	a0 := append([]float32(nil), a...)
	x0 := append([]float32(nil), x...)
	y0 := append([]float32(nil), y...)
	if trans {
		GemvT(uintptr(m), uintptr(n), alpha, a, uintptr(lda), x, uintptr(incX), beta, y, uintptr(incY))
	} else {
		GemvN(uintptr(m), uintptr(n), alpha, a, uintptr(lda), x, uintptr(incX), beta, y, uintptr(incY))
	}
	for i := range a {
		verifAssert(verifSame(float64(a[i]), float64(a0[i])), "A unchanged")
	}
	for i := range x {
		verifAssert(verifSame(float64(x[i]), float64(x0[i])), "x unchanged")
	}
	want := append([]float32(nil), y0...)
	for i := 0; i < lenY; i++ {
		var s float32
		for j := 0; j < lenX; j++ {
			var aij float32
			if trans {
				aij = a0[j*lda+i]
			} else {
				aij = a0[i*lda+j]
			}
			s += aij * x0[verifC08gIdx(lenX, incX, j)]
		}
		yi := verifC08gIdx(lenY, incY, i)
		want[yi] = alpha*s + beta*y0[yi]
	}
	if tail {
		verifAssert(verifSame(float64(y[ly-1]), float64(y0[ly-1])), "y beyond the last addressed element untouched")
	} else {
		for i := 0; i < ly-1; i++ {
			verifAssertEqF(float64(y[i]), float64(want[i]), "y = alpha*op(A)*x + beta*y on the addressed elements, cells in between untouched")
		}
	}
	verifReach("end")
}

// VerifC08_Ger: A += alpha*x*y^T on the m x n window with row stride lda;
// padding, x and y untouched.
func VerifC08_Ger() {
	maxN := verifParam("gemvn", 2)
	m := verifChoose("m", 0, maxN)
	n := verifChoose("n", 0, maxN)
	lda := n + verifChoose("ldaPad", 0, 1)
	if lda < 1 {
		lda = 1
	}
	incX := verifC08gIncs[verifChoose("incX", 0, 3)]
	incY := verifC08gIncs[verifChoose("incY", 0, 3)]
	la := 1
	if m > 0 {
		la = lda*(m-1) + n + 1
	}
	lx, ly := 1, 1
	if m > 0 {
		lx = 2 + (m-1)*verifC08gAbs(incX)
	}
	if n > 0 {
		ly = 2 + (n-1)*verifC08gAbs(incY)
	}
	a := verifFloat32s("a", la)
	x := verifFloat32s("x", lx)
	y := verifFloat32s("y", ly)
	alpha := verifFloat32("alpha")
	a0 := append([]float32(nil), a...)
	x0 := append([]float32(nil), x...)
	y0 := append([]float32(nil), y...)
	Ger(uintptr(m), uintptr(n), alpha, x, uintptr(incX), y, uintptr(incY), a, uintptr(lda))
	for i := range x {
		verifAssert(verifSame(float64(x[i]), float64(x0[i])), "x unchanged")
	}
	for i := range y {
		verifAssert(verifSame(float64(y[i]), float64(y0[i])), "y unchanged")
	}
	want := append([]float32(nil), a0...)
	for i := 0; i < m; i++ {
		for j := 0; j < n; j++ {
			want[i*lda+j] = a0[i*lda+j] + alpha*x0[verifC08gIdx(m, incX, i)]*y0[verifC08gIdx(n, incY, j)]
		}
	}
	for i := range a {
		verifAssertEqF(float64(a[i]), float64(want[i]), "A += alpha*x*y^T on the window, padding untouched")
	}
	verifReach("end")
}
