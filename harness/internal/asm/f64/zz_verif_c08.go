package f64

import "math"

// C08: the pure-Go kernels (selected by the build tags noasm and safe) are
// exactly the loops given in their doc comments: in model F every result cell
// is bit-identical to the documented one-line definition, cells outside the
// addressed window/stride are untouched, dst may alias a source; in model R
// reductions equal the exact sum.

func verifC08win(name string, n int) (back, win []float64, off int) {
	off = verifChoose(name+"off", 0, verifParam("maxoff", 1))
	back = verifFloats(name, off+n+1)
	win = back[off : off+n : off+n]
	return back, win, off
}

func verifC08copy(s []float64) []float64 { return append([]float64(nil), s...) }

func verifC08outside(back, back0 []float64, off, n int, msg string) {
	for i := range back {
		if i >= off && i < off+n {
			continue
		}
		verifAssert(verifSame(back[i], back0[i]), msg)
	}
}

func verifC08unchanged(back, back0 []float64, msg string) {
	for i := range back {
		verifAssert(verifSame(back[i], back0[i]), msg)
	}
}

// VerifC08_UnitaryKernels: AxpyUnitary, AxpyUnitaryTo, ScalUnitary,
// ScalUnitaryTo, Add, AddConst, CumSum, CumProd, Div, DivTo.
func VerifC08_UnitaryKernels() {
	verifDivZeroPrune(true) // model R: x/0 is outside the finite-real model; model F is unaffected
	n := verifChoose("n", 0, verifParam("maxn", 5))
	fn := verifChoose("fn", 0, 9)
	alias := 0
	if fn == 1 || fn == 9 {
		alias = verifChoose("alias", 0, 2) // dst distinct / dst is x / dst is y
	} else if fn == 3 || fn == 6 || fn == 7 {
		alias = verifChoose("alias", 0, 1)
	}
	xb, x, xo := verifC08win("x", n)
	yb, y, yo := verifC08win("y", n)
	db, d, do := verifC08win("d", n)
	alpha := verifFloat("alpha")
	switch alias {
	case 1:
		db, d, do = xb, x, xo
	case 2:
		db, d, do = yb, y, yo
	}
	x0, y0 := verifC08copy(x), verifC08copy(y)
	xb0, yb0, db0 := verifC08copy(xb), verifC08copy(yb), verifC08copy(db)
	switch fn {
	case 0:
		AxpyUnitary(alpha, x, y)
		for i := 0; i < n; i++ {
			verifAssert(verifSame(y[i], y0[i]+alpha*x0[i]), "y[i] += alpha*x[i]")
		}
		verifC08outside(yb, yb0, yo, n, "outside y untouched")
		verifC08unchanged(xb, xb0, "x untouched")
	case 1:
		AxpyUnitaryTo(d, alpha, x, y)
		for i := 0; i < n; i++ {
			verifAssert(verifSame(d[i], alpha*x0[i]+y0[i]), "dst[i] = alpha*x[i] + y[i]")
		}
	case 2:
		ScalUnitary(alpha, x)
		for i := 0; i < n; i++ {
			verifAssert(verifSame(x[i], x0[i]*alpha), "x[i] *= alpha")
		}
		verifC08outside(xb, xb0, xo, n, "outside x untouched")
	case 3:
		ScalUnitaryTo(d, alpha, x)
		for i := 0; i < n; i++ {
			verifAssert(verifSame(d[i], alpha*x0[i]), "dst[i] = alpha*x[i]")
		}
	case 4:
		Add(y, x)
		for i := 0; i < n; i++ {
			verifAssert(verifSame(y[i], y0[i]+x0[i]), "dst[i] += s[i]")
		}
		verifC08outside(yb, yb0, yo, n, "outside dst untouched")
		verifC08unchanged(xb, xb0, "s untouched")
	case 5:
		AddConst(alpha, x)
		for i := 0; i < n; i++ {
			verifAssert(verifSame(x[i], x0[i]+alpha), "x[i] += alpha")
		}
		verifC08outside(xb, xb0, xo, n, "outside x untouched")
	case 6, 7:
		var ret []float64
		if fn == 6 {
			ret = CumSum(d, x)
		} else {
			ret = CumProd(d, x)
		}
		verifAssert(len(ret) == n, "returns dst")
		for i := 0; i < n; i++ {
			if i == 0 {
				verifAssert(verifSame(d[0], x0[0]), "dst[0] = s[0]")
			} else if fn == 6 {
				verifAssert(verifSame(d[i], d[i-1]+x0[i]), "dst[i] = dst[i-1] + s[i]")
			} else {
				verifAssert(verifSame(d[i], d[i-1]*x0[i]), "dst[i] = dst[i-1] * s[i]")
			}
		}
	case 8:
		Div(y, x)
		for i := 0; i < n; i++ {
			verifAssert(verifSame(y[i], y0[i]/x0[i]), "dst[i] /= s[i]")
		}
		verifC08outside(yb, yb0, yo, n, "outside dst untouched")
		verifC08unchanged(xb, xb0, "s untouched")
	case 9:
		ret := DivTo(d, x, y)
		verifAssert(len(ret) == n, "returns dst")
		for i := 0; i < n; i++ {
			verifAssert(verifSame(d[i], x0[i]/y0[i]), "dst[i] = s[i] / t[i]")
		}
	}
	if fn == 1 || fn == 3 || fn == 6 || fn == 7 || fn == 9 {
		verifC08outside(db, db0, do, n, "outside dst untouched")
		if alias != 1 {
			verifC08unchanged(xb, xb0, "x untouched")
		}
		if alias != 2 {
			verifC08unchanged(yb, yb0, "y untouched")
		}
	}
	verifReach("end")
}

// strided operand: backing of fixed length, symbolic start index and increment.
const verifC08maxInc = 3
const verifC08maxIx = 2

func verifC08stridedLen(n int) int {
	if n == 0 {
		return verifC08maxIx + 1
	}
	return verifC08maxIx + (n-1)*verifC08maxInc + 2
}

// VerifC08_IncKernels: AxpyInc, AxpyIncTo, ScalInc, ScalIncTo with symbolic
// increments 1..3 and symbolic start indices 0..2.
func VerifC08_IncKernels() {
	n := verifChoose("n", 0, verifParam("incn", 4))
	fn := verifChoose("fn", 0, 3)
	L := verifC08stridedLen(n)
	x := verifFloats("x", L)
	y := verifFloats("y", L)
	d := verifFloats("d", L)
	alpha := verifFloat("alpha")
	incX := verifInt("incX", 1, verifC08maxInc)
	incY := verifInt("incY", 1, verifC08maxInc)
	incD := verifInt("incD", 1, verifC08maxInc)
	ix := verifInt("ix", 0, verifC08maxIx)
	iy := verifInt("iy", 0, verifC08maxIx)
	id := verifInt("id", 0, verifC08maxIx)
	x0, y0, d0 := verifC08copy(x), verifC08copy(y), verifC08copy(d)
	switch fn {
	case 0:
		AxpyInc(alpha, x, y, uintptr(n), uintptr(incX), uintptr(incY), uintptr(ix), uintptr(iy))
		for j := 0; j < L; j++ {
			want := y0[j]
			for i := 0; i < n; i++ {
				want = verifIteF(j == iy+i*incY, y0[j]+alpha*x0[ix+i*incX], want)
			}
			verifAssert(verifSame(y[j], want), "y[iy+i*incY] += alpha*x[ix+i*incX]; other cells untouched")
		}
		verifC08unchanged(x, x0, "x untouched")
	case 1:
		AxpyIncTo(d, uintptr(incD), uintptr(id), alpha, x, y, uintptr(n), uintptr(incX), uintptr(incY), uintptr(ix), uintptr(iy))
		for j := 0; j < L; j++ {
			want := d0[j]
			for i := 0; i < n; i++ {
				want = verifIteF(j == id+i*incD, alpha*x0[ix+i*incX]+y0[iy+i*incY], want)
			}
			verifAssert(verifSame(d[j], want), "dst[id+i*incD] = alpha*x[..] + y[..]; other cells untouched")
		}
		verifC08unchanged(x, x0, "x untouched")
		verifC08unchanged(y, y0, "y untouched")
	case 2:
		ScalInc(alpha, x, uintptr(n), uintptr(incX))
		for j := 0; j < L; j++ {
			want := x0[j]
			for i := 0; i < n; i++ {
				want = verifIteF(j == i*incX, x0[j]*alpha, want)
			}
			verifAssert(verifSame(x[j], want), "x[i*incX] *= alpha; other cells untouched")
		}
	case 3:
		ScalIncTo(d, uintptr(incD), alpha, x, uintptr(n), uintptr(incX))
		for j := 0; j < L; j++ {
			want := d0[j]
			for i := 0; i < n; i++ {
				want = verifIteF(j == i*incD, alpha*x0[i*incX], want)
			}
			verifAssert(verifSame(d[j], want), "dst[i*incDst] = alpha*x[i*incX]; other cells untouched")
		}
		verifC08unchanged(x, x0, "x untouched")
	}
	verifReach("end")
}

// VerifC08_IncKernelsAliased: AxpyIncTo with dst aliasing y (as used by BLAS
// level 1) and ScalIncTo with dst aliasing x, equal increments and offsets.
func VerifC08_IncKernelsAliased() {
	n := verifChoose("n", 0, verifParam("incn", 4))
	fn := verifChoose("fn", 0, 1)
	L := verifC08stridedLen(n)
	x := verifFloats("x", L)
	y := verifFloats("y", L)
	alpha := verifFloat("alpha")
	incX := verifInt("incX", 1, verifC08maxInc)
	incY := verifInt("incY", 1, verifC08maxInc)
	ix := verifInt("ix", 0, verifC08maxIx)
	iy := verifInt("iy", 0, verifC08maxIx)
	x0, y0 := verifC08copy(x), verifC08copy(y)
	switch fn {
	case 0:
		AxpyIncTo(y, uintptr(incY), uintptr(iy), alpha, x, y, uintptr(n), uintptr(incX), uintptr(incY), uintptr(ix), uintptr(iy))
		for j := 0; j < L; j++ {
			want := y0[j]
			for i := 0; i < n; i++ {
				want = verifIteF(j == iy+i*incY, alpha*x0[ix+i*incX]+y0[j], want)
			}
			verifAssert(verifSame(y[j], want), "dst aliasing y")
		}
		verifC08unchanged(x, x0, "x untouched")
	case 1:
		ScalIncTo(x, uintptr(incX), alpha, x, uintptr(n), uintptr(incX))
		for j := 0; j < L; j++ {
			want := x0[j]
			for i := 0; i < n; i++ {
				want = verifIteF(j == i*incX, alpha*x0[j], want)
			}
			verifAssert(verifSame(x[j], want), "dst aliasing x")
		}
	}
	verifReach("end")
}

// VerifC08_KernelReductions: DotUnitary, DotInc, Sum, L1Norm, L1NormInc,
// L1Dist, LinfDist equal their documented loops (bit-identical in model F,
// exact value in model R); inputs untouched.
func VerifC08_KernelReductions() {
	n := verifChoose("n", 0, verifParam("maxn", 5))
	fn := verifChoose("fn", 0, 6)
	var x, y []float64
	var xb, yb []float64
	incX, incY, ix, iy := 1, 1, 0, 0
	switch fn {
	case 1:
		L := verifC08stridedLen(n)
		x, y = verifFloats("x", L), verifFloats("y", L)
		xb, yb = x, y
		incX = verifInt("incX", 1, verifC08maxInc)
		incY = verifInt("incY", 1, verifC08maxInc)
		ix = verifInt("ix", 0, verifC08maxIx)
		iy = verifInt("iy", 0, verifC08maxIx)
	case 4:
		incX = verifChoose("incXc", 1, verifC08maxInc)
		x = verifFloats("x", n*incX+1)
		xb = x
	default:
		xb, x, _ = verifC08win("x", n)
		yb, y, _ = verifC08win("y", n)
	}
	xb0, yb0 := verifC08copy(xb), verifC08copy(yb)
	var got, want float64
	switch fn {
	case 0:
		got = DotUnitary(x, y)
		for i := 0; i < n; i++ {
			want += y[i] * x[i]
		}
	case 1:
		got = DotInc(x, y, uintptr(n), uintptr(incX), uintptr(incY), uintptr(ix), uintptr(iy))
		for i := 0; i < n; i++ {
			want += y[iy+i*incY] * x[ix+i*incX]
		}
	case 2:
		got = Sum(x)
		for i := 0; i < n; i++ {
			want += x[i]
		}
	case 3:
		got = L1Norm(x)
		for i := 0; i < n; i++ {
			want += math.Abs(x[i])
		}
	case 4:
		got = L1NormInc(x, n, incX)
		for i := 0; i < n; i++ {
			want += math.Abs(x[i*incX])
		}
	case 5:
		got = L1Dist(x, y)
		for i := 0; i < n; i++ {
			want += math.Abs(y[i] - x[i])
		}
	case 6:
		got = LinfDist(x, y)
		// maximum of |t[i]-s[i]|: upper bound and attained; NaN propagates
		// only in the sense documented by the loop (not asserted here).
		anyNaN := false
		attained := n == 0 && got == 0
		for i := 0; i < n; i++ {
			a := math.Abs(y[i] - x[i])
			anyNaN = verifOr(anyNaN, a != a)
			attained = verifOr(attained, verifSame(got, a))
		}
		verifAssert(attained, "LinfDist is one of the |t[i]-s[i]| (0 when empty)")
		for i := 0; i < n; i++ {
			a := math.Abs(y[i] - x[i])
			verifAssert(verifImplies(verifNot(anyNaN), got >= a), "LinfDist is an upper bound")
		}
	}
	if fn != 6 {
		verifAssertEqF(got, want, "reduction equals its documented loop")
	}
	verifC08unchanged(xb, xb0, "x untouched")
	verifC08unchanged(yb, yb0, "y untouched")
	verifReach("end")
}

// VerifC08_KernelNorm2: L2NormUnitary, L2NormInc, L2DistanceUnitary in exact
// arithmetic (model R): r >= 0 and r*r equals the sum of squares.
func VerifC08_KernelNorm2() {
	n := verifChoose("n", 0, verifParam("norm2n", 2))
	fn := verifChoose("fn", 0, 2)
	var got, want float64
	switch fn {
	case 0:
		x := verifFloats("x", n+2)[1 : n+1]
		got = L2NormUnitary(x)
		for i := 0; i < n; i++ {
			want += x[i] * x[i]
		}
	case 1:
		inc := verifChoose("inc", 1, 3)
		x := verifFloats("x", n*inc+1)
		got = L2NormInc(x, uintptr(n), uintptr(inc))
		for i := 0; i < n; i++ {
			want += x[i*inc] * x[i*inc]
		}
	case 2:
		x := verifFloats("x", n+2)[1 : n+1]
		y := verifFloats("y", n+2)[1 : n+1]
		got = L2DistanceUnitary(x, y)
		for i := 0; i < n; i++ {
			want += (x[i] - y[i]) * (x[i] - y[i])
		}
	}
	verifAssert(got >= 0, "norm is non-negative")
	verifAssertEqF(got*got, want, "norm squared is the sum of squares")
	verifReach("end")
}

// VerifC08_KernelNorm2Special: model F, the NaN / Inf / all-zero arms of the
// scaled 2-norm: any NaN element gives NaN; otherwise an infinite element gives
// +Inf; all elements zero gives 0.
func VerifC08_KernelNorm2Special() {
	n := verifChoose("n", 0, verifParam("norm2sn", 3))
	inc := verifChoose("inc", 1, 2)
	x := verifFloats("x", n*inc+1)
	var got float64
	if inc == 1 {
		got = L2NormUnitary(x[:n])
	} else {
		got = L2NormInc(x, uintptr(n), uintptr(inc))
	}
	anyNaN, anyInf, allZero := false, false, true
	for i := 0; i < n; i++ {
		v := x[i*inc]
		anyNaN = verifOr(anyNaN, v != v)
		anyInf = verifOr(anyInf, math.IsInf(v, 0))
		allZero = verifAnd(allZero, v == 0)
	}
	verifAssert(verifImplies(allZero, verifSame(got, 0)), "all zero (or empty) gives +0")
	verifAssert(verifImplies(verifAnd(anyInf, verifNot(anyNaN)), math.IsInf(got, 1)), "an infinite element and no NaN gives +Inf")
	verifReach("end")
}
