package f64

import "math"

// C08, extreme magnitudes (see internal/asm/c128): the scaled 2-norm kernels are
// homogeneous under exact power-of-two factors whose squares over/underflow.
func VerifC08_L2Magnitude() {
	n := verifChoose("n", 1, verifParam("magn", 4))
	s := []float64{math.Ldexp(1, 500), math.Ldexp(1, -500), math.Ldexp(1, 520), math.Ldexp(1, -530)}[verifChoose("scale", 0, 3)]
	rot := verifChoose("rot", 0, n-1)
	inc := verifChoose("inc", 1, 2)
	x, y := make([]float64, n), make([]float64, n)
	sx, sy := make([]float64, n), make([]float64, n)
	xi, sxi := make([]float64, n*inc), make([]float64, n*inc)
	for i := 0; i < n; i++ {
		k := (i + rot) % n
		x[i] = float64(3+2*k) * (1 - 2*float64(k%2))
		y[i] = float64(k) - 1.5
		sx[i], sy[i] = s*x[i], s*y[i]
		xi[i*inc], sxi[i*inc] = x[i], sx[i]
	}
	close := func(got, want float64) bool { return math.Abs(got-want) <= 1e-12*want }
	verifAssert(close(L2NormUnitary(sx), s*L2NormUnitary(x)), "L2NormUnitary(s*x) = s*L2NormUnitary(x)")
	verifAssert(close(L2NormInc(sxi, uintptr(n), uintptr(inc)), s*L2NormInc(xi, uintptr(n), uintptr(inc))), "L2NormInc(s*x) = s*L2NormInc(x)")
	verifAssert(close(L2DistanceUnitary(sx, sy), s*L2DistanceUnitary(x, y)), "L2DistanceUnitary(s*x, s*y) = s*L2DistanceUnitary(x, y)")
	var ss, dd float64
	for i := range x {
		ss += x[i] * x[i]
		dd += (x[i] - y[i]) * (x[i] - y[i])
	}
	verifAssert(close(L2NormUnitary(x), math.Sqrt(ss)), "L2NormUnitary = sqrt(sum x_i^2)")
	verifAssert(close(L2NormInc(xi, uintptr(n), uintptr(inc)), math.Sqrt(ss)), "L2NormInc = sqrt(sum x_i^2)")
	verifAssert(close(L2DistanceUnitary(x, y), math.Sqrt(dd)), "L2DistanceUnitary = sqrt(sum (x_i-y_i)^2)")
	verifReach("end")
}
