package c128

import "math"

// C08, extreme magnitudes: the scaled 2-norm kernels are documented to avoid
// overflow and underflow of the intermediate squares, so for an exact
// power-of-two factor s (2^±500: the squares of s*x over/underflow, s*x itself
// does not) L2Norm(s*x) = s*L2Norm(x) and L2Distance(s*x, s*y) =
// s*L2Distance(x, y). Concrete data, case split over the length, the factor
// and the position of the largest element.
func VerifC08_L2Magnitude() {
	n := verifChoose("n", 1, verifParam("magn", 4))
	s := []float64{math.Ldexp(1, 500), math.Ldexp(1, -500), math.Ldexp(1, 520), math.Ldexp(1, -530)}[verifChoose("scale", 0, 3)]
	rot := verifChoose("rot", 0, n-1)
	x, y := make([]complex128, n), make([]complex128, n)
	sx, sy := make([]complex128, n), make([]complex128, n)
	for i := 0; i < n; i++ {
		k := (i + rot) % n
		x[i] = complex(float64(3+2*k), float64(1-k))
		y[i] = complex(float64(k)-1.5, float64(2*k+1))
		sx[i] = complex(s*real(x[i]), s*imag(x[i]))
		sy[i] = complex(s*real(y[i]), s*imag(y[i]))
	}
	close := func(got, want float64) bool { return math.Abs(got-want) <= 1e-12*want }
	verifAssert(close(L2NormUnitary(sx), s*L2NormUnitary(x)), "L2NormUnitary(s*x) = s*L2NormUnitary(x)")
	verifAssert(close(L2DistanceUnitary(sx, sy), s*L2DistanceUnitary(x, y)), "L2DistanceUnitary(s*x, s*y) = s*L2DistanceUnitary(x, y)")
	// the reference value itself, from the definition in ordinary magnitudes
	var ss, dd float64
	for i := range x {
		ss += real(x[i])*real(x[i]) + imag(x[i])*imag(x[i])
		d := x[i] - y[i]
		dd += real(d)*real(d) + imag(d)*imag(d)
	}
	verifAssert(close(L2NormUnitary(x), math.Sqrt(ss)), "L2NormUnitary = sqrt(sum |x_i|^2)")
	verifAssert(close(L2DistanceUnitary(x, y), math.Sqrt(dd)), "L2DistanceUnitary = sqrt(sum |x_i-y_i|^2)")
	verifReach("end")
}
