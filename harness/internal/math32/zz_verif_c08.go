package math32

import "math"

// C08: internal/math32 (the float32 twin of package math used by the f32/c64
// kernels), model F: every float32 bit pattern. Asserted are the documented
// special cases and the defining bit-level behaviour; arithmetic (* / +) is
// uninterpreted, Sqrt is the engine's square-root intrinsic.

func verifC08bits(x float32) uint32 { return math.Float32bits(x) }

// VerifC08_Math32Classify: NaN, Inf, IsNaN, IsInf, Signbit, Abs, Copysign.
func VerifC08_Math32Classify() {
	x, y := verifFloat32("x"), verifFloat32("y")
	bx, by := verifC08bits(x), verifC08bits(y)
	const (
		sign  = uint32(1) << 31
		expo  = uint32(0x7f800000)
		fract = uint32(0x007fffff)
	)
	isnan := bx&expo == expo && bx&fract != 0
	isinf := bx&expo == expo && bx&fract == 0
	verifAssert(IsNaN(x) == isnan, "IsNaN: exponent all ones and a non-zero fraction")
	verifAssert(IsInf(x, 0) == isinf, "IsInf(x,0): either infinity")
	verifAssert(IsInf(x, 1) == (bx == expo), "IsInf(x,1): +Inf")
	verifAssert(IsInf(x, -1) == (bx == expo|sign), "IsInf(x,-1): -Inf")
	verifAssert(IsInf(x, 7) == (bx == expo), "IsInf(x, sign>0)")
	verifAssert(IsInf(x, -7) == (bx == expo|sign), "IsInf(x, sign<0)")
	verifAssert(Signbit(x) == (bx&sign != 0), "Signbit")
	verifAssert(IsNaN(NaN()), "NaN() is a NaN")
	verifAssert(verifC08bits(NaN()) == 0x7fc00000, "NaN() is the quiet NaN 0x7fc00000")
	verifAssert(verifC08bits(Inf(1)) == expo && verifC08bits(Inf(0)) == expo, "Inf(sign>=0) = +Inf")
	verifAssert(verifC08bits(Inf(-1)) == expo|sign, "Inf(sign<0) = -Inf")
	a := Abs(x)
	if isnan {
		verifAssert(IsNaN(a), "Abs(NaN) = NaN")
	} else {
		verifAssert(verifC08bits(a) == bx&^sign, "Abs clears the sign bit (Abs(-0) = +0, Abs(-Inf) = +Inf)")
	}
	c := Copysign(x, y)
	verifAssert(verifC08bits(c) == bx&^sign|by&sign, "Copysign: magnitude of x, sign of y")
	verifReach("end")
}

// VerifC08_Math32MaxMin: Max/Min special cases as documented, otherwise the
// larger/smaller operand.
func VerifC08_Math32MaxMin() {
	x, y := verifFloat32("x"), verifFloat32("y")
	mx, mn := Max(x, y), Min(x, y)
	pinf, ninf := Inf(1), Inf(-1)
	nx, ny := x != x, y != y
	switch {
	case x == pinf || y == pinf:
		verifAssert(mx == pinf, "Max(x, +Inf) = Max(+Inf, x) = +Inf (also for NaN x)")
	case nx || ny:
		verifAssert(mx != mx, "Max(x, NaN) = Max(NaN, x) = NaN")
	case x == 0 && y == 0:
		verifAssert(mx == 0 && Signbit(mx) == (Signbit(x) && Signbit(y)), "Max(+0, ±0) = Max(±0, +0) = +0, Max(-0, -0) = -0")
	default:
		verifAssert(mx >= x && mx >= y, "Max is an upper bound")
		verifAssert(verifC08bits(mx) == verifC08bits(x) || verifC08bits(mx) == verifC08bits(y), "Max is one of the operands")
	}
	switch {
	case x == ninf || y == ninf:
		verifAssert(mn == ninf, "Min(x, -Inf) = Min(-Inf, x) = -Inf (also for NaN x)")
	case nx || ny:
		verifAssert(mn != mn, "Min(x, NaN) = Min(NaN, x) = NaN")
	case x == 0 && y == 0:
		verifAssert(mn == 0 && Signbit(mn) == (Signbit(x) || Signbit(y)), "Min(-0, ±0) = Min(±0, -0) = -0")
	default:
		verifAssert(mn <= x && mn <= y, "Min is a lower bound")
		verifAssert(verifC08bits(mn) == verifC08bits(x) || verifC08bits(mn) == verifC08bits(y), "Min is one of the operands")
	}
	verifAssert(verifC08bits(Max(y, x)) == verifC08bits(mx) || (mx != mx), "Max commutes")
	verifAssert(verifC08bits(Min(y, x)) == verifC08bits(mn) || (mn != mn), "Min commutes")
	verifReach("end")
}

// VerifC08_Math32Hypot: Hypot(±Inf, q) = Hypot(p, ±Inf) = +Inf (also when the
// other operand is NaN), otherwise Hypot(NaN, q) = Hypot(p, NaN) = NaN;
// Hypot(±0, ±0) = +0; the result does not depend on the signs nor on the
// order of the operands; for finite operands it is big*Sqrt(1+(small/big)^2).
func VerifC08_Math32Hypot() {
	p, q := verifFloat32("p"), verifFloat32("q")
	h := Hypot(p, q)
	switch {
	case IsInf(p, 0) || IsInf(q, 0):
		verifAssert(verifC08bits(h) == 0x7f800000, "Hypot(±Inf, q) = Hypot(p, ±Inf) = +Inf")
	case p != p || q != q:
		verifAssert(h != h, "Hypot(NaN, q) = Hypot(p, NaN) = NaN")
	case p == 0 && q == 0:
		verifAssert(verifC08bits(h) == 0, "Hypot(±0, ±0) = +0")
	case p == 0 || q == 0:
		// one operand ±0: |other| in exact arithmetic; the quotient ±0/big is an
		// opaque value in model F, nothing is stated
		verifReach("onezero")
	default:
		big, small := Abs(p), Abs(q)
		if big < small {
			big, small = small, big
		}
		r := small / big
		verifAssert(verifC08bits(h) == verifC08bits(big*Sqrt(1+r*r)), "Hypot = big * Sqrt(1 + (small/big)^2)")
	}
	same := func(a, b float32) bool { return verifC08bits(a) == verifC08bits(b) || (a != a && b != b) }
	verifAssert(same(Hypot(q, p), h), "Hypot(q, p) = Hypot(p, q)")
	if p != 0 && q != 0 {
		verifAssert(same(Hypot(-p, q), h) && same(Hypot(p, -q), h), "Hypot ignores the signs")
	}
	verifReach("end")
}
