package hyperdual

import "math"

// C18: hyperdual numbers a + b1 e1 + b2 e2 + b12 e1e2 (e1^2 = e2^2 = 0) form a
// commutative ring; every elementary function returns
//   f(a) + f'(a) b1 e1 + f'(a) b2 e2 + (f'(a) b12 + f''(a) b1 b2) e1e2
// with f, f', f'' built from the (uninterpreted) math functions.

func verifC18num(tag string) Number {
	return Number{Real: verifFloat(tag + ".re"), E1mag: verifFloat(tag + ".e1"), E2mag: verifFloat(tag + ".e2"), E1E2mag: verifFloat(tag + ".e12")}
}

// (compared as 1+x == 1+y: identical in exact arithmetic; keeps the native
// replay of witnesses, which uses a purely relative tolerance, meaningful when
// the expected component is exactly 0)
func verifC18eq(x, y Number, msg string) {
	verifAssertEqF(1+x.Real, 1+y.Real, msg+" (real part)")
	verifAssertEqF(1+x.E1mag, 1+y.E1mag, msg+" (e1 part)")
	verifAssertEqF(1+x.E2mag, 1+y.E2mag, msg+" (e2 part)")
	verifAssertEqF(1+x.E1E2mag, 1+y.E1E2mag, msg+" (e1e2 part)")
}

// verifC18lift builds the expected value from f(a), f'(a), f”(a).
func verifC18lift(d Number, f, f1, f2 float64) Number {
	return Number{Real: f, E1mag: f1 * d.E1mag, E2mag: f1 * d.E2mag, E1E2mag: f1*d.E1E2mag + f2*d.E1mag*d.E2mag}
}

func VerifC18_HyperdualRing() {
	x, y, z := verifC18num("x"), verifC18num("y"), verifC18num("z")
	f := verifFloat("f")
	verifC18eq(Mul(Mul(x, y), z), Mul(x, Mul(y, z)), "Mul associative")
	verifC18eq(Mul(x, y), Mul(y, x), "Mul commutative")
	verifC18eq(Mul(x, Add(y, z)), Add(Mul(x, y), Mul(x, z)), "Mul distributes over Add")
	verifC18eq(Mul(x, Sub(y, z)), Sub(Mul(x, y), Mul(x, z)), "Mul distributes over Sub")
	verifC18eq(Add(Add(x, y), z), Add(x, Add(y, z)), "Add associative")
	verifC18eq(Sub(Add(x, y), y), x, "Sub inverts Add")
	verifC18eq(Mul(x, Number{Real: 1}), x, "1 is the unit")
	verifC18eq(Scale(f, x), Mul(Number{Real: f}, x), "Scale is multiplication by a real")
	verifC18eq(Mul(Number{E1mag: 1}, Number{E1mag: 1}), Number{}, "e1*e1 = 0")
	verifC18eq(Mul(Number{E2mag: 1}, Number{E2mag: 1}), Number{}, "e2*e2 = 0")
	verifC18eq(Mul(Number{E1mag: 1}, Number{E2mag: 1}), Number{E1E2mag: 1}, "e1*e2 = e1e2")
	verifReach("end")
}

func VerifC18_HyperdualInv() {
	x := verifC18num("x")
	verifAssume(x.Real != 0)
	verifC18eq(Mul(x, Inv(x)), Number{Real: 1}, "x*Inv(x) = 1")
	verifC18eq(Inv(Inv(x)), x, "Inv is an involution")
	verifReach("end")
}

// VerifC18_HyperdualAbsF (run with -model F: Abs tests the IEEE sign bit):
// Abs(d) is d itself, bit for bit, when the sign bit of the real part is clear
// (including +0), otherwise Scale(-1, d).
func VerifC18_HyperdualAbsF() {
	x := verifC18num("x")
	a := Abs(x)
	want := x
	if math.Signbit(x.Real) {
		want = Scale(-1, x)
	}
	verifAssert(verifSame(a.Real, want.Real), "Abs real part")
	verifAssert(verifSame(a.E1mag, want.E1mag), "Abs e1 part")
	verifAssert(verifSame(a.E2mag, want.E2mag), "Abs e2 part")
	verifAssert(verifSame(a.E1E2mag, want.E1E2mag), "Abs e1e2 part")
	verifReach("end")
}

func VerifC18_HyperdualElementary() {
	which := verifChoose("fn", 0, 15)
	d := verifC18num("d")
	a := d.Real
	var got, want Number
	switch which {
	case 0:
		verifAssume(a != 0)
		got, want = Sin(d), verifC18lift(d, math.Sin(a), math.Cos(a), -math.Sin(a))
	case 1:
		got, want = Cos(d), verifC18lift(d, math.Cos(a), -math.Sin(a), -math.Cos(a))
	case 2:
		verifAssume(a != 0)
		t := math.Tan(a)
		got, want = Tan(d), verifC18lift(d, t, 1+t*t, 2*t*(1+t*t))
	case 3:
		e := math.Exp(a)
		got, want = Exp(d), verifC18lift(d, e, e, e)
	case 4:
		verifAssume(a > 0)
		got, want = Log(d), verifC18lift(d, math.Log(a), 1/a, -1/(a*a))
	case 5:
		verifAssume(verifAnd(a != 0, verifAnd(-1 < a, a < 1)))
		got, want = Asin(d), verifC18lift(d, math.Asin(a), 1/math.Sqrt(1-a*a), a*math.Pow(1-a*a, -1.5))
	case 6:
		verifAssume(verifAnd(-1 < a, a < 1))
		got, want = Acos(d), verifC18lift(d, math.Acos(a), -1/math.Sqrt(1-a*a), -a*math.Pow(1-a*a, -1.5))
	case 7:
		verifAssume(a != 0)
		got, want = Atan(d), verifC18lift(d, math.Atan(a), 1/(1+a*a), -2*a/((1+a*a)*(1+a*a)))
	case 8:
		verifAssume(a != 0)
		got, want = Sinh(d), verifC18lift(d, math.Sinh(a), math.Cosh(a), math.Sinh(a))
	case 9:
		got, want = Cosh(d), verifC18lift(d, math.Cosh(a), math.Sinh(a), math.Cosh(a))
	case 10:
		verifAssume(a != 0)
		t := math.Tanh(a)
		got, want = Tanh(d), verifC18lift(d, t, 1-t*t, -2*t*(1-t*t))
	case 11:
		verifAssume(a != 0)
		s := math.Sqrt(a*a + 1)
		got, want = Asinh(d), verifC18lift(d, math.Asinh(a), 1/s, -a/(s*s*s))
	case 12:
		verifAssume(a > 1)
		s := math.Sqrt(a*a - 1)
		got, want = Acosh(d), verifC18lift(d, math.Acosh(a), 1/s, -a/(s*s*s))
	case 13:
		verifAssume(verifAnd(a != 0, verifAnd(-1 < a, a < 1)))
		got, want = Atanh(d), verifC18lift(d, math.Atanh(a), 1/(1-a*a), 2*a/((1-a*a)*(1-a*a)))
	case 14:
		verifAssume(a >= 1e-15)
		got, want = Sqrt(d), verifC18lift(d, math.Pow(a, 0.5), 0.5*math.Pow(a, -0.5), -0.25*math.Pow(a, -1.5))
	case 15:
		// d^p = exp(p log d), hyperdual exponent
		verifAssume(a > 0)
		p := verifC18num("p")
		got, want = Pow(d, p), Exp(Mul(p, verifC18lift(d, math.Log(a), 1/a, -1/(a*a))))
	}
	verifC18eq(got, want, "elementary function returns f(a), f'(a) b1, f'(a) b2, f'(a) b12 + f''(a) b1 b2")
	verifReach("end")
}

// VerifC18_HyperdualPowReal: integer powers agree with repeated multiplication.
func VerifC18_HyperdualPowReal() {
	p := verifChoose("p", 2, verifParam("dualpow", 5))
	d := verifC18num("d")
	verifAssume(verifOr(d.Real >= 1e-15, d.Real <= -1e-15))
	want := Number{Real: 1}
	for i := 0; i < p; i++ {
		want = Mul(want, d)
	}
	verifC18eq(PowReal(d, float64(p)), want, "PowReal(d, p) = d*d*...*d")
	verifReach("end")
}

// VerifC18_HyperdualAtZeroFirstOrder: at real part 0 (special-cased in the
// code) the value and the two first-order parts follow f(0), f'(0) b1, f'(0) b2.
func VerifC18_HyperdualAtZeroFirstOrder() {
	d := verifC18num("d")
	d.Real = 0
	fns := []func(Number) Number{Sin, Tan, Asin, Atan, Sinh, Tanh, Asinh, Atanh}
	k := verifChoose("fn", 0, len(fns)-1)
	got := fns[k](d)
	verifAssertEqF(got.Real, 0, "f(0) = 0")
	verifAssertEqF(got.E1mag, d.E1mag, "e1 part = f'(0) b1 = b1")
	verifAssertEqF(got.E2mag, d.E2mag, "e2 part = f'(0) b2 = b2")
	verifReach("end")
}

// VerifC18_HyperdualAtZeroSecondOrder: at real part 0 the e1e2 part must be
// f'(0) b12 + f”(0) b1 b2 = b12 for these eight odd functions (f'(0) = 1,
// f”(0) = 0).
func VerifC18_HyperdualAtZeroSecondOrder() {
	d := verifC18num("d")
	d.Real = 0
	fns := []func(Number) Number{Sin, Tan, Asin, Atan, Sinh, Tanh, Asinh, Atanh}
	k := verifChoose("fn", 0, len(fns)-1)
	got := fns[k](d)
	verifAssertEqF(got.E1E2mag, d.E1E2mag, "e1e2 part = f'(0) b12 + f''(0) b1 b2 = b12")
	verifReach("end")
}

// --- non-vacuity twin (expected to be violated; not in the check spec).
func VerifC18_TwinHyperdualWrongSecond() {
	d := verifC18num("d")
	a := d.Real
	// wrong sign of f'' for Cos
	got, want := Cos(d), verifC18lift(d, math.Cos(a), -math.Sin(a), math.Cos(a))
	verifC18eq(got, want, "TWIN (must fail): cos'' = +cos")
}
