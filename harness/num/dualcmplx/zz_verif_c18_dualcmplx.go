package dualcmplx

import "math/cmplx"

// C18: anti-commutative dual complex numbers (eps*z = conj(z)*eps, eps^2 = 0):
// associative ring with inverse; polynomial identities over the four real
// components of each operand (model R).

func verifC18num(tag string) Number {
	c := verifComplexes(tag, 2)
	return Number{Real: c[0], Dual: c[1]}
}

func verifC18eq(x, y Number, msg string) {
	// compared as (1+i)+x == (1+i)+y: identical in exact arithmetic; keeps the
	// native witness replay (relative tolerance) meaningful for expected zeros
	verifAssertEqC(x.Real+(1+1i), y.Real+(1+1i), msg+" (real part)")
	verifAssertEqC(x.Dual+(1+1i), y.Dual+(1+1i), msg+" (dual part)")
}

func VerifC18_DualCmplxRing() {
	x, y, z := verifC18num("x"), verifC18num("y"), verifC18num("z")
	f := verifFloat("f")
	verifC18eq(Mul(Mul(x, y), z), Mul(x, Mul(y, z)), "Mul associative")
	verifC18eq(Mul(x, Add(y, z)), Add(Mul(x, y), Mul(x, z)), "Mul left-distributes over Add")
	verifC18eq(Mul(Add(y, z), x), Add(Mul(y, x), Mul(z, x)), "Mul right-distributes over Add")
	verifC18eq(Mul(x, Sub(y, z)), Sub(Mul(x, y), Mul(x, z)), "Mul distributes over Sub")
	verifC18eq(Add(Add(x, y), z), Add(x, Add(y, z)), "Add associative")
	verifC18eq(Sub(Add(x, y), y), x, "Sub inverts Add")
	one := Number{Real: 1}
	verifC18eq(Mul(x, one), x, "1 is a right unit")
	verifC18eq(Mul(one, x), x, "1 is a left unit")
	verifC18eq(Scale(f, x), Mul(Number{Real: complex(f, 0)}, x), "Scale is multiplication by a real")
	eps := Number{Dual: 1}
	verifC18eq(Mul(eps, eps), Number{}, "eps*eps = 0")
	// anti-commutation: eps*z = conj(z)*eps
	zc := Number{Real: x.Real}
	verifC18eq(Mul(eps, zc), Mul(Number{Real: cmplx.Conj(x.Real)}, eps), "eps*z = conj(z)*eps")
	verifReach("end")
}

func VerifC18_DualCmplxInvConj() {
	x, y := verifC18num("x"), verifC18num("y")
	verifAssume(x.Real != 0)
	one := Number{Real: 1}
	verifC18eq(Mul(x, Inv(x)), one, "x*Inv(x) = 1")
	verifC18eq(Mul(Inv(x), x), one, "Inv(x)*x = 1")
	verifC18eq(Conj(Mul(x, y)), Mul(Conj(y), Conj(x)), "Conj is an anti-automorphism")
	verifC18eq(Conj(Conj(x)), x, "Conj involutive")
	a := Abs(x)
	verifAssertEqF(a*a, real(x.Real)*real(x.Real)+imag(x.Real)*imag(x.Real), "Abs(d)^2 = |real part|^2")
	verifAssertEqF(Abs(Mul(x, y))*Abs(Mul(x, y)), a*a*(Abs(y)*Abs(y)), "squared Abs multiplicative")
	verifReach("end")
}

// --- non-vacuity twin (expected to be violated; not in the check spec).
func VerifC18_TwinDualCmplxCommutative() {
	x, y := verifC18num("x"), verifC18num("y")
	verifC18eq(Mul(x, y), Mul(y, x), "TWIN (must fail): Mul commutative")
}
