package quat

import "math"

// C18: quaternions form a non-commutative division ring with the conjugation
// anti-automorphism and a multiplicative norm (model R: polynomial identities;
// Abs is r*sqrt(1+...), an exact real square root).

func verifC18num(tag string) Number {
	return Number{Real: verifFloat(tag + ".re"), Imag: verifFloat(tag + ".i"), Jmag: verifFloat(tag + ".j"), Kmag: verifFloat(tag + ".k")}
}

// (compared as 1+x == 1+y: identical in exact arithmetic; keeps the native
// replay of witnesses, which uses a purely relative tolerance, meaningful when
// the expected component is exactly 0)
func verifC18eq(x, y Number, msg string) {
	verifAssertEqF(1+x.Real, 1+y.Real, msg+" (real part)")
	verifAssertEqF(1+x.Imag, 1+y.Imag, msg+" (i part)")
	verifAssertEqF(1+x.Jmag, 1+y.Jmag, msg+" (j part)")
	verifAssertEqF(1+x.Kmag, 1+y.Kmag, msg+" (k part)")
}

// verifC18orthant: Abs explores one path per sign pattern and per position of
// the largest component (129 paths, each a sqrt obligation). The quick tier
// (quatfull=0) restricts the three imaginary components to be non-negative
// (real part keeps its sign); the thorough tier covers all sign patterns.
func verifC18orthant(q Number) {
	if verifParam("quatfull", 0) == 0 {
		verifAssume(verifAnd(q.Imag >= 0, verifAnd(q.Jmag >= 0, q.Kmag >= 0)))
	}
}

func verifC18norm2(q Number) float64 {
	return q.Real*q.Real + q.Imag*q.Imag + q.Jmag*q.Jmag + q.Kmag*q.Kmag
}

func VerifC18_QuatRing() {
	x, y, z := verifC18num("x"), verifC18num("y"), verifC18num("z")
	f := verifFloat("f")
	verifC18eq(Mul(Mul(x, y), z), Mul(x, Mul(y, z)), "Mul associative")
	verifC18eq(Mul(x, Add(y, z)), Add(Mul(x, y), Mul(x, z)), "Mul left-distributes over Add")
	verifC18eq(Mul(Add(y, z), x), Add(Mul(y, x), Mul(z, x)), "Mul right-distributes over Add")
	verifC18eq(Mul(x, Sub(y, z)), Sub(Mul(x, y), Mul(x, z)), "Mul distributes over Sub")
	verifC18eq(Add(Add(x, y), z), Add(x, Add(y, z)), "Add associative")
	verifC18eq(Add(x, y), Add(y, x), "Add commutative")
	verifC18eq(Sub(Add(x, y), y), x, "Sub inverts Add")
	one := Number{Real: 1}
	verifC18eq(Mul(x, one), x, "1 is a right unit")
	verifC18eq(Mul(one, x), x, "1 is a left unit")
	verifC18eq(Scale(f, x), Mul(Number{Real: f}, x), "Scale is multiplication by a real")
	verifC18eq(Mul(Number{Real: f}, x), Mul(x, Number{Real: f}), "reals are central")
	i, j, k := Number{Imag: 1}, Number{Jmag: 1}, Number{Kmag: 1}
	m1 := Number{Real: -1}
	verifC18eq(Mul(i, i), m1, "i*i = -1")
	verifC18eq(Mul(j, j), m1, "j*j = -1")
	verifC18eq(Mul(k, k), m1, "k*k = -1")
	verifC18eq(Mul(Mul(i, j), k), m1, "i*j*k = -1")
	verifC18eq(Mul(i, j), k, "i*j = k")
	verifC18eq(Mul(j, i), Scale(-1, k), "j*i = -k")
	verifReach("end")
}

func VerifC18_QuatConj() {
	x, y := verifC18num("x"), verifC18num("y")
	verifC18eq(Conj(Mul(x, y)), Mul(Conj(y), Conj(x)), "Conj is an anti-automorphism")
	verifC18eq(Conj(Add(x, y)), Add(Conj(x), Conj(y)), "Conj additive")
	verifC18eq(Conj(Conj(x)), x, "Conj involutive")
	verifC18eq(Mul(x, Conj(x)), Number{Real: verifC18norm2(x)}, "x*Conj(x) = |x|^2")
	verifC18eq(Mul(Conj(x), x), Number{Real: verifC18norm2(x)}, "Conj(x)*x = |x|^2")
	verifAssertEqF(verifC18norm2(Mul(x, y)), verifC18norm2(x)*verifC18norm2(y), "squared norm multiplicative (four-square identity)")
	verifReach("end")
}

// VerifC18_QuatAbs: Abs(q) >= 0 and Abs(q)^2 = sum of squares.
func VerifC18_QuatAbs() {
	x := verifC18num("x")
	verifC18orthant(x)
	a := Abs(x)
	verifAssert(a >= 0, "Abs non-negative")
	verifAssertEqF(a*a, verifC18norm2(x), "Abs(q)^2 = re^2+i^2+j^2+k^2")
	verifAssert(verifIff(a == 0, verifAnd(verifAnd(x.Real == 0, x.Imag == 0), verifAnd(x.Jmag == 0, x.Kmag == 0))), "Abs(q) = 0 iff q = 0")
	verifReach("end")
}

// VerifC18_QuatInv: q*Inv(q) = Inv(q)*q = 1 for q != 0.
func VerifC18_QuatInv() {
	x := verifC18num("x")
	verifC18orthant(x)
	verifAssume(verifC18norm2(x) != 0)
	one := Number{Real: 1}
	verifC18eq(Mul(x, Inv(x)), one, "x*Inv(x) = 1")
	verifC18eq(Mul(Inv(x), x), one, "Inv(x)*x = 1")
	verifReach("end")
}

// VerifC18_QuatExpLog: definition-level form of Exp and Log with v = |vector part|:
//
//	Exp(w+u) = e^w (cos v + u sin v / v), Log(q) = log|q| + u atan2(v,w)/v;
//
// scalar quaternions reduce to the real functions.
func VerifC18_QuatExpLog() {
	x := verifC18num("x")
	w, uv := split(x)
	if verifChoose("scalar", 0, 1) == 1 {
		s := lift(verifFloat("w"))
		verifC18eq(Exp(s), Number{Real: math.Exp(s.Real)}, "Exp of a real")
		verifC18eq(Log(s), Number{Real: math.Log(s.Real)}, "Log of a real")
		verifReach("end-scalar")
		return
	}
	verifC18orthant(x)
	verifAssume(verifC18norm2(uv) != 0)
	v := Abs(uv)
	e := Exp(x)
	verifC18eq(e, Number{Real: math.Exp(w) * math.Cos(v), Imag: math.Exp(w) * math.Sin(v) / v * x.Imag,
		Jmag: math.Exp(w) * math.Sin(v) / v * x.Jmag, Kmag: math.Exp(w) * math.Sin(v) / v * x.Kmag}, "Exp(w+u) = e^w(cos|u| + u sin|u|/|u|)")
	l := Log(x)
	th := math.Atan2(v, w)
	verifC18eq(l, Number{Real: math.Log(Abs(x)), Imag: th / v * x.Imag, Jmag: th / v * x.Jmag, Kmag: th / v * x.Kmag}, "Log(q) = log|q| + u atan2(|u|,w)/|u|")
	verifReach("end")
}

// --- non-vacuity twin (expected to be violated; not in the check spec).
func VerifC18_TwinQuatCommutative() {
	x, y := verifC18num("x"), verifC18num("y")
	verifC18eq(Mul(x, y), Mul(y, x), "TWIN (must fail): Mul commutative")
}
