package dualquat

import "gonum.org/v1/gonum/num/quat"

// C18: dual quaternions q1 + q2 eps (eps^2 = 0, eps central): associative ring
// with inverse and three conjugations (model R, polynomial identities over the
// eight real components of each operand).

func verifC18q(tag string) quat.Number {
	return quat.Number{Real: verifFloat(tag + ".re"), Imag: verifFloat(tag + ".i"), Jmag: verifFloat(tag + ".j"), Kmag: verifFloat(tag + ".k")}
}

func verifC18num(tag string) Number {
	return Number{Real: verifC18q(tag + ".r"), Dual: verifC18q(tag + ".d")}
}

// (compared as 1+x == 1+y, see num/quat harness)
func verifC18eqQ(x, y quat.Number, msg string) {
	verifAssertEqF(1+x.Real, 1+y.Real, msg+" re")
	verifAssertEqF(1+x.Imag, 1+y.Imag, msg+" i")
	verifAssertEqF(1+x.Jmag, 1+y.Jmag, msg+" j")
	verifAssertEqF(1+x.Kmag, 1+y.Kmag, msg+" k")
}

func verifC18eq(x, y Number, msg string) {
	verifC18eqQ(x.Real, y.Real, msg+" (real quaternion)")
	verifC18eqQ(x.Dual, y.Dual, msg+" (dual quaternion)")
}

func VerifC18_DualQuatRing() {
	x, y, z := verifC18num("x"), verifC18num("y"), verifC18num("z")
	f := verifFloat("f")
	verifC18eq(Mul(Mul(x, y), z), Mul(x, Mul(y, z)), "Mul associative")
	verifC18eq(Mul(x, Add(y, z)), Add(Mul(x, y), Mul(x, z)), "Mul left-distributes over Add")
	verifC18eq(Mul(Add(y, z), x), Add(Mul(y, x), Mul(z, x)), "Mul right-distributes over Add")
	verifC18eq(Mul(x, Sub(y, z)), Sub(Mul(x, y), Mul(x, z)), "Mul distributes over Sub")
	verifC18eq(Add(Add(x, y), z), Add(x, Add(y, z)), "Add associative")
	verifC18eq(Sub(Add(x, y), y), x, "Sub inverts Add")
	one := Number{Real: quat.Number{Real: 1}}
	verifC18eq(Mul(x, one), x, "1 is a right unit")
	verifC18eq(Mul(one, x), x, "1 is a left unit")
	verifC18eq(Scale(f, x), Mul(Number{Real: quat.Number{Real: f}}, x), "Scale is multiplication by a real")
	eps := Number{Dual: quat.Number{Real: 1}}
	verifC18eq(Mul(eps, eps), Number{}, "eps*eps = 0")
	verifC18eq(Mul(eps, x), Mul(x, eps), "eps is central")
	verifReach("end")
}

func VerifC18_DualQuatConj() {
	x, y := verifC18num("x"), verifC18num("y")
	verifC18eq(Conj(Mul(x, y)), Mul(Conj(y), Conj(x)), "Conj is an anti-automorphism")
	verifC18eq(ConjQuat(Mul(x, y)), Mul(ConjQuat(y), ConjQuat(x)), "ConjQuat is an anti-automorphism")
	verifC18eq(ConjDual(Mul(x, y)), Mul(ConjDual(x), ConjDual(y)), "ConjDual is an automorphism")
	verifC18eq(Conj(Conj(x)), x, "Conj involutive")
	verifC18eq(ConjQuat(ConjQuat(x)), x, "ConjQuat involutive")
	verifC18eq(ConjDual(ConjDual(x)), x, "ConjDual involutive")
	verifC18eq(Conj(x), ConjDual(ConjQuat(x)), "Conj = ConjDual after ConjQuat")
	verifReach("end")
}

// VerifC18_DualQuatInv: x*Inv(x) = Inv(x)*x = 1 when the real quaternion is
// non-zero. Inv calls quat.Inv(Real) and quat.Inv(Real*Real), each going
// through quat.Abs (one path per sign pattern and position of the largest
// component, every one a square-root obligation over polynomial components):
// the number of symbolic components of the real quaternion is a parameter
// (dqinvdim: 2 = re+i, 3 = re+i+j, 4 = all; the others are 0); the dual
// quaternion is always fully symbolic.
func VerifC18_DualQuatInv() {
	x := verifC18num("x")
	dim := verifParam("dqinvdim", 2)
	if dim < 4 {
		x.Real.Kmag = 0
	}
	if dim < 3 {
		x.Real.Jmag = 0
	}
	r := x.Real
	verifAssume(r.Real*r.Real+r.Imag*r.Imag+r.Jmag*r.Jmag+r.Kmag*r.Kmag != 0)
	one := Number{Real: quat.Number{Real: 1}}
	verifC18eq(Mul(x, Inv(x)), one, "x*Inv(x) = 1")
	verifC18eq(Mul(Inv(x), x), one, "Inv(x)*x = 1")
	verifReach("end")
}

// --- non-vacuity twin (expected to be violated; not in the check spec).
func VerifC18_TwinDualQuatConjAutomorphism() {
	x, y := verifC18num("x"), verifC18num("y")
	verifC18eq(Conj(Mul(x, y)), Mul(Conj(x), Conj(y)), "TWIN (must fail): Conj is an automorphism")
}
