package dual

import "math"

// C18: dual numbers form a commutative ring with the documented inverse, and
// every elementary function returns (f(a), f'(a)*b) where f and f' are the
// math package functions (uninterpreted symbols in model R: exact term match).

func verifC18num(tag string) Number {
	return Number{Real: verifFloat(tag + ".re"), Emag: verifFloat(tag + ".e")}
}

// (compared as 1+x == 1+y: identical in exact arithmetic; keeps the native
// replay of witnesses, which uses a purely relative tolerance, meaningful when
// the expected component is exactly 0)
func verifC18eq(x, y Number, msg string) {
	verifAssertEqF(1+x.Real, 1+y.Real, msg+" (real part)")
	verifAssertEqF(1+x.Emag, 1+y.Emag, msg+" (dual part)")
}

// VerifC18_DualRing: ring laws as polynomial identities.
func VerifC18_DualRing() {
	x, y, z := verifC18num("x"), verifC18num("y"), verifC18num("z")
	f := verifFloat("f")
	verifC18eq(Mul(Mul(x, y), z), Mul(x, Mul(y, z)), "Mul associative")
	verifC18eq(Mul(x, y), Mul(y, x), "Mul commutative")
	verifC18eq(Mul(x, Add(y, z)), Add(Mul(x, y), Mul(x, z)), "Mul distributes over Add")
	verifC18eq(Mul(x, Sub(y, z)), Sub(Mul(x, y), Mul(x, z)), "Mul distributes over Sub")
	verifC18eq(Add(Add(x, y), z), Add(x, Add(y, z)), "Add associative")
	verifC18eq(Sub(Add(x, y), y), x, "Sub inverts Add")
	verifC18eq(Mul(x, Number{Real: 1}), x, "1 is the unit")
	verifC18eq(Scale(f, x), Mul(Number{Real: f}, x), "Scale is multiplication by a real")
	// epsilon^2 = 0
	verifC18eq(Mul(Number{Emag: x.Emag}, Number{Emag: y.Emag}), Number{}, "eps*eps = 0")
	verifReach("end")
}

// VerifC18_DualInv: x * Inv(x) == 1 whenever the real part is non-zero.
func VerifC18_DualInv() {
	x := verifC18num("x")
	verifAssume(x.Real != 0)
	verifC18eq(Mul(x, Inv(x)), Number{Real: 1}, "x*Inv(x) = 1")
	verifC18eq(Mul(Inv(x), x), Number{Real: 1}, "Inv(x)*x = 1")
	verifC18eq(Inv(Inv(x)), x, "Inv is an involution")
	verifReach("end")
}

// VerifC18_DualAbs: Abs(d) is d or -d with non-negative real part.
func VerifC18_DualAbs() {
	x := verifC18num("x")
	a := Abs(x)
	verifAssert(a.Real >= 0, "Abs real part non-negative")
	verifAssert(verifOr(verifAnd(a.Real == x.Real, a.Emag == x.Emag), verifAnd(a.Real == -x.Real, a.Emag == -x.Emag)), "Abs(d) = +-d")
	verifAssert(verifImplies(x.Real > 0, verifAnd(a.Real == x.Real, a.Emag == x.Emag)), "Abs(d) = d for positive real part")
	verifAssert(verifImplies(x.Real < 0, verifAnd(a.Real == -x.Real, a.Emag == -x.Emag)), "Abs(d) = -d for negative real part")
	verifReach("end")
}

// VerifC18_DualElementary: f(a+b eps) = f(a) + f'(a) b eps on the regular
// part of each function's domain.
func VerifC18_DualElementary() {
	which := verifChoose("fn", 0, 15)
	a := verifFloat("a")
	b := verifFloat("b")
	d := Number{Real: a, Emag: b}
	var got, want Number
	switch which {
	case 0:
		verifAssume(a != 0)
		got, want = Sin(d), Number{math.Sin(a), math.Cos(a) * b}
	case 1:
		got, want = Cos(d), Number{math.Cos(a), -math.Sin(a) * b}
	case 2:
		verifAssume(a != 0)
		t := math.Tan(a)
		got, want = Tan(d), Number{t, (1 + t*t) * b}
	case 3:
		got, want = Exp(d), Number{math.Exp(a), math.Exp(a) * b}
	case 4:
		verifAssume(a > 0)
		got, want = Log(d), Number{math.Log(a), b / a}
	case 5:
		verifAssume(verifAnd(a != 0, verifAnd(-1 < a, a < 1)))
		got, want = Asin(d), Number{math.Asin(a), b / math.Sqrt(1-a*a)}
	case 6:
		verifAssume(verifAnd(-1 < a, a < 1))
		got, want = Acos(d), Number{math.Acos(a), -b / math.Sqrt(1-a*a)}
	case 7:
		verifAssume(a != 0)
		got, want = Atan(d), Number{math.Atan(a), b / (1 + a*a)}
	case 8:
		verifAssume(a != 0)
		got, want = Sinh(d), Number{math.Sinh(a), math.Cosh(a) * b}
	case 9:
		got, want = Cosh(d), Number{math.Cosh(a), math.Sinh(a) * b}
	case 10:
		verifAssume(a != 0)
		t := math.Tanh(a)
		got, want = Tanh(d), Number{t, (1 - t*t) * b}
	case 11:
		verifAssume(a != 0)
		got, want = Asinh(d), Number{math.Asinh(a), b / math.Sqrt(a*a+1)}
	case 12:
		verifAssume(a > 1)
		got, want = Acosh(d), Number{math.Acosh(a), b / math.Sqrt(a*a-1)}
	case 13:
		verifAssume(verifAnd(a != 0, verifAnd(-1 < a, a < 1)))
		got, want = Atanh(d), Number{math.Atanh(a), b / (1 - a*a)}
	case 14:
		verifAssume(a >= 1e-15)
		got, want = Sqrt(d), Number{math.Pow(a, 0.5), b * (0.5 * math.Pow(a, -0.5))}
	case 15:
		// general power with a dual exponent: d^p = exp(p log d)
		verifAssume(a > 0)
		p := verifC18num("p")
		e := math.Exp(p.Real * math.Log(a))
		got, want = Pow(d, p), Number{e, e * (p.Real*(b/a) + p.Emag*math.Log(a))}
	}
	verifC18eq(got, want, "elementary function returns (f(a), f'(a) b)")
	verifReach("end")
}

// VerifC18_DualElementaryAtZero: the special-cased argument 0 (concrete real
// part, symbolic dual part): f(0 + b eps) = f(0) + f'(0) b eps.
func VerifC18_DualElementaryAtZero() {
	b := verifFloat("b")
	d := Number{Real: 0, Emag: b}
	verifC18eq(Sin(d), Number{0, b}, "Sin at 0")
	verifC18eq(Tan(d), Number{0, b}, "Tan at 0")
	verifC18eq(Asin(d), Number{0, b}, "Asin at 0")
	verifC18eq(Atan(d), Number{0, b}, "Atan at 0")
	verifC18eq(Sinh(d), Number{0, b}, "Sinh at 0")
	verifC18eq(Tanh(d), Number{0, b}, "Tanh at 0")
	verifC18eq(Asinh(d), Number{0, b}, "Asinh at 0")
	verifC18eq(Atanh(d), Number{0, b}, "Atanh at 0")
	verifC18eq(Cos(d), Number{1, 0}, "Cos at 0")
	verifC18eq(Cosh(d), Number{1, 0}, "Cosh at 0")
	verifC18eq(Exp(d), Number{1, b}, "Exp at 0")
	verifC18eq(Log(Number{Real: 1, Emag: b}), Number{0, b}, "Log at 1")
	verifReach("end")
}

// VerifC18_DualPowReal: integer powers agree with repeated multiplication
// (exact polynomial identity; PowReal clamps |a| < 1e-15, excluded here).
func VerifC18_DualPowReal() {
	p := verifChoose("p", 1, verifParam("dualpow", 5))
	d := verifC18num("d")
	verifAssume(verifOr(d.Real >= 1e-15, d.Real <= -1e-15))
	want := Number{Real: 1}
	for i := 0; i < p; i++ {
		want = Mul(want, d)
	}
	verifC18eq(PowReal(d, float64(p)), want, "PowReal(d, p) = d*d*...*d")
	verifReach("end")
}

// --- non-vacuity twin (expected to be violated; not in the check spec).
func VerifC18_TwinDualInvWithoutGuard() {
	x := verifC18num("x")
	y := verifC18num("y")
	verifAssume(x.Real != 0)
	// wrong law: Inv is not additive
	verifC18eq(Inv(Add(x, y)), Add(Inv(x), Inv(y)), "TWIN (must fail): Inv additive")
}
