package cmplxs

import (
	"math"
	"math/cmplx"
)

// C08 for package cmplxs: element-wise primitives equal their scalar
// definitions (model R: exact complex arithmetic on finite values; model F:
// addressing, aliasing and untouched cells), reductions equal the exact
// sum/product, and a concrete sweep over IEEE special values.

func verifC08same(a, b complex128) bool {
	return verifAnd(verifSame(real(a), real(b)), verifSame(imag(a), imag(b)))
}

func verifC08win(name string, n int) (back, win []complex128, off int) {
	off = verifChoose(name+"off", 0, verifParam("maxoff", 1))
	back = verifComplexes(name, off+n+1)
	win = back[off : off+n : off+n]
	return back, win, off
}

func verifC08copy(s []complex128) []complex128 { return append([]complex128(nil), s...) }

func verifC08outside(back, back0 []complex128, off, n int, msg string) {
	for i := range back {
		if i >= off && i < off+n {
			continue
		}
		verifAssert(verifC08same(back[i], back0[i]), msg)
	}
}

func verifC08unchanged(back, back0 []complex128, msg string) {
	for i := range back {
		verifAssert(verifC08same(back[i], back0[i]), msg)
	}
}

// verifC08def is the scalar definition of element-wise function fn.
func verifC08def(fn int, d, s, t, c complex128, f float64) complex128 {
	switch fn {
	case 0: // Add(dst, s)
		return d + s
	case 1: // AddTo(dst, s, t)
		return s + t
	case 2: // Sub(dst, s)
		return d - s
	case 3: // SubTo(dst, s, t)
		return s - t
	case 4: // AddScaled(dst, c, s)
		return d + c*s
	case 5: // AddScaledTo(dst, t, c, s)
		return t + c*s
	case 6: // Mul(dst, s)
		return d * s
	case 7: // MulTo(dst, s, t)
		return s * t
	case 8: // MulConj(dst, s)
		return d * cmplx.Conj(s)
	case 9: // MulConjTo(dst, s, t)
		return s * cmplx.Conj(t)
	case 10: // Div(dst, s)
		return d / s
	case 11: // DivTo(dst, s, t)
		return s / t
	case 12: // Scale(c, dst)
		return c * d
	case 13: // ScaleTo(dst, c, s)
		return c * s
	case 14: // ScaleReal(f, dst)
		return complex(f*real(d), f*imag(d))
	case 15: // ScaleRealTo(dst, f, s)
		return complex(f*real(s), f*imag(s))
	case 16: // AddConst(c, dst)
		return d + c
	}
	panic("fn")
}

const verifC08nfn = 17

func verifC08isTo(fn int) bool {
	return fn == 1 || fn == 3 || fn == 5 || fn == 7 || fn == 9 || fn == 11 || fn == 13 || fn == 15
}

func verifC08usesT(fn int) bool { return fn == 1 || fn == 3 || fn == 5 || fn == 7 || fn == 9 || fn == 11 }

func verifC08call(fn int, d, s, t []complex128, c complex128, f float64) (ret []complex128) {
	switch fn {
	case 0:
		Add(d, s)
	case 1:
		ret = AddTo(d, s, t)
	case 2:
		Sub(d, s)
	case 3:
		ret = SubTo(d, s, t)
	case 4:
		AddScaled(d, c, s)
	case 5:
		ret = AddScaledTo(d, t, c, s)
	case 6:
		Mul(d, s)
	case 7:
		ret = MulTo(d, s, t)
	case 8:
		MulConj(d, s)
	case 9:
		ret = MulConjTo(d, s, t)
	case 10:
		Div(d, s)
	case 11:
		ret = DivTo(d, s, t)
	case 12:
		Scale(c, d)
	case 13:
		ret = ScaleTo(d, c, s)
	case 14:
		ScaleReal(f, d)
	case 15:
		ret = ScaleRealTo(d, f, s)
	case 16:
		AddConst(c, d)
	}
	return ret
}

// VerifC08_CmplxsElementwise: every element-wise primitive; dst distinct from or
// identical to a source. Values are asserted with verifAssertEqC (exact in
// model R); in model F only the addressing obligations are meaningful, so the
// value obligation is skipped there by the "values" parameter.
func VerifC08_CmplxsElementwise() {
	verifDivZeroPrune(true) // model R: x/0 is outside the finite-real model; model F is unaffected
	n := verifChoose("n", 0, verifParam("maxn", 4))
	fn := verifChoose("fn", 0, verifC08nfn-1)
	alias := 0
	if verifC08isTo(fn) {
		alias = verifChoose("alias", 0, 2)
		if alias == 2 && !verifC08usesT(fn) {
			return
		}
	}
	sb, s, so := verifC08win("s", n)
	tb, t, to := verifC08win("t", n)
	db, d, do := verifC08win("d", n)
	c := complex(verifFloat("c.re"), verifFloat("c.im"))
	f := verifFloat("f")
	switch alias {
	case 1:
		db, d, do = sb, s, so
	case 2:
		db, d, do = tb, t, to
	}
	s0, t0, d0 := verifC08copy(s), verifC08copy(t), verifC08copy(d)
	sb0, tb0, db0 := verifC08copy(sb), verifC08copy(tb), verifC08copy(db)
	ret := verifC08call(fn, d, s, t, c, f)
	if verifC08isTo(fn) {
		verifAssert(len(ret) == n, "To-variant returns dst")
		for i := range ret {
			verifAssert(verifC08same(ret[i], d[i]), "To-variant returns dst")
		}
	}
	if verifParam("values", 1) == 1 {
		for i := 0; i < n; i++ {
			verifAssertEqC(d[i], verifC08def(fn, d0[i], s0[i], t0[i], c, f), "element i equals the scalar definition")
		}
	}
	verifC08outside(db, db0, do, n, "dst backing outside the window untouched")
	if alias != 1 {
		verifC08unchanged(sb, sb0, "source s untouched")
	}
	if alias != 2 {
		verifC08unchanged(tb, tb0, "source t untouched")
	}
	verifReach("end")
}

var verifC08special = []float64{0, math.Copysign(0, -1), 1, -2.5, math.Inf(1), math.Inf(-1), math.NaN()}

func verifC08sameNaN(a, b float64) bool {
	if a != a || b != b {
		return a != a && b != b
	}
	return math.Float64bits(a) == math.Float64bits(b)
}

// VerifC08_CmplxsSpecialValues: concrete sweep (every combination is its own
// path, no symbolic floats) of one-element calls over the IEEE special values
// 0, -0, 1, -2.5, +Inf, -Inf, NaN in each component: the result equals Go's
// scalar expression of the definition (NaN = NaN, otherwise bit-identical).
// fn ranges over Add, AddTo, Sub, SubTo, AddConst (the definitions without a
// complex multiplication).
func VerifC08_CmplxsSpecialValues() {
	fn := []int{0, 1, 2, 3, 16}[verifChoose("fn", 0, 4)]
	k := len(verifC08special) - 1
	a := complex(verifC08special[verifChoose("a.re", 0, k)], verifC08special[verifChoose("a.im", 0, k)])
	b := complex(verifC08special[verifChoose("b.re", 0, k)], verifC08special[verifChoose("b.im", 0, k)])
	d := []complex128{a}
	s := []complex128{b}
	t := []complex128{b}
	var want complex128
	switch fn {
	case 0:
		want = a + b
	case 1:
		s[0] = a
		want = a + b
	case 2:
		want = a - b
	case 3:
		s[0] = a
		want = a - b
	case 16:
		want = a + b
	}
	verifC08call(fn, d, s, t, b, 0)
	verifAssert(verifC08sameNaN(real(d[0]), real(want)), "real part equals the scalar definition on special values")
	verifAssert(verifC08sameNaN(imag(d[0]), imag(want)), "imaginary part equals the scalar definition on special values")
	verifReach("end")
}

// VerifC08_CmplxsLengthPanics: mismatched lengths panic with the documented
// messages before anything is written.
func VerifC08_CmplxsLengthPanics() {
	maxn := verifParam("lenn", 2)
	fn := verifChoose("fn", 0, 15)
	n := verifChoose("n", 0, maxn)
	m := verifChoose("m", 0, maxn)
	if fn == 12 || fn == 14 {
		return // Scale, ScaleReal take one slice
	}
	k := m
	if verifC08usesT(fn) {
		k = verifChoose("k", 0, maxn)
	}
	d := verifComplexes("d", n)
	s := verifComplexes("s", m)
	t := verifComplexes("t", k)
	d0 := verifC08copy(d)
	panicked, fault, msg := verifCatch(func() { verifC08call(fn, d, s, t, 2, 3) })
	mismatch := n != m || m != k
	verifAssert(!fault, "no runtime fault")
	verifAssert(panicked == mismatch, "panics iff the lengths differ")
	if panicked {
		verifAssert(msg == badLength || msg == badDstLength, "documented panic message")
		verifC08unchanged(d, d0, "nothing written before the panic")
	}
	verifReach("end")
}

// VerifC08_CmplxsParts: Real, Imag, Complex, Reverse, CumSum, CumProd.
func VerifC08_CmplxsParts() {
	n := verifChoose("n", 0, verifParam("maxn", 4))
	fn := verifChoose("fn", 0, 4)
	sb, s, _ := verifC08win("s", n)
	sb0 := verifC08copy(sb)
	s0 := verifC08copy(s)
	switch fn {
	case 0:
		re := Real(make([]float64, n), s)
		im := Imag(make([]float64, n), s)
		verifAssert(len(re) == n && len(im) == n, "returns dst")
		for i := 0; i < n; i++ {
			verifAssert(verifSame(re[i], real(s[i])), "Real")
			verifAssert(verifSame(im[i], imag(s[i])), "Imag")
		}
		c := Complex(make([]complex128, n), re, im)
		for i := 0; i < n; i++ {
			verifAssert(verifC08same(c[i], s[i]), "Complex(Real, Imag) is the identity")
		}
		verifC08unchanged(sb, sb0, "source untouched")
	case 1:
		Reverse(s)
		for i := 0; i < n; i++ {
			verifAssert(verifC08same(s[i], s0[n-1-i]), "Reverse")
		}
	case 2, 3:
		alias := verifChoose("alias", 0, 1)
		d := make([]complex128, n)
		if alias == 1 {
			d = s
		}
		var ret []complex128
		if fn == 2 {
			ret = CumSum(d, s)
		} else {
			ret = CumProd(d, s)
		}
		verifAssert(len(ret) == n, "returns dst")
		for i := 0; i < n; i++ {
			if i == 0 {
				verifAssert(verifC08same(d[0], s0[0]), "dst[0] = s[0]")
			} else if fn == 2 {
				verifAssertEqC(d[i], d[i-1]+s0[i], "dst[i] = dst[i-1] + s[i]")
			} else {
				verifAssertEqC(d[i], d[i-1]*s0[i], "dst[i] = dst[i-1] * s[i]")
			}
		}
	case 4:
		// reductions
		t := verifComplexes("t", n)
		var sum, dot complex128
		prod := complex(1, 0)
		for i := 0; i < n; i++ {
			sum += s[i]
			prod *= s[i]
			dot += cmplx.Conj(s[i]) * t[i]
		}
		verifAssertEqC(Sum(s), sum, "Sum")
		verifAssertEqC(Prod(s), prod, "Prod")
		verifAssertEqC(Dot(s, t), dot, "Dot = sum conj(s1[i])*s2[i]")
		verifC08unchanged(sb, sb0, "source untouched")
	}
	if fn != 1 && !(fn == 2 || fn == 3) {
		verifC08unchanged(sb, sb0, "source untouched")
	} else {
		verifC08outside(sb, sb0, len(sb)-n-1, n, "outside window untouched")
	}
	verifReach("end")
}
