package cmplxs

import (
	"math"
	"math/cmplx"
)

// C08, second wave for package cmplxs (model F, every IEEE value in both
// parts): search helpers and predicates. cmplx.Abs is math.Hypot of the parts,
// an opaque function in model F: the statements hold for every absolute-value
// function that is NaN only for arguments with a NaN part and no infinite part.

func verifC08isNaN(z complex128) bool {
	inf := verifOr(math.IsInf(real(z), 0), math.IsInf(imag(z), 0))
	return verifAnd(verifOr(real(z) != real(z), imag(z) != imag(z)), verifNot(inf))
}

// verifC08absAxiom assumes the one property of Hypot that the helpers rely on.
func verifC08absAxiom(z complex128) float64 {
	a := cmplx.Abs(z)
	verifAssume(verifImplies(verifNot(verifC08isNaN(z)), a == a))
	return a
}

// VerifC08_CmplxsMaxMinAbsIdx: MaxAbsIdx / MinAbsIdx return the first index
// holding the largest / smallest absolute value among the non-NaN elements
// (index 0 if all are NaN); MaxAbs / MinAbs return that element; zero length
// panics with the package message.
func VerifC08_CmplxsMaxMinAbsIdx() {
	n := verifChoose("n", 0, verifParam("maxn", 3))
	isMax := verifChoose("max", 0, 1) == 1
	s := verifComplexes("s", n)
	s0 := verifC08copy(s)
	abs := make([]float64, n)
	for i := range s {
		abs[i] = verifC08absAxiom(s[i])
	}
	var r int
	var val complex128
	panicked, fault, msg := verifCatch(func() {
		if isMax {
			r, val = MaxAbsIdx(s), MaxAbs(s)
		} else {
			r, val = MinAbsIdx(s), MinAbs(s)
		}
	})
	verifAssert(!fault, "no runtime fault")
	verifAssert(panicked == (n == 0), "panics iff zero length")
	if panicked {
		verifAssert(msg == zeroLength, "documented panic message")
		verifReach("panic")
		return
	}
	verifC08unchanged(s, s0, "input untouched")
	verifAssert(verifAnd(0 <= r, r < n), "index in range")
	verifAssert(verifC08same(val, s[r]) || (val != val), "MaxAbs/MinAbs is the element at the index")
	anyNum := false
	for i := 0; i < n; i++ {
		anyNum = verifOr(anyNum, verifNot(verifC08isNaN(s[i])))
	}
	verifAssert(verifImplies(anyNum, verifNot(verifC08isNaN(s[r]))), "a NaN is not selected when a number exists")
	verifAssert(verifImplies(verifNot(anyNum), r == 0), "all NaN: index 0")
	for i := 0; i < n; i++ {
		num := verifAnd(anyNum, verifNot(verifC08isNaN(s[i])))
		if isMax {
			verifAssert(verifImplies(num, abs[i] <= abs[r]), "|s[r]| is the maximum")
			verifAssert(verifImplies(verifAnd(num, i < r), abs[i] < abs[r]), "first index of the maximum")
		} else {
			verifAssert(verifImplies(num, abs[i] >= abs[r]), "|s[r]| is the minimum")
			verifAssert(verifImplies(verifAnd(num, i < r), abs[i] > abs[r]), "first index of the minimum")
		}
	}
	verifReach("end")
}

// VerifC08_CmplxsNearestIdx: NaN v gives 0; infinite v gives MaxAbsIdx(s);
// otherwise the lowest index of a smallest non-NaN distance |v - s[i]| (0 if
// every distance is NaN); zero length panics.
func VerifC08_CmplxsNearestIdx() {
	n := verifChoose("n", 0, verifParam("nearn", 3))
	s := verifComplexes("s", n)
	v := complex(verifFloat("v.re"), verifFloat("v.im"))
	s0 := verifC08copy(s)
	var r int
	panicked, fault, _ := verifCatch(func() { r = NearestIdx(s, v) })
	verifAssert(!fault, "no runtime fault")
	verifAssert(panicked == (n == 0), "panics iff zero length")
	if panicked {
		return
	}
	verifC08unchanged(s, s0, "input untouched")
	verifAssert(verifAnd(0 <= r, r < n), "index in range")
	vinf := verifOr(math.IsInf(real(v), 0), math.IsInf(imag(v), 0))
	if verifC08isNaN(v) {
		verifAssert(r == 0, "NaN v: 0")
		verifReach("nan")
		return
	}
	if vinf {
		verifAssert(r == MaxAbsIdx(s), "infinite v: the first element of largest absolute value")
		verifReach("inf")
		return
	}
	d := make([]float64, n)
	anyNum := false
	for i := range s {
		d[i] = cmplx.Abs(v - s[i])
		anyNum = verifOr(anyNum, d[i] == d[i])
	}
	verifAssert(verifImplies(verifNot(anyNum), r == 0), "every distance NaN: 0")
	verifAssert(verifImplies(anyNum, d[r] == d[r]), "a NaN distance is not selected when a number exists")
	for i := 0; i < n; i++ {
		num := verifAnd(anyNum, d[i] == d[i])
		verifAssert(verifImplies(num, d[r] <= d[i]), "nearest")
		verifAssert(verifImplies(verifAnd(num, i < r), d[r] < d[i]), "lowest index among the nearest")
	}
	verifReach("end")
}

// VerifC08_CmplxsPredicates: HasNaN, Equal, Same, EqualFunc, EqualLengths,
// Count, Find, Abs against their definitions (one function per case split).
func VerifC08_CmplxsPredicates() {
	n := verifChoose("n", 0, verifParam("maxn", 3))
	fn := verifChoose("fn", 0, 7)
	s, t := verifComplexes("s", n), verifComplexes("t", n)
	s0, t0 := verifC08copy(s), verifC08copy(t)
	thr := verifFloat("thr")
	pred := func(z complex128) bool { return real(z) > thr }
	switch fn {
	case 0:
		hasNaN := false
		for i := 0; i < n; i++ {
			hasNaN = verifOr(hasNaN, verifC08isNaN(s[i]))
		}
		verifAssert(HasNaN(s) == hasNaN, "HasNaN: some element is a cmplx NaN")
	case 1, 2:
		equal, same := true, true
		for i := 0; i < n; i++ {
			eq := verifAnd(real(s[i]) == real(t[i]), imag(s[i]) == imag(t[i]))
			equal = verifAnd(equal, eq)
			same = verifAnd(same, verifOr(eq, verifAnd(verifC08isNaN(s[i]), verifC08isNaN(t[i]))))
		}
		if fn == 1 {
			verifAssert(Equal(s, t) == equal, "Equal: same length and every pair ==")
			verifAssert(!Equal(s, append(verifC08copy(t), 0)), "Equal: different lengths: false")
		} else {
			verifAssert(Same(s, t) == same, "Same: every pair == or both NaN")
			verifAssert(!Same(s, append(verifC08copy(t), 0)), "Same: different lengths: false")
		}
	case 3:
		cnt := 0
		for i := 0; i < n; i++ {
			cnt += verifIteInt(real(s[i]) > thr, 1, 0)
		}
		verifAssert(Count(pred, s) == cnt, "Count: number of elements satisfying f")
	case 4:
		all := true
		for i := 0; i < n; i++ {
			all = verifAnd(all, real(s[i]) > real(t[i]))
		}
		verifAssert(EqualFunc(s, t, func(a, b complex128) bool { return real(a) > real(b) }) == all, "EqualFunc: every pair satisfies f")
		verifAssert(!EqualFunc(s, append(verifC08copy(t), 0), func(a, b complex128) bool { return true }), "EqualFunc: different lengths: false")
	case 5:
		verifAssert(EqualLengths(s, t) && EqualLengths() && EqualLengths(s) && (n == 2 || !EqualLengths(s, t, make([]complex128, 2))), "EqualLengths")
	case 6:
		// Find: k < 0 all, k = 0 none, k > 0 the first k or an error
		k := verifChoose("k", -1, 2)
		inds, err := Find(make([]int, 1, 4), pred, s, k)
		want := 0
		for i := 0; i < n; i++ {
			hit := real(s[i]) > thr
			if hit && (k < 0 || want < k) {
				verifAssert(want < len(inds) && inds[want] == i, "Find: indices of the matching elements in order")
				want++
			}
		}
		verifAssert(len(inds) == want, "Find: nothing else returned")
		verifAssert((err != nil) == (k > 0 && want < k), "Find: error iff fewer than k elements match")
	case 7:
		dst := make([]float64, n)
		Abs(dst, s)
		for i := 0; i < n; i++ {
			a := cmplx.Abs(s[i])
			verifAssert(verifOr(verifSame(dst[i], a), verifAnd(dst[i] != dst[i], a != a)), "Abs: dst[i] = |s[i]|")
		}
		p, _, _ := verifCatch(func() { Abs(make([]float64, n+1), s) })
		verifAssert(p, "Abs: length mismatch panics")
	}
	verifC08unchanged(s, s0, "s untouched")
	verifC08unchanged(t, t0, "t untouched")
	verifReach("end")
}

// VerifC08_CmplxsNorm: Norm for L = 1, +Inf and general L, Distance for the
// same L equal the sums / maxima of cmplx.Abs written out; Distance of a
// NaN-free difference is the Norm of the difference; empty input gives 0;
// Distance panics on a length mismatch.
func VerifC08_CmplxsNorm() {
	n := verifChoose("n", 0, verifParam("maxn", 3))
	L := []float64{1, math.Inf(1), 3}[verifChoose("L", 0, 2)]
	s, t := verifComplexes("s", n), verifComplexes("t", n)
	d := make([]complex128, n)
	var wantN, wantD float64
	for i := 0; i < n; i++ {
		d[i] = t[i] - s[i]
		a, b := cmplx.Abs(s[i]), cmplx.Abs(d[i])
		verifAssume(b == b)
		switch {
		case L == 1:
			wantN += a
			wantD += b
		case math.IsInf(L, 1):
			wantN = math.Max(wantN, a)
			wantD = math.Max(wantD, b)
		default:
			wantN += math.Pow(a, L)
			wantD += math.Pow(b, L)
		}
	}
	if L == 3 && n > 0 {
		wantN, wantD = math.Pow(wantN, 1/L), math.Pow(wantD, 1/L)
	}
	same := func(a, b float64) bool { return verifOr(verifSame(a, b), verifAnd(a != a, b != b)) }
	verifAssert(same(Norm(s, L), wantN), "Norm: sum / max / power sum of |s[i]|")
	verifAssert(same(Distance(s, t, L), wantD), "Distance: sum / max / power sum of |t[i]-s[i]|")
	verifAssert(same(Distance(s, t, L), Norm(d, L)), "Distance = Norm of the difference")
	p, f, msg := verifCatch(func() { Distance(s, append(verifC08copy(t), 0), L) })
	verifAssert(p && !f && msg == badLength, "Distance: length mismatch panics")
	verifReach("end")
}
