package cscalar

import (
	"math"
	"math/cmplx"

	"gonum.org/v1/gonum/floats/scalar"
)

// C08: cmplxs/cscalar predicates and rounding, model F (all bit patterns of
// both parts; cmplx.Abs is an opaque function of the parts).

func verifC08c(name string) complex128 {
	return complex(verifFloat(name+".re"), verifFloat(name+".im"))
}

func verifC08sameF(a, b float64) bool {
	return verifOr(verifSame(a, b), verifAnd(a != a, b != b))
}

// VerifC08_CscalarSame: Same(a, b) is a == b or both have a NaN part (after fix
// 00ec033 a value with a NaN part and an infinite part counts as NaN too, so
// that Same is reflexive); symmetric; equal values are the same.
func VerifC08_CscalarSame() {
	a, b := verifC08c("a"), verifC08c("b")
	nan := func(z complex128) bool {
		return verifOr(real(z) != real(z), imag(z) != imag(z))
	}
	eq := verifAnd(real(a) == real(b), imag(a) == imag(b))
	verifAssert(Same(a, b) == verifOr(eq, verifAnd(nan(a), nan(b))), "Same = equal or both NaN")
	verifAssert(Same(a, b) == Same(b, a), "symmetric")
	verifReach("end")
}

// VerifC08_CscalarSameReflexive: Same(a, a) for every a ("the same value,
// allowing NaN equality"). OPEN VIOLATION: a = NaN+Inf i (an infinity for
// cmplx.IsNaN, unequal to itself for ==) is not the same as itself.
func VerifC08_CscalarSameReflexive() {
	a := verifC08c("a")
	verifAssert(Same(a, a), "Same is reflexive")
	verifReach("end")
}

// VerifC08_CscalarEqualWithin: EqualWithinAbs is a == b or |a-b| <= tol with
// |.| = cmplx.Abs; equal values (also equal infinities) are within every
// absolute / relative tolerance; EqualWithinAbsOrRel is the disjunction.
func VerifC08_CscalarEqualWithin() {
	a, b := verifC08c("a"), verifC08c("b")
	tol, tol2 := verifFloat("tol"), verifFloat("tol2")
	eq := verifAnd(real(a) == real(b), imag(a) == imag(b))
	verifAssert(EqualWithinAbs(a, b, tol) == verifOr(eq, cmplx.Abs(a-b) <= tol), "EqualWithinAbs = equal or |a-b| <= tol")
	verifAssert(verifImplies(eq, EqualWithinAbs(a, b, tol)), "equal values within any absolute tolerance")
	verifAssert(verifImplies(eq, EqualWithinRel(a, b, tol)), "equal values within any relative tolerance")
	verifAssert(EqualWithinAbsOrRel(a, b, tol, tol2) == verifOr(EqualWithinAbs(a, b, tol), EqualWithinRel(a, b, tol2)), "AbsOrRel = Abs or Rel")
	verifReach("end")
}

// VerifC08_CscalarRound: Round / RoundEven of 0 (any signs) is +0+0i, otherwise
// the parts are rounded independently by floats/scalar.
func VerifC08_CscalarRound() {
	x := verifC08c("x")
	prec := []int{-400, -1, 0, 2, 400}[verifChoose("prec", 0, 4)]
	r, e := Round(x, prec), RoundEven(x, prec)
	if real(x) == 0 && imag(x) == 0 {
		verifAssert(math.Float64bits(real(r)) == 0 && math.Float64bits(imag(r)) == 0, "Round(±0±0i) = +0+0i")
		verifAssert(math.Float64bits(real(e)) == 0 && math.Float64bits(imag(e)) == 0, "RoundEven(±0±0i) = +0+0i")
		verifReach("zero")
		return
	}
	verifAssert(verifC08sameF(real(r), scalar.Round(real(x), prec)), "real part rounded by scalar.Round")
	verifAssert(verifC08sameF(imag(r), scalar.Round(imag(x), prec)), "imaginary part rounded by scalar.Round")
	verifAssert(verifC08sameF(real(e), scalar.RoundEven(real(x), prec)), "real part rounded by scalar.RoundEven")
	verifAssert(verifC08sameF(imag(e), scalar.RoundEven(imag(x), prec)), "imaginary part rounded by scalar.RoundEven")
	verifReach("end")
}
