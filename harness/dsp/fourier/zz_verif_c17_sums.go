package fourier

import "math"

// ---- C17, part 2: transforms against their defining sums (model R) ----
//
// For a concrete length n the twiddle factors are concrete floats, the data
// are symbolic reals in [-1,1]: every output is a linear form in the data. The
// harness builds the defining O(n^2) sum with natively evaluated cos/sin and
// asks for |output - sum| <= n*1e-12 (twiddle rounding is ~1e-16 per term, a
// wrong sign, index or factor gives an error of order 1).

func verifC17tol(n int) float64 { return float64(n) * 1e-12 }

func verifC17unit(x []float64) {
	for _, v := range x {
		verifAssume(verifAnd(-1 <= v, v <= 1))
	}
}

func verifC17unitC(x []complex128) {
	for _, v := range x {
		verifAssume(verifAnd(verifAnd(-1 <= real(v), real(v) <= 1), verifAnd(-1 <= imag(v), imag(v) <= 1)))
	}
}

func verifC17close(got, want, tol float64, msg string) {
	d := got - want
	verifAssert(verifAnd(d <= tol, -tol <= d), msg)
}

// verifC17cs returns cos and sin of 2*pi*num/den with the argument reduced.
func verifC17cs(num, den int) (c, s float64) {
	num %= den
	if num < 0 {
		num += den
	}
	s, c = math.Sincos(2 * math.Pi * float64(num) / float64(den))
	return c, s
}

// verifC17dft is sum_j x_j exp(sign*2*pi*i*j*k/n).
func verifC17dft(x []complex128, k int, sign float64) (re, im float64) {
	n := len(x)
	for j, v := range x {
		c, s := verifC17cs(j*k, n)
		s *= sign
		re += real(v)*c - imag(v)*s
		im += real(v)*s + imag(v)*c
	}
	return re, im
}

func verifC17same(a, b []float64) bool {
	ok := len(a) == len(b)
	for i := range a {
		ok = verifAnd(ok, a[i] == b[i])
	}
	return ok
}

// VerifC17_FFTForward: FFT.Coefficients(nil, x)[k] == sum_j x_j exp(-2 pi i jk/n)
// for k = 0..n/2; the input is not modified.
func VerifC17_FFTForward() {
	n := verifChoose("n", 1, verifParam("c17n", 12))
	x := verifFloats("x", n)
	verifC17unit(x)
	x0 := append([]float64(nil), x...)
	t := NewFFT(n)
	verifAssert(t.Len() == n, "Len() == n")
	c := t.Coefficients(nil, x)
	verifAssert(len(c) == n/2+1, "n/2+1 coefficients")
	verifAssert(verifC17same(x, x0), "Coefficients does not modify seq")
	tol := verifC17tol(n)
	for k := range c {
		var re, im float64
		for j := 0; j < n; j++ {
			cs, sn := verifC17cs(j*k, n)
			re += x[j] * cs
			im -= x[j] * sn
		}
		verifC17close(real(c[k]), re, tol, "real part equals the cosine sum")
		verifC17close(imag(c[k]), im, tol, "imaginary part equals minus the sine sum")
	}
	verifReach("end")
}

// VerifC17_FFTInverse: FFT.Sequence(nil, c)[i] equals the real inverse sum of
// the Hermitian extension of c (documented in fftpack.Rfftb); the imaginary
// parts of c[0] and, for even n, c[n/2] are ignored; coeff is not modified.
func VerifC17_FFTInverse() {
	n := verifChoose("n", 1, verifParam("c17n", 12))
	c := verifComplexes("c", n/2+1)
	verifC17unitC(c)
	c0 := append([]complex128(nil), c...)
	t := NewFFT(n)
	r := t.Sequence(nil, c)
	verifAssert(len(r) == n, "n samples")
	for k := range c {
		verifAssertEqC(c[k], c0[k], "Sequence does not modify coeff")
	}
	tol := verifC17tol(n)
	for i := 0; i < n; i++ {
		want := real(c[0])
		for k := 1; 2*k < n; k++ {
			cs, sn := verifC17cs(k*i, n)
			want += 2 * (real(c[k])*cs - imag(c[k])*sn)
		}
		if n%2 == 0 {
			if i%2 == 0 {
				want += real(c[n/2])
			} else {
				want -= real(c[n/2])
			}
		}
		verifC17close(r[i], want, tol, "sample equals the inverse sum")
	}
	verifReach("end")
}

// VerifC17_FFTRoundTrip: Sequence(Coefficients(x)) == n*x.
func VerifC17_FFTRoundTrip() {
	n := verifChoose("n", 1, verifParam("c17rtn", 8))
	x := verifFloats("x", n)
	verifC17unit(x)
	t := NewFFT(n)
	r := t.Sequence(nil, t.Coefficients(nil, x))
	tol := verifC17tol(n) * float64(n)
	for i := 0; i < n; i++ {
		verifC17close(r[i], float64(n)*x[i], tol, "Sequence(Coefficients(x)) == n*x")
	}
	verifReach("end")
}

// VerifC17_CmplxForwardInverse: CmplxFFT.Coefficients / Sequence equal the
// defining sums with exp(-...) / exp(+...); the round trip multiplies by n.
func VerifC17_CmplxForwardInverse() {
	n := verifChoose("n", 1, verifParam("c17cn", 10))
	x := verifComplexes("x", n)
	verifC17unitC(x)
	x0 := append([]complex128(nil), x...)
	t := NewCmplxFFT(n)
	verifAssert(t.Len() == n, "Len() == n")
	f := t.Coefficients(nil, x)
	b := t.Sequence(nil, x)
	for k := range x {
		verifAssertEqC(x[k], x0[k], "transforms do not modify their input")
	}
	tol := verifC17tol(n)
	for k := 0; k < n; k++ {
		re, im := verifC17dft(x, k, -1)
		verifC17close(real(f[k]), re, tol, "forward: real part")
		verifC17close(imag(f[k]), im, tol, "forward: imaginary part")
		re, im = verifC17dft(x, k, 1)
		verifC17close(real(b[k]), re, tol, "inverse: real part")
		verifC17close(imag(b[k]), im, tol, "inverse: imaginary part")
	}
	if n > verifParam("c17rtn", 8) {
		verifReach("end")
		return
	}
	rt := t.Sequence(nil, f)
	for k := 0; k < n; k++ {
		verifC17close(real(rt[k]), float64(n)*real(x[k]), tol*float64(n), "round trip real == n*x")
		verifC17close(imag(rt[k]), float64(n)*imag(x[k]), tol*float64(n), "round trip imag == n*x")
	}
	verifReach("end")
}

// VerifC17_RealVsComplex: on real input the complex transform agrees with the
// real one on k <= n/2 and is its conjugate mirror above.
func VerifC17_RealVsComplex() {
	n := verifChoose("n", 1, verifParam("c17n", 12))
	x := verifFloats("x", n)
	verifC17unit(x)
	xc := make([]complex128, n)
	for i, v := range x {
		xc[i] = complex(v, 0)
	}
	rc := NewFFT(n).Coefficients(nil, x)
	cc := NewCmplxFFT(n).Coefficients(nil, xc)
	tol := 2 * verifC17tol(n)
	for k := 0; k < n; k++ {
		if k <= n/2 {
			verifC17close(real(cc[k]), real(rc[k]), tol, "complex == real transform (re)")
			verifC17close(imag(cc[k]), imag(rc[k]), tol, "complex == real transform (im)")
		} else {
			verifC17close(real(cc[k]), real(rc[n-k]), tol, "upper half is the conjugate mirror (re)")
			verifC17close(imag(cc[k]), -imag(rc[n-k]), tol, "upper half is the conjugate mirror (im)")
		}
	}
	verifReach("end")
}

// VerifC17_DCT: Transform(x)[i] == x[0] + (-1)^i x[n-1] + sum_{k=1}^{n-2} 2 x[k] cos(k i pi/(n-1))
// (fftpack.Cost), and applying it twice multiplies by 2(n-1) (documented).
// NewDCT panics for n < 2 (documented).
func VerifC17_DCT() {
	n := verifChoose("n", 0, verifParam("c17n", 12))
	if n < 2 {
		panicked, fault, _ := verifCatch(func() { NewDCT(n) })
		verifAssert(verifAnd(panicked, !fault), "NewDCT panics for n < 2")
		verifReach("small")
		return
	}
	x := verifFloats("x", n)
	verifC17unit(x)
	x0 := append([]float64(nil), x...)
	t := NewDCT(n)
	verifAssert(t.Len() == n, "Len() == n")
	y := t.Transform(nil, x)
	verifAssert(verifC17same(x, x0), "Transform does not modify src")
	tol := verifC17tol(n)
	for i := 0; i < n; i++ {
		want := x[0]
		if i%2 == 0 {
			want += x[n-1]
		} else {
			want -= x[n-1]
		}
		for k := 1; k < n-1; k++ {
			cs, _ := verifC17cs(k*i, 2*(n-1))
			want += 2 * x[k] * cs
		}
		verifC17close(y[i], want, tol, "DCT-I defining sum")
	}
	if n > verifParam("c17rtn", 8) {
		verifReach("end")
		return
	}
	z := t.Transform(nil, y)
	for i := 0; i < n; i++ {
		verifC17close(z[i], float64(2*(n-1))*x[i], tol*float64(2*n), "Transform twice == 2(n-1)*x")
	}
	verifReach("end")
}

// VerifC17_DST: Transform(x)[i] == sum_k 2 x[k] sin((k+1)(i+1) pi/(n+1))
// (fftpack.Sint), and applying it twice multiplies by 2(n+1) (fftpack.Sint).
func VerifC17_DST() {
	n := verifChoose("n", 1, verifParam("c17n", 12))
	x := verifFloats("x", n)
	verifC17unit(x)
	x0 := append([]float64(nil), x...)
	t := NewDST(n)
	verifAssert(t.Len() == n, "Len() == n")
	y := t.Transform(nil, x)
	verifAssert(verifC17same(x, x0), "Transform does not modify src")
	tol := verifC17tol(n)
	for i := 0; i < n; i++ {
		var want float64
		for k := 0; k < n; k++ {
			_, sn := verifC17cs((k+1)*(i+1), 2*(n+1))
			want += 2 * x[k] * sn
		}
		verifC17close(y[i], want, tol, "DST-I defining sum")
	}
	if n > verifParam("c17rtn", 8) {
		verifReach("end")
		return
	}
	z := t.Transform(nil, y)
	for i := 0; i < n; i++ {
		verifC17close(z[i], float64(2*(n+1))*x[i], tol*float64(2*n+2), "Transform twice == 2(n+1)*x")
	}
	verifReach("end")
}

// VerifC17_DSTDocumentedScale: the doc comment of (*DST).Transform promises that
// two applications multiply the input by 2*(n-1).
func VerifC17_DSTDocumentedScale() {
	n := verifChoose("n", 1, verifParam("c17rtn", 8))
	x := verifFloats("x", n)
	verifC17unit(x)
	t := NewDST(n)
	z := t.Transform(nil, t.Transform(nil, x))
	tol := verifC17tol(n) * float64(2*n+2)
	for i := 0; i < n; i++ {
		verifC17close(z[i], float64(2*(n-1))*x[i], tol, "DST.Transform twice == 2(n-1)*x as documented in sincos.go")
	}
	verifReach("end")
}

// VerifC17_QuarterWave: the four quarter-wave transforms against the FFTPACK
// definitions (0-based):
//
//	CosCoefficients: y[i] = x[0] + sum_{k=1}^{n-1} 2 x[k] cos((2i+1) k pi/(2n))
//	CosSequence:     y[i] = sum_{k=0}^{n-1} 4 x[k] cos((2k+1) i pi/(2n))
//	SinCoefficients: y[i] = (-1)^i x[n-1] + sum_{k=0}^{n-2} 2 x[k] sin((2i+1)(k+1) pi/(2n))
//	SinSequence:     y[i] = sum_{k=0}^{n-1} 4 x[k] sin((2k+1)(i+1) pi/(2n))
//
// and the documented 4n scale of Coefficients followed by Sequence and vice
// versa.
func VerifC17_QuarterWave() {
	n := verifChoose("n", 1, verifParam("c17qn", 12))
	which := verifChoose("which", 0, 3)
	x := verifFloats("x", n)
	verifC17unit(x)
	x0 := append([]float64(nil), x...)
	t := NewQuarterWaveFFT(n)
	verifAssert(t.Len() == n, "Len() == n")
	tol := 2 * verifC17tol(n)
	var y, z []float64
	switch which {
	case 0:
		y = t.CosCoefficients(nil, x)
		z = t.CosSequence(nil, y)
	case 1:
		y = t.CosSequence(nil, x)
		z = t.CosCoefficients(nil, y)
	case 2:
		y = t.SinCoefficients(nil, x)
		z = t.SinSequence(nil, y)
	case 3:
		y = t.SinSequence(nil, x)
		z = t.SinCoefficients(nil, y)
	}
	verifAssert(verifC17same(x, x0), "transform does not modify its input")
	for i := 0; i < n; i++ {
		var want float64
		switch which {
		case 0:
			want = x[0]
			for k := 1; k < n; k++ {
				cs, _ := verifC17cs((2*i+1)*k, 4*n)
				want += 2 * x[k] * cs
			}
		case 1:
			for k := 0; k < n; k++ {
				cs, _ := verifC17cs((2*k+1)*i, 4*n)
				want += 4 * x[k] * cs
			}
		case 2:
			if i%2 == 0 {
				want = x[n-1]
			} else {
				want = -x[n-1]
			}
			for k := 0; k < n-1; k++ {
				_, sn := verifC17cs((2*i+1)*(k+1), 4*n)
				want += 2 * x[k] * sn
			}
		case 3:
			for k := 0; k < n; k++ {
				_, sn := verifC17cs((2*k+1)*(i+1), 4*n)
				want += 4 * x[k] * sn
			}
		}
		verifC17close(y[i], want, tol, "quarter-wave defining sum")
		if n <= verifParam("c17rtn", 8) {
			verifC17close(z[i], float64(4*n)*x[i], tol*float64(4*n), "forward then inverse (or inverse then forward) == 4n*x")
		}
	}
	verifReach("end")
}

// VerifC17_Radix24: CoefficientsRadix2/4 and SequenceRadix2/4 equal the complex
// defining sums (forward exp(-), inverse exp(+)) for every power of 2 (4) length
// up to the bound, agree with CmplxFFT, and panic for every other length.
func VerifC17_Radix24() {
	maxN := verifParam("c17radixn", 16)
	n := verifChoose("n", 0, maxN)
	four := verifChoose("radix4", 0, 1) == 1
	inverse := verifChoose("inverse", 0, 1) == 1
	x := verifComplexes("x", n)
	verifC17unitC(x)
	y := append([]complex128(nil), x...)
	var out []complex128
	panicked, fault, _ := verifCatch(func() {
		switch {
		case four && inverse:
			out = SequenceRadix4(y)
		case four:
			out = CoefficientsRadix4(y)
		case inverse:
			out = SequenceRadix2(y)
		default:
			out = CoefficientsRadix2(y)
		}
	})
	verifAssert(!fault, "radix transforms: no runtime fault")
	isPow := n == 0 || n&(n-1) == 0
	if four {
		isPow = isPow && (n == 0 || n&0x5555555555555555 != 0)
	}
	verifAssert(panicked == !isPow, "radix transforms panic exactly on lengths that are not a power of 2 (4)")
	if panicked || n == 0 {
		verifReach("panic-or-empty")
		return
	}
	verifAssert(len(out) == n, "in place: same length")
	sign := -1.0
	var ref []complex128
	if inverse {
		sign = 1
		ref = NewCmplxFFT(n).Sequence(nil, x)
	} else {
		ref = NewCmplxFFT(n).Coefficients(nil, x)
	}
	tol := verifC17tol(n)
	for k := 0; k < n; k++ {
		verifAssertEqC(out[k], y[k], "result is returned in place")
		re, im := verifC17dft(x, k, sign)
		verifC17close(real(out[k]), re, tol, "radix path: real part equals the defining sum")
		verifC17close(imag(out[k]), im, tol, "radix path: imaginary part equals the defining sum")
		verifC17close(real(out[k]), real(ref[k]), 2*tol, "radix path == general path (re)")
		verifC17close(imag(out[k]), imag(ref[k]), 2*tol, "radix path == general path (im)")
	}
	verifReach("end")
}
