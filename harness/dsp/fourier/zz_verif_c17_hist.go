package fourier

// ---- C17, part 3: history independence and aliasing (model F, bit identity) ----
//
// In model F the float operations are uninterpreted, so two results are
// bit-identical iff the same operations are applied to the same operands in the
// same order: exactly what "the cached tables were rebuilt completely" means.

func verifC17sameC(a, b complex128) bool {
	return verifAnd(verifSame(real(a), real(b)), verifSame(imag(a), imag(b)))
}

// VerifC17_HistoryFFT: an FFT used at length n1 and then Reset(n2) gives
// bit-identical Coefficients and Sequence to a fresh NewFFT(n2).
func VerifC17_HistoryFFT() {
	maxN := verifParam("c17histn", 8)
	n1 := verifChoose("n1", 1, maxN)
	n2 := verifChoose("n2", 1, maxN)
	t := NewFFT(n1)
	junk := verifFloats("junk", n1)
	t.Sequence(nil, t.Coefficients(nil, junk))
	t.Reset(n2)
	f := NewFFT(n2)
	verifAssert(t.Len() == n2, "Len() after Reset")
	x := verifFloats("x", n2)
	a, b := t.Coefficients(nil, x), f.Coefficients(nil, x)
	for k := range a {
		verifAssert(verifC17sameC(a[k], b[k]), "Coefficients after Reset == fresh object")
	}
	c := verifComplexes("c", n2/2+1)
	ra, rb := t.Sequence(nil, c), f.Sequence(nil, c)
	for k := range ra {
		verifAssert(verifSame(ra[k], rb[k]), "Sequence after Reset == fresh object")
	}
	// a second use of the same object gives the same answer again
	a2 := t.Coefficients(nil, x)
	for k := range a {
		verifAssert(verifC17sameC(a[k], a2[k]), "second call == first call")
	}
	// a caller supplied dst gives the same answer as dst == nil
	dst := verifComplexes("dst", n2/2+1)
	a3 := t.Coefficients(dst, x)
	for k := range a {
		verifAssert(verifC17sameC(a[k], a3[k]), "dst != nil == dst == nil")
	}
	verifReach("end")
}

// VerifC17_HistoryCmplx: same for CmplxFFT, plus dst == src aliasing, which is
// documented as safe.
func VerifC17_HistoryCmplx() {
	maxN := verifParam("c17histn", 8)
	n1 := verifChoose("n1", 1, maxN)
	n2 := verifChoose("n2", 1, maxN)
	t := NewCmplxFFT(n1)
	junk := verifComplexes("junk", n1)
	t.Sequence(nil, t.Coefficients(nil, junk))
	t.Reset(n2)
	f := NewCmplxFFT(n2)
	verifAssert(t.Len() == n2, "Len() after Reset")
	x := verifComplexes("x", n2)
	a, b := t.Coefficients(nil, x), f.Coefficients(nil, x)
	ra, rb := t.Sequence(nil, x), f.Sequence(nil, x)
	for k := range a {
		verifAssert(verifC17sameC(a[k], b[k]), "Coefficients after Reset == fresh object")
		verifAssert(verifC17sameC(ra[k], rb[k]), "Sequence after Reset == fresh object")
	}
	y := append([]complex128(nil), x...)
	y2 := t.Coefficients(y, y)
	z := append([]complex128(nil), x...)
	z2 := t.Sequence(z, z)
	for k := range a {
		verifAssert(verifC17sameC(a[k], y[k]) && verifC17sameC(a[k], y2[k]), "Coefficients with dst == seq == fresh dst")
		verifAssert(verifC17sameC(ra[k], z[k]) && verifC17sameC(ra[k], z2[k]), "Sequence with dst == coeff == fresh dst")
	}
	verifReach("end")
}

// VerifC17_HistorySinCos: DCT, DST and QuarterWaveFFT after Reset equal a fresh
// object; dst == src aliasing (documented as safe) equals a fresh dst.
func VerifC17_HistorySinCos() {
	maxN := verifParam("c17histn", 8)
	kind := verifChoose("kind", 0, 5)
	lo := 1
	if kind == 0 {
		lo = 2
	}
	n1 := verifChoose("n1", lo, maxN)
	n2 := verifChoose("n2", lo, maxN)
	junk := verifFloats("junk", n1)
	x := verifFloats("x", n2)
	var used, fresh func(dst, src []float64) []float64
	switch kind {
	case 0:
		t := NewDCT(n1)
		t.Transform(nil, junk)
		t.Reset(n2)
		verifAssert(t.Len() == n2, "Len() after Reset")
		used, fresh = t.Transform, NewDCT(n2).Transform
	case 1:
		t := NewDST(n1)
		t.Transform(nil, junk)
		t.Reset(n2)
		verifAssert(t.Len() == n2, "Len() after Reset")
		used, fresh = t.Transform, NewDST(n2).Transform
	default:
		t := NewQuarterWaveFFT(n1)
		t.SinSequence(nil, t.CosCoefficients(nil, junk))
		t.Reset(n2)
		verifAssert(t.Len() == n2, "Len() after Reset")
		f := NewQuarterWaveFFT(n2)
		switch kind {
		case 2:
			used, fresh = t.CosCoefficients, f.CosCoefficients
		case 3:
			used, fresh = t.CosSequence, f.CosSequence
		case 4:
			used, fresh = t.SinCoefficients, f.SinCoefficients
		case 5:
			used, fresh = t.SinSequence, f.SinSequence
		}
	}
	a, b := used(nil, x), fresh(nil, x)
	y := append([]float64(nil), x...)
	y2 := used(y, y)
	for k := range a {
		verifAssert(verifSame(a[k], b[k]), "transform after Reset == fresh object")
		verifAssert(verifAnd(verifSame(a[k], y[k]), verifSame(a[k], y2[k])), "dst == src == fresh dst")
	}
	verifReach("end")
}
