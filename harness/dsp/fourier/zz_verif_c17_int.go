package fourier

// ---- C17, part 1: integer helpers (bit-vector reasoning, symbolic n and i) ----

// verifC17centered is the signed frequency index of coefficient j of an n
// point complex transform: j for the non-negative half, j-n for the rest.
func verifC17centered(j, n int) int {
	return verifIteInt(j < (n-1)/2+1, j, j-n)
}

// VerifC17_FreqIdx: for every length 0 <= n <= maxn and every int i:
// FFT.Freq, CmplxFFT.Freq, ShiftIdx, UnshiftIdx panic (explicitly, not by a
// runtime fault) exactly when i is outside [0,n); inside, Freq is i/n (real
// transform), the centred i/n or (i-n)/n in [-1/2,1/2) (complex transform);
// ShiftIdx and UnshiftIdx map [0,n) to [0,n), are mutually inverse, and
// ShiftIdx(k) walks through the frequencies in increasing order.
func VerifC17_FreqIdx() {
	maxN := verifParam("c17idxn", 1<<16)
	n := verifInt("n", 0, maxN)
	i := int(verifInt64("i"))
	rt := FFT{real: verifSetLen(make([]float64, maxN), n)}
	ct := CmplxFFT{work: verifSetLen(make([]float64, 4*maxN), 4*n)}
	verifAssert(verifAnd(rt.Len() == n, ct.Len() == n), "Len() is n")
	inside := verifAnd(0 <= i, i < n)

	var rf, cf float64
	var sh, ush, ushsh, shush, shNext int
	p1, f1, _ := verifCatch(func() { rf = rt.Freq(i) })
	p2, f2, _ := verifCatch(func() { cf = ct.Freq(i) })
	p3, f3, _ := verifCatch(func() { sh = ct.ShiftIdx(i) })
	p4, f4, _ := verifCatch(func() { ush = ct.UnshiftIdx(i) })
	verifAssert(verifNot(verifOr(verifOr(f1, f2), verifOr(f3, f4))), "index helpers: no runtime fault")
	verifAssert(verifAnd(verifAnd(p1 == !inside, p2 == !inside), verifAnd(p3 == !inside, p4 == !inside)), "index helpers panic exactly outside [0,n)")
	if !inside {
		verifReach("outside")
		return
	}
	fn, fi := float64(n), float64(i)
	verifAssert(rf*fn == fi, "FFT.Freq(i) == i/n")
	verifAssert(cf*fn == float64(verifC17centered(i, n)), "CmplxFFT.Freq(i) == centred(i)/n")
	cc := verifC17centered(i, n)
	verifAssert(verifAnd(-n <= 2*cc, 2*cc < n), "centred(i)/n lies in [-1/2, 1/2)")
	verifAssert(verifAnd(verifAnd(0 <= sh, sh < n), verifAnd(0 <= ush, ush < n)), "ShiftIdx, UnshiftIdx map [0,n) into [0,n)")
	p5, _, _ := verifCatch(func() { ushsh = ct.UnshiftIdx(sh) })
	p6, _, _ := verifCatch(func() { shush = ct.ShiftIdx(ush) })
	verifAssert(verifAnd(!p5, !p6), "no panic on in-range results")
	verifAssert(ushsh == i, "UnshiftIdx(ShiftIdx(i)) == i")
	verifAssert(shush == i, "ShiftIdx(UnshiftIdx(i)) == i")
	// fftshift order: position k of the shifted spectrum holds signed frequency k - n/2
	verifAssert(verifC17centered(sh, n) == i-n/2, "ShiftIdx(i) is the coefficient with signed frequency i - n/2")
	if i+1 < n {
		verifCatch(func() { shNext = ct.ShiftIdx(i + 1) })
		verifAssert(verifC17centered(shNext, n) == verifC17centered(sh, n)+1, "shifted spectrum is in increasing frequency order")
	}
	verifReach("end")
}

// VerifC17_ReversePairs: reversePairs32/64 reverse the order of the bit pairs
// (pair k of the result is pair 15-k / 31-k of the argument), hence are
// involutions; reversePairs is the 64 bit one on this platform.
func VerifC17_ReversePairs() {
	x := verifUint64("x")
	r := reversePairs64(x)
	ok := true
	for k := uint(0); k < 32; k++ {
		ok = verifAnd(ok, (r>>(2*k))&3 == (x>>(62-2*k))&3)
	}
	verifAssert(ok, "reversePairs64 reverses the bit pairs")
	verifAssert(reversePairs64(r) == x, "reversePairs64 is an involution")
	verifAssert(uint64(reversePairs(uint(x))) == r, "reversePairs == reversePairs64 on a 64 bit platform")
	y := verifUint32("y")
	s := reversePairs32(y)
	ok = true
	for k := uint(0); k < 16; k++ {
		ok = verifAnd(ok, (s>>(2*k))&3 == (y>>(30-2*k))&3)
	}
	verifAssert(ok, "reversePairs32 reverses the bit pairs")
	verifAssert(reversePairs32(s) == y, "reversePairs32 is an involution")
	verifReach("end")
}

// verifC17revbits reverses the low nb bits of i, group bits at a time.
func verifC17revbits(i, nb, group int) int {
	r := 0
	for b := 0; b < nb; b += group {
		r = r<<uint(group) | (i>>uint(b))&(1<<uint(group)-1)
	}
	return r
}

// VerifC17_Permute: bitReversePermute / bitPairReversePermute move element i
// to the index with reversed bits / bit pairs (so they are involutive
// permutations), for every power-of-two / power-of-four length up to the bound,
// and panic on every other length.
func VerifC17_Permute() {
	maxLog := verifParam("c17permlog", 6)
	pairs := verifChoose("pairs", 0, 1) == 1
	n := verifChoose("n", 0, 1<<uint(maxLog))
	nb := 0
	for 1<<uint(nb) < n {
		nb++
	}
	isPow := n >= 2 && 1<<uint(nb) == n
	if pairs {
		isPow = isPow && nb%2 == 0
	}
	x := verifComplexes("x", n)
	y := make([]complex128, n)
	copy(y, x)
	panicked, fault, _ := verifCatch(func() {
		if pairs {
			bitPairReversePermute(y)
		} else {
			bitReversePermute(y)
		}
	})
	verifAssert(!fault, "permute: no runtime fault")
	verifAssert(panicked == !isPow, "permute panics exactly on lengths that are not a power of 2 (4) >= 2 (4)")
	if panicked {
		return
	}
	group := 1
	if pairs {
		group = 2
	}
	for i := 0; i < n; i++ {
		verifAssertEqC(y[verifC17revbits(i, nb, group)], x[i], "element i moves to the reversed index")
	}
	verifReach("end")
}

// verifC17isPow: v is a power of 2 (of 4 when four).
func verifC17isPow(v int, four bool) bool {
	if four {
		return verifAnd(v > 0, verifAnd(v&(v-1) == 0, v&0x5555555555555555 != 0))
	}
	return verifAnd(v > 0, v&(v-1) == 0)
}

// VerifC17_TrimLen: length arithmetic of TrimRadix2/4 for a symbolic length
// 0 <= L <= maxn: even is the head of x with the largest power of 2 (4) length,
// remains the rest.
func VerifC17_TrimLen() {
	maxN := verifParam("c17trimn", 1<<16)
	L := verifInt("L", 0, maxN)
	four := verifChoose("radix4", 0, 1) == 1
	x := verifSetLen(make([]complex128, maxN), L)
	var ev, rem []complex128
	panicked, fault, _ := verifCatch(func() {
		if four {
			ev, rem = TrimRadix4(x)
		} else {
			ev, rem = TrimRadix2(x)
		}
	})
	verifAssert(verifAnd(!panicked, !fault), "Trim never panics")
	if panicked {
		return
	}
	le, lr := len(ev), len(rem)
	verifAssert(le+lr == L, "Trim splits x: len(even)+len(remains) == len(x)")
	if L == 0 {
		verifAssert(le == 0, "empty input stays empty")
		verifReach("empty")
		return
	}
	verifAssert(verifC17isPow(le, four), "Trim result has a power of 2 (4) length")
	verifAssert(le <= L, "Trim does not lengthen")
	if four {
		verifAssert(4*le > L, "Trim gives the largest power of 4")
	} else {
		verifAssert(2*le > L, "Trim gives the largest power of 2")
	}
	if verifInEngine() { // verifSliceOff has no native counterpart
		verifAssert(verifSliceOff(ev) == 0, "even starts at x[0]")
		verifAssert(verifSliceOff(rem) == le, "remains starts at x[len(even)]")
	}
	verifReach("end")
}

// VerifC17_PadTrimData: lengths and element content of Pad/Trim for every
// concrete length 0..maxn.
func VerifC17_PadTrimData() {
	maxN := verifParam("c17paddata", 70)
	n := verifChoose("n", 0, maxN)
	four := verifChoose("radix4", 0, 1) == 1
	x := verifComplexes("x", n)
	var p, ev, rem []complex128
	if four {
		p = PadRadix4(x)
		ev, rem = TrimRadix4(x)
	} else {
		p = PadRadix2(x)
		ev, rem = TrimRadix2(x)
	}
	lp, le := len(p), len(ev)
	if n == 0 {
		verifAssert(lp == 0 && le == 0 && len(rem) == 0, "empty input stays empty")
	} else {
		verifAssert(verifC17isPow(lp, four) && verifC17isPow(le, four), "Pad and Trim give power of 2 (4) lengths")
		verifAssert(lp >= n && le <= n, "Pad does not shorten, Trim does not lengthen")
		if four {
			verifAssert(lp < 4*n && 4*le > n, "Pad gives the smallest, Trim the largest power of 4")
		} else {
			verifAssert(lp < 2*n && 2*le > n, "Pad gives the smallest, Trim the largest power of 2")
		}
	}
	for i := range p {
		if i < n {
			verifAssertEqC(p[i], x[i], "Pad keeps the data")
		} else {
			verifAssertEqC(p[i], 0, "Pad fills with zeros")
		}
	}
	verifAssert(len(ev)+len(rem) == n, "Trim splits x")
	for i := range ev {
		verifAssertEqC(ev[i], x[i], "even is the head of x")
	}
	for i := range rem {
		verifAssertEqC(rem[i], x[len(ev)+i], "remains is the tail of x")
	}
	verifReach("end")
}

// VerifC17_LengthPanics: every transform method panics (explicit panic, never
// a runtime fault) exactly when the source or a non-nil destination has the
// wrong length, as documented on each method.
func VerifC17_LengthPanics() {
	n := verifChoose("n", 2, verifParam("c17panicn", 5))
	kind := verifChoose("kind", 0, 9)
	ds := verifChoose("dsrc", -1, 1)
	dd := verifChoose("ddst", -2, 1) // -2: nil dst
	srcLen, dstLen := n, n
	switch kind {
	case 0: // FFT.Coefficients: seq n, dst n/2+1
		dstLen = n/2 + 1
	case 1: // FFT.Sequence: coeff n/2+1, dst n
		srcLen = n/2 + 1
	}
	ls, ld := srcLen+ds, dstLen+dd
	if ls < 0 {
		return
	}
	fs := verifFloats("fs", ls)
	cs := verifComplexes("cs", ls)
	var fd []float64
	var cd []complex128
	if dd != -2 {
		if ld < 0 {
			return
		}
		fd = make([]float64, ld)
		cd = make([]complex128, ld)
	}
	panicked, fault, _ := verifCatch(func() {
		switch kind {
		case 0:
			NewFFT(n).Coefficients(cd, fs)
		case 1:
			NewFFT(n).Sequence(fd, cs)
		case 2:
			NewCmplxFFT(n).Coefficients(cd, cs)
		case 3:
			NewCmplxFFT(n).Sequence(cd, cs)
		case 4:
			NewDCT(n).Transform(fd, fs)
		case 5:
			NewDST(n).Transform(fd, fs)
		case 6:
			NewQuarterWaveFFT(n).CosCoefficients(fd, fs)
		case 7:
			NewQuarterWaveFFT(n).CosSequence(fd, fs)
		case 8:
			NewQuarterWaveFFT(n).SinCoefficients(fd, fs)
		case 9:
			NewQuarterWaveFFT(n).SinSequence(fd, fs)
		}
	})
	verifAssert(!fault, "length mismatch: no runtime fault")
	bad := ds != 0 || (dd != -2 && dd != 0)
	verifAssert(panicked == bad, "transform panics exactly on a length mismatch")
	verifReach("end")
}
