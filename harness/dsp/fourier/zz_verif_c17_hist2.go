package fourier

// VerifC17_HistoryTwoResets: a transform object taken through TWO length
// changes (n1 -> nm -> n2, each length 1..c17hist2n, including nm == 1 where
// the table initialisers return early and n2 == n1 where a cached table could
// be mistaken for current) gives bit-identical results to a fresh object of
// length n2, for every transform type.
func VerifC17_HistoryTwoResets() {
	maxN := verifParam("c17hist2n", 5)
	kind := verifChoose("kind", 0, 5)
	lo := 1
	if kind == 2 {
		lo = 2 // DCT needs n >= 2
	}
	n1 := verifChoose("n1", lo, maxN)
	nm := verifChoose("nm", lo, maxN)
	n2 := verifChoose("n2", lo, maxN)
	x := verifFloats("x", n2)
	switch kind {
	case 0:
		t := NewFFT(n1)
		t.Reset(nm)
		t.Reset(n2)
		a, b := t.Coefficients(nil, x), NewFFT(n2).Coefficients(nil, x)
		for k := range a {
			verifAssert(verifC17sameC(a[k], b[k]), "FFT.Coefficients after two Resets == fresh object")
		}
		ra, rb := t.Sequence(nil, a), NewFFT(n2).Sequence(nil, b)
		for k := range ra {
			verifAssert(verifSame(ra[k], rb[k]), "FFT.Sequence after two Resets == fresh object")
		}
	case 1:
		c := verifComplexes("c", n2)
		t := NewCmplxFFT(n1)
		t.Reset(nm)
		t.Reset(n2)
		a, b := t.Coefficients(nil, c), NewCmplxFFT(n2).Coefficients(nil, c)
		for k := range a {
			verifAssert(verifC17sameC(a[k], b[k]), "CmplxFFT.Coefficients after two Resets == fresh object")
		}
		ra, rb := t.Sequence(nil, c), NewCmplxFFT(n2).Sequence(nil, c)
		for k := range ra {
			verifAssert(verifC17sameC(ra[k], rb[k]), "CmplxFFT.Sequence after two Resets == fresh object")
		}
	case 2:
		t := NewDCT(n1)
		t.Reset(nm)
		t.Reset(n2)
		a, b := t.Transform(nil, x), NewDCT(n2).Transform(nil, x)
		for k := range a {
			verifAssert(verifSame(a[k], b[k]), "DCT after two Resets == fresh object")
		}
	case 3:
		t := NewDST(n1)
		t.Reset(nm)
		t.Reset(n2)
		a, b := t.Transform(nil, x), NewDST(n2).Transform(nil, x)
		for k := range a {
			verifAssert(verifSame(a[k], b[k]), "DST after two Resets == fresh object")
		}
	default:
		t := NewQuarterWaveFFT(n1)
		t.Reset(nm)
		t.Reset(n2)
		f := NewQuarterWaveFFT(n2)
		var a, b, ra, rb []float64
		if kind == 4 {
			a, b = t.CosCoefficients(nil, x), f.CosCoefficients(nil, x)
			ra, rb = t.CosSequence(nil, x), f.CosSequence(nil, x)
		} else {
			a, b = t.SinCoefficients(nil, x), f.SinCoefficients(nil, x)
			ra, rb = t.SinSequence(nil, x), f.SinSequence(nil, x)
		}
		for k := range a {
			verifAssert(verifSame(a[k], b[k]), "QuarterWaveFFT coefficients after two Resets == fresh object")
			verifAssert(verifSame(ra[k], rb[k]), "QuarterWaveFFT sequence after two Resets == fresh object")
		}
	}
	verifReach("end")
}
