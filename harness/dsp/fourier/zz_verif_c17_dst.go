package fourier

// ---- C17, part 4: every transform over the state of the destination ----
//
// Each transform method is called with
//
//	mode 0  dst == nil
//	mode 1  dst a fresh zeroed slice
//	mode 2  dst a distinct slice with arbitrary (symbolic) prior content,
//	        e.g. an output buffer reused from an earlier call
//	mode 3  dst == src, where the documentation says this is safe
//
// and in every case the returned values must equal the defining sum of the
// ORIGINAL input (model R, tolerance as in part 2), the result must be placed
// in dst and returned, and src must be unchanged when dst is distinct.
// Wrong dst lengths are covered by VerifC17_LengthPanics.

// verifC17wantReal is the defining sum of output i of the real-to-real
// transforms: 0 DCT (fftpack.Cost), 1 DST (fftpack.Sint), 2 CosCoefficients,
// 3 CosSequence, 4 SinCoefficients, 5 SinSequence (FFTPACK definitions, see
// VerifC17_DCT, VerifC17_DST, VerifC17_QuarterWave).
func verifC17wantReal(kind, n int, x []float64, i int) float64 {
	var want float64
	switch kind {
	case 0:
		want = x[0]
		if i%2 == 0 {
			want += x[n-1]
		} else {
			want -= x[n-1]
		}
		for k := 1; k < n-1; k++ {
			cs, _ := verifC17cs(k*i, 2*(n-1))
			want += 2 * x[k] * cs
		}
	case 1:
		for k := 0; k < n; k++ {
			_, sn := verifC17cs((k+1)*(i+1), 2*(n+1))
			want += 2 * x[k] * sn
		}
	case 2:
		want = x[0]
		for k := 1; k < n; k++ {
			cs, _ := verifC17cs((2*i+1)*k, 4*n)
			want += 2 * x[k] * cs
		}
	case 3:
		for k := 0; k < n; k++ {
			cs, _ := verifC17cs((2*k+1)*i, 4*n)
			want += 4 * x[k] * cs
		}
	case 4:
		if i%2 == 0 {
			want = x[n-1]
		} else {
			want = -x[n-1]
		}
		for k := 0; k < n-1; k++ {
			_, sn := verifC17cs((2*i+1)*(k+1), 4*n)
			want += 2 * x[k] * sn
		}
	case 5:
		for k := 0; k < n; k++ {
			_, sn := verifC17cs((2*k+1)*(i+1), 4*n)
			want += 4 * x[k] * sn
		}
	}
	return want
}

// VerifC17_DstStatesReal: DCT.Transform, DST.Transform and the four
// QuarterWaveFFT methods over all four destination states.
func VerifC17_DstStatesReal() {
	kind := verifChoose("kind", 0, 5)
	lo := 1
	if kind == 0 {
		lo = 2
	}
	n := verifChoose("n", lo, verifParam("c17dn", 8))
	mode := verifChoose("mode", 0, 3)
	x := verifFloats("x", n)
	verifC17unit(x)
	x0 := append([]float64(nil), x...)
	var dst []float64
	switch mode {
	case 1:
		dst = make([]float64, n)
	case 2:
		dst = verifFloats("prior", n)
		verifC17unit(dst)
	case 3:
		dst = x
	}
	var f func(dst, src []float64) []float64
	switch kind {
	case 0:
		f = NewDCT(n).Transform
	case 1:
		f = NewDST(n).Transform
	case 2:
		f = NewQuarterWaveFFT(n).CosCoefficients
	case 3:
		f = NewQuarterWaveFFT(n).CosSequence
	case 4:
		f = NewQuarterWaveFFT(n).SinCoefficients
	case 5:
		f = NewQuarterWaveFFT(n).SinSequence
	}
	y := f(dst, x)
	verifAssert(len(y) == n, "result has the transform length")
	if mode != 0 {
		verifAssert(&y[0] == &dst[0], "the result is placed in dst and dst is returned")
		verifAssert(verifC17same(y, dst), "the result is placed in dst and dst is returned")
	}
	if mode != 3 {
		verifAssert(verifC17same(x, x0), "a distinct dst leaves src unchanged")
	}
	tol := 2 * verifC17tol(n)
	for i := 0; i < n; i++ {
		verifC17close(y[i], verifC17wantReal(kind, n, x0, i), tol, "defining sum of the input for every state of dst")
	}
	verifReach("end")
}

// VerifC17_DstStatesFFT: FFT.Coefficients / FFT.Sequence (dst of a different
// element type, so modes 0..2) and CmplxFFT.Coefficients / Sequence (modes
// 0..3; dst == seq documented as safe).
func VerifC17_DstStatesFFT() {
	kind := verifChoose("kind", 0, 3)
	n := verifChoose("n", 1, verifParam("c17dn", 8))
	top := 3
	if kind < 2 {
		top = 2
	}
	mode := verifChoose("mode", 0, top)
	tol := verifC17tol(n)
	switch kind {
	case 0: // FFT.Coefficients
		x := verifFloats("x", n)
		verifC17unit(x)
		x0 := append([]float64(nil), x...)
		var dst []complex128
		switch mode {
		case 1:
			dst = make([]complex128, n/2+1)
		case 2:
			dst = verifComplexes("prior", n/2+1)
			verifC17unitC(dst)
		}
		c := NewFFT(n).Coefficients(dst, x)
		verifAssert(len(c) == n/2+1, "n/2+1 coefficients")
		if mode != 0 {
			verifAssert(&c[0] == &dst[0], "the result is placed in dst and dst is returned")
		}
		verifAssert(verifC17same(x, x0), "Coefficients does not modify seq")
		for k := range c {
			var re, im float64
			for j := 0; j < n; j++ {
				cs, sn := verifC17cs(j*k, n)
				re += x0[j] * cs
				im -= x0[j] * sn
			}
			verifC17close(real(c[k]), re, tol, "FFT.Coefficients: real part equals the cosine sum for every state of dst")
			verifC17close(imag(c[k]), im, tol, "FFT.Coefficients: imaginary part equals minus the sine sum for every state of dst")
		}
	case 1: // FFT.Sequence
		c := verifComplexes("c", n/2+1)
		verifC17unitC(c)
		c0 := append([]complex128(nil), c...)
		var dst []float64
		switch mode {
		case 1:
			dst = make([]float64, n)
		case 2:
			dst = verifFloats("prior", n)
			verifC17unit(dst)
		}
		r := NewFFT(n).Sequence(dst, c)
		verifAssert(len(r) == n, "n samples")
		if mode != 0 {
			verifAssert(&r[0] == &dst[0], "the result is placed in dst and dst is returned")
		}
		for k := range c {
			verifAssertEqC(c[k], c0[k], "Sequence does not modify coeff")
		}
		for i := 0; i < n; i++ {
			want := real(c0[0])
			for k := 1; 2*k < n; k++ {
				cs, sn := verifC17cs(k*i, n)
				want += 2 * (real(c0[k])*cs - imag(c0[k])*sn)
			}
			if n%2 == 0 {
				if i%2 == 0 {
					want += real(c0[n/2])
				} else {
					want -= real(c0[n/2])
				}
			}
			verifC17close(r[i], want, tol, "FFT.Sequence: sample equals the inverse sum for every state of dst")
		}
	default: // CmplxFFT.Coefficients (2), Sequence (3)
		x := verifComplexes("x", n)
		verifC17unitC(x)
		x0 := append([]complex128(nil), x...)
		var dst []complex128
		switch mode {
		case 1:
			dst = make([]complex128, n)
		case 2:
			dst = verifComplexes("prior", n)
			verifC17unitC(dst)
		case 3:
			dst = x
		}
		var y []complex128
		sign := -1.0
		if kind == 2 {
			y = NewCmplxFFT(n).Coefficients(dst, x)
		} else {
			sign = 1
			y = NewCmplxFFT(n).Sequence(dst, x)
		}
		verifAssert(len(y) == n, "n values")
		if mode != 0 {
			verifAssert(&y[0] == &dst[0], "the result is placed in dst and dst is returned")
		}
		if mode != 3 {
			for k := range x {
				verifAssertEqC(x[k], x0[k], "a distinct dst leaves the input unchanged")
			}
		}
		for k := 0; k < n; k++ {
			re, im := verifC17dft(x0, k, sign)
			verifC17close(real(y[k]), re, tol, "CmplxFFT: real part equals the defining sum for every state of dst")
			verifC17close(imag(y[k]), im, tol, "CmplxFFT: imaginary part equals the defining sum for every state of dst")
		}
	}
	verifReach("end")
}

// VerifC17_DstReuse: the output buffer of one call reused as dst of the next
// call on the same object with new input (the common streaming pattern): the
// second result equals the defining sum of the second input and does not
// depend on the first (model R), for every transform.
func VerifC17_DstReuse() {
	kind := verifChoose("kind", 0, 5)
	lo := 1
	if kind == 0 {
		lo = 2
	}
	n := verifChoose("n", lo, verifParam("c17dn", 8))
	a := verifFloats("a", n)
	b := verifFloats("b", n)
	verifC17unit(a)
	verifC17unit(b)
	var f func(dst, src []float64) []float64
	switch kind {
	case 0:
		f = NewDCT(n).Transform
	case 1:
		f = NewDST(n).Transform
	case 2:
		f = NewQuarterWaveFFT(n).CosCoefficients
	case 3:
		f = NewQuarterWaveFFT(n).CosSequence
	case 4:
		f = NewQuarterWaveFFT(n).SinCoefficients
	case 5:
		f = NewQuarterWaveFFT(n).SinSequence
	}
	buf := f(nil, a)
	out := f(buf, b)
	tol := 2 * verifC17tol(n)
	for i := 0; i < n; i++ {
		verifC17close(out[i], verifC17wantReal(kind, n, b, i), tol, "reused output buffer: defining sum of the new input")
	}
	verifReach("end")
}

// VerifC17_LenReset: Len() reports the length the object was created or last
// Reset with, for every length 1..c17lenn (2.. for DCT) and every type; the
// objects are reused through a growing and then shrinking chain of Resets
// (Len is derived from the size of the cached tables).
func VerifC17_LenReset() {
	maxN := verifParam("c17lenn", 200)
	fft, cfft, dct, dst, qw := NewFFT(1), NewCmplxFFT(1), NewDCT(2), NewDST(1), NewQuarterWaveFFT(1)
	ok := true
	check := func(n int) {
		fft.Reset(n)
		cfft.Reset(n)
		dst.Reset(n)
		qw.Reset(n)
		ok = ok && fft.Len() == n && cfft.Len() == n && dst.Len() == n && qw.Len() == n
		if n >= 2 {
			dct.Reset(n)
			ok = ok && dct.Len() == n
		}
	}
	for n := 1; n <= maxN; n++ {
		check(n)
		if n%7 == 0 {
			ok = ok && NewFFT(n).Len() == n && NewCmplxFFT(n).Len() == n && NewDCT(n).Len() == n && NewDST(n).Len() == n && NewQuarterWaveFFT(n).Len() == n
		}
	}
	for n := maxN; n >= 1; n -= 3 {
		check(n)
	}
	verifAssert(ok, "Len() equals the length given to New*/Reset for every type and length")
	p, fault, _ := verifCatch(func() { dct.Reset(1) })
	verifAssert(p && !fault, "DCT.Reset panics for n < 2 (documented)")
	verifReach("end")
}
