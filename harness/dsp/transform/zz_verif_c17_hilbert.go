package transform

import "math"

func verifC17hclose(got, want, tol float64, msg string) {
	d := got - want
	verifAssert(verifAnd(d <= tol, -tol <= d), msg)
}

// VerifC17_AnalyticSignal: for every length 1..maxn and every real signal x in
// [-1,1]^n: the real part of AnalyticSignal(nil, x) is x; its spectrum is the
// one-sided spectrum of x (X_0 and, for even n, X_{n/2} kept, positive
// frequencies doubled, negative frequencies zero); the input is not modified; a
// second call on the same object gives the same answer (model R equality).
func VerifC17_AnalyticSignal() {
	n := verifChoose("n", 1, verifParam("c17hn", 10))
	x := verifFloats("x", n)
	for _, v := range x {
		verifAssume(verifAnd(-1 <= v, v <= 1))
	}
	x0 := append([]float64(nil), x...)
	h := NewHilbert(n)
	verifAssert(h.Len() == n, "Len() == n")
	a := h.AnalyticSignal(nil, x)
	verifAssert(len(a) == n, "n samples")
	tol := float64(n) * 1e-12
	for i := 0; i < n; i++ {
		verifAssert(x[i] == x0[i], "AnalyticSignal does not modify the signal")
		verifC17hclose(real(a[i]), x[i], tol, "real part of the analytic signal is the input")
	}
	for k := 0; k < n; k++ {
		// A_k = sum_j a_j exp(-2 pi i jk/n), X_k likewise for x
		var are, aim, xre, xim float64
		for j := 0; j < n; j++ {
			s, c := math.Sincos(2 * math.Pi * float64(j*k%n) / float64(n))
			are += real(a[j])*c + imag(a[j])*s
			aim += imag(a[j])*c - real(a[j])*s
			xre += x[j] * c
			xim -= x[j] * s
		}
		scale := 2.0
		switch {
		case k == 0 || 2*k == n:
			scale = 1
		case 2*k > n:
			scale = 0
		}
		verifC17hclose(are, scale*xre, 4*tol, "spectrum of the analytic signal is one-sided (re)")
		verifC17hclose(aim, scale*xim, 4*tol, "spectrum of the analytic signal is one-sided (im)")
	}
	b := h.AnalyticSignal(nil, x)
	dst := verifComplexes("dst", n)
	c := h.AnalyticSignal(dst, x)
	for i := 0; i < n; i++ {
		verifAssertEqC(b[i], a[i], "second call on the same object gives the same result")
		verifAssertEqC(c[i], a[i], "caller supplied dst gives the same result")
	}
	verifReach("end")
}

// VerifC17_AnalyticSignalPanics: documented length checks.
func VerifC17_AnalyticSignalPanics() {
	n := verifChoose("n", 1, 4)
	ls := n + verifChoose("dsig", -1, 1)
	ld := n + verifChoose("ddst", -2, 1) // -2: nil dst
	h := NewHilbert(n)
	x := verifFloats("x", ls)
	var dst []complex128
	if ld >= n-1 {
		dst = make([]complex128, ld)
	}
	panicked, fault, _ := verifCatch(func() { h.AnalyticSignal(dst, x) })
	verifAssert(!fault, "AnalyticSignal: no runtime fault on mismatched lengths")
	bad := ls != n || (dst != nil && ld != n)
	verifAssert(panicked == bad, "AnalyticSignal panics exactly on a length mismatch")
	verifReach("end")
}
