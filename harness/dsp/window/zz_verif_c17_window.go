package window

import "math"

// ---- C17, window functions ----
//
// The weights of a window of a concrete length are concrete floats (evaluated
// natively by the engine); the data are symbolic reals. So "applies w[k] to
// element k, in place, real and complex variants alike" is an exact linear
// statement per element, and "w[k] is the documented closed form" is a concrete
// comparison (1e-12).

const verifC17wtol = 1e-12

func verifC17wclose(a, b float64) bool { return math.Abs(a-b) <= verifC17wtol }

var verifC17wins = []struct {
	name string
	re   func([]float64) []float64
	cx   func([]complex128) []complex128
}{
	{"Rectangular", Rectangular, RectangularComplex},
	{"Sine", Sine, SineComplex},
	{"Lanczos", Lanczos, LanczosComplex},
	{"Triangular", Triangular, TriangularComplex},
	{"Hann", Hann, HannComplex},
	{"BartlettHann", BartlettHann, BartlettHannComplex},
	{"Hamming", Hamming, HammingComplex},
	{"Blackman", Blackman, BlackmanComplex},
	{"BlackmanHarris", BlackmanHarris, BlackmanHarrisComplex},
	{"Nuttall", Nuttall, NuttallComplex},
	{"BlackmanNuttall", BlackmanNuttall, BlackmanNuttallComplex},
	{"FlatTop", FlatTop, FlatTopComplex},
}

// verifC17wform is the closed form of weight k of window kind for length n as
// written in the doc comments. doc selects the literal documented text for
// the two fixed windows whose comment and code disagree (Hamming 25/46, 21/46
// against 0.54, 0.46; FlatTop last term cos(4 pi k/(N-1)) against
// cos(8 pi k/(N-1))); with doc false the reference forms of the cited
// Wikipedia article are used for these two.
func verifC17wform(kind, k, n int, doc bool) float64 {
	N1 := float64(n - 1)
	x := 2 * math.Pi * float64(k) / N1
	switch kind {
	case 0:
		return 1
	case 1:
		return math.Sin(math.Pi * float64(k) / N1)
	case 2:
		a := math.Pi * (2*float64(k)/N1 - 1)
		if 2*k == n-1 {
			return 1
		}
		return math.Sin(a) / a
	case 3:
		return 1 - math.Abs(float64(k)/(N1/2)-1)
	case 4:
		return 0.5 * (1 - math.Cos(x))
	case 5:
		return 0.62 - 0.48*math.Abs(float64(k)/N1-0.5) - 0.38*math.Cos(x)
	case 6:
		if doc {
			return 25.0/46 - 21.0/46*math.Cos(x)
		}
		return 0.54 - 0.46*math.Cos(x)
	case 7:
		return 0.42 - 0.5*math.Cos(x) + 0.08*math.Cos(2*x)
	case 8:
		return 0.35875 - 0.48829*math.Cos(x) + 0.14128*math.Cos(2*x) - 0.01168*math.Cos(3*x)
	case 9:
		return 0.355768 - 0.487396*math.Cos(x) + 0.144232*math.Cos(2*x) - 0.012604*math.Cos(3*x)
	case 10:
		return 0.3635819 - 0.4891775*math.Cos(x) + 0.1365995*math.Cos(2*x) - 0.0106411*math.Cos(3*x)
	case 11:
		last := math.Cos(4 * x)
		if doc {
			last = math.Cos(2 * x)
		}
		return 0.21557895 - 0.41663158*math.Cos(x) + 0.277263158*math.Cos(2*x) - 0.083578947*math.Cos(3*x) + 0.006947368*last
	}
	return 0
}

func verifC17ones(n int) []float64 {
	s := make([]float64, n)
	for i := range s {
		s[i] = 1
	}
	return s
}

// verifC17applied asserts: y (the result of the real window on a copy of x)
// and z (the complex window on xc) are w[k] times the input, element by
// element.
func verifC17applied(w, x, y []float64, xc, z []complex128, what string) {
	for k := range w {
		verifAssertEqF(y[k], w[k]*x[k], what+": element k is multiplied by w[k]")
		verifAssertEqF(real(z[k]), w[k]*real(xc[k]), what+" (complex): real part is multiplied by w[k]")
		verifAssertEqF(imag(z[k]), w[k]*imag(xc[k]), what+" (complex): imaginary part is multiplied by w[k]")
	}
}

// VerifC17_WindowClosedForms: the twelve fixed windows, every length
// 2..c17wn: weights equal the documented closed form, are symmetric, the
// function works in place and returns its argument, and the real and complex
// variants multiply element k of arbitrary (symbolic) data by w[k].
func VerifC17_WindowClosedForms() {
	kind := verifChoose("kind", 0, len(verifC17wins)-1)
	n := verifChoose("n", 2, verifParam("c17wn", 24))
	win := verifC17wins[kind]
	ones := verifC17ones(n)
	w := win.re(ones)
	verifAssert(len(w) == n && &w[0] == &ones[0], "window works in place and returns seq")
	for k := 0; k < n; k++ {
		verifAssert(verifC17wclose(w[k], verifC17wform(kind, k, n, false)), "weights equal the closed form")
		verifAssert(verifC17wclose(w[k], w[n-1-k]), "weights are symmetric")
	}
	x := verifFloats("x", n)
	xc := verifComplexes("xc", n)
	x0 := append([]float64(nil), x...)
	xc0 := append([]complex128(nil), xc...)
	y := win.re(x)
	z := win.cx(xc)
	verifAssert(len(y) == n && &y[0] == &x[0], "window works in place and returns seq")
	verifAssert(len(z) == n && &z[0] == &xc[0], "complex window works in place and returns seq")
	verifC17applied(w, x0, y, xc0, z, "window")
	verifReach("end")
}

// VerifC17_WindowDocumentedForms: the literal doc-comment formulas of Hamming
// (25/46, 21/46) and FlatTop (last term cos(4 pi k/(N-1))). OPEN VIOLATION
// (documentation and code disagree), kept out of the check spec.
func VerifC17_WindowDocumentedForms() {
	kind := []int{6, 11}[verifChoose("which", 0, 1)]
	n := verifChoose("n", 2, verifParam("c17wn", 24))
	w := verifC17wins[kind].re(verifC17ones(n))
	for k := 0; k < n; k++ {
		verifAssert(verifC17wclose(w[k], verifC17wform(kind, k, n, true)), "weights equal the formula in the doc comment")
	}
	verifReach("end")
}

var verifC17sigmas = []float64{0.3, 0.5, 1.2}
var verifC17alphas = []float64{0.3, 0.5, 0.7, 0.05, 0.95}

// verifC17tukey: Tukey weight with alpha the tapered fraction (cited Wikipedia
// form; alpha -> 0 rectangular, alpha -> 1 Hann): with L = N-1,
// w[k] = 0.5 (1 - cos(2 pi k/(alpha L))) for k <= alpha L/2, 1 in the
// middle, symmetric.
func verifC17tukey(alpha float64, k, n int) float64 {
	L := float64(n - 1)
	if 2*k > n-1 {
		k = n - 1 - k
	}
	if float64(k) <= alpha*L/2 {
		return 0.5 * (1 - math.Cos(2*math.Pi*float64(k)/(alpha*L)))
	}
	return 1
}

// verifC17tukeyDoc: the formula in the doc comment of Tukey, literally:
// w[k] = 0.5 (1 + cos(pi (|k-M| - alpha M)/((1-alpha) M))) for |k-M| >= alpha M,
// 1 otherwise, M = (N-1)/2.
func verifC17tukeyDoc(alpha float64, k, n int) float64 {
	M := float64(n-1) / 2
	d := math.Abs(float64(k) - M)
	if d >= alpha*M {
		return 0.5 * (1 + math.Cos(math.Pi*(d-alpha*M)/((1-alpha)*M)))
	}
	return 1
}

// VerifC17_WindowParametric: Gaussian (documented closed form, sigma from a
// list) real and complex; Tukey.Transform against the reference form (alpha
// from a list; the doc comment's own formula is checked by
// VerifC17_TukeyDocumentedForm); Tukey with Alpha <= 0 / >= 1 is not
// documented and not asserted.
func VerifC17_WindowParametric() {
	n := verifChoose("n", 2, verifParam("c17wn", 24))
	x := verifFloats("x", n)
	x0 := append([]float64(nil), x...)
	if verifChoose("tukey", 0, 1) == 0 {
		sigma := verifC17sigmas[verifChoose("sigma", 0, len(verifC17sigmas)-1)]
		g := Gaussian{Sigma: sigma}
		ones := verifC17ones(n)
		w := g.Transform(ones)
		verifAssert(len(w) == n && &w[0] == &ones[0], "Gaussian works in place and returns seq")
		M := float64(n-1) / 2
		for k := 0; k < n; k++ {
			e := (float64(k) - M) / (sigma * M)
			verifAssert(verifC17wclose(w[k], math.Exp(-0.5*e*e)), "Gaussian weights equal exp(-0.5 ((k-M)/(sigma M))^2)")
			verifAssert(verifC17wclose(w[k], w[n-1-k]), "Gaussian weights are symmetric")
		}
		xc := verifComplexes("xc", n)
		xc0 := append([]complex128(nil), xc...)
		y := g.Transform(x)
		z := g.TransformComplex(xc)
		verifAssert(&y[0] == &x[0] && &z[0] == &xc[0], "Gaussian works in place and returns seq")
		verifC17applied(w, x0, y, xc0, z, "Gaussian")
		verifReach("gaussian")
		return
	}
	alpha := verifC17alphas[verifChoose("alpha", 0, len(verifC17alphas)-1)]
	t := Tukey{Alpha: alpha}
	ones := verifC17ones(n)
	w := t.Transform(ones)
	verifAssert(len(w) == n && &w[0] == &ones[0], "Tukey works in place and returns seq")
	for k := 0; k < n; k++ {
		verifAssert(verifC17wclose(w[k], verifC17tukey(alpha, k, n)), "Tukey weights equal the cosine-tapered closed form")
		verifAssert(verifC17wclose(w[k], w[n-1-k]), "Tukey weights are symmetric")
	}
	y := t.Transform(x)
	verifAssert(&y[0] == &x[0], "Tukey works in place and returns seq")
	for k := 0; k < n; k++ {
		verifAssertEqF(y[k], w[k]*x0[k], "Tukey: element k is multiplied by w[k]")
	}
	verifReach("tukey")
}

// VerifC17_TukeyDocumentedForm: the literal formula of the Tukey doc comment
// with the receiver's Alpha. OPEN VIOLATION (the comment's alpha is the flat
// fraction, the code's Alpha the tapered fraction), kept out of the spec.
func VerifC17_TukeyDocumentedForm() {
	n := verifChoose("n", 3, verifParam("c17wn", 24))
	alpha := verifC17alphas[verifChoose("alpha", 0, 2)]
	w := Tukey{Alpha: alpha}.Transform(verifC17ones(n))
	for k := 0; k < n; k++ {
		verifAssert(verifC17wclose(w[k], verifC17tukeyDoc(alpha, k, n)), "Tukey weights equal the formula in the doc comment")
	}
	verifReach("end")
}

// VerifC17_TukeyComplex: Tukey.TransformComplex applies the same weights as
// Tukey.Transform to the real and to the imaginary parts (as every other
// window pair does). OPEN VIOLATION on the unchanged tree, kept out of the
// spec: the mirrored element is overwritten with the weighted FRONT element.
func VerifC17_TukeyComplex() {
	n := verifChoose("n", 2, verifParam("c17wn", 24))
	alpha := verifC17alphas[verifChoose("alpha", 0, len(verifC17alphas)-1)]
	t := Tukey{Alpha: alpha}
	xc := verifComplexes("xc", n)
	re := make([]float64, n)
	im := make([]float64, n)
	for i, v := range xc {
		re[i], im[i] = real(v), imag(v)
	}
	t.Transform(re)
	t.Transform(im)
	z := t.TransformComplex(xc)
	verifAssert(len(z) == n && &z[0] == &xc[0], "TransformComplex works in place and returns seq")
	for k := 0; k < n; k++ {
		verifAssertEqF(real(z[k]), re[k], "Tukey.TransformComplex: real part equals Tukey.Transform of the real parts")
		verifAssertEqF(imag(z[k]), im[k], "Tukey.TransformComplex: imaginary part equals Tukey.Transform of the imaginary parts")
	}
	verifReach("end")
}

// VerifC17_GaussianSymbolicSigma: for symbolic sigma > 0 the real and complex
// Gaussian variants apply identical weights (exp is an uninterpreted function
// of the same argument).
func VerifC17_GaussianSymbolicSigma() {
	n := verifChoose("n", 2, verifParam("c17wsn", 8))
	sigma := verifFloat("sigma")
	verifAssume(sigma > 0)
	g := Gaussian{Sigma: sigma}
	xc := verifComplexes("xc", n)
	re := make([]float64, n)
	im := make([]float64, n)
	for i, v := range xc {
		re[i], im[i] = real(v), imag(v)
	}
	g.Transform(re)
	g.Transform(im)
	z := g.TransformComplex(xc)
	for k := 0; k < n; k++ {
		verifAssertEqF(real(z[k]), re[k], "Gaussian.TransformComplex: real part equals Gaussian.Transform of the real parts")
		verifAssertEqF(imag(z[k]), im[k], "Gaussian.TransformComplex: imaginary part equals Gaussian.Transform of the imaginary parts")
	}
	verifReach("end")
}

// VerifC17_WindowValues: Values built by NewValues hold the window's weights;
// Transform / TransformTo / TransformComplex / TransformComplexTo all multiply
// element k by v[k] (in place, respectively into dst with src untouched and
// arbitrary prior dst content); a nil Values is a no-op; the documented
// length-mismatch panics.
func VerifC17_WindowValues() {
	kind := verifChoose("kind", 0, len(verifC17wins)-1)
	n := verifChoose("n", 2, verifParam("c17wvn", 8))
	win := verifC17wins[kind]
	v := NewValues(win.re, n)
	w := win.re(verifC17ones(n))
	verifAssert(len(v) == n, "NewValues: n weights")
	for k := 0; k < n; k++ {
		verifAssert(v[k] == w[k], "NewValues: weights of the window function")
	}
	x := verifFloats("x", n)
	xc := verifComplexes("xc", n)
	x0 := append([]float64(nil), x...)
	xc0 := append([]complex128(nil), xc...)

	dst := verifFloats("dst", n)
	dstc := verifComplexes("dstc", n)
	v.TransformTo(dst, x)
	v.TransformComplexTo(dstc, xc)
	for k := 0; k < n; k++ {
		verifAssert(x[k] == x0[k], "TransformTo leaves src unchanged")
		verifAssertEqC(xc[k], xc0[k], "TransformComplexTo leaves src unchanged")
	}
	verifC17applied(w, x0, dst, xc0, dstc, "Values.TransformTo")

	y := v.Transform(x)
	z := v.TransformComplex(xc)
	verifAssert(&y[0] == &x[0] && &z[0] == &xc[0], "Values.Transform works in place and returns seq")
	verifC17applied(w, x0, y, xc0, z, "Values.Transform")
	for k := 0; k < n; k++ {
		verifAssertEqF(y[k], dst[k], "Transform and TransformTo agree")
		verifAssertEqC(z[k], dstc[k], "TransformComplex and TransformComplexTo agree")
	}

	// nil receiver: no-op
	var nilv Values
	a := verifFloats("a", n)
	ac := verifComplexes("ac", n)
	a0 := append([]float64(nil), a...)
	ac0 := append([]complex128(nil), ac...)
	d0 := append([]float64(nil), dst...)
	dc0 := append([]complex128(nil), dstc...)
	ra := nilv.Transform(a)
	rac := nilv.TransformComplex(ac)
	nilv.TransformTo(dst, a)
	nilv.TransformComplexTo(dstc, ac)
	verifAssert(len(ra) == n && len(rac) == n && &ra[0] == &a[0] && &rac[0] == &ac[0], "nil Values: seq is returned")
	for k := 0; k < n; k++ {
		verifAssert(a[k] == a0[k] && dst[k] == d0[k], "nil Values is a no-op")
		verifAssertEqC(ac[k], ac0[k], "nil Values is a no-op")
		verifAssertEqC(dstc[k], dc0[k], "nil Values is a no-op")
	}

	// length mismatch
	ds := verifChoose("dsrc", -1, 1)
	dd := verifChoose("ddst", -1, 1)
	bs := make([]float64, n+ds)
	bd := make([]float64, n+dd)
	bsc := make([]complex128, n+ds)
	bdc := make([]complex128, n+dd)
	p1, f1, _ := verifCatch(func() { v.Transform(bs) })
	p2, f2, _ := verifCatch(func() { v.TransformComplex(bsc) })
	p3, f3, _ := verifCatch(func() { v.TransformTo(bd, bs) })
	p4, f4, _ := verifCatch(func() { v.TransformComplexTo(bdc, bsc) })
	verifAssert(!f1 && !f2 && !f3 && !f4, "length mismatch: no runtime fault")
	verifAssert(p1 == (ds != 0) && p2 == (ds != 0), "Transform panics exactly when len(seq) != len(v)")
	verifAssert(p3 == (ds != 0 || dd != 0) && p4 == (ds != 0 || dd != 0), "TransformTo panics exactly when src or dst does not match len(v)")
	verifReach("end")
}
