// Code generated from ../blas64/zz_verif_c01_w.go by /verif/harness/blas/gonum/gen_w.py; DO NOT EDIT.

package blas32

import (
	"gonum.org/v1/gonum/blas"
	"gonum.org/v1/gonum/blas/gonum"
)

// C01, wrapper package blas32: every wrapper function passes exactly the right flags, dimensions,
// strides and increments of its struct arguments to the implementation: the wrapped call and the
// direct call gonum.Implementation{}.Sxxx(...) on a copy of the same (symbolic) data leave every
// backing cell of every operand bit-identical and return identical results.
// (blas32: Rot and Rotm take n explicitly; DDot and SDDot are covered by VerifC01_Blas32DDot.)

func verifC01wAbs(x int) int {
	if x < 0 {
		return -x
	}
	return x
}

// case split over the increments -2,-1,1,2
func verifC01wInc(name string) int {
	switch verifChoose(name, 0, 3) {
	case 0:
		return -2
	case 1:
		return -1
	case 2:
		return 1
	}
	return 2
}

// increments of two vectors. Default: four pairs with incX != incY in which each of -2,-1,1,2 occurs
// for both vectors (enough to tell x.Inc from y.Inc and the sign handling apart when the oracle is
// the direct call); -params wfullinc=1: all sixteen pairs.
func verifC01wIncs() (incX, incY int) {
	if verifParam("wfullinc", 0) == 1 {
		return verifC01wInc("incX"), verifC01wInc("incY")
	}
	switch verifChoose("incs", 0, 3) {
	case 0:
		return 1, 2
	case 1:
		return 2, -1
	case 2:
		return -1, -2
	}
	return -2, 1
}

func verifC01wTrans(name string) blas.Transpose {
	switch verifChoose(name, 0, 2) {
	case 0:
		return blas.NoTrans
	case 1:
		return blas.Trans
	}
	return blas.ConjTrans
}

func verifC01wUplo(name string) blas.Uplo {
	if verifChoose(name, 0, 1) == 0 {
		return blas.Upper
	}
	return blas.Lower
}

func verifC01wDiag(name string) blas.Diag {
	if verifChoose(name, 0, 1) == 0 {
		return blas.NonUnit
	}
	return blas.Unit
}

func verifC01wSide(name string) blas.Side {
	if verifChoose(name, 0, 1) == 0 {
		return blas.Left
	}
	return blas.Right
}

// two copies of the same symbolic data: w is handed to the wrapper, d to the direct call
func verifC01wPair(name string, n int) (w, d []float32) {
	w = verifFloat32s(name, n)
	d = append([]float32(nil), w...)
	return w, d
}

func verifC01wSameF(a, b float32) bool { return verifSame(float64(a), float64(b)) }

func verifC01wSameAll(w, d []float32, msg string) {
	for i := range w {
		verifAssert(verifC01wSameF(w[i], d[i]), msg)
	}
}

func verifC01wVlen(n, inc, slack int) int {
	if n <= 0 {
		return slack
	}
	return 1 + (n-1)*verifC01wAbs(inc) + slack
}

func verifC01wLd(cols, pad int) int {
	if cols+pad < 1 {
		return 1
	}
	return cols + pad
}

func verifC01wMlen(rows, cols, ld, slack int) int {
	if rows == 0 {
		return slack
	}
	return ld*(rows-1) + cols + slack
}

func verifC01wBandLen(rows, width, ld, slack int) int {
	if rows == 0 {
		return slack
	}
	return ld*(rows-1) + width + slack
}

// VerifC01_Blas32Vector: the Level 1 wrappers over Vector{N, Data, Inc}.
func VerifC01_Blas32Vector() {
	impl := gonum.Implementation{}
	r := verifChoose("routine", 0, 9)
	n := verifChoose("n", 0, verifParam("wvn", 3))
	slack := verifChoose("slack", 0, 1)
	if r == 6 && n > 1 {
		// Nrm2: n <= 1. The scaled sum of squares is executed twice on symbolic data; deciding the
		// branches of the second execution costs minutes of solver time from n == 2 on.
		return
	}
	incX, incY := 1, 1
	if r >= 6 { // Nrm2, Asum, Iamax, Scal: the wrappers panic for a negative increment
		incX = verifChoose("incX", 1, 2)
	} else {
		incX, incY = verifC01wIncs()
	}
	xw, xd := verifC01wPair("x", verifC01wVlen(n, incX, slack))
	yw, yd := verifC01wPair("y", verifC01wVlen(n, incY, slack))
	x, y := Vector{N: n, Data: xw, Inc: incX}, Vector{N: n, Data: yw, Inc: incY}
	alpha, c, s := verifFloat32("alpha"), verifFloat32("c"), verifFloat32("s")
	switch r {
	case 0:
		verifAssert(verifC01wSameF(Dot(x, y), impl.Sdot(n, xd, incX, yd, incY)), "Dot == Sdot")
	case 1:
		Swap(x, y)
		impl.Sswap(n, xd, incX, yd, incY)
	case 2:
		Copy(x, y)
		impl.Scopy(n, xd, incX, yd, incY)
	case 3:
		Axpy(alpha, x, y)
		impl.Saxpy(n, alpha, xd, incX, yd, incY)
	case 4:
		Rot(n, x, y, c, s)
		impl.Srot(n, xd, incX, yd, incY, c, s)
	case 5:
		p := blas.SrotmParams{Flag: blas.Flag(verifChoose("flag", -2, 1))}
		copy(p.H[:], verifFloat32s("h", 4))
		Rotm(n, x, y, p)
		impl.Srotm(n, xd, incX, yd, incY, p)
	case 6:
		verifAssert(verifC01wSameF(Nrm2(x), impl.Snrm2(n, xd, incX)), "Nrm2 == Snrm2")
	case 7:
		verifAssert(verifC01wSameF(Asum(x), impl.Sasum(n, xd, incX)), "Asum == Sasum")
	case 8:
		verifAssert(Iamax(x) == impl.Isamax(n, xd, incX), "Iamax == Isamax")
	default:
		Scal(alpha, x)
		impl.Sscal(n, alpha, xd, incX)
	}
	verifC01wSameAll(xw, xd, "Level 1 wrapper: x as after the direct call")
	verifC01wSameAll(yw, yd, "Level 1 wrapper: y as after the direct call")
	verifReach("end")
}

// VerifC01_Blas32VectorPanics: documented argument checks of the Level 1 wrappers: a negative
// increment (Nrm2, Asum, Iamax, Scal) and x.N != y.N (Dot, Swap, Copy, Axpy, DDot, SDDot) panic
// before anything is written.
func VerifC01_Blas32VectorPanics() {
	r := verifChoose("routine", 0, 9)
	n := verifChoose("n", 0, 2)
	incX, incY := 1, 1
	ny := n
	if r >= 6 {
		incX = -verifChoose("negIncX", 1, 2)
	} else {
		ny = n + 1
	}
	xw, xd := verifC01wPair("x", verifC01wVlen(n, incX, 0))
	yw, yd := verifC01wPair("y", verifC01wVlen(ny, incY, 0))
	x, y := Vector{N: n, Data: xw, Inc: incX}, Vector{N: ny, Data: yw, Inc: incY}
	alpha := verifFloat32("alpha")
	panicked, fault, msg := verifCatch(func() {
		switch r {
		case 0:
			Dot(x, y)
		case 1:
			Swap(x, y)
		case 2:
			Copy(x, y)
		case 3:
			Axpy(alpha, x, y)
		case 4:
			DDot(x, y)
		case 5:
			SDDot(alpha, x, y)
		case 6:
			Nrm2(x)
		case 7:
			Asum(x)
		case 8:
			Iamax(x)
		default:
			Scal(alpha, x)
		}
	})
	verifAssert(panicked && !fault, "Level 1 wrapper: explicit panic for a negative increment / length mismatch")
	if r >= 6 {
		verifAssert(msg == negInc, "Level 1 wrapper: panic message negInc")
	} else {
		verifAssert(msg == badLength, "Level 1 wrapper: panic message badLength")
	}
	verifC01wSameAll(xw, xd, "Level 1 wrapper: x untouched by a panicking call")
	verifC01wSameAll(yw, yd, "Level 1 wrapper: y untouched by a panicking call")
	verifReach("end")
}

// VerifC01_Blas32Rotg: the scalar wrappers Rotg and Rotmg pass their arguments through in order.
// Both executions share their inputs; magnitudes are bounded so that no rescaling loop of Drotmg
// runs more than once and Drotg stays in its unscaled range.
func VerifC01_Blas32Rotg() {
	impl := gonum.Implementation{}
	a, b, c, d := verifFloat32("a"), verifFloat32("b"), verifFloat32("c"), verifFloat32("d")
	if verifChoose("routine", 0, 1) == 0 {
		verifAssume(a >= 1.0/4096)
		verifAssume(a <= 4096)
		verifAssume(b >= 1.0/4096)
		verifAssume(b <= 4096)
		verifAssume(verifAnd(c != 0, d != 0))
		pw, w1, w2, w3 := Rotmg(a, b, c, d)
		pd, d1, d2, d3 := impl.Srotmg(a, b, c, d)
		verifAssert(pw.Flag == pd.Flag, "Rotmg: flag")
		for i := range pw.H {
			verifAssert(verifC01wSameF(pw.H[i], pd.H[i]), "Rotmg: H")
		}
		verifAssert(verifAnd(verifC01wSameF(w1, d1), verifAnd(verifC01wSameF(w2, d2), verifC01wSameF(w3, d3))), "Rotmg: d1, d2, x1")
	} else {
		if verifParam("wrotgsym", 0) == 1 {
			verifAssume(verifAnd(a >= 1, a <= 2))
			verifAssume(verifAnd(b >= -4, b <= -3))
		} else { // blas32: math32.Copysign needs the bits of its argument, unsupported for a symbolic real
			a, b = 1.5, -3.5
		}
		w1, w2, w3, w4 := Rotg(a, b)
		d1, d2, d3, d4 := impl.Srotg(a, b)
		verifAssert(verifAnd(verifAnd(verifC01wSameF(w1, d1), verifC01wSameF(w2, d2)), verifAnd(verifC01wSameF(w3, d3), verifC01wSameF(w4, d4))), "Rotg: c, s, r, z")
	}
	verifReach("end")
}

// VerifC01_Blas32General: Gemv, Ger, Gemm over General{Rows, Cols, Data, Stride}.
func VerifC01_Blas32General() {
	impl := gonum.Implementation{}
	maxN := verifParam("wn", 2)
	r := verifChoose("routine", 0, 2)
	m := verifChoose("m", 0, maxN)
	n := verifChoose("n", 0, maxN)
	padA := verifChoose("padA", 0, 1)
	alpha, beta := verifFloat32("alpha"), verifFloat32("beta")
	switch r {
	case 0, 1:
		t := blas.NoTrans
		if r == 0 {
			t = verifC01wTrans("trans")
		}
		incX, incY := verifC01wIncs()
		lda := verifC01wLd(n, padA)
		lenX, lenY := n, m // Gemv NoTrans
		if r == 1 || t != blas.NoTrans {
			lenX, lenY = m, n // Ger: x has m, y has n elements
		}
		aw, ad := verifC01wPair("a", verifC01wMlen(m, n, lda, padA))
		xw, xd := verifC01wPair("x", verifC01wVlen(lenX, incX, padA))
		yw, yd := verifC01wPair("y", verifC01wVlen(lenY, incY, padA))
		a := General{Rows: m, Cols: n, Data: aw, Stride: lda}
		x, y := Vector{N: lenX, Data: xw, Inc: incX}, Vector{N: lenY, Data: yw, Inc: incY}
		if r == 0 {
			Gemv(t, alpha, a, x, beta, y)
			impl.Sgemv(t, m, n, alpha, ad, lda, xd, incX, beta, yd, incY)
		} else {
			Ger(alpha, x, y, a)
			impl.Sger(m, n, alpha, xd, incX, yd, incY, ad, lda)
		}
		verifC01wSameAll(aw, ad, "Gemv/Ger: A as after the direct call")
		verifC01wSameAll(xw, xd, "Gemv/Ger: x as after the direct call")
		verifC01wSameAll(yw, yd, "Gemv/Ger: y as after the direct call")
	default:
		tA, tB := verifC01wTrans("transA"), verifC01wTrans("transB")
		k := verifChoose("k", 0, maxN)
		padB, padC := verifChoose("padB", 0, 1), verifChoose("padC", 0, 1)
		ra, ca := m, k
		if tA != blas.NoTrans {
			ra, ca = k, m
		}
		rb, cb := k, n
		if tB != blas.NoTrans {
			rb, cb = n, k
		}
		lda, ldb, ldc := verifC01wLd(ca, padA), verifC01wLd(cb, padB), verifC01wLd(n, padC)
		aw, ad := verifC01wPair("a", verifC01wMlen(ra, ca, lda, padA))
		bw, bd := verifC01wPair("b", verifC01wMlen(rb, cb, ldb, padB))
		cw, cd := verifC01wPair("c", verifC01wMlen(m, n, ldc, padC))
		Gemm(tA, tB, alpha, General{Rows: ra, Cols: ca, Data: aw, Stride: lda}, General{Rows: rb, Cols: cb, Data: bw, Stride: ldb}, beta, General{Rows: m, Cols: n, Data: cw, Stride: ldc})
		impl.Sgemm(tA, tB, m, n, k, alpha, ad, lda, bd, ldb, beta, cd, ldc)
		verifC01wSameAll(aw, ad, "Gemm: A as after the direct call")
		verifC01wSameAll(bw, bd, "Gemm: B as after the direct call")
		verifC01wSameAll(cw, cd, "Gemm: C as after the direct call")
	}
	verifReach("end")
}

// VerifC01_Blas32Band: Gbmv over Band{Rows, Cols, KL, KU, Data, Stride}.
func VerifC01_Blas32Band() {
	impl := gonum.Implementation{}
	maxN := verifParam("wn", 2)
	t := verifC01wTrans("trans")
	m := verifChoose("m", 0, maxN)
	n := verifChoose("n", 0, maxN)
	kL := verifChoose("kL", 0, 1)
	kU := verifChoose("kU", 0, 1)
	pad := verifChoose("pad", 0, 1)
	incX, incY := verifC01wIncs()
	lda := kL + kU + 1 + pad
	rows := m
	if n+kL < rows {
		rows = n + kL
	}
	la := pad
	if m > 0 && n > 0 {
		la = verifC01wBandLen(rows, kL+kU+1, lda, pad)
	}
	lenX, lenY := n, m
	if t != blas.NoTrans {
		lenX, lenY = m, n
	}
	aw, ad := verifC01wPair("a", la)
	xw, xd := verifC01wPair("x", verifC01wVlen(lenX, incX, pad))
	yw, yd := verifC01wPair("y", verifC01wVlen(lenY, incY, pad))
	alpha, beta := verifFloat32("alpha"), verifFloat32("beta")
	Gbmv(t, alpha, Band{Rows: m, Cols: n, KL: kL, KU: kU, Data: aw, Stride: lda}, Vector{N: lenX, Data: xw, Inc: incX}, beta, Vector{N: lenY, Data: yw, Inc: incY})
	impl.Sgbmv(t, m, n, kL, kU, alpha, ad, lda, xd, incX, beta, yd, incY)
	verifC01wSameAll(aw, ad, "Gbmv: A as after the direct call")
	verifC01wSameAll(xw, xd, "Gbmv: x as after the direct call")
	verifC01wSameAll(yw, yd, "Gbmv: y as after the direct call")
	verifReach("end")
}

// VerifC01_Blas32Triangular: Trmv, Trsv (routine 0, 1), Tbmv, Tbsv (2, 3), Tpmv, Tpsv (4, 5) over
// Triangular / TriangularBand / TriangularPacked, and Trmm, Trsm (6, 7) over Triangular + General.
func VerifC01_Blas32Triangular() {
	impl := gonum.Implementation{}
	maxN := verifParam("wn", 2)
	r := verifChoose("routine", 0, 7)
	ul := verifC01wUplo("uplo")
	t := verifC01wTrans("trans")
	dg := verifC01wDiag("diag")
	n := verifChoose("n", 0, maxN)
	pad := verifChoose("pad", 0, 1)
	solve := r%2 == 1
	if r >= 6 {
		s := verifC01wSide("side")
		m := verifChoose("m", 0, maxN)
		padB := verifChoose("padB", 0, 1)
		ka := n
		if s == blas.Left {
			ka = m
		}
		lda, ldb := verifC01wLd(ka, pad), verifC01wLd(n, padB)
		aw, ad := verifC01wPair("a", verifC01wMlen(ka, ka, lda, pad))
		bw, bd := verifC01wPair("b", verifC01wMlen(m, n, ldb, padB))
		alpha := verifFloat32("alpha")
		if solve && dg == blas.NonUnit && m > 0 && n > 0 {
			for i := 0; i < ka; i++ {
				verifAssume(aw[i*lda+i] != 0)
			}
		}
		a := Triangular{Uplo: ul, Diag: dg, N: ka, Data: aw, Stride: lda}
		b := General{Rows: m, Cols: n, Data: bw, Stride: ldb}
		if solve {
			Trsm(s, t, alpha, a, b)
			impl.Strsm(s, ul, t, dg, m, n, alpha, ad, lda, bd, ldb)
		} else {
			Trmm(s, t, alpha, a, b)
			impl.Strmm(s, ul, t, dg, m, n, alpha, ad, lda, bd, ldb)
		}
		verifC01wSameAll(aw, ad, "Trmm/Trsm: A as after the direct call")
		verifC01wSameAll(bw, bd, "Trmm/Trsm: B as after the direct call")
		verifReach("end")
		return
	}
	incX := verifC01wInc("incX")
	xw, xd := verifC01wPair("x", verifC01wVlen(n, incX, pad))
	x := Vector{N: n, Data: xw, Inc: incX}
	var aw, ad []float32
	switch r / 2 {
	case 0:
		lda := verifC01wLd(n, pad)
		aw, ad = verifC01wPair("a", verifC01wMlen(n, n, lda, pad))
		if solve && dg == blas.NonUnit {
			for i := 0; i < n; i++ {
				verifAssume(aw[i*lda+i] != 0)
			}
		}
		a := Triangular{Uplo: ul, Diag: dg, N: n, Data: aw, Stride: lda}
		if solve {
			Trsv(t, a, x)
			impl.Strsv(ul, t, dg, n, ad, lda, xd, incX)
		} else {
			Trmv(t, a, x)
			impl.Strmv(ul, t, dg, n, ad, lda, xd, incX)
		}
	case 1:
		k := verifChoose("k", 0, 1)
		lda := k + 1 + pad
		aw, ad = verifC01wPair("a", verifC01wBandLen(n, k+1, lda, pad))
		if solve && dg == blas.NonUnit {
			for i := 0; i < n; i++ {
				if ul == blas.Upper {
					verifAssume(aw[i*lda] != 0)
				} else {
					verifAssume(aw[i*lda+k] != 0)
				}
			}
		}
		a := TriangularBand{Uplo: ul, Diag: dg, N: n, K: k, Data: aw, Stride: lda}
		if solve {
			Tbsv(t, a, x)
			impl.Stbsv(ul, t, dg, n, k, ad, lda, xd, incX)
		} else {
			Tbmv(t, a, x)
			impl.Stbmv(ul, t, dg, n, k, ad, lda, xd, incX)
		}
	default:
		aw, ad = verifC01wPair("a", n*(n+1)/2+pad)
		if solve && dg == blas.NonUnit {
			for i, p := 0, 0; i < n; i++ { // packed diagonal positions
				if ul == blas.Upper {
					verifAssume(aw[p] != 0)
					p += n - i
				} else {
					p += i
					verifAssume(aw[p] != 0)
					p++
				}
			}
		}
		a := TriangularPacked{Uplo: ul, Diag: dg, N: n, Data: aw}
		if solve {
			Tpsv(t, a, x)
			impl.Stpsv(ul, t, dg, n, ad, xd, incX)
		} else {
			Tpmv(t, a, x)
			impl.Stpmv(ul, t, dg, n, ad, xd, incX)
		}
	}
	verifC01wSameAll(aw, ad, "triangular wrapper: A as after the direct call")
	verifC01wSameAll(xw, xd, "triangular wrapper: x as after the direct call")
	verifReach("end")
}

// VerifC01_Blas32Symmetric: Symv, Syr, Syr2 (routine 0..2) over Symmetric, Sbmv (3) over SymmetricBand,
// Spmv, Spr, Spr2 (4..6) over SymmetricPacked.
func VerifC01_Blas32Symmetric() {
	impl := gonum.Implementation{}
	r := verifChoose("routine", 0, 6)
	ul := verifC01wUplo("uplo")
	n := verifChoose("n", 0, verifParam("wn", 2)+1)
	pad := verifChoose("pad", 0, 1)
	incX, incY := verifC01wIncs()
	xw, xd := verifC01wPair("x", verifC01wVlen(n, incX, pad))
	yw, yd := verifC01wPair("y", verifC01wVlen(n, incY, pad))
	x, y := Vector{N: n, Data: xw, Inc: incX}, Vector{N: n, Data: yw, Inc: incY}
	alpha, beta := verifFloat32("alpha"), verifFloat32("beta")
	var aw, ad []float32
	switch {
	case r <= 2:
		lda := verifC01wLd(n, pad)
		aw, ad = verifC01wPair("a", verifC01wMlen(n, n, lda, pad))
		a := Symmetric{Uplo: ul, N: n, Data: aw, Stride: lda}
		switch r {
		case 0:
			Symv(alpha, a, x, beta, y)
			impl.Ssymv(ul, n, alpha, ad, lda, xd, incX, beta, yd, incY)
		case 1:
			Syr(alpha, x, a)
			impl.Ssyr(ul, n, alpha, xd, incX, ad, lda)
		default:
			Syr2(alpha, x, y, a)
			impl.Ssyr2(ul, n, alpha, xd, incX, yd, incY, ad, lda)
		}
	case r == 3:
		k := verifChoose("k", 0, 1)
		lda := k + 1 + pad
		aw, ad = verifC01wPair("a", verifC01wBandLen(n, k+1, lda, pad))
		Sbmv(alpha, SymmetricBand{Uplo: ul, N: n, K: k, Data: aw, Stride: lda}, x, beta, y)
		impl.Ssbmv(ul, n, k, alpha, ad, lda, xd, incX, beta, yd, incY)
	default:
		aw, ad = verifC01wPair("a", n*(n+1)/2+pad)
		a := SymmetricPacked{Uplo: ul, N: n, Data: aw}
		switch r {
		case 4:
			Spmv(alpha, a, x, beta, y)
			impl.Sspmv(ul, n, alpha, ad, xd, incX, beta, yd, incY)
		case 5:
			Spr(alpha, x, a)
			impl.Sspr(ul, n, alpha, xd, incX, ad)
		default:
			Spr2(alpha, x, y, a)
			impl.Sspr2(ul, n, alpha, xd, incX, yd, incY, ad)
		}
	}
	verifC01wSameAll(aw, ad, "symmetric wrapper: A as after the direct call")
	verifC01wSameAll(xw, xd, "symmetric wrapper: x as after the direct call")
	verifC01wSameAll(yw, yd, "symmetric wrapper: y as after the direct call")
	verifReach("end")
}

// VerifC01_Blas32Symmetric3: Symm, Syrk, Syr2k over Symmetric + General.
func VerifC01_Blas32Symmetric3() {
	impl := gonum.Implementation{}
	maxN := verifParam("wn", 2)
	r := verifChoose("routine", 0, 2)
	ul := verifC01wUplo("uplo")
	n := verifChoose("n", 0, maxN)
	mk := verifChoose("mk", 0, maxN) // m (Symm) or k (Syrk, Syr2k)
	padA, padB, padC := verifChoose("padA", 0, 1), verifChoose("padB", 0, 1), verifChoose("padC", 0, 1)
	alpha, beta := verifFloat32("alpha"), verifFloat32("beta")
	if r == 0 {
		s := verifC01wSide("side")
		m := mk
		ka := n
		if s == blas.Left {
			ka = m
		}
		lda, ldb, ldc := verifC01wLd(ka, padA), verifC01wLd(n, padB), verifC01wLd(n, padC)
		aw, ad := verifC01wPair("a", verifC01wMlen(ka, ka, lda, padA))
		bw, bd := verifC01wPair("b", verifC01wMlen(m, n, ldb, padB))
		cw, cd := verifC01wPair("c", verifC01wMlen(m, n, ldc, padC))
		Symm(s, alpha, Symmetric{Uplo: ul, N: ka, Data: aw, Stride: lda}, General{Rows: m, Cols: n, Data: bw, Stride: ldb}, beta, General{Rows: m, Cols: n, Data: cw, Stride: ldc})
		impl.Ssymm(s, ul, m, n, alpha, ad, lda, bd, ldb, beta, cd, ldc)
		verifC01wSameAll(aw, ad, "Symm: A as after the direct call")
		verifC01wSameAll(bw, bd, "Symm: B as after the direct call")
		verifC01wSameAll(cw, cd, "Symm: C as after the direct call")
		verifReach("end")
		return
	}
	k := mk
	t := blas.NoTrans
	if verifChoose("trans", 0, 1) == 1 {
		t = blas.Trans
	}
	ra, ca := n, k
	if t != blas.NoTrans {
		ra, ca = k, n
	}
	lda, ldb, ldc := verifC01wLd(ca, padA), verifC01wLd(ca, padB), verifC01wLd(n, padC)
	aw, ad := verifC01wPair("a", verifC01wMlen(ra, ca, lda, padA))
	bw, bd := verifC01wPair("b", verifC01wMlen(ra, ca, ldb, padB))
	cw, cd := verifC01wPair("c", verifC01wMlen(n, n, ldc, padC))
	a := General{Rows: ra, Cols: ca, Data: aw, Stride: lda}
	b := General{Rows: ra, Cols: ca, Data: bw, Stride: ldb}
	c := Symmetric{Uplo: ul, N: n, Data: cw, Stride: ldc}
	if r == 1 {
		Syrk(t, alpha, a, beta, c)
		impl.Ssyrk(ul, t, n, k, alpha, ad, lda, beta, cd, ldc)
	} else {
		Syr2k(t, alpha, a, b, beta, c)
		impl.Ssyr2k(ul, t, n, k, alpha, ad, lda, bd, ldb, beta, cd, ldc)
	}
	verifC01wSameAll(aw, ad, "Syrk/Syr2k: A as after the direct call")
	verifC01wSameAll(bw, bd, "Syrk/Syr2k: B as after the direct call")
	verifC01wSameAll(cw, cd, "Syrk/Syr2k: C as after the direct call")
	verifReach("end")
}

// VerifC01_Blas32DDot: the mixed precision wrappers DDot (Dsdot) and SDDot (Sdsdot), blas32 only.
func VerifC01_Blas32DDot() {
	impl := gonum.Implementation{}
	n := verifChoose("n", 0, verifParam("wn", 2)+1)
	slack := verifChoose("slack", 0, 1)
	incX, incY := verifC01wIncs()
	xw, xd := verifC01wPair("x", verifC01wVlen(n, incX, slack))
	yw, yd := verifC01wPair("y", verifC01wVlen(n, incY, slack))
	x, y := Vector{N: n, Data: xw, Inc: incX}, Vector{N: n, Data: yw, Inc: incY}
	alpha := verifFloat32("alpha")
	if verifChoose("routine", 0, 1) == 0 {
		verifAssert(verifSame(DDot(x, y), impl.Dsdot(n, xd, incX, yd, incY)), "DDot == Dsdot")
	} else {
		verifAssert(verifC01wSameF(SDDot(alpha, x, y), impl.Sdsdot(n, alpha, xd, incX, yd, incY)), "SDDot == Sdsdot")
	}
	verifC01wSameAll(xw, xd, "DDot/SDDot: x untouched")
	verifC01wSameAll(yw, yd, "DDot/SDDot: y untouched")
	verifReach("end")
}
