// Code generated from ../cblas128/zz_verif_c01_w.go by /verif/harness/blas/gonum/gen_w.py; DO NOT EDIT.

package cblas64

import (
	"gonum.org/v1/gonum/blas"
	"gonum.org/v1/gonum/blas/gonum"
)

// C01, wrapper package cblas64: every wrapper function passes exactly the right flags, dimensions,
// strides and increments of its struct arguments to the implementation: the wrapped call and the
// direct call gonum.Implementation{}.Cxxx(...) on a copy of the same (symbolic) data leave every
// backing cell of every operand bit-identical and return identical results.

func verifC01wAbs(x int) int {
	if x < 0 {
		return -x
	}
	return x
}

// case split over the increments -2,-1,1,2
func verifC01wInc(name string) int {
	switch verifChoose(name, 0, 3) {
	case 0:
		return -2
	case 1:
		return -1
	case 2:
		return 1
	}
	return 2
}

// increments of two vectors. Default: four pairs with incX != incY in which each of -2,-1,1,2 occurs
// for both vectors (enough to tell x.Inc from y.Inc and the sign handling apart when the oracle is
// the direct call); -params wfullinc=1: all sixteen pairs.
func verifC01wIncs() (incX, incY int) {
	if verifParam("wfullinc", 0) == 1 {
		return verifC01wInc("incX"), verifC01wInc("incY")
	}
	switch verifChoose("incs", 0, 3) {
	case 0:
		return 1, 2
	case 1:
		return 2, -1
	case 2:
		return -1, -2
	}
	return -2, 1
}

func verifC01wTrans(name string) blas.Transpose {
	switch verifChoose(name, 0, 2) {
	case 0:
		return blas.NoTrans
	case 1:
		return blas.Trans
	}
	return blas.ConjTrans
}

func verifC01wUplo(name string) blas.Uplo {
	if verifChoose(name, 0, 1) == 0 {
		return blas.Upper
	}
	return blas.Lower
}

func verifC01wDiag(name string) blas.Diag {
	if verifChoose(name, 0, 1) == 0 {
		return blas.NonUnit
	}
	return blas.Unit
}

func verifC01wSide(name string) blas.Side {
	if verifChoose(name, 0, 1) == 0 {
		return blas.Left
	}
	return blas.Right
}

// two copies of the same symbolic data: w is handed to the wrapper, d to the direct call
func verifC01wPair(name string, n int) (w, d []complex64) {
	w = verifComplex64s(name, n)
	d = append([]complex64(nil), w...)
	return w, d
}

func verifC01wSameF(a, b float32) bool { return verifSame(float64(a), float64(b)) }

func verifC01wSameC(a, b complex64) bool {
	return verifAnd(verifC01wSameF(real(a), real(b)), verifC01wSameF(imag(a), imag(b)))
}

func verifC01wSameAll(w, d []complex64, msg string) {
	for i := range w {
		verifAssert(verifC01wSameC(w[i], d[i]), msg)
	}
}

func verifC01wCmplx(name string) complex64 {
	return complex(verifFloat32(name+".re"), verifFloat32(name+".im"))
}

func verifC01wNonZero(z complex64) {
	verifAssume(verifOr(real(z) != 0, imag(z) != 0))
}

func verifC01wVlen(n, inc, slack int) int {
	if n <= 0 {
		return slack
	}
	return 1 + (n-1)*verifC01wAbs(inc) + slack
}

func verifC01wLd(cols, pad int) int {
	if cols+pad < 1 {
		return 1
	}
	return cols + pad
}

func verifC01wMlen(rows, cols, ld, slack int) int {
	if rows == 0 {
		return slack
	}
	return ld*(rows-1) + cols + slack
}

func verifC01wBandLen(rows, width, ld, slack int) int {
	if rows == 0 {
		return slack
	}
	return ld*(rows-1) + width + slack
}

// VerifC01_Cblas64Vector: the Level 1 wrappers over Vector{N, Data, Inc}.
func VerifC01_Cblas64Vector() {
	impl := gonum.Implementation{}
	r := verifChoose("routine", 0, 9)
	n := verifChoose("n", 0, verifParam("wvn", 3))
	slack := verifChoose("slack", 0, 1)
	if r == 5 && n > 1 {
		// Nrm2: n <= 1. The scaled sum of squares is executed twice on symbolic data; deciding the
		// branches of the second execution costs minutes of solver time from n == 2 on.
		return
	}
	incX, incY := 1, 1
	if r >= 5 { // Nrm2, Asum, Iamax, Scal, Dscal: the wrappers panic for a negative increment
		incX = verifChoose("incX", 1, 2)
	} else {
		incX, incY = verifC01wIncs()
	}
	xw, xd := verifC01wPair("x", verifC01wVlen(n, incX, slack))
	yw, yd := verifC01wPair("y", verifC01wVlen(n, incY, slack))
	x, y := Vector{N: n, Data: xw, Inc: incX}, Vector{N: n, Data: yw, Inc: incY}
	alpha := verifC01wCmplx("alpha")
	switch r {
	case 0:
		verifAssert(verifC01wSameC(Dotu(x, y), impl.Cdotu(n, xd, incX, yd, incY)), "Dotu == Cdotu")
	case 1:
		verifAssert(verifC01wSameC(Dotc(x, y), impl.Cdotc(n, xd, incX, yd, incY)), "Dotc == Cdotc")
	case 2:
		Swap(x, y)
		impl.Cswap(n, xd, incX, yd, incY)
	case 3:
		Copy(x, y)
		impl.Ccopy(n, xd, incX, yd, incY)
	case 4:
		Axpy(alpha, x, y)
		impl.Caxpy(n, alpha, xd, incX, yd, incY)
	case 5:
		verifAssert(verifC01wSameF(Nrm2(x), impl.Scnrm2(n, xd, incX)), "Nrm2 == Scnrm2")
	case 6:
		verifAssert(verifC01wSameF(Asum(x), impl.Scasum(n, xd, incX)), "Asum == Scasum")
	case 7:
		verifAssert(Iamax(x) == impl.Icamax(n, xd, incX), "Iamax == Icamax")
	case 8:
		Scal(alpha, x)
		impl.Cscal(n, alpha, xd, incX)
	default:
		Dscal(real(alpha), x)
		impl.Csscal(n, real(alpha), xd, incX)
	}
	verifC01wSameAll(xw, xd, "Level 1 wrapper: x as after the direct call")
	verifC01wSameAll(yw, yd, "Level 1 wrapper: y as after the direct call")
	verifReach("end")
}

// VerifC01_Cblas64VectorPanics: documented argument checks of the Level 1 wrappers: a negative
// increment (Nrm2, Asum, Iamax, Scal, Dscal) and x.N != y.N (Dotu, Dotc, Swap, Copy, Axpy) panic
// before anything is written.
func VerifC01_Cblas64VectorPanics() {
	r := verifChoose("routine", 0, 9)
	n := verifChoose("n", 0, 2)
	incX, incY := 1, 1
	ny := n
	if r >= 5 {
		incX = -verifChoose("negIncX", 1, 2)
	} else {
		ny = n + 1
	}
	xw, xd := verifC01wPair("x", verifC01wVlen(n, incX, 0))
	yw, yd := verifC01wPair("y", verifC01wVlen(ny, incY, 0))
	x, y := Vector{N: n, Data: xw, Inc: incX}, Vector{N: ny, Data: yw, Inc: incY}
	alpha := verifC01wCmplx("alpha")
	panicked, fault, msg := verifCatch(func() {
		switch r {
		case 0:
			Dotu(x, y)
		case 1:
			Dotc(x, y)
		case 2:
			Swap(x, y)
		case 3:
			Copy(x, y)
		case 4:
			Axpy(alpha, x, y)
		case 5:
			Nrm2(x)
		case 6:
			Asum(x)
		case 7:
			Iamax(x)
		case 8:
			Scal(alpha, x)
		default:
			Dscal(real(alpha), x)
		}
	})
	verifAssert(panicked && !fault, "Level 1 wrapper: explicit panic for a negative increment / length mismatch")
	if r >= 5 {
		verifAssert(msg == negInc, "Level 1 wrapper: panic message negInc")
	} else {
		verifAssert(msg == badLength, "Level 1 wrapper: panic message badLength")
	}
	verifC01wSameAll(xw, xd, "Level 1 wrapper: x untouched by a panicking call")
	verifC01wSameAll(yw, yd, "Level 1 wrapper: y untouched by a panicking call")
	verifReach("end")
}

// VerifC01_Cblas64General: Gemv, Geru, Gerc, Gemm over General{Rows, Cols, Data, Stride}.
func VerifC01_Cblas64General() {
	impl := gonum.Implementation{}
	maxN := verifParam("wn", 2)
	r := verifChoose("routine", 0, 3)
	m := verifChoose("m", 0, maxN)
	n := verifChoose("n", 0, maxN)
	padA := verifChoose("padA", 0, 1)
	alpha, beta := verifC01wCmplx("alpha"), verifC01wCmplx("beta")
	switch r {
	case 0, 1, 2:
		t := blas.NoTrans
		if r == 0 {
			t = verifC01wTrans("trans")
		}
		incX, incY := verifC01wIncs()
		lda := verifC01wLd(n, padA)
		lenX, lenY := n, m // Gemv NoTrans
		if r != 0 || t != blas.NoTrans {
			lenX, lenY = m, n // Geru, Gerc: x has m, y has n elements
		}
		aw, ad := verifC01wPair("a", verifC01wMlen(m, n, lda, padA))
		xw, xd := verifC01wPair("x", verifC01wVlen(lenX, incX, padA))
		yw, yd := verifC01wPair("y", verifC01wVlen(lenY, incY, padA))
		a := General{Rows: m, Cols: n, Data: aw, Stride: lda}
		x, y := Vector{N: lenX, Data: xw, Inc: incX}, Vector{N: lenY, Data: yw, Inc: incY}
		switch r {
		case 0:
			Gemv(t, alpha, a, x, beta, y)
			impl.Cgemv(t, m, n, alpha, ad, lda, xd, incX, beta, yd, incY)
		case 1:
			Geru(alpha, x, y, a)
			impl.Cgeru(m, n, alpha, xd, incX, yd, incY, ad, lda)
		default:
			Gerc(alpha, x, y, a)
			impl.Cgerc(m, n, alpha, xd, incX, yd, incY, ad, lda)
		}
		verifC01wSameAll(aw, ad, "Gemv/Geru/Gerc: A as after the direct call")
		verifC01wSameAll(xw, xd, "Gemv/Geru/Gerc: x as after the direct call")
		verifC01wSameAll(yw, yd, "Gemv/Geru/Gerc: y as after the direct call")
	default:
		tA, tB := verifC01wTrans("transA"), verifC01wTrans("transB")
		k := verifChoose("k", 0, maxN)
		padB, padC := verifChoose("padB", 0, 1), verifChoose("padC", 0, 1)
		ra, ca := m, k
		if tA != blas.NoTrans {
			ra, ca = k, m
		}
		rb, cb := k, n
		if tB != blas.NoTrans {
			rb, cb = n, k
		}
		lda, ldb, ldc := verifC01wLd(ca, padA), verifC01wLd(cb, padB), verifC01wLd(n, padC)
		aw, ad := verifC01wPair("a", verifC01wMlen(ra, ca, lda, padA))
		bw, bd := verifC01wPair("b", verifC01wMlen(rb, cb, ldb, padB))
		cw, cd := verifC01wPair("c", verifC01wMlen(m, n, ldc, padC))
		Gemm(tA, tB, alpha, General{Rows: ra, Cols: ca, Data: aw, Stride: lda}, General{Rows: rb, Cols: cb, Data: bw, Stride: ldb}, beta, General{Rows: m, Cols: n, Data: cw, Stride: ldc})
		impl.Cgemm(tA, tB, m, n, k, alpha, ad, lda, bd, ldb, beta, cd, ldc)
		verifC01wSameAll(aw, ad, "Gemm: A as after the direct call")
		verifC01wSameAll(bw, bd, "Gemm: B as after the direct call")
		verifC01wSameAll(cw, cd, "Gemm: C as after the direct call")
	}
	verifReach("end")
}

// VerifC01_Cblas64Band: Gbmv over Band{Rows, Cols, KL, KU, Data, Stride}.
func VerifC01_Cblas64Band() {
	impl := gonum.Implementation{}
	maxN := verifParam("wn", 2)
	t := verifC01wTrans("trans")
	m := verifChoose("m", 0, maxN)
	n := verifChoose("n", 0, maxN)
	kL := verifChoose("kL", 0, 1)
	kU := verifChoose("kU", 0, 1)
	pad := verifChoose("pad", 0, 1)
	incX, incY := verifC01wIncs()
	lda := kL + kU + 1 + pad
	rows := m
	if n+kL < rows {
		rows = n + kL
	}
	la := pad
	if m > 0 && n > 0 {
		la = verifC01wBandLen(rows, kL+kU+1, lda, pad)
	}
	lenX, lenY := n, m
	if t != blas.NoTrans {
		lenX, lenY = m, n
	}
	aw, ad := verifC01wPair("a", la)
	xw, xd := verifC01wPair("x", verifC01wVlen(lenX, incX, pad))
	yw, yd := verifC01wPair("y", verifC01wVlen(lenY, incY, pad))
	alpha, beta := verifC01wCmplx("alpha"), verifC01wCmplx("beta")
	Gbmv(t, alpha, Band{Rows: m, Cols: n, KL: kL, KU: kU, Data: aw, Stride: lda}, Vector{N: lenX, Data: xw, Inc: incX}, beta, Vector{N: lenY, Data: yw, Inc: incY})
	impl.Cgbmv(t, m, n, kL, kU, alpha, ad, lda, xd, incX, beta, yd, incY)
	verifC01wSameAll(aw, ad, "Gbmv: A as after the direct call")
	verifC01wSameAll(xw, xd, "Gbmv: x as after the direct call")
	verifC01wSameAll(yw, yd, "Gbmv: y as after the direct call")
	verifReach("end")
}

// VerifC01_Cblas64Triangular: Trmv, Trsv (routine 0, 1), Tbmv, Tbsv (2, 3), Tpmv, Tpsv (4, 5) over
// Triangular / TriangularBand / TriangularPacked, and Trmm, Trsm (6, 7) over Triangular + General.
func VerifC01_Cblas64Triangular() {
	impl := gonum.Implementation{}
	maxN := verifParam("wn", 2)
	r := verifChoose("routine", 0, 7)
	ul := verifC01wUplo("uplo")
	t := verifC01wTrans("trans")
	dg := verifC01wDiag("diag")
	n := verifChoose("n", 0, maxN)
	pad := verifChoose("pad", 0, 1)
	solve := r%2 == 1
	if r >= 6 {
		s := verifC01wSide("side")
		m := verifChoose("m", 0, maxN)
		padB := verifChoose("padB", 0, 1)
		ka := n
		if s == blas.Left {
			ka = m
		}
		lda, ldb := verifC01wLd(ka, pad), verifC01wLd(n, padB)
		aw, ad := verifC01wPair("a", verifC01wMlen(ka, ka, lda, pad))
		bw, bd := verifC01wPair("b", verifC01wMlen(m, n, ldb, padB))
		alpha := verifC01wCmplx("alpha")
		if solve && dg == blas.NonUnit && m > 0 && n > 0 {
			for i := 0; i < ka; i++ {
				verifC01wNonZero(aw[i*lda+i])
			}
		}
		a := Triangular{Uplo: ul, Diag: dg, N: ka, Data: aw, Stride: lda}
		b := General{Rows: m, Cols: n, Data: bw, Stride: ldb}
		if solve {
			Trsm(s, t, alpha, a, b)
			impl.Ctrsm(s, ul, t, dg, m, n, alpha, ad, lda, bd, ldb)
		} else {
			Trmm(s, t, alpha, a, b)
			impl.Ctrmm(s, ul, t, dg, m, n, alpha, ad, lda, bd, ldb)
		}
		verifC01wSameAll(aw, ad, "Trmm/Trsm: A as after the direct call")
		verifC01wSameAll(bw, bd, "Trmm/Trsm: B as after the direct call")
		verifReach("end")
		return
	}
	incX := verifC01wInc("incX")
	xw, xd := verifC01wPair("x", verifC01wVlen(n, incX, pad))
	x := Vector{N: n, Data: xw, Inc: incX}
	var aw, ad []complex64
	switch r / 2 {
	case 0:
		lda := verifC01wLd(n, pad)
		aw, ad = verifC01wPair("a", verifC01wMlen(n, n, lda, pad))
		if solve && dg == blas.NonUnit {
			for i := 0; i < n; i++ {
				verifC01wNonZero(aw[i*lda+i])
			}
		}
		a := Triangular{Uplo: ul, Diag: dg, N: n, Data: aw, Stride: lda}
		if solve {
			Trsv(t, a, x)
			impl.Ctrsv(ul, t, dg, n, ad, lda, xd, incX)
		} else {
			Trmv(t, a, x)
			impl.Ctrmv(ul, t, dg, n, ad, lda, xd, incX)
		}
	case 1:
		k := verifChoose("k", 0, 1)
		lda := k + 1 + pad
		aw, ad = verifC01wPair("a", verifC01wBandLen(n, k+1, lda, pad))
		if solve && dg == blas.NonUnit {
			for i := 0; i < n; i++ {
				if ul == blas.Upper {
					verifC01wNonZero(aw[i*lda])
				} else {
					verifC01wNonZero(aw[i*lda+k])
				}
			}
		}
		a := TriangularBand{Uplo: ul, Diag: dg, N: n, K: k, Data: aw, Stride: lda}
		if solve {
			Tbsv(t, a, x)
			impl.Ctbsv(ul, t, dg, n, k, ad, lda, xd, incX)
		} else {
			Tbmv(t, a, x)
			impl.Ctbmv(ul, t, dg, n, k, ad, lda, xd, incX)
		}
	default:
		aw, ad = verifC01wPair("a", n*(n+1)/2+pad)
		if solve && dg == blas.NonUnit {
			for i, p := 0, 0; i < n; i++ { // packed diagonal positions
				if ul == blas.Upper {
					verifC01wNonZero(aw[p])
					p += n - i
				} else {
					p += i
					verifC01wNonZero(aw[p])
					p++
				}
			}
		}
		a := TriangularPacked{Uplo: ul, Diag: dg, N: n, Data: aw}
		if solve {
			Tpsv(t, a, x)
			impl.Ctpsv(ul, t, dg, n, ad, xd, incX)
		} else {
			Tpmv(t, a, x)
			impl.Ctpmv(ul, t, dg, n, ad, xd, incX)
		}
	}
	verifC01wSameAll(aw, ad, "triangular wrapper: A as after the direct call")
	verifC01wSameAll(xw, xd, "triangular wrapper: x as after the direct call")
	verifReach("end")
}

// VerifC01_Cblas64Hermitian: Hemv, Her, Her2 (routine 0..2) over Hermitian, Hbmv (3) over HermitianBand,
// Hpmv, Hpr, Hpr2 (4..6) over HermitianPacked.
func VerifC01_Cblas64Hermitian() {
	impl := gonum.Implementation{}
	r := verifChoose("routine", 0, 6)
	ul := verifC01wUplo("uplo")
	n := verifChoose("n", 0, verifParam("wn", 2)+1)
	pad := verifChoose("pad", 0, 1)
	incX, incY := verifC01wIncs()
	xw, xd := verifC01wPair("x", verifC01wVlen(n, incX, pad))
	yw, yd := verifC01wPair("y", verifC01wVlen(n, incY, pad))
	x, y := Vector{N: n, Data: xw, Inc: incX}, Vector{N: n, Data: yw, Inc: incY}
	alpha, beta := verifC01wCmplx("alpha"), verifC01wCmplx("beta")
	var aw, ad []complex64
	switch {
	case r <= 2:
		lda := verifC01wLd(n, pad)
		aw, ad = verifC01wPair("a", verifC01wMlen(n, n, lda, pad))
		a := Hermitian{Uplo: ul, N: n, Data: aw, Stride: lda}
		switch r {
		case 0:
			Hemv(alpha, a, x, beta, y)
			impl.Chemv(ul, n, alpha, ad, lda, xd, incX, beta, yd, incY)
		case 1:
			Her(real(alpha), x, a)
			impl.Cher(ul, n, real(alpha), xd, incX, ad, lda)
		default:
			Her2(alpha, x, y, a)
			impl.Cher2(ul, n, alpha, xd, incX, yd, incY, ad, lda)
		}
	case r == 3:
		k := verifChoose("k", 0, 1)
		lda := k + 1 + pad
		aw, ad = verifC01wPair("a", verifC01wBandLen(n, k+1, lda, pad))
		Hbmv(alpha, HermitianBand{Uplo: ul, N: n, K: k, Data: aw, Stride: lda}, x, beta, y)
		impl.Chbmv(ul, n, k, alpha, ad, lda, xd, incX, beta, yd, incY)
	default:
		aw, ad = verifC01wPair("a", n*(n+1)/2+pad)
		a := HermitianPacked{Uplo: ul, N: n, Data: aw}
		switch r {
		case 4:
			Hpmv(alpha, a, x, beta, y)
			impl.Chpmv(ul, n, alpha, ad, xd, incX, beta, yd, incY)
		case 5:
			Hpr(real(alpha), x, a)
			impl.Chpr(ul, n, real(alpha), xd, incX, ad)
		default:
			Hpr2(alpha, x, y, a)
			impl.Chpr2(ul, n, alpha, xd, incX, yd, incY, ad)
		}
	}
	verifC01wSameAll(aw, ad, "Hermitian wrapper: A as after the direct call")
	verifC01wSameAll(xw, xd, "Hermitian wrapper: x as after the direct call")
	verifC01wSameAll(yw, yd, "Hermitian wrapper: y as after the direct call")
	verifReach("end")
}

// VerifC01_Cblas64Level3: Symm, Syrk, Syr2k (routine 0..2) over Symmetric + General and
// Hemm, Herk, Her2k (3..5) over Hermitian + General.
func VerifC01_Cblas64Level3() {
	impl := gonum.Implementation{}
	maxN := verifParam("wn", 2)
	r := verifChoose("routine", 0, 5)
	herm := r >= 3
	ul := verifC01wUplo("uplo")
	n := verifChoose("n", 0, maxN)
	mk := verifChoose("mk", 0, maxN) // m (Symm, Hemm) or k (rank-k updates)
	padA, padB, padC := verifChoose("padA", 0, 1), verifChoose("padB", 0, 1), verifChoose("padC", 0, 1)
	alpha, beta := verifC01wCmplx("alpha"), verifC01wCmplx("beta")
	if r%3 == 0 {
		s := verifC01wSide("side")
		m := mk
		ka := n
		if s == blas.Left {
			ka = m
		}
		lda, ldb, ldc := verifC01wLd(ka, padA), verifC01wLd(n, padB), verifC01wLd(n, padC)
		aw, ad := verifC01wPair("a", verifC01wMlen(ka, ka, lda, padA))
		bw, bd := verifC01wPair("b", verifC01wMlen(m, n, ldb, padB))
		cw, cd := verifC01wPair("c", verifC01wMlen(m, n, ldc, padC))
		b := General{Rows: m, Cols: n, Data: bw, Stride: ldb}
		c := General{Rows: m, Cols: n, Data: cw, Stride: ldc}
		if herm {
			Hemm(s, alpha, Hermitian{Uplo: ul, N: ka, Data: aw, Stride: lda}, b, beta, c)
			impl.Chemm(s, ul, m, n, alpha, ad, lda, bd, ldb, beta, cd, ldc)
		} else {
			Symm(s, alpha, Symmetric{Uplo: ul, N: ka, Data: aw, Stride: lda}, b, beta, c)
			impl.Csymm(s, ul, m, n, alpha, ad, lda, bd, ldb, beta, cd, ldc)
		}
		verifC01wSameAll(aw, ad, "Symm/Hemm: A as after the direct call")
		verifC01wSameAll(bw, bd, "Symm/Hemm: B as after the direct call")
		verifC01wSameAll(cw, cd, "Symm/Hemm: C as after the direct call")
		verifReach("end")
		return
	}
	k := mk
	t := blas.NoTrans
	if verifChoose("trans", 0, 1) == 1 {
		t = blas.Trans
		if herm {
			t = blas.ConjTrans
		}
	}
	ra, ca := n, k
	if t != blas.NoTrans {
		ra, ca = k, n
	}
	lda, ldb, ldc := verifC01wLd(ca, padA), verifC01wLd(ca, padB), verifC01wLd(n, padC)
	aw, ad := verifC01wPair("a", verifC01wMlen(ra, ca, lda, padA))
	bw, bd := verifC01wPair("b", verifC01wMlen(ra, ca, ldb, padB))
	cw, cd := verifC01wPair("c", verifC01wMlen(n, n, ldc, padC))
	a := General{Rows: ra, Cols: ca, Data: aw, Stride: lda}
	b := General{Rows: ra, Cols: ca, Data: bw, Stride: ldb}
	switch r {
	case 1:
		Syrk(t, alpha, a, beta, Symmetric{Uplo: ul, N: n, Data: cw, Stride: ldc})
		impl.Csyrk(ul, t, n, k, alpha, ad, lda, beta, cd, ldc)
	case 2:
		Syr2k(t, alpha, a, b, beta, Symmetric{Uplo: ul, N: n, Data: cw, Stride: ldc})
		impl.Csyr2k(ul, t, n, k, alpha, ad, lda, bd, ldb, beta, cd, ldc)
	case 4:
		Herk(t, real(alpha), a, real(beta), Hermitian{Uplo: ul, N: n, Data: cw, Stride: ldc})
		impl.Cherk(ul, t, n, k, real(alpha), ad, lda, real(beta), cd, ldc)
	default:
		Her2k(t, alpha, a, b, real(beta), Hermitian{Uplo: ul, N: n, Data: cw, Stride: ldc})
		impl.Cher2k(ul, t, n, k, alpha, ad, lda, bd, ldb, real(beta), cd, ldc)
	}
	verifC01wSameAll(aw, ad, "rank-k wrapper: A as after the direct call")
	verifC01wSameAll(bw, bd, "rank-k wrapper: B as after the direct call")
	verifC01wSameAll(cw, cd, "rank-k wrapper: C as after the direct call")
	verifReach("end")
}
