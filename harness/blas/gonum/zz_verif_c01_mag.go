package gonum

import "math"

// C01, extreme magnitudes: the reference 2-norm routines are the scaled
// algorithm, so Nrm2(s*x) = s*Nrm2(x) for exact power-of-two factors whose
// squares over/underflow (double: 2^±500.., single: 2^±100..), all four
// precisions, increments 1 and 2, concrete data.
func VerifC01_Nrm2Magnitude() {
	impl := Implementation{}
	n := verifChoose("n", 1, verifParam("magn", 4))
	sc := verifChoose("scale", 0, 3)
	inc := verifChoose("inc", 1, 2)
	rot := verifChoose("rot", 0, n-1)
	sd := []float64{math.Ldexp(1, 500), math.Ldexp(1, -500), math.Ldexp(1, 520), math.Ldexp(1, -530)}[sc]
	ss := float32([]float64{math.Ldexp(1, 100), math.Ldexp(1, -100), math.Ldexp(1, 110), math.Ldexp(1, -90)}[sc])
	xd, sxd := make([]float64, n*inc), make([]float64, n*inc)
	xs, sxs := make([]float32, n*inc), make([]float32, n*inc)
	xz, sxz := make([]complex128, n*inc), make([]complex128, n*inc)
	xc, sxc := make([]complex64, n*inc), make([]complex64, n*inc)
	var sum, csum float64
	for i := 0; i < n; i++ {
		k := (i + rot) % n
		re, im := float64(3+2*k)*(1-2*float64(k%2)), float64(1-k)
		xd[i*inc], sxd[i*inc] = re, sd*re
		xs[i*inc], sxs[i*inc] = float32(re), ss*float32(re)
		xz[i*inc], sxz[i*inc] = complex(re, im), complex(sd*re, sd*im)
		xc[i*inc], sxc[i*inc] = complex(float32(re), float32(im)), complex(ss*float32(re), ss*float32(im))
		sum += re * re
		csum += re*re + im*im
	}
	closeD := func(got, want float64) bool { return math.Abs(got-want) <= 1e-12*want }
	closeS := func(got, want float32) bool {
		return math.Abs(float64(got)-float64(want)) <= 1e-5*float64(want) && !math.IsInf(float64(got), 0)
	}
	verifAssert(closeD(impl.Dnrm2(n, xd, inc), math.Sqrt(sum)), "Dnrm2 = sqrt(sum x_i^2)")
	verifAssert(closeD(impl.Dnrm2(n, sxd, inc), sd*impl.Dnrm2(n, xd, inc)), "Dnrm2(s*x) = s*Dnrm2(x)")
	verifAssert(closeS(impl.Snrm2(n, xs, inc), float32(math.Sqrt(sum))), "Snrm2 = sqrt(sum x_i^2)")
	verifAssert(closeS(impl.Snrm2(n, sxs, inc), ss*impl.Snrm2(n, xs, inc)), "Snrm2(s*x) = s*Snrm2(x)")
	verifAssert(closeD(impl.Dznrm2(n, xz, inc), math.Sqrt(csum)), "Dznrm2 = sqrt(sum |x_i|^2)")
	verifAssert(closeD(impl.Dznrm2(n, sxz, inc), sd*impl.Dznrm2(n, xz, inc)), "Dznrm2(s*x) = s*Dznrm2(x)")
	verifAssert(closeS(impl.Scnrm2(n, xc, inc), float32(math.Sqrt(csum))), "Scnrm2 = sqrt(sum |x_i|^2)")
	verifAssert(closeS(impl.Scnrm2(n, sxc, inc), ss*impl.Scnrm2(n, xc, inc)), "Scnrm2(s*x) = s*Scnrm2(x)")
	verifReach("end")
}

// VerifC01_RotgMagnitude: Drotg/Srotg on a grid of concrete arguments: the
// defining identities (c*a + s*b = r, -s*a + c*b = 0, c^2 + s^2 = 1) and
// homogeneity under exact power-of-two factors whose squares over/underflow
// (c, s and z unchanged, r scaled).
func VerifC01_RotgMagnitude() {
	impl := Implementation{}
	vals := []float64{3, -2, 0.5, 0, -7, 1}
	a := vals[verifChoose("a", 0, len(vals)-1)]
	b := vals[verifChoose("b", 0, len(vals)-1)]
	sc := verifChoose("scale", 0, 3)
	sd := []float64{math.Ldexp(1, 500), math.Ldexp(1, -500), math.Ldexp(1, 510), math.Ldexp(1, -505)}[sc]
	ss := float32([]float64{math.Ldexp(1, 100), math.Ldexp(1, -100), math.Ldexp(1, 110), math.Ldexp(1, -90)}[sc])
	c, s, r, z := impl.Drotg(a, b)
	verifAssert(math.Abs(c*a+s*b-r) <= 1e-12 && math.Abs(-s*a+c*b) <= 1e-12 && (math.Abs(c*c+s*s-1) <= 1e-12 || (a == 0 && b == 0)), "Drotg: [c s; -s c]*[a; b] = [r; 0]")
	c2, s2, r2, z2 := impl.Drotg(sd*a, sd*b)
	verifAssert(math.Abs(c2-c) <= 1e-12 && math.Abs(s2-s) <= 1e-12 && math.Abs(z2-z) <= 1e-12 && math.Abs(r2-sd*r) <= 1e-12*sd*math.Abs(r) && !math.IsNaN(r2), "Drotg(s*a, s*b) = (c, s, s*r, z)")
	cf, sf, rf, zf := impl.Srotg(float32(a), float32(b))
	c3, s3, r3, z3 := impl.Srotg(ss*float32(a), ss*float32(b))
	cl := func(x, y float32) bool { return math.Abs(float64(x)-float64(y)) <= 1e-5 }
	verifAssert(cl(c3, cf) && cl(s3, sf) && cl(z3, zf) && math.Abs(float64(r3)-float64(ss)*float64(rf)) <= 1e-5*float64(ss)*math.Abs(float64(rf)) && !math.IsInf(float64(r3), 0), "Srotg(s*a, s*b) = (c, s, s*r, z)")
	verifReach("end")
}
