// Code generated from zz_verif_c07_blas.go by gen_c07s.py (see notes/C07.md); DO NOT EDIT.

package gonum

import "gonum.org/v1/gonum/blas"

// Helpers of the C07 (argument contract) harnesses, prefix verifC07.

const verifC07capS = 14 // cells per operand backing

func verifC07absIS(x int) int { return verifIteInt(x < 0, -x, x) }

func verifC07maxIS(a, b int) int { return verifIteInt(a > b, a, b) }
func verifC07minIS(a, b int) int { return verifIteInt(a < b, a, b) }

// verifC07sliceS: a backing of verifC07capS symbolic cells and a view with symbolic length.
func verifC07sliceS(name string) (backing, view []float32) {
	backing = verifFloat32s(name, verifC07capS)
	view = verifSetLen(backing, verifInt("len_"+name, 0, verifC07capS))
	return backing, view
}

// verifC07dimS: a dimension in [-1, maxdim]; case split (dimsym=0, default) or symbolic (dimsym=1).
func verifC07dimS(name string) int {
	hi := verifParam("maxdim", 3)
	if verifParam("dimsym", 0) == 1 {
		return verifInt(name, -1, hi)
	}
	return verifChoose(name, -1, hi)
}

// verifC07vecOKS: a vector of n elements with increment inc fits in l cells
// (BLAS: 1+(n-1)*|inc| cells; nothing is required for n <= 0).
func verifC07vecOKS(n, inc, l int) bool {
	return verifOr(n <= 0, l >= 1+(n-1)*verifC07absIS(inc))
}

// verifC07matOKS: a rows x cols matrix with stride ld fits in l cells.
func verifC07matOKS(rows, cols, ld, l int) bool {
	return verifOr(rows <= 0, l >= ld*(rows-1)+cols)
}

func verifC07transOKS(t blas.Transpose) bool {
	return verifOr(t == blas.NoTrans, verifOr(t == blas.Trans, t == blas.ConjTrans))
}
func verifC07uploOKS(u blas.Uplo) bool { return verifOr(u == blas.Upper, u == blas.Lower) }
func verifC07diagOKS(d blas.Diag) bool { return verifOr(d == blas.NonUnit, d == blas.Unit) }
func verifC07sideOKS(s blas.Side) bool { return verifOr(s == blas.Left, s == blas.Right) }

func verifC07andS(c ...bool) bool {
	r := true
	for _, v := range c {
		r = verifAnd(r, v)
	}
	return r
}

// verifC07verdict2S: the obligations of C07 for one call.
//
//	accept  => normal return (no panic of either kind)
//	reject  => explicit panic, never a normal return
//	always  => no runtime fault; on a panic every operand cell is identical to its value before the call
//
// accept and reject are disjoint; tuples in neither class (documented ambiguities, see notes/C07.md)
// only get the "always" obligations.
func verifC07verdict2S(name string, accept, reject, panicked, fault bool, msg string, now, before [][]float32) {
	verifAssert(verifNot(verifAnd(accept, reject)), name+": harness sanity: accept and reject classes are disjoint")
	verifAssert(verifNot(fault), name+": no runtime fault for any argument tuple")
	verifAssert(verifImplies(accept, verifNot(panicked)), name+": contract-valid arguments are accepted")
	verifAssert(verifImplies(reject, panicked), name+": contract-invalid arguments panic")
	if panicked {
		if !fault {
			verifAssert(len(msg) > 6 && msg[:6] == "blas: ", name+": the panic carries the package's own \"blas: ...\" message")
		}
		for k := range now {
			for i := range now[k] {
				verifAssert(verifC01sameF32(now[k][i], before[k][i]), name+": no operand cell written before the panic")
			}
		}
		verifReach("panic")
	} else {
		verifReach("return")
	}
}

func verifC07verdictS(name string, valid, panicked, fault bool, msg string, now, before [][]float32) {
	verifC07verdict2S(name, valid, verifNot(valid), panicked, fault, msg, now, before)
}

// VerifC07_Sgemv: flag, dimension, stride, increment and length contract of Dgemv.
func VerifC07_Sgemv() {
	tA := blas.Transpose(verifByte("tA"))
	m := verifC07dimS("m")
	n := verifC07dimS("n")
	lda := verifInt("lda", 0, 5)
	incX := verifInt("incX", -2, 2)
	incY := verifInt("incY", -2, 2)
	ab, a := verifC07sliceS("a")
	xb, x := verifC07sliceS("x")
	yb, y := verifC07sliceS("y")
	alpha, beta := verifFloat32("alpha"), verifFloat32("beta")
	a0, x0, y0 := verifC01cloneS(ab), verifC01cloneS(xb), verifC01cloneS(yb)
	panicked, fault, msg := verifCatch(func() {
		Implementation{}.Sgemv(tA, m, n, alpha, a, lda, x, incX, beta, y, incY)
	})
	lenX := verifIteInt(tA == blas.NoTrans, n, m)
	lenY := verifIteInt(tA == blas.NoTrans, m, n)
	empty := verifOr(m == 0, n == 0)
	valid := verifC07andS(verifC07transOKS(tA), m >= 0, n >= 0, lda >= verifC07maxIS(1, n), incX != 0, incY != 0,
		verifOr(empty, verifC07andS(verifC07vecOKS(lenX, incX, len(x)), verifC07vecOKS(lenY, incY, len(y)), verifC07matOKS(m, n, lda, len(a)))))
	verifC07verdictS("Sgemv", valid, panicked, fault, msg, [][]float32{ab, xb, yb}, [][]float32{a0, x0, y0})
}

// ---------------- Level 1 ----------------

// two-vector Level 1 contract: n >= 0, non-zero increments, both vectors long enough
func verifC07l1validS(n, incX, incY, lx, ly int) bool {
	return verifC07andS(n >= 0, incX != 0, incY != 0, verifC07vecOKS(n, incX, lx), verifC07vecOKS(n, incY, ly))
}

type verifC07twoS struct {
	n, incX, incY  int
	xb, x, yb, y   []float32
	x0, y0         []float32
	panicked, fail bool
	msg            string
}

func verifC07twoSetupS() *verifC07twoS {
	t := &verifC07twoS{}
	t.n = verifC07dimS("n")
	t.incX = verifInt("incX", -2, 2)
	t.incY = verifInt("incY", -2, 2)
	t.xb, t.x = verifC07sliceS("x")
	t.yb, t.y = verifC07sliceS("y")
	t.x0, t.y0 = verifC01cloneS(t.xb), verifC01cloneS(t.yb)
	return t
}

func (t *verifC07twoS) done(name string) {
	valid := verifC07l1validS(t.n, t.incX, t.incY, len(t.x), len(t.y))
	verifC07verdictS(name, valid, t.panicked, t.fail, t.msg, [][]float32{t.xb, t.yb}, [][]float32{t.x0, t.y0})
}

func VerifC07_Saxpy() {
	t := verifC07twoSetupS()
	alpha := verifFloat32("alpha")
	t.panicked, t.fail, t.msg = verifCatch(func() { Implementation{}.Saxpy(t.n, alpha, t.x, t.incX, t.y, t.incY) })
	t.done("Saxpy")
}

func VerifC07_Sdot() {
	t := verifC07twoSetupS()
	t.panicked, t.fail, t.msg = verifCatch(func() { Implementation{}.Sdot(t.n, t.x, t.incX, t.y, t.incY) })
	t.done("Sdot")
}

func VerifC07_Scopy() {
	t := verifC07twoSetupS()
	t.panicked, t.fail, t.msg = verifCatch(func() { Implementation{}.Scopy(t.n, t.x, t.incX, t.y, t.incY) })
	t.done("Scopy")
}

func VerifC07_Sswap() {
	t := verifC07twoSetupS()
	t.panicked, t.fail, t.msg = verifCatch(func() { Implementation{}.Sswap(t.n, t.x, t.incX, t.y, t.incY) })
	t.done("Sswap")
}

func VerifC07_Srot() {
	t := verifC07twoSetupS()
	c, s := verifFloat32("c"), verifFloat32("s")
	t.panicked, t.fail, t.msg = verifCatch(func() { Implementation{}.Srot(t.n, t.x, t.incX, t.y, t.incY, c, s) })
	t.done("Srot")
}

// VerifC07_Srotm: the four legal flags (the flag is case split).
func VerifC07_Srotm() {
	t := verifC07twoSetupS()
	var p blas.SrotmParams
	p.Flag = blas.Flag(verifChoose("flag", -2, 1))
	copy(p.H[:], verifFloat32s("h", 4))
	t.panicked, t.fail, t.msg = verifCatch(func() { Implementation{}.Srotm(t.n, t.x, t.incX, t.y, t.incY, p) })
	t.done("Srotm")
}

// VerifC07_SrotmFlag: an illegal rotm flag (not one of -2,-1,0,1) with otherwise valid arguments
// is rejected with a panic (errors.go has the message "blas: illegal rotm flag").
func VerifC07_SrotmFlag() {
	n := verifChoose("n", 1, 2)
	x := verifFloat32s("x", 3)
	y := verifFloat32s("y", 3)
	var p blas.SrotmParams
	f := verifInt("flag", -4, 3)
	verifAssume(verifOr(f < -2, f > 1))
	p.Flag = blas.Flag(f)
	copy(p.H[:], verifFloat32s("h", 4))
	panicked, fault, _ := verifCatch(func() { Implementation{}.Srotm(n, x, 1, y, 1, p) })
	verifAssert(verifNot(fault), "Srotm: no runtime fault")
	verifAssert(panicked, "Srotm: illegal flag panics")
	verifReach("end")
}

// single-vector routines: incX < 0 is a documented no-op (result 0 / -1); n < 0 together with
// incX < 0 is left unspecified by the documentation (neither accept nor reject class).
func verifC07oneVerdictS(name string, n, incX int, xb, x, x0 []float32, panicked, fault bool, msg string) {
	accept := verifC07andS(n >= 0, incX != 0, verifOr(incX < 0, verifC07vecOKS(n, incX, len(x))))
	reject := verifOr(incX == 0, verifAnd(incX > 0, verifOr(n < 0, verifNot(verifC07vecOKS(n, incX, len(x))))))
	verifC07verdict2S(name, accept, reject, panicked, fault, msg, [][]float32{xb}, [][]float32{x0})
}

func VerifC07_Sscal() {
	n := verifC07dimS("n")
	incX := verifInt("incX", -2, 2)
	xb, x := verifC07sliceS("x")
	x0 := verifC01cloneS(xb)
	alpha := verifFloat32("alpha")
	panicked, fault, msg := verifCatch(func() { Implementation{}.Sscal(n, alpha, x, incX) })
	verifC07oneVerdictS("Sscal", n, incX, xb, x, x0, panicked, fault, msg)
}

func VerifC07_Sasum() {
	n := verifC07dimS("n")
	incX := verifInt("incX", -2, 2)
	xb, x := verifC07sliceS("x")
	x0 := verifC01cloneS(xb)
	panicked, fault, msg := verifCatch(func() { Implementation{}.Sasum(n, x, incX) })
	verifC07oneVerdictS("Sasum", n, incX, xb, x, x0, panicked, fault, msg)
}

func VerifC07_Snrm2() {
	n := verifC07dimS("n")
	incX := verifInt("incX", -2, 2)
	xb, x := verifC07sliceS("x")
	// values are irrelevant to the argument contract: pin them so that the scaled sum of squares
	// (divisions by running maxima) is concrete
	for i := range xb {
		verifAssume(xb[i] == 1)
	}
	x0 := verifC01cloneS(xb)
	panicked, fault, msg := verifCatch(func() { Implementation{}.Snrm2(n, x, incX) })
	verifC07oneVerdictS("Snrm2", n, incX, xb, x, x0, panicked, fault, msg)
}

func VerifC07_Isamax() {
	n := verifC07dimS("n")
	incX := verifInt("incX", -2, 2)
	xb, x := verifC07sliceS("x")
	x0 := verifC01cloneS(xb)
	panicked, fault, msg := verifCatch(func() { Implementation{}.Isamax(n, x, incX) })
	verifC07oneVerdictS("Isamax", n, incX, xb, x, x0, panicked, fault, msg)
}

// ---------------- Level 2 ----------------

func verifC07nonzeroS(s []float32) {
	for i := range s {
		verifAssume(s[i] != 0)
	}
}

func VerifC07_Sger() {
	m := verifC07dimS("m")
	n := verifC07dimS("n")
	lda := verifInt("lda", 0, 5)
	incX := verifInt("incX", -2, 2)
	incY := verifInt("incY", -2, 2)
	ab, a := verifC07sliceS("a")
	xb, x := verifC07sliceS("x")
	yb, y := verifC07sliceS("y")
	alpha := verifFloat32("alpha")
	a0, x0, y0 := verifC01cloneS(ab), verifC01cloneS(xb), verifC01cloneS(yb)
	panicked, fault, msg := verifCatch(func() { Implementation{}.Sger(m, n, alpha, x, incX, y, incY, a, lda) })
	empty := verifOr(m == 0, n == 0)
	valid := verifC07andS(m >= 0, n >= 0, lda >= verifC07maxIS(1, n), incX != 0, incY != 0,
		verifOr(empty, verifC07andS(verifC07vecOKS(m, incX, len(x)), verifC07vecOKS(n, incY, len(y)), verifC07matOKS(m, n, lda, len(a)))))
	verifC07verdictS("Sger", valid, panicked, fault, msg, [][]float32{ab, xb, yb}, [][]float32{a0, x0, y0})
}

// VerifC07_Sgbmv: band contract lda >= kL+kU+1; accept class: the full band storage of m rows is
// present; reject class: the last addressed band element lies outside a.
func VerifC07_Sgbmv() {
	tA := blas.Transpose(verifByte("tA"))
	hi := verifParam("maxdim", 3)
	m := verifChoose("m", -1, hi)
	n := verifChoose("n", -1, hi)
	kL := verifChoose("kL", -1, verifParam("maxk", 1)+1) // kL != kU must occur
	kU := verifChoose("kU", -1, verifParam("maxk", 1)+1)
	lda := verifInt("lda", 0, 5)
	incX := verifInt("incX", -2, 2)
	incY := verifInt("incY", -2, 2)
	ab, a := verifC07sliceS("a")
	xb, x := verifC07sliceS("x")
	yb, y := verifC07sliceS("y")
	alpha, beta := verifFloat32("alpha"), verifFloat32("beta")
	a0, x0, y0 := verifC01cloneS(ab), verifC01cloneS(xb), verifC01cloneS(yb)
	panicked, fault, msg := verifCatch(func() {
		Implementation{}.Sgbmv(tA, m, n, kL, kU, alpha, a, lda, x, incX, beta, y, incY)
	})
	lenX := verifIteInt(tA == blas.NoTrans, n, m)
	lenY := verifIteInt(tA == blas.NoTrans, m, n)
	empty := verifOr(m == 0, n == 0)
	scalars := verifC07andS(verifC07transOKS(tA), m >= 0, n >= 0, kL >= 0, kU >= 0, lda >= kL+kU+1, incX != 0, incY != 0)
	vecs := verifAnd(verifC07vecOKS(lenX, incX, len(x)), verifC07vecOKS(lenY, incY, len(y)))
	// extent of the addressed band elements (concrete m, n, kL, kU)
	r := m
	if n+kL < r {
		r = n + kL
	}
	r-- // last row holding band elements
	jmax := n - 1
	if r+kU < jmax {
		jmax = r + kU
	}
	extent := r*lda + kL + jmax - r + 1
	accept := verifAnd(scalars, verifOr(empty, verifAnd(vecs, len(a) >= lda*(m-1)+kL+kU+1)))
	reject := verifOr(verifNot(scalars), verifAnd(verifNot(empty), verifOr(verifNot(vecs), len(a) < extent)))
	verifC07verdict2S("Sgbmv", accept, reject, panicked, fault, msg, [][]float32{ab, xb, yb}, [][]float32{a0, x0, y0})
}

// triangular matrix-vector family (dense storage)
func verifC07trvS(name string, call func(ul blas.Uplo, tA blas.Transpose, d blas.Diag, n int, a []float32, lda int, x []float32, incX int)) {
	ul := blas.Uplo(verifByte("ul"))
	tA := blas.Transpose(verifByte("tA"))
	d := blas.Diag(verifByte("d"))
	n := verifC07dimS("n")
	lda := verifInt("lda", 0, 5)
	incX := verifInt("incX", -2, 2)
	ab, a := verifC07sliceS("a")
	xb, x := verifC07sliceS("x")
	verifC07nonzeroS(ab)
	a0, x0 := verifC01cloneS(ab), verifC01cloneS(xb)
	panicked, fault, msg := verifCatch(func() { call(ul, tA, d, n, a, lda, x, incX) })
	valid := verifC07andS(verifC07uploOKS(ul), verifC07transOKS(tA), verifC07diagOKS(d), n >= 0, lda >= verifC07maxIS(1, n), incX != 0,
		verifOr(n == 0, verifAnd(verifC07vecOKS(n, incX, len(x)), verifC07matOKS(n, n, lda, len(a)))))
	verifC07verdictS(name, valid, panicked, fault, msg, [][]float32{ab, xb}, [][]float32{a0, x0})
}

func VerifC07_Strmv() { verifC07trvS("Strmv", Implementation{}.Strmv) }
func VerifC07_Strsv() { verifC07trvS("Strsv", Implementation{}.Strsv) }

// triangular packed family: len(ap) >= n*(n+1)/2
func verifC07tpvS(name string, call func(ul blas.Uplo, tA blas.Transpose, d blas.Diag, n int, ap []float32, x []float32, incX int)) {
	ul := blas.Uplo(verifByte("ul"))
	tA := blas.Transpose(verifByte("tA"))
	d := blas.Diag(verifByte("d"))
	n := verifC07dimS("n")
	incX := verifInt("incX", -2, 2)
	ab, a := verifC07sliceS("ap")
	xb, x := verifC07sliceS("x")
	verifC07nonzeroS(ab)
	a0, x0 := verifC01cloneS(ab), verifC01cloneS(xb)
	panicked, fault, msg := verifCatch(func() { call(ul, tA, d, n, a, x, incX) })
	valid := verifC07andS(verifC07uploOKS(ul), verifC07transOKS(tA), verifC07diagOKS(d), n >= 0, incX != 0,
		verifOr(n == 0, verifAnd(verifC07vecOKS(n, incX, len(x)), len(a) >= n*(n+1)/2)))
	verifC07verdictS(name, valid, panicked, fault, msg, [][]float32{ab, xb}, [][]float32{a0, x0})
}

func VerifC07_Stpmv() { verifC07tpvS("Stpmv", Implementation{}.Stpmv) }
func VerifC07_Stpsv() { verifC07tpvS("Stpsv", Implementation{}.Stpsv) }

// band extents of a triangular / symmetric band matrix (n > 0, k >= 0 concrete)
func verifC07bandAcceptRejectS(ul blas.Uplo, n, k, lda, la int) (storageOK, addressedOK bool) {
	storageOK = la >= lda*(n-1)+k+1
	// Upper: the last row holds only the diagonal element at column 0 of the band row;
	// Lower: the diagonal is at column k.
	addressedOK = verifIteInt(ul == blas.Upper, lda*(n-1)+1, lda*(n-1)+k+1) <= la
	return storageOK, addressedOK
}

// triangular band family: lda >= k+1
func verifC07tbvS(name string, call func(ul blas.Uplo, tA blas.Transpose, d blas.Diag, n, k int, a []float32, lda int, x []float32, incX int)) {
	ul := blas.Uplo(verifByte("ul"))
	tA := blas.Transpose(verifByte("tA"))
	d := blas.Diag(verifByte("d"))
	n := verifC07dimS("n")
	k := verifChoose("k", -1, verifParam("maxk", 1)+1)
	lda := verifInt("lda", 0, 5)
	incX := verifInt("incX", -2, 2)
	ab, a := verifC07sliceS("a")
	xb, x := verifC07sliceS("x")
	verifC07nonzeroS(ab)
	a0, x0 := verifC01cloneS(ab), verifC01cloneS(xb)
	panicked, fault, msg := verifCatch(func() { call(ul, tA, d, n, k, a, lda, x, incX) })
	scalars := verifC07andS(verifC07uploOKS(ul), verifC07transOKS(tA), verifC07diagOKS(d), n >= 0, k >= 0, lda >= k+1, incX != 0)
	storageOK, addressedOK := verifC07bandAcceptRejectS(ul, n, k, lda, len(a))
	vec := verifC07vecOKS(n, incX, len(x))
	accept := verifAnd(scalars, verifOr(n == 0, verifAnd(vec, storageOK)))
	reject := verifOr(verifNot(scalars), verifAnd(n != 0, verifOr(verifNot(vec), verifNot(addressedOK))))
	verifC07verdict2S(name, accept, reject, panicked, fault, msg, [][]float32{ab, xb}, [][]float32{a0, x0})
}

func VerifC07_Stbmv() { verifC07tbvS("Stbmv", Implementation{}.Stbmv) }
func VerifC07_Stbsv() { verifC07tbvS("Stbsv", Implementation{}.Stbsv) }

func VerifC07_Ssymv() {
	ul := blas.Uplo(verifByte("ul"))
	n := verifC07dimS("n")
	lda := verifInt("lda", 0, 5)
	incX := verifInt("incX", -2, 2)
	incY := verifInt("incY", -2, 2)
	ab, a := verifC07sliceS("a")
	xb, x := verifC07sliceS("x")
	yb, y := verifC07sliceS("y")
	alpha, beta := verifFloat32("alpha"), verifFloat32("beta")
	a0, x0, y0 := verifC01cloneS(ab), verifC01cloneS(xb), verifC01cloneS(yb)
	panicked, fault, msg := verifCatch(func() { Implementation{}.Ssymv(ul, n, alpha, a, lda, x, incX, beta, y, incY) })
	valid := verifC07andS(verifC07uploOKS(ul), n >= 0, lda >= verifC07maxIS(1, n), incX != 0, incY != 0,
		verifOr(n == 0, verifC07andS(verifC07vecOKS(n, incX, len(x)), verifC07vecOKS(n, incY, len(y)), verifC07matOKS(n, n, lda, len(a)))))
	verifC07verdictS("Ssymv", valid, panicked, fault, msg, [][]float32{ab, xb, yb}, [][]float32{a0, x0, y0})
}

func VerifC07_Ssbmv() {
	ul := blas.Uplo(verifByte("ul"))
	n := verifC07dimS("n")
	k := verifChoose("k", -1, verifParam("maxk", 1)+1)
	lda := verifInt("lda", 0, 5)
	incX := verifInt("incX", -2, 2)
	incY := verifInt("incY", -2, 2)
	ab, a := verifC07sliceS("a")
	xb, x := verifC07sliceS("x")
	yb, y := verifC07sliceS("y")
	alpha, beta := verifFloat32("alpha"), verifFloat32("beta")
	a0, x0, y0 := verifC01cloneS(ab), verifC01cloneS(xb), verifC01cloneS(yb)
	panicked, fault, msg := verifCatch(func() { Implementation{}.Ssbmv(ul, n, k, alpha, a, lda, x, incX, beta, y, incY) })
	scalars := verifC07andS(verifC07uploOKS(ul), n >= 0, k >= 0, lda >= k+1, incX != 0, incY != 0)
	storageOK, addressedOK := verifC07bandAcceptRejectS(ul, n, k, lda, len(a))
	vecs := verifAnd(verifC07vecOKS(n, incX, len(x)), verifC07vecOKS(n, incY, len(y)))
	accept := verifAnd(scalars, verifOr(n == 0, verifAnd(vecs, storageOK)))
	reject := verifOr(verifNot(scalars), verifAnd(n != 0, verifOr(verifNot(vecs), verifNot(addressedOK))))
	verifC07verdict2S("Ssbmv", accept, reject, panicked, fault, msg, [][]float32{ab, xb, yb}, [][]float32{a0, x0, y0})
}

func VerifC07_Sspmv() {
	ul := blas.Uplo(verifByte("ul"))
	n := verifC07dimS("n")
	incX := verifInt("incX", -2, 2)
	incY := verifInt("incY", -2, 2)
	ab, a := verifC07sliceS("ap")
	xb, x := verifC07sliceS("x")
	yb, y := verifC07sliceS("y")
	alpha, beta := verifFloat32("alpha"), verifFloat32("beta")
	a0, x0, y0 := verifC01cloneS(ab), verifC01cloneS(xb), verifC01cloneS(yb)
	panicked, fault, msg := verifCatch(func() { Implementation{}.Sspmv(ul, n, alpha, a, x, incX, beta, y, incY) })
	valid := verifC07andS(verifC07uploOKS(ul), n >= 0, incX != 0, incY != 0,
		verifOr(n == 0, verifC07andS(verifC07vecOKS(n, incX, len(x)), verifC07vecOKS(n, incY, len(y)), len(a) >= n*(n+1)/2)))
	verifC07verdictS("Sspmv", valid, panicked, fault, msg, [][]float32{ab, xb, yb}, [][]float32{a0, x0, y0})
}

func VerifC07_Ssyr() {
	ul := blas.Uplo(verifByte("ul"))
	n := verifC07dimS("n")
	lda := verifInt("lda", 0, 5)
	incX := verifInt("incX", -2, 2)
	ab, a := verifC07sliceS("a")
	xb, x := verifC07sliceS("x")
	alpha := verifFloat32("alpha")
	a0, x0 := verifC01cloneS(ab), verifC01cloneS(xb)
	panicked, fault, msg := verifCatch(func() { Implementation{}.Ssyr(ul, n, alpha, x, incX, a, lda) })
	valid := verifC07andS(verifC07uploOKS(ul), n >= 0, lda >= verifC07maxIS(1, n), incX != 0,
		verifOr(n == 0, verifAnd(verifC07vecOKS(n, incX, len(x)), verifC07matOKS(n, n, lda, len(a)))))
	verifC07verdictS("Ssyr", valid, panicked, fault, msg, [][]float32{ab, xb}, [][]float32{a0, x0})
}

func VerifC07_Ssyr2() {
	ul := blas.Uplo(verifByte("ul"))
	n := verifC07dimS("n")
	lda := verifInt("lda", 0, 5)
	incX := verifInt("incX", -2, 2)
	incY := verifInt("incY", -2, 2)
	ab, a := verifC07sliceS("a")
	xb, x := verifC07sliceS("x")
	yb, y := verifC07sliceS("y")
	alpha := verifFloat32("alpha")
	a0, x0, y0 := verifC01cloneS(ab), verifC01cloneS(xb), verifC01cloneS(yb)
	panicked, fault, msg := verifCatch(func() { Implementation{}.Ssyr2(ul, n, alpha, x, incX, y, incY, a, lda) })
	valid := verifC07andS(verifC07uploOKS(ul), n >= 0, lda >= verifC07maxIS(1, n), incX != 0, incY != 0,
		verifOr(n == 0, verifC07andS(verifC07vecOKS(n, incX, len(x)), verifC07vecOKS(n, incY, len(y)), verifC07matOKS(n, n, lda, len(a)))))
	verifC07verdictS("Ssyr2", valid, panicked, fault, msg, [][]float32{ab, xb, yb}, [][]float32{a0, x0, y0})
}

func VerifC07_Sspr() {
	ul := blas.Uplo(verifByte("ul"))
	n := verifC07dimS("n")
	incX := verifInt("incX", -2, 2)
	ab, a := verifC07sliceS("ap")
	xb, x := verifC07sliceS("x")
	alpha := verifFloat32("alpha")
	a0, x0 := verifC01cloneS(ab), verifC01cloneS(xb)
	panicked, fault, msg := verifCatch(func() { Implementation{}.Sspr(ul, n, alpha, x, incX, a) })
	valid := verifC07andS(verifC07uploOKS(ul), n >= 0, incX != 0,
		verifOr(n == 0, verifAnd(verifC07vecOKS(n, incX, len(x)), len(a) >= n*(n+1)/2)))
	verifC07verdictS("Sspr", valid, panicked, fault, msg, [][]float32{ab, xb}, [][]float32{a0, x0})
}

func VerifC07_Sspr2() {
	ul := blas.Uplo(verifByte("ul"))
	n := verifC07dimS("n")
	incX := verifInt("incX", -2, 2)
	incY := verifInt("incY", -2, 2)
	ab, a := verifC07sliceS("ap")
	xb, x := verifC07sliceS("x")
	yb, y := verifC07sliceS("y")
	alpha := verifFloat32("alpha")
	a0, x0, y0 := verifC01cloneS(ab), verifC01cloneS(xb), verifC01cloneS(yb)
	panicked, fault, msg := verifCatch(func() { Implementation{}.Sspr2(ul, n, alpha, x, incX, y, incY, a) })
	valid := verifC07andS(verifC07uploOKS(ul), n >= 0, incX != 0, incY != 0,
		verifOr(n == 0, verifC07andS(verifC07vecOKS(n, incX, len(x)), verifC07vecOKS(n, incY, len(y)), len(a) >= n*(n+1)/2)))
	verifC07verdictS("Sspr2", valid, panicked, fault, msg, [][]float32{ab, xb, yb}, [][]float32{a0, x0, y0})
}

// ---------------- Level 3 ----------------

// verifC07scalS: symbolic alpha and beta. The Level 3 harnesses assume non-zero matrix cells so that
// the "tmp != 0" guards of the kernels do not double the path count (values are irrelevant for
// the argument contract; the alpha == 0, beta == 0 and beta == 1 branches are still explored).
func verifC07scalS() (alpha, beta float32) {
	return verifFloat32("alpha"), verifFloat32("beta")
}

func verifC07dim3S(name string) int {
	hi := verifParam("maxdim3", 2)
	if verifParam("dimsym", 0) == 1 {
		return verifInt(name, -1, hi)
	}
	return verifChoose(name, -1, hi)
}

// verifC07matAddrOKS: every addressed element of a rows x cols matrix lies inside l cells
// (nothing is addressed when a dimension is zero).
func verifC07matAddrOKS(rows, cols, ld, l int) bool {
	return verifOr(verifOr(rows <= 0, cols <= 0), l >= ld*(rows-1)+cols)
}

func VerifC07_Sgemm() {
	tA := blas.Transpose(verifByte("tA"))
	tB := blas.Transpose(verifByte("tB"))
	m, n, k := verifC07dim3S("m"), verifC07dim3S("n"), verifC07dim3S("k")
	lda, ldb, ldc := verifInt("lda", 0, 4), verifInt("ldb", 0, 4), verifInt("ldc", 0, 4)
	ab, a := verifC07sliceS("a")
	bb, b := verifC07sliceS("b")
	cb, c := verifC07sliceS("c")
	verifC07nonzeroS(ab)
	verifC07nonzeroS(bb)
	alpha, beta := verifC07scalS()
	a0, b0, c0 := verifC01cloneS(ab), verifC01cloneS(bb), verifC01cloneS(cb)
	panicked, fault, msg := verifCatch(func() {
		Implementation{}.Sgemm(tA, tB, m, n, k, alpha, a, lda, b, ldb, beta, c, ldc)
	})
	rowsA, colsA := verifIteInt(tA == blas.NoTrans, m, k), verifIteInt(tA == blas.NoTrans, k, m)
	rowsB, colsB := verifIteInt(tB == blas.NoTrans, k, n), verifIteInt(tB == blas.NoTrans, n, k)
	scalars := verifC07andS(verifC07transOKS(tA), verifC07transOKS(tB), m >= 0, n >= 0, k >= 0,
		lda >= verifC07maxIS(1, colsA), ldb >= verifC07maxIS(1, colsB), ldc >= verifC07maxIS(1, n))
	empty := verifOr(m == 0, n == 0)
	storage := verifC07andS(verifC07matOKS(rowsA, colsA, lda, len(a)), verifC07matOKS(rowsB, colsB, ldb, len(b)), verifC07matOKS(m, n, ldc, len(c)))
	addressed := verifC07andS(verifC07matAddrOKS(rowsA, colsA, lda, len(a)), verifC07matAddrOKS(rowsB, colsB, ldb, len(b)), verifC07matAddrOKS(m, n, ldc, len(c)))
	accept := verifAnd(scalars, verifOr(empty, storage))
	reject := verifOr(verifNot(scalars), verifAnd(verifNot(empty), verifNot(addressed)))
	verifC07verdict2S("Sgemm", accept, reject, panicked, fault, msg, [][]float32{ab, bb, cb}, [][]float32{a0, b0, c0})
}

func verifC07trmS(name string, call func(s blas.Side, ul blas.Uplo, tA blas.Transpose, d blas.Diag, m, n int, alpha float32, a []float32, lda int, b []float32, ldb int)) {
	s := blas.Side(verifByte("s"))
	ul := blas.Uplo(verifByte("ul"))
	tA := blas.Transpose(verifByte("tA"))
	d := blas.Diag(verifByte("d"))
	m, n := verifC07dim3S("m"), verifC07dim3S("n")
	lda, ldb := verifInt("lda", 0, 4), verifInt("ldb", 0, 4)
	ab, a := verifC07sliceS("a")
	bb, b := verifC07sliceS("b")
	verifC07nonzeroS(ab)
	verifC07nonzeroS(bb)
	alpha, _ := verifC07scalS()
	a0, b0 := verifC01cloneS(ab), verifC01cloneS(bb)
	panicked, fault, msg := verifCatch(func() { call(s, ul, tA, d, m, n, alpha, a, lda, b, ldb) })
	ka := verifIteInt(s == blas.Left, m, n)
	scalars := verifC07andS(verifC07sideOKS(s), verifC07uploOKS(ul), verifC07transOKS(tA), verifC07diagOKS(d), m >= 0, n >= 0,
		lda >= verifC07maxIS(1, ka), ldb >= verifC07maxIS(1, n))
	empty := verifOr(m == 0, n == 0)
	valid := verifAnd(scalars, verifOr(empty, verifAnd(verifC07matOKS(ka, ka, lda, len(a)), verifC07matOKS(m, n, ldb, len(b)))))
	verifC07verdictS(name, valid, panicked, fault, msg, [][]float32{ab, bb}, [][]float32{a0, b0})
}

func VerifC07_Strsm() { verifC07trmS("Strsm", Implementation{}.Strsm) }
func VerifC07_Strmm() { verifC07trmS("Strmm", Implementation{}.Strmm) }

func VerifC07_Ssymm() {
	s := blas.Side(verifByte("s"))
	ul := blas.Uplo(verifByte("ul"))
	m, n := verifC07dim3S("m"), verifC07dim3S("n")
	lda, ldb, ldc := verifInt("lda", 0, 4), verifInt("ldb", 0, 4), verifInt("ldc", 0, 4)
	ab, a := verifC07sliceS("a")
	bb, b := verifC07sliceS("b")
	cb, c := verifC07sliceS("c")
	verifC07nonzeroS(ab)
	verifC07nonzeroS(bb)
	alpha, beta := verifC07scalS()
	a0, b0, c0 := verifC01cloneS(ab), verifC01cloneS(bb), verifC01cloneS(cb)
	panicked, fault, msg := verifCatch(func() { Implementation{}.Ssymm(s, ul, m, n, alpha, a, lda, b, ldb, beta, c, ldc) })
	ka := verifIteInt(s == blas.Left, m, n)
	scalars := verifC07andS(verifC07sideOKS(s), verifC07uploOKS(ul), m >= 0, n >= 0,
		lda >= verifC07maxIS(1, ka), ldb >= verifC07maxIS(1, n), ldc >= verifC07maxIS(1, n))
	empty := verifOr(m == 0, n == 0)
	valid := verifAnd(scalars, verifOr(empty, verifC07andS(verifC07matOKS(ka, ka, lda, len(a)), verifC07matOKS(m, n, ldb, len(b)), verifC07matOKS(m, n, ldc, len(c)))))
	verifC07verdictS("Ssymm", valid, panicked, fault, msg, [][]float32{ab, bb, cb}, [][]float32{a0, b0, c0})
}

func VerifC07_Ssyrk() {
	ul := blas.Uplo(verifByte("ul"))
	tA := blas.Transpose(verifByte("tA"))
	n, k := verifC07dim3S("n"), verifC07dim3S("k")
	lda, ldc := verifInt("lda", 0, 4), verifInt("ldc", 0, 4)
	ab, a := verifC07sliceS("a")
	cb, c := verifC07sliceS("c")
	verifC07nonzeroS(ab)
	alpha, beta := verifC07scalS()
	a0, c0 := verifC01cloneS(ab), verifC01cloneS(cb)
	panicked, fault, msg := verifCatch(func() { Implementation{}.Ssyrk(ul, tA, n, k, alpha, a, lda, beta, c, ldc) })
	rowsA, colsA := verifIteInt(tA == blas.NoTrans, n, k), verifIteInt(tA == blas.NoTrans, k, n)
	scalars := verifC07andS(verifC07uploOKS(ul), verifC07transOKS(tA), n >= 0, k >= 0, lda >= verifC07maxIS(1, colsA), ldc >= verifC07maxIS(1, n))
	accept := verifAnd(scalars, verifOr(n == 0, verifAnd(verifC07matOKS(rowsA, colsA, lda, len(a)), verifC07matOKS(n, n, ldc, len(c)))))
	reject := verifOr(verifNot(scalars), verifAnd(n != 0, verifNot(verifAnd(verifC07matAddrOKS(rowsA, colsA, lda, len(a)), verifC07matAddrOKS(n, n, ldc, len(c))))))
	verifC07verdict2S("Ssyrk", accept, reject, panicked, fault, msg, [][]float32{ab, cb}, [][]float32{a0, c0})
}

func VerifC07_Ssyr2k() {
	ul := blas.Uplo(verifByte("ul"))
	tA := blas.Transpose(verifByte("tA"))
	n, k := verifC07dim3S("n"), verifC07dim3S("k")
	lda, ldb, ldc := verifInt("lda", 0, 4), verifInt("ldb", 0, 4), verifInt("ldc", 0, 4)
	ab, a := verifC07sliceS("a")
	bb, b := verifC07sliceS("b")
	cb, c := verifC07sliceS("c")
	verifC07nonzeroS(ab)
	verifC07nonzeroS(bb)
	alpha, beta := verifC07scalS()
	a0, b0, c0 := verifC01cloneS(ab), verifC01cloneS(bb), verifC01cloneS(cb)
	panicked, fault, msg := verifCatch(func() { Implementation{}.Ssyr2k(ul, tA, n, k, alpha, a, lda, b, ldb, beta, c, ldc) })
	rowsA, colsA := verifIteInt(tA == blas.NoTrans, n, k), verifIteInt(tA == blas.NoTrans, k, n)
	scalars := verifC07andS(verifC07uploOKS(ul), verifC07transOKS(tA), n >= 0, k >= 0,
		lda >= verifC07maxIS(1, colsA), ldb >= verifC07maxIS(1, colsA), ldc >= verifC07maxIS(1, n))
	accept := verifAnd(scalars, verifOr(n == 0, verifC07andS(verifC07matOKS(rowsA, colsA, lda, len(a)), verifC07matOKS(rowsA, colsA, ldb, len(b)), verifC07matOKS(n, n, ldc, len(c)))))
	reject := verifOr(verifNot(scalars), verifAnd(n != 0, verifNot(verifC07andS(verifC07matAddrOKS(rowsA, colsA, lda, len(a)), verifC07matAddrOKS(rowsA, colsA, ldb, len(b)), verifC07matAddrOKS(n, n, ldc, len(c))))))
	verifC07verdict2S("Ssyr2k", accept, reject, panicked, fault, msg, [][]float32{ab, bb, cb}, [][]float32{a0, b0, c0})
}
