package gonum

import "gonum.org/v1/gonum/blas"

func verifC01side(name string) blas.Side {
	if verifChoose(name, 0, 1) == 0 {
		return blas.Left
	}
	return blas.Right
}

// backing length of a rows x cols dense matrix with stride ld plus slack
func verifC01mlen(rows, cols, ld, slack int) int {
	if rows == 0 {
		return slack
	}
	// also for cols == 0: gonum requires ld*(rows-1)+cols cells of every operand that
	// is not skipped by a quick return
	return ld*(rows-1) + cols + slack
}

// verifC01pads3: stride padding (0/1) of three matrix operands. Every operand is padded on its own
// at least once so that lda != ldb, lda != ldc and ldb != ldc occur in both orders; with
// -params fullpads=1 all eight combinations are explored.
func verifC01pads3() (a, b, c int) {
	if verifParam("fullpads", 0) == 1 {
		return verifChoose("padA", 0, 1), verifChoose("padB", 0, 1), verifChoose("padC", 0, 1)
	}
	switch verifChoose("pads", 0, 4) {
	case 1:
		return 1, 1, 1
	case 2:
		return 1, 0, 0
	case 3:
		return 0, 1, 0
	case 4:
		return 0, 0, 1
	}
	return 0, 0, 0
}

func verifC01ld(cols, pad int) int {
	ld := cols + pad
	if ld < 1 {
		ld = 1
	}
	return ld
}

// verifC01opMat returns op(A) as a flat r x c matrix where A is stored rows x cols with stride ld
// (r,c = rows,cols for NoTrans; cols,rows otherwise).
func verifC01opMat(t blas.Transpose, a []float64, ld, rows, cols int) (d []float64, r, c int) {
	if t == blas.NoTrans {
		d = make([]float64, rows*cols)
		for i := 0; i < rows; i++ {
			for j := 0; j < cols; j++ {
				d[i*cols+j] = a[i*ld+j]
			}
		}
		return d, rows, cols
	}
	d = make([]float64, rows*cols)
	for i := 0; i < rows; i++ {
		for j := 0; j < cols; j++ {
			d[j*rows+i] = a[i*ld+j]
		}
	}
	return d, cols, rows
}

func verifC01transpose(d []float64, r, c int) []float64 {
	t := make([]float64, r*c)
	for i := 0; i < r; i++ {
		for j := 0; j < c; j++ {
			t[j*r+i] = d[i*c+j]
		}
	}
	return t
}

// naive product of flat matrices: (m x k) * (k x n)
func verifC01mm(m, n, k int, a, b []float64) []float64 {
	c := make([]float64, m*n)
	for i := 0; i < m; i++ {
		for j := 0; j < n; j++ {
			var s float64
			for l := 0; l < k; l++ {
				s += a[i*k+l] * b[l*n+j]
			}
			c[i*n+j] = s
		}
	}
	return c
}

// verifC01checkBlock: cells (i,j), i<m, j<n, selected by sel hold want (flat m x n); all other
// cells of the backing are bit-identical to c0.
func verifC01checkBlock(c, c0 []float64, ldc, m, n int, want []float64, sel func(i, j int) bool, msg string) {
	for p := range c {
		i, j := p/ldc, p%ldc
		if n > 0 && i < m && j < n && sel(i, j) {
			verifAssertEqF(c[p], want[i*n+j], msg+": value on addressed cell")
		} else {
			verifAssert(verifSame(c[p], c0[p]), msg+": unaddressed cell untouched")
		}
	}
}

func verifC01all(i, j int) bool { return true }

// VerifC01_Dgemm: C = alpha*op(A)*op(B) + beta*C for all transpose combinations.
func VerifC01_Dgemm() {
	maxN := verifParam("l3n", 2)
	tA := verifC01trans("transA")
	tB := verifC01trans("transB")
	m := verifChoose("m", 0, maxN)
	n := verifChoose("n", 0, maxN)
	k := verifChoose("k", 0, maxN)
	// every matrix gets its own stride padding so that lda != ldb != ldc occurs; the trailing
	// slack follows the padding of the same operand
	padA, padB, padC := verifC01pads3()
	ra, ca := m, k
	if tA != blas.NoTrans {
		ra, ca = k, m
	}
	rb, cb := k, n
	if tB != blas.NoTrans {
		rb, cb = n, k
	}
	lda, ldb, ldc := verifC01ld(ca, padA), verifC01ld(cb, padB), verifC01ld(n, padC)
	a := verifFloats("a", verifC01mlen(ra, ca, lda, padA))
	b := verifFloats("b", verifC01mlen(rb, cb, ldb, padB))
	c := verifFloats("c", verifC01mlen(m, n, ldc, padC))
	alpha, beta := verifC01alphabeta()
	a0, b0, c0 := verifC01clone(a), verifC01clone(b), verifC01clone(c)
	Implementation{}.Dgemm(tA, tB, m, n, k, alpha, a, lda, b, ldb, beta, c, ldc)
	verifC01same(a, a0, "Dgemm: A unchanged")
	verifC01same(b, b0, "Dgemm: B unchanged")
	var opA, opB []float64
	if m > 0 && n > 0 && k > 0 {
		opA, _, _ = verifC01opMat(tA, a0, lda, ra, ca)
		opB, _, _ = verifC01opMat(tB, b0, ldb, rb, cb)
	}
	ab := verifC01mm(m, n, k, opA, opB)
	want := make([]float64, m*n)
	for i := 0; i < m; i++ {
		for j := 0; j < n; j++ {
			want[i*n+j] = alpha*ab[i*n+j] + beta*c0[i*ldc+j]
		}
	}
	verifC01checkBlock(c, c0, ldc, m, n, want, verifC01all, "Dgemm")
	verifReach("end")
}

// VerifC01_Dsymm: C = alpha*A*B + beta*C (Left) or alpha*B*A + beta*C (Right), A symmetric.
func VerifC01_Dsymm() {
	maxN := verifParam("l3n", 2)
	s := verifC01side("side")
	ul := verifC01uplo("uplo")
	m := verifChoose("m", 0, maxN)
	n := verifChoose("n", 0, maxN)
	padA, padB, padC := verifC01pads3()
	ka := n
	if s == blas.Left {
		ka = m
	}
	lda, ldb, ldc := verifC01ld(ka, padA), verifC01ld(n, padB), verifC01ld(n, padC)
	a := verifFloats("a", verifC01mlen(ka, ka, lda, padA))
	b := verifFloats("b", verifC01mlen(m, n, ldb, padB))
	c := verifFloats("c", verifC01mlen(m, n, ldc, padC))
	alpha, beta := verifC01alphabeta()
	a0, b0, c0 := verifC01clone(a), verifC01clone(b), verifC01clone(c)
	Implementation{}.Dsymm(s, ul, m, n, alpha, a, lda, b, ldb, beta, c, ldc)
	verifC01same(a, a0, "Dsymm: A unchanged")
	verifC01same(b, b0, "Dsymm: B unchanged")
	want := make([]float64, m*n)
	if m > 0 && n > 0 {
		d := verifC01denseSym(ul, ka, a0, lda)
		bm, _, _ := verifC01opMat(blas.NoTrans, b0, ldb, m, n)
		var ab []float64
		if s == blas.Left {
			ab = verifC01mm(m, n, m, d, bm)
		} else {
			ab = verifC01mm(m, n, n, bm, d)
		}
		for i := 0; i < m; i++ {
			for j := 0; j < n; j++ {
				want[i*n+j] = alpha*ab[i*n+j] + beta*c0[i*ldc+j]
			}
		}
	}
	verifC01checkBlock(c, c0, ldc, m, n, want, verifC01all, "Dsymm")
	verifReach("end")
}

// VerifC01_Dsyrk: referenced triangle of C = alpha*op(A)*op(A)T + beta*C.
func VerifC01_Dsyrk() {
	maxN := verifParam("l3n", 2)
	ul := verifC01uplo("uplo")
	tA := verifC01trans("trans")
	n := verifChoose("n", 0, maxN)
	k := verifChoose("k", 0, maxN)
	padA, padC := verifChoose("padA", 0, 1), verifChoose("padC", 0, 1)
	ra, ca := n, k
	if tA != blas.NoTrans {
		ra, ca = k, n
	}
	lda, ldc := verifC01ld(ca, padA), verifC01ld(n, padC)
	a := verifFloats("a", verifC01mlen(ra, ca, lda, padA))
	c := verifFloats("c", verifC01mlen(n, n, ldc, padC))
	alpha, beta := verifC01alphabeta()
	a0, c0 := verifC01clone(a), verifC01clone(c)
	Implementation{}.Dsyrk(ul, tA, n, k, alpha, a, lda, beta, c, ldc)
	verifC01same(a, a0, "Dsyrk: A unchanged")
	want := make([]float64, n*n)
	if n > 0 {
		var aat []float64
		if k > 0 {
			opA, _, _ := verifC01opMat(tA, a0, lda, ra, ca) // n x k
			aat = verifC01mm(n, n, k, opA, verifC01transpose(opA, n, k))
		} else {
			aat = make([]float64, n*n)
		}
		for i := 0; i < n; i++ {
			for j := 0; j < n; j++ {
				want[i*n+j] = alpha*aat[i*n+j] + beta*c0[i*ldc+j]
			}
		}
	}
	verifC01checkBlock(c, c0, ldc, n, n, want, func(i, j int) bool { return verifC01inTri(ul, i, j) }, "Dsyrk")
	verifReach("end")
}

// VerifC01_Dsyr2k: referenced triangle of C = alpha*op(A)*op(B)T + alpha*op(B)*op(A)T + beta*C.
func VerifC01_Dsyr2k() {
	maxN := verifParam("l3n", 2)
	ul := verifC01uplo("uplo")
	tA := verifC01trans("trans")
	n := verifChoose("n", 0, maxN)
	k := verifChoose("k", 0, maxN)
	padA, padB, padC := verifC01pads3()
	ra, ca := n, k
	if tA != blas.NoTrans {
		ra, ca = k, n
	}
	lda, ldb, ldc := verifC01ld(ca, padA), verifC01ld(ca, padB), verifC01ld(n, padC)
	a := verifFloats("a", verifC01mlen(ra, ca, lda, padA))
	b := verifFloats("b", verifC01mlen(ra, ca, ldb, padB))
	c := verifFloats("c", verifC01mlen(n, n, ldc, padC))
	alpha, beta := verifC01alphabeta()
	a0, b0, c0 := verifC01clone(a), verifC01clone(b), verifC01clone(c)
	Implementation{}.Dsyr2k(ul, tA, n, k, alpha, a, lda, b, ldb, beta, c, ldc)
	verifC01same(a, a0, "Dsyr2k: A unchanged")
	verifC01same(b, b0, "Dsyr2k: B unchanged")
	want := make([]float64, n*n)
	if n > 0 {
		abt, bat := make([]float64, n*n), make([]float64, n*n)
		if k > 0 {
			opA, _, _ := verifC01opMat(tA, a0, lda, ra, ca)
			opB, _, _ := verifC01opMat(tA, b0, ldb, ra, ca)
			abt = verifC01mm(n, n, k, opA, verifC01transpose(opB, n, k))
			bat = verifC01mm(n, n, k, opB, verifC01transpose(opA, n, k))
		}
		for i := 0; i < n; i++ {
			for j := 0; j < n; j++ {
				want[i*n+j] = alpha*abt[i*n+j] + alpha*bat[i*n+j] + beta*c0[i*ldc+j]
			}
		}
	}
	verifC01checkBlock(c, c0, ldc, n, n, want, func(i, j int) bool { return verifC01inTri(ul, i, j) }, "Dsyr2k")
	verifReach("end")
}

// VerifC01_Dtrmm: B = alpha*op(A)*B (Left) or alpha*B*op(A) (Right), A triangular.
func VerifC01_Dtrmm() {
	maxN := verifParam("l3n", 2)
	s := verifC01side("side")
	ul := verifC01uplo("uplo")
	tA := verifC01trans("trans")
	dg := verifC01diag("diag")
	m := verifChoose("m", 0, maxN)
	n := verifChoose("n", 0, maxN)
	padA, padB := verifChoose("padA", 0, 1), verifChoose("padB", 0, 1)
	ka := n
	if s == blas.Left {
		ka = m
	}
	lda, ldb := verifC01ld(ka, padA), verifC01ld(n, padB)
	a := verifFloats("a", verifC01mlen(ka, ka, lda, padA))
	b := verifFloats("b", verifC01mlen(m, n, ldb, padB))
	alpha := verifC01alpha()
	a0, b0 := verifC01clone(a), verifC01clone(b)
	Implementation{}.Dtrmm(s, ul, tA, dg, m, n, alpha, a, lda, b, ldb)
	verifC01same(a, a0, "Dtrmm: A unchanged")
	want := make([]float64, m*n)
	if m > 0 && n > 0 {
		d := verifC01denseTri(ul, dg, ka, a0, lda)
		if tA != blas.NoTrans {
			d = verifC01transpose(d, ka, ka)
		}
		bm, _, _ := verifC01opMat(blas.NoTrans, b0, ldb, m, n)
		var ab []float64
		if s == blas.Left {
			ab = verifC01mm(m, n, m, d, bm)
		} else {
			ab = verifC01mm(m, n, n, bm, d)
		}
		for i := range want {
			want[i] = alpha * ab[i]
		}
	}
	verifC01checkBlock(b, b0, ldb, m, n, want, verifC01all, "Dtrmm")
	verifReach("end")
}

// VerifC01_Dtrsm: op(A)*X = alpha*B (Left) or X*op(A) = alpha*B (Right) for a non-zero diagonal.
func VerifC01_Dtrsm() {
	maxN := verifParam("l3n", 2)
	s := verifC01side("side")
	ul := verifC01uplo("uplo")
	tA := verifC01trans("trans")
	dg := verifC01diag("diag")
	m := verifChoose("m", 0, maxN)
	n := verifChoose("n", 0, maxN)
	padA, padB := verifChoose("padA", 0, 1), verifChoose("padB", 0, 1)
	ka := n
	if s == blas.Left {
		ka = m
	}
	lda, ldb := verifC01ld(ka, padA), verifC01ld(n, padB)
	a := verifFloats("a", verifC01mlen(ka, ka, lda, padA))
	b := verifFloats("b", verifC01mlen(m, n, ldb, padB))
	alpha := verifC01alpha()
	if dg == blas.NonUnit && m > 0 && n > 0 {
		for i := 0; i < ka; i++ {
			verifAssume(a[i*lda+i] != 0)
		}
	}
	a0, b0 := verifC01clone(a), verifC01clone(b)
	Implementation{}.Dtrsm(s, ul, tA, dg, m, n, alpha, a, lda, b, ldb)
	verifC01same(a, a0, "Dtrsm: A unchanged")
	if m > 0 && n > 0 {
		d := verifC01denseTri(ul, dg, ka, a0, lda)
		if tA != blas.NoTrans {
			d = verifC01transpose(d, ka, ka)
		}
		xm, _, _ := verifC01opMat(blas.NoTrans, b, ldb, m, n)
		var ax []float64
		if s == blas.Left {
			ax = verifC01mm(m, n, m, d, xm)
		} else {
			ax = verifC01mm(m, n, n, xm, d)
		}
		for i := 0; i < m; i++ {
			for j := 0; j < n; j++ {
				verifAssertEqF(ax[i*n+j], alpha*b0[i*ldb+j], "Dtrsm: op(A)*X = alpha*B resp. X*op(A) = alpha*B")
			}
		}
	}
	for p := range b {
		if m == 0 || n == 0 || p%ldb >= n || p/ldb >= m {
			verifAssert(verifSame(b[p], b0[p]), "Dtrsm: padding / slack untouched")
		}
	}
	verifReach("end")
}
