package gonum

import "gonum.org/v1/gonum/blas"

// Shared helpers of the C01 harnesses (prefix verifC01).

// verifC01vlen: backing length of a strided vector with n elements plus slack cells.
func verifC01vlen(n, inc, slack int) int {
	if n <= 0 {
		return slack
	}
	return 1 + (n-1)*verifAbs(inc) + slack
}

func verifC01clone(s []float64) []float64 { return append([]float64(nil), s...) }

func verifC01same(got, want []float64, msg string) {
	for i := range got {
		verifAssert(verifSame(got[i], want[i]), msg)
	}
}

func verifC01eq(got, want []float64, msg string) {
	for i := range got {
		verifAssertEqF(got[i], want[i], msg)
	}
}

func verifC01absF(x float64) float64 {
	return verifIteF(x < 0, -x, x)
}

// verifC01inc: case split over the non-zero increments -2,-1,1,2.
func verifC01inc(name string) int {
	v := verifChoose(name, 0, 3)
	switch v {
	case 0:
		return -2
	case 1:
		return -1
	case 2:
		return 1
	}
	return 2
}

// verifC01posinc: case split over positive increments 1..3.
func verifC01posinc(name string) int { return verifChoose(name, 1, 3) }

// VerifC01_Ddot: result = sum x[i]*y[i] over the addressed elements; x, y unchanged.
func VerifC01_Ddot() {
	n := verifChoose("n", 0, verifParam("l1n", 4))
	incX := verifC01inc("incX")
	incY := verifC01inc("incY")
	slack := verifChoose("slack", 0, 1)
	x := verifFloats("x", verifC01vlen(n, incX, slack))
	y := verifFloats("y", verifC01vlen(n, incY, slack))
	x0, y0 := verifC01clone(x), verifC01clone(y)
	got := Implementation{}.Ddot(n, x, incX, y, incY)
	verifC01same(x, x0, "Ddot: x unchanged")
	verifC01same(y, y0, "Ddot: y unchanged")
	var want float64
	for i := 0; i < n; i++ {
		want += x0[verifVecIdx(n, incX, i)] * y0[verifVecIdx(n, incY, i)]
	}
	verifAssertEqF(got, want, "Ddot: sum of products of addressed elements")
	verifReach("end")
}

// VerifC01_Dscal: x[i] *= alpha on addressed elements (alpha symbolic, and concrete 0 / 1).
func VerifC01_Dscal() {
	n := verifChoose("n", 0, verifParam("l1n", 4)+1)
	incX := verifC01posinc("incX")
	slack := verifChoose("slack", 0, 1)
	x := verifFloats("x", verifC01vlen(n, incX, slack))
	alpha := verifFloat("alpha")
	switch verifChoose("alphaKind", 0, 2) {
	case 1:
		alpha = 0
	case 2:
		alpha = 1
	}
	x0 := verifC01clone(x)
	Implementation{}.Dscal(n, alpha, x, incX)
	want := verifC01clone(x0)
	for i := 0; i < n; i++ {
		want[i*incX] = alpha * x0[i*incX]
	}
	verifC01eq(x, want, "Dscal: x = alpha*x on addressed elements, rest untouched")
	// skipped slots and slack are bit-identical
	for i := range x {
		if n == 0 || i%incX != 0 || i/incX >= n {
			verifAssert(verifSame(x[i], x0[i]), "Dscal: unaddressed slot untouched")
		}
	}
	verifReach("end")
}

// VerifC01_DscalNegInc: documented: Dscal has no effect if incX < 0.
func VerifC01_DscalNegInc() {
	n := verifChoose("n", 0, 3)
	incX := -verifChoose("negIncX", 1, 2)
	slack := verifChoose("slack", 0, 1)
	x := verifFloats("x", verifC01vlen(n, incX, slack))
	alpha := verifFloat("alpha")
	x0 := verifC01clone(x)
	Implementation{}.Dscal(n, alpha, x, incX)
	verifC01same(x, x0, "Dscal: no effect for negative increment")
	verifReach("end")
}

// VerifC01_Dcopy: y[i] = x[i] on addressed elements; x and the rest of y unchanged.
func VerifC01_Dcopy() {
	n := verifChoose("n", 0, verifParam("l1n", 4))
	incX := verifC01inc("incX")
	incY := verifC01inc("incY")
	slack := verifChoose("slack", 0, 1)
	x := verifFloats("x", verifC01vlen(n, incX, slack))
	y := verifFloats("y", verifC01vlen(n, incY, slack))
	x0, y0 := verifC01clone(x), verifC01clone(y)
	Implementation{}.Dcopy(n, x, incX, y, incY)
	verifC01same(x, x0, "Dcopy: x unchanged")
	want := verifC01clone(y0)
	for i := 0; i < n; i++ {
		want[verifVecIdx(n, incY, i)] = x0[verifVecIdx(n, incX, i)]
	}
	verifC01same(y, want, "Dcopy: y[i] = x[i] bit for bit on addressed elements, rest untouched")
	verifReach("end")
}

// VerifC01_Dswap: x[i], y[i] exchanged on addressed elements; everything else unchanged.
func VerifC01_Dswap() {
	n := verifChoose("n", 0, verifParam("l1n", 4))
	incX := verifC01inc("incX")
	incY := verifC01inc("incY")
	slack := verifChoose("slack", 0, 1)
	x := verifFloats("x", verifC01vlen(n, incX, slack))
	y := verifFloats("y", verifC01vlen(n, incY, slack))
	x0, y0 := verifC01clone(x), verifC01clone(y)
	Implementation{}.Dswap(n, x, incX, y, incY)
	wx, wy := verifC01clone(x0), verifC01clone(y0)
	for i := 0; i < n; i++ {
		ix, iy := verifVecIdx(n, incX, i), verifVecIdx(n, incY, i)
		wx[ix], wy[iy] = y0[iy], x0[ix]
	}
	verifC01same(x, wx, "Dswap: x gets y bit for bit on addressed elements, rest untouched")
	verifC01same(y, wy, "Dswap: y gets x bit for bit on addressed elements, rest untouched")
	verifReach("end")
}

// VerifC01_Drot: x[i] = c*x[i]+s*y[i], y[i] = c*y[i]-s*x[i].
func VerifC01_Drot() {
	n := verifChoose("n", 0, verifParam("l1n", 4))
	incX := verifC01inc("incX")
	incY := verifC01inc("incY")
	slack := verifChoose("slack", 0, 1)
	x := verifFloats("x", verifC01vlen(n, incX, slack))
	y := verifFloats("y", verifC01vlen(n, incY, slack))
	c, s := verifFloat("c"), verifFloat("s")
	x0, y0 := verifC01clone(x), verifC01clone(y)
	Implementation{}.Drot(n, x, incX, y, incY, c, s)
	wx, wy := verifC01clone(x0), verifC01clone(y0)
	for i := 0; i < n; i++ {
		ix, iy := verifVecIdx(n, incX, i), verifVecIdx(n, incY, i)
		wx[ix] = c*x0[ix] + s*y0[iy]
		wy[iy] = c*y0[iy] - s*x0[ix]
	}
	verifC01eq(x, wx, "Drot: x = c*x+s*y on addressed elements, rest untouched")
	verifC01eq(y, wy, "Drot: y = c*y-s*x on addressed elements, rest untouched")
	for i := range x {
		if n == 0 || i%verifAbs(incX) != 0 {
			verifAssert(verifSame(x[i], x0[i]), "Drot: skipped x slot untouched")
		}
	}
	for i := range y {
		if n == 0 || i%verifAbs(incY) != 0 {
			verifAssert(verifSame(y[i], y0[i]), "Drot: skipped y slot untouched")
		}
	}
	verifReach("end")
}

// VerifC01_Drotm: [x;y] = H*[x;y] with H selected by the flag (reference BLAS drotm).
func VerifC01_Drotm() {
	n := verifChoose("n", 0, verifParam("l1n", 4)-1)
	incX := verifC01inc("incX")
	incY := verifC01inc("incY")
	slack := verifChoose("slack", 0, 1)
	flag := blas.Flag(verifChoose("flag", -2, 1))
	x := verifFloats("x", verifC01vlen(n, incX, slack))
	y := verifFloats("y", verifC01vlen(n, incY, slack))
	h := verifFloats("h", 4)
	var p blas.DrotmParams
	p.Flag = flag
	copy(p.H[:], h)
	x0, y0 := verifC01clone(x), verifC01clone(y)
	Implementation{}.Drotm(n, x, incX, y, incY, p)
	// H = [h11 h12; h21 h22] stored column major in p.H.
	var h11, h12, h21, h22 float64
	switch flag {
	case blas.Identity: // -2
		h11, h12, h21, h22 = 1, 0, 0, 1
	case blas.Rescaling: // -1
		h11, h21, h12, h22 = h[0], h[1], h[2], h[3]
	case blas.OffDiagonal: // 0
		h11, h21, h12, h22 = 1, h[1], h[2], 1
	case blas.Diagonal: // 1
		h11, h21, h12, h22 = h[0], -1, 1, h[3]
	}
	wx, wy := verifC01clone(x0), verifC01clone(y0)
	for i := 0; i < n; i++ {
		ix, iy := verifVecIdx(n, incX, i), verifVecIdx(n, incY, i)
		wx[ix] = h11*x0[ix] + h12*y0[iy]
		wy[iy] = h21*x0[ix] + h22*y0[iy]
	}
	verifC01eq(x, wx, "Drotm: x = h11*x+h12*y on addressed elements, rest untouched")
	verifC01eq(y, wy, "Drotm: y = h21*x+h22*y on addressed elements, rest untouched")
	verifReach("end")
}

// VerifC01_Dasum: result = sum |x[i]| over addressed elements; x unchanged.
func VerifC01_Dasum() {
	n := verifChoose("n", 0, verifParam("l1n", 4)+1)
	incX := verifC01posinc("incX")
	slack := verifChoose("slack", 0, 1)
	x := verifFloats("x", verifC01vlen(n, incX, slack))
	x0 := verifC01clone(x)
	got := Implementation{}.Dasum(n, x, incX)
	verifC01same(x, x0, "Dasum: x unchanged")
	var want float64
	for i := 0; i < n; i++ {
		want += verifC01absF(x0[i*incX])
	}
	verifAssertEqF(got, want, "Dasum: sum of |x[i]| over addressed elements")
	verifReach("end")
}

// VerifC01_Idamax: first index of the maximum |x[i]| over addressed elements; -1 for n==0.
func VerifC01_Idamax() {
	n := verifChoose("n", 0, verifParam("l1n", 4))
	incX := verifC01posinc("incX")
	slack := verifChoose("slack", 0, 1)
	x := verifFloats("x", verifC01vlen(n, incX, slack))
	x0 := verifC01clone(x)
	got := Implementation{}.Idamax(n, x, incX)
	verifC01same(x, x0, "Idamax: x unchanged")
	if n == 0 {
		verifAssert(got == -1, "Idamax: -1 for n == 0")
		verifReach("end")
		return
	}
	verifAssert(verifAnd(got >= 0, got < n), "Idamax: index in range")
	for i := 0; i < n; i++ {
		if got == i { // fork on the result; at most n feasible values
			g := verifC01absF(x0[i*incX])
			for j := 0; j < n; j++ {
				a := verifC01absF(x0[j*incX])
				verifAssert(a <= g, "Idamax: |x[idx]| is the maximum")
				if j < i {
					verifAssert(a < g, "Idamax: earliest index among ties")
				}
			}
		}
	}
	verifReach("end")
}

// VerifC01_Dnrm2: r >= 0 and r*r == sum x[i]^2 over addressed elements (exact reals).
func VerifC01_Dnrm2() {
	n := verifChoose("n", 0, verifParam("nrm2n", 3))
	incX := verifC01posinc("incX")
	slack := verifChoose("slack", 0, 1)
	x := verifFloats("x", verifC01vlen(n, incX, slack))
	x0 := verifC01clone(x)
	got := Implementation{}.Dnrm2(n, x, incX)
	verifC01same(x, x0, "Dnrm2: x unchanged")
	var ss float64
	for i := 0; i < n; i++ {
		ss += x0[i*incX] * x0[i*incX]
	}
	verifAssert(got >= 0, "Dnrm2: result non-negative")
	verifAssertEqF(got*got, ss, "Dnrm2: r*r = sum x[i]^2 over addressed elements")
	verifReach("end")
}

// VerifC01_Drotg: c*a+s*b = r, -s*a+c*b = 0, c^2+s^2 = 1 (exact reals). The harness forks on
// the signs and the magnitude order of a and b and on the scaling range before the call so that
// every min/max/copysign inside Drotg is decided by the path condition.
func VerifC01_Drotg() {
	a, b := verifFloat("a"), verifFloat("b")
	const safmin = 0x1p-1022
	const safmax = 1 / safmin
	cls := 0
	if a < 0 {
		cls |= 1
	}
	if b < 0 {
		cls |= 2
	}
	aa, ab := verifC01absF(a), verifC01absF(b)
	m := ab
	if aa > ab {
		cls |= 4
		m = aa
	}
	// bound: the unscaled range safmin <= max(|a|,|b|) <= safmax (scl == max(|a|,|b|)), or b == 0 / a == 0;
	// the clamped-scale cases do not decide (z3 NRA unknown after minutes)
	if a != 0 && b != 0 {
		verifAssume(m >= safmin)
		verifAssume(m <= safmax)
	}
	c, s, r, z := Implementation{}.Drotg(a, b)
	verifAssertEqF(c*a+s*b, r, "Drotg: c*a+s*b = r")
	verifAssertEqF(-s*a+c*b, 0, "Drotg: -s*a+c*b = 0")
	verifAssertEqF(c*c+s*s, 1, "Drotg: c^2+s^2 = 1")
	// r^2 = a^2+b^2 follows from the three identities above
	_, _ = z, cls
	verifReach("end")
}
